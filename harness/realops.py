"""Execute one protocol line on the REAL code of /repo's working tree and return the canonical
output line (the counterpart of `Coma.Driver.step`)."""
from __future__ import annotations

import io
import math
import sys
from fractions import Fraction

import os as _os
REPO = _os.environ.get("VERIF_REPO", "/repo")  # scratch worktree for seeded-change runs; registered checks use /repo
sys.path.insert(0, REPO)
sys.path.insert(0, REPO + "/sv")

import codec as C  # noqa: E402
from codec import L, OpticalMap, Peak, AlignmentSegment, num, rat  # noqa: E402

from src.alignment.aligner import AlignerEngine, Aligner  # noqa: E402
from src.alignment.alignment_position_scorer import AlignmentPositionScorer  # noqa: E402
from src.alignment.alignment_results import AlignmentResultRow, AlignmentResults  # noqa: E402
from src.alignment.segment_chainer import SegmentChainer, SequentialityScorer  # noqa: E402
from src.alignment.segment_with_resolved_conflicts import AlignmentSegmentConflictResolver  # noqa: E402
from src.alignment.segments_factory import AlignmentSegmentsFactory  # noqa: E402
from src.alignment.alignment_position import ScoredAlignedPair, AlignedPair  # noqa: E402
from src.correlation.vectorise import vectorisePositions, blur  # noqa: E402
from src.correlation.sequence_generator import SequenceGenerator  # noqa: E402
from src.correlation.optical_map import toRelativeGenomicPositions  # noqa: E402
from src.correlation.peaks_selector import PeaksSelector, SelectedPeak  # noqa: E402


def kvparse(toks):
    kv = {}
    for t in toks:
        if "=" in t:
            k, v = t.split("=", 1)
            kv[k] = v
    return kv


def ints(s):
    return [int(x) for x in s.split(",")] if s else []


def params(kv):
    return {"sp": int(kv["sp"]), "dp": int(kv["dp"]), "su": int(kv["su"]), "md": int(kv["md"]),
            "ms": int(kv["ms"]), "bs": int(kv["bs"])}


def frac(s):
    if "/" in s:
        a, b = s.split("/")
        return Fraction(int(a), int(b))
    return Fraction(int(s))


class _Score:
    def __init__(self, s):
        self.score = s


# Real objects are LONG-LIVED in the harness, as they are in a worker process of the program (one aligner, one resolver,
# one comparer serve every query): an operation is executed on an object that has already served other, unrelated
# operations, so state that survives from one call to the next (caches, memo tables, counters) shows up as a
# disagreement with the stateless model.  Objects are keyed by their construction parameters only.
_ALIGNERS, _RESOLVERS, _COMPARERS = {}, {}, {}


def make_aligner(P, mult, var, it=1):
    key = (P["sp"], P["dp"], P["su"], P["md"], P["ms"], P["bs"], mult, var)
    al = _ALIGNERS.get(key)
    if al is None:
        if len(_ALIGNERS) > 64:
            _ALIGNERS.clear()
        al = _ALIGNERS[key] = Aligner(AlignmentPositionScorer(P["sp"], P["dp"], P["su"]),
                                      AlignmentSegmentsFactory(P["ms"], P["bs"]), AlignerEngine(P["md"]),
                                      AlignmentSegmentConflictResolver(SegmentChainer(SequentialityScorer(mult, var))))
    al.alignmentEngine.iteration = it
    return al


_SHARED = {}


def shared(ctor, *args):
    """the long-lived instance of `ctor(*args)` of this worker process (see the note above `_ALIGNERS`)"""
    key = (ctor.__name__,) + tuple(args)
    if key not in _SHARED:
        if len(_SHARED) > 256:
            _SHARED.clear()
        _SHARED[key] = ctor(*args)
    return _SHARED[key]


def make_resolver(mult, var):
    key = (mult, var)
    if key not in _RESOLVERS:
        _RESOLVERS[key] = AlignmentSegmentConflictResolver(SegmentChainer(SequentialityScorer(mult, var)))
    return _RESOLVERS[key]


def mk_ends_seg(s):
    a, b, c, d, e, f = ints(s)
    # coordinates as Fractions: the real scorer's `/` is then exact (duck typing)
    a, b, d, e = Fraction(a), Fraction(b), Fraction(d), Fraction(e)
    p1 = ScoredAlignedPair(AlignedPair(L(0, a), L(c, b)), 0)
    p2 = ScoredAlignedPair(AlignedPair(L(0, d), L(f, e)), 0)
    return AlignmentSegment([p1, p2], 0, Peak(0, 1.0), [])


def cigar_row(pairs):
    ps = [ScoredAlignedPair(AlignedPair(L(r, 0), L(q, 0)), 0) for r, q in pairs]
    return AlignmentResultRow([AlignmentSegment(ps, 0, Peak(0, 1.0), ps)] if ps else [])


def bpairs(s):
    return [tuple(int(x) for x in t.split(":")) for t in s.split(",")] if s else []


def real_exec(line: str) -> str:
    toks = line.strip().split(" ")
    toks = [t for t in toks if t]
    if not toks:
        return ""
    op, kv = toks[0], kvparse(toks[1:])
    try:
        return _exec(op, kv)
    except BaseException as e:  # noqa
        if isinstance(e, (KeyboardInterrupt, SystemExit)) or type(e).__name__ == "_OpTimeout":
            raise
        return C.err(e)


def _exec(op, kv):
    if op == "PAIR":
        if kv.get("unit", "1") != "1":
            return _pair_fractional(kv)
        eng = shared(AlignerEngine, int(kv["md"]))
        eng.iteration = int(kv["it"])
        res = eng.align(C.parse_map(kv["REF"]), C.parse_map(kv["QRY"]), int(kv["start"]), int(kv["stop"]),
                        kv["rev"] == "1")
        return C.show_items(res)
    if op == "SEGS":
        den = int(kv.get("den", "1"))
        if den != 1:
            # scores in units of 1/den: the real factory computes with exact fractions (scores with two or more decimals)
            f = shared(AlignmentSegmentsFactory, Fraction(int(kv["ms"]), den), Fraction(int(kv["bs"]), den))
            pos = [_Score(Fraction(s, den)) for s in ints(kv["S"])]
        else:
            f = shared(AlignmentSegmentsFactory, int(kv["ms"]), int(kv["bs"]))
            pos = [_Score(s) for s in ints(kv["S"])]
        segs = f.getSegments(pos, Peak(0, 1.0))
        if len(segs) == 1 and segs[0].empty:
            return "E"
        out = []
        for s in segs:
            i0 = next(i for i, p in enumerate(pos) if p is s.positions[0])
            out.append(f"{i0}-{i0 + len(s.positions)}:{num(s.segmentScore * den)}")
            assert all(a is b for a, b in zip(s.positions, pos[i0:i0 + len(s.positions)]))
        return " ".join(out)
    if op == "JOIN":
        sc = shared(SequentialityScorer, frac(kv["mult"]), int(kv["var"]))
        v = sc.getScore(mk_ends_seg(kv["prev"]), mk_ends_seg(kv["cur"]))
        if v == -math.inf:
            return "-inf"
        return rat(v)
    if op == "CHAIN":
        P = params(kv)
        ch = shared(SegmentChainer, shared(SequentialityScorer, frac(kv["mult"]), int(kv["var"])))
        return C.show_segs(ch.chain(C.parse_segs(kv.get("SEG", ""), P)))
    if op == "OVERLAP":
        P = params(kv)
        return "1" if C.parse_seg(kv["L"], P).endOverlapsWithStartOf(C.parse_seg(kv["R"], P)) else "0"
    if op == "RESOLVE2":
        P = params(kv)
        l, r = C.parse_seg(kv["L"], P), C.parse_seg(kv["R"], P)
        pair = l.checkForConflicts(r)
        a, b = pair.resolveConflict()
        return f"{C.show_seg(a)};{C.show_seg(b)}"
    if op == "RESOLVEALL":
        P = params(kv)
        res = make_resolver(frac(kv["mult"]), int(kv["var"]))
        return C.show_segs(res.resolveConflicts(C.parse_segs(kv.get("SEG", ""), P)).segments)
    if op == "GETSEGS":
        P = params(kv)
        f = shared(AlignmentSegmentsFactory, P["ms"], P["bs"])
        return C.show_segs(f.getSegments(C.parse_items(kv.get("X", ""), P), Peak(int(kv["peak"]), 1.0)))
    if op == "CANDIDATE" and kv.get("unit", "1") != "1":
        return _candidate_fractional(kv)
    if op == "CANDIDATE":
        P = params(kv)
        den = int(kv.get("den", "1"))
        mult = frac(kv["mult"])
        if den != 1:
            # the line carries scores scaled by `den`; the real classes get the unscaled exact fractions (scores that are
            # not multiples of 0.1, 0.5 or 1), and the reported confidence is scaled back
            P = dict(P, sp=Fraction(P["sp"], den), dp=Fraction(P["dp"], den), su=Fraction(P["su"], den),
                     ms=Fraction(P["ms"], den), bs=Fraction(P["bs"], den))
            mult = mult / den
        al = make_aligner(P, mult, int(kv["var"]), int(kv["it"]))
        # only the POSITION of a secondary peak may matter to the aligner: heights / bases / scores are made different
        # from peak to peak (deterministically), so a dependence on them shows up as a disagreement with the model
        peaks = [Peak(p, float(10 + (p * 7919 + i * 104729) % 97), p - 50 * (i % 3), p + 50 * (i % 5), float((p * 31 + i) % 89))
                 for i, p in enumerate(ints(kv.get("peaks", "")))]
        row = al.align(C.parse_map(kv["REF"]), C.parse_map(kv["QRY"]), peaks, kv["rev"] == "1")
        if den != 1:
            c = Fraction(row.confidence) * den
            row.confidence = c.numerator if c.denominator == 1 else c
        return C.show_row(row) + " cigar=" + row.cigarString
    if op == "CIGAR":
        return cigar_row(bpairs(kv.get("P", ""))).cigarString
    if op in ("VEC", "SEQ") and kv.get("unit", "1") != "1":
        # label coordinates with one decimal: the line is in 1/unit bp (resolution, start and end included), the real
        # generator gets exact fractions and the integer resolution in bp
        u = int(kv["unit"])
        stop = None if kv["stop"] == "none" else Fraction(int(kv["stop"]), u)
        pos = [Fraction(x, u) for x in ints(kv.get("POS", ""))]
        assert int(kv["res"]) % u == 0
        if op == "VEC":
            return "".join(str(b) for b in vectorisePositions(pos, int(kv["res"]) // u, Fraction(int(kv["start"]), u), stop))
        v = shared(SequenceGenerator, int(kv["res"]) // u, int(kv["blur"])).positionsToSequence(pos, Fraction(int(kv["start"]), u), stop)
        return "".join(str(int(b)) for b in v)
    if op == "VEC":
        stop = None if kv["stop"] == "none" else int(kv["stop"])
        return "".join(str(b) for b in vectorisePositions(ints(kv.get("POS", "")), int(kv["res"]), int(kv["start"]), stop))
    if op == "BLUR":
        return "".join(str(int(b)) for b in blur([int(c) for c in kv.get("V", "")], int(kv["radius"])))
    if op == "CORR":
        import numpy as np
        from scipy.signal import correlate
        r = np.array([int(c) for c in kv.get("R", "")], dtype=float)
        q = np.array([int(c) for c in kv.get("Q", "")], dtype=float)
        if len(q) > len(r) or len(q) == 0:
            return " N="
        c = correlate(r, q, mode='valid', method='fft')
        n = correlate(r, np.ones(len(q)), mode='valid', method='fft') + np.sum(q)
        assert np.max(np.abs(c - np.rint(c))) < 1e-6 and np.max(np.abs(n - np.rint(n))) < 1e-6
        return ",".join(str(int(x)) for x in np.rint(c)) + " N=" + ",".join(str(int(x)) for x in np.rint(n))
    if op == "SEQ":
        stop = None if kv["stop"] == "none" else int(kv["stop"])
        v = shared(SequenceGenerator, int(kv["res"]), int(kv["blur"])).positionsToSequence(ints(kv.get("POS", "")), int(kv["start"]), stop)
        return "".join(str(int(b)) for b in v)
    if op == "GETSEQ":
        stop = None if kv["stop"] == "none" else int(kv["stop"])
        v = C.parse_map(kv["M"]).getSequence(shared(SequenceGenerator, int(kv["res"]), int(kv["blur"])), kv["rev"] == "1", int(kv["start"]), stop)
        return "".join(str(int(b)) for b in v)
    if op == "XCORR":
        # exactly the call `refine` makes: integer arrays, mode 'valid', method 'fft'
        import numpy as np
        from scipy.signal import correlate
        r = np.array([int(c) for c in kv.get("R", "")], dtype=np.int64)
        q = np.array([int(c) for c in kv.get("Q", "")], dtype=np.int64)
        c = correlate(r, q, mode='valid', method='fft')
        assert c.dtype.kind == "i", c.dtype
        return ",".join(str(int(x)) for x in c)
    if op == "FINDPEAKS":
        # exactly the call `refine` makes (optical_map.py:206-211)
        import numpy as np
        from scipy.signal import find_peaks
        x = np.array(ints(kv.get("X", "")), dtype=np.int64)
        thr = frac(kv["thr"])
        pk, pr = find_peaks(x, height=float(thr), width=(None, None), prominence=0.05 * x.max(initial=0))
        return ",".join(f"{int(p)}:{num(h)}" for p, h in zip(pk, pr["peak_heights"]))
    if op == "REFINE":
        import numpy as np
        from src.correlation.optical_map import InitialAlignment
        res, bl, margin, thr = kv["sec"].split(",")
        ref, qry = C.parse_map(kv["REF"]), C.parse_map(kv["QRY"])
        ia = InitialAlignment(np.array([]), qry, ref, [], kv["rev"] == "1", 0., 1400, 1)
        ra = ia.refine(int(kv["peak"]), shared(SequenceGenerator, int(res), int(bl)), int(margin), float(frac(thr)))
        pk = [(p.position, p.height) for p in ra.peaks]
        # more than 10 pass find_peaks <=> createPeaks went through argpartition; observable only through the
        # correlation the result carries: re-count with the same call
        from scipy.signal import find_peaks
        allh = sorted(find_peaks(ra.correlation, height=float(frac(thr)), width=(None, None),
                                 prominence=0.05 * ra.correlation.max(initial=0))[1]["peak_heights"], reverse=True)
        n = len(allh)
        show = lambda ps: ",".join(f"{num(p)}:{num(h)}" for p, h in ps)  # noqa: E731
        if n <= 10:
            return f"n={n} " + show(pk)
        pk = sorted(pk)
        if allh[9] == allh[10]:
            h = min(x[1] for x in pk)
            strict = [x for x in pk if x[1] > h]
            return "n=many " + show(strict) + f" +{len(pk) - len(strict)}@{num(h)}"
        return "n=many " + show(pk)
    if op == "PRIMARY":
        # the primary stage is NOT in the model (its normalising factor carries FFT rounding noise, which decides exact
        # ties); this op only feeds the model-independent oracle `oracle_primary`
        ref, qry = C.parse_map(kv["REF"]), C.parse_map(kv["QRY"])
        ia = qry.getInitialAlignment(ref, shared(SequenceGenerator, int(kv["res"]), int(kv["blur"])), int(kv["mpd"]), int(kv["count"]),
                                     kv["rev"] == "1")
        if type(ia).__name__ == "EmptyInitialAlignment":
            return "EMPTY"
        return f"n={len(ia.correlation)} " + ",".join(f"{num(p.position)}:{float(p.height)!r}:{float(p.score)!r}" for p in ia.peaks)
    if op == "TOPN":
        import numpy as np
        from src.correlation.optical_map import CorrelationResult
        bins = np.array(ints(kv.get("B", "")), dtype=int)
        hs = np.array(ints(kv.get("H", "")), dtype=float)
        props = {"peak_heights": hs, "left_ips": bins.astype(float), "right_ips": bins.astype(float)}
        peaks = CorrelationResult.createPeaks(bins, props, int(kv["res"]), int(kv["start"]), 0., int(kv["count"]))
        return ",".join(f"{num(p.position)}:{num(p.height)}" for p in sorted(peaks, key=lambda p: p.position))
    if op == "TOBP":
        import numpy as np
        return num(toRelativeGenomicPositions(np.array([int(kv["bin"])]), int(kv["res"]), int(kv["start"]))[0])
    if op == "SELECT":
        # S = scores of all peaks in arrival order; G = how many of them each correlation holds (default: one
        # correlation); H = heights (default: the scores).  Real CorrelationResult objects, so that anything the selector
        # may legitimately look at (peaks, maxPeak, getScore) is there.
        import numpy as np
        from src.correlation.optical_map import CorrelationResult
        sc = ints(kv.get("S", ""))
        hs = ints(kv.get("H", "")) if kv.get("H") else sc
        groups = ints(kv.get("G", "")) if kv.get("G") else [len(sc)]
        corrs, i = [], 0
        for g in groups:
            peaks = [Peak(j, hs[j], 0, 0, sc[j]) for j in range(i, i + g)]
            corrs.append(CorrelationResult(np.array([]), None, None, peaks, False, 0.))
            i += g
        sel = shared(PeaksSelector, int(kv["count"])).selectPeaks(iter(corrs))
        return ",".join(str(sp.peak.position) for sp in sel)
    if op == "FILTER":
        es = [t for t in kv.get("ROWS", "").split(",") if t]
        rows = []
        for i, e in enumerate(es):
            a, b = e.split(":")
            rows.append(AlignmentResultRow([], int(a), 1, i, confidence=int(b)))
        return ",".join(str(r.queryLength) for r in AlignmentResults.filterOutSubsequentAlignmentsForSingleQuery(rows))
    if op == "FRAGS":
        P = {"sp": 1000, "dp": 1, "su": -250}
        kvr = dict(kv)
        row = C.parse_row_t("~".join(f"{k}={kvr.get(k, '')}" for k in ["q", "r", "ql", "rl", "qs", "qe", "rs", "re", "rev", "conf", "rest", "SEG"]), P)
        qs = [C.parse_map(t) for t in kv.get("QS", "").split("/") if t]
        return "/".join(C.show_map(m) for m in row.getUnalignedFragments(qs))
    if op == "CHECKOVERLAP":
        P = {"sp": 1000, "dp": 1, "su": -250}
        return "1" if C.parse_row_t(kv["A"], P).check_overlap(C.parse_row_t(kv["B"], P), int(kv["diff"])) else "0"
    if op == "JOINROWS":
        P = params(kv)
        j = C.parse_row_t(kv["A"], P).resolve(C.parse_row_t(kv["B"], P))
        return "None" if j is None else C.show_row(j) + " cigar=" + j.cigarString
    if op == "RESOLVEROWS":
        P = params(kv)
        rows = [C.parse_row_t(t, P) for t in kv.get("ROWS", "").split("^") if t]
        j, s = AlignmentResults.resolve(rows, int(kv["diff"]))
        return "J=" + "^".join(C.show_row_t(r) for r in j) + " S=" + "^".join(C.show_row_t(r) for r in s)
    if op == "READCMAP":
        return _readcmap(kv)
    if op == "TRIM":
        if kv.get("unit", "1") != "1":
            # coordinates of the line are in 1/unit bp; the real map gets exact fractions (CMAP coordinates carry one
            # decimal). The trimmed length `last - first + 1` bp is `last' - first' + unit` units: canonical form = the
            # model's `last' - first' + 1`
            u = int(kv["unit"])
            a, b, c, d = kv["M"].split(":")
            m = OpticalMap(int(a), Fraction(int(b) + u - 1, u), [Fraction(int(x), u) for x in d.split(",")] if d else [], int(c)).trim()
            ln = m.length * u - (u - 1) if d else m.length * u - (u - 1)
            return f"{num(m.moleculeId)}:{num(ln)}:{num(m.shift)}:{','.join(num(p * u) for p in m.positions)}"
        return C.show_map(C.parse_map(kv["M"]).trim())
    if op == "LABELS":
        return " ".join(f"{num(l.siteId)}:{num(l.position)}" for l in C.parse_map(kv["M"]).getPositionsWithSiteIds(kv["rev"] == "1"))
    if op == "XROW":
        return _xrow(kv)
    if op == "COMPARE":
        return _compare(kv)
    if op == "CLUSTER":
        return _cluster(kv)
    if op == "CALL":
        return _call(kv)
    if op == "CALLS":
        return _calls_loop(kv)
    if op == "DEFAULTS":
        return _defaults()
    if op == "INDELFILE":
        return _indelfile(kv)
    return "bad-op"


# ---------------------------------------------------------------- text ops
def _readcmap(kv):
    from src.parsers.cmap_reader import CmapReader
    unit = int(kv["unit"])
    rows = [tuple(int(x) for x in t.split(":")) for t in kv.get("ROWS", "").split(",") if t]
    ids = ints(kv.get("ids", ""))
    extra = kv.get("extra", "0") == "1"
    hdr = "#h CMapId\tContigLength\tNumSites\tSiteID\tLabelChannel\tPosition\tStdDev\tCoverage\tOccurrence"
    if extra:
        hdr += "\tGmeanSNR\tlnSNRsd"
    text = "# CMAP File Version:\t0.1\n" + hdr + "\n#f int\tfloat\tint\tint\tint\tfloat\tfloat\tfloat\tfloat\n"
    for (mid, chan, pos) in rows:
        p = pos / unit if unit != 1 else float(pos)
        ps = f"{pos // unit}.{pos % unit}" if unit == 10 else f"{pos}.0"
        line = f"{mid}\t0.0\t0\t0\t{chan}\t{ps}\t0.0\t1.0\t1.0"
        if extra:
            line += "\t12.5\t0.3"
        text += line + "\n"
    maps = shared(CmapReader).readQueries(io.StringIO(text), ids)
    out = []
    for m in maps:
        pos = [round(p * unit) for p in m.positions]
        assert all(abs(p * unit - round(p * unit)) < 1e-6 for p in m.positions)
        out.append(f"{num(m.moleculeId)}:{num(m.length)}:{num(m.shift)}:{','.join(str(p) for p in pos)}")
    return "/".join(out)


_XROW_DIR = None


def _xrow(kv):
    """write one row with the real writer, return its data line and what the real reader returns"""
    import os
    import tempfile
    from src.parsers.xmap_reader import XmapReader
    from src.args import Args
    pairs = bpairs(kv.get("P", ""))

    class FakeRow:
        pass
    r = FakeRow()
    r.queryId, r.referenceId = int(kv["q"]), int(kv["r"])
    r.queryStartPosition, r.queryEndPosition = float(kv["qs"]), float(kv["qe"])
    r.referenceStartPosition, r.referenceEndPosition = float(kv["rs"]), float(kv["re"])
    r.orientation = "-" if kv["rev"] == "1" else "+"
    r.confidence = int(kv["c100"]) / 100.0
    r.cigarString = kv.get("hit", "")
    r.queryLength, r.referenceLength = float(kv["ql"]), int(kv["rl"])
    r.alignedRest = kv["rest"] == "1"
    r.alignedPairs = [AlignedPair(L(a, 0), L(b, 0)) for a, b in pairs]
    eid = int(kv["eid"])
    rows = [r] * eid  # the row of interest is the last one: XmapEntryID = eid
    res = AlignmentResults("r.cmap", "q.cmap", rows)
    # ONE output path per worker process, rewritten by every operation and read back with the same long-lived reader:
    # what a reader returns must be what the file contains NOW (a user re-runs into the same -o path)
    global _XROW_DIR
    if _XROW_DIR is None or not os.path.isdir(_XROW_DIR):
        import atexit
        import shutil as _sh
        _XROW_DIR = tempfile.mkdtemp(prefix="xrow", dir=os.environ.get("VERIF_TMP") or None)
        atexit.register(_sh.rmtree, _XROW_DIR, True)
    d = _XROW_DIR
    try:
        p = os.path.join(d, "o.xmap")
        with open(p, "w") as f:
            class A:
                pass
            a = A()
            a.x = 1
            shared(XmapReader).writeAlignments(f, res, a)
        lines = [l.rstrip("\n") for l in open(p) if not l.startswith("#")]
        line = lines[-1]
        with open(p) as f:
            als = shared(XmapReader).readAlignments(f)
        y = als[-1]
        import math as _m
        hit = y.cigarString
        if isinstance(hit, float) and _m.isnan(hit):
            hit = ""
        rd = "|".join([num(y.alignmentId), num(y.queryId), num(y.referenceId), num(y.queryStartPosition),
                       num(y.queryEndPosition), num(y.referenceStartPosition), num(y.referenceEndPosition),
                       "1" if y.reverseStrand else "0", str(int(round(y.confidence * 100))), str(hit),
                       num(y.queryLength), num(y.referenceLength),
                       ",".join(f"{p.reference.siteId}:{p.query.siteId}" for p in y.alignedPairs)])
    finally:
        pass
    return line.replace("\t", "|") + " READ " + rd


# ---------------------------------------------------------------- compare
def _bals(s):
    from src.diagnostic.benchmark_alignment import BenchmarkAlignedPair

    class Al:
        reverseStrand = False

        @property
        def orientation(self):
            return "+"
    out = []
    for e in [t for t in s.split(";") if t]:
        k, ps = e.split("@")
        a, b = k.split(":")
        al = Al()
        al.queryId, al.referenceId = int(a), int(b)
        al.alignedPairs = [BenchmarkAlignedPair.create(str(r), str(q)) for r, q in bpairs(ps)]
        out.append(al)
    return out


def compare_real(flag, A, B):
    """returns (comparison, matcher records)"""
    import src.diagnostic.alignment_comparer as ac
    from difflib import SequenceMatcher
    rec = []

    class Rec(SequenceMatcher):
        def ratio(self):
            m = sum(t[-1] for t in self.get_matching_blocks())
            rec.append((list(self.a), list(self.b), m))
            return super().ratio()
    old = ac.SequenceMatcher
    ac.SequenceMatcher = Rec
    try:
        # a long-lived comparer that has already compared a PREFIX of the same list object: the comparison of the grown
        # list must be what a fresh comparer returns
        key = bool(flag)
        if key not in _COMPARERS:
            _COMPARERS[key] = ac.AlignmentComparer(ac.AlignmentRowComparer(flag))
        shared = _COMPARERS[key]
        X = list(A[:len(A) // 2])
        shared.compare(X, B)
        X.extend(A[len(A) // 2:])
        del rec[:]
        cmp = shared.compare(X, B)
        rec_shared = list(rec)
        del rec[:]
        fresh = ac.AlignmentComparer(ac.AlignmentRowComparer(flag)).compare(A, B)
        if show_comparison(fresh) != show_comparison(cmp):
            class Stateful:
                pass
            bad = Stateful()
            bad.stateful = (show_comparison(cmp), show_comparison(fresh))
            return bad, rec
        rec[:] = rec_shared if not rec else rec
    finally:
        ac.SequenceMatcher = old
    return cmp, rec


def _sp(ps):
    return ",".join(f"{p.reference.siteId}:{p.query.siteId}" for p in ps)


def show_comparison(cmp):
    import src.diagnostic.alignment_comparer as ac
    if hasattr(cmp, "stateful"):
        return "STATEFUL-COMPARER reused=" + cmp.stateful[0].replace(" ", "~") + " fresh=" + cmp.stateful[1].replace(" ", "~")
    rows = []
    for r in cmp.rows:
        t = {ac.AlignmentRowComparisonResultType.BOTH: "B", ac.AlignmentRowComparisonResultType.FIRST_ONLY: "F",
             ac.AlignmentRowComparisonResultType.SECOND_ONLY: "S"}[r.type]
        d1 = sorted(r.alignment1ExclusivePairs, key=lambda p: (p.reference.siteId, p.query.siteId))
        d2 = sorted(r.alignment2ExclusivePairs, key=lambda p: (p.reference.siteId, p.query.siteId))
        rows.append(f"{r.queryId}:{r.referenceId}:{t}:{rat(Fraction(r.identity).limit_denominator(10**6))}:"
                    f"{rat(Fraction(r.alignment1Coverage).limit_denominator(10**6))}:"
                    f"{rat(Fraction(r.alignment2Coverage).limit_denominator(10**6))}:{_sp(d1)}/{_sp(d2)}")
    return (f"ov={cmp.overlapping} non={cmp.nonOverlapping} first={cmp.firstOnly} second={cmp.secondOnly} "
            f"ROWS={';'.join(rows)}")


def _compare(kv):
    cmp, _ = compare_real(kv["flag"] == "1", _bals(kv.get("A", "")), _bals(kv.get("B", "")))
    return show_comparison(cmp)


def matcher_table(flag, A_s, B_s):
    _, rec = compare_real(flag, _bals(A_s), _bals(B_s))
    return ";".join(f"{_sp(a)}|{_sp(b)}>{m}" for a, b, m in rec)


# ---------------------------------------------------------------- indels
def _calls(s):
    out = []
    for e in [t for t in s.split(";") if t]:
        a, b, c, d, q, f, g, l = e.split(":")
        out.append(["insertion" if a == "1" else "deletion", int(b), int(c), int(d), int(q), int(f), int(g), frac(l)])
    return out


def _show_call(c):
    qids = str(c[4])
    return f"{1 if c[0] == 'insertion' else 0}:{c[1]}:{c[2]}:{c[3]}:{qids}:{c[5]}:{c[6]}:{rat(c[7])}:{c[8]}"


def _cluster(kv):
    """clusters the SAME row objects twice (as a caller that clusters at two blur distances, or writes the file twice,
    does): the caller's rows must come back untouched and the second clustering must equal the first"""
    import copy
    from write_indel_files import cluster_indels
    calls = _calls(kv.get("CALLS", ""))
    before = copy.deepcopy(calls)
    out1 = ";".join(_show_call(c) for c in cluster_indels(calls, int(kv["blur"])))
    if calls != before:
        return "MUTATED-INPUT " + out1
    out2 = ";".join(_show_call(c) for c in cluster_indels(calls, int(kv["blur"])))
    if out2 != out1:
        return "NOT-REPEATABLE " + out1 + " || " + out2
    return out1


def _indelfile(kv):
    """the real writer on the dictionary the finders build ({'insertion': [...], 'deletion': [...]}),
    then the data lines of the file it wrote"""
    import os
    import tempfile
    from fractions import Fraction
    from write_indel_files import write_indel_file
    ins, dels = _calls(kv.get("INS", "")), _calls(kv.get("DEL", ""))
    # ONE report path per worker process, written again by every operation (the scripts have fixed default report names,
    # a user re-runs them): the report must hold the calls of THIS run only
    global _XROW_DIR
    if _XROW_DIR is None or not os.path.isdir(_XROW_DIR):
        import atexit
        import shutil as _sh
        _XROW_DIR = tempfile.mkdtemp(prefix="xrow", dir=os.environ.get("VERIF_TMP") or None)
        atexit.register(_sh.rmtree, _XROW_DIR, True)
    path = os.path.join(_XROW_DIR, "indels.txt")
    write_indel_file({"insertion": ins, "deletion": dels}, "x.xmap", path)
    lines = [l.rstrip("\n") for l in open(path)]
    assert lines[0] == "#x.xmap" and lines[1].startswith("#Type"), lines[:2]
    out = []
    for l in lines[2:]:
        if l.startswith("#"):
            continue                      # a second header block (a report that was appended to): its rows are reported as they stand
        f = l.split("\t")
        assert len(f) == 9, l
        out.append(f"{1 if f[0] == 'insertion' else 0}:{int(f[1])}:{int(f[2])}:{int(f[3])}:{f[4]}:{int(f[5])}:{int(f[6])}:{rat(Fraction(f[7]))}:{int(f[8])}")
    return ";".join(out)


def _call(kv):
    """drive the two real finders with a single two-pair alignment"""
    from src.diagnostic.benchmark_alignment import BenchmarkAlignedPair
    lo = int(kv["lo"])
    chrom, qid = int(kv["chrom"]), int(kv["qid"])
    rs, re_, qs, qe = int(kv["rs"]), int(kv["re"]), int(kv["qs"]), int(kv["qe"])

    class M:
        pass
    rm, qm = M(), M()
    rm.positions, qm.positions = [rs, re_], [qs, qe]

    class Al:
        pass
    al = Al()
    al.queryId, al.referenceId = qid, chrom
    al.alignedPairs = [BenchmarkAlignedPair.create("1", "1"), BenchmarkAlignedPair.create("2", "2")]
    if lo == 2000:
        import molecule_indels as mi
        ind = mi.look_for_indels_in_breakage({chrom: [al]}, {chrom: rm}, {qid: qm}, {qid: [0, al.alignedPairs[0]]})
    else:
        import segment_indels as si
        ind = si.look_for_indels_in_breakage({chrom: [al]}, {chrom: rm}, {qid: qm}, {qid: [[0, al.alignedPairs[0]]]})
    calls = ind["insertion"] + ind["deletion"]
    if not calls:
        return "none"
    c = calls[0] + [1]
    assert (c[0] == "insertion") == (calls[0] in ind["insertion"])
    return _show_call(c)


def _calls_loop(kv):
    """the two real `look_for_indels_in_breakage` loops on one alignment with several pairs: positions[siteId - 1]
    look-ups, the `len(alignedPairs) > index + 1` guard (segment finder), several breakage places"""
    from src.diagnostic.benchmark_alignment import BenchmarkAlignedPair
    chrom, qid = int(kv["chrom"]), int(kv["qid"])

    class M:
        pass
    rm, qm = M(), M()
    rm.positions, qm.positions = ints(kv.get("R", "")), ints(kv.get("Q", ""))

    class Al:
        pass
    al = Al()
    al.queryId, al.referenceId = qid, chrom
    al.alignedPairs = [BenchmarkAlignedPair.create(str(r), str(q)) for r, q in bpairs(kv.get("PAIRS", ""))]
    if kv["variant"] == "seg":
        import segment_indels as si
        bp = [[i, None] for i in ints(kv.get("BP", ""))]
        ind = si.look_for_indels_in_breakage({chrom: [al]}, {chrom: rm}, {qid: qm}, {qid: bp})
        # the finder appends to two lists: canonical order = insertions as found, then deletions as found
        return ";".join(_show_call(c + [1]) for c in list(ind["insertion"]) + list(ind["deletion"]))
    import molecule_indels as mi
    r, q = bpairs(kv["BPAIR"])[0]
    ind = mi.look_for_indels_in_breakage({chrom: [al]}, {chrom: rm}, {qid: qm},
                                         {qid: [int(kv["BP"]), BenchmarkAlignedPair.create(str(r), str(q))]})
    return ";".join(_show_call(c + [1]) for c in ind["insertion"] + ind["deletion"])


def _defaults():
    """what the real `Args.parse` + `WorkflowCoordinatorFactory.create` build from an argument list without options,
    read off the constructed objects (scorer, segment factory, pairing engine, chainer, sequence generators, peak
    selector) — not off the Args fields — so that a mix-up in the factory's wiring shows as well"""
    import os
    import tempfile
    from src.args import Args
    from src.extensions.dispatcher import Dispatcher
    from src.workflow_coordinator_factory import WorkflowCoordinatorFactory
    d = tempfile.mkdtemp(prefix="defaults", dir=os.environ.get("VERIF_TMP"))
    try:
        r, q, o = (os.path.join(d, n) for n in ("r.cmap", "q.cmap", "o.xmap"))
        for p in (r, q):
            open(p, "w").close()
        args = Args.parse(["-r", r, "-q", q, "-o", o])
        wc = WorkflowCoordinatorFactory(args, Dispatcher([]), None).create()
        for f in (args.referenceFile, args.queryFile, args.outputFile):
            f.close()
        al = wc.aligner
        sc = al.scorer
        fac = al.segmentsFactory
        ch = al.segmentConflictResolver.segmentChainer.sequentialityScorer
        g2 = wc.secondaryGenerator
        get = lambda o, *names: next(getattr(o, n) for n in names if hasattr(o, n))  # noqa: E731
        return (f"sp={num(get(sc, 'perfectMatchScore'))} dp={num(get(sc, 'distancePenaltyMultiplier', 'scoreMultiplier'))} "
                f"su={num(get(sc, 'unmatchedPenalty'))} md={num(al.alignmentEngine.maxDistance)} ms={num(fac.minScore)} "
                f"bs={num(fac.breakSegmentThreshold)} r2={num(g2.resolution)} b2={num(g2.blurRadius)} ma={num(args.secondaryMargin)} "
                f"pt={rat(Fraction(args.peakHeightThreshold))} keep=10 sj={rat(Fraction(get(ch, 'segmentJoinMultiplier', 'multiplier')))} "
                f"ss={num(get(ch, 'sequentialityScore', 'variant'))} diff={num(args.maxDifference)}")
    finally:
        import shutil
        shutil.rmtree(d, ignore_errors=True)


def _pair_fractional(kv):
    """PAIR with coordinates in 1/unit bp: the real engine gets exact `Fraction` coordinates (duck typing), everything it
    returns is scaled back to integer units.  The molecule length L (bp) only enters through `L - 1 - p` on the reverse
    strand; the line carries `L' = unit*L - (unit - 1)` so that the model's `L' - 1 - p'` is `unit*(L - 1 - p)`."""
    u = int(kv["unit"])

    def fmap(s):
        a, b, c, d = s.split(":")
        return OpticalMap(int(a), Fraction(int(b) + u - 1, u), [Fraction(int(x), u) for x in d.split(",")] if d else [], int(c))
    eng = shared(AlignerEngine, Fraction(int(kv["md"]), u))
    eng.iteration = int(kv["it"])
    res = eng.align(fmap(kv["REF"]), fmap(kv["QRY"]), Fraction(int(kv["start"]), u), Fraction(int(kv["stop"]), u), kv["rev"] == "1")
    out = []
    for p in res:
        if isinstance(p, AlignedPair):
            out.append(f"P:{num(p.reference.siteId)}:{num(p.reference.position * u)}:{num(p.query.siteId)}:{num(p.query.position * u)}:{num(p.queryShift * u)}")
        elif type(p).__name__ == "NotAlignedReferencePosition":
            out.append(f"R:{num(p.reference.siteId)}:{num(p.reference.position * u)}")
        else:
            out.append(f"Q:{num(p.query.siteId)}:{num(p.query.position * u)}:{num(p.referenceStart * u)}")
    return ",".join(out)


def _candidate_fractional(kv):
    """CANDIDATE with coordinates in 1/unit bp (CMAP coordinates carry one decimal): the line carries the MODEL's integers —
    coordinates, peaks and maxDistance in units, score parameters multiplied by unit (a pair scores
    unit*sp - dp*|shift in units|), molecule lengths as L' = unit*L - (unit - 1).  The real aligner gets the true values as
    exact fractions; everything it returns is scaled back."""
    u = int(kv["unit"])
    P = params(kv)
    Pr = dict(sp=Fraction(P["sp"], u), dp=P["dp"], su=Fraction(P["su"], u), md=Fraction(P["md"], u), ms=Fraction(P["ms"], u), bs=Fraction(P["bs"], u))
    al = make_aligner(Pr, frac(kv["mult"]), int(kv["var"]), int(kv["it"]))

    def fmap(t):
        a, b, c, d = t.split(":")
        return OpticalMap(int(a), Fraction(int(b) + u - 1, u), [Fraction(int(x), u) for x in d.split(",")] if d else [], int(c))
    peaks = [Peak(Fraction(p, u), float(10 + (p * 7919 + i * 104729) % 97), 0, 0, float((p * 31 + i) % 89)) for i, p in enumerate(ints(kv.get("peaks", "")))]
    qmap = fmap(kv["QRY"])
    if kv.get("trimq") == "1":
        qmap = qmap.trim()
    row = al.align(fmap(kv["REF"]), qmap, peaks, kv["rev"] == "1")

    def sc(x):          # a coordinate or score, scaled back to integer units (an empty segment scores float 0.0: sums may be floats)
        if isinstance(x, float):
            return str(round(x * u))
        return num(x * u)

    def ln(x):          # a molecule length L -> L'
        return num(x * u - (u - 1))

    def item(p):
        if type(p).__name__ == "ScoredNotAlignedPosition":
            p = p.position
        if isinstance(p, AlignedPair):
            return f"P:{num(p.reference.siteId)}:{sc(p.reference.position)}:{num(p.query.siteId)}:{sc(p.query.position)}:{sc(p.queryShift)}"
        if type(p).__name__ == "NotAlignedReferencePosition":
            return f"R:{num(p.reference.siteId)}:{sc(p.reference.position)}"
        return f"Q:{num(p.query.siteId)}:{sc(p.query.position)}:{sc(p.referenceStart)}"
    segs = ";".join(f"{sc(s.peak.position)}|" + ",".join(item(p) for p in s.positions) for s in row.segments)
    return (f"q={num(row.queryId)} r={num(row.referenceId)} ql={ln(row.queryLength)} rl={ln(row.referenceLength)} "
            f"qs={sc(row.queryStartPosition)} qe={sc(row.queryEndPosition)} rs={sc(row.referenceStartPosition)} "
            f"re={sc(row.referenceEndPosition)} rev={1 if row.reverseStrand else 0} conf={sc(row.confidence)} "
            f"rest={1 if row.alignedRest else 0} SEG={segs} cigar={row.cigarString}")
