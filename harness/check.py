"""./check <Cxx> [--tier quick|thorough] [--replay file]"""
from __future__ import annotations

import argparse
import json
import os
import random
import sys
import traceback

HERE = os.path.dirname(os.path.abspath(__file__))
sys.path.insert(0, HERE)


def main():
    ap = argparse.ArgumentParser()
    ap.add_argument("prop")
    ap.add_argument("--tier", default=os.environ.get("VERIF_TIER", "quick"), choices=["quick", "thorough"])
    ap.add_argument("--replay", default=None)
    a = ap.parse_args()
    seed = int(os.environ.get("VERIF_SEED", "1"))
    try:
        import checklib
        import proto
        import props
        if a.prop not in props.REGISTRY:
            print(f"unknown property {a.prop}", file=sys.stderr)
            return 2
        proto.ensure_driver()
        if a.replay:
            return replay(a.prop, a.replay)
        reg = props.REGISTRY[a.prop]
        run = checklib.Run(a.prop, a.tier, seed)
        rng = random.Random(seed * 1000003 + int(a.prop[1:]))
        lean = checklib.lean_status(a.prop, a.tier)
        extra = reg["run"](run, rng) or {}
        # a file this property depends on differs from the tree the model was last validated against: look harder
        # (more random streams / scenarios with fresh seeds). This never changes a verdict by itself.
        import fingerprint
        changed = fingerprint.relevant_changes(a.prop)
        if changed:
            run.notes.append("source changed since the model was validated (" + ", ".join(changed) + "): extra passes")
            passes = int(os.environ.get("VERIF_EXTRA_PASSES", "1" if (a.tier != "quick" or a.prop == "C09") else "3"))
            import time
            budget = int(os.environ.get("VERIF_EXTRA_BUDGET_S", "240" if a.tier == "quick" else "1800"))
            for k in range(1, passes + 1):
                if any(not f[4] for f in run.failures):
                    break               # a failing input that is not a known finding is already in hand
                if time.time() - run.t0 > budget:
                    run.notes.append(f"extra passes stopped after {k - 1} (time budget {budget} s)")
                    break
                run.pass_no = k
                reg["run"](run, random.Random((seed + 7919 * k) * 1000003 + int(a.prop[1:])))
            run.pass_no = 0
        return checklib.finish(run, lean, reg["level_text"], reg["rule"], reg["assumptions"],
                               extra_cov=extra.get("coverage"), search=extra.get("search"))
    except KeyboardInterrupt:
        return 2
    except Exception:
        traceback.print_exc()
        print(f"[{a.prop}] harness error (exit 2: not a violation)", file=sys.stderr)
        return 2


def replay(prop, path):
    import props
    import realops
    d = json.load(open(path))
    inp = d.get("input") or (d.get("no_longer_checks") or [{}])[-1].get("minimal_disagreeing_input")
    if isinstance(inp, str) and inp.split(" ")[0].isupper():
        out = realops.real_exec(inp)
        print("input :", inp[:2000])
        print("real  :", out[:2000])
        import proto
        print("model :", proto.run_model([inp])[0][:2000])
        orc = props.ORACLE_BY_OP.get(inp.split(" ")[0])
        msg = orc(inp, out) if orc else None
        print("oracle:", msg)
        if msg:
            print(f"VIOLATION property={prop} replay={path}")
            return 1
        return 0
    if hasattr(props, "replay_custom"):
        return props.replay_custom(prop, d, path)
    print("replay file has no replayable input")
    return 2


if __name__ == "__main__":
    sys.exit(main())
