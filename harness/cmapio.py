"""Minimal CMAP writer and an independent XMAP/CMAP text parser (no src.parsers import)."""
from __future__ import annotations
import random

CMAP_HEADER = ("# CMAP File Version:\t0.1\n# Label Channels:\t1\n# Nickase Recognition Site 1:\tGCTCTTC\n"
               "# Number of Consensus Maps:\t{n}\n"
               "#h CMapId\tContigLength\tNumSites\tSiteID\tLabelChannel\tPosition\tStdDev\tCoverage\tOccurrence\n"
               "#f int\tfloat\tint\tint\tint\tfloat\tfloat\tfloat\tfloat\n")


def cmap_rows(mols):
    """mols: list of (id, length, [positions]) -> list of row tuples (id, length, n, site, chan, pos)"""
    rows = []
    for mid, length, pos in mols:
        n = len(pos)
        for i, p in enumerate(pos):
            rows.append((mid, length, n, i + 1, 1, p))
        rows.append((mid, length, n, n + 1, 0, length))
    return rows


def fmt1(x):
    return "{:.1f}".format(x)


def write_cmap(path, mols, shuffle_rng: random.Random | None = None):
    rows = cmap_rows(mols)
    if shuffle_rng is not None:
        shuffle_rng.shuffle(rows)
    with open(path, "w") as f:
        f.write(CMAP_HEADER.format(n=len(mols)))
        for (mid, length, n, site, chan, p) in rows:
            f.write(f"{mid}\t{fmt1(length)}\t{n}\t{site}\t{chan}\t{fmt1(p)}\t0.0\t1.0\t1.0\n")
    return rows


def parse_cmap_text(path):
    """independent parser: {id: (length_float, sorted positions floats)}"""
    cols = None
    mols = {}
    for line in open(path):
        line = line.rstrip("\n")
        if line.startswith("#h"):
            cols = line.split()[1:]
            continue
        if line.startswith("#") or not line.strip():
            continue
        f = line.split("\t")
        rec = dict(zip(cols, f))
        mid = int(rec["CMapId"])
        m = mols.setdefault(mid, {"len": None, "pos": []})
        if int(rec["LabelChannel"]) == 0:
            if m["len"] is None:
                m["len"] = float(rec["Position"])
        else:
            m["pos"].append(float(rec["Position"]))
    return {k: (v["len"], sorted(v["pos"])) for k, v in mols.items()}


def parse_xmap_text(path):
    """independent parser: header lines, list of dict rows (strings), raw data lines"""
    cols = None
    rows, raw, header = [], [], []
    for line in open(path):
        line = line.rstrip("\n")
        if line.startswith("#h"):
            cols = line.split("\t")
            cols[0] = "XmapEntryID_"  # '#h' column is the index
            header.append(line)
            continue
        if line.startswith("#"):
            header.append(line)
            continue
        if not line.strip():
            continue
        raw.append(line)
        f = line.split("\t")
        names = ["XmapEntryID", "QryContigID", "RefContigID", "QryStartPos", "QryEndPos", "RefStartPos",
                 "RefEndPos", "Orientation", "Confidence", "HitEnum", "QryLen", "RefLen", "AlignedRest",
                 "LabelChannel", "Alignment"]
        rows.append(dict(zip(names, f)))
    return header, rows, raw


def parse_pairs(s):
    if not s:
        return []
    out = []
    for part in s.strip().strip("()").split(")("):
        a, b = part.split(",")
        out.append((int(a), int(b)))
    return out
