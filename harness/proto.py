"""Line protocol: run a list of operation lines through the Lean model driver and through the
real code, return both output streams."""
from __future__ import annotations

import os
import subprocess
import sys
from concurrent.futures import ProcessPoolExecutor

HERE = os.path.dirname(os.path.abspath(__file__))
VERIF = os.path.dirname(HERE)
LEAN_DIR = os.path.join(VERIF, "lean")
DRIVER = os.path.join(LEAN_DIR, ".lake", "build", "bin", "comadriver")
NCPU = int(os.environ.get("VERIF_JOBS", "0")) or min(16, os.cpu_count() or 4)


class HarnessError(Exception):
    pass


def ensure_driver():
    """build (no-op when cached) the model library and the driver executable"""
    r = subprocess.run(["lake", "build", "comadriver"], cwd=LEAN_DIR, capture_output=True, text=True)
    if r.returncode != 0 or not os.path.exists(DRIVER):
        raise HarnessError("lake build comadriver failed:\n" + r.stdout[-3000:] + r.stderr[-3000:])


def _model_chunk(lines):
    p = subprocess.run([DRIVER], input="\n".join(lines) + "\n", capture_output=True, text=True)
    if p.returncode != 0:
        raise HarnessError(f"driver exit {p.returncode}: {p.stderr[-2000:]}")
    out = p.stdout.split("\n")
    if out and out[-1] == "":
        out.pop()
    if len(out) != len(lines):
        raise HarnessError(f"driver returned {len(out)} lines for {len(lines)} operations")
    return out


class _OpTimeout(Exception):
    pass


def _worker_init():
    """resource fences for the REAL code: a runaway operation must show up as an error of that
    operation (which the oracles judge), not as a crash of the harness"""
    import resource
    lim = int(os.environ.get("VERIF_OP_MEM_GB", "6")) * (1 << 30)
    try:
        resource.setrlimit(resource.RLIMIT_AS, (lim, lim))
    except Exception:
        pass


def _real_chunk(lines):
    import signal
    sys.path.insert(0, HERE)
    import realops

    def _alarm(*a):
        raise _OpTimeout()
    out = []
    blown = 0
    old = signal.signal(signal.SIGALRM, _alarm)
    try:
        for l in lines:
            if blown >= 3:
                out.append("SKIP")      # circuit breaker: enough runaway operations seen in this chunk
                continue
            # a runaway operation (time or memory) becomes an output of that operation; the alarm may fire late (signal
            # handlers run between bytecodes), also inside a handler below, hence the outer guard
            res = None
            try:
                try:
                    try:
                        signal.alarm(int(os.environ.get("VERIF_OP_TIMEOUT_S", "8")))
                        res = realops.real_exec(l)
                    finally:
                        signal.alarm(0)
                except MemoryError:
                    res = "ERR MemoryError"
            except _OpTimeout:
                res = "ERR Timeout"
            if res in ("ERR Timeout", "ERR MemoryError"):
                blown += 1
            out.append(res)
    finally:
        signal.signal(signal.SIGALRM, old)
    return out


def _real_chunk_slow(lines):
    """the same, with eight times the per-operation time limit (used to re-run operations that timed out once, so that a
    loaded machine cannot turn into a verdict)"""
    old = os.environ.get("VERIF_OP_TIMEOUT_S")
    os.environ["VERIF_OP_TIMEOUT_S"] = str(8 * int(old or "8"))
    try:
        return _real_chunk(lines)
    finally:
        if old is None:
            os.environ.pop("VERIF_OP_TIMEOUT_S", None)
        else:
            os.environ["VERIF_OP_TIMEOUT_S"] = old


def run_real_slow(lines):
    return list(pool().map(_real_chunk_slow, [[l] for l in lines]))


def _chunks(lines, n):
    k = max(1, (len(lines) + n - 1) // n)
    return [lines[i:i + k] for i in range(0, len(lines), k)]


_pool = None


def pool():
    global _pool
    if _pool is None:
        _pool = ProcessPoolExecutor(max_workers=NCPU, initializer=_worker_init)
    return _pool


SEC_STATUS = {}   # how the model obtained the secondary peak lists of the RUN lines it was given


def _strip_status(o):
    """`RUN` with the secondary stage in the model ends with ` ST=derived:a,reordered:b,ambiguous:c,MISMATCH:d`
    (model-only statistics; a mismatch is also visible in the SEC= field, which IS compared)"""
    i = o.rfind(" ST=")
    if i < 0:
        return o
    for t in o[i + 4:].split(","):
        k, _, v = t.partition(":")
        if v.isdigit():
            SEC_STATUS[k] = SEC_STATUS.get(k, 0) + int(v)
    return o[:i]


def run_model(lines):
    if not lines:
        return []
    if len(lines) < 2000:
        return [_strip_status(o) for o in _model_chunk(lines)]
    outs = list(pool().map(_model_chunk, _chunks(lines, NCPU)))
    return [_strip_status(x) for o in outs for x in o]


def run_real(lines):
    if not lines:
        return []
    outs = list(pool().map(_real_chunk, _chunks(lines, NCPU * 4 if len(lines) >= 200 else 1)))
    return [x for o in outs for x in o]


def strip_model_only(s: str) -> str:
    """the model prints extra diagnostic suffixes (` branch=…`) the real side cannot observe"""
    i = s.find(" branch=")
    return s if i < 0 else s[:i]


def compare(lines):
    """returns (real_outputs, model_outputs, disagreements[(idx, line, real, model)])"""
    real = run_real(lines)
    model = run_model(lines)
    dis = [(i, lines[i], real[i], model[i]) for i in range(len(lines)) if real[i] != "SKIP" and real[i] != strip_model_only(model[i])]
    return real, model, dis
