"""confirm_seed.py <source dir with patch.diff, demo.py, notes.txt> <seed id> <property>

Confirms a seeded change in a fresh scratch worktree of /repo (demo passes on the clean tree; with
the patch the whole test suite passes and the demo fails), then stores it under /verif/seeded/<id>/."""
import json, os, shutil, subprocess, sys, tempfile, time

src, sid, prop = sys.argv[1], sys.argv[2], sys.argv[3]
VERIF = os.path.dirname(os.path.dirname(os.path.abspath(__file__)))
wt = tempfile.mkdtemp(prefix="confirm_", dir="/tmp")
os.rmdir(wt)
run = lambda *a, **k: subprocess.run(*a, capture_output=True, text=True, **k)
ran = []
def sh(cmd, cwd=wt, timeout=1200):
    r = run(cmd, shell=True, cwd=cwd, timeout=timeout)
    ran.append({"cmd": cmd, "exit": r.returncode, "tail": (r.stdout + r.stderr)[-300:]})
    return r
try:
    r = run(["git", "-C", "/repo", "worktree", "add", "-q", "--detach", wt, "HEAD"])
    assert r.returncode == 0, r.stderr
    rel = os.path.join("seeded", os.path.basename(os.path.normpath(src)))
    shutil.copytree(src, os.path.join(wt, rel))
    d0 = sh("/venv/bin/python " + rel + "/demo.py")
    a = sh("git apply " + rel + "/patch.diff")
    t = sh("/venv/bin/python -m pytest -q -p no:cacheprovider -x 2>&1 | tail -3")
    d1 = sh("/venv/bin/python " + rel + "/demo.py")
    ok = d0.returncode == 0 and a.returncode == 0 and " passed" in t.stdout and "failed" not in t.stdout and d1.returncode != 0
    print(json.dumps({"demo_clean_exit": d0.returncode, "apply": a.returncode, "tests": t.stdout.strip()[-80:], "demo_patched_exit": d1.returncode, "confirmed": ok}))
    if ok:
        dst = os.path.join(VERIF, "seeded", sid)
        os.makedirs(dst, exist_ok=True)
        for f in ("patch.diff", "demo.py", "notes.txt"):
            if os.path.exists(os.path.join(src, f)):
                shutil.copy(os.path.join(src, f), os.path.join(dst, f))
        meta = {"id": sid, "breaks_property": prop, "source": "independent sub-agent given only the property text and a scratch worktree",
                "needs_to_manifest": open(os.path.join(src, "notes.txt")).read().strip() if os.path.exists(os.path.join(src, "notes.txt")) else "",
                "confirmed": {"base_commit": run(["git", "-C", "/repo", "rev-parse", "HEAD"]).stdout.strip(), "ran": ran,
                              "at": time.strftime("%Y-%m-%dT%H:%M:%SZ", time.gmtime())}}
        json.dump(meta, open(os.path.join(dst, "meta.json"), "w"), indent=1)
finally:
    run(["git", "-C", "/repo", "worktree", "remove", "--force", wt])
