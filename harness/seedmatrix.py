"""Summarise seed-run results (JSON files written by seedrun.py) as a markdown table for DESIGN.md
and store each result next to its seed as seeded/<id>/detected_by.json."""
import glob, json, os, sys
VERIF = os.path.dirname(os.path.dirname(os.path.abspath(__file__)))
src = sys.argv[1] if len(sys.argv) > 1 else "/tmp/seedres"
rows = []
for f in sorted(glob.glob(os.path.join(src, "*.json"))):
    try:
        d = json.load(open(f))
    except Exception:
        continue
    sid = d["seed"].rstrip("/").split("/")[-1]
    prop = sid.split("-")[0]
    conc = sorted(p for p, v in d["detail"].items() if v["exit"] == 1 and v.get("kind") != "no-failing-input-found")
    nof = sorted(p for p, v in d["detail"].items() if v["exit"] == 1 and v.get("kind") == "no-failing-input-found")
    err = sorted(p for p, v in d["detail"].items() if v["exit"] not in (0, 1))
    own = "failing input" if prop in conc else ("no-failing-input-found" if prop in nof else "MISSED")
    what = (d["detail"].get(prop, {}).get("what") or "")[:110].replace("|", "/").replace("\n", " ")
    rows.append((sid, own, conc, nof, err, what))
    dst = os.path.join(VERIF, "seeded", sid)
    if os.path.isdir(dst):
        json.dump({"seed": sid, "own_property": prop, "own_check": own, "checks_with_failing_input": conc,
                   "checks_with_broken_correspondence_only": nof, "harness_errors": err, "detail": d["detail"]},
                  open(os.path.join(dst, "detected_by.json"), "w"), indent=1)
print("| seed | own check | other checks reporting a failing input | checks reporting a broken correspondence only | what the own check says |")
print("|---|---|---|---|---|")
for sid, own, conc, nof, err, what in rows:
    prop = sid.split("-")[0]
    print(f"| {sid} | {own} | {', '.join(p for p in conc if p != prop) or '—'} | {', '.join(p for p in nof if p != prop) or '—'} | {what} |")
