"""Source fingerprints: an AST hash (comments, formatting and docstrings ignored) of every Python file under src/ and
sv/ of the repository, recorded in /verif/fingerprints.json for the tree the model was last validated against.

A differing fingerprint is NEVER reported as a violation and never changes a verdict. It only makes the quick tier
look harder (`checklib.Run.extra_passes`): when a file a property is anchored in has changed since the model was
validated, the property's random streams and scenarios are run several more times with fresh seeds, because a change
is exactly the moment at which a rarely exercised branch matters.

    fingerprint.py --write      record the current tree as the validated baseline
"""
from __future__ import annotations

import ast
import hashlib
import json
import os
import sys

VERIF = os.path.dirname(os.path.dirname(os.path.abspath(__file__)))
REPO = os.environ.get("VERIF_REPO", "/repo")
PATH = os.path.join(VERIF, "fingerprints.json")


def _strip_docstrings(tree):
    for node in ast.walk(tree):
        if isinstance(node, (ast.FunctionDef, ast.AsyncFunctionDef, ast.ClassDef, ast.Module)):
            b = node.body
            if b and isinstance(b[0], ast.Expr) and isinstance(getattr(b[0], "value", None), ast.Constant) and isinstance(b[0].value.value, str):
                node.body = b[1:] or [ast.Pass()]
    return tree


def file_hash(path):
    try:
        tree = _strip_docstrings(ast.parse(open(path).read()))
        return hashlib.sha256(ast.dump(tree, include_attributes=False).encode()).hexdigest()[:16]
    except SyntaxError:
        return "syntax-error"


def current(repo=None):
    repo = repo or REPO
    out = {}
    for top in ("src", "sv"):
        for root, _, names in os.walk(os.path.join(repo, top)):
            for n in sorted(names):
                if n.endswith(".py"):
                    p = os.path.join(root, n)
                    out[os.path.relpath(p, repo)] = file_hash(p)
    return out


def changed_files(repo=None):
    """files whose AST differs from the validated baseline (added / removed files included)"""
    if not os.path.exists(PATH):
        return []
    base = json.load(open(PATH))["files"]
    cur = current(repo)
    return sorted(f for f in set(base) | set(cur) if base.get(f) != cur.get(f))


E2E_PROPS = {"C01", "C02", "C03", "C04", "C05", "C06", "C07", "C08", "C09", "C10", "C11", "C18"}


def relevant_changes(prop_id, repo=None):
    """changed files that matter to a property: the files it is anchored in; for the end-to-end properties every file
    of the pipeline (src/ without diagnostic/ and the plotting / comparison front ends)"""
    ch = changed_files(repo)
    if not ch:
        return []
    anchors = set()
    for l in open(os.path.join(VERIF, "properties.jsonl")):
        d = json.loads(l)
        if d["id"] == prop_id:
            anchors = set(d.get("anchors", {}).get("files", []))
    out = []
    for f in ch:
        pipeline = f.startswith("src/") and not f.startswith("src/diagnostic/") and f not in ("src/plot_alignments.py", "src/compare_alignments.py")
        if f in anchors or (prop_id in E2E_PROPS and pipeline):
            out.append(f)
    return out


if __name__ == "__main__":
    if "--write" in sys.argv:
        import subprocess
        head = subprocess.run(["git", "-C", REPO, "rev-parse", "HEAD"], capture_output=True, text=True).stdout.strip()
        json.dump({"repo_commit": head, "files": current()}, open(PATH, "w"), indent=1, sort_keys=True)
        print("recorded", len(current()), "files at", head)
    else:
        print(changed_files())
