"""Canonical encodings shared by the real side (harness) and the Lean driver (Coma/Driver.lean).

Everything observable is rendered with integers (or exact fractions n/d); exceptions map to
`ERR <ClassName>`.
"""
from __future__ import annotations

import sys
from fractions import Fraction

import os as _os
REPO = _os.environ.get("VERIF_REPO", "/repo")  # scratch worktree for seeded-change runs; registered checks use /repo
sys.path.insert(0, REPO)

from src.alignment.alignment_position import (AlignedPair, NotAlignedQueryPosition,  # noqa: E402
                                              NotAlignedReferencePosition, ScoredAlignedPair,
                                              ScoredNotAlignedPosition)
from src.alignment.segments import AlignmentSegment  # noqa: E402
from src.correlation.optical_map import OpticalMap, PositionWithSiteId as L  # noqa: E402
from src.correlation.peak import Peak  # noqa: E402


def num(x):
    """exact integer rendering of an int / integral float / numpy scalar / Fraction"""
    if isinstance(x, Fraction):
        if x.denominator == 1:
            return str(x.numerator)
        return f"{x.numerator}/{x.denominator}"
    try:
        i = int(x)
    except Exception:
        return repr(x)
    if i != x:
        fr = Fraction(x).limit_denominator(10 ** 6)
        return f"{fr.numerator}/{fr.denominator}"
    return str(i)


def rat(x):
    fr = Fraction(x)
    return f"{fr.numerator}/{fr.denominator}"


# ---------------------------------------------------------------- items / segments
def show_item(p):
    if isinstance(p, ScoredNotAlignedPosition):
        p = p.position
    if isinstance(p, AlignedPair):
        return f"P:{num(p.reference.siteId)}:{num(p.reference.position)}:{num(p.query.siteId)}:{num(p.query.position)}:{num(p.queryShift)}"
    if isinstance(p, NotAlignedReferencePosition):
        return f"R:{num(p.reference.siteId)}:{num(p.reference.position)}"
    if isinstance(p, NotAlignedQueryPosition):
        return f"Q:{num(p.query.siteId)}:{num(p.query.position)}:{num(p.referenceStart)}"
    raise TypeError(type(p))


def show_items(ps):
    return ",".join(show_item(p) for p in ps)


def parse_item(s, params=None):
    """protocol item -> real (scored, if params given) position object"""
    f = s.split(":")
    if f[0] == "P":
        p = AlignedPair(L(int(f[1]), int(f[2])), L(int(f[3]), int(f[4])), int(f[5]), 0)
    elif f[0] == "R":
        p = NotAlignedReferencePosition(L(int(f[1]), int(f[2])))
    elif f[0] == "Q":
        p = NotAlignedQueryPosition(L(int(f[1]), int(f[2])), int(f[3]))
    else:
        raise ValueError(s)
    if params is not None:
        return p.getScoredPosition(params["sp"], params["dp"], params["su"])
    return p


def parse_items(s, params=None):
    return [parse_item(t, params) for t in s.split(",")] if s else []


def show_seg(seg):
    return f"{num(seg.peak.position)}|{show_items(seg.positions)}"


def show_segs(segs):
    return ";".join(show_seg(s) for s in segs)


def parse_seg(s, params):
    a, _, b = s.partition("|")
    positions = parse_items(b, params)
    return AlignmentSegment.create(positions, Peak(int(a), float(10 + (int(a) * 7919) % 97)), positions)


def parse_segs(s, params):
    return [parse_seg(t, params) for t in s.split(";")] if s else []


def show_map(m):
    return f"{num(m.moleculeId)}:{num(m.length)}:{num(m.shift)}:{','.join(num(p) for p in m.positions)}"


def parse_map(s):
    a, b, c, d = s.split(":")
    return OpticalMap(int(a), int(b), [int(x) for x in d.split(",")] if d else [], int(c))


def show_params(P):
    return f"sp={P['sp']} dp={P['dp']} su={P['su']} md={P['md']} ms={P['ms']} bs={P['bs']}"


def show_row(r):
    return (f"q={num(r.queryId)} r={num(r.referenceId)} ql={num(r.queryLength)} rl={num(r.referenceLength)} "
            f"qs={num(r.queryStartPosition)} qe={num(r.queryEndPosition)} rs={num(r.referenceStartPosition)} "
            f"re={num(r.referenceEndPosition)} rev={1 if r.reverseStrand else 0} conf={num(r.confidence)} "
            f"rest={1 if r.alignedRest else 0} SEG={show_segs(r.segments)}")


def show_row_t(r):
    return show_row(r).replace(" ", "~")


def parse_row_t(s, params):
    from src.alignment.alignment_results import AlignmentResultRow
    kv = dict(t.split("=", 1) for t in s.split("~"))
    return AlignmentResultRow(parse_segs(kv["SEG"], params), int(kv["q"]), int(kv["r"]), int(kv["ql"]), int(kv["rl"]),
                              int(kv["qs"]), int(kv["qe"]), int(kv["rs"]), int(kv["re"]), kv["rev"] == "1",
                              _num_parse(kv["conf"]), kv["rest"] == "1")


def _num_parse(s):
    if "/" in s:
        a, b = s.split("/")
        return Fraction(int(a), int(b))
    return int(s)


def err(e: BaseException):
    return "ERR " + type(e).__name__
