"""Property oracles: each property's statement written directly against REAL outputs,
independent of the Lean model.  An oracle returns None (holds) or a short string (what fails)."""
from __future__ import annotations

from fractions import Fraction


def kv_of(line):
    toks = line.strip().split(" ")
    return toks[0], dict(t.split("=", 1) for t in toks[1:] if "=" in t)


def ints(s):
    return [int(x) for x in s.split(",")] if s else []


# ------------------------------------------------------------------ C13
def oracle_segs(line, out):
    op, kv = kv_of(line)
    ms, bs, S = int(kv["ms"]), int(kv["bs"]), ints(kv.get("S", ""))
    if ms <= 0:
        return None if out == "ERR ValueError" else f"minScore<=0 accepted: {out}"
    if out.startswith("ERR"):
        return f"exception {out}"
    if out == "E":
        return None  # (g): single empty segment; completeness is not claimed (stale current segment)
    rngs = []
    for t in out.split(" "):
        a, sc = t.split(":")
        i, j = a.split("-")
        rngs.append((int(i), int(j), int(sc)))
    prev_stop = None
    for (i, j, sc) in rngs:
        if not (0 <= i < j <= len(S)):
            return f"(a) bad range {i}-{j}"
        if prev_stop is not None and not prev_stop < i:
            return f"(a) not separated: stop {prev_stop} start {i}"
        prev_stop = j
        if not (S[i] > 0 and S[j - 1] > 0):
            return f"(b) ends not positive {i}-{j}"
        if sc != sum(S[i:j]) or sc < ms:
            return f"(c) score {sc} vs {sum(S[i:j])} ms {ms}"
        pref = []
        acc = 0
        for k in range(i, j):
            acc += S[k]
            if acc <= 0:
                return f"(d) non-positive prefix at {k}"
            if bs >= 0 and any(acc <= p - bs for p in pref):
                return f"(d) prefix at {k} fell {bs} below an earlier prefix"
            pref.append(acc)
        if any(p >= sc for p in pref[:-1]):
            return f"(e) maximum reached before the end in {i}-{j}"
        # (f) extension to the right
        acc = sc
        for m in range(j, len(S)):
            acc += S[m]
            if acc > sc:
                return f"(f) extendable to {m + 1} with {acc} > {sc}"
            if acc <= max(0, sc - bs):
                break
    return None


# ------------------------------------------------------------------ C12
def parse_items(out):
    items = []
    if not out:
        return items
    for t in out.split(","):
        f = t.split(":")
        if f[0] == "P":
            items.append(("P", int(f[1]), int(f[2]), int(f[3]), int(f[4]), int(f[5])))
        elif f[0] == "R":
            items.append(("R", int(f[1]), int(f[2])))
        else:
            items.append(("Q", int(f[1]), int(f[2]), int(f[3])))
    return items


def map_of(s):
    a, b, c, d = s.split(":")
    return int(a), int(b), int(c), ints(d)


def labels_of(m, rev):
    """independent re-statement of the label numbering: site k <-> k-th label from the left;
    '-' strand coordinates are mirrored about length-1"""
    mid, length, shift, pos = m
    n = len(pos)
    if not rev:
        return [(i + 1 + shift, p) for i, p in enumerate(pos)]
    return [(n - i + shift, length - 1 - p) for i, p in enumerate(reversed(pos))]


def oracle_pair(line, out):
    op, kv = kv_of(line)
    if out.startswith("ERR"):
        return f"exception {out}"
    md, start, stop, rev = int(kv["md"]), int(kv["start"]), int(kv["stop"]), kv["rev"] == "1"
    ref, qry = map_of(kv["REF"]), map_of(kv["QRY"])
    rl = [l for l in labels_of(ref, False) if start - md <= l[1] <= stop + md]
    ql = labels_of(qry, rev)
    items = parse_items(out)
    # ascending position order
    absp = [(it[2] if it[0] in "PR" else it[2] + it[3]) for it in items]
    if any(a > b for a, b in zip(absp, absp[1:])):
        return "not in ascending position order"
    for it in items:
        if it[0] == "Q" and it[3] != start:
            return "unpaired query position carries a wrong seed offset"
    rs = sorted([(it[1], it[2]) for it in items if it[0] in "PR"])
    qs = sorted([(it[3], it[4]) for it in items if it[0] == "P"] + [(it[1], it[2]) for it in items if it[0] == "Q"])
    if rs != sorted(rl):
        return f"reference labels of the window not returned exactly once: {rs} vs {sorted(rl)}"
    if qs != sorted(ql):
        return f"query labels not returned exactly once: {qs} vs {sorted(ql)}"
    pairs = [it for it in items if it[0] == "P"]
    for p in pairs:
        if p[5] != p[4] - (p[2] - start):
            return f"offset of pair {p} is not q - (r - start)"
        if abs(p[5]) > md:
            return f"pair {p} beyond maxDistance"
    if len({p[1] for p in pairs}) != len(pairs) or len({p[3] for p in pairs}) != len(pairs):
        return "pairs are not one-to-one"
    for a in pairs:
        for b in pairs:
            if a[2] < b[2] and a[4] > b[4]:
                return f"pairs cross: {a} {b}"
            if a[2] < b[2] and not ((b[3] < a[3]) if rev else (a[3] < b[3])):
                return f"query label numbers not monotone: {a} {b}"
    # mutual strict nearest neighbours within md must be paired
    paired = {(p[1], p[3]) for p in pairs}
    for r in rl:
        for q in ql:
            d = abs(q[1] - (r[1] - start))
            if d > md:
                continue
            if all(abs(q[1] - (r2[1] - start)) > d for r2 in rl if r2 != r) and \
               all(abs(q2[1] - (r[1] - start)) > d for q2 in ql if q2 != q):
                if (r[0], q[0]) not in paired:
                    return f"mutual nearest labels r{r} q{q} not paired"
    return None
