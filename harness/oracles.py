"""Property oracles: each property's statement written directly against REAL outputs,
independent of the Lean model.  An oracle returns None (holds) or a short string (what fails)."""
from __future__ import annotations

from fractions import Fraction


def kv_of(line):
    toks = line.strip().split(" ")
    return toks[0], dict(t.split("=", 1) for t in toks[1:] if "=" in t)


def ints(s):
    return [int(x) for x in s.split(",")] if s else []


# ------------------------------------------------------------------ C13
def oracle_segs(line, out):
    op, kv = kv_of(line)
    ms, bs, S = int(kv["ms"]), int(kv["bs"]), ints(kv.get("S", ""))
    if ms <= 0:
        return None if out == "ERR ValueError" else f"minScore<=0 accepted: {out}"
    if out.startswith("ERR"):
        return f"exception {out}"
    if out == "E":
        return None  # (g): single empty segment; completeness is not claimed (stale current segment)
    rngs = []
    for t in out.split(" "):
        a, sc = t.split(":")
        i, j = a.split("-")
        rngs.append((int(i), int(j), int(sc)))
    prev_stop = None
    for (i, j, sc) in rngs:
        if not (0 <= i < j <= len(S)):
            return f"(a) bad range {i}-{j}"
        if prev_stop is not None and not prev_stop < i:
            return f"(a) not separated: stop {prev_stop} start {i}"
        prev_stop = j
        if not (S[i] > 0 and S[j - 1] > 0):
            return f"(b) ends not positive {i}-{j}"
        if sc != sum(S[i:j]) or sc < ms:
            return f"(c) score {sc} vs {sum(S[i:j])} ms {ms}"
        pref = []
        acc = 0
        for k in range(i, j):
            acc += S[k]
            if acc <= 0:
                return f"(d) non-positive prefix at {k}"
            if bs >= 0 and any(acc <= p - bs for p in pref):
                return f"(d) prefix at {k} fell {bs} below an earlier prefix"
            pref.append(acc)
        if any(p >= sc for p in pref[:-1]):
            return f"(e) maximum reached before the end in {i}-{j}"
        # (f) extension to the right
        acc = sc
        for m in range(j, len(S)):
            acc += S[m]
            if acc > sc:
                return f"(f) extendable to {m + 1} with {acc} > {sc}"
            if acc <= max(0, sc - bs):
                break
    return None
