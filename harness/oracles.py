"""Property oracles: each property's statement written directly against REAL outputs,
independent of the Lean model.  An oracle returns None (holds) or a short string (what fails)."""
from __future__ import annotations

from fractions import Fraction


def kv_of(line):
    toks = line.strip().split(" ")
    kv = dict(t.split("=", 1) for t in toks[1:] if "=" in t)
    if kv.get("trimq") == "1" and kv.get("QRY"):
        # the operation trims the query first (as the program does with every query it reads): the oracles judge the
        # result against the trimmed molecule — first label at 0, length last - first + 1, no label-number offset
        a, b, c, d = kv["QRY"].split(":")
        ps = [int(x) for x in d.split(",")] if d else []
        if ps:
            kv["QRY"] = f"{a}:{ps[-1] - ps[0] + 1}:0:{','.join(str(p - ps[0]) for p in ps)}"
    return toks[0], kv


def ints(s):
    return [int(x) for x in s.split(",")] if s else []


# ------------------------------------------------------------------ C13
def oracle_segs(line, out):
    op, kv = kv_of(line)
    ms, bs, S = int(kv["ms"]), int(kv["bs"]), ints(kv.get("S", ""))
    if ms <= 0:
        return None if out == "ERR ValueError" else f"minScore<=0 accepted: {out}"
    if out.startswith("ERR"):
        return f"exception {out}"
    # completeness for the FIRST run (no earlier run can have left anything behind): from the first positive score on, the
    # running sum until the first break (sum <= 0 or <= maximum - threshold); if its maximum reaches minScore, that run
    # qualifies and must be the first segment reported
    first = None
    i0 = next((k for k, v in enumerate(S) if v > 0), None)
    if i0 is not None and bs >= 0:
        acc, best, arg = 0, None, None
        for k in range(i0, len(S)):
            acc += S[k]
            if best is not None and acc <= max(0, best - bs):
                break
            if acc <= 0:
                break
            if best is None or acc > best:
                best, arg = acc, k
        if best is not None and best >= ms:
            first = (i0, arg + 1, best)
    if out == "E":
        if first:
            return f"(g) the empty segment is returned although the run {first[0]}-{first[1]} qualifies (score {first[2]} >= minScore {ms})"
        return None  # (g): single empty segment; completeness beyond the first run is not claimed (stale current segment)
    rngs = []
    for t in out.split(" "):
        a, sc = t.split(":")
        i, j = a.split("-")
        if "/" in sc:
            return f"(c) segment {i}-{j} is reported with score {sc} (in units of 1/den), which is not the sum of its members"
        rngs.append((int(i), int(j), int(sc)))
    if first and rngs and (rngs[0][0], rngs[0][1]) != (first[0], first[1]):
        return f"(g) the first qualifying run {first[0]}-{first[1]} (score {first[2]}) is not the first segment reported ({rngs[0][0]}-{rngs[0][1]})"
    prev_stop = None
    for (i, j, sc) in rngs:
        if not (0 <= i < j <= len(S)):
            return f"(a) bad range {i}-{j}"
        if prev_stop is not None and not prev_stop < i:
            return f"(a) not separated: stop {prev_stop} start {i}"
        prev_stop = j
        if not (S[i] > 0 and S[j - 1] > 0):
            return f"(b) ends not positive {i}-{j}"
        if sc != sum(S[i:j]) or sc < ms:
            return f"(c) score {sc} vs {sum(S[i:j])} ms {ms}"
        pref = []
        acc = 0
        for k in range(i, j):
            acc += S[k]
            if acc <= 0:
                return f"(d) non-positive prefix at {k}"
            if bs >= 0 and any(acc <= p - bs for p in pref):
                return f"(d) prefix at {k} fell {bs} below an earlier prefix"
            pref.append(acc)
        if any(p >= sc for p in pref[:-1]):
            return f"(e) maximum reached before the end in {i}-{j}"
        # (f) extension to the right
        acc = sc
        for m in range(j, len(S)):
            acc += S[m]
            if acc > sc:
                return f"(f) extendable to {m + 1} with {acc} > {sc}"
            if acc <= max(0, sc - bs):
                break
    return None


# ------------------------------------------------------------------ C12
def parse_items(out):
    items = []
    if not out:
        return items
    for t in out.split(","):
        f = t.split(":")
        if f[0] == "P":
            items.append(("P", int(f[1]), int(f[2]), int(f[3]), int(f[4]), int(f[5])))
        elif f[0] == "R":
            items.append(("R", int(f[1]), int(f[2])))
        else:
            items.append(("Q", int(f[1]), int(f[2]), int(f[3])))
    return items


def map_of(s):
    a, b, c, d = s.split(":")
    return int(a), int(b), int(c), ints(d)


def labels_of(m, rev):
    """independent re-statement of the label numbering: site k <-> k-th label from the left;
    '-' strand coordinates are mirrored about length-1"""
    mid, length, shift, pos = m
    n = len(pos)
    if not rev:
        return [(i + 1 + shift, p) for i, p in enumerate(pos)]
    return [(n - i + shift, length - 1 - p) for i, p in enumerate(reversed(pos))]


def oracle_pair(line, out):
    op, kv = kv_of(line)
    if out.startswith("ERR"):
        return f"exception {out}"
    md, start, stop, rev = int(kv["md"]), int(kv["start"]), int(kv["stop"]), kv["rev"] == "1"
    ref, qry = map_of(kv["REF"]), map_of(kv["QRY"])
    rl = [l for l in labels_of(ref, False) if start - md <= l[1] <= stop + md]
    ql = labels_of(qry, rev)
    items = parse_items(out)
    # ascending position order
    absp = [(it[2] if it[0] in "PR" else it[2] + it[3]) for it in items]
    if any(a > b for a, b in zip(absp, absp[1:])):
        return "not in ascending position order"
    for it in items:
        if it[0] == "Q" and it[3] != start:
            return "unpaired query position carries a wrong seed offset"
    rs = sorted([(it[1], it[2]) for it in items if it[0] in "PR"])
    qs = sorted([(it[3], it[4]) for it in items if it[0] == "P"] + [(it[1], it[2]) for it in items if it[0] == "Q"])
    if rs != sorted(rl):
        return f"reference labels of the window not returned exactly once: {rs} vs {sorted(rl)}"
    if qs != sorted(ql):
        return f"query labels not returned exactly once: {qs} vs {sorted(ql)}"
    pairs = [it for it in items if it[0] == "P"]
    for p in pairs:
        if p[5] != p[4] - (p[2] - start):
            return f"offset of pair {p} is not q - (r - start)"
        if abs(p[5]) > md:
            return f"pair {p} beyond maxDistance"
    if len({p[1] for p in pairs}) != len(pairs) or len({p[3] for p in pairs}) != len(pairs):
        return "pairs are not one-to-one"
    for a in pairs:
        for b in pairs:
            if a[2] < b[2] and a[4] > b[4]:
                return f"pairs cross: {a} {b}"
            if a[2] < b[2] and not ((b[3] < a[3]) if rev else (a[3] < b[3])):
                return f"query label numbers not monotone: {a} {b}"
    # mutual strict nearest neighbours within md must be paired
    paired = {(p[1], p[3]) for p in pairs}
    for r in rl:
        for q in ql:
            d = abs(q[1] - (r[1] - start))
            if d > md:
                continue
            if all(abs(q[1] - (r2[1] - start)) > d for r2 in rl if r2 != r) and \
               all(abs(q2[1] - (r[1] - start)) > d for q2 in ql if q2 != q):
                if (r[0], q[0]) not in paired:
                    return f"mutual nearest labels r{r} q{q} not paired"
    return None


# ------------------------------------------------------------------ C16
def oracle_vec(line, out):
    op, kv = kv_of(line)
    res, start = int(kv["res"]), int(kv["start"])
    pos = ints(kv.get("POS", ""))
    stop = None if kv["stop"] == "none" else int(kv["stop"])
    if res < 1:
        return None if out == "ERR ValueError" else "resolution < 1 accepted"
    if not stop and not pos:
        return None if out == "ERR IndexError" else None  # no labels and no end: nothing to encode
    if out.startswith("ERR"):
        return f"exception {out}"
    stop_eff = stop if stop else pos[-1]
    bits = [int(c) for c in out]
    for i, b in enumerate(bits):
        lo, hi = start + i * res, start + (i + 1) * res
        want = 1 if any(lo <= p < hi for p in pos) else 0
        if b != want:
            return f"bit {i} is {b}, labels in [{lo},{hi}) say {want}"
    for p in pos:
        if start <= p <= stop_eff and (p - start) // res >= len(bits):
            return f"label {p} in [start,end] has no bin (vector length {len(bits)})"
    if pos:
        lim = (max(stop_eff, pos[-1]) - start) // res + 1
        if len(bits) > max(lim, 0):
            return f"vector longer ({len(bits)}) than the bin of max(end,last label) ({lim})"
    return None


def oracle_blur(line, out):
    op, kv = kv_of(line)
    v = [int(c) for c in kv.get("V", "")]
    r = int(kv["radius"])
    if r < 0:
        return None if out == "ERR ValueError" else "negative radius accepted"
    if out.startswith("ERR"):
        return f"exception {out}"
    w = [int(c) for c in out]
    if len(w) != len(v):
        return "blur changed the length"
    for i in range(len(v)):
        want = 1 if any(v[j] for j in range(max(0, i - r), min(len(v), i + r + 1))) else 0
        if w[i] != want:
            return f"blurred bit {i} is {w[i]}, expected {want}"
    return None


def oracle_tobp(line, out):
    op, kv = kv_of(line)
    b, res, start = int(kv["bin"]), int(kv["res"]), int(kv["start"])
    x = int(out)
    lo, hi = start + b * res, start + (b + 1) * res
    if not (lo <= x < hi):
        return f"bin {b} maps to {x} outside [{lo},{hi})"
    if 2 * (x - lo) > res or 2 * (hi - 1 - x) > res:
        return f"bin {b} maps to {x}, more than half a resolution from an end of [{lo},{hi})"
    return None


def oracle_select(line, out):
    op, kv = kv_of(line)
    sc, count = ints(kv.get("S", "")), int(kv["count"])
    idx = ints(out)
    if len(idx) != min(max(count, 0), len(sc)) or len(set(idx)) != len(idx):
        return "wrong number of seeds kept"
    chosen = [sc[i] for i in idx]
    if any(a < b for a, b in zip(chosen, chosen[1:])):
        return "seeds not in descending score order"
    rest = [sc[i] for i in range(len(sc)) if i not in idx]
    if chosen and rest and max(rest) > min(chosen):
        return "a dropped peak scores higher than a kept one"
    return None


# ------------------------------------------------------------------ C05 (FILTER)
def oracle_filter(line, out):
    op, kv = kv_of(line)
    rows = [tuple(int(x) for x in t.split(":")) for t in kv.get("ROWS", "").split(",") if t]
    idx = ints(out)
    qids = [rows[i][0] for i in idx]
    if qids != sorted(set(r[0] for r in rows)):
        return "not exactly one row per query id in ascending id order"
    for i in idx:
        q, c = rows[i]
        best = max(cc for qq, cc in rows if qq == q)
        if c != best:
            return f"query {q}: kept confidence {c}, best is {best}"
        first = next(j for j, (qq, cc) in enumerate(rows) if qq == q and cc == best)
        if i != first:
            return f"query {q}: tie not broken by first occurrence"
    return None


# ------------------------------------------------------------------ C03
def is_valid_matching(pairs, rev):
    for a, b in zip(pairs, pairs[1:]):
        if not (a[0] < b[0] and ((b[1] < a[1]) if rev else (a[1] < b[1]))):
            return False
    return True


def parse_cigar(s):
    import re
    if not re.fullmatch(r"(\d+[MDI])*", s):
        return None
    return [(int(n), c) for n, c in re.findall(r"(\d+)([MDI])", s)]


def replay_cigar(runs, first, rev):
    r, q = first
    out = []
    started = False
    for n, c in runs:
        for _ in range(n):
            if c == "M":
                if not started:
                    started = True
                else:
                    r += 1
                    q += -1 if rev else 1
                out.append((r, q))
            elif c == "D":
                r += 1
            else:
                q += -1 if rev else 1
    return out


def oracle_cigar_pairs(pairs, rev, cig):
    if not pairs:
        return None
    if not is_valid_matching(pairs, rev):
        return None  # property speaks about valid matchings only
    if cig.startswith("ERR"):
        return f"exception {cig} on a valid matching"
    runs = parse_cigar(cig)
    if runs is None:
        return f"malformed HitEnum {cig!r}"
    if not runs:
        return "empty HitEnum for a record with a pair"
    if runs[0][1] != "M" or runs[-1][1] != "M":
        return f"HitEnum {cig} does not start and end with M"
    if any(a[1] == b[1] for a, b in zip(runs, runs[1:])) or any(n < 1 for n, _ in runs):
        return f"HitEnum {cig} repeats an operation in adjacent runs"
    if replay_cigar(runs, pairs[0], rev) != pairs:
        return f"replaying {cig} from {pairs[0]} does not give the listed pairs"
    return None


def oracle_cigar(line, out):
    op, kv = kv_of(line)
    pairs = [tuple(int(x) for x in t.split(":")) for t in kv.get("P", "").split(",") if t]
    return oracle_cigar_pairs(pairs, kv["rev"] == "1", out)


# ------------------------------------------------------------------ C14
def frac(s):
    if "/" in s:
        a, b = s.split("/")
        return Fraction(int(a), int(b))
    return Fraction(int(s))


def join_exact(mult, var, prev, cur):
    """independent exact restatement of the sequentiality score; prev/cur = (sr, sq, sqsite, er, eq, eqsite)"""
    qlen = min(abs(cur[4] - cur[1]), abs(prev[4] - prev[1]))
    rd = cur[0] - prev[3]
    rlen = min(cur[3] - cur[0], prev[3] - prev[0])
    qd = cur[1] - prev[4]          # same sign on both strands (query coordinates of '-' are mirrored)
    if min(rlen + 2 * rd, qlen + 2 * qd) < 0:
        return None
    s, a, d = rd + qd, abs(rd) + abs(qd), rd - qd
    if var == 0:
        c = Fraction(s * s + d * d, max(abs(s), abs(d), 1))
    else:
        c = Fraction(a * a + d * d, max(a + abs(d), 1))
    return -mult * c


def oracle_join(line, out):
    op, kv = kv_of(line)
    mult, var = frac(kv["mult"]), int(kv["var"])
    prev, cur = ints(kv["prev"]), ints(kv["cur"])
    want = join_exact(mult, var, prev, cur)
    if out.startswith("ERR"):
        return f"exception {out}"
    if out == "-inf":
        return None if want is None else "minus infinity although overlap is at most half of the shorter segment"
    v = frac(out)
    if want is None:
        return "finite join although a segment overlaps its neighbour by more than half"
    if v > 0:
        return f"positive join score {v}"
    rd = cur[0] - prev[3]
    qd = cur[1] - prev[4]
    if rd == 0 and qd == 0 and v != 0:
        return f"contiguous join scores {v}, not 0"
    if v != want:
        return f"join score {v} differs from the stated formula {want}"
    return None


def seg_ends(items):
    ps = [it for it in items if it[0] == "P"]
    if not ps:
        return None
    a, b = ps[0], ps[-1]
    return (a[2], a[4], a[3], b[2], b[4], b[3])


def parse_segs(s):
    out = []
    if s == "":
        return out
    for t in s.split(";"):
        peak, _, items = t.partition("|")
        out.append((int(peak), parse_items(items)))
    return out


def item_score(P, it):
    if it[0] == "P":
        return P["sp"] - P["dp"] * abs(it[5])
    return P["su"]


def params_of(kv):
    return {"sp": int(kv["sp"]), "dp": int(kv["dp"]), "su": int(kv["su"]), "md": int(kv["md"]),
            "ms": int(kv["ms"]), "bs": int(kv["bs"])}


def chain_total(P, mult, var, chain):
    tot = Fraction(0)
    for i, (peak, items) in enumerate(chain):
        tot += sum(item_score(P, it) for it in items)
        if i:
            j = join_exact(mult, var, seg_ends(chain[i - 1][1]), seg_ends(items))
            if j is None:
                return None
            tot += j
    return tot


AMBIGUOUS = [0]


def oracle_chain(line, out):
    import itertools
    op, kv = kv_of(line)
    P = params_of(kv)
    mult, var = frac(kv["mult"]), int(kv["var"])
    segs = parse_segs(kv.get("SEG", ""))
    if out.startswith("ERR"):
        return f"exception {out}"
    res = parse_segs(out)
    ne_in = [s for s in segs if s[1]]
    em_in = [s for s in segs if not s[1]]
    ne_out = [s for s in res if s[1]]
    em_out = [s for s in res if not s[1]]
    if em_out != em_in or res[len(ne_out):] != em_out:
        return "empty segments not passed through unchanged at the end"
    if not ne_in:
        return None if not ne_out else "segments invented"
    key = lambda s: (lambda e: e[0] + e[3] + e[1] + e[4])(seg_ends(s[1]))
    order = sorted(ne_in, key=key)
    # subsequence of the key order, each at most once
    it = iter(order)
    for s in ne_out:
        for t in it:
            if t == s:
                break
        else:
            # equal keys may be permuted only by stability; accept if it is an order-respecting selection
            # under *some* stable order: check keys non-decreasing and multiset inclusion
            ks = [key(x) for x in ne_out]
            if ks != sorted(ks) or any(ne_out.count(x) > order.count(x) for x in ne_out):
                return "chain is not an order-respecting selection of the input segments"
            break
    got = chain_total(P, mult, var, ne_out)
    if got is None:
        return "chain total is minus infinity (a member overlaps its neighbour by more than half)"
    if not ne_out:
        return "no segment chosen"
    if len(order) <= 10:
        best = None
        for k in range(1, len(order) + 1):
            for idx in itertools.combinations(range(len(order)), k):
                t = chain_total(P, mult, var, [order[i] for i in idx])
                if t is not None and (best is None or t > best):
                    best = t
        if got < best:
            if float(best - got) <= 1e-9 * max(1.0, abs(float(best))):
                AMBIGUOUS[0] += 1
                return None
            return f"chain total {got} is below the best order-respecting selection {best}"
    return None


# ------------------------------------------------------------------ C15
def pairs_of(items):
    return [it for it in items if it[0] == "P"]


def is_infix(small, big):
    n = len(small)
    return any(big[i:i + n] == small for i in range(len(big) - n + 1))


def conflicts_between(a_items, b_items):
    """shared reference label, shared query label, or crossing between two segments' pairs"""
    for p in pairs_of(a_items):
        for q in pairs_of(b_items):
            if p[1] == q[1]:
                return f"reference label {p[1]} in two segments"
            if p[3] == q[3]:
                return f"query label {p[3]} in two segments"
            if (p[2] < q[2]) != (p[4] < q[4]) and p[2] != q[2] and p[4] != q[4]:
                return f"pairs ({p[1]},{p[3]}) and ({q[1]},{q[3]}) cross"
    return None


def classify_resolveall(line, out, model_out, msg):
    """mechanism classifier for surviving conflicts: re-walk the REAL resolver step by step"""
    if "in two segments" not in msg and "cross" not in msg:
        return None
    try:
        import realops
        import codec
        from src.alignment.segment_chainer import SegmentChainer, SequentialityScorer
        from src.alignment.segments import _SegmentPairWithConflict
        op, kv = kv_of(line)
        P = realops.params(kv)
        segs = codec.parse_segs(kv.get("SEG", ""), P)
        chained = SegmentChainer(SequentialityScorer(realops.frac(kv["mult"]), int(kv["var"]))).chain(segs)
        branches = []
        for i in range(len(chained) - 1):
            pair = chained[i].checkForConflicts(chained[i + 1])
            b = "noconflict"
            if isinstance(pair, _SegmentPairWithConflict):
                lc, rc = pair.leftConflictingSubsegment, pair.rightConflictingSubsegment
                if lc.peak.position > rc.peak.position:
                    a, c = lc.getReferenceLabels(), rc.getReferenceLabels()
                else:
                    a, c = lc.getQueryLabels(), rc.getQueryLabels()
                if len(a.positions) == len(c.positions):
                    k = int(_SegmentPairWithConflict._SegmentPairWithConflict__getOptimalMergeIndex(a, c))
                    b = "index0" if k == 0 else ("indexN" if k == len(a.positions) else "interior")
                else:
                    b = "drop"
            branches.append(b)
            chained[i], chained[i + 1] = pair.resolveConflict()
        final = [parse_items(codec.show_items(s.positions)) for s in chained]
        sigs = set()
        for i in range(len(final)):
            for j in range(i + 1, len(final)):
                if conflicts_between(final[i], final[j]):
                    if j != i + 1:
                        sigs.add("never-compared")
                    elif branches[i] == "interior":
                        sigs.add("interior-index-merge")
                    else:
                        sigs.add("unlisted:" + branches[i])
        if len(sigs) == 1:
            return sigs.pop()
        if sigs and all(s in ("never-compared", "interior-index-merge") for s in sigs):
            return "never-compared"  # both listed mechanisms present
        return None
    except Exception as e:  # classifier must never hide a violation
        return None


def oracle_resolveall(line, out):
    op, kv = kv_of(line)
    if out.startswith("ERR"):
        return f"exception {out}"
    P = params_of(kv)
    segs_in = parse_segs(kv.get("SEG", ""))
    res = parse_segs(out)
    used = set()
    for (peak, items) in res:
        if not items:
            continue
        ok = False
        for idx, (pk, its) in enumerate(segs_in):
            if pk == peak and idx not in used and is_infix(items, its):
                used.add(idx)
                ok = True
                break
        if not ok:
            return "a resulting segment is not a contiguous sub-run of one input segment"
    for i in range(len(res)):
        for j in range(i + 1, len(res)):
            c = conflicts_between(res[i][1], res[j][1])
            if c:
                return f"after resolution: {c} (segments {i},{j})"
    return None



def oracle_resolve2(line, out):
    """C15 on ONE resolver step (two segments): sub-runs, nothing outside the overlap is lost, separation"""
    op, kv = kv_of(line)
    if out.startswith("ERR"):
        return f"exception {out}"
    (pl, L), (pr, R) = parse_segs(kv["L"])[0], parse_segs(kv["R"])[0]
    res = parse_segs(out.split(" branch=")[0])
    if len(res) != 2:
        return "a resolver step does not return two segments"
    (_, l), (_, r) = res
    if not is_infix(l, L) or not is_infix(r, R):
        return "a resulting segment is not a contiguous sub-run of its input segment"
    Lp, Rp = pairs_of(L), pairs_of(R)
    if Lp and Rp:
        cs, ce = Rp[0], Lp[-1]

        def less_on_both(it):        # the item lies before the later segment's first pair
            if it[0] == "P":
                return it[2] < cs[2] and it[4] < cs[4]
            if it[0] == "R":
                return it[2] < cs[2]
            return it[2] < cs[4]

        def leq_any(it):             # the item does not lie after the earlier segment's last pair
            return it[0] != "P" or it[2] <= ce[2] or it[4] <= ce[4]
        keepL = []
        for it in L:
            if not less_on_both(it):
                break
            keepL.append(it)
        k = 0
        while k < len(R) and leq_any(R[k]):
            k += 1
        keepR = R[k:]
        if l[:len(keepL)] != keepL:
            lost = [it for it in keepL if it not in l]
            return (f"positions of the earlier segment that lie before the later segment's first pair ({cs[1]},{cs[3]}) are not all kept"
                    f" (lost: {lost[:3]})")
        if keepR and r[len(r) - len(keepR):] != keepR:
            lost = [it for it in keepR if it not in r]
            return (f"positions of the later segment that lie after the earlier segment's last pair ({ce[1]},{ce[3]}) are not all kept"
                    f" (lost: {lost[:3]})")
    c = conflicts_between(l, r)
    if c:
        return f"after one resolver step: {c}"
    return None

# ------------------------------------------------------------------ C20
def parse_calls(s, with_count=False):
    out = []
    for e in [t for t in s.split(";") if t]:
        f = e.split(":")
        d = {"ins": f[0] == "1", "chrom": int(f[1]), "rs": int(f[2]), "re": int(f[3]), "qids": ints(f[4]),
             "len": frac(f[7])}
        if with_count:
            d["count"] = int(f[8])
        out.append(d)
    return out


def oracle_cluster(line, out):
    if out.startswith("MUTATED-INPUT"):
        return "clustering rewrites the caller's call rows (Count / interval / ids of the input calls change)"
    if out.startswith("NOT-REPEATABLE"):
        return "clustering the same calls a second time gives another result: " + out[:200]
    op, kv = kv_of(line)
    if out.startswith("ERR"):
        return f"exception {out}"
    calls = parse_calls(kv.get("CALLS", ""))
    cl = parse_calls(out, True)
    if sum(c["count"] for c in cl) != len(calls):
        return f"Count values sum to {sum(c['count'] for c in cl)}, input has {len(calls)} calls"
    ids_in = [q for c in calls for q in c["qids"]]
    ids_out = [q for c in cl for q in c["qids"]]
    if sorted(ids_in) != sorted(ids_out):
        return "query ids lost, invented or duplicated by clustering"
    i = 0
    for c in cl:
        members = calls[i:i + c["count"]]
        i += c["count"]
        if [q for m in members for q in m["qids"]] != c["qids"]:
            return "cluster members are not a consecutive group of the input"
        for m in members:
            if m["ins"] != c["ins"] or m["chrom"] != c["chrom"]:
                return "a cluster mixes indel types or chromosomes"
            if not (c["rs"] <= m["rs"] and m["re"] <= c["re"]):
                return "a cluster's reference interval does not cover a member"
    return None


def oracle_indelfile(line, out):
    """C20 on the written file: counts sum to the number of calls found, every query id in exactly one line,
    no line mixes types or chromosomes, every call's interval is covered by its line"""
    op, kv = kv_of(line)
    def calls(t):
        return [tuple(e.split(":")) for e in kv.get(t, "").split(";") if e]
    ins, dels = calls("INS"), calls("DEL")
    if out.startswith("ERR"):
        return f"writing the indel file raises {out[4:]}"
    rows = [tuple(e.split(":")) for e in out.split(";") if e]
    if sum(int(r[8]) for r in rows) != len(ins) + len(dels):
        return f"Count values sum to {sum(int(r[8]) for r in rows)}, {len(ins) + len(dels)} calls were found"
    ids = [q for r in rows for q in r[4].split(",")]
    want = sorted(c[4] for c in ins + dels)
    if sorted(ids) != want:
        return "the query ids of the file are not exactly the query ids of the calls found (each once)"
    # one molecule can carry several calls (several breakage places): match the occurrences of each id in the lines
    # with the calls of that id, one to one, so that every call lies in a line of its type and chromosome that covers it
    by_id, occ = {}, {}
    for c in ins + dels:
        by_id.setdefault(c[4], []).append(c)
    for r in rows:
        for q in r[4].split(","):
            occ.setdefault(q, []).append(r)
    for q, cs in by_id.items():
        rs = occ.get(q, [])
        def fits(c, r):
            return (c[0], c[1]) == (r[0], r[1]), int(r[2]) <= int(c[2]) and int(c[3]) <= int(r[3])
        def matching(pred):
            """maximum bipartite matching calls -> line occurrences (augmenting paths)"""
            owner = {}
            def try_(i, seen):
                for j, r in enumerate(rs):
                    if j in seen or not pred(cs[i], r):
                        continue
                    seen.add(j)
                    if j not in owner or try_(owner[j], seen):
                        owner[j] = i
                        return True
                return False
            return sum(1 for i in range(len(cs)) if try_(i, set()))
        best = None
        if len(rs) == len(cs):
            if matching(lambda c, r: all(fits(c, r))) == len(cs):
                best = "ok"
            elif matching(lambda c, r: fits(c, r)[0]) == len(cs):
                best = "typed"
        if best is None:
            return "a line mixes types or chromosomes"
        if best == "typed":
            return "a call's reference interval is not covered by its line"
    keys = [(int(r[1]), int(r[3])) for r in rows]
    if any(a[0] > b[0] for a, b in zip(keys, keys[1:])):
        return "lines are not ordered by chromosome"
    return None


def oracle_call(line, out):
    op, kv = kv_of(line)
    lo = int(kv["lo"])
    rs, re_, qs, qe = int(kv["rs"]), int(kv["re"]), int(kv["qs"]), int(kv["qe"])
    diff = abs(rs - re_) - abs(qs - qe)
    if out.startswith("ERR"):
        return f"exception {out}"
    if out == "none":
        return None if not (lo < abs(diff) < 100000) else f"call with Length {diff} not reported"
    c = parse_calls(out, True)[0]
    if c["len"] != diff:
        return f"Length {c['len']} is not reference gap - query gap = {diff}"
    if c["ins"] != (diff < 0):
        return f"type insertion={c['ins']} but Length {diff}"
    return None


# ------------------------------------------------------------------ C19
def parse_alset(s):
    out = []
    for e in [t for t in s.split(";") if t]:
        k, ps = e.split("@")
        q, r = k.split(":")
        out.append((int(q), int(r), [tuple(int(x) for x in t.split(":")) for t in ps.split(",") if t]))
    return out


def parse_comparison(out):
    kv = dict(t.split("=", 1) for t in out.split(" ") if "=" in t)
    rows = []
    for e in [t for t in kv.get("ROWS", "").split(";") if t]:
        f = e.split(":")
        rows.append({"q": int(f[0]), "r": int(f[1]), "type": f[2], "ident": frac(f[3]), "cov1": frac(f[4]), "cov2": frac(f[5]),
                     "rest": ":".join(f[6:])})
    return {k: int(kv[k]) for k in ("ov", "non", "first", "second")}, rows


def oracle_compare(line, out):
    if out.startswith("STATEFUL-COMPARER"):
        return "a comparer that has compared a prefix of the list before classifies the grown list differently from a fresh comparer: " + out[:300]
    op, kv = kv_of(line)
    if out.startswith("ERR"):
        return f"exception {out}"
    A, B = parse_alset(kv.get("A", "")), parse_alset(kv.get("B", ""))
    cnt, rows = parse_comparison(out)
    k1, k2 = {(q, r) for q, r, _ in A}, {(q, r) for q, r, _ in B}
    if cnt["ov"] + cnt["non"] + cnt["first"] + cnt["second"] != len(k1 | k2):
        return f"counters sum to {sum(cnt.values())}, distinct keys {len(k1 | k2)}"
    if cnt["first"] != len(k1 - k2) or cnt["second"] != len(k2 - k1):
        return "only-counts are not the set differences"
    if sorted((r["q"], r["r"]) for r in rows) != sorted(k1 | k2):
        return "a key is classified not exactly once"
    for r in rows:
        for f in ("ident", "cov1", "cov2"):
            if not (0 <= r[f] <= 1):
                return f"{f} = {r[f]} outside [0,1]"
    if kv.get("A", "") == kv.get("B", ""):
        if cnt["first"] or cnt["second"] or cnt["non"]:
            return "self-comparison has exclusive or non-overlapping keys"
        for r in rows:
            if r["ident"] != 1 or r["cov1"] != 1 or r["cov2"] != 1 or r["rest"] != "/":
                return f"self-comparison of key ({r['q']},{r['r']}) is not identity 1 / coverage 1 / no exclusive pairs"
    return None


def oracle_compare_swap(line, out, line2, out2):
    if out.startswith(("STATEFUL", "ERR")) or out2.startswith(("STATEFUL", "ERR")):
        return None          # already reported by oracle_compare on the line itself
    c1, r1 = parse_comparison(out)
    c2, r2 = parse_comparison(out2)
    if (c1["first"], c1["second"], c1["ov"], c1["non"]) != (c2["second"], c2["first"], c2["ov"], c2["non"]):
        return "swapping the inputs does not swap the first/second counts (or changes the both-counts)"
    d2 = {(r["q"], r["r"]): r for r in r2}
    for r in r1:
        s = d2[(r["q"], r["r"])]
        if r["type"] == "B" and (r["cov1"], r["cov2"]) != (s["cov2"], s["cov1"]):
            return f"swapping does not swap the coverages of key ({r['q']},{r['r']})"
    return None


def check_matcher_contract(mtable):
    """the three-clause contract of Props/Defs.MatcherOK on the values recorded from real difflib"""
    vals = {}
    for e in [t for t in mtable.split(";") if t]:
        k, m = e.split(">")
        a, b = k.split("|")
        vals[(a, b)] = int(m)
    n = lambda s: len([t for t in s.split(",") if t])
    for (a, b), m in vals.items():
        if m > min(n(a), n(b)):
            return f"matched size {m} exceeds min length"
        if a == b and m != n(a):
            return f"M(a,a) = {m} != |a| = {n(a)}"
        if (b, a) in vals and (m > 0) != (vals[(b, a)] > 0):
            return "M(a,b) > 0 but M(b,a) = 0"
    return None


# ------------------------------------------------------------------ C17
def oracle_readcmap(line, out):
    op, kv = kv_of(line)
    unit = int(kv["unit"])
    rows = [tuple(int(x) for x in t.split(":")) for t in kv.get("ROWS", "").split(",") if t]
    ids = ints(kv.get("ids", ""))
    sel = [r for r in rows if not ids or r[0] in ids]
    mids = sorted({r[0] for r in sel})
    if any(not [r for r in sel if r[0] == m and r[1] == 0] for m in mids):
        return None if out.startswith("ERR") else None   # molecule without end marker: outside "syntactically valid"
    if out.startswith("ERR"):
        return f"exception {out} on a syntactically valid file"
    want = []
    for m in mids:
        pos = sorted(r[2] for r in sel if r[0] == m and r[1] != 0)
        if not pos:
            continue
        em = next(r for r in sel if r[0] == m and r[1] == 0)
        want.append(f"{m}:{em[2] // unit}:0:{','.join(map(str, pos))}")
    if out != "/".join(want):
        return f"reader returned {out[:200]!r}, the file says {'/'.join(want)[:200]!r}"
    return None


def oracle_trim(line, out):
    op, kv = kv_of(line)
    mid, length, shift, pos = map_of(kv["M"])
    o = map_of(out)
    if not pos:
        return None if o == (mid, length, shift, pos) else "trimming an empty map changed it"
    if o[0] != mid or len(o[3]) != len(pos):
        return "trim changed the id or the number of labels"
    if o[3][0] != 0:
        return "first label not at 0 after trimming"
    if [b - a for a, b in zip(o[3], o[3][1:])] != [b - a for a, b in zip(pos, pos[1:])]:
        return "trim changed an inter-label distance"
    if o[1] != pos[-1] - pos[0] + 1:
        return "trimmed length is not last - first + 1"
    return None


def oracle_labels(line, out):
    op, kv = kv_of(line)
    m = map_of(kv["M"])
    want = labels_of(m, kv["rev"] == "1")
    got = [tuple(int(x) for x in t.split(":")) for t in out.split(" ") if t]
    return None if got == want else "label numbering / mirroring differs from the stated convention"


# ------------------------------------------------------------------ C18
def oracle_xrow(line, out):
    op, kv = kv_of(line)
    if out.startswith("ERR"):
        return f"exception {out}"
    written, _, read = out.partition(" READ ")
    f = written.split("|")
    if len(f) != 15:
        return f"{len(f)} columns written"
    pairs = kv.get("P", "")
    want_pairs = "".join(f"({t.replace(':', ',')})" for t in pairs.split(",") if t)
    c100 = int(kv["c100"])
    conf = ("-" if c100 < 0 else "") + f"{abs(c100) // 100}.{abs(c100) % 100:02d}"
    want = [kv["eid"], kv["q"], kv["r"], kv["qs"] + ".0", kv["qe"] + ".0", kv["rs"] + ".0", kv["re"] + ".0",
            "-" if kv["rev"] == "1" else "+", conf, kv.get("hit", ""), kv["ql"] + ".0", kv["rl"] + ".0",
            "True" if kv["rest"] == "1" else "False", "1", want_pairs]
    if f != want:
        bad = [i for i in range(15) if f[i] != want[i]]
        return f"written column(s) {bad} differ: {[f[i] for i in bad][:3]} vs {[want[i] for i in bad][:3]}"
    want_read = "|".join([kv["eid"], kv["q"], kv["r"], kv["qs"], kv["qe"], kv["rs"], kv["re"], kv["rev"], str(c100),
                          kv.get("hit", ""), kv["ql"], kv["rl"], pairs])
    if read != want_read:
        return f"read back {read[:200]!r}, written record is {want_read[:200]!r}"
    return None


# ------------------------------------------------------------------ C01 / C02 / C04 on CANDIDATE rows
def parse_candidate(out):
    kv = dict(t.split("=", 1) for t in out.split(" ") if "=" in t)
    segs = parse_segs(kv.get("SEG", ""))
    return kv, segs


def oracle_candidate_valid(line, out):
    op, kv = kv_of(line)
    if out.startswith("ERR"):
        if out == "ERR ValueError" and int(kv["su"]) > 0:
            return None
        return f"exception {out}"
    okv, segs = parse_candidate(out)
    ref, qry = map_of(kv["REF"]), map_of(kv["QRY"])
    rev = kv["rev"] == "1"
    rl = dict(labels_of(ref, False))
    ql = dict(labels_of(qry, rev))
    pairs = [it for _, items in segs for it in items if it[0] == "P"]
    for p in pairs:
        if rl.get(p[1]) != p[2] or ql.get(p[3]) != p[4]:
            return f"pair ({p[1]},{p[3]}) does not name real labels"
    rs = [p[1] for p in pairs]
    qs = [p[3] for p in pairs]
    if len(set(rs)) != len(rs):
        return "a reference label is used twice in a candidate alignment"
    if len(set(qs)) != len(qs):
        return "a query label is used twice in a candidate alignment"
    if any(a >= b for a, b in zip(rs, rs[1:])):
        return "candidate pairs not in strictly ascending reference order"
    if any((a <= b) if rev else (a >= b) for a, b in zip(qs, qs[1:])):
        return "candidate query label numbers not strictly monotone"
    return None


def candidate_to_resolveall(line):
    """the RESOLVEALL line of the same candidate (segments of every peak from the real factory)"""
    import codec
    import realops
    op, kv = kv_of(line)
    P = realops.params(kv)
    al = realops.make_aligner(P, realops.frac(kv["mult"]), int(kv["var"]), int(kv["it"]))
    segs = []
    for p in ints(kv.get("peaks", "")):
        segs += al.getSegments(kv["rev"] == "1", codec.Peak(p, 1.0), codec.parse_map(kv["QRY"]), codec.parse_map(kv["REF"]))
    return (f"RESOLVEALL sp={kv['sp']} dp={kv['dp']} su={kv['su']} md={kv['md']} ms={kv['ms']} bs={kv['bs']} "
            f"mult={kv['mult']} var={kv['var']} SEG={codec.show_segs(segs)}")


def classify_candidate(line, out, model_out, msg):
    if "twice" not in msg and "ascending" not in msg and "monotone" not in msg:
        return None
    try:
        rl = candidate_to_resolveall(line)
        import realops
        rout = realops.real_exec(rl)
        rmsg = oracle_resolveall(rl, rout)
        if not rmsg:
            return None
        return classify_resolveall(rl, rout, None, rmsg)
    except Exception:
        return None


def oracle_candidate_header(line, out):
    """C02 on a candidate row: header fields agree with the listed pairs and the maps"""
    op, kv = kv_of(line)
    if out.startswith("ERR"):
        return None
    okv, segs = parse_candidate(out)
    ref, qry = map_of(kv["REF"]), map_of(kv["QRY"])
    rev = kv["rev"] == "1"
    if int(okv["q"]) != qry[0] or int(okv["r"]) != ref[0] or int(okv["ql"]) != qry[1] or int(okv["rl"]) != ref[1]:
        return "ids / lengths of the row are not those of the maps"
    if (okv["rev"] == "1") != rev:
        return "row orientation differs from the strand aligned"
    pairs = [it for _, items in segs for it in items if it[0] == "P"]
    if not pairs or oracle_candidate_valid(line, out):
        return None
    first, last = pairs[0], pairs[-1]
    if int(okv["rs"]) != first[2] or int(okv["re"]) != last[2]:
        return "reference start/end are not the coordinates of the first/last listed reference labels"
    s, e = (last[4], first[4]) if rev else (first[4], last[4])
    if int(okv["qs"]) != s or int(okv["qe"]) != e:
        return "query start/end are not those of the outermost aligned query labels"
    return None


def oracle_candidate_conf(line, out):
    """C04 on a candidate row (independent recomputation from the raw maps, peaks, parameters)"""
    op, kv = kv_of(line)
    if out.startswith("ERR"):
        return None
    P = params_of(kv)
    okv, segs = parse_candidate(out)
    ref, qry = map_of(kv["REF"]), map_of(kv["QRY"])
    rev = kv["rev"] == "1"
    rl = dict(labels_of(ref, False))
    qlab = dict(labels_of(qry, rev))
    total = 0
    for peak, items in segs:
        if not items:
            continue
        seen_r, seen_q, span = set(), set(), []
        for it in items:
            if it[0] == "P":
                if it[1] not in rl or it[3] not in qlab:
                    return "pair names a label that does not exist"
                off = qlab[it[3]] - (rl[it[1]] - peak)
                if off != it[5]:
                    return f"recorded offset {it[5]} is not query - (reference - peak) = {off}"
                if abs(off) > P["md"]:
                    return f"pair offset {off} exceeds maxPairDistance"
                total += P["sp"] - P["dp"] * abs(off)
                kr, kq = it[1], it[3]
                span.append(rl[it[1]])
            elif it[0] == "R":
                total += P["su"]
                kr, kq = it[1], None
                span.append(rl.get(it[1], it[2]))
            else:
                total += P["su"]
                kr, kq = None, it[1]
                span.append(qlab.get(it[1], it[2]) + peak)
            if kr is not None:
                if kr in seen_r:
                    return "a reference label is counted twice in one segment"
                seen_r.add(kr)
            if kq is not None:
                if kq in seen_q:
                    return "a query label is counted twice in one segment"
                seen_q.add(kq)
        lo, hi = min(span), max(span)
        for s, p in rl.items():
            if lo < p < hi and s not in seen_r:
                return f"reference label {s} inside a segment's span is unaccounted for"
        for s, p in qlab.items():
            if lo < p + peak < hi and s not in seen_q:
                return f"query label {s} inside a segment's span is unaccounted for"
    from fractions import Fraction
    a, _, b = okv["conf"].partition("/")
    if Fraction(int(a), int(b) if b else 1) != total:
        return f"confidence {okv['conf']} != configured score of what is reported {total}"
    return None


# ------------------------------------------------------------------ correlation arithmetic (C06 / C16 support)
def oracle_corr(line, out):
    op, kv = kv_of(line)
    r = [int(c) for c in kv.get("R", "")]
    q = [int(c) for c in kv.get("Q", "")]
    if out.startswith("ERR"):
        return f"exception {out}"
    c_s, _, n_s = out.partition(" N=")
    c, n = ints(c_s), ints(n_s)
    if len(q) > len(r) or not q:
        return None
    if len(c) != len(r) - len(q) + 1:
        return "correlation has the wrong number of lags"
    for k in range(len(c)):
        want = sum(r[k + j] * q[j] for j in range(len(q)))
        if c[k] != want:
            return f"correlation at lag {k} is {c[k]}, the label overlap is {want}"
        if n[k] != sum(r[k:k + len(q)]) + sum(q):
            return f"normalising factor at lag {k} is wrong"
        if 2 * c[k] > n[k]:
            return "normalised correlation above 1"
        if (2 * c[k] == n[k]) != (r[k:k + len(q)] == q):
            return f"normalised correlation is 1 at lag {k} although the window is not an exact copy (or vice versa)"
    return None


# ------------------------------------------------------------------ C08 / C01 on joined rows
def parse_row_kv(s, sep=" "):
    kv = dict(t.split("=", 1) for t in s.split(sep) if "=" in t)
    segs = parse_segs(kv.get("SEG", ""))
    pairs = [(it[1], it[3]) for _, items in segs for it in items if it[0] == "P"]
    return kv, pairs


def valid_pairs(pairs, rev):
    rs = [p[0] for p in pairs]
    qs = [p[1] for p in pairs]
    return (bool(pairs) and all(a < b for a, b in zip(rs, rs[1:]))
            and all((b < a) if rev else (a < b) for a, b in zip(qs, qs[1:])))


def oracle_joinrows(line, out):
    op, kv = kv_of(line)
    if out.startswith("ERR"):
        return f"exception {out}"
    if out == "None":
        return None
    a, pa = parse_row_kv(kv["A"], "~")
    b, pb = parse_row_kv(kv["B"], "~")
    j, pj = parse_row_kv(out)
    if not valid_pairs(pj, j["rev"] == "1"):
        return "the joined record is not a one-to-one collinear matching with at least one pair"
    if not set(pj) <= set(pa) | set(pb):
        return "the joined record has a pair that is in neither part"
    if (j["q"], j["r"], j["rev"]) != (a["q"], a["r"], a["rev"]):
        return "the joined record does not keep the query / reference / strand of its parts"
    return None


def valid_union_pairs(p1, p2, rev):
    u = sorted(set(p1) | set(p2))
    return u if valid_pairs(u, rev) else None


def parts_interleave(segs_a, segs_b):
    """negation of the hypothesis of the proved union theorem (C08_join_union_partial): some position
    (paired or not) of the earlier part's first segment is NOT before the first pair of the later
    part's first segment on both maps.  `segs_*` as returned by parse_segs."""
    fa = [it for _, items in segs_a[:1] for it in items]
    fb = [it for _, items in segs_b[:1] for it in items]
    pa = next((it for it in fa if it[0] == "P"), None)
    pb = next((it for it in fb if it[0] == "P"), None)
    if pa is None or pb is None:
        return False
    early, late = (fa, pb) if pa[2] < pb[2] else (fb, pa)
    for it in early:
        if it[0] == "P" and not (it[4] < late[4] and it[2] < late[2]):
            return True
        if it[0] == "R" and not it[2] < late[2]:
            return True
        if it[0] == "Q" and not it[2] < late[4]:
            return True
    return False


def join_union_signature(segs_a, segs_b):
    """which known mechanism (if any) explains `joined != union although the union is valid`"""
    # a part keeps aligned positions outside its segments[0] (also: an EMPTY first segment before the real one)
    if any(any(items for _, items in sg[1:]) for sg in (segs_a, segs_b)):
        return "join-uses-first-segment-only"
    if parts_interleave(segs_a, segs_b):
        return "join-cuts-interleaving-parts"
    return None


def oracle_join_union(line, out):
    """last clause of C08 on one join: when the union of the parts is a valid matching the joined
    record is exactly the union"""
    if out == "None" or out.startswith("ERR"):
        return None
    op, kv = kv_of(line)
    a, pa = parse_row_kv(kv["A"], "~")
    b, pb = parse_row_kv(kv["B"], "~")
    j, pj = parse_row_kv(out)
    u = valid_union_pairs(pa, pb, j["rev"] == "1")
    if u is not None and sorted(pj) != u:
        return f"union of the parts is a valid matching ({len(u)} pairs) but the joined record has {len(pj)} pairs"
    return None


def classify_join_union(line, out, model_out, msg):
    if not msg.startswith("union of the parts"):
        return None
    op, kv = kv_of(line)
    sa = parse_segs(dict(t.split("=", 1) for t in kv["A"].split("~") if "=" in t).get("SEG", ""))
    sb = parse_segs(dict(t.split("=", 1) for t in kv["B"].split("~") if "=" in t).get("SEG", ""))
    return join_union_signature(sa, sb)


def oracle_resolverows(line, out):
    op, kv = kv_of(line)
    if out.startswith("ERR"):
        return f"exception {out}"
    diff = int(kv["diff"])
    rows = [t for t in kv.get("ROWS", "").split("^") if t]
    js, _, ss = out.partition(" S=")
    joined = [t for t in js[2:].split("^") if t]
    sep = [t for t in ss.split("^") if t]
    if len(sep) + 2 * len(joined) != len(rows):
        return f"{len(rows)} rows in, {len(joined)} joined + {len(sep)} un-joined out: a row is lost or duplicated"
    if any(s not in rows for s in sep):
        return "an un-joined row is not one of the input rows"
    parsed = [parse_row_kv(r, "~") for r in rows]
    for jt in joined:
        j, pj = parse_row_kv(jt, "~")
        parts = [(k, p) for (k, p), r in zip(parsed, rows) if k["q"] == j["q"] and k["r"] == j["r"] and r not in sep]
        if len(parts) != 2:
            return "a joined row does not come from exactly two rows of the same query and reference"
        (a, pa), (b, pb) = parts
        if a["rev"] != b["rev"]:
            return "rows of different orientation were joined"
        gap = abs(max(int(a["rs"]), int(b["rs"])) - min(int(a["re"]), int(b["re"])))
        if gap > diff:
            return f"rows joined although the reference gap {gap} exceeds maxDifference {diff}"
        if not valid_pairs(pj, j["rev"] == "1"):
            return "a joined row is not a one-to-one collinear matching"
        if not set(pj) <= set(pa) | set(pb):
            return "a joined row has a pair that is in neither part"
    # completeness: the two rows of a query that are eligible (same reference, same strand, gap within maxDifference) and
    # whose join is a valid matching (decided by the real join of just these two rows) must come out joined, whatever other
    # rows are in the list and wherever they stand
    byq = {}
    for (k, p), r in zip(parsed, rows):
        byq.setdefault(k["q"], []).append((k, r))
    for q, items in byq.items():
        if len(items) != 2:
            continue
        (a, ra), (b, rb) = items
        if a["r"] != b["r"] or a["rev"] != b["rev"]:
            continue
        gap = abs(max(int(a["rs"]), int(b["rs"])) - min(int(a["re"]), int(b["re"])))
        if gap > diff:
            continue
        if any(parse_row_kv(jt, "~")[0]["q"] == q for jt in joined):
            continue
        try:
            import realops
            pstr = " ".join(f"{k}={kv[k]}" for k in ("sp", "dp", "su", "md", "ms", "bs"))
            jr = realops.real_exec(f"JOINROWS {pstr} A={ra} B={rb}")
        except Exception:
            continue
        if jr.startswith("q="):
            return (f"the two rows of query {q} are eligible for a join (same reference and strand, gap {gap} <= {diff}) and join to a valid "
                    f"record on their own, but are left un-joined in this list")
    return None


def oracle_topn(line, out):
    op, kv = kv_of(line)
    if out.startswith("ERR"):
        return f"exception {out}"
    bins, hs = ints(kv.get("B", "")), ints(kv.get("H", ""))
    count, res, start = int(kv["count"]), int(kv["res"]), int(kv["start"])
    got = [tuple(int(x) for x in t.split(":")) for t in out.split(",") if t]
    keep = sorted(zip(bins, hs), key=lambda p: -p[1])[:count] if count < len(bins) else list(zip(bins, hs))
    want = sorted((b * res + (-(-res // 2) - 1 + start), h) for b, h in keep)
    if got != want:
        return f"peaks kept {got} are not the {count} highest of the correlation at their bin centres {want}"
    return None


def oracle_join_cigar(line, out):
    """C03 on joined records: the HitEnum of whatever record the join returns must replay to its pairs"""
    if out == "None" or out.startswith("ERR"):
        return None if out == "None" else f"exception {out}"
    j, pj = parse_row_kv(out)
    cig = j.get("cigar", "")
    if not pj:
        return None
    rev = j["rev"] == "1"
    runs = parse_cigar(cig)
    if not runs:
        return "empty or malformed HitEnum for a joined record with pairs"
    if replay_cigar(runs, pj[0], rev) != pj:
        return f"replaying the HitEnum {cig} of a joined record does not give its listed pairs"
    return None


# ---------------------------------------------------------------- secondary seeding stage
def _ideal_bits(pos, res, start, n):
    return [1 if any(start + i * res <= p < start + (i + 1) * res for p in pos) else 0 for i in range(n)]


def oracle_seq(line, out):
    """C16 for `SequenceGenerator.positionsToSequence`: bit i is set exactly when a label lies in a bin within the
    blur radius of bin i (bins counted from `start`), and every label between start and end has its bin"""
    op, kv = kv_of(line)
    res, start, r = int(kv["res"]), int(kv["start"]), int(kv["blur"])
    pos = ints(kv.get("POS", ""))
    stop = None if kv["stop"] == "none" else int(kv["stop"])
    if res < 1 or r < 0:
        return None if out == "ERR ValueError" else "resolution < 1 / negative radius accepted"
    if not stop and not pos:
        return None
    if out.startswith("ERR"):
        return f"exception {out}"
    bits = [int(c) for c in out]
    n = len(bits)
    v = _ideal_bits(pos, res, start, n)
    for i in range(n):
        want = 1 if any(v[j] for j in range(max(0, i - r), min(n, i + r + 1))) else 0
        if bits[i] != want:
            return f"bit {i} is {bits[i]}; labels within {r} bins of [{start + i * res},{start + (i + 1) * res}) say {want}"
    stop_eff = stop if stop else pos[-1]
    for p in pos:
        if start <= p <= stop_eff and (p - start) // res >= n:
            return f"label {p} in [start,end] has no bin (vector length {n})"
    return None


def oracle_xcorr(line, out):
    """contract of scipy.signal.correlate(mode='valid', method='fft') on integer arrays"""
    op, kv = kv_of(line)
    r = [int(c) for c in kv.get("R", "")]
    q = [int(c) for c in kv.get("Q", "")]
    if not r or not q:
        return None if out == "ERR IndexError" else f"empty operand gives {out}"
    if out.startswith("ERR"):
        return f"exception {out}"
    a, b = (r, q) if len(q) <= len(r) else (q, r)
    want = [sum(a[k + j] * b[j] for j in range(len(b))) for k in range(len(a) - len(b) + 1)]
    if len(q) > len(r):
        want = want[::-1]
    return None if ints(out) == want else f"correlation {out} is not the sliding dot product {want}"


def _peaks_by_definition(x, thr):
    n = len(x)
    out = []
    m = max([0] + x)
    i = 1
    for l in range(1, n - 1):
        if x[l - 1] >= x[l]:
            continue
        r = l
        while r + 1 < n and x[r + 1] == x[l]:
            r += 1
        if r + 1 >= n or x[r + 1] > x[l]:
            continue
        p = (l + r) // 2
        v = x[p]
        lm = v
        j = p
        while j >= 0 and x[j] <= v:
            lm = min(lm, x[j])
            j -= 1
        rm = v
        j = p
        while j < n and x[j] <= v:
            rm = min(rm, x[j])
            j += 1
        prom = v - max(lm, rm)
        if v >= thr and 20 * prom >= m:
            out.append((p, v))
    return out


def oracle_findpeaks(line, out):
    """contract of scipy.signal.find_peaks as `refine` calls it, from the definitions (plateau midpoints of strict
    local maxima, height, prominence >= max/20)"""
    op, kv = kv_of(line)
    from fractions import Fraction
    x = ints(kv.get("X", ""))
    a = kv["thr"].split("/")
    thr = Fraction(int(a[0]), int(a[1]) if len(a) > 1 else 1)
    if out.startswith("ERR"):
        return f"exception {out}"
    got = [tuple(int(t) for t in e.split(":")) for e in out.split(",") if e]
    want = _peaks_by_definition(x, thr)
    return None if got == want else f"peaks {got} are not the local maxima {want} that satisfy height and prominence"


def oracle_refine(line, out):
    """what the properties say about the seeds `refine` returns, stated without the model:
    (bin centre, C16) every reported position is the centre of a bin of the refinement window, i.e.
        position = (peak - margin) + k*res + ceil(res/2) - 1 for an integer k >= 0;
    (C06) when the query is a noise-free copy of consecutive reference labels with spacing >= 2 kb whose true
        diagonal lies inside the window, a seed within 200 bp of the true diagonal is reported (default
        secondary parameters: bins of 100 bp, blur 4)"""
    op, kv = kv_of(line)
    res, bl, margin, thr = kv["sec"].split(",")
    res, bl, margin = int(res), int(bl), int(margin)
    peak = int(kv["peak"])
    if out.startswith("ERR"):
        return None          # an empty window raises in scipy; whether a run can get there is C07's business
    body = out.split(" ", 1)[1] if " " in out else ""
    ents = [e for e in body.split(" ")[0].split(",") if e]
    got = [tuple(int(t) for t in e.split(":")) for e in ents]
    start = peak - margin
    adj = -(-res // 2) - 1
    for p, h in got:
        if (p - start - adj) % res != 0 or (p - start - adj) < 0:
            return f"seed {p} is not the centre of a bin of the window starting at {start} (resolution {res})"
    if "truth" in kv and kv["sec"] == "100,4,16000,27" and not out.startswith("n=many"):
        truth = int(kv["truth"])
        a, b, c, d = kv["REF"].split(":")
        R = [int(t) for t in d.split(",")]
        a, qlen, c, d = kv["QRY"].split(":")
        Q = [int(t) for t in d.split(",")]
        sp = min([R[i + 1] - R[i] for i in range(len(R) - 1)] + [10 ** 9])
        # C06's domain: an INTERIOR window, at least 4 labels from either reference end (a molecule whose unlabelled tail
        # hangs over the last reference label has its true lag outside the 'valid' correlation range)
        i0 = R.index(truth) if truth in R else -1
        interior = i0 >= 4 and i0 + len(Q) - 1 <= len(R) - 5
        if sp >= 2000 and len(Q) >= 15 and abs(truth - peak) <= 2000 and interior:
            if not any(abs(p - truth) <= 200 for p, h in got):
                return f"no seed within 200 bp of the true diagonal {truth}: seeds {[p for p, h in got]}"
    return None


def _ideal_seq(pos, res, r, start=0):
    """the blurred bit vector of a label list whose window starts at `start` and ends with the last label (C16)"""
    pos = [p for p in pos if p >= start]
    if not pos:
        return []
    n = (pos[-1] - start) // res + 1
    v = _ideal_bits(pos, res, start, n)
    return [1 if any(v[j] for j in range(max(0, i - r), min(n, i + r + 1))) else 0 for i in range(n)]


def oracle_primary(line, out):
    """the primary seeding stage judged against exact rational arithmetic (C06 / C16): every reported peak is the
    centre of a bin whose normalised correlation is a (non-strict) local maximum of at least 3/4 of the global
    maximum with the reported height, peaks keep the minimum distance, at most peaksCount are kept, the global
    maximum is reported, and an isolated strict local maximum above the threshold is only left out when a reported
    peak within the minimum distance is at least as high or when peaksCount higher ones were kept"""
    from fractions import Fraction
    op, kv = kv_of(line)
    res, r, mpd, count = int(kv["res"]), int(kv["blur"]), int(kv["mpd"]), int(kv["count"])
    a, rlen, c, d = kv["REF"].split(":")
    R = [int(t) for t in d.split(",")]
    a, qlen, c, d = kv["QRY"].split(":")
    Q = [int(t) for t in d.split(",")]
    rlen, qlen = int(rlen), int(qlen)
    if R != sorted(R) or Q != sorted(Q):
        return None          # label lists are ascending in every OpticalMap the readers build: outside the domain
    if out.startswith("ERR"):
        return f"exception {out}" if mpd >= res else None
    rs = _ideal_seq(R, res, r)
    qs = _ideal_seq(Q, res, r)
    if kv["rev"] == "1":
        qs = qs[::-1]
    if qlen > rlen or len(qs) > len(rs):
        return None if out == "EMPTY" else "a query longer than the reference (or than its labelled part) got primary peaks"
    if out == "EMPTY":
        return "no primary correlation although the query fits the reference"
    n = len(rs) - len(qs) + 1
    head, _, body = out.partition(" ")
    if int(head[2:]) != n:
        return f"correlation has {head[2:]} lags, expected {n}"
    s = sum(qs)
    cs = [sum(x * y for x, y in zip(rs[k:k + len(qs)], qs)) for k in range(n)]
    ws = [sum(rs[k:k + len(qs)]) for k in range(n)]
    h = [Fraction(2 * cs[k], ws[k] + s) for k in range(n)]
    mx = max(h)
    eps = Fraction(1, 10 ** 9)
    adj = -(-res // 2) - 1
    dist = -(-mpd // res)
    got = []
    for e in [t for t in body.split(",") if t]:
        p, hh, sc = e.split(":")
        p = int(p)
        if (p - adj) % res != 0:
            return f"peak position {p} is not a bin centre"
        k = (p - adj) // res
        if not (1 <= k <= n - 2):
            return f"peak at lag {k} outside the interior of the correlation (0..{n - 1})"
        if abs(Fraction(float(hh)) - h[k]) > eps:
            return f"peak height {hh} at lag {k} is not the normalised correlation {float(h[k])}"
        if h[k] < Fraction(3, 4) * mx - eps:
            return f"peak at lag {k} is below 3/4 of the maximum"
        if h[k] < h[k - 1] - eps or h[k] < h[k + 1] - eps:
            return f"lag {k} is not a local maximum of the normalised correlation"
        got.append(k)
    if len(got) > count:
        return f"{len(got)} peaks kept, peaksCount is {count}"
    for i in range(len(got)):
        for j in range(i + 1, len(got)):
            if abs(got[i] - got[j]) < dist:
                return f"peaks at lags {got[i]} and {got[j]} are closer than minPeakDistance"
    # completeness
    strict = [k for k in range(1, n - 1) if h[k] > h[k - 1] + eps and h[k] > h[k + 1] + eps and h[k] >= Fraction(3, 4) * mx + eps]
    for k in strict:
        if k in got:
            continue
        if any(abs(k - g) < dist and h[g] >= h[k] - eps for g in got):
            continue
        # a higher peak (reported or not) within the distance may have suppressed it before being suppressed itself
        if any(abs(k - j) < dist and h[j] >= h[k] - eps for j in range(max(0, k - dist + 1), min(n, k + dist)) if j != k):
            continue
        if len(got) == count and all(h[g] >= h[k] - eps for g in got):
            continue
        return f"the local maximum at lag {k} (height {float(h[k]):.6f}, maximum {float(mx):.6f}) is not reported: peaks at lags {got}"
    if mx > 0:
        tops = [k for k in range(1, n - 1) if h[k] == mx]
        edge = h[0] == mx or h[n - 1] == mx
        if tops and not edge and not any(h[g] >= mx - eps for g in got):
            # plateaus touching an end of the array are not peaks for scipy
            l = tops[0]
            while l > 0 and h[l - 1] == mx:
                l -= 1
            rr = tops[0]
            while rr < n - 1 and h[rr + 1] == mx:
                rr += 1
            if l > 0 and rr < n - 1 and all(h[k] == mx for k in range(l, rr + 1)):
                return f"the global maximum (lag {tops[0]}) is not among the reported peaks at lags {got}"
    return None


def oracle_calls(line, out):
    """C20 on the finders' loops: every reported call is self-consistent (Length = reference gap - query gap of two
    flanking aligned labels of THIS alignment, insertion iff negative, |Length| between the finder's threshold and
    100000), and (segment finder) every breakage place with a following pair whose gap difference is in range is reported"""
    op, kv = kv_of(line)
    if out.startswith("ERR"):
        return None      # label numbers outside the maps / a breakage place at the last pair: outside "self-consistent call"
    R, Q = ints(kv.get("R", "")), ints(kv.get("Q", ""))
    pairs = [tuple(int(x) for x in t.split(":")) for t in kv.get("PAIRS", "").split(",") if t]
    lo = 100 if kv["variant"] == "seg" else 2000
    got = []
    for e in [t for t in out.split(";") if t]:
        f = e.split(":")
        got.append({"ins": f[0] == "1", "chrom": int(f[1]), "rs": int(f[2]), "re": int(f[3]), "qid": f[4], "qs": int(f[5]), "qe": int(f[6]),
                    "len": frac(f[7]), "count": int(f[8])})
    for c in got:
        d = abs(c["rs"] - c["re"]) - abs(c["qs"] - c["qe"])
        if c["len"] != d:
            return f"Length {c['len']} is not the reference gap minus the query gap {d}"
        if c["ins"] != (d < 0):
            return f"type insertion={c['ins']} but Length {d}"
        if not (lo < abs(d) < 100000):
            return f"call with Length {d} outside ({lo}, 100000)"
        if c["chrom"] != int(kv["chrom"]) or c["qid"] != kv["qid"]:
            return "call names another chromosome / query"
        if c["rs"] not in R or c["re"] not in R or c["qs"] not in Q or c["qe"] not in Q:
            return "call coordinates are not label coordinates of the maps"
    if kv["variant"] == "seg":
        want = 0
        for i in ints(kv.get("BP", "")):
            if 0 <= i and i + 1 < len(pairs):
                (r1, q1), (r2, q2) = pairs[i], pairs[i + 1]
                if all(1 <= x <= len(R) for x in (r1, r2)) and all(1 <= x <= len(Q) for x in (q1, q2)):
                    d = abs(R[r1 - 1] - R[r2 - 1]) - abs(Q[q1 - 1] - Q[q2 - 1])
                    if lo < abs(d) < 100000:
                        want += 1
        if all(0 <= i for i in ints(kv.get("BP", ""))) and len(got) < want:
            return f"{want} breakage places have a gap difference in range, {len(got)} calls reported"
    return None


def oracle_checkoverlap(line, out):
    """C08 join eligibility: same orientation, same reference, reference gap |max(starts) - min(ends)| <= maxDifference"""
    op, kv = kv_of(line)
    if out.startswith("ERR"):
        return f"exception {out}"
    (a, _), (b, _) = parse_row_kv(kv["A"], "~"), parse_row_kv(kv["B"], "~")
    gap = abs(max(int(a["rs"]), int(b["rs"])) - min(int(a["re"]), int(b["re"])))
    want = a["rev"] == b["rev"] and a["r"] == b["r"] and gap <= int(kv["diff"])
    if (out == "1") != want:
        return (f"rows {'declared' if out == '1' else 'not declared'} joinable: reference gap {gap}, maxDifference {kv['diff']}, "
                f"same strand {a['rev'] == b['rev']}, same reference {a['r'] == b['r']}")
    return None


def oracle_getseq(line, out):
    """C16 for `OpticalMap.getSequence`: the vector of THIS molecule's labels (reversed on the reverse strand)"""
    op, kv = kv_of(line)
    if out.startswith("ERR"):
        return None if not kv["M"].split(":")[3] else f"exception {out}"
    pos = kv["M"].split(":")[3]
    fwd = out[::-1] if kv["rev"] == "1" else out
    return oracle_seq(f"SEQ res={kv['res']} blur={kv['blur']} start={kv['start']} stop={kv['stop']} POS={pos}", fwd)
