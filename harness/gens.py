"""Seeded generators of protocol lines (one PRNG state -> exact replay) — exhaustive small-scope
enumerations and structured random inputs at real scale."""
from __future__ import annotations

import itertools
import random


def multisets(points, maxn):
    for n in range(maxn + 1):
        for c in itertools.combinations_with_replacement(points, n):
            yield list(c)


def mapstr(mid, length, shift, pos):
    return f"{mid}:{length}:{shift}:{','.join(str(p) for p in pos)}"


# ------------------------------------------------------------------ PAIR
def pair_exhaustive(tier):
    rn = 3 if tier == "quick" else 4
    qn = 3 if tier == "quick" else 3
    rp = range(7)
    qp = range(5)
    for R in multisets(rp, rn):
        for Q in multisets(qp, qn):
            qlen = (Q[-1] + 1) if Q else 1
            for start in (-1, 0, 2):
                for md in (0, 1, 2):
                    for rev in (0, 1):
                        yield (f"PAIR md={md} start={start} stop={start + qlen} rev={rev} it=1 "
                               f"REF={mapstr(1, 8, 0, R)} QRY={mapstr(2, qlen, 0, Q)}")


def rand_map(rng, n, mean=9000, minsp=0):
    pos, x = [], rng.randrange(0, 5000)
    for _ in range(n):
        pos.append(x)
        x += minsp + int(rng.expovariate(1.0 / max(1, mean - minsp)))
    return pos


def pair_random(rng, count):
    for _ in range(count):
        rn = rng.randrange(0, 60)
        R = rand_map(rng, rn, rng.choice([300, 2000, 9000]))
        # query: copy of a window with jitter / missing / extra labels, or independent
        if R and rng.random() < 0.8:
            i = rng.randrange(len(R))
            j = min(len(R), i + rng.randrange(1, 25))
            base = R[i]
            Q = []
            for p in R[i:j]:
                if rng.random() < 0.85:
                    Q.append(max(0, p - base + rng.choice([0, 0, rng.randrange(-1600, 1600)])))
            for _ in range(rng.randrange(0, 3)):
                Q.append(rng.randrange(0, max(1, R[j - 1] - base + 1)))
            Q.sort()
            start = base + rng.choice([0, 0, rng.randrange(-2000, 2000)])
        else:
            Q = rand_map(rng, rng.randrange(0, 20), 5000)
            start = rng.randrange(-5000, 200000)
        md = rng.choice([0, 100, 500, 1500, 3000])
        rev = rng.randrange(2)
        shift = rng.choice([0, 0, rng.randrange(0, 30)])
        if Q and rng.random() < 0.7:  # trimmed query
            Q = [q - Q[0] for q in Q]
        qlen = (Q[-1] + 1 + rng.choice([0, 0, rng.randrange(0, 5000)])) if Q else rng.randrange(1, 5000)
        rlen = (R[-1] + 1 + rng.randrange(0, 5000)) if R else 1000
        stop = start + qlen
        yield (f"PAIR md={md} start={start} stop={stop} rev={rev} it={rng.randrange(1, 50)} "
               f"REF={mapstr(1, rlen, 0, R)} QRY={mapstr(2, qlen, shift, Q)}")


# ------------------------------------------------------------------ SEGS
SEG_ALPHABET = (-3, -1, 0, 1, 2, 3)
SEG_THRESHOLDS = ((1, 0), (1, 1), (2, 1), (2, 2), (3, 1), (3, 5), (4, 2), (1, 3))


def segs_exhaustive(tier):
    maxlen = 6 if tier == "quick" else 7
    for n in range(maxlen + 1):
        for seq in itertools.product(SEG_ALPHABET, repeat=n):
            s = ",".join(map(str, seq))
            for ms, bs in SEG_THRESHOLDS:
                yield f"SEGS ms={ms} bs={bs} S={s}"


def segs_random(rng, count):
    for _ in range(count):
        n = rng.randrange(0, 80)
        ms = rng.choice([1000, 500, 2000, 1])
        bs = rng.choice([1200, 0, 300, 5000])
        seq = [rng.choice([-250, -250, 1000, 1000 - rng.randrange(0, 1500), 0]) for _ in range(n)]
        yield f"SEGS ms={ms} bs={bs} S={','.join(map(str, seq))}"
    yield "SEGS ms=0 bs=1 S=1,2"
    yield "SEGS ms=-5 bs=1 S="


# ------------------------------------------------------------------ CIGAR
def matchings(n, rev):
    """all valid matchings (strictly monotone) on an n x n site grid with >= 1 pair"""
    sites = range(1, n + 1)
    for k in range(1, n + 1):
        for rs in itertools.combinations(sites, k):
            for qs in itertools.combinations(sites, k):
                q = list(qs)[::-1] if rev else list(qs)
                yield list(zip(rs, q))


def cigar_exhaustive(tier):
    n = 5 if tier == "quick" else 6
    for rev in (0, 1):
        for m in matchings(n, rev):
            yield f"CIGAR rev={rev} P={','.join(f'{r}:{q}' for r, q in m)}"
    yield "CIGAR rev=0 P="


def cigar_random(rng, count, valid_only=False):
    for _ in range(count):
        rev = rng.randrange(2)
        k = rng.randrange(1, 60)
        r, q = rng.randrange(1, 50), rng.randrange(1, 50) + (200 if rev else 0)
        ps = []
        for _ in range(k):
            ps.append((r, q))
            r += rng.choice([1, 1, 1, 2, 3, rng.randrange(1, 30)])
            dq = rng.choice([1, 1, 1, 2, 3, rng.randrange(1, 30)])
            q += -dq if rev else dq
        if not valid_only and rng.random() < 0.15:  # malformed stream: duplicates / disorder
            i = rng.randrange(len(ps))
            ps.insert(i, ps[rng.randrange(len(ps))])
        yield f"CIGAR rev={rev} P={','.join(f'{a}:{b}' for a, b in ps)}"


# ------------------------------------------------------------------ VEC / BLUR / TOBP / SELECT / FILTER
def vec_exhaustive(tier):
    pts = range(0, 9)
    maxn = 3 if tier == "quick" else 4
    for pos in multisets(pts, maxn):
        for res in (1, 2, 3):
            for start in (-2, 0, 1, 3):
                for stop in ("none", 0, 2, 5, 9, 12):
                    yield f"VEC res={res} start={start} stop={stop} POS={','.join(map(str, pos))}"
    yield "VEC res=0 start=0 stop=none POS=1,2"


def vec_random(rng, count):
    for _ in range(count):
        pos = rand_map(rng, rng.randrange(0, 60), rng.choice([50, 1400, 9000]))
        res = rng.choice([1, 100, 1400, 7, 256])
        start = rng.choice([0, 0, rng.randrange(-20000, 100000)])
        stop = rng.choice(["none", 0, rng.randrange(0, 300000)])
        yield f"VEC res={res} start={start} stop={stop} POS={','.join(map(str, pos))}"


def blur_exhaustive(tier):
    maxlen = 8 if tier == "quick" else 10
    for n in range(0, maxlen + 1):
        for bits in itertools.product("01", repeat=n):
            for radius in (0, 1, 2, 3):
                yield f"BLUR radius={radius} V={''.join(bits)}"
    yield "BLUR radius=-1 V=010"


def tobp_exhaustive(tier):
    for res in list(range(1, 12)) + [100, 1400, 1401]:
        for b in range(0, 6):
            for start in (-7, 0, 3, 10000):
                yield f"TOBP bin={b} res={res} start={start}"


def select_random(rng, count):
    for _ in range(count):
        n = rng.randrange(0, 9)
        sc = [rng.randrange(0, 4) if rng.random() < 0.6 else rng.randrange(0, 100) for _ in range(n)]
        yield f"SELECT count={rng.randrange(0, 6)} S={','.join(map(str, sc))}"


def select_exhaustive(tier):
    m = 4 if tier == "quick" else 5
    for n in range(0, m + 1):
        for sc in itertools.product(range(3), repeat=n):
            for c in range(0, 4):
                yield f"SELECT count={c} S={','.join(map(str, sc))}"


def filter_exhaustive(tier):
    m = 4 if tier == "quick" else 5
    for n in range(0, m + 1):
        for rows in itertools.product([(1, 1), (1, 2), (2, 1), (2, 2), (3, 0)], repeat=n):
            yield "FILTER ROWS=" + ",".join(f"{a}:{b}" for a, b in rows)


def filter_random(rng, count):
    for _ in range(count):
        n = rng.randrange(0, 30)
        yield "FILTER ROWS=" + ",".join(f"{rng.randrange(1, 8)}:{rng.choice([0, 1000, 1000, 2500, rng.randrange(-500, 9000)])}" for _ in range(n))
