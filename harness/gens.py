"""Seeded generators of protocol lines (one PRNG state -> exact replay) — exhaustive small-scope
enumerations and structured random inputs at real scale."""
from __future__ import annotations

import itertools
import random


def multisets(points, maxn):
    for n in range(maxn + 1):
        for c in itertools.combinations_with_replacement(points, n):
            yield list(c)


def mapstr(mid, length, shift, pos):
    return f"{mid}:{length}:{shift}:{','.join(str(p) for p in pos)}"


# ------------------------------------------------------------------ PAIR
def pair_exhaustive(tier):
    rn = 3 if tier == "quick" else 4
    qn = 3 if tier == "quick" else 3
    rp = range(7)
    qp = range(5)
    for R in multisets(rp, rn):
        for Q in multisets(qp, qn):
            qlen = (Q[-1] + 1) if Q else 1
            for start in (-1, 0, 2):
                for md in (0, 1, 2):
                    for rev in (0, 1):
                        yield (f"PAIR md={md} start={start} stop={start + qlen} rev={rev} it=1 "
                               f"REF={mapstr(1, 8, 0, R)} QRY={mapstr(2, qlen, 0, Q)}")


def rand_map(rng, n, mean=9000, minsp=0):
    pos, x = [], rng.randrange(0, 5000)
    for _ in range(n):
        pos.append(x)
        x += minsp + int(rng.expovariate(1.0 / max(1, mean - minsp)))
    return pos


def pair_random(rng, count):
    for _ in range(count):
        rn = rng.randrange(0, 60)
        R = rand_map(rng, rn, rng.choice([300, 2000, 9000]))
        # query: copy of a window with jitter / missing / extra labels, or independent
        if R and rng.random() < 0.8:
            i = rng.randrange(len(R))
            j = min(len(R), i + rng.randrange(1, 25))
            base = R[i]
            Q = []
            for p in R[i:j]:
                if rng.random() < 0.85:
                    Q.append(max(0, p - base + rng.choice([0, 0, rng.randrange(-1600, 1600)])))
            for _ in range(rng.randrange(0, 3)):
                Q.append(rng.randrange(0, max(1, R[j - 1] - base + 1)))
            Q.sort()
            start = base + rng.choice([0, 0, rng.randrange(-2000, 2000)])
        else:
            Q = rand_map(rng, rng.randrange(0, 20), 5000)
            start = rng.randrange(-5000, 200000)
        md = rng.choice([0, 100, 500, 1500, 3000])
        rev = rng.randrange(2)
        shift = rng.choice([0, 0, rng.randrange(0, 30)])
        if Q and rng.random() < 0.7:  # trimmed query
            Q = [q - Q[0] for q in Q]
        qlen = (Q[-1] + 1 + rng.choice([0, 0, rng.randrange(0, 5000)])) if Q else rng.randrange(1, 5000)
        rlen = (R[-1] + 1 + rng.randrange(0, 5000)) if R else 1000
        stop = start + qlen
        yield (f"PAIR md={md} start={start} stop={stop} rev={rev} it={rng.randrange(1, 50)} "
               f"REF={mapstr(1, rlen, 0, R)} QRY={mapstr(2, qlen, shift, Q)}")


# ------------------------------------------------------------------ SEGS
SEG_ALPHABET = (-3, -1, 0, 1, 2, 3)
SEG_THRESHOLDS = ((1, 0), (1, 1), (2, 1), (2, 2), (3, 1), (3, 5), (4, 2), (1, 3))


def segs_exhaustive(tier):
    maxlen = 6 if tier == "quick" else 7
    for n in range(maxlen + 1):
        for seq in itertools.product(SEG_ALPHABET, repeat=n):
            s = ",".join(map(str, seq))
            for ms, bs in SEG_THRESHOLDS:
                yield f"SEGS ms={ms} bs={bs} S={s}"


def segs_random(rng, count):
    for _ in range(count):
        n = rng.randrange(0, 80)
        ms = rng.choice([1000, 500, 2000, 1])
        bs = rng.choice([1200, 0, 300, 5000])
        seq = [rng.choice([-250, -250, 1000, 1000 - rng.randrange(0, 1500), 0]) for _ in range(n)]
        yield f"SEGS ms={ms} bs={bs} S={','.join(map(str, seq))}"
    yield "SEGS ms=0 bs=1 S=1,2"
    yield "SEGS ms=-5 bs=1 S="


# ------------------------------------------------------------------ CIGAR
def matchings(n, rev):
    """all valid matchings (strictly monotone) on an n x n site grid with >= 1 pair"""
    sites = range(1, n + 1)
    for k in range(1, n + 1):
        for rs in itertools.combinations(sites, k):
            for qs in itertools.combinations(sites, k):
                q = list(qs)[::-1] if rev else list(qs)
                yield list(zip(rs, q))


def cigar_exhaustive(tier):
    n = 5 if tier == "quick" else 6
    for rev in (0, 1):
        for m in matchings(n, rev):
            yield f"CIGAR rev={rev} P={','.join(f'{r}:{q}' for r, q in m)}"
    yield "CIGAR rev=0 P="


def cigar_random(rng, count, valid_only=False):
    for _ in range(count):
        rev = rng.randrange(2)
        k = rng.randrange(1, 60)
        r, q = rng.randrange(1, 50), rng.randrange(1, 50) + (200 if rev else 0)
        ps = []
        for _ in range(k):
            ps.append((r, q))
            r += rng.choice([1, 1, 1, 2, 3, rng.randrange(1, 30)])
            dq = rng.choice([1, 1, 1, 2, 3, rng.randrange(1, 30)])
            q += -dq if rev else dq
        if not valid_only and rng.random() < 0.15:  # malformed stream: duplicates / disorder
            i = rng.randrange(len(ps))
            ps.insert(i, ps[rng.randrange(len(ps))])
        yield f"CIGAR rev={rev} P={','.join(f'{a}:{b}' for a, b in ps)}"


# ------------------------------------------------------------------ VEC / BLUR / TOBP / SELECT / FILTER
def vec_exhaustive(tier):
    pts = range(0, 9)
    maxn = 3 if tier == "quick" else 4
    for pos in multisets(pts, maxn):
        for res in (1, 2, 3):
            for start in (-2, 0, 1, 3):
                for stop in ("none", 0, 2, 5, 9, 12):
                    yield f"VEC res={res} start={start} stop={stop} POS={','.join(map(str, pos))}"
    yield "VEC res=0 start=0 stop=none POS=1,2"


def vec_random(rng, count):
    for _ in range(count):
        res = rng.choice([1, 100, 1400, 7, 256])
        scale = max(1, res // 3)          # keep vectors at a few hundred bins whatever the resolution
        pos = [p * scale // 50 for p in rand_map(rng, rng.randrange(0, 60), rng.choice([50, 140, 900]))]
        span = (pos[-1] if pos else 100 * scale)
        start = rng.choice([0, 0, rng.randrange(-span // 3 - 1, span + 1)])
        stop = rng.choice(["none", 0, rng.randrange(0, 2 * span + 1)])
        yield f"VEC res={res} start={start} stop={stop} POS={','.join(map(str, pos))}"


def blur_exhaustive(tier):
    maxlen = 8 if tier == "quick" else 10
    for n in range(0, maxlen + 1):
        for bits in itertools.product("01", repeat=n):
            for radius in (0, 1, 2, 3):
                yield f"BLUR radius={radius} V={''.join(bits)}"
    yield "BLUR radius=-1 V=010"


def tobp_exhaustive(tier):
    for res in list(range(1, 12)) + [100, 1400, 1401]:
        for b in range(0, 6):
            for start in (-7, 0, 3, 10000):
                yield f"TOBP bin={b} res={res} start={start}"


def select_random(rng, count):
    for _ in range(count):
        n = rng.randrange(0, 9)
        sc = [rng.randrange(0, 4) if rng.random() < 0.6 else rng.randrange(0, 100) for _ in range(n)]
        yield f"SELECT count={rng.randrange(0, 6)} S={','.join(map(str, sc))}"


def select_exhaustive(tier):
    m = 4 if tier == "quick" else 5
    for n in range(0, m + 1):
        for sc in itertools.product(range(3), repeat=n):
            for c in range(0, 4):
                yield f"SELECT count={c} S={','.join(map(str, sc))}"


def select_multi_random(rng, count):
    """several correlations (references x strands) whose peaks differ in height AND in score (score = height minus
    the correlation's own noise level, so the two rankings disagree across correlations), ties included"""
    for _ in range(count):
        ng = rng.randrange(1, 7)
        S, H, G = [], [], []
        for _ in range(ng):
            k = rng.randrange(0, 5)
            noise = rng.choice([0, 5, 20, 40])
            hs = sorted((rng.randrange(40, 100) for _ in range(k)), reverse=rng.random() < 0.5)
            H += hs
            S += [h - noise for h in hs]
            G.append(k)
        yield f"SELECT count={rng.choice([0, 1, 2, 3, 3, 5])} G={','.join(map(str, G))} H={','.join(map(str, H))} S={','.join(map(str, S))}"


def filter_exhaustive(tier):
    m = 4 if tier == "quick" else 5
    for n in range(0, m + 1):
        for rows in itertools.product([(1, 1), (1, 2), (2, 1), (2, 2), (3, 0)], repeat=n):
            yield "FILTER ROWS=" + ",".join(f"{a}:{b}" for a, b in rows)


def filter_random(rng, count):
    for _ in range(count):
        n = rng.randrange(0, 30)
        yield "FILTER ROWS=" + ",".join(f"{rng.randrange(1, 8)}:{rng.choice([0, 1000, 1000, 2500, rng.randrange(-500, 9000)])}" for _ in range(n))


# ------------------------------------------------------------------ segment-level ops
DEFAULT_P = {"sp": 1000, "dp": 1, "su": -250, "md": 1500, "ms": 1000, "bs": 1200}


def pstr(P):
    return f"sp={P['sp']} dp={P['dp']} su={P['su']} md={P['md']} ms={P['ms']} bs={P['bs']}"


def rand_params(rng):
    P = dict(DEFAULT_P)
    if rng.random() < 0.5:
        P["md"] = rng.choice([300, 800, 1500, 3000])
    if rng.random() < 0.3:
        P["dp"] = rng.choice([1, 2, 3])
        P["sp"] = rng.choice([1000, 1500, 4000])
    if rng.random() < 0.3:
        P["su"] = rng.choice([-250, -100, -600, 0])
    if rng.random() < 0.3:
        P["ms"] = rng.choice([1000, 500, 3000])
        P["bs"] = rng.choice([1200, 0, 400, 4000])
    return P


def make_reference(rng, n, mean=9000, minsp=500, repeats=True):
    pos = rand_map(rng, n, mean, minsp)
    if repeats and rng.random() < 0.4 and n > 12:
        # tandem repeat: copy a block of spacings
        i = rng.randrange(2, n - 8)
        k = rng.randrange(2, 5)
        gaps = [pos[j + 1] - pos[j] for j in range(i, i + k)]
        out = pos[:i + k + 1]
        for _ in range(rng.randrange(1, 4)):
            for g in gaps:
                out.append(out[-1] + g)
        off = out[-1] - pos[i + k]
        out += [p + off for p in pos[i + k + 1:]]
        pos = out
    return pos


def make_query(rng, R, noisy=True):
    """returns (trimmed query positions on + strand, true offset = reference coordinate of query pos 0,
    description)"""
    n = len(R)
    k = rng.randrange(3, min(45, n - 1))
    i = rng.randrange(0, n - k)
    win = R[i:i + k]
    base = win[0]
    stretch = rng.choice([1.0, 1.0, 0.97, 1.03, 1.06]) if noisy else 1.0
    Q = []
    indel_at = rng.randrange(1, k) if (noisy and rng.random() < 0.4 and k > 4) else None
    indel = rng.choice([-9000, -3000, 2500, 6000, 20000]) if indel_at else 0
    for j, p in enumerate(win):
        x = (p - base) * stretch
        if indel_at is not None and j >= indel_at:
            x += indel
        if noisy:
            if rng.random() < 0.1:
                continue
            x += rng.choice([0, 0, rng.randrange(-400, 400)])
        Q.append(int(round(x)))
    if noisy:
        for _ in range(rng.randrange(0, 3)):
            Q.append(rng.randrange(0, max(1, int((win[-1] - base) * stretch) + 1)))
    Q = sorted(set(max(0, q) for q in Q))
    if len(Q) < 2:
        Q = [0, 5000]
    q0 = Q[0]
    Q = [q - q0 for q in Q]
    return Q, base + q0, (i, k, stretch, indel_at, indel)


def mirror(Q):
    L = Q[-1] + 1
    return [L - 1 - q for q in reversed(Q)]


def ladder(rng, true_off, dense=False):
    npk = rng.randrange(1, 11) if not dense else rng.randrange(2, 7)
    step = rng.choice([100, 300, 700, 1500, 3000])
    c = true_off + rng.randrange(-300, 300)
    peaks = sorted({c + rng.randrange(-npk, npk + 1) * step + rng.randrange(-50, 50) for _ in range(npk)})
    rng.shuffle(peaks)
    return peaks


def candidate_random(rng, count, it_rng=True):
    for _ in range(count):
        P = rand_params(rng)
        R = make_reference(rng, rng.randrange(15, 70), rng.choice([3000, 9000, 9000]), rng.choice([200, 500, 2000]))
        Q, off, _ = make_query(rng, R)
        rev = rng.randrange(2)
        if rev:
            Q = mirror(Q)  # the '-' strand query whose mirrored labels fall on the same diagonal
        # coincident labels (two sites at one coordinate) are legal CMAP input; at most one of the twins can be paired with
        # a given label of the other molecule, the other one stays an unpaired label inside the segment
        if rng.random() < 0.15 and len(R) > 4:
            for _ in range(rng.randrange(1, 3)):
                j = rng.randrange(1, len(R) - 1)
                R = R[:j] + [R[j]] + R[j:]
        if rng.random() < 0.15 and len(Q) > 3:
            j = rng.randrange(1, len(Q) - 1)
            Q = Q[:j] + [Q[j]] + Q[j:]
        peaks = ladder(rng, off)
        mult = rng.choice(["1", "1", "1/2", "2", "0"])
        var = rng.choice([0, 0, 1])
        rlen = R[-1] + 1 + rng.randrange(0, 3000)
        den = rng.choice([1, 1, 1, 2, 4, 8])     # scores in units of 1/den (dyadic: an empty segment scores float 0.0, the sum stays exact)
        yield (f"CANDIDATE {pstr(P)} mult={mult} var={var} den={den} it={rng.randrange(1, 9) if it_rng else 1} rev={rev} "
               f"peaks={','.join(map(str, peaks))} REF={mapstr(1, rlen, 0, R)} QRY={mapstr(7, Q[-1] + 1, 0, Q)}")
    yield f"CANDIDATE {pstr(DEFAULT_P)} mult=1 var=0 it=1 rev=0 peaks= REF={mapstr(1, 100, 0, [10, 50])} QRY={mapstr(7, 41, 0, [0, 40])}"
    P = dict(DEFAULT_P, su=10)
    yield f"CANDIDATE {pstr(P)} mult=1 var=0 it=1 rev=0 peaks=10 REF={mapstr(1, 100000, 0, [10, 5000, 9000])} QRY={mapstr(7, 8991, 0, [0, 8990])}"



def candidate_ties(rng, count):
    """molecules with COINCIDENT labels (two or three sites at one coordinate — legal CMAP input) on the reference, on the
    query, or on both at the same place, under a dense ladder of seed peaks so that overlapping segments with tied pairs
    reach the chainer and the conflict resolver"""
    for _ in range(count):
        P = rand_params(rng)
        R = make_reference(rng, rng.randrange(12, 40), rng.choice([3000, 9000]), rng.choice([200, 500, 2000]))
        Q, off, _ = make_query(rng, R, noisy=rng.random() < 0.5)
        shape = rng.choice(["ref", "qry", "both", "both-same-place"])
        def dup(xs, j, k):
            return xs[:j] + [xs[j]] * k + xs[j:]
        if shape in ("ref", "both"):
            for _ in range(rng.randrange(1, 4)):
                R = dup(R, rng.randrange(0, len(R)), rng.choice([1, 1, 2]))
        if shape in ("qry", "both"):
            for _ in range(rng.randrange(1, 3)):
                Q = dup(Q, rng.randrange(0, len(Q)), rng.choice([1, 1, 2]))
        if shape == "both-same-place":
            j = rng.randrange(0, len(Q))
            want = Q[j] + off
            near = min(range(len(R)), key=lambda i: abs(R[i] - want))
            Q = dup(Q, j, 1)
            R = dup(R, near, 1)
        rev = rng.randrange(2)
        if rev:
            Q = mirror(Q)
        peaks = ladder(rng, off, dense=rng.random() < 0.5)
        mult = rng.choice(["1", "1", "1/2", "0"])
        rlen = R[-1] + 1 + rng.randrange(0, 3000)
        yield (f"CANDIDATE {pstr(P)} mult={mult} var={rng.choice([0, 0, 1])} it={rng.randrange(1, 9)} rev={rev} "
               f"peaks={','.join(map(str, peaks))} REF={mapstr(1, rlen, 0, R)} QRY={mapstr(7, Q[-1] + 1, 0, Q)}")


def candidate_lattice(rng, count):
    """dense small lattice: tiny coordinates, md in {1,2}, two or three peaks -> many conflicts"""
    for _ in range(count):
        nr = rng.randrange(4, 11)
        R = sorted(rng.sample(range(0, 30), nr))
        nq = rng.randrange(3, 8)
        Q = sorted(rng.sample(range(0, 18), nq))
        Q = [q - Q[0] for q in Q]
        if rng.random() < 0.2:       # coincident labels
            j = rng.randrange(0, len(R))
            R = R[:j] + [R[j]] + R[j:]
        if rng.random() < 0.2:
            j = rng.randrange(0, len(Q))
            Q = Q[:j] + [Q[j]] + Q[j:]
        rev = rng.randrange(2)
        md = rng.choice([1, 1, 2])
        P = {"sp": 10, "dp": rng.choice([1, 2, 4]), "su": rng.choice([-1, -2, -3]), "md": md,
             "ms": rng.choice([10, 15, 20]), "bs": rng.choice([5, 12, 30])}
        peaks = rng.sample(range(-4, 16), rng.randrange(1, 4))
        mult = rng.choice(["1", "0", "1/2"])
        yield (f"CANDIDATE {pstr(P)} mult={mult} var={rng.randrange(2)} it=1 rev={rev} "
               f"peaks={','.join(map(str, peaks))} REF={mapstr(1, 31, 0, R)} QRY={mapstr(7, Q[-1] + 1, 0, Q)}")


def join_exhaustive(tier):
    vals = (0, 1, 3) if tier == "quick" else (0, 1, 2, 5)
    # prev = (srp, sqp, sqs, erp, eqp, eqs), cur likewise; sites only decide `reverse`
    for a in vals:
        for b in vals:
            for c in vals:
                for d in vals:
                    for crev in (0, 1):
                        for mult in ("1", "1/2", "0"):
                            for var in (0, 1):
                                prev = f"0,0,1,{a},{b},2"
                                cs, ce = (5, 4) if crev else (4, 5)
                                cur = f"{c},{d},{cs},{c + a},{d + 1},{ce}"
                                yield f"JOIN mult={mult} var={var} prev={prev} cur={cur}"


def join_random(rng, count):
    for _ in range(count):
        def ends():
            r0 = rng.randrange(0, 100000)
            q0 = rng.randrange(0, 100000)
            return r0, q0, r0 + rng.randrange(0, 60000), q0 + rng.randrange(0, 60000)
        pr = ends()
        d = rng.randrange(-20000, 40000)
        cu = (pr[2] + d, pr[3] + d + rng.randrange(-5000, 5000))
        cu = cu + (cu[0] + rng.randrange(0, 60000), cu[1] + rng.randrange(0, 60000))
        crev = rng.randrange(2)
        cs, ce = (9, 3) if crev else (3, 9)
        yield (f"JOIN mult={rng.choice(['1', '1/2', '3', '0'])} var={rng.randrange(2)} "
               f"prev={pr[0]},{pr[1]},1,{pr[2]},{pr[3]},2 cur={cu[0]},{cu[1]},{cs},{cu[2]},{cu[3]},{ce}")


# ------------------------------------------------------------------ CHAIN / RESOLVE (segments from the real pipeline pieces)
def _real_segments(P, R, Q, rev, peaks, rlen):
    """segments of every peak, produced by the REAL engine + scorer + factory (input generation only)"""
    import realops
    import codec
    al = realops.make_aligner(P, 1, 0)
    ref = codec.OpticalMap(1, rlen, R)
    qry = codec.OpticalMap(7, Q[-1] + 1, Q)
    segs = []
    for p in peaks:
        segs += al.getSegments(rev, codec.Peak(p, 1.0), qry, ref)
    return segs


def chain_random(rng, count):
    import codec
    made = 0
    while made < count:
        if rng.random() < 0.5:
            # real-scale segments from a peak ladder
            P = rand_params(rng)
            R = make_reference(rng, rng.randrange(15, 60), rng.choice([3000, 9000]), rng.choice([200, 500, 2000]))
            Q, off, _ = make_query(rng, R)
            rev = rng.randrange(2)
            if rev:
                Q = mirror(Q)
            peaks = ladder(rng, off)
            segs = _real_segments(P, R, Q, rev, peaks, R[-1] + 1000)
        else:
            # dense lattice
            nr = rng.randrange(4, 11)
            R = sorted(rng.sample(range(0, 30), nr))
            Q = sorted(rng.sample(range(0, 18), rng.randrange(3, 8)))
            Q = [q - Q[0] for q in Q]
            rev = rng.randrange(2)
            P = {"sp": 10, "dp": rng.choice([1, 2, 4]), "su": rng.choice([-1, -2, -3]), "md": rng.choice([1, 2]),
                 "ms": rng.choice([10, 15, 20]), "bs": rng.choice([5, 12, 30])}
            peaks = rng.sample(range(-4, 16), rng.randrange(1, 5))
            segs = _real_segments(P, R, Q, rev, peaks, 31)
        if len(segs) > 10:
            segs = segs[:10]
        rng.shuffle(segs)
        mult = rng.choice(["1", "1", "1/2", "2", "0"])
        yield f"CHAIN {pstr(P)} mult={mult} var={rng.choice([0, 0, 1])} SEG={codec.show_segs(segs)}"
        made += 1


def resolveall_random(rng, count, lattice_frac=0.5):
    import codec
    made = 0
    while made < count:
        if rng.random() >= lattice_frac:
            P = rand_params(rng)
            R = make_reference(rng, rng.randrange(15, 60), rng.choice([3000, 9000]), rng.choice([200, 500, 2000]))
            Q, off, _ = make_query(rng, R)
            rev = rng.randrange(2)
            if rev:
                Q = mirror(Q)
            peaks = ladder(rng, off)
            if rng.random() < 0.3:
                # the same geometry far down a chromosome (coordinates of 10^8): nothing in the resolver may depend on the
                # magnitude of the coordinates, only on their order and differences
                base = rng.randrange(100, 250) * 1000000 + rng.randrange(0, 1000)
                R = [p + base for p in R]
                peaks = [p + base for p in peaks]
            segs = _real_segments(P, R, Q, rev, peaks, R[-1] + 1000)
        else:
            nr = rng.randrange(4, 11)
            R = sorted(rng.sample(range(0, 30), nr))
            Q = sorted(rng.sample(range(0, 18), rng.randrange(3, 8)))
            Q = [q - Q[0] for q in Q]
            rev = rng.randrange(2)
            P = {"sp": 10, "dp": rng.choice([1, 2, 4]), "su": rng.choice([-1, -2, -3]), "md": rng.choice([1, 2]),
                 "ms": rng.choice([10, 15, 20]), "bs": rng.choice([5, 12, 30])}
            peaks = rng.sample(range(-4, 16), rng.randrange(2, 5))
            segs = _real_segments(P, R, Q, rev, peaks, 31)
        if len(segs) < 2:
            continue
        segs = segs[:10]
        mult = rng.choice(["1", "1", "1/2", "0"])
        yield f"RESOLVEALL {pstr(P)} mult={mult} var={rng.choice([0, 0, 1])} SEG={codec.show_segs(segs)}"
        made += 1



def resolve2_random(rng, count):
    """single resolver steps: two segments cut by the real factory from two different seed peaks of one molecule (ladders at
    real scale incl. chromosome-scale coordinates, and dense lattices), taken in the order of their first pair"""
    import codec
    made = 0
    while made < count:
        if rng.random() < 0.5:
            P = rand_params(rng)
            R = make_reference(rng, rng.randrange(15, 60), rng.choice([3000, 9000]), rng.choice([200, 500, 2000]))
            Q, off, _ = make_query(rng, R)
            rev = rng.randrange(2)
            if rev:
                Q = mirror(Q)
            peaks = ladder(rng, off)
            if rng.random() < 0.3:
                base = rng.randrange(100, 250) * 1000000 + rng.randrange(0, 1000)
                R = [p + base for p in R]
                peaks = [p + base for p in peaks]
            segs = _real_segments(P, R, Q, rev, peaks, R[-1] + 1000)
        else:
            nr = rng.randrange(4, 11)
            R = sorted(rng.sample(range(0, 30), nr))
            Q = sorted(rng.sample(range(0, 18), rng.randrange(3, 8)))
            Q = [q - Q[0] for q in Q]
            rev = rng.randrange(2)
            P = {"sp": 10, "dp": rng.choice([1, 2, 4]), "su": rng.choice([-1, -2, -3]), "md": rng.choice([1, 2]),
                 "ms": rng.choice([10, 15, 20]), "bs": rng.choice([5, 12, 30])}
            peaks = rng.sample(range(-4, 16), rng.randrange(2, 5))
            segs = _real_segments(P, R, Q, rev, peaks, 31)
        segs = [s for s in segs if s.positions]
        if len(segs) < 2:
            continue
        segs.sort(key=lambda s: (s.alignedPositions[0].reference.position if s.alignedPositions else 0))
        for a, b in zip(segs, segs[1:]):
            if a.peak.position == b.peak.position:
                continue
            yield f"RESOLVE2 {pstr(P)} L={codec.show_seg(a)} R={codec.show_seg(b)}"
            made += 1
            if made >= count:
                break

# ------------------------------------------------------------------ indels
def cluster_random(rng, count, sort=True):
    for _ in range(count):
        n = rng.randrange(0, 12)
        blur = rng.choice([30000, 30000, 1000, 0])
        calls = []
        x = rng.randrange(0, 50000)
        for i in range(n):
            chrom = rng.choice([1, 1, 2, 3])
            x = rng.choice([x + rng.randrange(0, blur + 1), x + rng.randrange(blur, 3 * blur + 10), rng.randrange(0, 200000)])
            ins = rng.choice([0, 0, 0, 1]) if rng.random() < 0.2 else 0
            stop = x
            start = stop - rng.randrange(0, 40000)
            ln = rng.choice([2500, -2500, 7000, rng.randrange(-90000, 90000)])
            # a molecule chained from three or more segments has two breakage places: two calls with one query id
            qid = calls[-1][4] if (calls and rng.random() < 0.25) else 100 + i
            calls.append((ins, chrom, start, stop, qid, rng.randrange(0, 9999), rng.randrange(0, 9999), ln))
        if sort:
            calls.sort(key=lambda c: (c[1], c[3]))
        yield f"CLUSTER blur={blur} CALLS=" + ";".join(":".join(str(v) for v in c) for c in calls)


def indelfile_random(rng, count):
    """what the finders hand to the writer: two unsorted lists, either of which may be empty"""
    for _ in range(count):
        def calls(ins, n, base):
            out = []
            x = rng.randrange(0, 50000)
            for i in range(n):
                chrom = rng.choice([1, 1, 2, 3])
                x = rng.choice([x + rng.randrange(0, 30001), x + rng.randrange(30000, 90010), rng.randrange(0, 200000)])
                ln = rng.choice([2500, 7000, rng.randrange(101, 90000)]) * (-1 if ins else 1)
                qid = out[-1][4] if (out and rng.random() < 0.25) else base + i
                out.append((ins, chrom, x - rng.randrange(0, 40000), x, qid, rng.randrange(0, 9999), rng.randrange(0, 9999), ln))
            rng.shuffle(out)
            return out
        shape = rng.choice(["both", "both", "ins-only", "del-only", "none"])
        ni = 0 if shape in ("del-only", "none") else rng.randrange(1, 9)
        nd = 0 if shape in ("ins-only", "none") else rng.randrange(1, 9)
        enc = lambda cs: ";".join(":".join(str(v) for v in c) for c in cs)
        yield f"INDELFILE INS={enc(calls(1, ni, 100))} DEL={enc(calls(0, nd, 500))}"


def cluster_exhaustive(tier):
    import itertools
    m = 4 if tier == "quick" else 5
    opts = [(0, 1, 0, 10), (0, 1, 5, 12), (0, 2, 0, 11), (0, 1, 20, 40), (1, 1, 0, 10)]
    for n in range(0, m + 1):
        for combo in itertools.product(range(len(opts)), repeat=n):
            calls = [opts[c] + (100 + i, 1, 2, 3000 + i) for i, c in enumerate(combo)]
            calls.sort(key=lambda c: (c[1], c[3]))
            yield "CLUSTER blur=5 CALLS=" + ";".join(":".join(str(v) for v in c) for c in calls)


def call_random(rng, count):
    for _ in range(count):
        lo = rng.choice([2000, 100])
        rs = rng.randrange(0, 10 ** 6)
        re_ = rs + rng.choice([rng.randrange(0, 200000), rng.randrange(0, 30000)])
        qs = rng.randrange(0, 10 ** 6)
        d = rng.choice([0, lo, -lo, lo + 1, -lo - 1, 100000, -100000, 99999, rng.randrange(-120000, 120000)])
        qe = qs + max(0, (re_ - rs) - d)
        if rng.random() < 0.2:
            qs, qe = qe, qs
        yield f"CALL lo={lo} chrom={rng.randrange(1, 24)} qid={rng.randrange(1, 999)} rs={rs} re={re_} qs={qs} qe={qe}"


# ------------------------------------------------------------------ COMPARE
def _rand_alset(rng, big=False):
    n = rng.randrange(0, 6)
    out = []
    for _ in range(n):
        q, r = rng.randrange(1, 5), rng.randrange(1, 3)
        k = rng.randrange(0, 7) if not big else rng.randrange(150, 260)
        ps = []
        rr, qq = rng.randrange(1, 4), rng.randrange(1, 4)
        for _ in range(k):
            ps.append((rr, qq))
            # now and then one reference label is paired with two query labels (and, as before, one query label with two
            # reference labels): legal input for the comparer
            rr += rng.choice([0, 1, 1, 1, 2]) if not big else rng.choice([1, 1, 2])
            qq += rng.choice([0, 1, 1, 2]) if not big else rng.choice([0, 0, 1])
        out.append((q, r, ps))
    return out


def _alset_str(s):
    return ";".join(f"{q}:{r}@" + ",".join(f"{a}:{b}" for a, b in ps) for q, r, ps in s)


def compare_random(rng, count, big_every=50):
    import realops
    for i in range(count):
        big = (i % big_every == big_every - 1)
        A = _rand_alset(rng, big)
        c = rng.random()
        if c < 0.2:
            B = A
        elif c < 0.5:
            B = [(q, r, [p for p in ps if rng.random() < 0.8] + ([(99, 99)] if rng.random() < 0.3 else [])) for q, r, ps in A
                 if rng.random() < 0.8] + _rand_alset(rng)[:1]
        else:
            B = _rand_alset(rng, big and rng.random() < 0.5)
        flag = rng.randrange(2)
        a, b = _alset_str(A), _alset_str(B)
        m = realops.matcher_table(flag == 1, a, b)
        yield f"COMPARE flag={flag} A={a} B={b} M={m}"


# ------------------------------------------------------------------ READCMAP / TRIM / XROW
def _cmap_mols(rng, small=False):
    n = rng.randrange(0, 4 if small else 7)
    ids = rng.sample(range(1, 40), n)
    mols = []
    for i in ids:
        k = rng.choice([0, 1, 2, 3]) if small or rng.random() < 0.3 else rng.randrange(1, 40)
        pos = sorted(rng.randrange(0, 3000000) for _ in range(k))
        if rng.random() < 0.2 and pos:
            pos.append(pos[-1])  # coincident labels
        length = (pos[-1] if pos else 0) + rng.choice([0, rng.randrange(0, 10), rng.randrange(0, 99999), rng.randrange(0, 99999)])
        mols.append((i, length, pos))   # length == last label: the molecule ends on a label (fractional when unit=10)
    return mols


def readcmap_ends_on_label(rng, count):
    """molecules whose outermost labels sit exactly at coordinate 0 and at the molecule end, coordinates with one
    decimal (unit=10): every label of the file must come back"""
    for _ in range(count):
        rows = []
        for mid in rng.sample(range(1, 40), rng.randrange(1, 4)):
            k = rng.randrange(2, 25)
            pos = sorted(rng.sample(range(1, 2000000), k))
            if rng.random() < 0.5:
                pos[0] = 0
            for p in pos:
                rows.append((mid, 1, p))
            rows.append((mid, 0, pos[-1]))
        if rng.random() < 0.5:
            rng.shuffle(rows)
        yield "READCMAP unit=10 extra=0 ids= ROWS=" + ",".join(f"{a}:{b}:{c}" for a, b, c in rows)


def readcmap_random(rng, count):
    """yields groups of lines: the same file with rows in different orders (+ optional id filter)"""
    for _ in range(count):
        unit = rng.choice([1, 10, 10])
        mols = _cmap_mols(rng, rng.random() < 0.3)
        rows = []
        for (mid, length, pos) in mols:
            for p in pos:
                rows.append((mid, 1, p))
            rows.append((mid, 0, length))
        ids = []
        if mols and rng.random() < 0.4:
            ids = rng.sample([m[0] for m in mols], rng.randrange(1, len(mols) + 1))
            if rng.random() < 0.3:
                ids.append(999)
        extra = rng.randrange(2)
        group = []
        for k in range(2):
            r = list(rows)
            if k:
                rng.shuffle(r)
            group.append(f"READCMAP unit={unit} extra={extra} ids={','.join(map(str, ids))} ROWS=" +
                         ",".join(f"{a}:{b}:{c}" for a, b, c in r))
        yield group
    yield ["READCMAP unit=1 extra=0 ids= ROWS=1:1:100,1:1:200", "READCMAP unit=1 extra=0 ids= ROWS=1:1:200,1:1:100"]  # no end marker
    yield ["READCMAP unit=1 extra=0 ids=5 ROWS=1:1:100,1:0:200", "READCMAP unit=1 extra=0 ids=5 ROWS=1:0:200,1:1:100"]


def trim_random(rng, count):
    for _ in range(count):
        n = rng.randrange(0, 30)
        pos = sorted(rng.randrange(0, 500000) for _ in range(n))
        if pos and rng.random() < 0.3:
            pos = [p - pos[0] for p in pos]      # first label exactly at 0, length independent of the last label
        yield f"TRIM M={mapstr(rng.randrange(1, 99), (pos[-1] if pos else 0) + rng.randrange(1, 9999), rng.choice([0, 0, 3]), pos)}"


def labels_random(rng, count):
    for _ in range(count):
        n = rng.randrange(0, 12)
        pos = sorted(rng.randrange(0, 5000) for _ in range(n))
        yield f"LABELS rev={rng.randrange(2)} M={mapstr(1, (pos[-1] if pos else 0) + rng.randrange(1, 99), rng.choice([0, 0, 5]), pos)}"


def xrow_random(rng, count):
    for _ in range(count):
        k = rng.randrange(1, 30)
        rev = rng.randrange(2)
        r, q = rng.randrange(1, 300), rng.randrange(1, 50) + (100 if rev else 0)
        ps = []
        for _ in range(k):
            ps.append((r, q))
            r += rng.randrange(1, 4)
            q += -rng.randrange(1, 3) if rev else rng.randrange(1, 3)
        hit = rng.choice(["3M", "1M1D2M", "12M3I1D40M", "1M"])
        qs, qe = rng.randrange(0, 10 ** 6), rng.randrange(0, 10 ** 6)
        c100 = rng.choice([0, 100000, 123456, rng.randrange(-50000, 5000000), rng.randrange(0, 200) * 25])
        yield (f"XROW eid={rng.randrange(1, 4)} q={rng.randrange(1, 10 ** 5)} r={rng.randrange(1, 25)} qs={qs} qe={qe} "
               f"rs={rng.randrange(0, 10 ** 8)} re={rng.randrange(0, 10 ** 8)} rev={rev} c100={c100} hit={hit} "
               f"ql={rng.randrange(1, 10 ** 6)} rl={rng.randrange(1, 10 ** 8)} rest={rng.randrange(2)} "
               f"P={','.join(f'{a}:{b}' for a, b in ps)}")


# ------------------------------------------------------------------ CORR
def corr_exhaustive(tier):
    m = 6 if tier == "quick" else 7
    for nr in range(1, m + 1):
        for r in itertools.product("01", repeat=nr):
            for nq in range(1, min(nr, 4) + 1):
                for q in itertools.product("01", repeat=nq):
                    yield f"CORR R={''.join(r)} Q={''.join(q)}"


def corr_random(rng, count):
    for _ in range(count):
        nr = rng.randrange(1, 400)
        dens = rng.choice([0.05, 0.2, 0.5])
        r = "".join("1" if rng.random() < dens else "0" for _ in range(nr))
        if rng.random() < 0.6 and nr > 3:
            i = rng.randrange(0, nr - 2)
            j = rng.randrange(i + 1, nr)
            q = r[i:j]                      # an exact copy of a window
            if rng.random() < 0.3:
                q = q[::-1]
        else:
            q = "".join("1" if rng.random() < dens else "0" for _ in range(rng.randrange(1, nr + 1)))
        yield f"CORR R={r} Q={q}"


# ------------------------------------------------------------------ JOINROWS / RESOLVEROWS (rows built by the real aligner)
def _tandem_reference(rng):
    """reference with a tandem duplication of a block of labels"""
    unit = [rng.randrange(2500, 12000) for _ in range(rng.randrange(4, 9))]
    pre = rand_map(rng, rng.randrange(5, 15), 9000, 1500)
    pos = list(pre)
    x = pos[-1]
    for _ in range(rng.randrange(2, 4)):
        for g in unit:
            x += g
            pos.append(x)
    post = rand_map(rng, rng.randrange(5, 15), 9000, 1500)
    off = x + rng.randrange(3000, 12000) - post[0]
    pos += [p + off for p in post]
    return pos, sum(unit)


def row_pairs_random(rng, count):
    """yields (P, rowA, rowB, others) as real AlignmentResultRow objects: A = a first-pass candidate of a
    query, B = a candidate of a fragment of the same query (second pass) on the same reference"""
    import realops
    import codec
    made = 0
    while made < count:
        P = rand_params(rng)
        if rng.random() < 0.6:
            R, period = _tandem_reference(rng)
        else:
            R, period = make_reference(rng, rng.randrange(20, 60), 9000, 1500), rng.choice([20000, 40000])
        Q, off, _ = make_query(rng, R, rng.random() < 0.7)
        if len(Q) < 8:
            continue
        rev = rng.randrange(2)
        Qs = mirror(Q) if rev else Q
        al = realops.make_aligner(P, 1, 0)
        ref = codec.OpticalMap(1, R[-1] + 1000, R)
        full = codec.OpticalMap(7, Qs[-1] + 1, Qs)
        k = rng.randrange(3, len(Qs) - 2)
        if rng.random() < 0.5:
            frag = codec.OpticalMap(7, Qs[-1] + 1, Qs[k:], k)
        else:
            frag = codec.OpticalMap(7, Qs[-1] + 1, Qs[:k], 0)
        if rng.random() < 0.5:
            # the fragment re-aligns the same query labels one repeat unit away: a join candidate that
            # would list query labels twice
            sgn = rng.choice([1, -1])
            pa = [off + rng.randrange(-100, 100)]
            pb = [off + sgn * period + rng.randrange(-100, 100)]
            if rng.random() < 0.5:
                frag = codec.OpticalMap(7, Qs[-1] + 1, Qs[max(0, k - 4):], max(0, k - 4)) if sgn > 0 else codec.OpticalMap(7, Qs[-1] + 1, Qs[:k + 4], 0)
        else:
            pa = [off + rng.choice([0, 0, period, -period]) + rng.randrange(-200, 200) for _ in range(rng.randrange(1, 3))]
            pb = [off + rng.choice([0, period, -period, 2 * period]) + rng.randrange(-200, 200) for _ in range(rng.randrange(1, 3))]
        try:
            A = al.align(ref, full, [codec.Peak(p, 1.0) for p in pa], bool(rev))
            B = al.align(ref, frag, [codec.Peak(p, 1.0) for p in pb], bool(rev)).setAlignedRest(True)
        except Exception:
            continue
        if not A.alignedPairs or not B.alignedPairs:
            continue
        others = []
        if rng.random() < 0.5:
            Q2, off2, _ = make_query(rng, R, False)
            C = al.align(ref, codec.OpticalMap(rng.choice([3, 9]), Q2[-1] + 1, Q2), [codec.Peak(off2, 1.0)], False)
            if C.alignedPairs:
                others.append(C)
        yield P, A, B, others
        made += 1


def joinrows_random(rng, count):
    import codec
    for P, A, B, others in row_pairs_random(rng, count):
        yield f"JOINROWS {pstr(P)} A={codec.show_row_t(A)} B={codec.show_row_t(B)}"


def resolverows_random(rng, count):
    import codec
    for P, A, B, others in row_pairs_random(rng, count):
        rows = [A] + [o for o in others if not o.alignedRest] + [B]
        diff = rng.choice([0, 0, 1000, 20000, 100000, 100000])
        yield f"RESOLVEROWS {pstr(P)} diff={diff} ROWS={'^'.join(codec.show_row_t(r) for r in rows)}"


def _synthetic_row(peak, pairs, qid=7, rid=1, rev=0, rest=0, sp=1000, dp=1):
    """protocol text of a one-segment row; pairs = [(rsite, rpos, qsite, qpos, shift)]"""
    items = ",".join(f"P:{a}:{b}:{c}:{d}:{e}" for a, b, c, d, e in pairs)
    conf = sum(sp - dp * abs(e) for *_, e in pairs)
    by_r = sorted(pairs, key=lambda p: p[1])
    first, last = by_r[0], by_r[-1]
    qs, qe = (last[3], first[3]) if rev else (first[3], last[3])
    return (f"q={qid}~r={rid}~ql=200001~rl=900001~qs={qs}~qe={qe}~rs={first[1]}~re={last[1]}~rev={rev}~conf={conf}~"
            f"rest={rest}~SEG={peak}|{items}")


def joinrows_synthetic(rng, count):
    """two one-segment parts that place the same query labels at two reference loci, with scores that
    put the optimal merge index strictly inside: the join of the parts would list a label twice"""
    P = dict(DEFAULT_P)
    for _ in range(count):
        n = rng.randrange(2, 6)
        rev = rng.randrange(2)
        q0 = rng.randrange(1, 20)
        step = rng.randrange(3000, 9000)
        shiftq = rng.randrange(1, 3)            # the second part re-uses query labels shifted by this many
        def qsite(j):
            return (q0 + 40 - j) if rev else (q0 + j)
        L, R = [], []
        k = rng.randrange(1, n) if n > 1 else 0
        for j in range(n):
            big = 0 if j < k else rng.randrange(600, 1400)
            L.append((10 + j, 100000 + j * step, qsite(j + shiftq), 10000 + (j + shiftq) * step, big))
        for j in range(n):
            big = rng.randrange(600, 1400) if j < k else 0
            R.append((60 + j, 400000 + j * step, qsite(j), 10000 + j * step, big))
        a = _synthetic_row(0, L, rev=rev)
        b = _synthetic_row(300000, R, rev=rev, rest=1)
        if rng.random() < 0.5:
            yield f"JOINROWS {pstr(P)} A={a} B={b}"
        else:
            other = _synthetic_row(0, [(200, 700000, 1, 0, 0), (201, 705000, 2, 5000, 0)], qid=9)
            diff = rng.choice([0, 1000, 100000, 1000000])
            yield f"RESOLVEROWS {pstr(P)} diff={diff} ROWS={a}^{other}^{b}"


# ------------------------------------------------------------------ TOPN (per-correlation top peaks)
def topn_random(rng, count):
    for _ in range(count):
        n = rng.randrange(0, 12)
        bins = sorted(rng.sample(range(0, 400), n))
        hs = rng.sample(range(1, 1000), n)          # distinct heights: the kept SET is then unique
        yield (f"TOPN count={rng.randrange(0, 8)} res={rng.choice([100, 1400, 7])} start={rng.choice([0, -16000, 52000])} "
               f"B={','.join(map(str, bins))} H={','.join(map(str, hs))}")


def topn_exhaustive(tier):
    m = 5 if tier == "quick" else 6
    for n in range(0, m + 1):
        for hs in itertools.permutations(range(1, n + 1)):
            for c in range(0, n + 2):
                yield f"TOPN count={c} res=100 start=0 B={','.join(str(3 * i) for i in range(n))} H={','.join(map(str, hs))}"


def joinrows_ladder_random(rng, count, only_trailing=False):
    """first-pass rows built from LADDERS of seed peaks (several chained, trimmed segments) joined with
    the alignments of their own unaligned fragments — the shape the second pass really produces"""
    import realops
    import codec
    made = 0
    tries = 0
    while made < count and tries < 40 * count:
        tries += 1
        P = rand_params(rng)
        R = make_reference(rng, rng.randrange(25, 70), rng.choice([3000, 9000]), rng.choice([200, 500, 2000]))
        Q, off, _ = make_query(rng, R, True)
        if len(Q) < 10:
            continue
        rev = rng.randrange(2)
        Qs = mirror(Q) if rev else Q
        al = realops.make_aligner(P, 1, 0)
        ref = codec.OpticalMap(1, R[-1] + 1000, R)
        full = codec.OpticalMap(7, Qs[-1] + 1, Qs)
        try:
            A = al.align(ref, full, [codec.Peak(p, 1.0) for p in ladder(rng, off)], bool(rev))
            if not A.alignedPairs:
                continue
            if only_trailing:
                s0 = A.segments[0].positions
                # the first segment was trimmed by the resolver and now ends on an unpaired label
                if not s0 or isinstance(s0[-1], realops.AlignedPair):
                    continue
            frs = A.getUnalignedFragments([full])
        except Exception:
            continue
        for fr in frs:
            try:
                B = al.align(ref, fr, [codec.Peak(off + rng.choice([0, rng.randrange(-300, 300)]), 1.0)], bool(rev)).setAlignedRest(True)
            except Exception:
                continue
            if not B.alignedPairs:
                continue
            yield f"JOINROWS {pstr(P)} A={codec.show_row_t(A)} B={codec.show_row_t(B)}"
            made += 1


# ------------------------------------------------------------------ secondary seeding stage (SEQ, XCORR, FINDPEAKS, REFINE)
def seq_exhaustive(tier):
    """positionsToSequence = blur . vectorise on a small lattice, negative starts and ends before the last label"""
    pts = range(0, 8)
    maxn = 3 if tier == "quick" else 4
    for pos in multisets(pts, maxn):
        for res in (1, 2, 3):
            for bl in (0, 1, 2):
                for start in (-3, -1, 0, 2):
                    for stop in ("none", 0, 3, 7, 11):
                        yield f"SEQ res={res} blur={bl} start={start} stop={stop} POS={','.join(map(str, pos))}"
    yield "SEQ res=0 blur=1 start=0 stop=none POS=1,2"
    yield "SEQ res=1 blur=-1 start=0 stop=none POS=1,2"


def seq_random(rng, count):
    for _ in range(count):
        res = rng.choice([1, 50, 100, 140, 1400])
        scale = max(1, res // 3)
        pos = [p * scale // 50 for p in rand_map(rng, rng.randrange(0, 60), rng.choice([50, 140, 900]))]
        span = (pos[-1] if pos else 100 * scale)
        start = rng.choice([0, -rng.randrange(1, span + 2), rng.randrange(-span // 3 - 1, span + 1)])
        stop = rng.choice(["none", 0, rng.randrange(0, 2 * span + 1)])
        yield f"SEQ res={res} blur={rng.choice([0, 1, 2, 4])} start={start} stop={stop} POS={','.join(map(str, pos))}"


def xcorr_exhaustive(tier):
    m = 6 if tier == "quick" else 8
    for nr in range(0, m + 1):
        for r in itertools.product("01", repeat=nr):
            for nq in range(0, 4 if tier == "quick" else 5):
                for q in itertools.product("01", repeat=nq):
                    yield f"XCORR R={''.join(r)} Q={''.join(q)}"


def xcorr_random(rng, count):
    for _ in range(count):
        nr, nq = rng.randrange(0, 400), rng.randrange(0, 120)
        d = rng.choice([0.05, 0.2, 0.6])
        yield (f"XCORR R={''.join('1' if rng.random() < d else '0' for _ in range(nr))} "
               f"Q={''.join('1' if rng.random() < d else '0' for _ in range(nq))}")


def findpeaks_exhaustive(tier):
    """every small array over two alphabets: {0..3} for plateaus / edges / heights, and values around the
    `0.05 * max` prominence boundary (max 20, 21, 40 against prominences 1 and 2)"""
    n1 = 6 if tier == "quick" else 8
    for n in range(0, n1 + 1):
        for x in itertools.product((0, 1, 2, 3), repeat=n):
            for thr in ("0", "1", "3/2", "3"):
                yield f"FINDPEAKS thr={thr} X={','.join(map(str, x))}"
    n2 = 5 if tier == "quick" else 6
    for n in range(3, n2 + 1):
        for x in itertools.product((0, 1, 2, 19, 20, 21, 40), repeat=n):
            yield f"FINDPEAKS thr=1 X={','.join(map(str, x))}"


def findpeaks_random(rng, count):
    for _ in range(count):
        n = rng.randrange(0, 300)
        x, v = [], rng.randrange(0, 30)
        for _ in range(n):
            if rng.random() < 0.6:
                v = max(0, v + rng.choice([-3, -1, -1, 0, 0, 1, 1, 2, 15, -15]))
            x.append(v)
        yield f"FINDPEAKS thr={rng.choice(['27', '15', '1', '0', '27/2', '5'])} X={','.join(map(str, x))}"


def refine_random(rng, count):
    """the real `InitialAlignment.refine` on reference/query pairs: exact copies (with `truth=`, the reference
    coordinate of query coordinate 0 on the strand given), noisy copies, fragments (untrimmed positions, label
    offset), primary peaks near / before the reference start (negative window start) / beyond the last label,
    several resolution / blur / margin / threshold settings"""
    for _ in range(count):
        R = make_reference(rng, rng.randrange(20, 120), 9000, rng.choice([500, 2000, 2000]))
        noisy = rng.random() < 0.35
        Q, off, _ = make_query(rng, R, noisy)
        sec = rng.choice(["100,4,16000,27", "100,4,16000,27", "100,4,16000,27", "50,2,8000,15", "140,1,3000,5",
                          "100,0,16000,27/2", "100,4,0,3", "200,3,20000,1"])
        res, bl, margin, thr = sec.split(",")
        res, margin = int(res), int(margin)
        tail = rng.choice([0, 0, rng.randrange(0, 9000)])
        qlen = Q[-1] + 1 + tail
        rev = rng.random() < 0.5
        # on the reverse strand the molecule is given mirrored (its tail then leads); the reversed vector starts at
        # the molecule's last label again, so the true diagonal is the same reference coordinate on both strands
        qq = [qlen - 1 - q for q in reversed(Q)] if rev else Q
        shift, pre = 0, []
        if rng.random() < 0.2:      # a fragment: positions are not trimmed, labels before it are cut away
            pre_off = rng.randrange(1000, 60000)
            qq = [q + pre_off for q in qq]
            qlen += pre_off
            shift = rng.randrange(1, 9)
        truth = off
        if shift:
            truth = None
        c = rng.random()
        if c < 0.6:
            peak = off + rng.randrange(-1500, 1500)
        elif c < 0.75:
            peak = rng.randrange(-margin - 3000, margin // 2 + 1)        # window starts before the reference
            truth = None
        elif c < 0.9:
            peak = R[-1] + rng.randrange(-qlen - 2000, margin + 5000)      # window runs past (or lies beyond) the last label
            truth = None
        else:
            peak = rng.randrange(-30000, R[-1] + 40000)
            truth = None
        if rng.random() < 0.15:     # copy placed near the reference start: exact copy AND negative window start
            k = rng.randrange(3, min(30, len(R) - 1))
            Q = [p - R[0] for p in R[:k]]
            qlen = Q[-1] + 1
            qq, rev, shift, noisy = Q, False, 0, False
            truth = R[0]
            peak = R[0] + rng.randrange(-700, 700)
        t = f" truth={truth}" if (truth is not None and not noisy) else ""
        yield (f"REFINE sec={sec} rev={1 if rev else 0} peak={peak}{t} REF={mapstr(1, R[-1] + 1 + rng.randrange(0, 30000), 0, R)} "
               f"QRY={mapstr(2, qlen, shift, qq)}")


def refine_lattice(rng, count):
    """dense small-scale cases (more than ten peaks pass `find_peaks`, ties at the cut, empty windows)"""
    for _ in range(count):
        res = rng.choice([1, 2, 5])
        R = sorted(rng.sample(range(0, 400 * res), rng.randrange(1, 60)))
        k = rng.randrange(1, 8)
        i = rng.randrange(0, max(1, len(R) - k))
        Q = [p - R[i] for p in R[i:i + k]]
        if rng.random() < 0.4:
            Q = sorted(set(max(0, q + rng.randrange(-2, 3) * res) for q in Q))
            Q = [q - Q[0] for q in Q]
        qlen = Q[-1] + 1 + rng.choice([0, 0, 3 * res])
        sec = f"{res},{rng.choice([0, 1, 2])},{rng.choice([0, 10, 40, 400]) * res},{rng.choice(['1', '2', '3/2', '3'])}"
        peak = rng.randrange(-60 * res, 460 * res)
        yield (f"REFINE sec={sec} rev={rng.randrange(2)} peak={peak} REF={mapstr(1, R[-1] + 1 + rng.randrange(0, 50), 0, R)} "
               f"QRY={mapstr(2, qlen, 0, Q)}")


def primary_random(rng, count):
    """the real `getInitialAlignment` (primary stage) on reference/query pairs at several resolutions"""
    for _ in range(count):
        R = make_reference(rng, rng.randrange(15, 120), 9000, rng.choice([500, 2000, 2000]))
        c = rng.random()
        if c < 0.7:
            Q, off, _ = make_query(rng, R, rng.random() < 0.4)
        elif c < 0.85:
            Q = rand_map(rng, rng.randrange(1, 30), 9000, 500)
            Q = [q - Q[0] for q in Q]
        else:   # longer than the reference / than its labelled part
            Q = rand_map(rng, rng.randrange(2, 12), rng.choice([9000, 90000]), 500)
            Q = [q - Q[0] for q in Q]
        tail = rng.choice([0, 0, rng.randrange(0, 9000)])
        qlen = Q[-1] + 1 + tail
        rev = rng.random() < 0.5
        qq = [qlen - 1 - q for q in reversed(Q)] if rev else Q
        res, bl = rng.choice([(1400, 1), (1400, 1), (700, 2), (100, 1), (2000, 0)])
        mpd = rng.choice([20000, 20000, res, 3 * res, 50000])
        reflen = R[-1] + 1 + rng.choice([0, rng.randrange(0, 30000), 400000])
        yield (f"PRIMARY res={res} blur={bl} mpd={mpd} count={rng.choice([1, 2, 3, 3, 5])} rev={1 if rev else 0} "
               f"REF={mapstr(1, reflen, 0, R)} QRY={mapstr(2, qlen, 0, qq)}")


def primary_degenerate(rng, count):
    """primary stage on molecules that barely fit: a whole contig against itself, a molecule one or two correlation
    bins shorter than the labelled part of the reference, one- and two-label molecules, tiny references"""
    for _ in range(count):
        res, bl = rng.choice([(1400, 1), (1400, 1), (700, 2), (2000, 0), (5000, 1)])
        n = rng.choice([1, 2, 3, 8, 30])
        R = rand_map(rng, n, rng.choice([3000, 9000]), 500)
        shift0 = rng.choice([0, 0, rng.randrange(0, 3000)])
        R = [p - R[0] + shift0 for p in R]
        c = rng.random()
        if c < 0.5:
            Q = [p - R[0] for p in R]                       # the contig itself
        elif c < 0.8 and len(R) > 1:
            Q = [p - R[0] for p in R[:-1]]
            Q = Q + [Q[-1] + max(1, (R[-1] - R[-2]) - rng.choice([0, res, 2 * res, 3 * res]))] if rng.random() < 0.6 else Q
            Q = sorted(set(q for q in Q if q >= 0))
        else:
            Q = [0] + sorted(rng.randrange(1, max(2, R[-1] - R[0] + 1)) for _ in range(rng.choice([0, 1, 4])))
        qlen = Q[-1] + 1
        rev = rng.random() < 0.5
        qq = [qlen - 1 - q for q in reversed(Q)] if rev else Q
        reflen = R[-1] + 1 + rng.choice([0, 0, rng.randrange(0, 5000)])
        yield (f"PRIMARY res={res} blur={bl} mpd={rng.choice([20000, res, 3 * res])} count={rng.choice([1, 3, 3, 6])} rev={1 if rev else 0} "
               f"REF={mapstr(1, reflen, 0, R)} QRY={mapstr(2, qlen, 0, qq)}")


def calls_random(rng, count):
    """the two indel finders on one alignment with several pairs: breakage places at the last pair, past the end,
    repeated, label numbers at the ends of the maps, gaps around both thresholds (100 / 2000) and the upper limit"""
    for _ in range(count):
        n = rng.randrange(2, 9)
        R = sorted(rng.sample(range(0, 400000), rng.randrange(n, n + 6)))
        Q = sorted(rng.sample(range(0, 400000), rng.randrange(n, n + 6)))
        if rng.random() < 0.5:      # planted gaps near the thresholds
            base = 0
            R, Q = [0], [0]
            for _ in range(n + 2):
                g = rng.choice([5000, 9000, 20000])
                d = rng.choice([0, 99, 100, 101, -100, -101, 1999, 2000, 2001, -2001, 50000, 99999, 100000, -99999])
                R.append(R[-1] + g + max(d, 0))
                Q.append(Q[-1] + g + max(-d, 0))
        rs = sorted(rng.sample(range(1, len(R) + 1), min(n, len(R))))
        qs = sorted(rng.sample(range(1, len(Q) + 1), min(n, len(Q))))
        if rng.random() < 0.3:
            qs = qs[::-1]
        pairs = list(zip(rs, qs))
        if rng.random() < 0.1:
            pairs.append((len(R) + rng.randrange(0, 2), len(Q)))       # a label number one past the end of the reference
        ps = ",".join(f"{a}:{b}" for a, b in pairs)
        if rng.random() < 0.5:
            bp = [rng.randrange(-1, len(pairs) + 1) for _ in range(rng.randrange(0, 4))]
            yield (f"CALLS variant=seg chrom={rng.randrange(1, 24)} qid={rng.randrange(1, 999)} R={','.join(map(str, R))} Q={','.join(map(str, Q))} "
                   f"PAIRS={ps} BP={','.join(map(str, bp))}")
        else:
            i = rng.randrange(-1, len(pairs) + 1)
            a, b = pairs[max(0, min(i, len(pairs) - 1))] if rng.random() < 0.8 else (rng.randrange(1, len(R) + 1), rng.randrange(1, len(Q) + 1))
            yield (f"CALLS variant=mol chrom={rng.randrange(1, 24)} qid={rng.randrange(1, 999)} R={','.join(map(str, R))} Q={','.join(map(str, Q))} "
                   f"PAIRS={ps} BP={i} BPAIR={a}:{b}")


def chain_synthetic(rng, count):
    """hand-built chains for the DP: 2-7 two-pair segments laid along a diagonal with UNEQUAL reference / query gaps
    (where the two join-score variants differ most), small overlaps, and segment scores of the same order as the join
    penalties, so that several predecessors of a segment have nearly equal cumulated scores"""
    for _ in range(count):
        n = rng.randrange(2, 8)
        sp = 1000
        P = {"sp": sp, "dp": 1, "su": -250, "md": 1500, "ms": 1, "bs": 1200}
        r = rng.randrange(0, 5000)
        q = rng.randrange(0, 5000)
        segs = []
        site = 1
        for k in range(n):
            ln = rng.choice([300, 1000, 2500, 6000])
            stretch = rng.choice([1.0, 1.0, 0.9, 1.1])
            items = []
            for (dr, dq) in ((0, 0), (ln, int(ln * stretch))):
                shift = rng.choice([0, 100, 400, 700, 950])
                items.append(f"P:{site}:{r + dr}:{site}:{q + dq}:{shift}")
                site += 1
            segs.append(f"{rng.randrange(0, 9)}|" + ",".join(items))
            gr = rng.choice([-200, 0, 150, 500, 1000, 1400, 3000])
            gq = int(gr * rng.choice([1.0, 0.4, 0.414, 0.6, 1.7, 2.4])) if gr > 0 else rng.choice([-100, 0, 300, 1000])
            r += ln + gr
            q += int(ln * stretch) + gq
        if rng.random() < 0.5:
            rng.shuffle(segs)
        mult = rng.choice(["1", "1", "1/2", "2", "1/4"])
        yield f"CHAIN {pstr(P)} mult={mult} var={rng.choice([0, 1, 1])} SEG={';'.join(segs)}"


def resolverows_crossref(rng, count):
    """the rows of ONE query on DIFFERENT references (a translocated / chimeric molecule): same strand, near-by
    coordinates, collinear site ids — everything that makes a join look eligible except the reference"""
    import re
    made = 0
    for line in resolverows_random(rng, count * 3):
        rows = line.split("ROWS=", 1)[1].split("^")
        if len(rows) < 2:
            continue
        k = rng.randrange(len(rows))
        rows[k] = re.sub(r"(^|~)r=(\d+)", lambda m: f"{m.group(1)}r={int(m.group(2)) + 1 + rng.randrange(2)}", rows[k], count=1)
        yield line.split("ROWS=", 1)[0] + "ROWS=" + "^".join(rows)
        made += 1
        if made >= count:
            return


def joinrows_unpaired_edges(rng, count):
    """a first-pass part whose only segment BEGINS (or ends) with unpaired labels and whose pairs are all claimed — on the
    query side — by a better-scoring second-pass part: after the join's conflict resolution the first part keeps
    positions but no pair (a non-empty, pair-less first segment of the joined record)"""
    P = dict(DEFAULT_P)
    for _ in range(count):
        rev = rng.randrange(2)
        na = rng.randrange(1, 4)
        extra = rng.randrange(1, 4)
        step = rng.randrange(3000, 9000)
        q0 = rng.randrange(3, 20)

        def qs(j):       # query site / coordinate of the j-th query label used, strand aware
            return ((q0 + 40 - j) if rev else (q0 + j)), 10000 + j * step
        lead = rng.randrange(1, 3)
        pa = [(10 + j, 100000 + j * step) + qs(j) + (rng.randrange(300, 900),) for j in range(na)]
        pb = [(60 + j, 400000 + j * step) + qs(j) + (0,) for j in range(na + extra)]
        items_a = [f"R:{10 - lead + i}:{100000 - (lead - i) * 2000}" for i in range(lead)] if rng.random() < 0.7 else \
                  [f"Q:{qs(-1 - i)[0]}:{qs(-1 - i)[1]}:0" for i in range(lead)]
        items_a += [f"P:{a}:{b}:{c}:{d}:{e}" for a, b, c, d, e in pa]
        if rng.random() < 0.3:
            items_a.append(f"R:{10 + na}:{100000 + na * step - 1000}")
        conf_a = sum(1000 - abs(e) for *_, e in pa) - 250 * (len(items_a) - len(pa))
        fa, la = pa[0], pa[-1]
        qsa, qea = (la[3], fa[3]) if rev else (fa[3], la[3])
        a = (f"q=7~r=1~ql=200001~rl=900001~qs={qsa}~qe={qea}~rs={fa[1]}~re={la[1]}~rev={rev}~conf={conf_a}~rest=0~SEG=0|" + ",".join(items_a))
        b = _synthetic_row(300000, pb, rev=rev, rest=1)
        if rng.random() < 0.3:
            a, b = b.replace("rest=1", "rest=0"), a.replace("rest=0", "rest=1")
        yield f"JOINROWS {pstr(P)} A={a} B={b}"


def pair_fractional(rng, count):
    """PAIR on coordinates with one decimal (as in real CMAP files), given in tenths: offsets of exactly maxDistance,
    maxDistance + 0.1 ... + 0.9 (strictly between the integer boundary and the next integer), both signs, both strands"""
    for _ in range(count):
        u = 10
        md = rng.choice([10, 100, 1500])
        n = rng.randrange(1, 8)
        R = sorted(rng.sample(range(0, 40 * md * u + 100), n))
        start = rng.randrange(0, 5 * md * u)
        Q = []
        for r in R:
            if rng.random() < 0.8:
                off = rng.choice([0, md * u, -md * u, md * u + rng.randrange(1, 10), -md * u - rng.randrange(1, 10),
                                  md * u - rng.randrange(1, 10), rng.randrange(-md * u, md * u + 1), 5 * rng.randrange(-3, 4)])
                q = r - start + off
                if q >= 0:
                    Q.append(q)
        Q = sorted(set(Q)) or [0]
        rev = rng.randrange(2)
        L = Q[-1] // u + 1 + rng.choice([0, 0, 7])            # molecule length in bp
        Lp = u * L - (u - 1)
        if rev:
            Q = sorted(u * (L - 1) - q for q in Q if u * (L - 1) - q >= 0) or [0]
        stop = start + u * L
        yield (f"PAIR unit={u} md={md * u} start={start} stop={stop} rev={rev} it={rng.randrange(1, 50)} "
               f"REF={mapstr(1, u * (R[-1] // u + 100) - (u - 1), 0, R)} QRY={mapstr(2, Lp, 0, Q)}")


def trim_fractional(rng, count):
    for _ in range(count):
        u = 10
        n = rng.randrange(1, 30)
        pos = sorted(rng.randrange(0, 5000000) for _ in range(n))
        if rng.random() < 0.3:
            pos = [p - pos[0] for p in pos]
        yield f"TRIM unit={u} M={mapstr(rng.randrange(1, 99), pos[-1] + u * rng.randrange(1, 999) - (u - 1), 0, pos)}"


def candidate_fractional(rng, count):
    """the whole candidate construction (pairing, scoring, segments, chain, conflict resolution, row header, HitEnum) on
    coordinates with one decimal: the line is in tenths, the real classes compute with exact fractions"""
    u = 10
    for _ in range(count):
        P = rand_params(rng)
        R = make_reference(rng, rng.randrange(15, 60), rng.choice([3000, 9000]), rng.choice([200, 500, 2000]))
        Q, off, _ = make_query(rng, R)
        R10 = sorted(set(p * u + rng.randrange(0, u) for p in R))
        Q10 = sorted(set(q * u + rng.randrange(0, u) for q in Q))
        Q10 = [q - Q10[0] for q in Q10]
        rev = rng.randrange(2)
        L = Q10[-1] // u + 1 + rng.choice([0, 0, 3])
        if rev:
            Q10 = sorted(u * (L - 1) - q for q in Q10 if u * (L - 1) - q >= 0)
        peaks = [p * u + rng.randrange(0, u) for p in ladder(rng, off)]
        Ps = {"sp": P["sp"] * u, "dp": P["dp"], "su": P["su"] * u, "md": P["md"] * u + rng.choice([0, 0, 3]), "ms": P["ms"] * u, "bs": P["bs"] * u}
        mult = rng.choice(["1", "1", "1/2", "2", "0"])
        rl = R10[-1] // u + 1 + rng.randrange(0, 3000)
        trimq = ""
        if rng.random() < 0.5:
            # the molecule as it is in the file: first label not at 0, an unlabelled tail; trimmed by the operation itself
            off = rng.randrange(1, 3000)
            Q10 = [q + off for q in Q10]
            L = Q10[-1] // u + 1 + rng.randrange(0, 500)
            trimq = " trimq=1"
        yield (f"CANDIDATE unit={u}{trimq} {pstr(Ps)} mult={mult} var={rng.choice([0, 0, 1])} it=1 rev={rev} "
               f"peaks={','.join(map(str, peaks))} REF={mapstr(1, u * rl - (u - 1), 0, R10)} QRY={mapstr(7, u * L - (u - 1), 0, Q10)}")


def seq_fractional(rng, count):
    """vectorise / positionsToSequence on label coordinates with one decimal (line in tenths; labels a tenth before / on / after
    a bin boundary, window starts and ends with decimals)"""
    u = 10
    for _ in range(count):
        res = rng.choice([1, 50, 100, 140, 1400])
        n = rng.randrange(0, 40)
        pos = sorted(rng.randrange(0, 60 * res * u) for _ in range(n))
        # labels right at bin boundaries (counted from the start chosen below) and a tenth off
        start = rng.choice([0, -rng.randrange(1, 5 * res * u), rng.randrange(0, 3 * res * u)])
        for _ in range(rng.randrange(0, 6)):
            k = rng.randrange(0, 60)
            pos.append(start + k * res * u + rng.choice([-1, 0, 1, res * u - 1]))
        pos = sorted(p for p in pos if p >= 0)
        stop = rng.choice(["none", 0, rng.randrange(0, 70 * res * u)])
        op = rng.choice(["VEC", "SEQ"])
        extra = f" blur={rng.choice([0, 1, 2, 4])}" if op == "SEQ" else ""
        yield f"{op} unit={u} res={res * u}{extra} start={start} stop={stop} POS={','.join(map(str, pos))}"


def segs_fractional(rng, count):
    """the segment scan on scores with two or more decimals (coordinates such as x.25, a penalty multiplier such as 0.25 or
    0.37): the line is in 1/den, the real factory gets exact fractions.  Includes runs whose sum reaches a threshold
    exactly and improvements smaller than 0.05."""
    for _ in range(count):
        den = rng.choice([4, 8, 20, 100])
        n = rng.randrange(0, 40)
        ms = rng.choice([1000, 500, 1]) * den
        bs = rng.choice([1200, 0, 300]) * den
        seq = []
        for _ in range(n):
            c = rng.random()
            if c < 0.5:
                seq.append(1000 * den - rng.randrange(0, 1500 * den))
            elif c < 0.7:
                seq.append(-250 * den)
            elif c < 0.85:
                seq.append(rng.choice([1, -1, 2, 3, den // 4, -(den // 4)]))        # a tiny improvement / loss
            else:
                seq.append(250 * den + den // 4)
        yield f"SEGS den={den} ms={ms} bs={bs} S={','.join(map(str, seq))}"
    yield "SEGS den=4 ms=4000 bs=4800 S=1001,1001,1001,997"          # sums to exactly minScore


def checkoverlap_boundary(rng, count):
    """join eligibility right at the boundary, at small and at very large reference coordinates (chromosome scale): gap equal
    to maxDifference, one more, a few hundred more"""
    for _ in range(count):
        base = rng.choice([0, 1000000, 20000000, 100000000, 240000000])
        diff = rng.choice([0, 1000, 100000, 100400])
        ln = rng.randrange(20000, 200000)
        gap = diff + rng.choice([0, 0, 1, -1, 5, 50, 200, 900, 3000, -3000])
        rev = rng.randrange(2)
        a = _synthetic_row(0, [(10, base, 1, 0, 0), (11, base + ln, 5, ln, 0)], rev=rev)
        b0 = base + ln + gap
        b = _synthetic_row(0, [(40, b0, 9, ln + 5000, 0), (41, b0 + ln, 14, 2 * ln + 5000, 0)], rev=rev if rng.random() < 0.9 else 1 - rev,
                           rid=1 if rng.random() < 0.9 else 2, rest=1)
        if rng.random() < 0.5:
            a, b = b, a
        yield f"CHECKOVERLAP diff={diff} A={a} B={b}"


def resolverows_interleaved(rng, count):
    """the two rows of one query on one reference, with rows of OTHER queries on OTHER references placed between them in the
    input list (as happens when several references have hits: first-pass rows by query id, then second-pass rows by query id)"""
    import codec
    import re
    for P, A, B, others in row_pairs_random(rng, count):
        mid = []
        for k in range(rng.randrange(1, 3)):
            other = _synthetic_row(0, [(200 + k, 700000, 1, 0, 0), (201 + k, 705000, 2, 5000, 0)], qid=900 + k, rid=50 + k, rest=rng.randrange(2))
            mid.append(other)
        rows = [codec.show_row_t(A)] + mid + [codec.show_row_t(B)]
        diff = rng.choice([0, 1000, 20000, 100000, 100000, 1000000])
        yield f"RESOLVEROWS {pstr(P)} diff={diff} ROWS={'^'.join(rows)}"


def getseq_random(rng, count):
    """`OpticalMap.getSequence` on molecules that SHARE id and length but differ in their labels (the fragments the second pass
    cuts from one query do), whole-map and windowed, both strands"""
    combos = [(rng.randrange(1, 5), rng.choice([50001, 120000, 7000])) for _ in range(4)]
    for _ in range(count):
        mid, ln = rng.choice(combos)
        n = rng.randrange(1, 25)
        pos = sorted(rng.randrange(0, ln) for _ in range(n))
        res, bl = rng.choice([(100, 4), (1400, 1), (100, 4), (50, 0)])
        if rng.random() < 0.7:
            start, stop = 0, "none"
        else:
            start, stop = rng.choice([0, -3000, 2500]), rng.choice(["none", 0, ln // 2])
        yield f"GETSEQ res={res} blur={bl} start={start} stop={stop} rev={rng.randrange(2)} M={mapstr(mid, ln, rng.choice([0, 0, 4]), pos)}"
