"""Run the registered checks against a seeded change:  seedrun.py <seeded/id dir> [Cxx ...]

Applies patch.diff to /repo (git apply), runs ./check for the given properties (default: all
claimed) at quick tier, restores /repo (git checkout -- .) and prints which checks raised a
VIOLATION.  Never leaves /repo modified."""
from __future__ import annotations

import json
import os
import subprocess
import sys
import time

VERIF = os.path.dirname(os.path.dirname(os.path.abspath(__file__)))


def clean():
    return subprocess.run(["git", "-C", "/repo", "status", "--porcelain", "--untracked-files=no"], capture_output=True, text=True).stdout.strip() == ""


def main():
    d = sys.argv[1]
    patch = os.path.join(d, "patch.diff")
    props = sys.argv[2:] or [c["property_id"] for c in json.load(open(os.path.join(VERIF, "MANIFEST.json")))["checks"]]
    tier = os.environ.get("VERIF_TIER", "quick")
    assert clean(), "/repo has local modifications"
    r = subprocess.run(["git", "-C", "/repo", "apply", os.path.abspath(patch)], capture_output=True, text=True)
    if r.returncode != 0:
        print("patch does not apply:", r.stderr)
        return 2
    res = {}
    try:
        procs = {}
        for p in props:
            procs[p] = subprocess.Popen([os.path.join(VERIF, "check"), p, "--tier", tier], stdout=subprocess.PIPE, stderr=subprocess.STDOUT, text=True,
                                        cwd=VERIF, env=dict(os.environ, VERIF_JOBS="4"))
            # a few at a time
            while sum(1 for q in procs.values() if q.poll() is None) >= 8:
                time.sleep(0.5)
        for p, q in procs.items():
            out = q.communicate()[0]
            viol = [l for l in out.split("\n") if l.startswith("VIOLATION")]
            res[p] = {"exit": q.returncode, "violation": viol[0] if viol else None}
            replay = None
            if viol and "replay=" in viol[0]:
                replay = viol[0].split("replay=")[1].split()[0]
                try:
                    rp = json.load(open(replay))
                    res[p]["what"] = (rp.get("what_fails") or str(rp.get("no_longer_checks", ""))[:300])[:300]
                    res[p]["kind"] = rp.get("kind")
                except Exception:
                    pass
    finally:
        subprocess.run(["git", "-C", "/repo", "checkout", "--", "."])
    assert clean()
    caught = [p for p, v in res.items() if v["exit"] == 1]
    print(json.dumps({"seed": d, "caught_by": caught, "detail": res}, indent=1))
    return 0


if __name__ == "__main__":
    sys.exit(main())
