"""Oracles evaluated on the TEXT of the files the real program wrote (independent parser,
no src.parsers), against the CMAP molecules the harness generated."""
from __future__ import annotations

import cmapio
import oracles as O


def mol_index(sc):
    refs = {mid: (length, sorted(pos)) for mid, length, pos in sc.refs}
    qrys = {mid: (length, sorted(pos)) for mid, length, pos in sc.queries}
    return refs, qrys


def rows_of(lines):
    names = ["XmapEntryID", "QryContigID", "RefContigID", "QryStartPos", "QryEndPos", "RefStartPos", "RefEndPos",
             "Orientation", "Confidence", "HitEnum", "QryLen", "RefLen", "AlignedRest", "LabelChannel", "Alignment"]
    out = []
    for l in lines:
        f = l.split("\t")
        d = dict(zip(names, f))
        d["_n"] = len(f)
        d["_pairs"] = cmapio.parse_pairs(d.get("Alignment", ""))
        out.append(d)
    return out


# ---------------------------------------------------------------- C01
def c01_record(rec, refs, qrys):
    ps = rec["_pairs"]
    if not ps:
        return "record without any pair"
    rid, qid = int(rec["RefContigID"]), int(rec["QryContigID"])
    if rid not in refs or qid not in qrys:
        return "record names a molecule that is not in the input"
    nr, nq = len(refs[rid][1]), len(qrys[qid][1])
    for r, q in ps:
        if not (1 <= r <= nr) or not (1 <= q <= nq):
            return f"pair ({r},{q}) names a label that does not exist"
    rs = [p[0] for p in ps]
    qs = [p[1] for p in ps]
    if len(set(rs)) != len(rs):
        return "a reference label is used twice"
    if len(set(qs)) != len(qs):
        return "a query label is used twice"
    if any(a >= b for a, b in zip(rs, rs[1:])):
        return "pairs not in strictly ascending reference order"
    rev = rec["Orientation"] == "-"
    if any((a <= b) if rev else (a >= b) for a, b in zip(qs, qs[1:])):
        return "query label numbers not strictly monotone in the direction of the orientation"
    return None


# ---------------------------------------------------------------- C02
def f1(x):
    return "{:.1f}".format(x)


def c02_record(rec, idx, refs, qrys):
    if rec["_n"] != 15:
        return f"{rec['_n']} columns"
    if int(rec["XmapEntryID"]) != idx:
        return f"XmapEntryID {rec['XmapEntryID']} at position {idx}"
    if rec["Orientation"] not in "+-" or len(rec["Orientation"]) != 1:
        return "Orientation is neither + nor -"
    rid, qid = int(rec["RefContigID"]), int(rec["QryContigID"])
    if rid not in refs or qid not in qrys:
        return "ids do not name input maps"
    rlen, rpos = refs[rid]
    qlen, qpos = qrys[qid]
    if rec["RefLen"] != f1(int(rlen)):
        return f"RefLen {rec['RefLen']} != {f1(int(rlen))}"
    if rec["QryLen"] != f1(qpos[-1] - qpos[0] + 1):
        return f"QryLen {rec['QryLen']} != last-first+1 = {f1(qpos[-1] - qpos[0] + 1)}"
    ps = rec["_pairs"]
    if not ps or c01_record(rec, refs, qrys):
        return None  # only valid records are judged here (C01 judges validity)
    if rec["RefStartPos"] != f1(rpos[ps[0][0] - 1]) or rec["RefEndPos"] != f1(rpos[ps[-1][0] - 1]):
        return "RefStartPos/RefEndPos are not the coordinates of the first/last listed reference labels"
    rev = rec["Orientation"] == "-"
    if not rev:
        s, e = qpos[ps[0][1] - 1] - qpos[0], qpos[ps[-1][1] - 1] - qpos[0]
    else:
        # offsets from the last label; Start belongs to the pair that is last in reference order
        s, e = qpos[-1] - qpos[ps[-1][1] - 1], qpos[-1] - qpos[ps[0][1] - 1]
    if rec["QryStartPos"] != f1(s) or rec["QryEndPos"] != f1(e):
        return f"QryStartPos/QryEndPos {rec['QryStartPos']}/{rec['QryEndPos']} != {f1(s)}/{f1(e)}"
    if (not rev and not s <= e) or (rev and not s >= e):
        return "QryStartPos/QryEndPos order does not match the orientation"
    return None


# ---------------------------------------------------------------- C03
def c03_record(rec):
    ps = rec["_pairs"]
    if not ps:
        return None
    return O.oracle_cigar_pairs(ps, rec["Orientation"] == "-", rec["HitEnum"])


# ---------------------------------------------------------------- C05
def c05_unique(rows, what):
    ids = [int(r["QryContigID"]) for r in rows]
    if len(set(ids)) != len(ids):
        return f"{what}: more than one record for a query"
    return None


# ---------------------------------------------------------------- C08
def key_row(r):
    return tuple(r[k] for k in ("QryContigID", "RefContigID", "QryStartPos", "QryEndPos", "RefStartPos", "RefEndPos",
                                "Orientation", "Confidence", "HitEnum", "QryLen", "RefLen", "AlignedRest", "Alignment"))


def find_candidate(results, rec):
    """the captured candidate row object behind a first-/second-pass file record"""
    want = rec["_pairs"]
    for mode, r in results.items():
        for c in r.get("cands", []):
            row = c["row"]
            if c["qid"] == int(rec["QryContigID"]) and c["ref"] == int(rec["RefContigID"]):
                ps = [(p.reference.siteId, p.query.siteId) for p in row.alignedPairs]
                if ps == want:
                    return c
    return None


def valid_union(p1, p2, rev):
    u = sorted(set(p1) | set(p2))
    rs = [p[0] for p in u]
    qs = [p[1] for p in u]
    if len(set(rs)) != len(rs) or len(set(qs)) != len(qs):
        return None
    if any((a <= b) if rev else (a >= b) for a, b in zip(qs, qs[1:])):
        return None
    return u


def c08_run(sc, results):
    """cross-mode oracle; returns list of (message, signature, where)"""
    out = []
    need = ("separate", "joined", "all")
    if any(m not in results or results[m]["real"]["error"] for m in need):
        return out
    S, J, A = (results[m]["rows"] for m in need)
    k = lambda rows: [key_row(r) for r in rows]
    if k(A.get(0, [])) != k(J.get(0, [])):
        out.append(("main file of 'all' differs from main file of 'joined'", None, "all/joined"))
    if k(A.get(1, [])) != k(S.get(0, [])):
        out.append(("_1 file of 'all' differs from main file of 'separate'", None, "all_1/separate"))
    if k(A.get(2, [])) != k(S.get(1, [])):
        out.append(("_2 file of 'all' differs from _1 file of 'separate'", None, "all_2/separate_1"))
    if any(r["AlignedRest"] != "False" for r in S.get(0, [])) or any(r["AlignedRest"] != "True" for r in S.get(1, [])):
        out.append(("AlignedRest flags of the first/second-pass files are not False/True", None, "flags"))
    S1, S2 = S.get(0, []), S.get(1, [])
    joined, unjoined = J.get(0, []), J.get(1, [])
    unj = k(unjoined)
    maxdiff = int(sc.extra_args.get("-diff", 100000))
    for r in S1 + S2:
        kr = key_row(r)
        in_unj = kr in unj
        js = [j for j in joined if j["QryContigID"] == r["QryContigID"] and j["RefContigID"] == r["RefContigID"]]
        if in_unj == bool(js) or len(js) > 1:
            out.append((f"single-pass record of query {r['QryContigID']} is {'both un-joined and joined' if in_unj else 'neither un-joined nor part of exactly one joined record'}",
                        None, "partition"))
    for j in joined:
        p1 = [r for r in S1 if r["QryContigID"] == j["QryContigID"] and r["RefContigID"] == j["RefContigID"]]
        p2 = [r for r in S2 if r["QryContigID"] == j["QryContigID"] and r["RefContigID"] == j["RefContigID"]]
        if len(p1) != 1 or len(p2) != 1:
            out.append((f"joined record of query {j['QryContigID']} does not have one first- and one second-pass part", None, "parts"))
            continue
        a, b = p1[0], p2[0]
        if a["Orientation"] != b["Orientation"] or j["Orientation"] != a["Orientation"]:
            out.append(("joined record from parts of different orientation", None, "eligibility"))
        gap = abs(max(float(a["RefStartPos"]), float(b["RefStartPos"])) - min(float(a["RefEndPos"]), float(b["RefEndPos"])))
        if gap > maxdiff:
            out.append((f"joined although the reference gap {gap} exceeds maxDifference {maxdiff}", None, "eligibility"))
        if not set(j["_pairs"]) <= set(a["_pairs"]) | set(b["_pairs"]):
            out.append(("joined record has a pair that is in neither part", None, "subset"))
        u = valid_union(a["_pairs"], b["_pairs"], j["Orientation"] == "-")
        if u is not None and sorted(j["_pairs"]) != u:
            sig = None
            ca, cb = find_candidate(results, a), find_candidate(results, b)
            nseg = [len([s for s in c["row"].segments if s.positions]) if c else None for c in (ca, cb)]
            if ca and cb:
                import codec
                sig = O.join_union_signature(O.parse_segs(codec.show_segs(ca["row"].segments)), O.parse_segs(codec.show_segs(cb["row"].segments)))
            out.append((f"union of the parts of query {j['QryContigID']} is a valid matching ({len(u)} pairs) but the joined record has {len(j['_pairs'])} pairs; part segments {nseg}",
                        sig, "union"))
    return out


# ---------------------------------------------------------------- C18 (read-back of every written file)
def c18_file(rows, rb, refs, qrys, pair_coordinates=True):
    if "error" in rb:
        return f"the project's XMAP reader fails on a file COMA wrote: {rb['error']}"
    als = rb["alignments"]
    if len(als) != len(rows):
        return f"{len(als)} alignments read back from {len(rows)} records"
    for rec, a in zip(rows, als):
        if (a["id"], a["q"], a["r"]) != (int(rec["XmapEntryID"]), int(rec["QryContigID"]), int(rec["RefContigID"])):
            return "ids differ after read-back"
        if a["rev"] != (rec["Orientation"] == "-") or a["hit"] != rec["HitEnum"]:
            return f"orientation / HitEnum differ after read-back ({a['hit']!r} vs {rec['HitEnum']!r})"
        for k, col in (("qs", "QryStartPos"), ("qe", "QryEndPos"), ("rs", "RefStartPos"), ("re", "RefEndPos"),
                       ("ql", "QryLen"), ("rl", "RefLen")):
            if a[k] != int(float(rec[col])):
                return f"{col} reads back as {a[k]}, written {rec[col]}"
        if abs(a["conf"] - float(rec["Confidence"])) > 1e-9:
            return "confidence differs after read-back"
        if [(p[0], p[2]) for p in a["pairs"]] != rec["_pairs"]:
            return "label pairs differ after read-back"
        if not pair_coordinates:
            continue
        rpos = refs[a["r"]][1]
        qpos = qrys[a["q"]][1]
        for (rs, rp, qs, qp) in a["pairs"]:
            if rp != rpos[rs - 1] or qp != qpos[qs - 1] - qpos[0]:
                return "pair coordinates are not those of the named labels"
    return None


# ---------------------------------------------------------------- C04 (confidence recomputed from raw maps)
def c04_candidate(c, sc):
    """c: captured candidate {row, query, reference}; recompute every segment's score from the
    raw coordinates, the segment's peak and the parameters the harness passed"""
    from src.alignment.alignment_position import AlignedPair, NotAlignedQueryPosition, NotAlignedReferencePosition, ScoredNotAlignedPosition
    P = sc.P
    row, q, ref = c["row"], c["query"], c["reference"]
    refs = {mid: sorted(pos) for mid, _, pos in sc.refs}
    qr = {mid: sorted(pos) for mid, _, pos in sc.queries}
    rpos = refs[int(ref.moleculeId)]
    qfull = qr[int(q.moleculeId)]
    qtrim = [p - qfull[0] for p in qfull]
    qlen = qtrim[-1] + 1
    rev = row.reverseStrand
    total = 0
    for seg in row.segments:
        if not seg.positions:
            continue
        peak = int(seg.peak.position)
        seen_r, seen_q = set(), set()
        span = []
        for p in seg.positions:
            inner = p.position if isinstance(p, ScoredNotAlignedPosition) else p
            if isinstance(inner, AlignedPair):
                rs, qs = inner.reference.siteId, inner.query.siteId
                if not (1 <= rs <= len(rpos) and 1 <= qs <= len(qtrim)):
                    return "a pair names a label that does not exist"
                rp = rpos[rs - 1]
                qp = (qlen - 1 - qtrim[qs - 1]) if rev else qtrim[qs - 1]
                off = qp - (rp - peak)
                if abs(off) > P["md"]:
                    return f"pair offset {off} exceeds maxPairDistance {P['md']}"
                total += P["sp"] - P["dp"] * abs(off)
                key_r, key_q = rs, qs
                span.append(rp)
            elif isinstance(inner, NotAlignedReferencePosition):
                key_r, key_q = inner.reference.siteId, None
                total += P["su"]
                span.append(rpos[key_r - 1])
            else:
                key_r, key_q = None, inner.query.siteId
                total += P["su"]
                qp = (qlen - 1 - qtrim[key_q - 1]) if rev else qtrim[key_q - 1]
                span.append(qp + peak)
            if key_r is not None:
                if key_r in seen_r:
                    return "a reference label is counted twice in one segment"
                seen_r.add(key_r)
            if key_q is not None:
                if key_q in seen_q:
                    return "a query label is counted twice in one segment"
                seen_q.add(key_q)
        lo, hi = min(span), max(span)
        for i, rp in enumerate(rpos, 1):
            if lo < rp < hi and i not in seen_r:
                return f"reference label {i} inside a segment's span is not accounted for"
        nq = len(qtrim)
        lo_site = q.shift + 1
        hi_site = q.shift + len(q.positions)
        for i in range(lo_site, hi_site + 1):
            qp = (qlen - 1 - qtrim[i - 1]) if rev else qtrim[i - 1]
            if lo < qp + peak < hi and i not in seen_q:
                return f"query label {i} inside a segment's span is not accounted for"
    if abs(float(row.confidence) - total) > 1e-6:
        return f"confidence {row.confidence} is not the configured score of what is reported ({total})"
    return None


# ---------------------------------------------------------------- C05 (cross-file)
def c05_run(sc, results):
    out = []
    for m, r in results.items():
        if r["real"]["error"]:
            continue
        for fno, rows in r["rows"].items():
            if fno == 0 or m in ("separate", "all"):
                ids = [int(x["QryContigID"]) for x in rows]
                if len(set(ids)) != len(ids):
                    out.append((f"mode {m} file {fno}: more than one record for one query", None, f"{m}/{fno}"))
                if fno == 0 and m != "joined" and ids != sorted(ids):
                    out.append((f"mode {m} main file: records not in ascending query id order", None, f"{m}/0"))
    peaks_count = int(sc.extra_args.get("-p", 3))
    nlab = {mid: len(pos) for mid, _, pos in sc.queries}
    for m, r in results.items():
        out.extend(seed_selection(sc, r["real"], m))
    # the first-pass file: the main file of 'separate', file _1 of 'all'
    first_by_mode = {}
    for fmode, ffile in (("separate", 0), ("all", 1)):
        if fmode not in results or results[fmode]["real"]["error"]:
            continue
        r = results[fmode]
        first = {int(x["QryContigID"]): x for x in r["rows"].get(ffile, [])}
        first_by_mode[fmode] = first
        tag = f"{fmode}/{ffile}"
        byq = {}
        for c in r["cands"]:
            if c["shift"] == 0 and c["n"] == nlab.get(c["qid"]):
                byq.setdefault(c["qid"], {}).setdefault(c["idx"], c)   # first pass = whole query
        for qid, cs in byq.items():
            if len(cs) > peaks_count:
                out.append((f"query {qid}: {len(cs)} seed peaks used, peaksCount is {peaks_count}", None, "peaksCount"))
            best = None
            for idx in sorted(cs):
                c = cs[idx]
                if best is None or c["row"].confidence > best["row"].confidence:
                    best = c
            has_pairs = bool(best["row"].alignedPairs)
            rec = first.get(qid)
            if has_pairs != (rec is not None):
                out.append((f"query {qid}: best candidate has pairs={has_pairs} but record present={rec is not None} in the first-pass file ({tag})", None, "best"))
            elif rec is not None:
                ps = [(p.reference.siteId, p.query.siteId) for p in best["row"].alignedPairs]
                if rec["_pairs"] != ps or rec["Confidence"] != "{:.2f}".format(best["row"].confidence):
                    out.append((f"query {qid}: the first-pass record ({tag}) is not the highest-confidence candidate", None, "best"))
        for qid in first:
            if qid not in byq:
                out.append((f"query {qid}: record in the first-pass file ({tag}) without any candidate", None, "best"))
    if "separate" in first_by_mode:
        r = results["separate"]
        first = first_by_mode["separate"]
        if "best" in results and not results["best"]["real"]["error"]:
            ids_best = [int(x["QryContigID"]) for x in results["best"]["rows"].get(0, [])]
            want = sorted(set(first) | {int(x["QryContigID"]) for x in r["rows"].get(1, [])})
            if ids_best != want:
                out.append((f"'best' mode lists queries {ids_best}, queries with an alignment are {want}", None, "best-mode"))
    return out


# ---------------------------------------------------------------- C07
def c07_wellformed(text):
    """a written XMAP: header block then zero or more 15-column records"""
    lines = text.split("\n")
    if lines and lines[-1] == "":
        lines.pop()
    hdr = [l for l in lines if l.startswith("#")]
    data = [l for l in lines if not l.startswith("#")]
    if not any(l.startswith("#h") for l in hdr) or not any(l.startswith("#f") for l in hdr):
        return "header lines #h / #f missing"
    for l in data:
        if len(l.split("\t")) != 15:
            return f"record with {len(l.split(chr(9)))} columns"
    return None


def seed_selection(sc, real, mode=""):
    """C05 / C16, between the primary and the secondary stage: for every molecule (whole query or second-pass fragment)
    the seeds that were refined and aligned are exactly the peaksCount highest-scoring primary peaks over all
    references and both strands, in descending score order (ties: order of arrival, which is reference by reference,
    forward strand first).  Uses every primary correlation the worker dispatched (PrimaryCatcher) and every refined
    seed (SeedCatcher); independent of the model."""
    if real.get("error") or "primary" not in real:
        return []
    count = int(sc.extra_args.get("-p", 3))
    margin = int(sc.extra_args.get("-ma", 16000))
    out = []
    nref = len(sc.refs)
    prim = {}
    for x in real["primary"]:
        prim.setdefault((x["qid"], x["shift"], x["n"]), []).append(x)
    seeds = {}
    for s in real["seeds"]:
        if "cstart" not in s:
            return []
        seeds.setdefault((s["qid"], s["shift"], s["n"]), []).append(s)
    for key, items in prim.items():
        # one molecule can be processed more than once under the same key (a second-pass fragment that is the whole
        # molecule again): split both captures into rounds, in arrival order
        per = 2 * nref
        if per == 0 or len(items) % per:
            continue            # a run that aborted in the middle of a query / references filtered by -rId
        prounds = [items[i:i + per] for i in range(0, len(items), per)]
        srounds = []
        for s in seeds.get(key, []):
            if s["idx"] == 0 or not srounds:
                srounds.append([])
            srounds[-1].append(s)
        # rounds without any seed leave no trace in the seed capture: only compare when the two captures line up
        with_peaks = [r for r in prounds if any(it["peaks"] for it in r)]
        if len(with_peaks) != len(srounds):
            continue
        for rnd, got_s in zip(with_peaks, srounds):
            allp = []
            for i, it in enumerate(rnd):
                rev = bool(i % 2)   # dispatched forward, then reverse, per reference
                for pos, score in it["peaks"]:
                    allp.append((it["ref"], rev, pos, score))
            want = sorted(allp, key=lambda p: -p[3])[:count]            # stable
            got = [(s["ref"], bool(s["rev"]), s["cstart"] + margin) for s in sorted(got_s, key=lambda s: s["idx"])]
            if got != [(a, b, c) for a, b, c, d in want]:
                out.append((f"query {key[0]} (labels {key[1]}+{key[2]}): seeds refined {got} are not the {count} highest-scoring primary "
                            f"peaks in descending order {[(a, b, c) for a, b, c, d in want]}", None, f"{mode}/seeds"))
    for key in seeds:
        if key not in prim:
            out.append((f"query {key[0]}: seeds were refined although no primary correlation was dispatched", None, f"{mode}/seeds"))
    return out


XMAP_NAMES = ["XmapEntryID", "QryContigID", "RefContigID", "QryStartPos", "QryEndPos", "RefStartPos", "RefEndPos", "Orientation",
              "Confidence", "HitEnum", "QryLen", "RefLen", "AlignedRest", "LabelChannel", "Alignment"]


def header_oracle(header, data):
    """C07 / C18: a written XMAP file is well-formed — host and argument echo lines, a version line, the two source lines,
    one `#h` line naming exactly the columns of the data lines (all the reader needs among them), one `#f` line of the
    same width, nothing else; every data line has that many fields"""
    if len(header) < 2 or not header[0].startswith("# hostname=") or not header[1].startswith("# coma "):
        return "the first two header lines are not the host-name and argument echo"
    rest = header[2:]
    hs = [l for l in rest if l.startswith("#h")]
    fs = [l for l in rest if l.startswith("#f")]
    if len(hs) != 1 or len(fs) != 1:
        return "not exactly one #h and one #f line"
    if rest.index(fs[0]) != rest.index(hs[0]) + 1 or rest[-1] != fs[0]:
        return "#h / #f are not the last two header lines, in that order"
    names = hs[0].split("\t")[1:]
    if names != XMAP_NAMES:
        return f"column names {names} are not the XMAP columns"
    if len(fs[0].split("\t")) != len(hs[0].split("\t")):
        return "#f line and #h line differ in width"
    if not any(l.startswith("# XMAP File Version:") for l in rest):
        return "no XMAP version line"
    for l in data:
        if len(l.split("\t")) != len(names):
            return f"a data line has {len(l.split(chr(9)))} fields, the header names {len(names)} columns"
    return None


def c02_record_frac(rec, idx, refs, qrys, tol=0.051):
    """C02 for inputs whose coordinates carry one decimal (real CMAP files): the same clauses as `c02_record`, the written
    one-decimal numbers compared numerically (half a unit of the last written digit, plus float slack)"""
    def near(a, b):
        return abs(float(a) - float(b)) <= tol
    if rec["_n"] != 15:
        return f"{rec['_n']} columns"
    rid, qid = int(rec["RefContigID"]), int(rec["QryContigID"])
    if rid not in refs or qid not in qrys:
        return "ids do not name input maps"
    rlen, rpos = refs[rid]
    qlen, qpos = qrys[qid]
    if not near(rec["RefLen"], int(rlen)):
        return f"RefLen {rec['RefLen']} != {int(rlen)}"
    if not near(rec["QryLen"], qpos[-1] - qpos[0] + 1):
        return f"QryLen {rec['QryLen']} != last-first+1 = {qpos[-1] - qpos[0] + 1:.1f}"
    ps = rec["_pairs"]
    if not ps or c01_record(rec, refs, qrys):
        return None
    if not near(rec["RefStartPos"], rpos[ps[0][0] - 1]) or not near(rec["RefEndPos"], rpos[ps[-1][0] - 1]):
        return "RefStartPos/RefEndPos are not the coordinates of the first/last listed reference labels"
    rev = rec["Orientation"] == "-"
    if not rev:
        s, e = qpos[ps[0][1] - 1] - qpos[0], qpos[ps[-1][1] - 1] - qpos[0]
    else:
        s, e = qpos[-1] - qpos[ps[-1][1] - 1], qpos[-1] - qpos[ps[0][1] - 1]
    if not near(rec["QryStartPos"], s) or not near(rec["QryEndPos"], e):
        return f"QryStartPos/QryEndPos {rec['QryStartPos']}/{rec['QryEndPos']} != {s:.1f}/{e:.1f}"
    if float(rec["QryStartPos"]) < -tol or float(rec["QryEndPos"]) < -tol:
        return "a query coordinate of the record is negative"
    return None
