"""Shared machinery of ./check: Lean build + audit, correspondence streams, oracles, verdict,
known findings, evidence."""
from __future__ import annotations

import hashlib
import json
import os
import re
import subprocess
import sys
import time

HERE = os.path.dirname(os.path.abspath(__file__))
VERIF = os.path.dirname(HERE)
OUT = os.environ.get("VERIF_OUT", VERIF)  # where evidence/ and replays/ are written (seeded-change runs use a scratch dir)
LEAN_DIR = os.path.join(VERIF, "lean")
sys.path.insert(0, HERE)

import proto  # noqa: E402

ALLOWED_AXIOMS = {"propext", "Classical.choice", "Quot.sound"}
FORBIDDEN = re.compile(r"\b(sorry|admit|native_decide|bv_decide|implemented_by)\b|^\s*axiom\s|unsafe\s|maxHeartbeats\s+0")
TRUSTED_BASE = [
    "Lean 4.33.0 kernel",
    "axioms: propext, Classical.choice, Quot.sound only (audited by #print axioms on every theorem of the property file)",
    "Mathlib v4.33.0 single modules in Proofs/ only (tactics: linarith, positivity, ring; no model file imports Mathlib)",
    "hand-written Lean model Coma/*.lean; fidelity checked on every run by the correspondence streams (only on the inputs generated)",
    "Python harness: generators, canonicalisation, diff, oracles, known-finding classifiers",
    "modelled-not-verified: the PRIMARY seeding stage (float normalised FFT correlation + find_peaks with height/distance; parameter of the model: the selected primary peaks), scipy.signal.correlate on integer arrays and find_peaks(height, prominence) of the SECONDARY stage (executable contract in Coma/Peaks.lean, run against the real scipy on every invocation), numpy argpartition order when more than ten secondary peaks pass (taken from the real run after a consistency check), pathos p_imap (order-preserving map), pandas read_csv/to_csv tokenisation, difflib block matching (matched-size contract), IEEE float arithmetic on fractional coordinates",
]


class Harness(Exception):
    pass


# ---------------------------------------------------------------------------- Lean side
def strip_comments(src: str) -> str:
    out, i, depth = [], 0, 0
    while i < len(src):
        if src.startswith("/-", i):
            depth += 1
            i += 2
        elif src.startswith("-/", i) and depth:
            depth -= 1
            i += 2
        elif depth:
            i += 1
        elif src.startswith("--", i):
            j = src.find("\n", i)
            i = len(src) if j < 0 else j
        else:
            out.append(src[i])
            i += 1
    return "".join(out)


def lean_files(prop_id=None):
    """all Lean sources, or (with prop_id) the transitive project-local imports of Props/<id>.lean"""
    if prop_id is None:
        fs = []
        for d in ("Coma", "Proofs", "Props"):
            for root, _, names in os.walk(os.path.join(LEAN_DIR, d)):
                for n in sorted(names):
                    if n.endswith(".lean"):
                        fs.append(os.path.join(root, n))
        return fs
    seen, todo = [], [os.path.join(LEAN_DIR, "Props", f"{prop_id}.lean")]
    while todo:
        f = todo.pop()
        if f in seen or not os.path.exists(f):
            continue
        seen.append(f)
        for m in re.finditer(r"^import\s+((?:Coma|Proofs|Props)[A-Za-z0-9_.]*)", open(f).read(), flags=re.M):
            todo.append(os.path.join(LEAN_DIR, *m.group(1).split(".")) + ".lean")
    return sorted(seen)


def grep_forbidden(prop_id=None):
    hits = []
    for f in lean_files(prop_id):
        code = strip_comments(open(f).read())
        for ln, line in enumerate(code.split("\n"), 1):
            if FORBIDDEN.search(line):
                hits.append(f"{os.path.relpath(f, LEAN_DIR)}:{ln}: {line.strip()[:120]}")
    return hits


def theorems_of(prop_id):
    p = os.path.join(LEAN_DIR, "Props", f"{prop_id}.lean")
    if not os.path.exists(p):
        return []
    code = strip_comments(open(p).read())
    return re.findall(r"^theorem\s+([A-Za-z0-9_'.]+)", code, flags=re.M)


def lean_status(prop_id, tier="quick"):
    """build everything, audit the property's theorems (thorough tier: also re-check the compiled property module and
    everything it imports with `leanchecker`, Lean's independent checker of .olean files). Returns dict."""
    t0 = time.time()
    st = {"build_ok": False, "theorems": [], "axioms": {}, "bad_axioms": {}, "forbidden": [], "log": ""}
    r = subprocess.run(["lake", "build"], cwd=LEAN_DIR, capture_output=True, text=True)
    st["log"] = (r.stdout + r.stderr)[-4000:]
    st["build_ok"] = r.returncode == 0
    st["forbidden"] = grep_forbidden(prop_id)
    st["files"] = [os.path.relpath(f, LEAN_DIR) for f in lean_files(prop_id)]
    ths = theorems_of(prop_id)
    st["theorems"] = ths
    if st["build_ok"] and ths:
        src = f"import Props.{prop_id}\n" + "\n".join(f"#print axioms Coma.Props.{t}" for t in ths) + "\n"
        tmp = os.path.join(LEAN_DIR, f".audit_{prop_id}_{os.getpid()}.lean")
        open(tmp, "w").write(src)
        try:
            a = subprocess.run(["lake", "env", "lean", tmp], cwd=LEAN_DIR, capture_output=True, text=True)
        finally:
            os.remove(tmp)
        out = a.stdout + a.stderr
        for m in re.finditer(r"'Coma\.Props\.([^']+)' (?:depends on axioms: \[([^\]]*)\]|does not depend on any axioms)", out):
            name, axs = m.group(1), m.group(2)
            ax = [x.strip() for x in axs.replace("\n", " ").split(",")] if axs else []
            st["axioms"][name] = ax
            bad = [x for x in ax if x not in ALLOWED_AXIOMS]
            if bad:
                st["bad_axioms"][name] = bad
        missing = [t for t in ths if t not in st["axioms"]]
        if missing or a.returncode != 0:
            st["build_ok"] = False
            st["log"] += "\nAUDIT: " + out[-2000:]
    if tier == "thorough" and st["build_ok"]:
        c = subprocess.run(["lake", "env", "leanchecker", f"Props.{prop_id}"], cwd=LEAN_DIR, capture_output=True, text=True)
        st["leanchecker"] = "ok" if c.returncode == 0 else "FAILED"
        if c.returncode != 0:
            st["build_ok"] = False
            st["log"] += "\nLEANCHECKER: " + (c.stdout + c.stderr)[-2000:]
    st["wall"] = time.time() - t0
    st["ok"] = bool(st["build_ok"] and not st["forbidden"] and not st["bad_axioms"] and ths)
    return st


# ---------------------------------------------------------------------------- known findings
def known_findings():
    p = os.path.join(VERIF, "KNOWN_FINDINGS.txt")
    out = []
    if os.path.exists(p):
        for line in open(p):
            line = line.strip()
            if line.startswith("known:"):
                kv = dict(t.split("=", 1) for t in line[6:].split() if "=" in t)
                out.append({"property": kv.get("property"), "id": kv.get("id"), "signature": kv.get("signature"),
                            "text": line})
    return out


# ---------------------------------------------------------------------------- run context
class Run:
    def __init__(self, prop_id, tier, seed):
        self.prop = prop_id
        self.tier = tier
        self.seed = seed
        self.t0 = time.time()
        self.evaluations = 0
        self.nontrivial = set()
        self.samples = []
        self.dist = {}
        self.disagreements = []      # (stream, line, real, model)
        self.failures = []           # (stream, line, real, message, signature)
        self.known_hits = {}         # id -> [message]
        self.streams = {}
        self.notes = []
        self.numerically_ambiguous = 0
        self.pass_no = 0             # > 0: an extra pass after a source change (exhaustive streams are not repeated)

    def count(self, key, n=1):
        self.dist[key] = self.dist.get(key, 0) + n

    def stream(self, name, lines, oracle=None, trivial=lambda line, out: out in ("", "E", "none") or out.startswith("ERR"),
               classify=None, compare_model=True):
        """run a correspondence stream: real + model + oracle on every real output"""
        if self.pass_no > 0 and name.endswith("-exhaustive"):
            return [], []
        lines = list(lines)
        if not lines:
            return [], []
        t = time.time()
        real = proto.run_real(lines)
        # an operation that hit the time limit is run once more, alone, with eight times the limit: only an operation that
        # still does not return counts as `ERR Timeout` (the unchanged code needs milliseconds for every operation)
        late = [i for i, r in enumerate(real) if r == "ERR Timeout"][:4]
        if late:
            again = proto.run_real_slow([lines[i] for i in late])
            for i, o in zip(late, again):
                real[i] = o[0]
                self.count("reran_after_timeout")
        model = proto.run_model(lines) if compare_model else [None] * len(lines)
        nd = 0
        for i, l in enumerate(lines):
            r = real[i]
            if r == "SKIP":
                self.count("skipped_after_runaway_ops")
                continue
            self.evaluations += 1
            if not trivial(l, r):
                self.nontrivial.add(hashlib.md5((l + "\0" + r).encode()).digest()[:8])
            if r.startswith("ERR"):
                self.count("err:" + r[4:])
            if compare_model and r != proto.strip_model_only(model[i]):
                nd += 1
                self.disagreements.append((name, l, r, model[i]))
            if oracle is not None:
                try:
                    msg = oracle(l, r)
                except Exception:
                    if not r.startswith("ERR"):
                        raise
                    msg = f"exception {r}"      # the real operation raised where the oracle expects a value
                if msg:
                    sig = classify(l, r, model[i], msg) if classify else None
                    # a known finding is the behaviour of the UNCHANGED code, which the model mirrors:
                    # the signature only counts when the model reproduces this very output
                    if sig and compare_model and r != proto.strip_model_only(model[i]):
                        sig = None
                    self.failures.append((name, l, r, msg, sig))
        if len(self.samples) < 12:
            k = len(lines) // 2
            self.samples.append({"stream": name, "op": lines[k][:600], "real_output": real[k][:400]})
        prev = self.streams.get(name, {"ops": 0, "disagreements": 0, "wall_s": 0})
        self.streams[name] = {"ops": prev["ops"] + len(lines), "disagreements": prev["disagreements"] + nd,
                              "wall_s": round(prev["wall_s"] + time.time() - t, 2)}
        return real, model

    def fail(self, stream, item, real, msg, sig=None):
        self.failures.append((stream, item, real, msg, sig))

    def disagree(self, stream, item, real, model):
        self.disagreements.append((stream, item, real, model))


def default_search(run):
    """a proof obligation or the correspondence broke but the quick streams showed no failing input:
    re-run the property's streams at the thorough bounds, time-boxed, and return the first input on
    which the model-independent oracle says the property fails (and that is not a known finding)."""
    import signal
    import random
    try:
        import props
    except Exception:
        return None
    reg = props.REGISTRY.get(run.prop)
    if not reg or run.tier == "thorough":
        return None
    budget = int(os.environ.get("VERIF_SEARCH_S", "90"))
    deep = Run(run.prop, "thorough", run.seed)

    class _Timeout(BaseException):      # not an Exception: must not be mistaken for an error of the code under test
        harness_interrupt = True        # e2e.run_real re-raises it instead of recording it as an abort of the run

    def _alarm(*a):
        raise _Timeout()
    old = signal.signal(signal.SIGALRM, _alarm)
    signal.alarm(budget)
    try:
        reg["run"](deep, random.Random(run.seed * 7919 + 13))
    except _Timeout:
        pass
    except Exception:
        pass
    finally:
        signal.alarm(0)
        signal.signal(signal.SIGALRM, old)
    run.notes.append(f"failing-input search after a broken proof/correspondence: {deep.evaluations} further evaluations, "
                     f"{len(deep.failures)} oracle failures")
    kf = [k for k in known_findings() if k["property"] == run.prop]
    for (stream, line, real, msg, sig) in deep.failures:
        if not any(sig and k["signature"] == sig for k in kf):
            return (stream, line, real, msg)
    return None


def write_replay(prop, kind, payload):
    os.makedirs(os.path.join(OUT, "replays"), exist_ok=True)
    h = hashlib.md5(json.dumps(payload, sort_keys=True, default=str).encode()).hexdigest()[:10]
    p = os.path.join(OUT, "replays", f"{prop}-{kind}-{h}.json")
    with open(p, "w") as f:
        json.dump(payload, f, indent=1, default=str)
    return p


def finish(run: Run, lean, level_text, rule, assumptions, extra_cov=None, search=None):
    """verdict + evidence. Returns exit code."""
    kf = [k for k in known_findings() if k["property"] == run.prop]
    violations = []
    known_printed = {}
    for (stream, line, real, msg, sig) in run.failures:
        hit = next((k for k in kf if sig and k["signature"] == sig), None)
        if hit:
            known_printed.setdefault(hit["id"], (hit, msg, line))
        else:
            violations.append((stream, line, real, msg))
    for kid, (hit, msg, line) in known_printed.items():
        print(f"KNOWN-FINDING: property={run.prop} {kid} {hit['signature']}: {msg[:200]}")

    exit_code = 0
    replay_paths = []
    if violations:
        violations.sort(key=lambda v: len(str(v[1])))
        stream, line, real, msg = violations[0]
        p = write_replay(run.prop, "violation", {"property": run.prop, "kind": "failing-input", "stream": stream,
                                                 "input": line, "real_output": real, "what_fails": msg,
                                                 "how_to_replay": f"./check {run.prop} --replay <this file>",
                                                 "n_failing_inputs": len(violations), "seed": run.seed})
        replay_paths.append(p)
        print(f"VIOLATION property={run.prop} replay={p}")
        exit_code = 1
    else:
        broken = []
        if not lean["ok"]:
            why = []
            if not lean["build_ok"]:
                why.append("lake build / audit failed")
            if lean["forbidden"]:
                why.append("forbidden tokens: " + "; ".join(lean["forbidden"][:3]))
            if lean["bad_axioms"]:
                why.append(f"non-standard axioms: {lean['bad_axioms']}")
            if not lean["theorems"]:
                why.append("no theorem found for this property")
            broken.append({"what": "proof obligation", "detail": why, "theorems": lean["theorems"], "log": lean["log"][-1500:]})
        if run.disagreements:
            d = sorted(run.disagreements, key=lambda x: len(str(x[1])))[0]
            broken.append({"what": "correspondence", "stream": d[0], "minimal_disagreeing_input": d[1],
                           "real_output": d[2], "model_output": d[3], "n_disagreements": len(run.disagreements)})
        if broken:
            found = search(run) if search else default_search(run)
            if found:
                stream, line, real, msg = found
                p = write_replay(run.prop, "violation", {"property": run.prop, "kind": "failing-input (found by search after a broken proof/correspondence)",
                                                         "stream": stream, "input": line, "real_output": real, "what_fails": msg,
                                                         "broken": broken, "seed": run.seed})
                print(f"VIOLATION property={run.prop} replay={p}")
            else:
                p = write_replay(run.prop, "unproved", {"property": run.prop, "kind": "no-failing-input-found",
                                                        "no_longer_checks": broken, "seed": run.seed,
                                                        "note": "the theorem / correspondence named here no longer checks; the oracle "
                                                                "found no input on which the property fails"})
                print(f"VIOLATION property={run.prop} replay={p} no-failing-input-found")
            replay_paths.append(p)
            exit_code = 1

    cov = {
        "obligations": len(lean["theorems"]),
        "discharged": len([t for t in lean["theorems"] if t in lean["axioms"] and t not in lean["bad_axioms"]]) if lean["build_ok"] else 0,
        "checker_cmd": f"cd lean && lake build && lake env lean <(#print axioms for every theorem of Props/{run.prop}.lean)",
        "trusted_base": TRUSTED_BASE,
        "theorems": lean["theorems"],
        "axioms_per_theorem": lean["axioms"],
        "forbidden_token_hits": lean["forbidden"],
        "lean_files_audited": lean.get("files", []),
        "evaluations": run.evaluations,
        "distinct_nontrivial": len(run.nontrivial),
        "rule": rule,
        "samples": run.samples[:12] or [{"note": "no correspondence operations in this run"}],
        "correspondence_streams": run.streams,
        "correspondence_disagreements": len(run.disagreements),
        "oracle_failures": len(run.failures),
        "known_findings_matched": sorted(known_printed),
        "distribution": dict(sorted(run.dist.items())),
        "numerically_ambiguous": run.numerically_ambiguous,
        "notes": run.notes,
        "lean_wall_s": round(lean.get("wall", 0), 1),
        "leanchecker": lean.get("leanchecker", "not run (thorough tier only)"),
    }
    if proto.SEC_STATUS:
        # end-to-end RUN lines: how the model obtained each secondary peak list (derived = computed by the model's own
        # `refine` from the selected primary peak; reordered / ambiguous = more than ten peaks passed and numpy's
        # unspecified argpartition order / choice at a tie was taken from the real run after a consistency check)
        cov["secondary_peak_lists"] = dict(proto.SEC_STATUS)
    if extra_cov:
        cov.update(extra_cov)
    ev = {"property_id": run.prop, "tier": run.tier, "seed": run.seed, "level": "proof", "coverage": cov,
          "assumptions": assumptions, "wall_s": round(time.time() - run.t0, 2),
          "violations": 1 if exit_code == 1 else 0, "level_text": level_text, "replays": replay_paths}
    os.makedirs(os.path.join(OUT, "evidence"), exist_ok=True)
    with open(os.path.join(OUT, "evidence", f"{run.prop}.json"), "w") as f:
        json.dump(ev, f, indent=1, default=str)
    print(f"[{run.prop}] tier={run.tier} seed={run.seed} theorems={cov['discharged']}/{cov['obligations']} "
          f"ops={run.evaluations} nontrivial={len(run.nontrivial)} disagreements={len(run.disagreements)} "
          f"oracle_failures={len(run.failures)} known={sorted(known_printed)} exit={exit_code} "
          f"wall={ev['wall_s']}s")
    return exit_code
