"""End-to-end tie: run the REAL `Program` of /repo's working tree on generated CMAP files, capture
the seeds (selected primary peaks + secondary peak lists) through the project's own Extension
API, and build the `RUN` protocol line that makes the Lean model recompute every output file.
"""
from __future__ import annotations

import json
import os
import random
import shutil
import sys
import tempfile

HERE = os.path.dirname(os.path.abspath(__file__))
sys.path.insert(0, HERE)
import os as _os
REPO = _os.environ.get("VERIF_REPO", "/repo")  # scratch worktree for seeded-change runs; registered checks use /repo
sys.path.insert(0, REPO)

import cmapio  # noqa: E402
import gens  # noqa: E402

from src.args import Args  # noqa: E402
from src.extensions.extension import Extension  # noqa: E402
from src.extensions.messages import CorrelationResultMessage  # noqa: E402

MODES = ["best", "separate", "joined", "all"]


class SeedCatcher(Extension):
    messageType = CorrelationResultMessage

    def __init__(self, path):
        self.path = path

    def handle(self, message):
        ia, ra = message.initialAlignment, message.refinedAlignment
        rec = {"qid": int(ia.query.moleculeId), "shift": int(ia.query.shift), "n": len(ia.query.positions),
               "idx": int(message.index), "ref": int(ia.reference.moleculeId), "rev": bool(ia.reverseStrand),
               "peaks": [int(p.position) for p in ra.peaks], "cstart": int(ra.correlationStart),
               "frac": [float(p.position) != int(p.position) for p in ra.peaks]}
        with open(self.path, "a") as f:
            f.write(json.dumps(rec) + "\n")


def serial_imap(fn, items, **kw):
    return map(fn, items)


class Scenario:
    def __init__(self, refs, queries, params=None, extra_args=None, shuffle_seed=None, desc=""):
        self.refs = refs            # [(id, length, [positions])]
        self.queries = queries
        self.P = params or dict(gens.DEFAULT_P)
        self.extra_args = extra_args or {}
        self.shuffle_seed = shuffle_seed
        self.desc = desc

    def to_json(self):
        return {"refs": self.refs, "queries": self.queries, "P": self.P, "extra_args": self.extra_args,
                "shuffle_seed": self.shuffle_seed, "desc": self.desc}

    @staticmethod
    def from_json(d):
        return Scenario([tuple(r) for r in d["refs"]], [tuple(q) for q in d["queries"]], d["P"], d["extra_args"],
                        d.get("shuffle_seed"), d.get("desc", ""))


def cli_args(sc: Scenario, rpath, qpath, opath, mode, cpus=2, rids=None, qids=None):
    P = sc.P
    a = ["-r", rpath, "-q", qpath, "-o", opath, "-pb", "-c", str(cpus),
         "-sp", str(P["sp"]), "-dp", str(P["dp"]), "-su", str(P["su"]), "-d", str(P["md"]),
         "-ms", str(P["ms"]), "-bs", str(P["bs"])]
    if mode != "single":
        a += ["-oM", mode]
    for k, v in sc.extra_args.items():
        a += [k, str(v)]
    if rids:
        a += ["-rId"] + [str(i) for i in rids]
    if qids:
        a += ["-qId"] + [str(i) for i in qids]
    return a


def run_real(sc: Scenario, mode, workdir, serial=True, cpus=2, rids=None, qids=None, tag="o", extensions=None,
             files=None, keep_existing=False):
    """returns dict: files {0: [lines], 1: …}, seeds (list of records), error (class name or None)"""
    import src.workflow_coordinator as wc
    from src.program import Program
    if files is None:
        rpath, qpath = os.path.join(workdir, "r.cmap"), os.path.join(workdir, "q.cmap")
        if not os.path.exists(rpath):
            rng = random.Random(sc.shuffle_seed) if sc.shuffle_seed is not None else None
            cmapio.write_cmap(rpath, sc.refs, rng)
            cmapio.write_cmap(qpath, sc.queries, rng)
    else:
        rpath, qpath = files
    opath = os.path.join(workdir, f"{tag}_{mode}.xmap")
    seedpath = os.path.join(workdir, f"{tag}_{mode}.seeds")
    for p in ((seedpath,) if keep_existing else (seedpath, opath)):
        if os.path.exists(p):
            os.remove(p)
    argv = cli_args(sc, rpath, qpath, opath, mode if mode != "single" else "best", cpus, rids, qids)
    args = Args.parse(argv)
    if mode == "single":
        args.outputMode = "single"
    # the coordinator maps the per-query worker over the queries with one of p_tqdm's pool maps;
    # in serial mode every such name found in the module is replaced by an in-process ordered map
    pool_names = [n for n in ("p_imap", "p_uimap", "p_map", "p_umap") if hasattr(wc, n)]
    old_maps = {n: getattr(wc, n) for n in pool_names}
    if serial:
        for n in pool_names:
            setattr(wc, n, serial_imap)
    err = None
    coordinator_rows = []
    try:
        exts = [SeedCatcher(seedpath)] + list(extensions or [])
        prog = Program(args, exts)
        # what the coordinator hands to `AlignmentResults.create` (before the per-query filter of `Program.run`)
        wobj = getattr(prog, "workflowCoordinator", None)
        if wobj is not None and hasattr(wobj, "execute"):
            orig_execute = wobj.execute

            def _execute(*a, **k):
                rows = orig_execute(*a, **k)
                if isinstance(rows, list):
                    for r in rows:
                        try:
                            coordinator_rows.append((int(r.queryId), int(r.referenceId), bool(r.reverseStrand), "{:.2f}".format(r.confidence),
                                                     bool(getattr(r, "alignedRest", False)),
                                                     ",".join(f"{p.reference.siteId}:{p.query.siteId}" for p in r.alignedPairs)))
                        except Exception:  # noqa
                            pass
                return rows
            try:
                wobj.execute = _execute
            except Exception:  # noqa
                pass
        prog.run()
    except BaseException as e:  # noqa
        if isinstance(e, (KeyboardInterrupt, MemoryError)) or getattr(e, "harness_interrupt", False):
            raise
        err = type(e).__name__
        try:
            args.outputFile.close()
        except Exception:
            pass
    finally:
        for n, f in old_maps.items():
            setattr(wc, n, f)
    out, headers = {}, {}
    base, ext = os.path.splitext(opath)
    for n, p in [(0, opath), (1, f"{base}_1{ext}"), (2, f"{base}_2{ext}")]:
        if os.path.exists(p):
            out[n] = [l.rstrip("\n") for l in open(p) if not l.startswith("#") and l.strip()]
            headers[n] = [l.rstrip("\n") for l in open(p) if l.startswith("#")]
    seeds = [json.loads(l) for l in open(seedpath)] if os.path.exists(seedpath) else []
    return {"files": out, "seeds": seeds, "error": err, "paths": {0: opath, 1: f"{base}_1{ext}", 2: f"{base}_2{ext}"},
            "argv": argv, "headers": headers, "inputs": (os.path.abspath(rpath), os.path.abspath(qpath)),
            "coordinator_rows": coordinator_rows}


def seeds_to_table(seeds):
    tbl = {}
    for s in seeds:
        key = (s["qid"], s["shift"], s["n"])
        tbl.setdefault(key, {})[s["idx"]] = s
    return tbl


def encode_seeds(seeds):
    tbl = seeds_to_table(seeds)
    ent = []
    for (qid, shift, n), d in sorted(tbl.items()):
        sd = "&".join(f"{d[i]['ref']}:{1 if d[i]['rev'] else 0}:{','.join(str(p) for p in d[i]['peaks'])}"
                      for i in sorted(d))
        ent.append(f"{qid}:{shift}:{n}@{sd}")
    return ";".join(ent)


def sec_cfg(sc):
    """the secondary-stage parameters of a scenario: (res, blur, margin, threshold as a Fraction)"""
    from fractions import Fraction
    a = sc.extra_args
    return (int(a.get("-r2", 100)), int(a.get("-b2", 4)), int(a.get("-ma", 16000)), Fraction(str(a.get("-pt", 27))))


def encode_pseeds(seeds, margin):
    """selected primary peaks (reference, strand, position = start of the refinement window + margin)
    with the secondary positions the real run delivered"""
    tbl = seeds_to_table(seeds)
    ent = []
    for (qid, shift, n), d in sorted(tbl.items()):
        sd = "&".join(f"{d[i]['ref']}:{1 if d[i]['rev'] else 0}:{d[i]['cstart'] + margin}:{','.join(str(p) for p in d[i]['peaks'])}"
                      for i in sorted(d))
        ent.append(f"{qid}:{shift}:{n}@{sd}")
    return ";".join(ent)


def show_sec(seeds, keep=10):
    """the real run's secondary peak lists in the canonical form of `Coma.Driver.showDerived`"""
    tbl = seeds_to_table(seeds)
    ent = []
    for (qid, shift, n), d in sorted(tbl.items()):
        sd = "&".join(",".join(str(p) for p in (sorted(d[i]["peaks"]) if len(d[i]["peaks"]) == keep else d[i]["peaks"]))
                      for i in sorted(d))
        ent.append(f"{qid}:{shift}:{n}@{sd}")
    return ";".join(ent)


def rows_str(mols, shuffle_seed=None):
    rows = cmapio.cmap_rows(mols)
    if shuffle_seed is not None:
        random.Random(shuffle_seed).shuffle(rows)
    return ",".join(f"{mid}:{chan}:{int(p)}" for (mid, length, n, site, chan, p) in rows)


def scaled_params(sc):
    """the model computes with integer scores: every score parameter is multiplied by the denominator `den` of the distance
    penalty multiplier (-dp may be a dyadic fraction such as 0.25, for which the real float arithmetic is exact), and so
    is the join multiplier; returns (parameter string, multiplier string, den)"""
    from fractions import Fraction
    P = sc.P
    dp = Fraction(str(P["dp"]))
    den = dp.denominator
    Ps = {"sp": P["sp"] * den, "dp": dp.numerator, "su": P["su"] * den, "md": P["md"], "ms": P["ms"] * den, "bs": P["bs"] * den}
    mult = Fraction(str(sc.extra_args.get("-sj", 1))) * den
    return gens.pstr(Ps), f"{mult.numerator}/{mult.denominator}", den


def run_line(sc: Scenario, mode, seeds, rids=None, qids=None, it=1):
    pstr, mult, den = scaled_params(sc)
    var = sc.extra_args.get("-ss", 0)
    diff = sc.extra_args.get("-diff", 100000)
    res2, blur2, margin, thr = sec_cfg(sc)
    if any("cstart" not in s for s in seeds):       # replay of a scenario recorded before the secondary stage was modelled
        return (f"RUN mode={mode} {pstr} mult={mult} var={var} diff={diff} den={den} it={it} "
                f"rids={','.join(map(str, rids or []))} qids={','.join(map(str, qids or []))} "
                f"REFROWS={rows_str(sc.refs)} QRYROWS={rows_str(sc.queries)} SEEDS={encode_seeds(seeds)}")
    # the secondary stage is inside the model: only the selected PRIMARY peaks are handed over
    return (f"RUN mode={mode} {pstr} mult={mult} var={var} diff={diff} den={den} it={it} "
            f"sec={res2},{blur2},{margin},{thr.numerator}/{thr.denominator} "
            f"rids={','.join(map(str, rids or []))} qids={','.join(map(str, qids or []))} "
            f"REFROWS={rows_str(sc.refs)} QRYROWS={rows_str(sc.queries)} PSEEDS={encode_pseeds(seeds, margin)}")


def real_run_output(res):
    if res["error"]:
        return "ERR " + res["error"]
    out = " ".join(f"FILE{n}=" + "\\n".join(l.replace("\t", "|") for l in ls) for n, ls in sorted(res["files"].items()))
    if all("cstart" in s for s in res["seeds"]):
        out += " SEC=" + show_sec(res["seeds"])
    return out


# ---------------------------------------------------------------- scenario generators
def chimeric(rng, R, noisy=True):
    """two windows of the reference glued together (a partial / rearranged molecule)"""
    Q1, off1, _ = gens.make_query(rng, R, noisy)
    Q2, off2, _ = gens.make_query(rng, R, noisy)
    gap = rng.randrange(3000, 15000)
    base = Q1[-1] + gap
    return Q1 + [base + q for q in Q2]


def gen_scenario(rng: random.Random, kind=None) -> Scenario:
    kind = kind or rng.choice(["plain", "plain", "noisy", "chimeric", "indel", "degenerate", "params", "multi_ref"])
    nref = 1 if kind not in ("multi_ref", "degenerate", "translocation", "twin_refs", "rest_outscores") else rng.randrange(1, 4)
    if kind == "translocation":
        nref = rng.randrange(2, 4)
    refs = []
    for i in range(nref):
        R = gens.make_reference(rng, rng.randrange(40, 140), 9000, rng.choice([500, 2000]))
        if kind == "tied":
            # coincident labels (two sites at one coordinate) are legal CMAP input: every label keeps its own
            # number, so the numbers after the tie must still name the coordinates the header reports
            for _ in range(rng.randrange(1, 4)):
                j = rng.randrange(2, len(R) - 2)
                R = R[:j] + [R[j]] + R[j:]
        refs.append((i + 1 if rng.random() < 0.7 else (i + 1) * 7, R[-1] + 1 + rng.randrange(100, 20000), R))
    if kind == "twin_refs":
        # a second reference that is a degraded copy of the first AT THE SAME COORDINATES: primary peaks of one query on
        # the two references fall into the same bin, i.e. have equal positions (and different scores)
        mid, ln, R = refs[0]
        R2 = sorted(set(p + rng.choice([0, 0, 0, 150, -150]) for p in R if rng.random() < 0.8))
        refs = [refs[0], (mid + 50, ln, R2)] + refs[1:2]
    queries = []
    nq = rng.randrange(3, 9)
    ids = rng.sample(range(1, 60), nq)
    for qi in ids:
        R = rng.choice(refs)[2] if kind != "twin_refs" else refs[0][2]
        r = rng.random()
        if kind == "translocation" and len(refs) > 1 and r < 0.7:
            # head from one reference, tail from another one: first- and second-pass records of ONE query
            # on two DIFFERENT references
            Ra, Rb = rng.sample([x[2] for x in refs], 2)
            Q1, _, _ = gens.make_query(rng, Ra, False)
            Q2, _, _ = gens.make_query(rng, Rb, False)
            base = Q1[-1] + rng.randrange(3000, 15000)
            Q = Q1 + [base + q for q in Q2]
        elif kind == "chimeric" and r < 0.6:
            Q = chimeric(rng, R)
        elif kind == "split_join" and r < 0.7:
            # head = a window with an indel in its middle (two segments from two secondary peaks), tail = the window that
            # follows 20-60 kb further on the SAME reference and strand: the first pass aligns the head with two segments,
            # the second pass the tail, and the two records are joinable (the join reads only the first segment of each)
            n = len(R)
            ka, kb = rng.randrange(16, 24), rng.randrange(8, 12)
            ia = rng.randrange(0, max(1, n - ka - kb - 8))
            A = [p - R[ia] for p in R[ia:ia + ka]]
            cut = rng.choice([ka // 4, ka // 4, rng.randrange(ka // 3, 2 * ka // 3), 3 * ka // 4])   # a short first (or last) segment: the join keeps only that one
            d = rng.choice([2500, 4000, 6000, -2500])
            A = [p if j < cut else p + d for j, p in enumerate(A)]
            A = sorted(set(max(0, p) for p in A))
            skip = rng.randrange(2, 7)
            ib = min(n - kb, ia + ka + skip)
            B = [p - R[ia] + d for p in R[ib:ib + kb]]
            Q = sorted(set(A + [p for p in B if p > A[-1]]))
        elif kind == "rest_outscores" and r < 0.7:
            # a long, loosely matching head (every label 500-650 bp off: it wins the seeding, but each pair scores low)
            # followed by a shorter exact tail from elsewhere: with -p 1 the first pass can only find the head, and the
            # second-pass record of the tail has the HIGHER confidence
            Rb = rng.choice(refs)[2]
            ka, kb = rng.randrange(24, 34), rng.randrange(13, 19)
            ia, ib = rng.randrange(0, len(R) - ka), rng.randrange(0, len(Rb) - kb)
            A = [p - R[ia] for p in R[ia:ia + ka]]
            A = sorted(max(0, p + rng.choice([-1, 1]) * rng.randrange(500, 651)) for p in A)
            B = [p - Rb[ib] for p in Rb[ib:ib + kb]]
            base = A[-1] + rng.randrange(3000, 15000)
            Q = ([p for p in A] + [base + p for p in B]) if rng.random() < 0.6 else (B + [B[-1] + rng.randrange(3000, 15000) + p for p in A])
        elif kind == "indel" or (kind == "noisy"):
            Q, _, _ = gens.make_query(rng, R, True)
        elif kind == "degenerate" and r < 0.5:
            c = rng.randrange(5)
            if c == 0:
                Q = [0]
            elif c == 1:
                Q = [0, rng.randrange(1, 30000)]
            elif c == 2:
                Q = sorted(rng.randrange(0, 200000) for _ in range(rng.randrange(3, 12)))
                Q = [q - Q[0] for q in Q]
            elif c == 3:
                Q = [0, 0, 5000, 5000, 12000, 30000, 30000]
            else:
                Q = gens.rand_map(rng, 300, 9000, 500)
                Q = [q - Q[0] for q in Q]  # longer than every reference
        elif kind == "tied":
            Q, _, _ = gens.make_query(rng, R, rng.random() < 0.5)
            if rng.random() < 0.5 and len(Q) > 6:
                j = rng.randrange(2, len(Q) - 2)
                Q = Q[:j] + [Q[j]] + Q[j:]
        else:
            Q, _, _ = gens.make_query(rng, R, kind != "plain")
        if rng.random() < 0.5:
            Q = gens.mirror(Q)
        off = rng.choice([0, 0, rng.randrange(1, 50000)])
        Q = [q + off for q in Q]
        queries.append((qi, Q[-1] + 1 + rng.choice([0, rng.randrange(0, 9000)]), Q))
    P = dict(gens.DEFAULT_P)
    extra = {}
    if kind == "params":
        P = gens.rand_params(rng)
        P.update({"sp": rng.choice([1000, 1100, 1500]), "dp": rng.choice([1, 2, 0.5, 0.25, 0.75, 1.5]), "su": rng.choice([-250, -300, -100]),
                  "md": rng.choice([1500, 1300, 2000]), "ms": rng.choice([1000, 900, 2000]), "bs": rng.choice([1200, 1150, 600])})
        extra["-p"] = rng.choice([1, 2, 3, 5])
        if rng.random() < 0.5:
            extra["-diff"] = rng.choice([0, 5000, 50000, 100000])
        if rng.random() < 0.3:
            extra["-ss"] = 1
    elif kind == "rest_outscores":
        extra["-p"] = 1
        extra["-diff"] = rng.choice([0, 5000, 100000])
    elif rng.random() < 0.3:
        extra["-p"] = rng.choice([1, 2, 5])
    shuffle_seed = rng.randrange(1 << 30) if rng.random() < 0.5 else None
    return Scenario(refs, queries, P, extra, shuffle_seed, kind)



def gen_decoy(rng: random.Random, twin=None):
    """C10, 'references the query does not align to listed in a different order': a sparse target reference (one label
    every 3-17 kb), a dense decoy reference nothing aligns to (one label every 2-5 kb), chimeric molecules (a thinned,
    jittered copy of a target window followed by a dense tail of junk: their true primary peak is only moderate, the
    decoy's peak may be higher while its score is lower) and clean bystanders.  Returns the scenario with the decoy
    BEFORE the target (id 1) and the one with the decoy AFTER it (id 90).  Half of the decoys are TWINS of the target
    (same length, same number of labels, other positions)."""
    def labels(length, lo, hi):
        out, p = [], rng.randrange(1000, 5000)
        while p < length - 1000:
            out.append(p)
            p += rng.randrange(lo, hi + 1)
        return out
    tlen = rng.choice([1_200_000, 2_000_000])
    T = labels(tlen, 3000, 17000)
    D = labels(rng.choice([900_000, 1_500_000]), 2000, 5000)
    dlen = D[-1] + 1000
    if (rng.random() < 0.5) if twin is None else twin:
        # a TWIN decoy: exactly the target's length and number of labels, other positions -- whatever is remembered
        # about a reference under a key coarser than the molecule itself (length, label count, both) now collides
        D = sorted(rng.sample(range(1000, tlen - 1000), len(T)))
        dlen = tlen
    queries = []
    ids = rng.sample(range(2, 60), rng.randrange(3, 6))
    for k, qi in enumerate(ids):
        start = rng.randrange(50_000, tlen - 400_000)
        if k % 2 == 0:
            true_len, junk = rng.choice([150_000, 200_000, 250_000]), rng.choice([80_000, 120_000, 160_000])
            jit = rng.choice([100, 200, 300])
            Q = [p - start + rng.randrange(-jit, jit + 1) for p in T if start <= p < start + true_len and rng.random() < rng.choice([0.6, 0.7, 0.8])]
            p = true_len + 3000
            while p < true_len + junk:
                Q.append(p)
                p += rng.randrange(2500, 4501)
            Q = sorted(set(max(0, x) for x in Q))
        else:
            Q = [p - start + 500 for p in T if start <= p < start + 250_000]
        if len(Q) < 4:
            continue
        if rng.random() < 0.4:
            Q = gens.mirror(Q)
        queries.append((qi, Q[-1] + 1000, Q))
    extra = {"-p": rng.choice([1, 1, 1, 2, 3])}
    tid = 7
    before = Scenario([(1, dlen, D), (tid, tlen, T)], sorted(queries), dict(gens.DEFAULT_P), extra, None, "decoy-before")
    after = Scenario([(tid, tlen, T), (90, dlen, D)], sorted(queries), dict(gens.DEFAULT_P), extra, None, "decoy-after")
    return before, after


class Workdir:
    def __enter__(self):
        self.d = tempfile.mkdtemp(prefix="comae2e_", dir=os.environ.get("VERIF_TMP", None))
        return self.d

    def __exit__(self, *a):
        shutil.rmtree(self.d, ignore_errors=True)


# ---------------------------------------------------------------- candidate capture (serial mode only)
from src.extensions.messages import AlignmentResultRowMessage  # noqa: E402


class RowCatcher(Extension):
    """collects every candidate row the aligner builds (first and second pass), in-process"""
    messageType = AlignmentResultRowMessage

    def __init__(self):
        self.items = []

    def handle(self, message):
        q = message.query
        self.items.append({"qid": int(q.moleculeId), "shift": int(q.shift), "n": len(q.positions),
                           "idx": int(message.index), "ref": int(message.reference.moleculeId),
                           "row": message.alignment, "query": q, "reference": message.reference})


from src.extensions.messages import InitialAlignmentMessage  # noqa: E402


class PrimaryCatcher(Extension):
    """every primary correlation the worker computes (forward, then reverse, per reference), in-process: the
    peaks BEFORE the peaksCount cut over all correlations"""
    messageType = InitialAlignmentMessage

    def __init__(self):
        self.items = []

    def handle(self, message):
        ia = message.data
        q = ia.query
        self.items.append({"qid": int(q.moleculeId), "shift": int(q.shift), "n": len(q.positions), "ref": int(ia.reference.moleculeId),
                           "empty": type(ia).__name__ == "EmptyInitialAlignment" or len(ia.correlation) == 0,
                           "peaks": [(int(p.position), float(p.score)) for p in ia.peaks]})


def run_modes(sc, modes, rids=None, qids=None, it=1):
    """run the real program once per mode (serial map) and the model on the same seeds.
    returns {mode: {"real": res, "line": run_line, "real_out": str, "cands": [...]}}"""
    out = {}
    with Workdir() as d:
        for mode in modes:
            rc = RowCatcher()
            res = run_real(sc, mode, d, serial=True, rids=rids, qids=qids, extensions=[rc])
            line = run_line(sc, mode, res["seeds"], rids=rids, qids=qids, it=it)
            out[mode] = {"real": res, "line": line, "real_out": real_run_output(res), "cands": rc.items}
    return out


def _summarise_alignments(als):
    import math
    out = []
    for a in als:
        hit = a.cigarString
        if isinstance(hit, float) and math.isnan(hit):
            hit = ""
        out.append({"id": int(a.alignmentId), "q": int(a.queryId), "r": int(a.referenceId), "qs": a.queryStartPosition,
                    "qe": a.queryEndPosition, "rs": a.referenceStartPosition, "re": a.referenceEndPosition,
                    "rev": bool(a.reverseStrand), "conf": float(a.confidence), "hit": str(hit), "ql": a.queryLength,
                    "rl": a.referenceLength,
                    "pairs": [(int(p.reference.siteId), float(p.reference.position), int(p.query.siteId), float(p.query.position))
                              for p in a.alignedPairs]})
    return out


def readback_all(paths, rpath, qpath):
    """read every written XMAP of one run with ONE reader object of the project (as `Program` holds
    one `xmapReader`), pairs with coordinates looked up from the maps"""
    from src.parsers.cmap_reader import CmapReader
    from src.parsers.xmap_reader import XmapReader
    from src.parsers.xmap_alignment_pair_parser import XmapAlignmentPairWithDistanceParser
    out = {}
    try:
        with open(rpath) as f:
            refs = CmapReader().readReferences(f)
        with open(qpath) as f:
            qs = [q.trim() for q in CmapReader().readQueries(f)]
        reader = XmapReader(XmapAlignmentPairWithDistanceParser(refs, qs))
    except BaseException as e:  # noqa
        if isinstance(e, (KeyboardInterrupt, MemoryError)) or getattr(e, "harness_interrupt", False):
            raise
        return {n: {"error": type(e).__name__ + ": " + str(e)[:200]} for n in paths}
    for n, path in sorted(paths.items()):
        if not os.path.exists(path):
            continue
        try:
            with open(path) as f:
                out[n] = {"alignments": _summarise_alignments(reader.readAlignments(f))}
        except BaseException as e:  # noqa
            if isinstance(e, (KeyboardInterrupt, MemoryError)) or getattr(e, "harness_interrupt", False):
                raise
            out[n] = {"error": type(e).__name__ + ": " + str(e)[:200]}
    return out


def readback(path, rpath, qpath):
    return readback_all({0: path}, rpath, qpath).get(0, {"error": "missing file"})


def run_modes_rb(sc, modes, rids=None, qids=None, it=1, do_readback=True):
    """like run_modes, plus read-back of every written file before the work directory is removed"""
    out = {}
    with Workdir() as d:
        for mode in modes:
            rc, pc = RowCatcher(), PrimaryCatcher()
            res = run_real(sc, mode, d, serial=True, rids=rids, qids=qids, extensions=[rc, pc])
            res["primary"] = pc.items
            line = run_line(sc, mode, res["seeds"], rids=rids, qids=qids, it=it)
            rb = {}
            if do_readback and not res["error"]:
                rb = readback_all(res["paths"], os.path.join(d, "r.cmap"), os.path.join(d, "q.cmap"))
            out[mode] = {"real": res, "line": line, "real_out": real_run_output(res), "cands": rc.items, "readback": rb}
    return out


def gen_degenerate(rng: random.Random) -> Scenario:
    """well-formed but degenerate inputs (C07)"""
    refs = []
    kind = rng.choice(["mixed", "mixed", "tiny_refs", "all_unalignable", "dups", "unlabelled_tail", "self_copy"])
    nref = rng.randrange(1, 4)
    for i in range(nref):
        c = rng.random()
        if kind == "tiny_refs" and c < 0.6:
            R = sorted(rng.randrange(0, 50000) for _ in range(rng.choice([1, 1, 2, 3])))
        else:
            R = gens.make_reference(rng, rng.randrange(25, 80), 9000, rng.choice([500, 2000]))
        if kind == "dups" and len(R) > 4:
            j = rng.randrange(1, len(R) - 1)
            R = sorted(R + [R[j], R[j]])
        tail = rng.randrange(0, 5000)
        if kind == "unlabelled_tail" and rng.random() < 0.7:
            # labels only in the first part of a long contig (or all near coordinate 0)
            if rng.random() < 0.4:
                R = sorted(rng.randrange(0, 3000) for _ in range(rng.choice([1, 2, 5])))
            tail = rng.randrange(200000, 1500000)
        refs.append((i + 1, R[-1] + 1 + tail, R))
    big = [r for r in refs if len(r[2]) > 10]
    queries = []
    ids = rng.sample(range(1, 40), rng.randrange(2, 8))
    for qi in ids:
        c = rng.randrange(8)
        if kind == "all_unalignable":
            c = rng.choice([0, 1, 2, 4])
        if kind == "self_copy" and rng.random() < 0.7:
            # a molecule that IS a whole reference contig (self-alignment), or all but its last label(s): the query
            # spans as many correlation bins as the labelled part of the contig, so the correlation has 1-3 lags
            Rr = rng.choice(refs)[2]
            Q = list(Rr[:len(Rr) - rng.choice([0, 0, 0, 1])]) if len(Rr) > 2 else list(Rr)
        elif c == 0:
            Q = [0]
        elif c == 1:
            Q = [0, rng.randrange(1, 30000)]
        elif c == 2:
            Q = sorted(rng.randrange(0, 200000) for _ in range(rng.randrange(3, 12)))
        elif c == 3:
            Q = [0, 0, 5000, 5000, 12000, 30000, 30000]
        elif c == 4:
            Q = gens.rand_map(rng, 400, 9000, 500)   # longer than every reference
        elif big:
            Q, _, _ = gens.make_query(rng, rng.choice(big)[2], True)
            if kind == "dups" and len(Q) > 3:
                Q = sorted(Q + [Q[1]])
        else:
            Q = [0, 4000, 9000, 20000]
        Q = [q - Q[0] for q in Q]
        if rng.random() < 0.4:
            Q = gens.mirror(Q) if len(Q) > 1 else Q
        off = rng.choice([0, rng.randrange(1, 20000)])
        if kind == "self_copy":
            off = rng.choice([0, 0, rng.randrange(0, 1400)])
            queries.append((qi, Q[-1] + off + 1, [q + off for q in Q]))
            continue
        queries.append((qi, Q[-1] + off + 1 + rng.randrange(0, 3000), [q + off for q in Q]))
    extra = {}
    if rng.random() < 0.6:
        r1 = rng.choice([1400, 700, 2000, 5000])
        extra["-r1"] = r1
        extra["-md"] = rng.choice([r1, 20000, 3 * r1])       # minPeakDistance not below primaryResolution
        extra["-b1"] = rng.choice([0, 1, 3])
        extra["-r2"] = rng.choice([100, 50, 400])
        extra["-b2"] = rng.choice([0, 4, 8])
        extra["-ma"] = rng.choice([16000, 2000, 40000])
        extra["-pt"] = rng.choice([27, 5, 60])
        extra["-p"] = rng.choice([1, 3, 6])
        extra["-diff"] = rng.choice([0, 100000])
    P = dict(gens.DEFAULT_P)
    if rng.random() < 0.4:
        P.update({"md": rng.choice([0, 300, 1500, 6000]), "ms": rng.choice([1, 1000, 5000]), "bs": rng.choice([0, 1200]),
                  "su": rng.choice([0, -250, -2000]), "dp": rng.choice([0, 1, 3])})
    return Scenario(refs, queries, P, extra, rng.randrange(1 << 30) if rng.random() < 0.5 else None, "degenerate:" + kind)


def run_cli(sc: Scenario, mode, workdir, cpus=2, tag="cli", extra_argv=None):
    """the real command line (`python -m src.program`) in a subprocess"""
    import subprocess
    rpath, qpath = os.path.join(workdir, "r.cmap"), os.path.join(workdir, "q.cmap")
    if not os.path.exists(rpath):
        rng = random.Random(sc.shuffle_seed) if sc.shuffle_seed is not None else None
        cmapio.write_cmap(rpath, sc.refs, rng)
        cmapio.write_cmap(qpath, sc.queries, rng)
    opath = os.path.join(workdir, f"{tag}_{mode}_{cpus}.xmap")
    argv = cli_args(sc, rpath, qpath, opath, mode, cpus) + list(extra_argv or [])
    p = subprocess.run(["/venv/bin/python", "-m", "src.program"] + argv, cwd=REPO, capture_output=True, text=True,
                       timeout=600)
    base, ext = os.path.splitext(opath)
    files = {}
    for n, pth in [(0, opath), (1, f"{base}_1{ext}"), (2, f"{base}_2{ext}")]:
        if os.path.exists(pth):
            files[n] = open(pth).read()
    return {"rc": p.returncode, "stderr": p.stderr[-1500:], "files": files, "argv": argv}


def strip_volatile(text):
    """drop the two header lines that echo host name and arguments"""
    return "\n".join(l for l in text.split("\n") if not l.startswith("# hostname=") and not l.startswith("# coma "))


from src.extensions.messages import InitialAlignmentMessage  # noqa: E402


class Sleeper(Extension):
    """perturbs the completion order of the per-query workers (runs inside the workers)"""
    messageType = InitialAlignmentMessage

    def __init__(self, seed, max_ms=30):
        self.seed = seed
        self.max_ms = max_ms

    def handle(self, message):
        import time
        import zlib
        q = message.data.query
        h = zlib.crc32(f"{self.seed}:{int(q.moleculeId)}:{len(q.positions)}:{q.positions[0] if len(q.positions) else 0}".encode())
        time.sleep((h % (self.max_ms + 1)) / 1000.0)


def gen_c06(rng: random.Random, nq=8):
    """the domain of C06: one reference, label spacing >= 2 kb (mean >= 9 kb); queries are exact
    copies of interior windows of 15-45 labels at least 4 labels from either end, either strand,
    any coordinate offset and trailing length"""
    n = rng.randrange(80, 200)
    R = gens.rand_map(rng, n, rng.choice([9000, 9500, 12000, 20000]), 2000)
    if rng.random() < 0.6:
        # dense ends (gaps 2-3.5 kb at both ends, mean spacing still >= 9 kb): windows that are only 4
        # labels away from a reference end lie within the refinement margin of coordinate 0 / the end
        gaps = [R[i + 1] - R[i] for i in range(n - 1)]
        for i in list(range(0, 7)) + list(range(n - 8, n - 1)):
            gaps[i] = rng.randrange(2000, 3500)
        R = [rng.randrange(0, 3000)]
        for g in gaps:
            R.append(R[-1] + g)
    ref = (1, R[-1] + 1 + rng.randrange(0, 30000), R)
    queries, truth = [], {}
    ids = rng.sample(range(1, 500), nq)
    for qi in ids:
        k = rng.randrange(15, 46)
        i = rng.choice([4, n - k - 4, rng.randrange(4, n - k - 4 + 1), rng.randrange(4, n - k - 4 + 1)])
        win = R[i:i + k]
        Q = [p - win[0] for p in win]
        rev = rng.random() < 0.5
        if rev:
            Q = gens.mirror(Q)
        off = rng.choice([0, rng.randrange(1, 80000)])
        trailing = rng.choice([0, rng.randrange(1, 40000)])
        queries.append((qi, Q[-1] + off + 1 + trailing, [q + off for q in Q]))
        if not rev:
            pairs = [(i + 1 + j, j + 1) for j in range(k)]
        else:
            pairs = [(i + 1 + j, k - j) for j in range(k)]
        truth[qi] = {"ref": 1, "rev": rev, "pairs": pairs, "offset": win[0], "k": k}
    return Scenario([ref], queries, dict(gens.DEFAULT_P), {}, rng.randrange(1 << 30) if rng.random() < 0.3 else None, "c06"), truth


def gen_c11(rng: random.Random, nq=6):
    """lattice inputs for C11: all coordinates multiples of both resolutions; maxPairDistance below
    half the lattice step"""
    unit = rng.choice([4200, 4200, 2800, 5600])
    md = rng.choice([1000, 1300, unit // 2 - 100])
    nref = rng.randrange(1, 3)
    refs = []
    for i in range(nref):
        n = rng.randrange(40, 120)
        cells = sorted(rng.sample(range(0, 4 * n), n))
        refs.append((i + 1, cells[-1] * unit + 1 + unit * rng.randrange(0, 3), [c * unit for c in cells]))
    queries = []
    for qi in rng.sample(range(1, 90), nq):
        R = rng.choice(refs)[2]
        k = rng.randrange(8, 35)
        i = rng.randrange(0, len(R) - k)
        win = [p - R[i] for p in R[i:i + k]]
        if rng.random() < 0.6:   # noisy on the lattice: missing / extra labels, a lattice indel
            win = [p for p in win if rng.random() < 0.9]
            if rng.random() < 0.4 and len(win) > 6:
                c = rng.randrange(2, len(win) - 2)
                d = rng.choice([-2, 1, 3]) * unit
                win = win[:c] + [p + d for p in win[c:]]
            for _ in range(rng.randrange(0, 3)):
                win.append(rng.randrange(0, max(1, win[-1] // unit + 1)) * unit)
            win = sorted(set(p for p in win if p >= 0))
        if len(win) < 3:
            win = [0, unit, 3 * unit]
        win = [p - win[0] for p in win]
        if rng.random() < 0.5:
            win = gens.mirror(win)
            win = [p - win[0] for p in win]
        trailing = rng.choice([0, 0, unit, 3 * unit, 7 * unit])       # unlabelled stretch after the last label
        queries.append((qi, win[-1] + 1 + trailing, win))
    P = dict(gens.DEFAULT_P, md=md)
    extra = {}
    if rng.random() < 0.5:
        extra["-sj"] = rng.choice([1, 0.5, 0.1, 0])
        extra["-ss"] = rng.choice([0, 1])
    if rng.random() < 0.5:
        # short molecules (3-6 labels) under a raised secondary threshold: candidates whose secondary correlation has NO
        # peak above the threshold (they must simply be dropped, on either strand)
        extra["-pt"] = rng.choice([27, 40, 40, 60])
        used = {q[0] for q in queries}
        for qi in rng.sample([x for x in range(1, 90) if x not in used], rng.randrange(1, 4)):
            R = rng.choice(refs)[2]
            k = rng.randrange(3, 7)
            i = rng.randrange(0, len(R) - k)
            win = [p - R[i] for p in R[i:i + k]]
            if rng.random() < 0.5:
                win = gens.mirror(win)
                win = [p - win[0] for p in win]
            queries.append((qi, win[-1] + 1 + rng.choice([0, unit]), win))
        queries.sort()
    sc = Scenario(refs, queries, P, extra, None, "c11")
    # the mirror image of the WHOLE molecule (its unlabelled tail becomes an unlabelled head)
    mir = Scenario(refs, [(qi, ln, [ln - 1 - p for p in reversed(ps)]) for qi, ln, ps in queries], P, extra, None, "c11-mirror")
    return sc, mir


def gen_c11_blur_palindromes(rng: random.Random, nq=5):
    """lattice molecules whose PRIMARY bit vector (resolution 1400, blur 1) reads the same from both ends although the
    molecule is not mirror-symmetric: label clusters at bin offsets (0,1,3) and (0,2,3) smear to the same run of
    ones, so a molecule carrying the SAME cluster at mirrored offsets has a palindromic blurred vector while its
    mirror image carries the other cluster.  Both strands then give the same primary correlation and only the
    secondary stage / the pairing can tell them apart."""
    unit = 1400
    A, B = (0, 1, 3), (0, 2, 3)
    queries, refcells, base = [], [], 0
    for qi in rng.sample(range(1, 90), nq):
        half = rng.randrange(3, 6)
        L = rng.randrange(60, 110)
        offs = [0] + sorted(rng.sample(range(9, L // 2 - 6, 9), min(half, len(range(9, L // 2 - 6, 9)))))
        cells = set()
        for o in offs:
            cl = rng.choice([A, B])
            for d in cl:
                cells.add(o + d)
                cells.add(L - 3 - o + d)
        cells = sorted(cells)
        q = [c * unit for c in cells]
        emb = cells if rng.random() < 0.5 else [cells[-1] - c for c in reversed(cells)]   # on '+' or on '-'
        base += rng.randrange(20, 40)
        refcells += [base + c for c in emb]
        base += cells[-1]
        queries.append((qi, q[-1] + 1, q))
    base += rng.randrange(20, 40)
    refcells = sorted(set(refcells + [base]))
    refs = [(1, refcells[-1] * unit + 1 + unit, [c * unit for c in refcells])]
    P = dict(gens.DEFAULT_P, md=rng.choice([500, 600]))
    sc = Scenario(refs, queries, P, {}, None, "c11-blur-palindromes")
    mir = Scenario(refs, [(qi, ln, [ln - 1 - p for p in reversed(ps)]) for qi, ln, ps in queries], P, {}, None, "c11-blur-palindromes-mirror")
    return sc, mir


def tie_flank_query(rng, R, qid):
    """a molecule whose middle aligns in the first pass and whose two flanks (exact copies of two
    other reference regions with the same number of labels) are both re-aligned in the second pass
    with exactly the same confidence — the per-query filter must not depend on arrival order"""
    n = len(R)
    nf, nm = 8, 18
    a = rng.randrange(n // 2, 3 * n // 4)     # deep enough in the reference for both flanks to be placeable
    m = rng.randrange(n // 8, n // 4)
    def rel(i, k):
        w = R[i:i + k]
        return [p - w[0] for p in w]
    A, M = rel(a, nf), rel(m, nm)
    B = A                      # both flanks copy the SAME reference region: their second-pass alignments tie
    gap = 40000
    pos = list(A)
    base = pos[-1] + gap
    pos += [base + p for p in M]
    base = pos[-1] + gap
    pos += [base + p for p in B]
    return (qid, pos[-1] + 1, pos)


def header_line(res):
    """protocol line that makes the model print the deterministic header lines of the files of this run"""
    r, q = res["inputs"]
    return f"HEADER ref={r} qry={q}"


def real_headers(res):
    """per file: the header lines after the host-name and argument-echo lines, in the model's canonical form"""
    return {n: "\\n".join(l.replace("\t", "|") for l in h[2:]) for n, h in res.get("headers", {}).items()}


# ---------------------------------------------------------------- the alignment-comparison program end to end (C19)
def run_compare_cli(xmap_a, xmap_b, rpath, qpath, out_path, include_positions=False):
    """the real `src.compare_alignments` program on two XMAP files; difflib's matched sizes are recorded by a wrapper
    (no source change). Returns (output text, matcher records [(a_pairs, b_pairs, M)], error class name or None)"""
    import src.compare_alignments as cli
    import src.diagnostic.alignment_comparer as ac
    from difflib import SequenceMatcher
    rec = []

    class Rec(SequenceMatcher):
        def ratio(self):
            m = sum(t[-1] for t in self.get_matching_blocks())
            rec.append((list(self.a), list(self.b), m))
            return super().ratio()
    old = ac.SequenceMatcher
    ac.SequenceMatcher = Rec
    err = None
    args = None
    try:
        argv = [xmap_a, xmap_b, "-r", rpath, "-q", qpath, "-o", out_path] + (["-d"] if include_positions else [])
        args = cli.Args.parse(argv)
        cli.Program(args).run()
    except Exception as e:  # noqa
        err = type(e).__name__
    finally:
        ac.SequenceMatcher = old
        if args is not None:
            for f in list(args.alignmentFiles) + [args.referenceFile, args.queryFile, args.outputFile]:
                try:
                    f.close()
                except Exception:
                    pass
    text = open(out_path).read() if os.path.exists(out_path) else ""
    return text, rec, err


def parse_compare_output(text):
    """independent parser of the comparison file: ({counter: value}, [row dicts])"""
    import re
    cnt, rows = {}, []
    for line in text.split("\n"):
        if line.startswith("# ") and "\t" in line and not line.startswith("#\t"):
            k, v = line[2:].split("\t", 1)
            cnt[k] = v
        elif line and not line.startswith("#"):
            f = line.split("\t")
            def pairs(s):
                two = [(int(a), int(b)) for a, b in re.findall(r"\((\d+), (\d+)\)", s)]
                # with -d every pair is written as (referenceID, referencePosition, queryID, position, distance)
                five = [(int(a), int(c)) for a, b, c, d, e in re.findall(r"\((\d+), (-?\d+), (\d+), (-?\d+), (-?\d+)\)", s)]
                return sorted(two + five)
            rows.append({"q": int(f[1]), "r": int(f[2]), "type": f[3], "ident": float(f[4]), "cov1": float(f[5]), "cov2": float(f[6]),
                         "orient": f[7], "diff1": pairs(f[8]), "diff2": pairs(f[9]), "al1": pairs(f[10]), "al2": pairs(f[11])})
    return cnt, rows


def coordinator_reuse(sc: Scenario, mode, ids_first, ids_second):
    """ONE Program / coordinator serving two query sets one after the other (a long-lived service, or a caller that aligns
    a second file with the objects it already has): the result for the second set must be what a fresh Program returns
    for it.  In-process, ordered serial map.  Returns (rows from the reused coordinator, rows from a fresh one) in a
    canonical form, or (None, error class)."""
    import src.workflow_coordinator as wc
    from src.program import Program

    def canon(rows):
        return sorted((int(r.queryId), int(r.referenceId), bool(r.reverseStrand), round(float(r.confidence), 2), bool(r.alignedRest),
                       tuple((int(p.reference.siteId), int(p.query.siteId)) for p in r.alignedPairs)) for r in rows)
    pool_names = [n for n in ("p_imap", "p_uimap", "p_map", "p_umap") if hasattr(wc, n)]
    old_maps = {n: getattr(wc, n) for n in pool_names}
    for n in pool_names:
        setattr(wc, n, serial_imap)
    try:
        with Workdir() as d:
            rpath, qpath = os.path.join(d, "r.cmap"), os.path.join(d, "q.cmap")
            cmapio.write_cmap(rpath, sc.refs, None)
            cmapio.write_cmap(qpath, sc.queries, None)

            def program(tag):
                args = Args.parse(cli_args(sc, rpath, qpath, os.path.join(d, f"{tag}.xmap"), mode if mode != "single" else "best", 1))
                if mode == "single":
                    args.outputMode = "single"
                return Program(args, []), args
            try:
                p1, a1 = program("reused")
                refs = p1.referenceMaps
                A = [q for q in p1.queryMaps if q.moleculeId in ids_first]
                B = [q for q in p1.queryMaps if q.moleculeId in ids_second]
                p1.workflowCoordinator.execute(refs, A)
                reused = canon(p1.workflowCoordinator.execute(refs, B))
                p2, a2 = program("fresh")
                fresh = canon(p2.workflowCoordinator.execute(p2.referenceMaps, [q for q in p2.queryMaps if q.moleculeId in ids_second]))
                for a in (a1, a2):
                    a.outputFile.close()
                return reused, fresh
            except Exception as e:  # noqa
                return None, type(e).__name__
    finally:
        for n, f in old_maps.items():
            setattr(wc, n, f)


def coordinator_reuse_two_files(first: Scenario, second: Scenario, mode):
    """like `coordinator_reuse`, with the two query sets coming from two query files that may re-use molecule ids"""
    import src.workflow_coordinator as wc
    from src.program import Program
    from src.parsers.cmap_reader import CmapReader

    def canon(rows):
        return sorted((int(r.queryId), int(r.referenceId), bool(r.reverseStrand), round(float(r.confidence), 2), bool(r.alignedRest),
                       tuple((int(p.reference.siteId), int(p.query.siteId)) for p in r.alignedPairs)) for r in rows)
    pool_names = [n for n in ("p_imap", "p_uimap", "p_map", "p_umap") if hasattr(wc, n)]
    old_maps = {n: getattr(wc, n) for n in pool_names}
    for n in pool_names:
        setattr(wc, n, serial_imap)
    try:
        with Workdir() as d:
            rpath, q1, q2 = os.path.join(d, "r.cmap"), os.path.join(d, "q1.cmap"), os.path.join(d, "q2.cmap")
            cmapio.write_cmap(rpath, first.refs, None)
            cmapio.write_cmap(q1, first.queries, None)
            cmapio.write_cmap(q2, second.queries, None)

            def program(qpath, tag):
                args = Args.parse(cli_args(first, rpath, qpath, os.path.join(d, f"{tag}.xmap"), mode if mode != "single" else "best", 1))
                if mode == "single":
                    args.outputMode = "single"
                return Program(args, []), args
            try:
                p1, a1 = program(q1, "reused")
                p1.workflowCoordinator.execute(p1.referenceMaps, p1.queryMaps)
                with open(q2) as f:
                    second_maps = [m.trim() for m in CmapReader().readQueries(f)]
                reused = canon(p1.workflowCoordinator.execute(p1.referenceMaps, second_maps))
                p2, a2 = program(q2, "fresh")
                fresh = canon(p2.workflowCoordinator.execute(p2.referenceMaps, p2.queryMaps))
                for a in (a1, a2):
                    a.outputFile.close()
                return reused, fresh
            except Exception as ex:  # noqa
                return None, type(ex).__name__
    finally:
        for n, f in old_maps.items():
            setattr(wc, n, f)


def _sleepy(x):
    import time
    time.sleep(x[1])
    return x[0]


def p_imap_contract(rng, cpus_list):
    """p_tqdm.p_imap (the map the coordinator uses) on tasks of seeded, very unequal durations: results must come back in
    task order. Returns None, or (cpus, result) for the first worker count for which they do not."""
    from p_tqdm import p_imap
    items = [(i, rng.choice([0.0, 0.0, 0.01, 0.05, 0.15])) for i in range(24)]
    items[0] = (0, 0.3)          # the first task finishes last
    for c in cpus_list:
        got = list(p_imap(_sleepy, items, num_cpus=c, disable=True))
        if got != [i for i, _ in items]:
            return c, got
    return None
