"""Regenerate MANIFEST.json from the registry (claimed properties) — run by hand after adding a check."""
import json, os, sys
HERE = os.path.dirname(os.path.abspath(__file__))
sys.path.insert(0, HERE)
import props

VERIF = os.path.dirname(HERE)
ids = [json.loads(l)["id"] for l in open(os.path.join(VERIF, "properties.jsonl"))]
NOTES = json.load(open(os.path.join(HERE, "manifest_notes.json"))) if os.path.exists(os.path.join(HERE, "manifest_notes.json")) else {}
checks, na = [], []
for pid in ids:
    if pid in props.REGISTRY and os.path.exists(os.path.join(VERIF, "lean", "Props", f"{pid}.lean")):
        reg = props.REGISTRY[pid]
        checks.append({
            "property_id": pid,
            "quick_cmd": f"./check {pid} --tier quick",
            "thorough_cmd": f"./check {pid} --tier thorough",
            "evidence_file": f"/verif/evidence/{pid}.json",
            "replay_cmd_template": f"./check {pid} --replay {{path}}",
            "engine": "lean4-model+correspondence",
            "level_claimed": {"category": "proof", "text": reg["level_text"], "design_ref": f"DESIGN.md §4 {pid}"},
            "level_note": NOTES.get(pid, "Trusted: Lean 4.33 kernel; axioms propext/Classical.choice/Quot.sound only; the hand-written model "
                                         "(tied to /repo by the correspondence streams run on every invocation, on the generated inputs only); "
                                         "the Python harness (generators, canonicalisation, oracles). Assumes: " + "; ".join(reg["assumptions"])),
            "technique": "Lean 4 theorems about a hand-written executable model + differential correspondence check against the working tree + model-independent oracle for failing-input search",
        })
    else:
        na.append({"property_id": pid, "reason": "check under construction in this framework (model exists; theorems/streams not yet registered) — to be claimed"})
m = {"version": 1,
     "setup_cmd": "cd lean && lake build",
     "hooks": {"guard": "COMA_VERIF", "enable": "no source hooks are needed: seeds are captured through the project's own Extension API (src/extensions) from the harness",
               "baseline_off_cmd": "cd /repo && /venv/bin/python -m pytest -q -p no:cacheprovider", "source_commits": [], "add_only": True},
     "engines": [{"name": "lean4-model+correspondence", "path": "lean/ + harness/", "serves_properties": [c["property_id"] for c in checks],
                  "kind_free_text": "Lean 4 model (Coma/), theorems (Props/, Proofs/), compiled line-protocol driver, Python harness running the real code"}],
     "checks": checks, "not_applicable": na,
     "notes": "See DESIGN.md. Exit 0 = held, 1 = VIOLATION line, 2 = harness error (not a violation)."}
json.dump(m, open(os.path.join(VERIF, "MANIFEST.json"), "w"), indent=1)
print("claimed", [c["property_id"] for c in checks])
