"""Run checks against seeded changes in parallel, each in its own scratch worktree of /repo.

    seedpar.py [--own | --all] [--jobs N] [--out DIR] seeded/<id> ...

For every seed: `git -C /repo worktree add` under /tmp/seedwt/<id>, apply patch.diff there, run
`./check Cxx --tier quick` with VERIF_REPO=<worktree> and VERIF_OUT=<scratch> (so /repo, evidence/ and
replays/ of /verif are never touched), write <out>/<id>.json in the format seedmatrix.py reads, remove
the worktree.  --own runs only the check of the property the seed was written against (default),
--all runs every claimed check."""
from __future__ import annotations

import argparse
import concurrent.futures as cf
import json
import os
import shutil
import subprocess
import sys

VERIF = os.path.dirname(os.path.dirname(os.path.abspath(__file__)))


def run_seed(d, props, out, jobs_per_check, tier):
    sid = os.path.basename(d.rstrip("/"))
    wt = f"/tmp/seedwt/{os.getpid()}/{sid}"
    scratch = f"/tmp/seedwt/{os.getpid()}/{sid}.out"
    os.makedirs(os.path.dirname(wt), exist_ok=True)
    subprocess.run(["git", "-C", "/repo", "worktree", "remove", "--force", wt], capture_output=True)
    shutil.rmtree(wt, ignore_errors=True)
    shutil.rmtree(scratch, ignore_errors=True)
    os.makedirs(scratch, exist_ok=True)
    r = subprocess.run(["git", "-C", "/repo", "worktree", "add", "-q", "--detach", wt, "HEAD"], capture_output=True, text=True)
    if r.returncode != 0:
        return sid, {"error": r.stderr}
    res = {}
    try:
        r = subprocess.run(["git", "-C", wt, "apply", os.path.abspath(os.path.join(d, "patch.diff"))], capture_output=True, text=True)
        if r.returncode != 0:
            return sid, {"error": "patch does not apply: " + r.stderr}
        for p in props:
            env = dict(os.environ, VERIF_REPO=wt, VERIF_OUT=scratch, VERIF_JOBS=str(jobs_per_check), VERIF_TMP=scratch)
            q = subprocess.run([os.path.join(VERIF, "check"), p, "--tier", tier], capture_output=True, text=True, cwd=VERIF, env=env)
            outp = q.stdout + q.stderr
            viol = [l for l in outp.split("\n") if l.startswith("VIOLATION")]
            res[p] = {"exit": q.returncode, "violation": viol[0] if viol else None}
            if q.returncode not in (0, 1):
                res[p]["tail"] = outp[-1500:]
            if viol and "replay=" in viol[0]:
                replay = viol[0].split("replay=")[1].split()[0]
                try:
                    rp = json.load(open(replay))
                    res[p]["what"] = (rp.get("what_fails") or str(rp.get("no_longer_checks", ""))[:300])[:300]
                    res[p]["kind"] = rp.get("kind")
                except Exception:
                    pass
    finally:
        subprocess.run(["git", "-C", "/repo", "worktree", "remove", "--force", wt], capture_output=True)
        shutil.rmtree(wt, ignore_errors=True)
        shutil.rmtree(scratch, ignore_errors=True)
    json.dump({"seed": d, "caught_by": [p for p, v in res.items() if v["exit"] == 1], "detail": res},
              open(os.path.join(out, sid + ".json"), "w"), indent=1)
    return sid, res


def main():
    ap = argparse.ArgumentParser()
    ap.add_argument("--all", action="store_true")
    ap.add_argument("--relevant", action="store_true", help="only the checks of properties that depend on a file the patch touches")
    ap.add_argument("--jobs", type=int, default=4)
    ap.add_argument("--out", default="/tmp/seedres")
    ap.add_argument("--tier", default="quick")
    ap.add_argument("seeds", nargs="+")
    a = ap.parse_args()
    os.makedirs(a.out, exist_ok=True)
    claimed = [c["property_id"] for c in json.load(open(os.path.join(VERIF, "MANIFEST.json")))["checks"]]
    per = max(2, 16 // a.jobs)
    with cf.ThreadPoolExecutor(a.jobs) as ex:
        futs = []
        for d in a.seeds:
            own = os.path.basename(d.rstrip("/")).split("-")[0]
            props = claimed if a.all else [own]
            if a.relevant:
                import re
                sys.path.insert(0, os.path.join(VERIF, "harness"))
                import fingerprint
                touched = set(re.findall(r"^\+\+\+ b/(\S+)", open(os.path.join(d, "patch.diff")).read(), flags=re.M))
                anchors = {}
                for l in open(os.path.join(VERIF, "properties.jsonl")):
                    pd = json.loads(l)
                    anchors[pd["id"]] = set(pd.get("anchors", {}).get("files", []))
                pipeline = any(f.startswith("src/") and not f.startswith("src/diagnostic/") and f not in ("src/plot_alignments.py", "src/compare_alignments.py") for f in touched)
                props = [p for p in claimed if (anchors.get(p, set()) & touched) or (pipeline and p in fingerprint.E2E_PROPS)]
            futs.append(ex.submit(run_seed, d, props, a.out, per, a.tier))
        for f in cf.as_completed(futs):
            sid, res = f.result()
            print(sid, {p: (v if isinstance(v, str) else (v["exit"], v.get("kind"), (v.get("what") or "")[:100])) for p, v in res.items()}, flush=True)
    subprocess.run(["git", "-C", "/repo", "worktree", "prune"])
    return 0


if __name__ == "__main__":
    sys.exit(main())
