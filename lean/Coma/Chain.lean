/-
  Coma/Chain.lean — MODEL (import-free; `Rat` is core Lean).

  Mirrors  src/alignment/segment_chainer.py:13-72.
  The dynamic programme is generic in the item type so that the optimality theorem (C14) is
  a statement about `dpChain` for *any* score / join function; `chainSegs` instantiates it
  with the real sequentiality scorer.
-/
import Coma.SegFactory
namespace Coma

/-! ### generic DP (segment_chainer.py:23-40) -/

/-- inner loop `for j, previousSegment in enumerate(pre[:i])` (lines 28-33):
    `acc` starts at 0 with no predecessor; strict `>` keeps the first best. `none` = −∞. -/
def bestPrev {α} (join : α → α → Option Rat) (cur : α) :
    (acc : Rat) → (accIdx : Option Nat) → (j : Nat) → List (α × Rat) → Rat × Option Nat
  | acc, ai, _, []             => (acc, ai)
  | acc, ai, j, (p, c) :: rest =>
    match join p cur with
    | none    => bestPrev join cur acc ai (j + 1) rest
    | some jn => if c + jn > acc then bestPrev join cur (c + jn) (some j) (j + 1) rest
                 else bestPrev join cur acc ai (j + 1) rest

/-- table rows: (item, cumulated score, previous index) in pre-order -/
def dpTable {α} (score : α → Rat) (join : α → α → Option Rat) :
    (done : List (α × Rat × Option Nat)) → List α → List (α × Rat × Option Nat)
  | done, []      => done
  | done, x :: xs =>
    let (b, bi) := bestPrev join x 0 none 0 (done.map fun t => (t.1, t.2.1))
    dpTable score join (done ++ [(x, b + score x, bi)]) xs

/-- `bestPreviousSegmentIndex` (lines 25, 35-36): first index with the strictly largest total -/
def bestIdxFrom : (best : Rat) → (bi i : Nat) → List Rat → Nat
  | _,    bi, _, []      => bi
  | best, bi, i, c :: cs => if c > best then bestIdxFrom c i (i + 1) cs else bestIdxFrom best bi (i + 1) cs

def bestIdx : List Rat → Nat
  | []      => 0
  | c :: cs => bestIdxFrom c 0 1 cs

/-- back-tracking (lines 37-39); `fuel` bounds the walk (every `prev` index is smaller). -/
def backtrack {α} (tbl : List (α × Rat × Option Nat)) : (fuel : Nat) → (i : Nat) → List Nat → List Nat
  | 0,        i, acc => i :: acc
  | fuel + 1, i, acc =>
    match tbl[i]? with
    | some (_, _, some j) => backtrack tbl fuel j (i :: acc)
    | _                   => i :: acc

/-- indices (into the pre-ordered list) of the chosen chain, and its total -/
def dpChain {α} (score : α → Rat) (join : α → α → Option Rat) (pre : List α) : List Nat × Rat :=
  let tbl := dpTable score join [] pre
  let cums := tbl.map (fun t => t.2.1)
  let b := bestIdx cums
  (backtrack tbl pre.length b [], (cums[b]?).getD 0)

/-! ### the real scorer (segment_chainer.py:43-72) -/

/-- what the chainer reads from a non-empty segment: first and last aligned pair -/
structure Ends where
  s : Pr        -- startPosition
  e : Pr        -- endPosition
deriving Repr, Inhabited

def Seg.ends? (s : Seg) : Option Ends :=
  match s.pairs with
  | []      => none
  | p :: ps => some ⟨p, (p :: ps).getLast (by simp)⟩

def Ends.reverse (x : Ends) : Bool := decide (x.s.q.site > x.e.q.site)

/-- `initialOrderingKey` (lines 14-16) -/
def Ends.key (x : Ends) : Int := x.s.r.pos + x.e.r.pos + x.s.q.pos + x.e.q.pos

def iabs (x : Int) : Int := if x < 0 then -x else x

/-- `calcScore` (lines 62-69) -/
def calcScore (variant : Int) (rd qd : Int) : Rat :=
  let distSum := rd + qd
  let absDistSum := iabs rd + iabs qd
  let distDiff := rd - qd
  if variant = 0 then
    ((distSum * distSum + distDiff * distDiff : Int) : Rat) / ((max (max (iabs distSum) (iabs distDiff)) 1 : Int) : Rat)
  else
    ((absDistSum * absDistSum + distDiff * distDiff : Int) : Rat) / ((max (absDistSum + iabs distDiff) 1 : Int) : Rat)

/-- `SequentialityScorer.getScore(previous, current)`; `none` = `-math.inf` -/
def joinScore (mult : Rat) (variant : Int) (prev cur : Ends) : Option Rat :=
  let queryLength := min (iabs (cur.e.q.pos - cur.s.q.pos)) (iabs (prev.e.q.pos - prev.s.q.pos))
  let rd := cur.s.r.pos - prev.e.r.pos
  let referenceLength := min (cur.e.r.pos - cur.s.r.pos) (prev.e.r.pos - prev.s.r.pos)
  -- after the `fix:` commit the query gap has the same sign on both strands (query positions
  -- of the reverse strand are already mirrored); `joinScoreStrandSigned` below is the old code
  let qd := cur.s.q.pos - prev.e.q.pos
  if min (referenceLength + 2 * rd) (queryLength + 2 * qd) < 0 then none
  else some (- mult * calcScore variant rd qd)

/-- the scorer before the repair (F9): the query distance was negated when the current segment is
    on the reverse strand -/
def joinScoreStrandSigned (mult : Rat) (variant : Int) (prev cur : Ends) : Option Rat :=
  let queryLength := min (iabs (cur.e.q.pos - cur.s.q.pos)) (iabs (prev.e.q.pos - prev.s.q.pos))
  let rd := cur.s.r.pos - prev.e.r.pos
  let referenceLength := min (cur.e.r.pos - cur.s.r.pos) (prev.e.r.pos - prev.s.r.pos)
  let qd := if cur.reverse then prev.e.q.pos - cur.s.q.pos else cur.s.q.pos - prev.e.q.pos
  if min (referenceLength + 2 * rd) (queryLength + 2 * qd) < 0 then none
  else some (- mult * calcScore variant rd qd)

structure ChainCfg where
  mult    : Rat := 1       -- segmentJoinMultiplier (scaled by the score denominator)
  variant : Int := 0       -- sequentialityScore
deriving Repr, Inhabited

/-- non-empty segments with their ends; `none` if a non-empty segment has no pair
    (`alignedPositions[0]` raises IndexError) -/
def withEnds? : List Seg → Option (List (Seg × Ends))
  | []      => some []
  | s :: ss =>
    match s.ends?, withEnds? ss with
    | some e, some rest => some ((s, e) :: rest)
    | _, _              => none

/-- `SegmentChainer.chain` (lines 13-40). `none` = IndexError (pair-less non-empty segment). -/
def chainSegs (P : Params) (C : ChainCfg) (segs : List Seg) : Option (List Seg) :=
  let empties := segs.filter Seg.isEmpty
  match withEnds? (segs.filter (fun s => !s.isEmpty)) with
  | none => none
  | some ne =>
    let pre := isort (fun (x : Seg × Ends) => x.2.key) ne
    match pre with
    | [] => some empties
    | _  =>
      let (idxs, _) := dpChain (fun (x : Seg × Ends) => ((x.1.score P : Int) : Rat))
                               (fun a b => joinScore C.mult C.variant a.2 b.2) pre
      some (idxs.filterMap (fun i => (pre[i]?).map (·.1)) ++ empties)

end Coma
