/-
  Coma/Compare.lean — MODEL (import-free).

  Mirrors  src/diagnostic/alignment_comparer.py:44-58 (aggregate counters), 164-233 (key
  dictionaries, row comparison).  `difflib.SequenceMatcher` enters as a parameter
  `M : matched size`, with the contract recorded in Props/C19.
-/
import Coma.Sort
namespace Coma

abbrev BPair := Int × Int          -- (reference site id, query site id)

structure BAl where
  qid   : Int
  rid   : Int
  pairs : List BPair
deriving Repr, Inhabited, DecidableEq

abbrev Key := Int × Int            -- (queryId, referenceId)
def BAl.key (a : BAl) : Key := (a.qid, a.rid)

/-- dict insertion: position of the first insertion of a key, value of the last -/
def dictInsert (k : Key) (v : BAl) : List (Key × BAl) → List (Key × BAl)
  | []            => [(k, v)]
  | (k', v') :: t => if k' = k then (k', v) :: t else (k', v') :: dictInsert k v t

/-- `__toDict` (alignment_comparer.py:179-181): sort by (referenceId, queryId), then dict -/
def toDict (as : List BAl) : List (Key × BAl) :=
  (isort (fun a => a.rid) (isort (fun a => a.qid) as)).foldl (fun d a => dictInsert a.key a d) []

def dictGet? (d : List (Key × BAl)) (k : Key) : Option BAl := (d.find? (fun e => e.1 = k)).map (·.2)

/-- `set(pairs).difference(set(other))` as a duplicate-free list (order irrelevant: only its
    length and membership are observable in the property) -/
def dedupList : List BPair → List BPair
  | []      => []
  | x :: xs => if (dedupList xs).contains x then dedupList xs else x :: dedupList xs

def difference (ps other : List BPair) : List BPair := dedupList (ps.filter fun p => !other.contains p)

/-- adjacent grouping by query site id (`itertools.groupby`) for pairs -/
def groupByQ : List BPair → List (List BPair)
  | []      => []
  | x :: xs =>
    match groupByQ xs with
    | (y :: g) :: gs => if x.2 = y.2 then (x :: y :: g) :: gs else [x] :: (y :: g) :: gs
    | _              => [[x]]

/-- `__combineMultipleQuerySources` (lines 206-213, 225-228) -/
def combine (flag : Bool) (ps other : List BPair) : List BPair :=
  if !flag then ps
  else (groupByQ ps).flatMap fun g =>
    let kept := g.filter fun a => other.contains a
    if kept.isEmpty then g else kept

/-- `__getCoverage` (lines 230-233) -/
def coverage (ps diff : List BPair) : Rat :=
  if ps.length > 0 then ((ps.length - diff.length : Int) : Rat) / (ps.length : Rat) else 1

/-- `SequenceMatcher.ratio()`: `2*M/T`, 1.0 when both are empty -/
def identity (M : List BPair → List BPair → Nat) (a b : List BPair) : Rat :=
  if a.length + b.length = 0 then 1 else ((2 * M a b : Nat) : Rat) / ((a.length + b.length : Nat) : Rat)

inductive RowType | both | firstOnly | secondOnly
deriving DecidableEq, Repr, Inhabited

structure RowCmp where
  type  : RowType
  key   : Key
  diff1 : List BPair
  diff2 : List BPair
  cov1  : Rat
  cov2  : Rat
  ident : Rat
deriving Repr, Inhabited

def RowCmp.overlapping (r : RowCmp) : Bool := decide (r.ident > 0)

/-- `AlignmentRowComparer.compare` (lines 193-204) -/
def compareRow (flag : Bool) (M : List BPair → List BPair → Nat) (a1 a2 : BAl) : RowCmp :=
  let p1 := combine flag a1.pairs a2.pairs
  let p2 := combine flag a2.pairs a1.pairs
  let d1 := difference p1 p2
  let d2 := difference p2 p1
  { type := .both, key := a1.key, diff1 := d1, diff2 := d2, cov1 := coverage p1 d1, cov2 := coverage p2 d2,
    ident := identity M p1 p2 }

structure Comparison where
  overlapping    : Nat
  nonOverlapping : Nat
  firstOnly      : Nat
  secondOnly     : Nat
  rows           : List RowCmp
deriving Repr, Inhabited

/-- `AlignmentComparer.compare` + `AlignmentComparison.create` (lines 44-58, 168-177) -/
def compareSets (flag : Bool) (M : List BPair → List BPair → Nat) (as1 as2 : List BAl) : Comparison :=
  let d1 := toDict as1
  let d2 := toDict as2
  let both := d1.filterMap fun (k, a1) => (dictGet? d2 k).map fun a2 => compareRow flag M a1 a2
  let only1 := (d1.filter fun (k, _) => (dictGet? d2 k).isNone).map fun (k, _) =>
    ({ type := .firstOnly, key := k, diff1 := [], diff2 := [], cov1 := 0, cov2 := 0, ident := 0 } : RowCmp)
  let only2 := (d2.filter fun (k, _) => (dictGet? d1 k).isNone).map fun (k, _) =>
    ({ type := .secondOnly, key := k, diff1 := [], diff2 := [], cov1 := 0, cov2 := 0, ident := 0 } : RowCmp)
  let rows := both ++ only1 ++ only2
  { overlapping := (rows.filter RowCmp.overlapping).length,
    nonOverlapping := (rows.filter fun r => r.type = .both && !r.overlapping).length,
    firstOnly := (rows.filter fun r => r.type = .firstOnly).length,
    secondOnly := (rows.filter fun r => r.type = .secondOnly).length,
    rows := rows }

end Coma
