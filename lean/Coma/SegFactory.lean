/-
  Coma/SegFactory.lean — MODEL (import-free).

  Mirrors  src/alignment/alignment_position.py:26-30,133-136 (scores),
           src/alignment/alignment_position_scorer.py,
           src/alignment/segments_factory.py:25-73 (the scan),
           src/alignment/segments.py:14-37 (AlignmentSegment.create / score / empty).

  Scores are integers.  The harness scales by the denominator of distancePenaltyMultiplier
  (all score comparisons are invariant under a positive common factor).
-/
import Coma.Pairing
namespace Coma

structure Params where
  sp       : Int            -- perfectMatchScore
  dp       : Int            -- distancePenaltyMultiplier
  su       : Int            -- unmatchedPenalty
  md       : Int            -- maxPairDistance
  minScore : Int
  bst      : Int            -- breakSegmentThreshold
deriving Repr, Inhabited

/-- the defaults of `src/args.py` (-sp 1000, -dp 1, -su -250, -d 1500, -ms 1000, -bs 1200); the harness compares them,
    and the defaults of `SecCfg` / `ChainCfg` / `Cfg`, with the objects the real `Args.parse` +
    `WorkflowCoordinatorFactory.create` build from an argument list without options (op DEFAULTS) -/
def defaultParams : Params := ⟨1000, 1, -250, 1500, 1000, 1200⟩

/-- alignment_position.py:133-136 and 26-30 (the ValueError branch is `scoreAll?`) -/
def APos.score (P : Params) : APos → Int
  | .pair p => P.sp - P.dp * p.dist
  | _       => P.su

def sumScores (P : Params) : List APos → Int
  | []      => 0
  | a :: as => a.score P + sumScores P as

/-- `getScoredPositions`: raises ValueError iff some unpaired position is scored with a
    positive penalty. -/
def scoreAll? (P : Params) (xs : List APos) : Option (List Int) :=
  if decide (P.su > 0) && xs.any (fun a => !a.isPair) then none else some (xs.map (APos.score P))

/-- a segment as an index range `[start, stop)` into its peak's position list plus its score -/
structure Rng where
  start : Nat
  stop  : Nat
  score : Int
deriving DecidableEq, Repr, Inhabited

/-- builder state of `_AlignmentSegmentBuilder` (segments_factory.py:25-39);
    `cur = none` is the `EmptyAlignmentSegment` (score 0). -/
structure ScanSt where
  start : Nat := 0          -- currentSegmentStart
  ext   : Int := 0          -- extendedSegmentScore
  cur   : Option Rng := none
  res   : List Rng := []
deriving Repr, Inhabited

def ScanSt.curScore (st : ScanSt) : Int :=
  match st.cur with
  | none   => 0
  | some r => r.score

/-- `__addCurrentSegmentToResultIfScoreIsEnough` (segments_factory.py:63-66):
    note `cur` is *not* reset when its score is below `minScore`. -/
def ScanSt.flush (ms : Int) (st : ScanSt) : ScanSt :=
  match st.cur with
  | some r => if r.score ≥ ms then { st with res := st.res ++ [r], cur := none } else st
  | none   => st

/-- one iteration of the `while` loop at index `e` with score `s` (segments_factory.py:43-49) -/
def scanStep (ms bst : Int) (st : ScanSt) (e : Nat) (s : Int) : ScanSt :=
  let ext' := st.ext + s
  if ext' ≤ max 0 (st.curScore - bst) then
    -- __breakSegment
    let st' := st.flush ms
    { st' with start := e + 1, ext := 0 }
  else
    -- extendedSegmentEndPosition += 1 ; __acceptExtendedSegmentIfScoreIsImproved
    if ext' > st.curScore then
      { st with ext := ext', cur := some ⟨st.start, e + 1, ext'⟩ }
    else
      { st with ext := ext' }

def scanFrom (ms bst : Int) : ScanSt → Nat → List Int → ScanSt
  | st, _, []      => st
  | st, e, s :: ss => scanFrom ms bst (scanStep ms bst st e s) (e + 1) ss

/-- the ranges of the resulting non-empty segments; `[]` stands for the single
    `EmptyAlignmentSegment` the Python returns (segments_factory.py:53). -/
def scanRanges (ms bst : Int) (scores : List Int) : List Rng :=
  ((scanFrom ms bst {} 0 scores).flush ms).res

/-- `AlignmentSegment` (segments.py:14-37): `items = []` is the `EmptyAlignmentSegment`;
    the segment score is always the sum of the member scores (segments.py:19). -/
structure Seg where
  peak  : Int
  items : List APos
deriving DecidableEq, Repr, Inhabited

def Seg.score (P : Params) (s : Seg) : Int := sumScores P s.items
def Seg.isEmpty (s : Seg) : Bool := s.items.isEmpty
def Seg.pairs (s : Seg) : List Pr := s.items.filterMap APos.pair?

/-- `AlignmentSegmentsFactory.getSegments` (segments_factory.py:17-22, 41-53) -/
def getSegments (P : Params) (peak : Int) (xs : List APos) : List Seg :=
  match scanRanges P.minScore P.bst (xs.map (APos.score P)) with
  | [] => [⟨peak, []⟩]
  | rs => rs.map fun r => ⟨peak, (xs.drop r.start).take (r.stop - r.start)⟩

end Coma
