/-
  Coma/Text.lean — MODEL (import-free).

  Mirrors  src/parsers/cmap_reader.py:23-39 (group by id, end marker, sorted label positions),
           src/parsers/xmap_reader.py:35-92 (column order, `{:.1f}` / `{:.2f}`, reader),
           src/parsers/xmap_alignment_pair_parser.py:15-41 (`(r,q)(r,q)…`),
           src/correlation/bionano_alignment.py:24-41 (`int()` truncation).

  pandas' tokenizer is *not* modelled: a file is a list of data lines (after the `#h` line,
  comment lines stripped), a data line is a list of tab-separated fields.
  Numbers are digit lists so that round-trip theorems are about the characters written.
-/
import Coma.Row
namespace Coma

/-! ### numerals -/

def digitsAux : (fuel n : Nat) → List Nat → List Nat
  | 0,        _, acc => acc
  | fuel + 1, n, acc => if n < 10 then n :: acc else digitsAux fuel (n / 10) (n % 10 :: acc)

/-- decimal digits, most significant first; `natDigits 0 = [0]` -/
def natDigits (n : Nat) : List Nat := digitsAux (n + 1) n []

def ofDigits (ds : List Nat) : Nat := ds.foldl (fun a d => 10 * a + d) 0

def digitChar (d : Nat) : Char := Char.ofNat (48 + d)

def charDigit? (c : Char) : Option Nat :=
  if 48 ≤ c.toNat ∧ c.toNat ≤ 57 then some (c.toNat - 48) else none

def renderNat (n : Nat) : String := String.ofList ((natDigits n).map digitChar)

def renderInt (i : Int) : String :=
  if i < 0 then "-" ++ renderNat i.natAbs else renderNat i.natAbs

def parseDigits? : List Char → Option (List Nat)
  | []      => some []
  | c :: cs => match charDigit? c, parseDigits? cs with
    | some d, some ds => some (d :: ds)
    | _, _            => none

def parseNat? (cs : List Char) : Option Nat :=
  match cs with
  | [] => none
  | _  => (parseDigits? cs).map ofDigits

def parseInt? (cs : List Char) : Option Int :=
  match cs with
  | '-' :: rest => (parseNat? rest).map (fun n => - (n : Int))
  | _           => (parseNat? cs).map (fun n => (n : Int))

/-- left-pad a digit list with zeros to width `w` -/
def padZeros (w : Nat) (ds : List Nat) : List Nat := List.replicate (w - ds.length) 0 ++ ds

/-- Python `"{:.df}".format(x)` for an exact value `v / 10^d` (d = 1 or 2) -/
def renderFixed (d : Nat) (v : Int) : String :=
  let n := v.natAbs
  let ip := n / 10 ^ d
  let fp := n % 10 ^ d
  (if v < 0 then "-" else "") ++ renderNat ip ++ "." ++
    String.ofList ((padZeros d (natDigits fp)).map digitChar)

/-- split at the first '.' -/
def splitDot : List Char → List Char × List Char
  | []      => ([], [])
  | c :: cs => if c = '.' then ([], cs) else let (a, b) := splitDot cs; (c :: a, b)

/-- `int(float(s))` for a decimal numeral: truncation toward zero = the integer part -/
def parseTrunc? (cs : List Char) : Option Int :=
  parseInt? (splitDot cs).1

/-! ### the Alignment column -/

def renderPairs (ps : List (Int × Int)) : String :=
  String.join (ps.map fun (r, q) => "(" ++ renderInt r ++ "," ++ renderInt q ++ ")")

/-- split a char list on a separator (Python `str.split(sep)` for a one-character sep) -/
def splitOnChar (sep : Char) : List Char → List (List Char)
  | []      => [[]]
  | c :: cs =>
    match splitOnChar sep cs with
    | []        => [[]]                      -- unreachable
    | g :: rest => if c = sep then [] :: g :: rest else (c :: g) :: rest

/-- `alignment[:-1].replace('(', '').split(')')`, then `int` of both comma-separated parts
    (xmap_alignment_pair_parser.py:28-33); `none` = ValueError -/
def parsePairs? (s : List Char) : Option (List (Int × Int)) :=
  let body := (s.dropLast).filter (· ≠ '(')
  (splitOnChar ')' body).mapM fun part =>
    match splitOnChar ',' part with
    | [a, b] => match parseInt? a, parseInt? b with
      | some x, some y => some (x, y)
      | _, _           => none
    | _ => none

/-! ### XMAP rows -/

/-- what the writer puts in one data line (xmap_reader.py:63-79); positions and lengths are
    exact integers in base pairs in the modelled domain, `conf100` is Confidence × 100. -/
structure XRow where
  entryId : Nat
  (qid rid : Int)
  (qStart qEnd rStart rEnd : Int)
  rev : Bool
  conf100 : Int
  hitEnum : String
  (qLen rLen : Int)
  alignedRest : Bool
  pairs : List (Int × Int)
deriving Repr, Inhabited, DecidableEq

def XRow.fields (x : XRow) : List String :=
  [ renderNat x.entryId, renderInt x.qid, renderInt x.rid,
    renderFixed 1 (x.qStart * 10), renderFixed 1 (x.qEnd * 10),
    renderFixed 1 (x.rStart * 10), renderFixed 1 (x.rEnd * 10),
    (if x.rev then "-" else "+"), renderFixed 2 x.conf100, x.hitEnum,
    renderFixed 1 (x.qLen * 10), renderFixed 1 (x.rLen * 10),
    (if x.alignedRest then "True" else "False"), "1", renderPairs x.pairs ]

def XRow.line (x : XRow) : String := "\t".intercalate x.fields

/-- the column names and types `writeAlignments` declares (xmap_reader.py:39-56), `#h` / `#f` first -/
def xmapColumns : List (String × String) :=
  [("#h", "#f"), ("XmapEntryID", "int"), ("QryContigID", "int"), ("RefContigID", "int"), ("QryStartPos", "float"),
   ("QryEndPos", "float"), ("RefStartPos", "float"), ("RefEndPos", "float"), ("Orientation", "string"),
   ("Confidence", "float"), ("HitEnum", "string"), ("QryLen", "float"), ("RefLen", "float"),
   ("AlignedRest", "string"), ("LabelChannel", "int"), ("Alignment", "string")]

/-- the deterministic header lines of a written XMAP file (xmap_reader.py:57-64, after the host-name and
    argument-echo lines): version, the two source paths (absolute), column names, column types -/
def xmapHeader (refPath qryPath : String) : List String :=
  [ "# XMAP File Version:\t0.2",
    "# Reference Maps From:\t" ++ refPath,
    "# Query Maps From:\t" ++ qryPath,
    "\t".intercalate (xmapColumns.map (·.1)),
    "\t".intercalate (xmapColumns.map (·.2)) ]

/-- `BionanoAlignment` as returned by `XmapReader.readAlignments` -/
structure XRead where
  entryId : Int
  (qid rid : Int)
  (qStart qEnd rStart rEnd : Int)
  rev : Bool
  conf100 : Int
  hitEnum : String
  (qLen rLen : Int)
  pairs : List (Int × Int)
deriving Repr, Inhabited, DecidableEq

/-- parse `x.yz` as hundredths (the value pandas' float parser returns, ×100, for two decimals) -/
def parseHundredths? (cs : List Char) : Option Int :=
  let neg := cs.head? = some '-'
  let body := if neg then cs.drop 1 else cs
  let (ip, fp) := splitDot body
  match parseNat? ip, parseDigits? fp with
  | some a, some ds =>
    let v : Int := ((a * 100 + ofDigits ((ds ++ [0, 0]).take 2) : Nat) : Int)
    some (if neg then -v else v)
  | _, _ => none

/-- the reader (xmap_reader.py:21-33, 82-92) on one tokenised data line; `none` = an exception -/
def readXRow? (fields : List String) : Option XRead :=
  match fields.map String.toList with
  | [eid, qid, rid, qs, qe, rs, re, ori, conf, hit, ql, rl, _ar, _ch, al] => do
    let eid ← parseInt? eid
    let qid ← parseInt? qid
    let rid ← parseInt? rid
    let qs ← parseTrunc? qs
    let qe ← parseTrunc? qe
    let rs ← parseTrunc? rs
    let re ← parseTrunc? re
    let c ← parseHundredths? conf
    let ql ← parseTrunc? ql
    let rl ← parseTrunc? rl
    let ps ← parsePairs? al
    some { entryId := eid, qid := qid, rid := rid, qStart := qs, qEnd := qe, rStart := rs, rEnd := re,
           rev := decide (ori = ['-']), conf100 := c, hitEnum := String.ofList hit, qLen := ql, rLen := rl, pairs := ps }
  | _ => none

/-- post-fix reader: zero data lines ⇒ `[]` -/
def readXmap? (lines : List (List String)) : Option (List XRead) := lines.mapM readXRow?

/-! ### CMAP reader -/

/-- one CMAP data row restricted to the three columns the reader uses -/
structure CRow where
  id   : Int
  chan : Int
  pos  : Int      -- in `unit`-ths of a base pair (unit = 1 or 10)
deriving Repr, Inhabited, DecidableEq

/-- distinct ids in ascending order (pandas `groupby` sorts group keys) -/
def insertUniq (a : Int) : List Int → List Int
  | []      => [a]
  | b :: bs => if a < b then a :: b :: bs else if a = b then b :: bs else b :: insertUniq a bs

def sortedIds : List CRow → List Int
  | []      => []
  | r :: rs => insertUniq r.id (sortedIds rs)

/-- `__parseCmapRowsGroup` (cmap_reader.py:31-39). `none` inner = molecule without labels
    (skipped); outer error = no end-marker row (`.iloc[0]` IndexError). -/
def parseGroup (unit : Int) (id : Int) (rows : List CRow) : Except Err (Option OMap) :=
  let grp := rows.filter (fun r => r.id = id)
  match grp.find? (fun r => r.chan = 0) with
  | none => .error .indexError
  | some em =>
    let ps := isort id_ ((grp.filter (fun r => r.chan ≠ 0)).map (·.pos))
    if ps.isEmpty then .ok none
    else .ok (some { id := id, length := Int.tdiv em.pos unit, positions := ps, shift := 0 })
where id_ (x : Int) : Int := x

/-- `CmapReader.__read` (cmap_reader.py:23-30): id filter (empty = all), group, parse -/
def readCmap (unit : Int) (rows : List CRow) (ids : List Int) : Except Err (List OMap) := do
  let rows := if ids.isEmpty then rows else rows.filter (fun r => ids.contains r.id)
  let ms ← (sortedIds rows).mapM (fun i => parseGroup unit i rows)
  return ms.filterMap id

end Coma
