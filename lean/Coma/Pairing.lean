/-
  Coma/Pairing.lean — MODEL (import-free).

  Mirrors  src/alignment/aligner.py:31-78  (AlignerEngine.align)  and
           src/alignment/alignment_position.py:100-123 (AlignedPair.deduplicate),
           absolutePosition of the three position kinds (alignment_position.py:46-48,69-71,130-131).
-/
import Coma.Basic
import Coma.Sort
namespace Coma

/-- `AlignedPair` (alignment_position.py:88-157). `src` is the `source` field (the engine's
    per-process `iteration` counter): it must stay unobservable (C09). -/
structure Pr where
  r     : Lbl
  q     : Lbl
  shift : Int
  src   : Int := 0
deriving DecidableEq, Repr, Inhabited

def Pr.dist (p : Pr) : Int := p.shift.natAbs

/-- an alignment position: pair, unpaired reference label, unpaired query label -/
inductive APos
  | pair (p : Pr)
  | uref (r : Lbl)
  | uqry (q : Lbl) (refStart : Int)
deriving DecidableEq, Repr, Inhabited

/-- `absolutePosition` -/
def APos.abs : APos → Int
  | .pair p   => p.r.pos
  | .uref r   => r.pos
  | .uqry q s => q.pos + s

def APos.isPair : APos → Bool
  | .pair _ => true
  | _       => false

def APos.pair? : APos → Option Pr
  | .pair p => some p
  | _       => none

/-- erase the unobservable `source` -/
def APos.eraseSrc : APos → APos
  | .pair p => .pair { p with src := 0 }
  | a       => a

/-- `takewhile(pos <= hi, dropwhile(pos < lo, xs))` -/
def window (lo hi : Int) (xs : List Lbl) : List Lbl :=
  (xs.dropWhile (fun x => decide (x.pos < lo))).takeWhile (fun x => decide (x.pos ≤ hi))

/-- aligner.py:53-63 — candidate pairs, reference-major order -/
def candidates (md start it : Int) (refs qs : List Lbl) : List Pr :=
  refs.flatMap fun r =>
    (window (r.pos - start - md) (r.pos - start + md) qs).map fun q =>
      { r := r, q := q, shift := q.pos - (r.pos - start), src := it }

/-- alignment_position.py:119-123 — sort by key (stable), group adjacent, first minimum by distance -/
def dedupByKey (key : Pr → Int) (ps : List Pr) : List Pr :=
  (groupAdj key (isort key ps)).filterMap (minBy? Pr.dist)

/-- alignment_position.py:113-117 — by query site id first, then by reference site id -/
def dedup (ps : List Pr) : List Pr :=
  dedupByKey (fun p => p.r.site) (dedupByKey (fun p => p.q.site) ps)

/-- aligner.py:47-51 -/
def refWindow (md : Int) (ref : OMap) (start stop : Int) : List Lbl :=
  window (start - md) (stop + md) (ref.labels false)

/-- aligner.py:66-78 -/
def unpaired (refs qs : List Lbl) (pairs : List Pr) (start : Int) : List APos :=
  let rs := pairs.map (fun p => p.r.site)
  let qsites := pairs.map (fun p => p.q.site)
  (refs.filter (fun r => !rs.contains r.site)).map APos.uref ++
  (qs.filter (fun q => !qsites.contains q.site)).map (fun q => APos.uqry q start)

/-- `AlignerEngine.align` (aligner.py:36-45); `it` is the engine's `iteration` counter. -/
def engineAlign (md : Int) (ref qry : OMap) (start stop : Int) (rev : Bool) (it : Int) : List APos :=
  let refs  := refWindow md ref start stop
  let qs    := qry.labels rev
  let pairs := dedup (candidates md start it refs qs)
  isort APos.abs (pairs.map APos.pair ++ unpaired refs qs pairs start)

end Coma
