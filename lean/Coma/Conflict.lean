/-
  Coma/Conflict.lean — MODEL (import-free).

  Mirrors  src/alignment/segments.py:39-69 (start/end position, checkForConflicts,
           endOverlapsWithStartOf, slice), 71-127 (label characteristics, trailing trim),
           135-141 (subtraction), 147-165 (EmptyAlignmentSegment), 186-246 (conflict pair),
           src/alignment/alignment_position.py:58-62,81-85,138-143,164-168 (comparisons),
           src/alignment/segment_with_resolved_conflicts.py:12-30 (consecutive in-place pass).

  Every Python raise point is explicit (`Except Err`), never totalised.
-/
import Coma.Chain
namespace Coma

inductive Err
  | indexError | valueError | stopIteration | attributeError | typeError
deriving DecidableEq, Repr, Inhabited

def Err.name : Err → String
  | .indexError => "IndexError" | .valueError => "ValueError" | .stopIteration => "StopIteration"
  | .attributeError => "AttributeError" | .typeError => "TypeError"

/-- `AlignedPair.null` (alignment_position.py:160-171): a pair of `(0,0)` labels whose two
    comparison methods return False. -/
def nullPr : Pr := { r := ⟨0, 0⟩, q := ⟨0, 0⟩, shift := 0, src := 0 }

/-- value of `startPosition` / `endPosition` -/
inductive SP
  | null
  | pr (p : Pr)
deriving DecidableEq, Repr, Inhabited

def SP.toPr : SP → Pr
  | .null => nullPr
  | .pr p => p

/-- `AlignedPair.lessOnBothSequences` (alignment_position.py:138-139) -/
def Pr.lessOnBoth (a o : Pr) : Bool := decide (a.q.pos < o.q.pos) && decide (a.r.pos < o.r.pos)

/-- `AlignedPair.lessOrEqualOnAnySequence` (alignment_position.py:141-143);
    `==` on labels is dataclass equality (site id and position). -/
def Pr.leqAny (a o : Pr) : Bool :=
  decide (a.q.pos < o.q.pos) || decide (a.r.pos < o.r.pos) || decide (a.q = o.q) || decide (a.r = o.r)

def SP.leqAny (a : SP) (o : SP) : Bool :=
  match a with
  | .null => false
  | .pr p => p.leqAny o.toPr

def APos.lessOnBoth (a : APos) (o : Pr) : Bool :=
  match a with
  | .pair p   => p.lessOnBoth o
  | .uref r   => decide (r.pos < o.r.pos)
  | .uqry q _ => decide (q.pos < o.q.pos)

def APos.leqAny (a : APos) (o : Pr) : Bool :=
  match a with
  | .pair p   => p.leqAny o
  | .uref r   => decide (r.pos ≤ o.r.pos)
  | .uqry q _ => decide (q.pos ≤ o.q.pos)

/-- `startPosition` (segments.py:39-41, 153-155): `alignedPositions[0]` raises IndexError
    for a non-empty segment without pairs. -/
def Seg.startPos (s : Seg) : Except Err SP :=
  if s.items.isEmpty then .ok .null
  else match s.pairs with
    | []     => .error .indexError
    | p :: _ => .ok (.pr p)

def Seg.endPos (s : Seg) : Except Err SP :=
  if s.items.isEmpty then .ok .null
  else match s.pairs.getLast? with
    | none   => .error .indexError
    | some p => .ok (.pr p)

/-- `endOverlapsWithStartOf` (segments.py:56-59, 164-165), Python `or` short-circuit order. -/
def Seg.endOverlapsWithStartOf (self other : Seg) : Except Err Bool := do
  if self.items.isEmpty then return false
  let os ← other.startPos
  let ss ← self.startPos
  if os.leqAny ss then return true
  let se ← self.endPos
  if os.leqAny se then return true
  let oe ← other.endPos
  return se.leqAny oe

/-- `__trimNotAlignedPositionsFromEnd` (segments.py:122-126, after the `fix:` commit that re-checks
    emptiness in the loop condition).  `not end` is always False (an AlignedPair object is truthy).
    Never raises; kept in `Except` so that `slice` keeps its shape.  `trimEndUnguarded` below is the
    loop before the repair. -/
def trimEnd (e : Pr) (xs : List APos) : Except Err (List APos) :=
  .ok (xs.reverse.dropWhile (fun a => !a.isPair && !a.leqAny e)).reverse

/-- the loop before the repair (F11): `positions[-1]` raised IndexError once everything had been
    popped -/
def trimEndUnguarded (e : Pr) (xs : List APos) : Except Err (List APos) :=
  if xs.isEmpty then .ok []
  else
    let r := xs.reverse.dropWhile (fun a => !a.isPair && !a.leqAny e)
    if r.isEmpty then .error .indexError else .ok r.reverse

/-- `slice(start, end)` (segments.py:61-69) -/
def Seg.slice (s : Seg) (start stop : SP) : Except Err Seg := do
  let a := s.items.dropWhile (fun p => p.lessOnBoth start.toPr)
  let b := a.takeWhile (fun p => !p.isPair || p.leqAny stop.toPr)
  let c ← trimEnd stop.toPr b
  return ⟨s.peak, c⟩

/-- Python `p not in other` = identity or `==`.  Pairs: same reference and query label
    (alignment_position.py:148-150); unpaired: the same object — inside one segment every
    label occurs once, so structural equality coincides with identity. -/
def APos.pyEq : APos → APos → Bool
  | .pair a,   .pair b   => decide (a.q = b.q) && decide (a.r = b.r)
  | .uref a,   .uref b   => decide (a = b)
  | .uqry a s, .uqry b t => decide (a = b) && decide (s = t)
  | _,         _         => false

/-- `__sub__` (segments.py:135-141) -/
def Seg.sub (s : Seg) (other : List APos) : Seg :=
  ⟨s.peak, s.items.filter (fun p => !other.any (fun o => p.pyEq o))⟩

/-- one entry of `_ConflictingSegmentCharacteristics`: label, score (with the carried
    scores of the other map's unpaired labels), index into the sub-segment's positions -/
structure LabelChar where
  lbl   : Lbl
  score : Int
  idx   : Nat
deriving DecidableEq, Repr, Inhabited

/-- `getReferenceLabels` (segments.py:71-95) -/
def charsRef (P : Params) : (idx : Nat) → (carry : Int) → List APos → List LabelChar
  | _, _, []             => []
  | i, c, .pair p :: xs  => ⟨p.r, (APos.pair p).score P + c, i⟩ :: charsRef P (i + 1) 0 xs
  | i, c, .uref r :: xs  => ⟨r, P.su + c, i⟩ :: charsRef P (i + 1) 0 xs
  | i, c, .uqry _ _ :: xs => charsRef P (i + 1) (c + P.su) xs

/-- `getQueryLabels` (segments.py:97-120) -/
def charsQry (P : Params) : (idx : Nat) → (carry : Int) → List APos → List LabelChar
  | _, _, []              => []
  | i, c, .pair p :: xs   => ⟨p.q, (APos.pair p).score P + c, i⟩ :: charsQry P (i + 1) 0 xs
  | i, c, .uqry q _ :: xs => ⟨q, P.su + c, i⟩ :: charsQry P (i + 1) 0 xs
  | i, c, .uref _ :: xs   => charsQry P (i + 1) (c + P.su) xs

/-- `np.cumsum([0] + xs)` -/
def prefixSums : (acc : Int) → List Int → List Int
  | acc, []      => [acc]
  | acc, x :: xs => acc :: prefixSums (acc + x) xs

/-- `np.cumsum([0] + xs[::-1])[::-1]` -/
def suffixSums : List Int → List Int
  | []      => [0]
  | x :: xs => (x + sumInts xs) :: suffixSums xs

/-- `__getOptimalMergeIndex` (segments.py:234-240): first arg-max of
    `sum(left[:k]) + sum(right[k:])`, k = 0..n -/
def mergeIndex (l r : List Int) : Nat :=
  (argmax (List.zipWith (· + ·) (prefixSums 0 l) (suffixSums r))).toNat

inductive Branch
  | emptyLeft | noOverlap | index0 | indexN | interior | dropRight | dropLeft
deriving DecidableEq, Repr, Inhabited

def Branch.name : Branch → String
  | .emptyLeft => "emptyLeft" | .noOverlap => "noOverlap" | .index0 => "index0" | .indexN => "indexN"
  | .interior => "interior" | .dropRight => "dropRight" | .dropLeft => "dropLeft"

/-- `checkForConflicts(...).resolveConflict()` for one (left, right) pair
    (segments.py:51-54, 161-162, 193-246), with the branch taken. -/
def resolvePairB (P : Params) (L R : Seg) : Except Err (Seg × Seg × Branch) := do
  if L.items.isEmpty then return (L, R, .emptyLeft)
  if !(← L.endOverlapsWithStartOf R) then return (L, R, .noOverlap)
  let cs ← R.startPos
  let ce ← L.endPos
  let Lc ← L.slice cs ce
  let Rc ← R.slice cs ce
  let (lch, rch) :=
    if Lc.peak > Rc.peak then (charsRef P 0 0 Lc.items, charsRef P 0 0 Rc.items)
    else (charsQry P 0 0 Lc.items, charsQry P 0 0 Rc.items)
  if lch.length = rch.length then
    let k := mergeIndex (lch.map (·.score)) (rch.map (·.score))
    if k = 0 then return (L.sub Lc.items, R, .index0)
    else if k = lch.length then return (L, R.sub Rc.items, .indexN)
    else
      -- 0 < k < n so both look-ups succeed
      let li := (lch[k]?).map (·.idx) |>.getD 0
      let ri := (rch[k]?).map (·.idx) |>.getD 0
      return (L.sub (Lc.items.drop li), R.sub (Rc.items.take ri), .interior)
  else if Lc.score P > Rc.score P then return (L, R.sub Rc.items, .dropRight)
  else return (L.sub Lc.items, R, .dropLeft)

def resolvePair (P : Params) (L R : Seg) : Except Err (Seg × Seg) := do
  let (l, r, _) ← resolvePairB P L R
  return (l, r)

/-- the consecutive in-place pass (segment_with_resolved_conflicts.py:19-24) -/
def resolveFrom (P : Params) : Seg → List Seg → Except Err (List Seg)
  | l, []        => .ok [l]
  | l, r :: rest => do
    let (l', r') ← resolvePair P l r
    let tail ← resolveFrom P r' rest
    return l' :: tail

/-- same pass, also returning the branch taken at every step (for the classifiers) -/
def resolveFromB (P : Params) : Seg → List Seg → Except Err (List Seg × List Branch)
  | l, []        => .ok ([l], [])
  | l, r :: rest => do
    let (l', r', b) ← resolvePairB P l r
    let (tail, bs) ← resolveFromB P r' rest
    return (l' :: tail, b :: bs)

/-- `AlignmentSegmentConflictResolver.resolveConflicts` (lines 12-17) -/
def resolveConflicts (P : Params) (C : ChainCfg) (segs : List Seg) : Except Err (List Seg) :=
  match segs with
  | [] | [_] => .ok segs
  | _ =>
    match chainSegs P C segs with
    | none => .error .indexError
    | some [] => .ok []
    | some (c :: cs) => resolveFrom P c cs

end Coma
