/-
  Coma/Passes.lean — MODEL (import-free).

  Mirrors  src/workflow_coordinator.py:29-81 (execute, per-query worker, best candidate),
           src/correlation/peaks_selector.py:18-21,
           src/alignment/alignment_results.py:36-64 (filter, resolve), 179-271 (fragments,
           check_overlap, resolve/join),
           src/multi_pass_workflow_coordinator.py:27-83 (second pass, mode dispatch, files),
           src/program.py:42-49, 51-59 (run, reading + trimming),
           src/parsers/xmap_reader.py:63-80 (data lines).

  External behaviour enters as parameters:
  * the seed oracle `SeedTable` (FFT correlation + find_peaks + refinement): for every query
    (keyed by id, label-number offset and label count) the selected primary peaks in order,
    each with its reference, strand and the list of secondary peak positions in the order the
    real code delivers them;
  * `p_imap` as an order-preserving map (`List.mapM`), with the worker-local `iteration`
    counter passed explicitly (`it`), so that its irrelevance is a theorem (C09).
-/
import Coma.Text
namespace Coma

structure Seed where
  refId : Int
  rev   : Bool
  peaks : List Int
deriving Repr, Inhabited, DecidableEq

structure QKey where
  id    : Int
  shift : Int
  n     : Nat
deriving Repr, Inhabited, DecidableEq

def OMap.key (m : OMap) : QKey := ⟨m.id, m.shift, m.positions.length⟩

abbrev SeedTable := List (QKey × List Seed)

def SeedTable.lookup (t : SeedTable) (k : QKey) : List Seed :=
  match t.find? (fun e => e.1 = k) with
  | some e => e.2
  | none   => []

structure Cfg where
  P : Params
  C : ChainCfg := {}
  maxDifference : Int := 100000
  den : Nat := 1            -- scores are scaled by `den` (denominator of the penalty multiplier)
deriving Repr, Inhabited

/-- `__getBestAlignment` (workflow_coordinator.py:79-81): first of the stable descending sort -/
def bestRow (rows : List Row) : Option Row := (isortDesc (fun r => r.confidence) rows).head?

/-- `__align` (workflow_coordinator.py:37-51, after the `fix:` for an empty seed list) -/
def perQuery (cfg : Cfg) (refs : List OMap) (seeds : List Seed) (q : OMap) (it : Int) :
    Except Err (Option Row) :=
  if seeds.isEmpty then .ok none
  else do
    let rows ← seeds.mapM fun s =>
      match refs.find? (fun r => r.id = s.refId) with
      | none   => .error .stopIteration
      | some r => alignerAlign cfg.P cfg.C r q s.peaks s.rev it
    return bestRow rows

/-- `_WorkflowCoordinator.execute` (lines 29-35): ordered map, then drop `None` and pair-less rows -/
def executeSingle (cfg : Cfg) (refs : List OMap) (t : SeedTable) (qs : List OMap) (it : Int := 1) :
    Except Err (List Row) := do
  let rs ← qs.mapM fun q => perQuery cfg refs (t.lookup q.key) q it
  return rs.filterMap fun r => match r with
    | some row => if row.pairs.isEmpty then none else some row
    | none     => none

/-- `filterOutSubsequentAlignmentsForSingleQuery` (alignment_results.py:36-42) -/
def filterBestPerQuery (rows : List Row) : List Row :=
  (groupAdj (fun r => r.queryId) (isort (fun r => r.queryId) (isortDesc (fun r => r.confidence) rows))).filterMap List.head?

def Row.sortedPairs (r : Row) : List Pr := isort (fun (p : Pr) => p.r.pos) r.pairs

/-- `getUnalignedFragments` (alignment_results.py:179-228) -/
def unalignedFragments (row : Row) (queries : List OMap) : Except Err (List OMap) :=
  if 5 * iabs (row.qStart - row.qEnd) > 4 * row.queryLength then .ok []
  else
    match queries.find? (fun m => m.id = row.queryId) with
    | none => .error .attributeError
    | some query =>
      let n : Int := query.positions.length
      let mk (ps : List Int) (shift : Int) : OMap := { id := row.queryId, length := row.queryLength, positions := ps, shift := shift }
      let first := row.sortedPairs.head?.getD nullPr
      let last  := row.sortedPairs.getLast?.getD nullPr
      if row.qStart = 0 ∨ row.qEnd = 0 then
        if !row.rev then
          match indexOf? row.qEnd query.positions with
          | none => .error .valueError
          | some i =>
            let ps := pySliceFrom query.positions ((i : Int) - 2)
            if row.qEnd = 0 then .ok [] else .ok [mk ps (n - ps.length)]
        else
          .ok [mk (pySliceTo query.positions (last.q.site + 3)) 0]
      else
        let parts : Except Err (List Int × List Int) :=
          if !row.rev then
            match indexOf? row.qStart query.positions, indexOf? row.qEnd query.positions with
            | some i, some j => .ok (pySliceTo query.positions ((i : Int) + 3), pySliceFrom query.positions ((j : Int) - 2))
            | _, _ => .error .valueError
          else .ok (pySliceTo query.positions (last.q.site + 3), pySliceFrom query.positions (first.q.site - 2))
        match parts with
        | .error e => .error e
        | .ok (p1, p2) =>
          if p1.length ≥ 7 ∧ p2.length ≥ 7 then .ok [mk p1 0, mk p2 (n - p2.length)]
          else if p1.length ≥ 7 then .ok [mk p1 0]
          else if p2.length ≥ 7 then .ok [mk p2 (n - p2.length)]
          else .ok []

/-- `check_overlap` (alignment_results.py:234-250) -/
def checkOverlap (a b : Row) (maxDifference : Int) : Bool :=
  a.rev = b.rev && a.referenceId = b.referenceId &&
    decide (iabs (max a.rStart b.rStart - min a.rEnd b.rEnd) ≤ maxDifference)

/-- `__isOneToOneAndCollinear` (added by the `fix:` commit): at least one pair, reference site
    ids strictly ascending in listed order, query site ids strictly monotone in the direction of
    the strand -/
def strictlyAscending : List Int → Bool
  | []           => true
  | [_]          => true
  | a :: b :: t  => decide (a < b) && strictlyAscending (b :: t)

def Row.isOneToOneAndCollinear (r : Row) : Bool :=
  let rs := r.pairs.map (fun p => p.r.site)
  let qs := r.pairs.map (fun p => if r.rev then - p.q.site else p.q.site)
  !r.pairs.isEmpty && strictlyAscending rs && strictlyAscending qs

/-- `AlignmentResultRow.resolve` (alignment_results.py:252-280): only `segments[0]` of each row
    enters the join; `none` when the joined row is not a valid matching (the `fix:` commit) -/
def joinRows (P : Params) (a b : Row) : Except Err (Option Row) :=
  match a.pairs, b.pairs, a.segments, b.segments with
  | pa :: _, pb :: _, sa :: _, sb :: _ => do
    let (l, r) ← if pa.r.pos < pb.r.pos then resolvePair P sa sb else resolvePair P sb sa
    let j := Row.create P [l, r] a.queryId a.referenceId a.queryLength a.referenceLength a.rev
    return if j.isOneToOneAndCollinear then some j else none
  | _, _, _, _ => .error .indexError

/-- the join as it was before the repair: always returns the joined row (F7) -/
def joinRowsUnchecked (P : Params) (a b : Row) : Except Err Row :=
  match a.pairs, b.pairs, a.segments, b.segments with
  | pa :: _, pb :: _, sa :: _, sb :: _ => do
    let (l, r) ← if pa.r.pos < pb.r.pos then resolvePair P sa sb else resolvePair P sb sa
    return Row.create P [l, r] a.queryId a.referenceId a.queryLength a.referenceLength a.rev
  | _, _, _, _ => .error .indexError

/-- inner loop of `AlignmentResults.resolve` over one reference's rows (lines 51-63) -/
def resolveGroups (P : Params) (maxDifference : Int) : List (List Row) → Except Err (List Row × List Row)
  | []      => .ok ([], [])
  | g :: gs => do
    let (j, s) ← resolveGroups P maxDifference gs
    match g with
    | []  => return (j, s)
    | [x] => return (j, x :: s)
    | x :: y :: rest =>
      if checkOverlap x y maxDifference then
        match ← joinRows P x y with
        | some r => return (r :: j, s)
        | none   => return (j, x :: y :: rest ++ s)
      else return (j, x :: y :: rest ++ s)

/-- `AlignmentResults.resolve` (lines 44-64): (joined, separate) -/
def resolveRows (P : Params) (maxDifference : Int) (rows : List Row) : Except Err (List Row × List Row) := do
  let byRef := groupAdj (fun r => r.referenceId) (isort (fun r => r.referenceId) rows)
  let groups := byRef.flatMap fun g => groupAdj (fun r => r.queryId) (isort (fun r => r.queryId) g)
  resolveGroups P maxDifference groups

inductive Mode | single | best | separate | joined | all
deriving DecidableEq, Repr, Inhabited

/-- output of a run: rows of the main file and of the numbered additional files -/
structure Output where
  main  : List Row
  extra : List (Nat × List Row) := []
deriving Repr, Inhabited

/-- `getSecondPassAlignmentRows` (multi_pass_workflow_coordinator.py:60-68) -/
def secondPass (cfg : Cfg) (refs : List OMap) (t : SeedTable) (qs : List OMap) (first : List Row) (it : Int) :
    Except Err (List Row) := do
  let frags ← first.mapM fun r => unalignedFragments r qs
  let rows ← executeSingle cfg refs t frags.flatten it
  return rows.map fun r => { r with alignedRest := true }

/-- `execute` of either coordinator followed by `AlignmentResults.create` in `Program.run` -/
def execute (cfg : Cfg) (mode : Mode) (refs : List OMap) (t : SeedTable) (qs : List OMap) (it : Int := 1) :
    Except Err Output := do
  let first ← executeSingle cfg refs t qs it
  if mode = .single then return { main := filterBestPerQuery first }
  let second ← secondPass cfg refs t qs first it
  let first' := if mode = .best then first ++ second else first
  let f1 := filterBestPerQuery first'
  let f2 := filterBestPerQuery second
  if mode = .separate then return { main := filterBestPerQuery f1, extra := [(1, f2)] }
  let (joined, separate) ← resolveRows cfg.P cfg.maxDifference (f1 ++ f2)
  match mode with
  | .best =>
    let ids := joined.map (·.queryId)
    let bestRows := f1.filter fun r => !ids.contains r.queryId
    return { main := filterBestPerQuery (isort (fun r => r.queryId) (joined ++ bestRows)) }
  | .joined => return { main := filterBestPerQuery joined, extra := [(1, separate)] }
  | _       => return { main := filterBestPerQuery joined, extra := [(1, f1), (2, f2)] }

/-- `__readMaps` (program.py:51-59): read, filter by id, trim the queries -/
def readMaps (refRows qryRows : List CRow) (refIds qryIds : List Int) : Except Err (List OMap × List OMap) := do
  let refs ← readCmap 1 refRows refIds
  let qs ← readCmap 1 qryRows qryIds
  return (refs, qs.map OMap.trim)

/-! ### rendering (xmap_reader.py:63-80) -/

def Row.toXRow (cfg : Cfg) (cigar : List Pr → Except Err String) (i : Nat) (r : Row) : Except Err XRow := do
  let h ← cigar r.pairs
  return { entryId := i, qid := r.queryId, rid := r.referenceId, qStart := r.qStart, qEnd := r.qEnd,
           rStart := r.rStart, rEnd := r.rEnd, rev := r.rev,
           conf100 := (r.confidence * 100) / (cfg.den : Int), hitEnum := h,
           qLen := r.queryLength, rLen := r.referenceLength, alignedRest := r.alignedRest,
           pairs := r.pairs.map fun p => (p.r.site, p.q.site) }

def renderRowsFrom (cfg : Cfg) : Nat → List Row → Except Err (List String)
  | _, []      => .ok []
  | i, r :: rs => do
    let x ← r.toXRow cfg (cigarOf aggregate) i
    let tl ← renderRowsFrom cfg (i + 1) rs
    return x.line :: tl

/-- data lines of one XMAP file -/
def renderRows (cfg : Cfg) (rows : List Row) : Except Err (List String) := renderRowsFrom cfg 1 rows

/-- whole run: maps text rows → data lines of every output file -/
def runProgram (cfg : Cfg) (mode : Mode) (refRows qryRows : List CRow) (refIds qryIds : List Int)
    (t : SeedTable) (it : Int := 1) : Except Err (List (Nat × List String)) := do
  let (refs, qs) ← readMaps refRows qryRows refIds qryIds
  let out ← execute cfg mode refs t qs it
  let main ← renderRows cfg out.main
  let extra ← out.extra.mapM fun (n, rows) => do
    let ls ← renderRows cfg rows
    return (n, ls)
  return (0, main) :: extra

end Coma
