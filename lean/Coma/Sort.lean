/-
  Coma/Sort.lean — MODEL (import-free).  Python built-in semantics used all over COMA:
  stable `sorted(key=…)`, `sorted(reverse=True)` (stable too), first-wins `min`/`max`/`np.argmax`,
  `itertools.groupby` (adjacent equal keys only), `list.index` (first occurrence).
  All definitions are structurally recursive so that they reduce in the kernel.
-/
namespace Coma

/-- insert `a` before the first element whose key is ≥ key a  (keeps earlier-equal-first). -/
def insertByKey {α} (key : α → Int) (a : α) : List α → List α
  | []      => [a]
  | b :: bs => if key a ≤ key b then a :: b :: bs else b :: insertByKey key a bs

/-- stable insertion sort by an integer key = Python `sorted(xs, key=key)`. -/
def isort {α} (key : α → Int) : List α → List α
  | []      => []
  | x :: xs => insertByKey key x (isort key xs)

/-- Python `sorted(xs, key=key, reverse=True)`: descending, *stable* (equal keys keep order). -/
def isortDesc {α} (key : α → Int) (xs : List α) : List α := isort (fun a => - key a) xs

/-- `itertools.groupby(xs, key)`: maximal runs of adjacent equal keys. -/
def groupAdj {α} (key : α → Int) : List α → List (List α)
  | []      => []
  | x :: xs =>
    match groupAdj key xs with
    | (y :: g) :: gs => if key x = key y then (x :: y :: g) :: gs else [x] :: (y :: g) :: gs
    | _              => [[x]]

/-- Python `min(xs, key=f)` with a seed element: the *first* minimal element wins. -/
def minByFrom {α} (f : α → Int) : α → List α → α
  | a, []      => a
  | a, b :: bs => if f b < f a then minByFrom f b bs else minByFrom f a bs

def minBy? {α} (f : α → Int) : List α → Option α
  | []      => none
  | a :: as => some (minByFrom f a as)

/-- first index of the maximum (`np.argmax`), over integers. -/
def argmaxFrom : (best bestIdx idx : Int) → List Int → Int
  | _,    bi, _, []      => bi
  | best, bi, i, x :: xs => if x > best then argmaxFrom x i (i + 1) xs else argmaxFrom best bi (i + 1) xs

def argmax : List Int → Int
  | []      => 0
  | x :: xs => argmaxFrom x 0 1 xs

/-- `xs.index(v)`: first occurrence, `none` = ValueError. -/
def indexOf? (v : Int) : List Int → Option Nat
  | []      => none
  | x :: xs => if x = v then some 0 else (indexOf? v xs).map (· + 1)

def sumInts : List Int → Int
  | []      => 0
  | x :: xs => x + sumInts xs

/-- Python slice `xs[i:]` for possibly negative `i` (wraps once, clamps). -/
def pySliceFrom {α} (xs : List α) (i : Int) : List α :=
  if i ≥ 0 then xs.drop i.toNat
  else xs.drop ((xs.length : Int) + i).toNat      -- toNat clamps negatives to 0

/-- Python slice `xs[:j]` for possibly negative `j`. -/
def pySliceTo {α} (xs : List α) (j : Int) : List α :=
  if j ≥ 0 then xs.take j.toNat
  else xs.take ((xs.length : Int) + j).toNat

end Coma
