/-
  Coma/Indel.lean — MODEL (import-free).

  Mirrors  sv/write_indel_files.py:3-44 (cluster_indels, after the `fix:` that appends a near
  call of another type/chromosome instead of dropping it),
           sv/molecule_indels.py:116-156 and sv/segment_indels.py:159-205 (the call constructor).
-/
import Coma.Sort
import Coma.Conflict
namespace Coma

/-- one line of the indel list: [Type, Chromosome, RefStart, RefStop, QueryId(s), QueryStart,
    QueryStop, Length, Count] -/
structure Call where
  isIns  : Bool
  chrom  : Int
  rStart : Int
  rStop  : Int
  qids   : List Int
  qStart : Int
  qStop  : Int
  length : Rat
  count  : Nat := 1
deriving Repr, Inhabited, DecidableEq

def Call.sameKey (a b : Call) : Bool := a.isIns = b.isIns && a.chrom = b.chrom

def iabs' (x : Int) : Int := if x < 0 then -x else x

/-- merge `line` into the previous cluster (lines 19-27) -/
def Call.merge (prev line : Call) : Call :=
  { prev with count := prev.count + 1, rStart := min prev.rStart line.rStart,
              rStop := max prev.rStop line.rStop, length := (prev.length + line.length) / 2,
              qids := prev.qids ++ line.qids }

/-- one step of the loop over `list_indels[1:]`; the cluster list is kept reversed
    (`new_list[-1]` is the head) -/
def clusterStep (blur : Int) (acc : List Call) (line : Call) : List Call :=
  match acc with
  | []          => [line]
  | prev :: rest =>
    if iabs' (line.rStop - prev.rStop) ≤ blur then
      if line.sameKey prev then prev.merge line :: rest else line :: prev :: rest
    else line :: prev :: rest

/-- `cluster_indels` (write_indel_files.py:3-44) -/
def clusterIndels (blur : Int) (calls : List Call) : List Call :=
  (calls.foldl (clusterStep blur) []).reverse

/-- `sorted(lines, key=operator.itemgetter(1, 3))` (write_indel_files.py:62-63, 67): stable sort by
    (Chromosome, RefStop) = stable sort by RefStop, then stable sort by Chromosome -/
def sortCalls (l : List Call) : List Call := isort (·.chrom) (isort (·.rStop) l)

/-- the data lines of `write_indel_file` (write_indel_files.py:48-77): each type is sorted and clustered on
    its own (default blur 30000), the clusters of both types are merged by one more stable sort, deletions first
    among equals -/
def indelFile (blur : Int) (insertions deletions : List Call) : List Call :=
  sortCalls (clusterIndels blur (sortCalls deletions) ++ clusterIndels blur (sortCalls insertions))

/-- the unrepaired loop: a near call with another key is dropped (F4) -/
def clusterStepBuggy (blur : Int) (acc : List Call) (line : Call) : List Call :=
  match acc with
  | []          => [line]
  | prev :: rest =>
    if iabs' (line.rStop - prev.rStop) ≤ blur then
      if line.sameKey prev then prev.merge line :: rest else prev :: rest
    else line :: prev :: rest

def clusterIndelsBuggy (blur : Int) (calls : List Call) : List Call :=
  (calls.foldl (clusterStepBuggy blur) []).reverse

/-- the call constructor shared by both finders: `diff = |r_s - r_e| - |q_s - q_e|`,
    reported iff `lo < |diff| < 100000`, insertion iff `diff < -lo` -/
def mkCall (lo : Int) (chrom qid rs re qs qe : Int) : Option Call :=
  let diff := iabs' (rs - re) - iabs' (qs - qe)
  if iabs' diff > lo ∧ iabs' diff < 100000 then
    some { isIns := decide (diff < -lo), chrom := chrom, rStart := rs, rStop := re, qids := [qid],
           qStart := qs, qStop := qe, length := (diff : Rat), count := 1 }
  else none

/-! ### the loops around the constructor (sv/segment_indels.py:159-205, sv/molecule_indels.py:116-156) -/

/-- Python `xs[i]` for a possibly negative index (wraps once), IndexError outside -/
def pyIndex (xs : List Int) (i : Int) : Except Err Int :=
  let j := if i < 0 then (xs.length : Int) + i else i
  if j < 0 then .error .indexError
  else match xs[j.toNat]? with
    | some v => .ok v
    | none   => .error .indexError

/-- coordinates of the two flanking pairs `a`, `b` (reference site, query site) in the two maps:
    `positions[siteId - 1]` four times, then the constructor -/
def callAt (lo chrom qid : Int) (rpos qpos : List Int) (a b : Int × Int) : Except Err (Option Call) := do
  let rs ← pyIndex rpos (a.1 - 1)
  let qs ← pyIndex qpos (a.2 - 1)
  let re ← pyIndex rpos (b.1 - 1)
  let qe ← pyIndex qpos (b.2 - 1)
  return mkCall lo chrom qid rs re qs qe

/-- `segment_indels.look_for_indels_in_breakage` for one alignment: every breakage index `i` with
    `len(alignedPairs) > i + 1` yields the call between pairs `i` and `i + 1` (threshold 100) -/
def segmentCalls (chrom qid : Int) (rpos qpos : List Int) (pairs : List (Int × Int)) : List Int → Except Err (List Call)
  | []      => .ok []
  | i :: is => do
    let rest ← segmentCalls chrom qid rpos qpos pairs is
    if (pairs.length : Int) > i + 1 then
      -- Python indexing: a negative breakage index wraps
      let geti (k : Int) : Except Err (Int × Int) :=
        let j := if k < 0 then (pairs.length : Int) + k else k
        if j < 0 then .error .indexError else
        match pairs[j.toNat]? with
        | some p => .ok p
        | none   => .error .indexError
      let b ← geti (i + 1)
      let a ← geti i
      match ← callAt 100 chrom qid rpos qpos a b with
      | some c => return c :: rest
      | none   => return rest
    else return rest

/-- `molecule_indels.look_for_indels_in_breakage` for one alignment: the breakage pair is given (it comes
    from the un-joined records), the next pair is `alignedPairs[index + 1]` (IndexError past the end), threshold 2000 -/
def moleculeCall (chrom qid : Int) (rpos qpos : List Int) (pairs : List (Int × Int)) (index : Int) (bp : Int × Int) :
    Except Err (Option Call) := do
  let k := index + 1
  let j := if k < 0 then (pairs.length : Int) + k else k
  if j < 0 then throw .indexError
  match pairs[j.toNat]? with
  | none   => throw .indexError
  | some b => callAt 2000 chrom qid rpos qpos bp b

end Coma
