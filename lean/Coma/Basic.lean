/-
  Coma/Basic.lean — MODEL (import-free, executable).

  Mirrors  src/correlation/optical_map.py:17-56  (PositionWithSiteId, OpticalMap, trim,
  getPositionsWithSiteIds)  and  src/correlation/peak.py (only `position` is observable).

  Coordinates are `Int` (base pairs).  Site ids are `Int` (fragments carry a `shift`).
-/
namespace Coma

/-- `PositionWithSiteId` (optical_map.py:17-23): ordered by `position` only. -/
structure Lbl where
  site : Int
  pos  : Int
deriving DecidableEq, Repr, Inhabited

/-- `OpticalMap` (optical_map.py:31-36). -/
structure OMap where
  id        : Int
  length    : Int
  positions : List Int
  shift     : Int := 0
deriving DecidableEq, Repr, Inhabited

/-- forward enumeration, optical_map.py:52-56 -/
def labelsFwd (i : Int) : List Int → List Lbl
  | []      => []
  | p :: ps => ⟨i, p⟩ :: labelsFwd (i + 1) ps

/-- reverse enumeration over `positions[::-1]`, optical_map.py:46-51 -/
def labelsRev (i : Int) (e : Int) : List Int → List Lbl
  | []      => []
  | p :: ps => ⟨i, e - p⟩ :: labelsRev (i - 1) e ps

/-- `getPositionsWithSiteIds(reverse)` -/
def OMap.labels (m : OMap) (rev : Bool) : List Lbl :=
  if rev then labelsRev ((m.positions.length : Int) + m.shift) (m.length - 1) m.positions.reverse
  else labelsFwd (1 + m.shift) m.positions

/-- Python `xs[-1]` on a non-empty list (callers guard emptiness explicitly). -/
def lastD (d : Int) : List Int → Int
  | []      => d
  | [x]     => x
  | _ :: xs => lastD d xs

/-- `OpticalMap.trim` (optical_map.py:38-43): note `shift` is reset to the default 0. -/
def OMap.trim (m : OMap) : OMap :=
  match m.positions with
  | []      => m
  | p0 :: _ => { id := m.id, length := lastD p0 m.positions - p0 + 1,
                 positions := m.positions.map (fun p => p - p0), shift := 0 }

/-- mirror image of a molecule: same labels read from the other end (used by C11). -/
def OMap.mirror (m : OMap) : OMap :=
  { m with positions := (m.positions.map (fun p => m.length - 1 - p)).reverse }

end Coma
