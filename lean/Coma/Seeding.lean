/-
  Coma/Seeding.lean — MODEL (import-free).

  Ties the seed table of `Coma/Passes.lean` to the secondary stage of `Coma/Peaks.lean`:
  `__getSecondaryCorrelation` (workflow_coordinator.py:66-73) refines every selected primary peak,
  and `__getAlignmentRow` (75-80) hands `sc.peaks` to the aligner.  Given only the SELECTED PRIMARY
  PEAKS of every query / fragment (reference, strand, position — the part of seeding that is
  floating-point and stays a parameter), the model derives the secondary peak lists itself.

  When more than `keep` (= 10) peaks pass `find_peaks`, numpy's `argpartition` delivers the ten
  highest in an unspecified order; that order is then taken from the real run (`captured`) after
  checking that it is a rearrangement of the model's ten highest.
-/
import Coma.Passes
import Coma.Peaks
namespace Coma

/-- a selected primary peak, with the secondary positions the real run delivered for it -/
structure PSeed where
  refId    : Int
  rev      : Bool
  primary  : Int
  captured : List Int
deriving Repr, Inhabited, DecidableEq

abbrev PTable := List (QKey × List PSeed)

/-- the molecule a key stands for: the whole (trimmed) query, or the fragment of it that
    `getUnalignedFragments` cuts (same id and length, a run of its labels, label-number offset) -/
def fragmentOf (qs : List OMap) (k : QKey) : Option OMap :=
  (qs.find? (fun q => q.id = k.id)).map fun q =>
    { q with positions := (q.positions.drop k.shift.toNat).take k.n, shift := k.shift }

inductive SecStatus | derived | reordered | ambiguous | mismatch
deriving DecidableEq, Repr, Inhabited

def SecStatus.name : SecStatus → String
  | .derived => "derived" | .reordered => "reordered" | .ambiguous => "ambiguous" | .mismatch => "MISMATCH"

/-- is the height of the last kept peak equal to that of the first dropped one (numpy may then keep either)? -/
def boundaryTie (keep : Nat) (hs : List Int) : Bool :=
  let d := isortDesc id hs
  match d[keep - 1]?, d[keep]? with
  | some a, some b => a = b
  | _, _ => false

/-- minimum of a non-empty list of heights (0 for the empty list, never used) -/
def minHeight : List Int → Int
  | []      => 0
  | [x]     => x
  | x :: xs => min x (minHeight xs)

/-- with a tie at the cut, numpy may keep any of the peaks of the boundary height: the delivered list
    must have `keep` distinct positions, contain every kept peak strictly above the boundary height,
    and otherwise only peaks that passed `find_peaks` with at least the boundary height -/
def tieConsistent (c : SecCfg) (start : Int) (all : List (Nat × Int)) (pk : List (Int × Int)) (captured : List Int) : Bool :=
  let hmin := minHeight (pk.map (·.2))
  let allBp := all.map fun p => (toBp (p.1 : Int) c.res start, p.2)
  captured.length = pk.length
    && strictlyAscending (isort id captured)
    && (pk.filter (fun p => p.2 > hmin)).all (fun p => captured.contains p.1)
    && captured.all (fun x => allBp.any fun p => p.1 = x && decide (p.2 ≥ hmin))

/-- the secondary peaks of one selected primary peak -/
def deriveSeed (c : SecCfg) (refs : List OMap) (q : OMap) (s : PSeed) : Except Err (Seed × SecStatus) :=
  match refs.find? (fun r => r.id = s.refId) with
  | none   => .error .stopIteration
  | some r => do
    let corr ← refineCorrelation c r q s.rev s.primary
    let all := findPeaksSecondary c.thr (corr.map Int.ofNat)
    let pk ← refine c r q s.rev s.primary
    if (all.length : Int) ≤ c.keep then
      return ({ refId := s.refId, rev := s.rev, peaks := pk.map (·.1) }, .derived)
    else
      let st :=
        if isort id (pk.map (·.1)) = isort id s.captured then SecStatus.reordered
        else if boundaryTie c.keep.toNat (all.map (·.2)) && tieConsistent c (s.primary - c.margin) all pk s.captured
        then .ambiguous else .mismatch
      return ({ refId := s.refId, rev := s.rev, peaks := s.captured }, st)

structure Derived where
  table  : SeedTable
  status : List (QKey × List SecStatus)
deriving Repr, Inhabited

def deriveTable (c : SecCfg) (refs qs : List OMap) : PTable → Except Err Derived
  | []            => .ok { table := [], status := [] }
  | (k, ss) :: tl => do
    let q ← match fragmentOf qs k with
      | some q => pure q
      | none   => .error .attributeError
    let ds ← ss.mapM (deriveSeed c refs q)
    let d ← deriveTable c refs qs tl
    return { table := (k, ds.map (·.1)) :: d.table, status := (k, ds.map (·.2)) :: d.status }

/-- whole run with the secondary stage inside the model -/
def runProgramSeeded (cfg : Cfg) (c : SecCfg) (mode : Mode) (refRows qryRows : List CRow) (refIds qryIds : List Int)
    (pt : PTable) (it : Int := 1) : Except Err (List (Nat × List String) × Derived) := do
  let (refs, qs) ← readMaps refRows qryRows refIds qryIds
  let d ← deriveTable c refs qs pt
  let files ← runProgram cfg mode refRows qryRows refIds qryIds d.table it
  return (files, d)

end Coma
