/-
  Coma/Corr.lean — MODEL (import-free).

  Mirrors the ARITHMETIC of  src/correlation/optical_map.py:58-82, 88-90, 141-155, 197-217:
  `scipy.signal.correlate(reference, query, mode='valid')` of two 0/1 vectors is an exact integer
  computation (the FFT only approximates it in floating point); the normalising factor is the
  sliding-window label count of the reference plus the label count of the query, halved; a bin
  converts to base pairs through `toBp`.  `find_peaks` is NOT modelled (runtime).
-/
import Coma.Vector
namespace Coma

def dot : List Nat → List Nat → Nat
  | x :: xs, y :: ys => x * y + dot xs ys
  | _,       _       => 0

/-- `correlate(ref, q, mode='valid')[k] = Σ_j ref[k+j]·q[j]`, k = 0 … |ref|−|q| (empty when the
    query vector is longer; scipy then silently swaps the operands — the real code's guard on
    ContigLengths does not exclude that, see DESIGN §10 F10) -/
def corrValidFrom (q : List Nat) : (fuel : Nat) → List Nat → List Nat
  | 0,        _   => []
  | fuel + 1, ref => dot ref q :: corrValidFrom q fuel (ref.drop 1)

def corrValid (ref q : List Nat) : List Nat :=
  if q.length ≤ ref.length then corrValidFrom q (ref.length - q.length + 1) ref else []

def ones (n : Nat) : List Nat := List.replicate n 1

def sumNat : List Nat → Nat
  | []      => 0
  | x :: xs => x + sumNat xs

/-- twice the normalising factor at lag k: (window label count of the reference) + (label count
    of the query)  —  optical_map.py:67 without the division by 2 -/
def norm2 (ref q : List Nat) : List Nat :=
  (corrValid ref (ones q.length)).map (· + sumNat q)

/-- the normalised correlation at lag k as the exact fraction `2·corr[k] / norm2[k]` -/
def normalised (ref q : List Nat) : List (Nat × Nat) :=
  List.zipWith (fun c n => (2 * c, n)) (corrValid ref q) (norm2 ref q)

/-- `CorrelationResult.createPeaks` (optical_map.py:141-155) on (bin, height) pairs: when there are
    more peaks than `peaksCount` only the `peaksCount` highest are kept (numpy's `argpartition`
    leaves their order unspecified, so the result is meant as a set); bins become base pairs -/
def createPeaks (count : Int) (res start : Int) (peaks : List (Int × Int)) : List (Int × Int) :=
  let kept := if count < peaks.length then selectPeaks count.toNat (fun (p : Int × Int) => p.2) peaks else peaks
  kept.map fun p => (toBp p.1 res start, p.2)

/-- position reported for a primary peak at bin `k` (resolution `res`, correlation start 0) and
    for a secondary peak at bin `k` of the refinement window starting at `peak - margin`
    (optical_map.py:141-155, 197-217) -/
def primaryPeakBp (k res : Int) : Int := toBp k res 0
def secondaryPeakBp (k res peak margin : Int) : Int := toBp k res (peak - margin)

end Coma
