/-
  Coma/Peaks.lean — MODEL (import-free).

  The SECONDARY seeding stage, exactly:

    src/correlation/sequence_generator.py:12-14      positionsToSequence = blur ∘ vectorise
    src/correlation/optical_map.py:84-86             getSequence (reverse strand = reversed vector)
    src/correlation/optical_map.py:197-217, 219-221  InitialAlignment.refine
    src/correlation/optical_map.py:141-155           createPeaks (Coma/Corr.lean)

  `refine` correlates two INTEGER arrays; scipy's `correlate(method='fft')` rounds an
  integer-typed result, so the correlation is an exact integer array and everything downstream of
  it (`find_peaks` with a height and a prominence condition, top-10, bin → bp) is exact integer /
  rational arithmetic.  The two scipy calls are library code, not repository code: they enter as an
  EXECUTABLE CONTRACT (`correlate`, `findPeaksSecondary` below), which the correspondence check
  runs against the real scipy on every invocation (ops XCORR, FINDPEAKS) — the repository's own
  glue around them (window arithmetic, arguments, strand handling, conversion) is mirrored.

  The PRIMARY stage (`getInitialAlignment`) divides by a float array that carries FFT rounding
  noise, so exact ties are broken by noise there; it stays a parameter of the model (the selected
  primary peaks: reference, strand, position).
-/
import Coma.Corr
namespace Coma

/-! ### scipy.signal.find_peaks — the part `refine` uses -/

/-- one pass of `_local_maxima_1d`: `cand = some l` while the samples from index `l` on all equal
    `prev` and the sample before `l` is smaller (a rise was seen); a fall closes the plateau. A
    plateau touching either end of the array is not a peak. -/
def plateausGo : (i : Nat) → (prev : Int) → (cand : Option Nat) → List Int → List (Nat × Nat)
  | _, _,    _,    []      => []
  | i, prev, cand, x :: xs =>
    if prev < x then plateausGo (i + 1) x (some i) xs
    else if x = prev then plateausGo (i + 1) x cand xs
    else match cand with
      | some l => (l, i - 1) :: plateausGo (i + 1) x none xs
      | none   => plateausGo (i + 1) x none xs

/-- (left edge, right edge) of every local-maximum plateau, ascending -/
def plateaus : List Int → List (Nat × Nat)
  | []      => []
  | x :: xs => plateausGo 1 x none xs

/-- `_local_maxima_1d(x)[0]`: the midpoints `(left + right) // 2` -/
def localMaxima (x : List Int) : List Nat := (plateaus x).map fun p => (p.1 + p.2) / 2

/-- walk away from a peak of height `v` while the samples are `≤ v`, keeping the minimum
    (`_peak_prominences`, one side, `wlen = None`) -/
def runMin (v : Int) : (cur : Int) → List Int → Int
  | cur, []      => cur
  | cur, y :: ys => if y ≤ v then runMin v (min cur y) ys else cur

/-- `peak_prominences(x, [p])[0]`: height above the higher of the two base minima -/
def prominence (x : List Int) (p : Nat) : Int :=
  match x[p]? with
  | none   => 0          -- never requested: `localMaxima` only returns valid indices (`Proofs/Peaks`)
  | some v => v - max (runMin v v (x.take p).reverse) (runMin v v (x.drop (p + 1)))

/-- `max(initial=0)` -/
def maxInit0 : List Int → Int
  | []      => 0
  | x :: xs => max x (maxInit0 xs)

/-- `find_peaks(x, height=thr, width=(None, None), prominence=0.05 * x.max(initial=0))`
    (optical_map.py:206-211) → (index, height).  `0.05·m ≤ prom` is decided as `m ≤ 20·prom`; the
    float product agrees with that on every integer `m ≤ 200 000` (checked by the harness on every
    run: `contract_prominence_threshold`).  The width condition `(None, None)` keeps everything. -/
def findPeaksSecondary (thr : Rat) (x : List Int) : List (Nat × Int) :=
  let m := maxInit0 x
  (localMaxima x).filterMap fun p =>
    match (x[p]? : Option Int) with
    | none   => none
    | some h => if thr ≤ ((h : Int) : Rat) ∧ m ≤ 20 * prominence x p then some (p, h) else none

/-! ### the repository's glue -/

/-- `SequenceGenerator.positionsToSequence` (sequence_generator.py:12-14) -/
def sequenceOf (res blurR : Int) (positions : List Int) (start : Int) (stop? : Option Int) :
    Except Err (List Nat) := do
  let v ← vectorise positions res start stop?
  blur v blurR

/-- `scipy.signal.correlate(a, b, mode='valid', method='fft')` on integer arrays: exact; raises
    IndexError on an empty operand; when `b` is the longer one scipy swaps the operands and
    reverses the result -/
def correlate (a b : List Nat) : Except Err (List Nat) :=
  if a.isEmpty || b.isEmpty then .error .indexError
  else if b.length ≤ a.length then .ok (corrValid a b)
  else .ok (corrValid b a).reverse

structure SecCfg where
  res    : Int := 100        -- `-r2`
  blur   : Int := 4          -- `-b2`
  margin : Int := 16000      -- `-ma`
  thr    : Rat := 27         -- `-pt`
  keep   : Int := 10         -- the literal 10 in `refine`
deriving Repr, Inhabited

/-- `OpticalMap.getSequence(generator, reverseStrand)` with the default window (optical_map.py:84-86) -/
def querySequence (c : SecCfg) (q : OMap) (rev : Bool) : Except Err (List Nat) := do
  let s ← sequenceOf c.res c.blur q.positions 0 none
  return if rev then s.reverse else s

/-- the secondary correlation of `refine` (optical_map.py:199-205) and the window start -/
def refineCorrelation (c : SecCfg) (ref q : OMap) (rev : Bool) (peak : Int) : Except Err (List Nat) := do
  let qs ← querySequence c q rev
  let rs ← sequenceOf c.res c.blur ref.positions (peak - c.margin) (some (peak + q.length + c.margin))
  correlate rs qs

/-- `InitialAlignment.refine(peakPosition, generator, margin, threshold).peaks` as
    (position in bp, height); in ascending position when at most `keep` peaks pass, otherwise the
    `keep` highest (the real order is then numpy's unspecified `argpartition` order) -/
def refine (c : SecCfg) (ref q : OMap) (rev : Bool) (peak : Int) : Except Err (List (Int × Int)) := do
  let corr ← refineCorrelation c ref q rev peak
  let pk := findPeaksSecondary c.thr (corr.map Int.ofNat)
  return createPeaks c.keep c.res (peak - c.margin) (pk.map fun p => ((p.1 : Int), p.2))

/-- number of peaks that pass `find_peaks` in `refine` (before the top-`keep` cut) -/
def refineCount (c : SecCfg) (ref q : OMap) (rev : Bool) (peak : Int) : Except Err Nat := do
  let corr ← refineCorrelation c ref q rev peak
  return (findPeaksSecondary c.thr (corr.map Int.ofNat)).length

end Coma
