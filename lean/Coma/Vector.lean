/-
  Coma/Vector.lean — MODEL (import-free).

  Mirrors  src/correlation/vectorise.py:7-39 (generator with window state; blur by shifted OR),
           src/correlation/sequence_generator.py,
           src/correlation/optical_map.py:26-28 (bin → bp), 141-155 (top-N per correlation),
           src/correlation/peaks_selector.py:18-21 (top-N over all correlations).
-/
import Coma.Conflict
namespace Coma

/-- the inner `while position >= window_end` loop (vectorise.py:17-22):
    returns (zeros emitted, new window_start, whether the generator returned). -/
def vecWhile (res stop pos : Int) : (fuel : Nat) → (ws : Int) → (zeros : Nat) → Nat × Int × Bool
  | 0,     ws, z => (z, ws, false)
  | f + 1, ws, z =>
    if pos ≥ ws + res then
      let ws' := ws + res
      if ws' > stop then (z + 1, ws', true) else vecWhile res stop pos f ws' (z + 1)
    else (z, ws, false)

/-- the `for position in positions` loop (vectorise.py:14-25) -/
def vecGo (res stop : Int) : (ws : Int) → List Int → List Nat
  | _,  []      => []
  | ws, p :: ps =>
    if p < ws then vecGo res stop ws ps
    else
      let r := vecWhile res stop p (((p - ws) / res).toNat + 1) ws 0
      List.replicate r.1 0 ++ (if r.2.2 then [] else 1 :: vecGo res stop (r.2.1 + res) ps)

/-- `vectorisePositions` (vectorise.py:7-25); `stop? = none` or `some 0` ⇒ last label
    (`end or positions[-1]`), IndexError on an empty list in that case. -/
def vectorise (positions : List Int) (res start : Int) (stop? : Option Int) : Except Err (List Nat) :=
  if res < 1 then .error .valueError
  else
    let stop : Except Err Int :=
      match stop? with
      | some e => if e ≠ 0 then .ok e else
          (match positions.getLast? with | some l => .ok l | none => .error .indexError)
      | none => (match positions.getLast? with | some l => .ok l | none => .error .indexError)
    match stop with
    | .error e => .error e
    | .ok s    => .ok (vecGo res s start positions)

/-- `zip_longest(a, b, fillvalue=0)` combined by OR -/
def orLong : List Nat → List Nat → List Nat
  | [],      ys      => ys
  | xs,      []      => xs
  | x :: xs, y :: ys => (if x ≠ 0 ∨ y ≠ 0 then 1 else 0) :: orLong xs ys

/-- `blur` (vectorise.py:28-39): OR of the vector with its shifts by ±1..±radius, cut to length -/
def blurGo (v : List Nat) : (shift : Nat) → (n : Nat) → List Nat → List Nat
  | _, 0,     acc => acc
  | s, n + 1, acc => blurGo v (s + 1) n (orLong (orLong acc (v.drop s)) (List.replicate s 0 ++ v))

def blur (v : List Nat) (radius : Int) : Except Err (List Nat) :=
  if radius < 0 then .error .valueError
  else .ok ((blurGo v 1 radius.toNat (v.map fun x => if x ≠ 0 then 1 else 0)).take v.length)

/-- `toRelativeGenomicPositions` (optical_map.py:26-28): `ceil(res/2) - 1` -/
def toBp (bin res start : Int) : Int := bin * res + ((res + 1) / 2 - 1 + start)

/-- `PeaksSelector.selectPeaks` (peaks_selector.py:18-21): stable descending sort by score, first `count` -/
def selectPeaks {α} (count : Nat) (score : α → Int) (peaks : List α) : List α :=
  (isortDesc score peaks).take count

end Coma
