/-
  Coma/Row.lean — MODEL (import-free).

  Mirrors  src/alignment/alignment_results.py:67-177  (AlignmentResultRow.create, the
  alignedPairs property, cigarString = hit-enum walk + run-length aggregation) and
  src/alignment/aligner.py:91-111 (Aligner.align / getSegments).
-/
import Coma.Conflict
namespace Coma

/-- `AlignmentResultRow` (alignment_results.py:88-113) -/
structure Row where
  segments    : List Seg
  queryId     : Int
  referenceId : Int
  queryLength : Int
  referenceLength : Int
  qStart      : Int
  qEnd        : Int
  rStart      : Int
  rEnd        : Int
  rev         : Bool
  confidence  : Int
  alignedRest : Bool := false
deriving Repr, Inhabited

/-- `positions` / `alignedPairs` properties (lines 115-121): segment order, *not* sorted -/
def Row.pairs (r : Row) : List Pr := r.segments.flatMap Seg.pairs

/-- `AlignmentResultRow.create` (lines 68-86) -/
def Row.create (P : Params) (segs : List Seg) (qid rid qlen rlen : Int) (rev : Bool) : Row :=
  let sorted := isort (fun (p : Pr) => p.r.pos) (segs.flatMap Seg.pairs)
  let first := sorted.head?.getD nullPr
  let last  := sorted.getLast?.getD nullPr
  { segments := segs, queryId := qid, referenceId := rid, queryLength := qlen, referenceLength := rlen,
    qStart := (if !rev then first else last).q.pos,
    qEnd   := (if !rev then last else first).q.pos,
    rStart := first.r.pos, rEnd := last.r.pos, rev := rev,
    confidence := sumInts (segs.map (Seg.score P)) }

/-! ### HitEnum -/

inductive Hit | M | D | I
deriving DecidableEq, Repr, Inhabited

def Hit.chr : Hit → String
  | .M => "M" | .D => "D" | .I => "I"

/-- `__removeDuplicateQueryPositionsPreservingLastOne` (lines 153-157): last of every run of
    adjacent equal query site ids -/
def dedupQueryKeepLast : List Pr → List Pr
  | []      => []
  | [p]     => [p]
  | p :: q :: rest => if p.q.site = q.q.site then dedupQueryKeepLast (q :: rest)
                      else p :: dedupQueryKeepLast (q :: rest)

/-- state of the generator `__getHitEnums` (lines 134-151) at one reference index.
    `cur = none` is `currentPair = None` after the iterator is exhausted. -/
def hitWalk : (fuel : Nat) → (refIdx last : Int) → (cur : Option Pr) → (rest : List Pr) →
    (prevQ : Int) → Except Err (List Hit)
  | 0, _, _, _, _, _ => .ok []
  | fuel + 1, refIdx, last, cur, rest, prevQ =>
    if refIdx > last then .ok []
    else match cur with
      | none => .error .attributeError        -- `currentPair.query` on None
      | some c =>
        let inc := (c.q.site - prevQ).natAbs
        let ins := if inc > 1 then List.replicate (inc - 1) Hit.I else []
        let prevQ := if inc > 1 then c.q.site else prevQ
        if c.r.site = refIdx then
          let (cur', rest') := match rest with
            | []      => (none, [])
            | n :: ns => (some n, ns)
          do let tl ← hitWalk fuel (refIdx + 1) last cur' rest' c.q.site
             return ins ++ Hit.M :: tl
        else if c.r.site > refIdx then
          do let tl ← hitWalk fuel (refIdx + 1) last cur rest prevQ
             return ins ++ Hit.D :: tl
        else
          do let tl ← hitWalk fuel (refIdx + 1) last cur rest prevQ
             return ins ++ tl

def hitEnums (pairs : List Pr) : Except Err (List Hit) :=
  match dedupQueryKeepLast pairs with
  | []      => .error .stopIteration          -- `next(pairsIterator)` (guarded by the caller)
  | p :: ps =>
    let last := ((p :: ps).getLast (by simp)).r.site
    hitWalk (last - p.r.site + 1).toNat p.r.site last (some p) ps p.q.site

/-- `__aggregateHitEnums` (lines 159-172) **as repaired by the `fix:` commit** (emit the last
    run from `previousHit`); `aggregateBuggy` below is the unrepaired loop. -/
def aggregateFrom : (prev : Hit) → (count : Nat) → List Hit → List (Nat × Hit)
  | prev, n, []      => [(n, prev)]
  | prev, n, h :: hs => if h = prev then aggregateFrom prev (n + 1) hs
                        else (n, prev) :: aggregateFrom h 1 hs

def aggregate : List Hit → Except Err (List (Nat × Hit))
  | []      => .error .indexError             -- hits[0]
  | h :: hs => .ok (aggregateFrom h 1 hs)

/-- the loop as written before the repair: the final run is emitted only `if hit:`, i.e. only
    when the loop body ran at least once (F1). -/
def aggregateBuggy : List Hit → Except Err (List (Nat × Hit))
  | []      => .error .indexError
  | [_]     => .ok []
  | h :: hs => .ok (aggregateFrom h 1 hs)

def renderRuns (rs : List (Nat × Hit)) : String :=
  String.join (rs.map fun (n, h) => toString n ++ h.chr)

/-- `cigarString` (lines 127-132) -/
def cigarOf (agg : List Hit → Except Err (List (Nat × Hit))) (pairs : List Pr) : Except Err String :=
  if pairs.isEmpty then .ok ""
  else do
    let hs ← hitEnums pairs
    let rs ← agg hs
    return renderRuns rs

/-- decoder used by C03: replay the operations from the first pair (which is the first `M`).
    `rev` gives the query direction.  Returns the pairs *after* the first one. -/
def expandRuns : List (Nat × Hit) → List Hit
  | []             => []
  | (n, h) :: rest => List.replicate n h ++ expandRuns rest

def replayHits (rev : Bool) : (r q : Int) → List Hit → List (Int × Int)
  | _, _, []        => []
  | r, q, .M :: hs  =>
      let q' := if rev then q - 1 else q + 1
      (r + 1, q') :: replayHits rev (r + 1) q' hs
  | r, q, .D :: hs  => replayHits rev (r + 1) q hs
  | r, q, .I :: hs  => replayHits rev r (if rev then q - 1 else q + 1) hs

/-- replay a whole operation list starting *at* the first pair `(r0, q0)`:
    the leading `M` is that pair itself. -/
def replay (rev : Bool) (r0 q0 : Int) : List Hit → Option (List (Int × Int))
  | .M :: hs => some ((r0, q0) :: replayHits rev r0 q0 hs)
  | _        => none

/-! ### Aligner.align (aligner.py:91-111) -/

/-- one seed = one secondary-correlation peak position -/
def segmentsOfPeak (P : Params) (ref qry : OMap) (rev : Bool) (it : Int) (peak : Int) : Except Err (List Seg) :=
  let xs := engineAlign P.md ref qry peak (peak + qry.length) rev it
  match scoreAll? P xs with
  | none   => .error .valueError
  | some _ => .ok (getSegments P peak xs)

def segmentsOfPeaks (P : Params) (ref qry : OMap) (rev : Bool) : (it : Int) → List Int → Except Err (List Seg)
  | _, []        => .ok []
  | it, p :: ps  => do
    let a ← segmentsOfPeak P ref qry rev it p
    let b ← segmentsOfPeaks P ref qry rev (it + 1) ps
    return a ++ b

/-- `Aligner.align(reference, query, peaks, isReverse)` -/
def alignerAlign (P : Params) (C : ChainCfg) (ref qry : OMap) (peaks : List Int) (rev : Bool) (it : Int := 1) :
    Except Err Row := do
  let segs ← segmentsOfPeaks P ref qry rev it peaks
  let res ← resolveConflicts P C segs
  return Row.create P res qry.id ref.id qry.length ref.length rev

end Coma
