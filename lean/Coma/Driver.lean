/-
  Coma/Driver.lean — line-protocol driver around the MODEL (import-free, compiled as `comadriver`).

  One operation per input line  `OP key=value key=value …`  →  one canonical output line.
  The Python harness executes the same operation on the real code and prints the same
  canonical form; the two streams are diffed (harness/proto.py).
-/
import Coma.Passes
import Coma.Vector
import Coma.Compare
import Coma.Indel
import Coma.Corr
import Coma.Seeding
namespace Coma.Driver
open Coma

abbrev KV := List (String × String)

def parseKV (toks : List String) : KV :=
  toks.filterMap fun t =>
    match t.splitOn "=" with
    | k :: v :: rest => some (k, "=".intercalate (v :: rest))
    | _ => none

def KV.get (kv : KV) (k : String) : String := ((kv.find? (·.1 = k)).map (·.2)).getD ""
def KV.has (kv : KV) (k : String) : Bool := (kv.find? (·.1 = k)).isSome

def pInt (s : String) : Int := s.toInt?.getD 0
def pNat (s : String) : Nat := s.toNat?.getD 0
def pBool (s : String) : Bool := s = "1"

def pInts (s : String) : List Int :=
  if s = "" then [] else (s.splitOn ",").map pInt

def pRat (s : String) : Rat :=
  match s.splitOn "/" with
  | [a, b] => (pInt a : Rat) / (pInt b : Rat)
  | [a]    => (pInt a : Rat)
  | _      => 0

def showRat (q : Rat) : String := s!"{q.num}/{q.den}"

def KV.int (kv : KV) (k : String) : Int := pInt (kv.get k)
def KV.ints (kv : KV) (k : String) : List Int := pInts (kv.get k)
def KV.bool (kv : KV) (k : String) : Bool := pBool (kv.get k)

/-! ### encodings -/

def showItem : APos → String
  | .pair p   => s!"P:{p.r.site}:{p.r.pos}:{p.q.site}:{p.q.pos}:{p.shift}"
  | .uref r   => s!"R:{r.site}:{r.pos}"
  | .uqry q s => s!"Q:{q.site}:{q.pos}:{s}"

def pItem (s : String) : Option APos :=
  match s.splitOn ":" with
  | ["P", a, b, c, d, e] => some (.pair { r := ⟨pInt a, pInt b⟩, q := ⟨pInt c, pInt d⟩, shift := pInt e, src := 0 })
  | ["R", a, b]          => some (.uref ⟨pInt a, pInt b⟩)
  | ["Q", a, b, c]       => some (.uqry ⟨pInt a, pInt b⟩ (pInt c))
  | _ => none

def showItems (xs : List APos) : String := ",".intercalate (xs.map showItem)
def pItems (s : String) : List APos := if s = "" then [] else (s.splitOn ",").filterMap pItem

def showSeg (s : Seg) : String := s!"{s.peak}|{showItems s.items}"
def pSeg (s : String) : Seg :=
  match s.splitOn "|" with
  | [a, b] => ⟨pInt a, pItems b⟩
  | [a]    => ⟨pInt a, []⟩
  | _      => ⟨0, []⟩

def showSegs (ss : List Seg) : String := ";".intercalate (ss.map showSeg)
def pSegs (s : String) : List Seg := if s = "" then [] else (s.splitOn ";").map pSeg

def pParams (kv : KV) : Params :=
  { sp := kv.int "sp", dp := kv.int "dp", su := kv.int "su", md := kv.int "md",
    minScore := kv.int "ms", bst := kv.int "bs" }

def pChain (kv : KV) : ChainCfg := { mult := pRat (kv.get "mult"), variant := kv.int "var" }

def pMap (s : String) : OMap :=
  -- id:length:shift:p1,p2,…
  match s.splitOn ":" with
  | [a, b, c, d] => { id := pInt a, length := pInt b, positions := pInts d, shift := pInt c }
  | _ => default

def showMap (m : OMap) : String :=
  s!"{m.id}:{m.length}:{m.shift}:{",".intercalate (m.positions.map toString)}"

def showErr (e : Err) : String := "ERR " ++ e.name

def showRow (r : Row) : String :=
  s!"q={r.queryId} r={r.referenceId} ql={r.queryLength} rl={r.referenceLength} qs={r.qStart} qe={r.qEnd} rs={r.rStart} re={r.rEnd} rev={if r.rev then 1 else 0} conf={r.confidence} rest={if r.alignedRest then 1 else 0} SEG={showSegs r.segments}"

def pRow (kv : KV) : Row :=
  { segments := pSegs (kv.get "SEG"), queryId := kv.int "q", referenceId := kv.int "r",
    queryLength := kv.int "ql", referenceLength := kv.int "rl", qStart := kv.int "qs", qEnd := kv.int "qe",
    rStart := kv.int "rs", rEnd := kv.int "re", rev := kv.bool "rev", confidence := kv.int "conf",
    alignedRest := kv.bool "rest" }

/-- rows inside a bigger line: fields separated by `~`, rows by `^` -/
def pRowT (s : String) : Row := pRow (parseKV (s.splitOn "~"))
def showRowT (r : Row) : String := (showRow r).replace " " "~"
def pRows (s : String) : List Row := if s = "" then [] else (s.splitOn "^").map pRowT
def showRows (rs : List Row) : String := "^".intercalate (rs.map showRowT)

def pEnds (s : String) : Ends :=
  match pInts s with
  | [a, b, c, d, e, f] => { s := { r := ⟨0, a⟩, q := ⟨c, b⟩, shift := 0 }, e := { r := ⟨0, d⟩, q := ⟨f, e⟩, shift := 0 } }
  | _ => default

def pCRows (s : String) : List CRow :=
  if s = "" then [] else (s.splitOn ",").filterMap fun t =>
    match t.splitOn ":" with
    | [a, b, c] => some ⟨pInt a, pInt b, pInt c⟩
    | _ => none

def pSeeds (s : String) : SeedTable :=
  -- entry;entry;…   entry = qid:shift:n@seed&seed…   seed = refId:rev:p1,p2,…
  if s = "" then [] else (s.splitOn ";").filterMap fun e =>
    match e.splitOn "@" with
    | [k, sd] =>
      match k.splitOn ":" with
      | [a, b, c] =>
        let seeds := if sd = "" then [] else (sd.splitOn "&").filterMap fun x =>
          match x.splitOn ":" with
          | [r, v, ps] => some ({ refId := pInt r, rev := pBool v, peaks := pInts ps } : Seed)
          | _ => none
        some (⟨pInt a, pInt b, pNat c⟩, seeds)
      | _ => none
    | _ => none

def pPSeeds (s : String) : PTable :=
  -- entry;entry;…   entry = qid:shift:n@seed&seed…   seed = refId:rev:primary:p1,p2,…
  if s = "" then [] else (s.splitOn ";").filterMap fun e =>
    match e.splitOn "@" with
    | [k, sd] =>
      match k.splitOn ":" with
      | [a, b, c] =>
        let seeds := if sd = "" then [] else (sd.splitOn "&").filterMap fun x =>
          match x.splitOn ":" with
          | [r, v, pr, ps] => some ({ refId := pInt r, rev := pBool v, primary := pInt pr, captured := pInts ps } : PSeed)
          | _ => none
        some (⟨pInt a, pInt b, pNat c⟩, seeds)
      | _ => none
    | _ => none

def pSec (s : String) : SecCfg :=
  -- res,blur,margin,thr(num/den)
  match s.splitOn "," with
  | [a, b, c, d] => { res := pInt a, blur := pInt b, margin := pInt c, thr := pRat d }
  | _ => {}

/-- canonical form of one secondary peak list: exactly `keep` peaks ⇒ sorted (the delivered order
    is unspecified when more than `keep` passed, and ascending anyway when exactly `keep` did) -/
def showSec (keep : Nat) (ps : List Int) : String :=
  ",".intercalate ((if ps.length = keep then isort id ps else ps).map toString)

def showDerived (keep : Nat) (d : Derived) : String :=
  ";".intercalate ((List.zip d.table d.status).map fun (e, st) =>
    s!"{e.1.id}:{e.1.shift}:{e.1.n}@" ++ "&".intercalate ((List.zip e.2 st.2).map fun (sd, x) =>
      (if x = .mismatch then "MISMATCH:" else "") ++ showSec keep sd.peaks))

def showStatus (d : Derived) : String :=
  let all := d.status.flatMap (·.2)
  let n := fun (s : SecStatus) => (all.filter (· = s)).length
  s!"derived:{n .derived},reordered:{n .reordered},ambiguous:{n .ambiguous},MISMATCH:{n .mismatch}"

def pMode (s : String) : Mode :=
  match s with
  | "single" => .single | "best" => .best | "separate" => .separate | "joined" => .joined | _ => .all

def pBits (s : String) : List Nat := s.toList.map fun c => if c = '1' then 1 else 0
def showBits (v : List Nat) : String := String.ofList (v.map fun b => if b ≠ 0 then '1' else '0')

def pBPairs (s : String) : List BPair :=
  if s = "" then [] else (s.splitOn ",").filterMap fun t =>
    match t.splitOn ":" with
    | [a, b] => some (pInt a, pInt b)
    | _ => none

def pBAls (s : String) : List BAl :=
  -- qid:rid@r:q,r:q;…
  if s = "" then [] else (s.splitOn ";").filterMap fun e =>
    match e.splitOn "@" with
    | [k, ps] => match k.splitOn ":" with
      | [a, b] => some ⟨pInt a, pInt b, pBPairs ps⟩
      | _ => none
    | _ => none

def showBPairs (ps : List BPair) : String := ",".intercalate (ps.map fun (a, b) => s!"{a}:{b}")

/-- matcher table  `a-list|b-list>M;…`  recorded from the real difflib by the harness -/
def pMatcher (s : String) : List BPair → List BPair → Nat :=
  let tbl : List (String × Nat) :=
    if s = "" then [] else (s.splitOn ";").filterMap fun e =>
      match e.splitOn ">" with
      | [k, m] => some (k, pNat m)
      | _ => none
  fun a b => ((tbl.find? (·.1 = showBPairs a ++ "|" ++ showBPairs b)).map (·.2)).getD 0

def pCalls (s : String) : List Call :=
  -- ins:chrom:rs:re:qid:qs:qe:len
  if s = "" then [] else (s.splitOn ";").filterMap fun e =>
    match e.splitOn ":" with
    | [a, b, c, d, q, f, g, l] =>
      some { isIns := pBool a, chrom := pInt b, rStart := pInt c, rStop := pInt d, qids := [pInt q],
             qStart := pInt f, qStop := pInt g, length := pRat l, count := 1 }
    | _ => none

def showCall (c : Call) : String :=
  s!"{if c.isIns then 1 else 0}:{c.chrom}:{c.rStart}:{c.rStop}:{",".intercalate (c.qids.map toString)}:{c.qStart}:{c.qStop}:{showRat c.length}:{c.count}"

def showType : RowType → String
  | .both => "B" | .firstOnly => "F" | .secondOnly => "S"

def sortPairs (ps : List BPair) : List BPair := isort (fun (p : BPair) => p.1 * 1000003 + p.2) ps

/-! ### operations -/

def exc {α} (x : Except Err α) (f : α → String) : String :=
  match x with
  | .ok a    => f a
  | .error e => showErr e

def step (line : String) : String :=
  let toks := (line.trimAscii.toString.splitOn " ").filter (· ≠ "")
  match toks with
  | [] => ""
  | op :: rest =>
    let kv := parseKV rest
    match op with
    | "PAIR" =>
      let ref := pMap (kv.get "REF")
      let qry := pMap (kv.get "QRY")
      showItems (engineAlign (kv.int "md") ref qry (kv.int "start") (kv.int "stop") (kv.bool "rev") (kv.int "it"))
    | "SEGS" =>
      if kv.int "ms" ≤ 0 then "ERR ValueError" else
      match scanRanges (kv.int "ms") (kv.int "bs") (kv.ints "S") with
      | [] => "E"
      | rs => " ".intercalate (rs.map fun r => s!"{r.start}-{r.stop}:{r.score}")
    | "JOIN" =>
      match joinScore (pRat (kv.get "mult")) (kv.int "var") (pEnds (kv.get "prev")) (pEnds (kv.get "cur")) with
      | none   => "-inf"
      | some q => showRat q
    | "CHAIN" =>
      match chainSegs (pParams kv) (pChain kv) (pSegs (kv.get "SEG")) with
      | none    => "ERR IndexError"
      | some ss => showSegs ss
    | "OVERLAP" =>
      exc ((pSeg (kv.get "L")).endOverlapsWithStartOf (pSeg (kv.get "R"))) fun b => if b then "1" else "0"
    | "RESOLVE2" =>
      exc (resolvePairB (pParams kv) (pSeg (kv.get "L")) (pSeg (kv.get "R"))) fun (l, r, b) =>
        s!"{showSeg l};{showSeg r} branch={b.name}"
    | "RESOLVEALL" =>
      exc (resolveConflicts (pParams kv) (pChain kv) (pSegs (kv.get "SEG"))) showSegs
    | "GETSEGS" =>
      showSegs (getSegments (pParams kv) (kv.int "peak") (pItems (kv.get "X")))
    | "CANDIDATE" =>
      let P := pParams kv
      -- `trimq=1`: the query is trimmed first, as `Program.__readMaps` does with every query it reads
      let qry := if kv.bool "trimq" then (pMap (kv.get "QRY")).trim else pMap (kv.get "QRY")
      exc (alignerAlign P (pChain kv) (pMap (kv.get "REF")) qry (kv.ints "peaks") (kv.bool "rev") (kv.int "it")) fun row =>
        exc (cigarOf aggregate row.pairs) fun c => showRow row ++ " cigar=" ++ c
    | "CIGAR" =>
      let ps := (pBPairs (kv.get "P")).map fun (r, q) => ({ r := ⟨r, 0⟩, q := ⟨q, 0⟩, shift := 0 } : Pr)
      exc (cigarOf aggregate ps) id
    | "VEC" =>
      let stop := if kv.get "stop" = "none" then none else some (kv.int "stop")
      exc (vectorise (kv.ints "POS") (kv.int "res") (kv.int "start") stop) showBits
    | "BLUR" => exc (blur (pBits (kv.get "V")) (kv.int "radius")) showBits
    | "CORR" =>
      let r := pBits (kv.get "R")
      let q := pBits (kv.get "Q")
      ",".intercalate ((corrValid r q).map toString) ++ " N=" ++ ",".intercalate ((norm2 r q).map toString)
    | "SEQ" =>
      let stop := if kv.get "stop" = "none" then none else some (kv.int "stop")
      exc (sequenceOf (kv.int "res") (kv.int "blur") (kv.ints "POS") (kv.int "start") stop) showBits
    | "GETSEQ" =>
      -- `OpticalMap.getSequence(generator, reverseStrand, start, end)` (optical_map.py:84-86)
      let stop := if kv.get "stop" = "none" then none else some (kv.int "stop")
      exc (sequenceOf (kv.int "res") (kv.int "blur") (pMap (kv.get "M")).positions (kv.int "start") stop) fun v =>
        showBits (if kv.bool "rev" then v.reverse else v)
    | "XCORR" =>
      exc (correlate (pBits (kv.get "R")) (pBits (kv.get "Q"))) fun c => ",".intercalate (c.map toString)
    | "FINDPEAKS" =>
      ",".intercalate ((findPeaksSecondary (pRat (kv.get "thr")) (kv.ints "X")).map fun p => s!"{p.1}:{p.2}")
    | "REFINE" =>
      let c := pSec (kv.get "sec")
      let ref := pMap (kv.get "REF")
      let qry := pMap (kv.get "QRY")
      exc (refineCorrelation c ref qry (kv.bool "rev") (kv.int "peak")) fun corr =>
        exc (refine c ref qry (kv.bool "rev") (kv.int "peak")) fun pk =>
          let all := findPeaksSecondary c.thr (corr.map Int.ofNat)
          let show1 := fun (p : Int × Int) => s!"{p.1}:{p.2}"
          if (all.length : Int) ≤ c.keep then s!"n={all.length} " ++ ",".intercalate (pk.map show1)
          else
            let pk := isort (fun (p : Int × Int) => p.1) pk
            if boundaryTie c.keep.toNat (all.map (·.2)) then
              -- numpy may keep any peak of the boundary height: positions only strictly above it
              let h := minHeight (pk.map (·.2))
              let strict := pk.filter (fun p => p.2 > h)
              s!"n=many " ++ ",".intercalate (strict.map show1) ++ s!" +{pk.length - strict.length}@{h}"
            else s!"n=many " ++ ",".intercalate (pk.map show1)
    | "TOPN" =>
      let bins := kv.ints "B"
      let hs := kv.ints "H"
      let out := createPeaks (kv.int "count") (kv.int "res") (kv.int "start") (List.zip bins hs)
      ",".intercalate ((isort (fun (p : Int × Int) => p.1) out).map fun p => s!"{p.1}:{p.2}")
    | "TOBP" => toString (toBp (kv.int "bin") (kv.int "res") (kv.int "start"))
    | "SELECT" =>
      let sc := kv.ints "S"
      let idx := (List.range sc.length).map fun i => (i, sc[i]?.getD 0)
      ",".intercalate ((selectPeaks (kv.int "count").toNat (fun (x : Nat × Int) => x.2) idx).map fun x => toString x.1)
    | "FILTER" =>
      -- rows given as qid:conf ; output indices kept
      let es := (kv.get "ROWS").splitOn "," |>.filter (· ≠ "")
      let rows : List Row := (List.range es.length).filterMap fun (i : Nat) =>
        match (es[i]?.getD "").splitOn ":" with
        | [a, b] => some { (default : Row) with queryId := pInt a, confidence := pInt b, queryLength := (i : Nat) }
        | _ => none
      ",".intercalate ((filterBestPerQuery rows).map fun r => toString r.queryLength)
    | "FRAGS" =>
      exc (unalignedFragments (pRow kv) ((kv.get "QS").splitOn "/" |>.filter (· ≠ "") |>.map pMap)) fun ms =>
        "/".intercalate (ms.map showMap)
    | "CHECKOVERLAP" =>
      if checkOverlap (pRowT (kv.get "A")) (pRowT (kv.get "B")) (kv.int "diff") then "1" else "0"
    | "JOINROWS" =>
      exc (joinRows (pParams kv) (pRowT (kv.get "A")) (pRowT (kv.get "B"))) fun r =>
        match r with
        | some row => exc (cigarOf aggregate row.pairs) fun c => showRow row ++ " cigar=" ++ c
        | none => "None"
    | "RESOLVEROWS" =>
      exc (resolveRows (pParams kv) (kv.int "diff") (pRows (kv.get "ROWS"))) fun (j, s) =>
        s!"J={showRows j} S={showRows s}"
    | "READCMAP" =>
      exc (readCmap (kv.int "unit") (pCRows (kv.get "ROWS")) (kv.ints "ids")) fun ms => "/".intercalate (ms.map showMap)
    | "TRIM" => showMap (pMap (kv.get "M")).trim
    | "LABELS" => " ".intercalate (((pMap (kv.get "M")).labels (kv.bool "rev")).map fun l => s!"{l.site}:{l.pos}")
    | "XROW" =>
      let x : XRow :=
        { entryId := (kv.int "eid").toNat, qid := kv.int "q", rid := kv.int "r", qStart := kv.int "qs",
          qEnd := kv.int "qe", rStart := kv.int "rs", rEnd := kv.int "re", rev := kv.bool "rev",
          conf100 := kv.int "c100", hitEnum := kv.get "hit", qLen := kv.int "ql", rLen := kv.int "rl",
          alignedRest := kv.bool "rest", pairs := pBPairs (kv.get "P") }
      let rd := match readXRow? x.fields with
        | none => "READERR"
        | some y => s!"{y.entryId}|{y.qid}|{y.rid}|{y.qStart}|{y.qEnd}|{y.rStart}|{y.rEnd}|{if y.rev then 1 else 0}|{y.conf100}|{y.hitEnum}|{y.qLen}|{y.rLen}|{showBPairs y.pairs}"
      x.line.replace "\t" "|" ++ " READ " ++ rd
    | "DEFAULTS" =>
      let P := defaultParams
      let s : SecCfg := {}
      let c : ChainCfg := {}
      let g : Cfg := { P := P }
      s!"sp={P.sp} dp={P.dp} su={P.su} md={P.md} ms={P.minScore} bs={P.bst} r2={s.res} b2={s.blur} ma={s.margin} pt={showRat s.thr} keep={s.keep} sj={showRat c.mult} ss={c.variant} diff={g.maxDifference}"
    | "HEADER" =>
      "\\n".intercalate ((xmapHeader (kv.get "ref") (kv.get "qry")).map fun l => l.replace "\t" "|")
    | "COMPARE" =>
      let c := compareSets (kv.bool "flag") (pMatcher (kv.get "M")) (pBAls (kv.get "A")) (pBAls (kv.get "B"))
      let rows := c.rows.map fun r =>
        s!"{r.key.1}:{r.key.2}:{showType r.type}:{showRat r.ident}:{showRat r.cov1}:{showRat r.cov2}:{showBPairs (sortPairs r.diff1)}/{showBPairs (sortPairs r.diff2)}"
      s!"ov={c.overlapping} non={c.nonOverlapping} first={c.firstOnly} second={c.secondOnly} ROWS={";".intercalate rows}"
    | "CLUSTER" => ";".intercalate ((clusterIndels (kv.int "blur") (pCalls (kv.get "CALLS"))).map showCall)
    | "INDELFILE" =>
      ";".intercalate ((indelFile 30000 (pCalls (kv.get "INS")) (pCalls (kv.get "DEL"))).map showCall)
    | "CALL" =>
      match mkCall (kv.int "lo") (kv.int "chrom") (kv.int "qid") (kv.int "rs") (kv.int "re") (kv.int "qs") (kv.int "qe") with
      | none => "none"
      | some c => showCall c
    | "CALLS" =>
      -- variant=seg: BP = breakage indices;  variant=mol: BP = one index, BPAIR = the breakage pair
      let rpos := kv.ints "R"
      let qpos := kv.ints "Q"
      let pairs := pBPairs (kv.get "PAIRS")
      if kv.get "variant" = "seg" then
        -- the real finder keeps two lists: insertions as found, then deletions as found
        exc (segmentCalls (kv.int "chrom") (kv.int "qid") rpos qpos pairs (kv.ints "BP")) fun cs =>
          ";".intercalate ((cs.filter (·.isIns) ++ cs.filter (fun c => !c.isIns)).map showCall)
      else
        let bp := (pBPairs (kv.get "BPAIR")).headD (0, 0)
        exc (moleculeCall (kv.int "chrom") (kv.int "qid") rpos qpos pairs (kv.int "BP") bp) fun c =>
          match c with
          | some c => showCall c
          | none   => ""
    | "RUN" =>
      let cfg : Cfg := { P := pParams kv, C := pChain kv, maxDifference := kv.int "diff", den := (kv.int "den").toNat }
      if kv.has "sec" then
        let c := pSec (kv.get "sec")
        exc (runProgramSeeded cfg c (pMode (kv.get "mode")) (pCRows (kv.get "REFROWS")) (pCRows (kv.get "QRYROWS"))
               (kv.ints "rids") (kv.ints "qids") (pPSeeds (kv.get "PSEEDS")) (kv.int "it")) fun (files, d) =>
          " ".intercalate (files.map fun (n, ls) => s!"FILE{n}=" ++ "\\n".intercalate (ls.map fun l => l.replace "\t" "|"))
            ++ " SEC=" ++ showDerived c.keep.toNat d ++ " ST=" ++ showStatus d
      else
      exc (runProgram cfg (pMode (kv.get "mode")) (pCRows (kv.get "REFROWS")) (pCRows (kv.get "QRYROWS"))
             (kv.ints "rids") (kv.ints "qids") (pSeeds (kv.get "SEEDS")) (kv.int "it")) fun files =>
        " ".intercalate (files.map fun (n, ls) => s!"FILE{n}=" ++ "\\n".intercalate (ls.map fun l => l.replace "\t" "|"))
    | _ => "bad-op"

partial def loop (h : IO.FS.Stream) (out : IO.FS.Stream) : IO Unit := do
  let line ← h.getLine
  if line.isEmpty then return ()
  out.putStrLn (step line)
  loop h out

end Coma.Driver

def main : IO Unit := do
  let i ← IO.getStdin
  let o ← IO.getStdout
  Coma.Driver.loop i o
  o.flush
