import Proofs.SegFactory
