import Proofs.SegFactory
import Proofs.Chain
