import Proofs.SegFactory
import Proofs.Chain
import Proofs.Pairing
import Proofs.PairingOrder
import Proofs.Cigar
import Proofs.Vector
import Proofs.Indel
import Proofs.Compare
