import Props.Defs
import Props.C03
import Props.C12
import Props.C13
import Props.C14
import Props.C16
import Props.C20
import Props.C19
