import Props.Defs
import Props.C13
import Props.C14
