import Props.Defs
import Props.C13
