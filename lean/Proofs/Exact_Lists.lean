import Props.Defs
import Proofs.SortLemmas
import Proofs.Pairing
namespace Coma.Proofs.Exact
open Coma Coma.Spec Coma.Proofs

/-! ### windows -/

theorem dropWhile_append_of_all {α} (p : α → Bool) (A B : List α) (h : ∀ a ∈ A, p a = true) :
    (A ++ B).dropWhile p = B.dropWhile p := by
  induction A with
  | nil => rfl
  | cons a as ih =>
    have ha := h a List.mem_cons_self
    simp only [List.cons_append, List.dropWhile_cons, ha, if_true]
    exact ih (fun x hx => h x (List.mem_cons_of_mem _ hx))

theorem takeWhile_append_of_all {α} (p : α → Bool) (A B : List α) (h : ∀ a ∈ A, p a = true) :
    (A ++ B).takeWhile p = A ++ B.takeWhile p := by
  induction A with
  | nil => rfl
  | cons a as ih =>
    have ha := h a List.mem_cons_self
    simp only [List.cons_append, List.takeWhile_cons, ha, if_true]
    rw [ih (fun x hx => h x (List.mem_cons_of_mem _ hx))]

theorem takeWhile_none {α} (p : α → Bool) (B : List α) (h : ∀ b ∈ B, p b = false) :
    B.takeWhile p = [] := by
  cases B with
  | nil => rfl
  | cons b bs => simp [h b List.mem_cons_self]

theorem dropWhile_none {α} (p : α → Bool) (B : List α) (h : ∀ b ∈ B, p b = false) :
    B.dropWhile p = B := by
  cases B with
  | nil => rfl
  | cons b bs => simp [h b List.mem_cons_self]

/-- a list that splits into a part below the window, a part inside and a part above -/
theorem window_mid (lo hi : Int) (hlh : lo ≤ hi) (A W B : List Lbl)
    (hA : ∀ a ∈ A, a.pos < lo) (hW : ∀ w ∈ W, lo ≤ w.pos ∧ w.pos ≤ hi) (hB : ∀ b ∈ B, hi < b.pos) :
    window lo hi (A ++ (W ++ B)) = W := by
  unfold window
  rw [dropWhile_append_of_all _ A _ (fun a ha => by simpa using hA a ha)]
  rw [dropWhile_none _ (W ++ B)]
  · rw [takeWhile_append_of_all _ W B (fun w hw => by simpa using (hW w hw).2)]
    rw [takeWhile_none _ B (fun b hb => by simpa using hB b hb)]
    simp
  · intro x hx
    rcases List.mem_append.1 hx with hx | hx
    · have := (hW x hx).1
      simp; omega
    · have := hB x hx
      simp; omega

/-! ### `dedupByKey` on duplicate-free keys -/

theorem groupAdj_strict {α} (key : α → Int) (l : List α) (h : (l.map key).Pairwise (· < ·)) :
    groupAdj key l = l.map (fun x => [x]) := by
  induction l with
  | nil => rfl
  | cons x xs ih =>
    rw [List.map_cons, List.pairwise_cons] at h
    rw [groupAdj_cons, ih h.2]
    cases xs with
    | nil => rfl
    | cons y ys =>
      have hlt := h.1 (key y) (by simp)
      have hne : ¬ key x = key y := by omega
      simp [hne]

theorem dedupByKey_of_strict (key : Pr → Int) (l : List Pr) (h : (l.map key).Pairwise (· < ·)) :
    dedupByKey key l = l := by
  unfold dedupByKey
  rw [isort_of_sorted key l (h.imp (fun h => Int.le_of_lt h)), groupAdj_strict key l h,
    List.filterMap_map]
  induction l with
  | nil => rfl
  | cons a as ih =>
    rw [List.map_cons, List.pairwise_cons] at h
    simp only [List.filterMap_cons, Function.comp, minBy?, minByFrom]
    rw [ih h.2]

theorem dedupByKey_of_nodup (key : Pr → Int) (l : List Pr) (h : (l.map key).Nodup) :
    dedupByKey key l = isort key l := by
  have hs := isort_sorted key l
  have hn : ((isort key l).map key).Nodup := ((isort_perm key l).map key).nodup_iff.2 h
  have hlt : ((isort key l).map key).Pairwise (· < ·) :=
    (hs.and hn).imp (fun h => by omega)
  have h1 := dedupByKey_of_strict key (isort key l) hlt
  unfold dedupByKey at h1 ⊢
  rw [isort_of_sorted key _ hs] at h1
  exact h1

/-- candidates with pairwise distinct query sites whose reference sites strictly ascend are
    left untouched by `AlignedPair.deduplicate` -/
theorem dedup_id (l : List Pr) (hq : (l.map (fun p => p.q.site)).Nodup)
    (hr : (l.map (fun p => p.r.site)).Pairwise (· < ·)) : dedup l = l := by
  unfold dedup
  rw [dedupByKey_of_nodup _ l hq]
  have hperm := isort_perm (fun (p : Pr) => p.q.site) l
  have hrn : (l.map (fun p => p.r.site)).Nodup := hr.imp (fun h => Int.ne_of_lt h)
  rw [dedupByKey_of_nodup _ _ ((hperm.map _).nodup_iff.2 hrn)]
  have hperm2 := (isort_perm (fun (p : Pr) => p.r.site) (isort (fun (p : Pr) => p.q.site) l)).trans hperm
  refine List.Perm.eq_of_pairwise (le := fun a b => a.r.site ≤ b.r.site) ?_ ?_ ?_ hperm2
  · intro a b ha hb h1 h2
    exact inj_of_nodup_map _ hrn a (hperm2.subset ha) b hb (by omega)
  · exact List.pairwise_map.1 (isort_sorted (fun (p : Pr) => p.r.site) _)
  · exact (List.pairwise_map.1 hr).imp (fun h => Int.le_of_lt h)

/-! ### the scan over constant scores -/

theorem scanFrom_const (ms bst c : Int) (hc : 0 < c) (hb : 0 ≤ bst) (m : Nat) : ∀ (k : Nat), 1 ≤ k →
    scanFrom ms bst { start := 0, ext := k * c, cur := some ⟨0, k, k * c⟩, res := [] } k
        (List.replicate m c) =
      { start := 0, ext := ((k + m : Nat) : Int) * c, cur := some ⟨0, k + m, ((k + m : Nat) : Int) * c⟩,
        res := [] } := by
  induction m with
  | zero => intro k _; simp [scanFrom]
  | succ m ih =>
    intro k hk
    have hkc : 0 < (k : Int) * c := Int.mul_pos (by omega) hc
    have h1 : ¬ ((k : Int) * c + c ≤ max 0 ((k : Int) * c - bst)) := by omega
    have h2 : (k : Int) * c + c > (k : Int) * c := by omega
    have e : (k : Int) * c + c = ((k + 1 : Nat) : Int) * c := by
      push_cast; rw [Int.add_mul]; omega
    simp only [List.replicate_succ, scanFrom, scanStep, ScanSt.curScore, h1, h2, if_true, if_false]
    rw [e, ih (k + 1) (by omega)]
    have e2 : k + 1 + m = k + (m + 1) := by omega
    rw [e2]

theorem scanRanges_const (ms bst c : Int) (hc : 0 < c) (hb : 0 ≤ bst) (n : Nat) (hn : 1 ≤ n)
    (hms : ms ≤ n * c) :
    scanRanges ms bst (List.replicate n c) = [⟨0, n, n * c⟩] := by
  obtain ⟨m, rfl⟩ : ∃ m, n = m + 1 := ⟨n - 1, by omega⟩
  have h1 : ¬ (0 + c ≤ max 0 (0 - bst)) := by omega
  have h2 : 0 + c > 0 := by omega
  unfold scanRanges
  simp only [List.replicate_succ, scanFrom, scanStep, ScanSt.curScore, h1, h2, if_true, if_false]
  have := scanFrom_const ms bst c hc hb m 1 (Nat.le_refl _)
  have e1 : ((1 : Nat) : Int) * c = c := by simp
  rw [e1] at this
  simp only [Int.zero_add, Nat.zero_add] at this ⊢
  rw [this]
  have e : 1 + m = m + 1 := by omega
  rw [e]
  have : ((m + 1 : Nat) : Int) * c ≥ ms := hms
  simp only [ScanSt.flush, this, if_true, List.nil_append]

end Coma.Proofs.Exact
