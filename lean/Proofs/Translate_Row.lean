/-
  Proofs/Translate_Row.lean — `Row.create` of translated segments: same confidence, same query span.
-/
import Proofs.Translate_Segments
namespace Coma.Proofs.Translate
open Coma Coma.Spec

variable (d : Int)

theorem flatMap_pairs_t (segs : List Seg) :
    (segs.map (tSeg d)).flatMap Seg.pairs = (segs.flatMap Seg.pairs).map (tPr d) := by
  induction segs with
  | nil => rfl
  | cons s ss ih => simp only [List.map_cons, List.flatMap_cons, ih, tSeg_pairs, List.map_append]

theorem getD_map_q (o : Option Pr) : ((o.map (tPr d)).getD nullPr).q = (o.getD nullPr).q := by
  cases o <;> rfl

theorem sumInts_scores_t (P : Params) (segs : List Seg) :
    sumInts ((segs.map (tSeg d)).map (Seg.score P)) = sumInts (segs.map (Seg.score P)) := by
  congr 1
  rw [List.map_map]
  exact List.map_congr_left (fun s _ => tSeg_score d P s)

theorem create_t (P : Params) (segs : List Seg) (qid rid qlen rlen rlen' : Int) (rev : Bool) :
    (fun r : Row => (r.segments, r.confidence, r.qStart, r.qEnd)) (Row.create P (segs.map (tSeg d)) qid rid qlen rlen' rev) =
    (fun r : Row => (r.segments.map (tSeg d), r.confidence, r.qStart, r.qEnd)) (Row.create P segs qid rid qlen rlen rev) := by
  unfold Row.create
  rw [sumInts_scores_t]
  cases rev <;>
    simp [flatMap_pairs_t,
      isort_map_add (tPr d) (fun p : Pr => p.r.pos) (fun p : Pr => p.r.pos) d (fun _ => rfl), getD_map_q]

theorem alignerAlign_t (P : Params) (C : ChainCfg) (ref qry : OMap) (peaks : List Int) (rev : Bool) (it : Int) :
    (alignerAlign P C (tRef d ref) qry (peaks.map (· + d)) rev it).map (fun r => (r.segments, r.confidence, r.qStart, r.qEnd))
      = (alignerAlign P C ref qry peaks rev it).map (fun r => (r.segments.map (tSeg d), r.confidence, r.qStart, r.qEnd)) := by
  unfold alignerAlign
  simp only [bind, Except.bind, pure, Except.pure]
  rw [segmentsOfPeaks_t]
  cases hs : segmentsOfPeaks P ref qry rev it peaks with
  | error e => rfl
  | ok segs =>
    simp only [Except.map]
    rw [resolveConflicts_t_struct d P C segs (segmentsOfPeaks_Q P ref qry rev peaks it segs hs)]
    cases resolveConflicts P C segs with
    | error e => rfl
    | ok res =>
      simp only [Except.map]
      exact congrArg Except.ok (create_t d P res qry.id ref.id qry.length ref.length (tRef d ref).length rev)

end Coma.Proofs.Translate
