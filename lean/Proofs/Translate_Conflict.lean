/-
  Proofs/Translate_Conflict.lean — one step of the conflict resolver commutes with the translation, EXCEPT where a
  reference coordinate is compared with the null pair `⟨0,0⟩` (right segment empty): there the sign of the coordinate
  (and "is it label number 0 at coordinate 0") is read, which a translation can change.  `NullOK d L` says it does not.
-/
import Proofs.Translate_Chain
import Proofs.Mirror_Conflict
namespace Coma.Proofs.Translate
open Coma Coma.Spec

variable (d : Int)

/-- the translation does not change what the comparison of a reference label with the null label `⟨0,0⟩` reads -/
def NullR (r : Lbl) : Prop := (r.pos + d < 0 ↔ r.pos < 0) ∧ (r.site = 0 → (r.pos + d = 0 ↔ r.pos = 0))
def NullA : APos → Prop
  | .pair p   => NullR d p.r
  | .uref r   => NullR d r
  | .uqry _ _ => True
def NullOK (s : Seg) : Prop := ∀ a ∈ s.items, NullA d a

def tSP : SP → SP
  | .null => .null
  | .pr p => .pr (tPr d p)

theorem PrleqAny_t (a o : Pr) : (tPr d a).leqAny (tPr d o) = a.leqAny o := by
  have i1 : (a.r.pos + d < o.r.pos + d) ↔ (a.r.pos < o.r.pos) := by omega
  show (decide (a.q.pos < o.q.pos) || decide (a.r.pos + d < o.r.pos + d) || decide (a.q = o.q) ||
      decide (tLbl d a.r = tLbl d o.r)) =
    (decide (a.q.pos < o.q.pos) || decide (a.r.pos < o.r.pos) || decide (a.q = o.q) || decide (a.r = o.r))
  rw [decide_eq_decide.2 i1, decide_eq_decide.2 (tLbl_inj d a.r o.r)]

theorem PrlessOnBoth_t (a o : Pr) : (tPr d a).lessOnBoth (tPr d o) = a.lessOnBoth o := by
  have i1 : (a.r.pos + d < o.r.pos + d) ↔ (a.r.pos < o.r.pos) := by omega
  show (decide (a.q.pos < o.q.pos) && decide (a.r.pos + d < o.r.pos + d)) =
    (decide (a.q.pos < o.q.pos) && decide (a.r.pos < o.r.pos))
  rw [decide_eq_decide.2 i1]

theorem APosleqAny_t (a : APos) (o : Pr) : (tAPos d a).leqAny (tPr d o) = a.leqAny o := by
  cases a with
  | pair p => exact PrleqAny_t d p o
  | uref r => simp only [tAPos, APos.leqAny, tPr_r, tLbl_pos]; apply decide_eq_decide.2; omega
  | uqry q s => rfl

theorem APoslessOnBoth_t (a : APos) (o : Pr) : (tAPos d a).lessOnBoth (tPr d o) = a.lessOnBoth o := by
  cases a with
  | pair p => exact PrlessOnBoth_t d p o
  | uref r => simp only [tAPos, APos.lessOnBoth, tPr_r, tLbl_pos]; apply decide_eq_decide.2; omega
  | uqry q s => rfl

theorem pyEq_t (a b : APos) : (tAPos d a).pyEq (tAPos d b) = a.pyEq b := by
  cases a with
  | pair p =>
    cases b with
    | pair p' =>
      show (decide (p.q = p'.q) && decide (tLbl d p.r = tLbl d p'.r)) = (decide (p.q = p'.q) && decide (p.r = p'.r))
      rw [decide_eq_decide.2 (tLbl_inj d p.r p'.r)]
    | uref r => rfl
    | uqry q s => rfl
  | uref r =>
    cases b with
    | pair p' => rfl
    | uref r' =>
      show decide (tLbl d r = tLbl d r') = decide (r = r')
      rw [decide_eq_decide.2 (tLbl_inj d r r')]
    | uqry q s => rfl
  | uqry q s =>
    cases b with
    | uqry q' s' =>
      have i1 : (s + d = s' + d) ↔ (s = s') := by omega
      show (decide (q = q') && decide (s + d = s' + d)) = (decide (q = q') && decide (s = s'))
      rw [decide_eq_decide.2 i1]
    | pair p => rfl
    | uref r => rfl

theorem lbl_eq_zero (r : Lbl) : r = ⟨0, 0⟩ ↔ r.site = 0 ∧ r.pos = 0 := by
  cases r; simp

theorem PrleqAny_null (p : Pr) (h : NullR d p.r) : (tPr d p).leqAny nullPr = p.leqAny nullPr := by
  have i1 : (p.r.pos + d < 0) ↔ (p.r.pos < 0) := h.1
  have i2 : (tLbl d p.r = ⟨0, 0⟩) ↔ (p.r = ⟨0, 0⟩) := by
    rw [lbl_eq_zero, lbl_eq_zero]
    simp only [tLbl_pos, tLbl_site]
    constructor
    · rintro ⟨a, b⟩; exact ⟨a, (h.2 a).1 b⟩
    · rintro ⟨a, b⟩; exact ⟨a, (h.2 a).2 b⟩
  show (decide (p.q.pos < 0) || decide (p.r.pos + d < 0) || decide (p.q = ⟨0, 0⟩) || decide (tLbl d p.r = ⟨0, 0⟩)) =
    (decide (p.q.pos < 0) || decide (p.r.pos < 0) || decide (p.q = ⟨0, 0⟩) || decide (p.r = ⟨0, 0⟩))
  rw [decide_eq_decide.2 i1, decide_eq_decide.2 i2]

theorem APoslessOnBoth_null (a : APos) (h : NullA d a) : (tAPos d a).lessOnBoth nullPr = a.lessOnBoth nullPr := by
  cases a with
  | pair p =>
    have i1 : (p.r.pos + d < 0) ↔ (p.r.pos < 0) := h.1
    show (decide (p.q.pos < 0) && decide (p.r.pos + d < 0)) = (decide (p.q.pos < 0) && decide (p.r.pos < 0))
    rw [decide_eq_decide.2 i1]
  | uref r =>
    have i1 : (r.pos + d < 0) ↔ (r.pos < 0) := h.1
    show decide (r.pos + d < 0) = decide (r.pos < 0)
    rw [decide_eq_decide.2 i1]
  | uqry q s => rfl

theorem SPleqAny_t (a o : SP) (ha : ∀ p, a = .pr p → o = .null → NullR d p.r) :
    (tSP d a).leqAny (tSP d o) = a.leqAny o := by
  cases a with
  | null => rfl
  | pr p =>
    cases o with
    | pr q => exact PrleqAny_t d p q
    | null => exact PrleqAny_null d p (ha p rfl rfl)

theorem lessOnBoth_tSP (a : APos) (s : SP) (h : s = .null → NullA d a) :
    (tAPos d a).lessOnBoth (tSP d s).toPr = a.lessOnBoth s.toPr := by
  cases s with
  | null => exact APoslessOnBoth_null d a (h rfl)
  | pr c => exact APoslessOnBoth_t d a c

theorem startPos_t (s : Seg) : (tSeg d s).startPos = (s.startPos).map (tSP d) := by
  unfold Seg.startPos
  rw [tSeg_pairs]
  simp only [tSeg_items, List.isEmpty_map]
  split
  · rfl
  · cases s.pairs <;> rfl

theorem endPos_t (s : Seg) : (tSeg d s).endPos = (s.endPos).map (tSP d) := by
  unfold Seg.endPos
  rw [tSeg_pairs]
  simp only [tSeg_items, List.isEmpty_map, List.getLast?_map]
  split
  · rfl
  · cases s.pairs.getLast? <;> rfl

theorem startPos_null {s : Seg} (h : s.startPos = .ok .null) : s.items = [] := by
  unfold Seg.startPos at h
  split at h
  · rename_i he; exact List.isEmpty_iff.mp he
  · split at h <;> cases h

theorem endPos_null {s : Seg} (h : s.endPos = .ok .null) : s.items = [] := by
  unfold Seg.endPos at h
  split at h
  · rename_i he; exact List.isEmpty_iff.mp he
  · split at h <;> cases h

theorem nullR_of_mem {L : Seg} (hL : NullOK d L) {p : Pr} (hp : p ∈ L.pairs) : NullR d p.r :=
  hL _ (Conflict.mem_pairs.1 hp)

theorem endOverlaps_t (L R : Seg) (hL : R.items = [] → NullOK d L) :
    (tSeg d L).endOverlapsWithStartOf (tSeg d R) = L.endOverlapsWithStartOf R := by
  unfold Seg.endOverlapsWithStartOf
  simp only [startPos_t, endPos_t, tSeg_items, List.isEmpty_map]
  simp only [bind, Except.bind, pure, Except.pure, Except.map]
  split
  · rfl
  · rename_i hne
    have hne' : L.items ≠ [] := fun h => hne (by simp [h])
    cases hos : R.startPos with
    | error e => rfl
    | ok os =>
      simp only
      cases hss : L.startPos with
      | error e => rfl
      | ok ss =>
        simp only
        rw [SPleqAny_t d os ss (fun p _ h0 => absurd (startPos_null (h0 ▸ hss)) hne')]
        split
        · rfl
        · cases hse : L.endPos with
          | error e => rfl
          | ok se =>
            simp only
            rw [SPleqAny_t d os se (fun p _ h0 => absurd (endPos_null (h0 ▸ hse)) hne')]
            split
            · rfl
            · cases hoe : R.endPos with
              | error e => rfl
              | ok oe =>
                simp only
                rw [SPleqAny_t d se oe (fun p hp h0 =>
                  nullR_of_mem d (hL (endPos_null (h0 ▸ hoe))) (Mirror.endPos_mem L p (hp ▸ hse)))]

theorem trimEnd_t (e : Pr) (xs : List APos) :
    trimEnd (tPr d e) (xs.map (tAPos d)) = (trimEnd e xs).map (List.map (tAPos d)) := by
  unfold trimEnd
  rw [← List.map_reverse, List.dropWhile_map]
  have e1 : ((fun a => !a.isPair && !a.leqAny (tPr d e)) ∘ tAPos d) = (fun a => !a.isPair && !a.leqAny e) := by
    funext a
    simp [APosleqAny_t]
  rw [e1]
  simp [Except.map, List.map_reverse]

theorem dropWhile_congr_mem {α} (p q : α → Bool) : ∀ (l : List α), (∀ x ∈ l, p x = q x) →
    l.dropWhile p = l.dropWhile q
  | [], _ => rfl
  | x :: xs, h => by
    have hx := h x (by simp)
    simp only [List.dropWhile_cons, hx]
    split
    · exact dropWhile_congr_mem p q xs (fun y hy => h y (List.mem_cons_of_mem _ hy))
    · rfl

theorem slice_t (s : Seg) (a : SP) (e : Pr) (h : a = .null → NullOK d s) :
    (tSeg d s).slice (tSP d a) (tSP d (.pr e)) = (s.slice a (.pr e)).map (tSeg d) := by
  unfold Seg.slice
  simp only [tSeg_items, tSeg_peak]
  rw [List.dropWhile_map, List.takeWhile_map]
  have t1 : SP.toPr (tSP d (.pr e)) = tPr d e := rfl
  have t2 : SP.toPr (.pr e) = e := rfl
  rw [t1, t2]
  have e1 : s.items.dropWhile ((fun p => p.lessOnBoth (tSP d a).toPr) ∘ tAPos d) =
      s.items.dropWhile (fun p => p.lessOnBoth a.toPr) := by
    apply dropWhile_congr_mem
    intro x hx
    exact lessOnBoth_tSP d x a (fun h0 => h h0 x hx)
  have e2 : ((fun p => !p.isPair || p.leqAny (tPr d e)) ∘ tAPos d) = (fun p => !p.isPair || p.leqAny e) := by
    funext x; simp [APosleqAny_t]
  rw [e1, e2, trimEnd_t]
  simp only [bind, Except.bind, pure, Except.pure, Except.map]
  cases trimEnd e _ <;> rfl

theorem sub_t (s : Seg) (o : List APos) : (tSeg d s).sub (o.map (tAPos d)) = tSeg d (s.sub o) := by
  unfold Seg.sub tSeg
  simp only [List.filter_map]
  congr 2
  congr 1
  funext p
  simp only [Function.comp_def, List.any_map, pyEq_t]

def tLC (l : LabelChar) : LabelChar := ⟨tLbl d l.lbl, l.score, l.idx⟩

theorem charsRef_t (P : Params) (i : Nat) (c : Int) (xs : List APos) :
    charsRef P i c (xs.map (tAPos d)) = (charsRef P i c xs).map (tLC d) := by
  induction xs generalizing i c with
  | nil => rfl
  | cons a as ih =>
    cases a <;> simp [tAPos, charsRef, ih, APos.score, tLC]

theorem charsQry_t (P : Params) (i : Nat) (c : Int) (xs : List APos) :
    charsQry P i c (xs.map (tAPos d)) = charsQry P i c xs := by
  induction xs generalizing i c with
  | nil => rfl
  | cons a as ih =>
    cases a <;> simp [tAPos, charsQry, ih, APos.score]

def tTriple (t : Seg × Seg × Branch) : Seg × Seg × Branch := (tSeg d t.1, tSeg d t.2.1, t.2.2)


theorem tail_t (P : Params) (L R Lc Rc : Seg) :
    (let (lch, rch) :=
      if (tSeg d Lc).peak > (tSeg d Rc).peak then
        (charsRef P 0 0 (tSeg d Lc).items, charsRef P 0 0 (tSeg d Rc).items)
      else (charsQry P 0 0 (tSeg d Lc).items, charsQry P 0 0 (tSeg d Rc).items)
    (if lch.length = rch.length then
      let k := mergeIndex (lch.map (·.score)) (rch.map (·.score))
      if k = 0 then Except.ok ((tSeg d L).sub (tSeg d Lc).items, tSeg d R, Branch.index0)
      else if k = lch.length then Except.ok (tSeg d L, (tSeg d R).sub (tSeg d Rc).items, Branch.indexN)
      else
        let li := (lch[k]?).map (·.idx) |>.getD 0
        let ri := (rch[k]?).map (·.idx) |>.getD 0
        Except.ok ((tSeg d L).sub ((tSeg d Lc).items.drop li),
          (tSeg d R).sub ((tSeg d Rc).items.take ri), Branch.interior)
    else if (tSeg d Lc).score P > (tSeg d Rc).score P then
      Except.ok (tSeg d L, (tSeg d R).sub (tSeg d Rc).items, Branch.dropRight)
    else Except.ok ((tSeg d L).sub (tSeg d Lc).items, tSeg d R, Branch.dropLeft) : Except Err (Seg × Seg × Branch))) =
    Except.map (tTriple d)
    (let (lch, rch) :=
      if Lc.peak > Rc.peak then (charsRef P 0 0 Lc.items, charsRef P 0 0 Rc.items)
      else (charsQry P 0 0 Lc.items, charsQry P 0 0 Rc.items)
    (if lch.length = rch.length then
      let k := mergeIndex (lch.map (·.score)) (rch.map (·.score))
      if k = 0 then Except.ok (L.sub Lc.items, R, Branch.index0)
      else if k = lch.length then Except.ok (L, R.sub Rc.items, Branch.indexN)
      else
        let li := (lch[k]?).map (·.idx) |>.getD 0
        let ri := (rch[k]?).map (·.idx) |>.getD 0
        Except.ok (L.sub (Lc.items.drop li), R.sub (Rc.items.take ri), Branch.interior)
    else if Lc.score P > Rc.score P then Except.ok (L, R.sub Rc.items, Branch.dropRight)
    else Except.ok (L.sub Lc.items, R, Branch.dropLeft) : Except Err (Seg × Seg × Branch))) := by
  have i1 : (Lc.peak + d > Rc.peak + d) ↔ (Lc.peak > Rc.peak) := by omega
  simp only [tSeg_peak, tSeg_items, tSeg_score, charsRef_t, charsQry_t, i1]
  have hsc : ∀ l : List LabelChar, (l.map (tLC d)).map (·.score) = l.map (·.score) := by
    intro l; simp [List.map_map, Function.comp_def, tLC]
  have hidx : ∀ (l : List LabelChar) (k : Nat),
      (((l.map (tLC d))[k]?).map (·.idx)) = ((l[k]?).map (·.idx)) := by
    intro l k; simp [List.getElem?_map, Function.comp_def, tLC]
  split
  · simp only [List.length_map, hsc, hidx]
    split
    · split
      · simp [Except.map, tTriple, sub_t]
      · split
        · simp [Except.map, tTriple, sub_t]
        · simp only [Except.map, tTriple, ← List.map_drop, ← List.map_take, sub_t]
    · split
      · simp [Except.map, tTriple, sub_t]
      · simp [Except.map, tTriple, sub_t]
  · split
    · split
      · simp [Except.map, tTriple, sub_t]
      · split
        · simp [Except.map, tTriple, sub_t]
        · simp only [Except.map, tTriple, ← List.map_drop, ← List.map_take, sub_t]
    · split
      · simp [Except.map, tTriple, sub_t]
      · simp [Except.map, tTriple, sub_t]

/-- one resolver step commutes with the translation; the hypothesis is needed only when the right segment is empty -/
theorem resolvePairB_t (P : Params) (L R : Seg) (hL : R.items = [] → NullOK d L) :
    resolvePairB P (tSeg d L) (tSeg d R) = (resolvePairB P L R).map (tTriple d) := by
  unfold resolvePairB
  simp only [bind, Except.bind, pure, Except.pure]
  rw [endOverlaps_t d L R hL, startPos_t, endPos_t]
  simp only [tSeg_items, List.isEmpty_map]
  split
  · rfl
  · rename_i hne
    cases L.endOverlapsWithStartOf R with
    | error e => rfl
    | ok ov =>
      cases ov with
      | false => rfl
      | true =>
        simp only [Bool.not_true, Bool.false_eq_true, if_false]
        cases hcs : R.startPos with
        | error e => rfl
        | ok cs =>
          simp only [Except.map]
          cases hce : L.endPos with
          | error e => rfl
          | ok ce =>
            cases ce with
            | null => exact absurd hce (Mirror.endPos_ne_null L (by simpa using hne))
            | pr e =>
              simp only
              rw [slice_t d L cs e (fun h0 => hL (startPos_null (h0 ▸ hcs))),
                slice_t d R cs e (fun h0 => by
                  have := startPos_null (h0 ▸ hcs)
                  intro a ha; rw [this] at ha; cases ha)]
              cases L.slice cs (.pr e) with
              | error e => rfl
              | ok Lc =>
                simp only [Except.map]
                cases R.slice cs (.pr e) with
                | error e => rfl
                | ok Rc =>
                  simp only
                  exact tail_t d P L R Lc Rc

end Coma.Proofs.Translate
