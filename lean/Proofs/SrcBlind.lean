import Props.Defs
import Proofs.Pairing
namespace Coma.Proofs
open Coma Coma.Spec

/-- a candidate built with another value of the engine's `iteration` counter differs only in the
    `source` fields -/
theorem alignerAlign_src_blind (P : Params) (C : ChainCfg) (ref qry : OMap) (peaks : List Int) (rev : Bool) (it it' : Int) :
    (alignerAlign P C ref qry peaks rev it).map eraseSrcRow =
    (alignerAlign P C ref qry peaks rev it').map eraseSrcRow := by
  sorry

/-- nothing that is written depends on `source` -/
theorem renderRows_src_blind (cfg : Cfg) (rows : List Row) :
    renderRows cfg (rows.map eraseSrcRow) = renderRows cfg rows := by
  sorry

/-- the whole run — every line of every output file of every mode — is independent of the
    worker-local `iteration` counter -/
theorem runProgram_iteration_irrelevant (cfg : Cfg) (mode : Mode) (refRows qryRows : List CRow)
    (refIds qryIds : List Int) (t : SeedTable) (it it' : Int) :
    runProgram cfg mode refRows qryRows refIds qryIds t it =
    runProgram cfg mode refRows qryRows refIds qryIds t it' := by
  sorry

/-- an order-preserving map over the queries can be split into chunks (one per worker) in any
    way: the concatenated result is the sequential result -/
theorem executeSingle_append (cfg : Cfg) (refs : List OMap) (t : SeedTable) (qs1 qs2 : List OMap) (it : Int) :
    executeSingle cfg refs t (qs1 ++ qs2) it =
      (do let a ← executeSingle cfg refs t qs1 it
          let b ← executeSingle cfg refs t qs2 it
          pure (a ++ b)) := by
  sorry

/-- a query whose seed list is empty contributes no row and does not change the others (C07) -/
theorem executeSingle_unalignable (cfg : Cfg) (refs : List OMap) (t : SeedTable) (q : OMap) (qs : List OMap) (it : Int)
    (h : t.lookup q.key = []) :
    executeSingle cfg refs t (q :: qs) it = executeSingle cfg refs t qs it := by
  sorry

/-- the first pass never raises when every seed names a reference that was read and the maps
    have strictly ascending coordinates (C07) -/
theorem executeSingle_total (cfg : Cfg) (hP : GoodParams cfg.P) (refs : List OMap) (t : SeedTable) (qs : List OMap) (it : Int)
    (hrefs : ∀ r ∈ refs, StrictAscending r.positions) (hqs : ∀ q ∈ qs, StrictAscending q.positions)
    (hseeds : ∀ q ∈ qs, ∀ s ∈ t.lookup q.key, ∃ r ∈ refs, r.id = s.refId)
    (halign : ∀ r ∈ refs, ∀ q ∈ qs, ∀ peaks rev, ∃ row, alignerAlign cfg.P cfg.C r q peaks rev it = .ok row) :
    ∃ rows, executeSingle cfg refs t qs it = .ok rows := by
  sorry

end Coma.Proofs
