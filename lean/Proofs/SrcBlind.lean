import Props.Defs
import Proofs.Pairing
import Proofs.Mirror
import Proofs.SrcBlind_Erase
import Proofs.SrcBlind_Render
import Proofs.SrcBlind_Align
import Proofs.SrcBlind_Conflict
import Proofs.SrcBlind_Passes
import Proofs.SrcBlind_Execute

namespace Coma.Proofs.SrcBlind
open Coma Coma.Spec

theorem map_bind_append {α} (X Y : Except Err (List (Option α))) (f : Option α → Option α) :
    (do let a ← X; let b ← Y; pure (a ++ b) : Except Err _).map (List.filterMap f) =
    (do let a ← X.map (List.filterMap f); let b ← Y.map (List.filterMap f); pure (a ++ b)) := by
  cases X <;> cases Y <;> simp [bind, Except.bind, pure, Except.pure, Except.map]

theorem perQuery_nil (cfg : Cfg) (refs : List OMap) (q : OMap) (it : Int) :
    perQuery cfg refs [] q it = .ok none := by
  simp [perQuery]

theorem mapM_ok_of_forall {α β} (f : α → Except Err β) (l : List α)
    (h : ∀ x ∈ l, ∃ y, f x = .ok y) : ∃ ys, l.mapM f = .ok ys := by
  induction l with
  | nil => exact ⟨[], rfl⟩
  | cons a l ih =>
    obtain ⟨y, hy⟩ := h a List.mem_cons_self
    obtain ⟨ys, hys⟩ := ih (fun x hx => h x (List.mem_cons_of_mem _ hx))
    exact ⟨y :: ys, by simp [List.mapM_cons, hy, hys, bind, Except.bind, pure, Except.pure]⟩

theorem bind_ok_of {α β} (X : Except Err α) (g : α → β) (h : ∃ a, X = .ok a) :
    ∃ y, (X >>= fun a => pure (g a)) = .ok y := by
  obtain ⟨a, rfl⟩ := h; exact ⟨g a, rfl⟩

end Coma.Proofs.SrcBlind

namespace Coma.Proofs
open Coma Coma.Spec

/-- a candidate built with another value of the engine's `iteration` counter differs only in the
    `source` fields -/
theorem alignerAlign_src_blind (P : Params) (C : ChainCfg) (ref qry : OMap) (peaks : List Int) (rev : Bool) (it it' : Int) :
    (alignerAlign P C ref qry peaks rev it).map eraseSrcRow =
    (alignerAlign P C ref qry peaks rev it').map eraseSrcRow :=
  SrcBlind.alignerAlign_E P C ref qry peaks rev it it'

/-- nothing that is written depends on `source` -/
theorem renderRows_src_blind (cfg : Cfg) (rows : List Row) :
    renderRows cfg (rows.map eraseSrcRow) = renderRows cfg rows :=
  SrcBlind.renderRows_E cfg rows

/-- the whole run — every line of every output file of every mode — is independent of the
    worker-local `iteration` counter -/
theorem runProgram_iteration_irrelevant (cfg : Cfg) (mode : Mode) (refRows qryRows : List CRow)
    (refIds qryIds : List Int) (t : SeedTable) (it it' : Int) :
    runProgram cfg mode refRows qryRows refIds qryIds t it =
    runProgram cfg mode refRows qryRows refIds qryIds t it' := by
  rw [SrcBlind.runProgram_eq, SrcBlind.runProgram_eq]
  cases readMaps refRows qryRows refIds qryIds with
  | error e => rfl
  | ok m =>
    obtain ⟨refs, qs⟩ := m
    show (execute cfg mode refs t qs it >>= SrcBlind.renderOut cfg) =
      (execute cfg mode refs t qs it' >>= SrcBlind.renderOut cfg)
    rw [SrcBlind.bind_renderOut, SrcBlind.bind_renderOut cfg (execute cfg mode refs t qs it'),
      SrcBlind.execute_E cfg mode refs t qs it it']

/-- an order-preserving map over the queries can be split into chunks (one per worker) in any
    way: the concatenated result is the sequential result -/
theorem executeSingle_append (cfg : Cfg) (refs : List OMap) (t : SeedTable) (qs1 qs2 : List OMap) (it : Int) :
    executeSingle cfg refs t (qs1 ++ qs2) it =
      (do let a ← executeSingle cfg refs t qs1 it
          let b ← executeSingle cfg refs t qs2 it
          pure (a ++ b)) := by
  simp only [SrcBlind.executeSingle_eq, List.mapM_append]
  exact SrcBlind.map_bind_append _ _ _

/-- a query whose seed list is empty contributes no row and does not change the others (C07) -/
theorem executeSingle_unalignable (cfg : Cfg) (refs : List OMap) (t : SeedTable) (q : OMap) (qs : List OMap) (it : Int)
    (h : t.lookup q.key = []) :
    executeSingle cfg refs t (q :: qs) it = executeSingle cfg refs t qs it := by
  simp only [SrcBlind.executeSingle_eq, List.mapM_cons, h, SrcBlind.perQuery_nil]
  cases (qs.mapM fun q => perQuery cfg refs (t.lookup q.key) q it) <;>
    simp [bind, Except.bind, pure, Except.pure, Except.map, SrcBlind.keepRow, List.filterMap_cons]

set_option linter.unusedVariables false in
/-- the first pass never raises when every seed names a reference that was read and the maps
    have strictly ascending coordinates (C07) -/
theorem executeSingle_total (cfg : Cfg) (hP : GoodParams cfg.P) (refs : List OMap) (t : SeedTable) (qs : List OMap) (it : Int)
    (hrefs : ∀ r ∈ refs, StrictAscending r.positions) (hqs : ∀ q ∈ qs, StrictAscending q.positions)
    (hseeds : ∀ q ∈ qs, ∀ s ∈ t.lookup q.key, ∃ r ∈ refs, r.id = s.refId)
    (halign : ∀ r ∈ refs, ∀ q ∈ qs, ∀ peaks rev, ∃ row, alignerAlign cfg.P cfg.C r q peaks rev it = .ok row) :
    ∃ rows, executeSingle cfg refs t qs it = .ok rows := by
  rw [SrcBlind.executeSingle_eq]
  obtain ⟨ys, hys⟩ := SrcBlind.mapM_ok_of_forall (fun q => perQuery cfg refs (t.lookup q.key) q it) qs (by
    intro q hq
    unfold perQuery
    split
    · exact ⟨_, rfl⟩
    · apply SrcBlind.bind_ok_of
      apply SrcBlind.mapM_ok_of_forall
      intro s hs
      obtain ⟨r, hr, hid⟩ := hseeds q hq s hs
      split
      next hf =>
        rw [List.find?_eq_none] at hf
        exact absurd (by simpa using hid) (hf r hr)
      next r' hf =>
        exact halign r' (List.mem_of_find?_eq_some hf) q hq s.peaks s.rev)
  exact ⟨_, by rw [hys]; rfl⟩

end Coma.Proofs
