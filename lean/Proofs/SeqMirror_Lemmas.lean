/-
  Proofs/SeqMirror_Lemmas.lean — helper lemmas for Proofs/SeqMirror.lean:
  exact length of `vecGo` when no label lies beyond `stop`, lattice bit characterisation,
  list extensionality through `getD`.
-/
import Coma.Peaks
import Proofs.Vector
import Proofs.Mirror
namespace Coma.Proofs.SeqMirror
open Coma Coma.Spec Coma.Proofs Coma.Proofs.Vector

theorem ext_getD (a b : List Nat) (hl : a.length = b.length)
    (h : ∀ i, i < a.length → a.getD i 0 = b.getD i 0) : a = b := by
  apply List.ext_getElem hl
  intro i h1 h2
  have := h i h1
  simpa [List.getD_eq_getElem?_getD, List.getElem?_eq_getElem h1, List.getElem?_eq_getElem h2] using this

theorem getD_reverse (v : List Nat) (i : Nat) (hi : i < v.length) :
    v.reverse.getD i 0 = v.getD (v.length - 1 - i) 0 := by
  simp [List.getD_eq_getElem?_getD, List.getElem?_reverse hi]

theorem bit_eq (x y : Nat) (hx : x = 1 ∨ x = 0) (hy : y = 1 ∨ y = 0) (h : x = 1 ↔ y = 1) : x = y := by
  omega

theorem mem_le_last : ∀ (ps : List Int) (l : Int), Ascending ps → ps.getLast? = some l →
    ∀ p ∈ ps, p ≤ l := by
  intro ps
  induction ps with
  | nil => intro l _ _ p hp; simp at hp
  | cons a as ih =>
    intro l hs hl p hp
    cases as with
    | nil =>
      simp at hl hp
      omega
    | cons b bs =>
      rw [List.getLast?_cons_cons] at hl
      have hs' := List.pairwise_cons.mp hs
      rcases List.mem_cons.mp hp with rfl | hp
      · have h1 := hs'.1 l (List.mem_of_getLast? hl)
        exact h1
      · exact ih l hs'.2 hl p hp

theorem vecGo_length (res stop : Int) (hres : 1 ≤ res) :
    ∀ (ps : List Int) (ws l : Int), Ascending ps → (∀ p ∈ ps, p ≤ stop) → ps.getLast? = some l →
      (vecGo res stop ws ps).length = if l < ws then 0 else ((l - ws) / res).toNat + 1 := by
  intro ps
  induction ps with
  | nil => intro ws l _ _ h; simp at h
  | cons p ps ih =>
    intro ws l hs hst hl
    have hs' : Ascending ps := (List.pairwise_cons.mp hs).2
    have hst' : ∀ q ∈ ps, q ≤ stop := fun q hq => hst q (List.mem_cons_of_mem _ hq)
    have hpl : p ≤ l := mem_le_last _ l hs hl p List.mem_cons_self
    by_cases hp : p < ws
    · rw [vecGo_lt _ _ _ _ _ hp]
      cases ps with
      | nil =>
        simp at hl
        subst hl
        simp [vecGo, hp]
      | cons q qs =>
        rw [List.getLast?_cons_cons] at hl
        exact ih ws l hs' hst' hl
    · obtain ⟨k, hk, hcase⟩ := vecGo_ge res stop ws p ps hres (by omega)
      have hps := hst p List.mem_cons_self
      rcases hcase with ⟨hpk, heq⟩ | ⟨hstop, _⟩
      · rw [heq, if_neg (by omega)]
        cases ps with
        | nil =>
          simp at hl
          subst hl
          have := bin_ediv ws res p k hres hk (by rw [succ_mul']; omega)
          simp [vecGo, this]
        | cons q qs =>
          rw [List.getLast?_cons_cons] at hl
          have := ih (ws + k * res + res) l hs' hst' hl
          simp only [List.length_append, List.length_replicate, List.length_cons, this]
          by_cases hlw : l < ws + k * res + res
          · rw [if_pos hlw]
            have := bin_ediv ws res l k hres (by omega) (by rw [succ_mul']; omega)
            omega
          · rw [if_neg hlw]
            have h := Int.add_mul_ediv_right (l - (ws + k * res + res)) (k + 1) (c := res) (by omega)
            have e : l - (ws + k * res + res) + (k + 1) * res = l - ws := by
              rw [succ_mul']; omega
            rw [e] at h
            have h0 : 0 ≤ (l - (ws + k * res + res)) / res := Int.ediv_nonneg (by omega) (by omega)
            omega
      · omega

/-- on a lattice, bit `i` is set iff the lattice point `i·res` is a label -/
theorem lattice_bin (res : Int) (hres : 1 ≤ res) (i : Nat) (p : Int) (hd : res ∣ p) :
    ((0 : Int) + i * res ≤ p ∧ p < 0 + ((i : Int) + 1) * res) ↔ p = i * res := by
  obtain ⟨c, rfl⟩ := hd
  rw [Int.zero_add, Int.zero_add, Int.mul_comm res c]
  constructor
  · rintro ⟨h1, h2⟩
    have a1 : (i : Int) ≤ c := Int.le_of_mul_le_mul_right h1 (by omega)
    have a2 : c < (i : Int) + 1 := Int.lt_of_mul_lt_mul_right h2 (by omega)
    have : c = i := by omega
    rw [this]
  · intro h
    rw [h, succ_mul']
    omega

end Coma.Proofs.SeqMirror

namespace Coma.Proofs.SeqMirror
open Coma Coma.Spec Coma.Proofs Coma.Proofs.Vector

/-- the vector of a trimmed lattice molecule: exact length and exact contents -/
theorem trimmed_vec (m : OMap) (res : Int) (ht : Trimmed m) (hres : 1 ≤ res)
    (hl : ∀ p ∈ m.positions, res ∣ p) :
    ∃ v, vectorise m.positions res 0 none = .ok v ∧
      v.length = ((m.length - 1) / res).toNat + 1 ∧
      ∀ i, i < v.length → (v.getD i 0 = 1 ∨ v.getD i 0 = 0) ∧
        (v.getD i 0 = 1 ↔ (i : Int) * res ∈ m.positions) := by
  obtain ⟨_, h2, h3, h4⟩ := ht
  rw [Mirror.lastD_eq] at h3
  have hne : m.positions ≠ [] := by
    intro h; rw [h] at h2; cases h2
  obtain ⟨v, hv⟩ := (vectorise_ok m.positions res 0 none).mpr ⟨hres, Or.inl hne⟩
  refine ⟨v, hv, ?_, ?_⟩
  · obtain ⟨_, rfl⟩ := vectorise_eq _ _ _ _ _ hv
    cases hlast : m.positions.getLast? with
    | none => exact absurd (List.getLast?_eq_none_iff.mp hlast) hne
    | some l =>
      rw [hlast] at h3
      simp only [Option.getD_some] at h3
      have h0 : (0 : Int) ∈ m.positions := List.mem_of_head? h2
      have hl0 := mem_le_last _ l h4 hlast 0 h0
      have hstop : stopEff' m.positions none = l := by simp [stopEff', hlast]
      rw [hstop, vecGo_length res l hres m.positions 0 l h4 (mem_le_last _ l h4 hlast) hlast,
        if_neg (by omega), h3]
      simp
  · intro i hi
    obtain ⟨hb, hiff⟩ := vectorise_bits m.positions res 0 none v h4 hv i hi
    refine ⟨hb, hiff.trans ⟨?_, ?_⟩⟩
    · rintro ⟨p, hp, hp2⟩
      rw [(lattice_bin res hres i p (hl p hp)).mp hp2] at hp
      exact hp
    · intro h
      exact ⟨_, h, (lattice_bin res hres i _ (hl _ h)).mpr rfl⟩

end Coma.Proofs.SeqMirror
