/-
  Proofs/PeaksMax.lean — the global maximum of the secondary correlation is returned as a seed.
-/
import Proofs.Peaks
namespace Coma.Proofs
open Coma

/-- a local-maximum plateau whose height is the global maximum `v ≥ thr`, with a sample of at most
    19/20·v somewhere on either side, passes both conditions of `find_peaks` as `refine` calls it: its
    midpoint is returned with height `v` -/
theorem findPeaks_max_plateau (thr : Rat) (x : List Int) (l r : Nat) (v : Int)
    (hpl : IsPlateau x l r) (hv : x[l]? = some v) (hmax : maxInit0 x = v) (hthr : thr ≤ (v : Rat))
    (hleft : ∃ i y, i < l ∧ x[i]? = some y ∧ 20 * y ≤ 19 * v)
    (hright : ∃ j y, r < j ∧ x[j]? = some y ∧ 20 * y ≤ 19 * v) :
    ((l + r) / 2, v) ∈ findPeaksSecondary thr x := by
  have hpl' := hpl
  obtain ⟨h1, h2, h3, heq, _⟩ := hpl
  have hp : x[(l + r) / 2]? = some v := by
    rw [heq _ (by omega) (by omega)]; exact hv
  rw [findPeaksSecondary_iff]
  refine ⟨(localMaxima_iff x _).mpr ⟨l, r, hpl', rfl⟩, hp, hthr, ?_⟩
  obtain ⟨h0, hle, _⟩ := maxInit0_spec x
  obtain ⟨lo, hi, hlo, hhi, hlen, _, hlo', hhi', lm, rm, _, hlm, _, hrm, hprom⟩ :=
    prominence_spec x _ v hp
  have hlo0 : lo = 0 := by
    rcases hlo' with h | ⟨y, hy, hvy⟩
    · exact h
    · have := hle y (List.mem_of_getElem? hy); omega
  have hhi1 : hi + 1 = x.length := by
    rcases hhi' with h | ⟨y, hy, hvy⟩
    · exact h
    · have := hle y (List.mem_of_getElem? hy); omega
  obtain ⟨i, yi, hil, hyi, hyiv⟩ := hleft
  obtain ⟨j, yj, hjr, hyj, hyjv⟩ := hright
  have hjlen : j < x.length := by
    rcases Nat.lt_or_ge j x.length with h | h
    · exact h
    · rw [List.getElem?_eq_none h] at hyj; cases hyj
  have hl1 := hlm i yi (by omega) (by omega) hyi
  have hr1 := hrm j yj (by omega) (by omega) hyj
  rw [hprom, hmax]
  rw [hmax] at h0
  omega

/-- the secondary correlation of a query vector that is covered, bit for bit, by the reference window
    vector at lag `k` (an exact copy) takes its largest possible value there: the number of set query
    bits, which bounds the correlation at every lag -/
theorem correlate_copy_max (rs qs corr : List Nat) (k : Nat) (hr : Bits rs) (hq : Bits qs)
    (hk : k + qs.length ≤ rs.length) (hc : correlate rs qs = .ok corr)
    (hcov : ∀ j, j < qs.length → qs.getD j 0 = 1 → rs.getD (k + j) 0 = 1) :
    corr[k]? = some (sumNat qs) ∧ ∀ y ∈ corr, y ≤ sumNat qs := by
  refine ⟨?_, Peaks.correlate_le rs qs corr hr hc⟩
  unfold correlate at hc
  split at hc
  · cases hc
  · rw [if_pos (by omega)] at hc
    cases hc
    refine corr_at_match rs qs hq k hk ?_
    intro j hj
    by_cases hjl : j < qs.length
    · exact hcov j hjl hj
    · rw [List.getD_eq_getElem?_getD, List.getElem?_eq_none (by omega)] at hj
      simp at hj

end Coma.Proofs
