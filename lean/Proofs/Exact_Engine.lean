import Props.Defs
import Proofs.Exact_Lists
namespace Coma.Proofs.Exact
open Coma Coma.Spec Coma.Proofs

/-- the abstract situation of an exact copy: the list of true pairs, each at offset `s - w0`,
    reference labels ≥ 2000 apart, sites pairwise distinct -/
structure Good (s w0 it : Int) (ps : List Pr) : Prop where
  sh  : ∀ p ∈ ps, p.shift = s - w0 ∧ p.src = it ∧ p.q.pos = p.r.pos - w0
  gap : ps.Pairwise (fun a b => a.r.pos + 2000 ≤ b.r.pos)
  rs  : ps.Pairwise (fun a b => a.r.site < b.r.site)
  qs  : ps.Pairwise (fun a b => a.q.site ≠ b.q.site)

theorem flatMap_single {α β} (F : α → List β) (G : α → β) (l : List α) (h : ∀ a ∈ l, F a = [G a]) :
    l.flatMap F = l.map G := by
  induction l with
  | nil => rfl
  | cons a as ih =>
    simp only [List.flatMap_cons, List.map_cons, h a List.mem_cons_self]
    rw [ih (fun x hx => h x (List.mem_cons_of_mem _ hx))]
    rfl

theorem candidates_eq {s w0 it : Int} {ps : List Pr} (G : Good s w0 it ps) (hs : (s - w0).natAbs ≤ 200) :
    candidates 1500 s it (ps.map (·.r)) (ps.map (·.q)) = ps := by
  unfold candidates
  rw [List.flatMap_map]
  rw [flatMap_single _ id ps]
  · simp
  · intro p hp
    obtain ⟨A, B, rfl⟩ := List.append_of_mem hp
    have hg := List.pairwise_append.1 G.gap
    have hgB := (List.pairwise_cons.1 hg.2.1).1
    have hgA := fun a ha => hg.2.2 a ha p List.mem_cons_self
    have hsh := G.sh
    have hp3 := hsh p hp
    have hw : window (p.r.pos - s - 1500) (p.r.pos - s + 1500) ((A ++ p :: B).map (·.q)) = [p.q] := by
      have e : (A ++ p :: B).map (·.q) = A.map (·.q) ++ ([p.q] ++ B.map (·.q)) := by simp
      rw [e]
      apply window_mid _ _ (by omega)
      · intro a ha
        obtain ⟨a', ha', rfl⟩ := List.mem_map.1 ha
        have h1 := hgA a' ha'
        have h2 := (hsh a' (by simp [ha'])).2.2
        omega
      · intro w hw
        simp at hw
        subst hw
        omega
      · intro b hb
        obtain ⟨b', hb', rfl⟩ := List.mem_map.1 hb
        have h1 := hgB b' hb'
        have h2 := (hsh b' (by simp [hb'])).2.2
        omega
    rw [hw]
    obtain ⟨r, q, sh, src⟩ := p
    simp only at hp3
    obtain ⟨h1, h2, h3⟩ := hp3
    simp only [List.map_cons, List.map_nil, id]
    rw [h1, h2, h3]
    congr 2
    omega

theorem unpaired_nil (ps : List Pr) (start : Int) :
    unpaired (ps.map (·.r)) (ps.map (·.q)) ps start = [] := by
  unfold unpaired
  simp only [List.append_eq_nil_iff, List.map_eq_nil_iff, List.filter_eq_nil_iff]
  constructor
  · intro r hr
    obtain ⟨p, hp, rfl⟩ := List.mem_map.1 hr
    simp
    exact ⟨p, hp, rfl⟩
  · intro q hq
    obtain ⟨p, hp, rfl⟩ := List.mem_map.1 hq
    simp
    exact ⟨p, hp, rfl⟩

theorem engine_eq {s w0 it : Int} {ps : List Pr} (G : Good s w0 it ps) (hs : (s - w0).natAbs ≤ 200)
    (ref qry : OMap) (stop : Int) (rev : Bool)
    (hrefs : refWindow 1500 ref s stop = ps.map (·.r)) (hqs : qry.labels rev = ps.map (·.q)) :
    engineAlign 1500 ref qry s stop rev it = ps.map APos.pair := by
  unfold engineAlign
  simp only [hrefs, hqs]
  rw [candidates_eq G hs]
  have hd : dedup ps = ps := by
    apply dedup_id
    · exact List.pairwise_map.2 G.qs
    · exact List.pairwise_map.2 G.rs
  rw [hd, unpaired_nil, List.append_nil]
  apply isort_of_sorted
  rw [List.map_map, List.pairwise_map]
  exact G.gap.imp (fun h => by simp [APos.abs]; omega)

/-! ### scores, the scan, the row -/

theorem scores_eq {s w0 it : Int} {ps : List Pr} (G : Good s w0 it ps) :
    (ps.map APos.pair).map (APos.score defaultParams) =
      List.replicate ps.length (1000 - ((s - w0).natAbs : Int)) := by
  rw [List.map_map, List.eq_replicate_iff]
  refine ⟨by simp, ?_⟩
  intro b hb
  obtain ⟨p, hp, rfl⟩ := List.mem_map.1 hb
  have := (G.sh p hp).1
  simp [APos.score, defaultParams, Pr.dist, this]

theorem sumScores_eq {s w0 it : Int} {ps : List Pr} (G : Good s w0 it ps) :
    sumScores defaultParams (ps.map APos.pair) = (ps.length : Int) * (1000 - ((s - w0).natAbs : Int)) := by
  have hsh := G.sh
  clear G
  induction ps with
  | nil => simp [sumScores]
  | cons p t ih =>
    have h1 := (hsh p List.mem_cons_self).1
    have ih := ih (fun x hx => hsh x (List.mem_cons_of_mem _ hx))
    simp only [List.map_cons, sumScores, ih, List.length_cons]
    simp only [APos.score, defaultParams, Pr.dist, h1]
    push_cast
    rw [Int.add_mul]
    omega

theorem getSegments_eq {s w0 it : Int} {ps : List Pr} (G : Good s w0 it ps) (hs : (s - w0).natAbs ≤ 200)
    (hn : 2 ≤ ps.length) :
    getSegments defaultParams s (ps.map APos.pair) = [⟨s, ps.map APos.pair⟩] := by
  unfold getSegments
  rw [scores_eq G]
  have hc : (0 : Int) < 1000 - ((s - w0).natAbs : Int) := by omega
  have hms : (1000 : Int) ≤ (ps.length : Int) * (1000 - ((s - w0).natAbs : Int)) := by
    have h1 : (2 : Int) * (1000 - ((s - w0).natAbs : Int)) ≤ (ps.length : Int) * (1000 - ((s - w0).natAbs : Int)) :=
      Int.mul_le_mul_of_nonneg_right (by omega) (by omega)
    omega
  have := scanRanges_const 1000 1200 _ hc (by omega) ps.length (by omega) hms
  simp only [defaultParams]
  rw [this]
  simp only [List.map_cons, List.map_nil, List.drop_zero, Nat.sub_zero]
  rw [List.take_of_length_le (by simp)]

theorem align_eq {s w0 it : Int} {ps : List Pr} (G : Good s w0 it ps) (hs : (s - w0).natAbs ≤ 200)
    (hn : 2 ≤ ps.length) (C : ChainCfg) (ref qry : OMap) (rev : Bool)
    (hrefs : refWindow 1500 ref s (s + qry.length) = ps.map (·.r)) (hqs : qry.labels rev = ps.map (·.q)) :
    alignerAlign defaultParams C ref qry [s] rev it =
      .ok (Row.create defaultParams [⟨s, ps.map APos.pair⟩] qry.id ref.id qry.length ref.length rev) := by
  have he : engineAlign defaultParams.md ref qry s (s + qry.length) rev it = ps.map APos.pair :=
    engine_eq G hs ref qry _ rev hrefs hqs
  have h1 : segmentsOfPeak defaultParams ref qry rev it s = .ok [⟨s, ps.map APos.pair⟩] := by
    unfold segmentsOfPeak
    simp only [he]
    rw [getSegments_eq G hs hn]
    have : scoreAll? defaultParams (ps.map APos.pair) =
        some ((ps.map APos.pair).map (APos.score defaultParams)) := by
      simp [scoreAll?, defaultParams]
    rw [this]
  unfold alignerAlign
  simp only [segmentsOfPeaks, h1, bind, Except.bind, pure, Except.pure, List.append_nil, resolveConflicts]

theorem row_pairs {s : Int} (ps : List Pr) (qid rid ql rl : Int) (rev : Bool) :
    (Row.create defaultParams [⟨s, ps.map APos.pair⟩] qid rid ql rl rev).pairs = ps := by
  simp only [Row.pairs, Row.create, Seg.pairs, List.flatMap_cons, List.flatMap_nil, List.append_nil]
  exact filterMap_pair_pair ps

theorem row_conf {s w0 it : Int} {ps : List Pr} (G : Good s w0 it ps) (qid rid ql rl : Int) (rev : Bool) :
    (Row.create defaultParams [⟨s, ps.map APos.pair⟩] qid rid ql rl rev).confidence =
      (ps.length : Int) * (1000 - ((s - w0).natAbs : Int)) := by
  simp [Row.create, sumInts, Seg.score, sumScores_eq G]

end Coma.Proofs.Exact
