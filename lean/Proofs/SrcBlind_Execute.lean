import Proofs.SrcBlind_Passes
import Proofs.SrcBlind_Render
/-! the mode dispatch and the rendering: the whole run is independent of the `iteration` counter -/
namespace Coma.Proofs.SrcBlind
open Coma Coma.Spec

def eO (o : Output) : Output :=
  { main := o.main.map E, extra := o.extra.map (fun x => (x.1, x.2.map E)) }

/-- the part of `execute` after the two passes (`mode ≠ single`) -/
def execRest (cfg : Cfg) (mode : Mode) (first second : List Row) : Except Err Output := do
  let first' := if mode = .best then first ++ second else first
  let f1 := filterBestPerQuery first'
  let f2 := filterBestPerQuery second
  if mode = .separate then return { main := filterBestPerQuery f1, extra := [(1, f2)] }
  let (joined, separate) ← resolveRows cfg.P cfg.maxDifference (f1 ++ f2)
  match mode with
  | .best =>
    let ids := joined.map (·.queryId)
    let bestRows := f1.filter fun r => !ids.contains r.queryId
    return { main := filterBestPerQuery (isort (fun r => r.queryId) (joined ++ bestRows)) }
  | .joined => return { main := filterBestPerQuery joined, extra := [(1, separate)] }
  | _       => return { main := filterBestPerQuery joined, extra := [(1, f1), (2, f2)] }

theorem execute_eq (cfg : Cfg) (mode : Mode) (refs : List OMap) (t : SeedTable) (qs : List OMap) (it : Int) :
    execute cfg mode refs t qs it = (do
      let first ← executeSingle cfg refs t qs it
      if mode = .single then return { main := filterBestPerQuery first }
      let second ← secondPass cfg refs t qs first it
      execRest cfg mode first second) := rfl

theorem filter_ids_E (ids : List Int) (l : List Row) :
    (l.map E).filter (fun r => !ids.contains r.queryId) = (l.filter (fun r => !ids.contains r.queryId)).map E := by
  rw [List.filter_map]; rfl

theorem map_queryId_E (l : List Row) : (l.map E).map (·.queryId) = l.map (·.queryId) := by
  rw [List.map_map]; rfl

theorem execRest_E (cfg : Cfg) (mode : Mode) (first second : List Row) :
    execRest cfg mode (first.map E) (second.map E) = (execRest cfg mode first second).map eO := by
  unfold execRest
  cases mode <;>
    simp only [reduceCtorEq, if_false, if_true, ← List.map_append, filterBestPerQuery_E, resolveRows_E,
      bind, Except.bind, pure, Except.pure]
  · cases resolveRows cfg.P cfg.maxDifference
      (filterBestPerQuery first ++ filterBestPerQuery second) with
    | error e => rfl
    | ok js => simp only [Except.map, eJ, eO, filterBestPerQuery_E, List.map_cons, List.map_nil]
  · cases resolveRows cfg.P cfg.maxDifference
      (filterBestPerQuery (first ++ second) ++ filterBestPerQuery second) with
    | error e => rfl
    | ok js =>
      simp only [Except.map, eJ, map_queryId_E, filter_ids_E, ← List.map_append,
        isort_map E (fun r => r.queryId) (fun r => r.queryId) (fun _ => rfl), filterBestPerQuery_E]
      rfl
  · rfl
  · cases resolveRows cfg.P cfg.maxDifference
      (filterBestPerQuery first ++ filterBestPerQuery second) with
    | error e => rfl
    | ok js => simp only [Except.map, eJ, eO, filterBestPerQuery_E, List.map_cons, List.map_nil]
  · cases resolveRows cfg.P cfg.maxDifference
      (filterBestPerQuery first ++ filterBestPerQuery second) with
    | error e => rfl
    | ok js => simp only [Except.map, eJ, eO, filterBestPerQuery_E, List.map_cons, List.map_nil]

theorem execute_E (cfg : Cfg) (mode : Mode) (refs : List OMap) (t : SeedTable) (qs : List OMap) (it it' : Int) :
    (execute cfg mode refs t qs it).map eO = (execute cfg mode refs t qs it').map eO := by
  rw [execute_eq, execute_eq]
  have h1 := executeSingle_E cfg refs t qs it it'
  revert h1
  cases hX : executeSingle cfg refs t qs it with
  | error e =>
    cases hY : executeSingle cfg refs t qs it' with
    | error e' => intro h1; simp only [Except.map, Except.error.injEq] at h1; subst h1; rfl
    | ok first' => intro h1; simp [Except.map] at h1
  | ok first =>
    cases hY : executeSingle cfg refs t qs it' with
    | error e' => intro h1; simp [Except.map] at h1
    | ok first' =>
      intro h1
      simp only [Except.map, Except.ok.injEq] at h1
      simp only [bind, Except.bind, pure, Except.pure]
      by_cases hm : mode = .single
      · simp only [if_pos hm, Except.map, eO, ← filterBestPerQuery_E, h1]
      · simp only [if_neg hm]
        have h2 := secondPass_E cfg refs t qs first first' it it' h1
        revert h2
        cases secondPass cfg refs t qs first it with
        | error e =>
          cases secondPass cfg refs t qs first' it' with
          | error e' => intro h2; simp only [Except.map, Except.error.injEq] at h2; subst h2; rfl
          | ok second' => intro h2; simp [Except.map] at h2
        | ok second =>
          cases secondPass cfg refs t qs first' it' with
          | error e' => intro h2; simp [Except.map] at h2
          | ok second' =>
            intro h2
            simp only [Except.map, Except.ok.injEq] at h2
            show (execRest cfg mode first second).map eO = (execRest cfg mode first' second').map eO
            rw [← execRest_E, ← execRest_E, h1, h2]

/-! ### rendering of a whole run -/

def renderOut (cfg : Cfg) (out : Output) : Except Err (List (Nat × List String)) := do
  let main ← renderRows cfg out.main
  let extra ← out.extra.mapM fun (n, rows) => do
    let ls ← renderRows cfg rows
    return (n, ls)
  return (0, main) :: extra

theorem runProgram_eq (cfg : Cfg) (mode : Mode) (refRows qryRows : List CRow) (refIds qryIds : List Int)
    (t : SeedTable) (it : Int) :
    runProgram cfg mode refRows qryRows refIds qryIds t it = (do
      let (refs, qs) ← readMaps refRows qryRows refIds qryIds
      let out ← execute cfg mode refs t qs it
      renderOut cfg out) := rfl

theorem renderOut_eO (cfg : Cfg) (out : Output) : renderOut cfg (eO out) = renderOut cfg out := by
  unfold renderOut
  simp only [eO, renderRows_E]
  rw [mapM_map_list]
  simp only [renderRows_E]

theorem bind_renderOut (cfg : Cfg) (X : Except Err Output) :
    (X >>= renderOut cfg) = (X.map eO >>= renderOut cfg) := by
  cases X with
  | error e => rfl
  | ok o => exact (renderOut_eO cfg o).symm

end Coma.Proofs.SrcBlind
