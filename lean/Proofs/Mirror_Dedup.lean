import Props.Defs
import Proofs.Pairing
import Proofs.PairingOrder
namespace Coma.Proofs.Mirror
open Coma Coma.Spec

section MinBy
variable {α : Type} (f : α → Int)

theorem minByFrom_self (p : α) (b : List α) (h : ∀ c ∈ b, f p ≤ f c) : minByFrom f p b = p := by
  induction b with
  | nil => rfl
  | cons c cs ih =>
    have := h c (by simp)
    simp only [minByFrom]
    rw [if_neg (by omega)]
    exact ih (fun c hc => h c (List.mem_cons_of_mem _ hc))

theorem minByFrom_append (x p : α) (a b : List α) (hx : f p < f x) (h1 : ∀ c ∈ a, f p < f c)
    (h2 : ∀ c ∈ b, f p ≤ f c) : minByFrom f x (a ++ p :: b) = p := by
  induction a generalizing x with
  | nil =>
    simp only [List.nil_append, minByFrom, if_pos hx]
    exact minByFrom_self f p b h2
  | cons c cs ih =>
    simp only [List.cons_append, minByFrom]
    split
    · exact ih c (h1 c (by simp)) (fun c hc => h1 c (List.mem_cons_of_mem _ hc))
    · exact ih x hx (fun c hc => h1 c (List.mem_cons_of_mem _ hc))

theorem minBy?_firstMin (p : α) (a b : List α) (h1 : ∀ c ∈ a, f p < f c)
    (h2 : ∀ c ∈ b, f p ≤ f c) : minBy? f (a ++ p :: b) = some p := by
  cases a with
  | nil => simp only [List.nil_append, minBy?, minByFrom_self f p b h2]
  | cons x xs =>
    simp only [List.cons_append, minBy?]
    rw [minByFrom_append f x p xs b (h1 x (by simp)) (fun c hc => h1 c (List.mem_cons_of_mem _ hc)) h2]

end MinBy

/-- converse of `PO.dedupByKey_firstMin` -/
theorem mem_dedupByKey_of_firstMin (key : Pr → Int) {l1 l2 : List Pr} {p : Pr}
    (h1 : ∀ c ∈ l1, key c = key p → p.dist < c.dist) (h2 : ∀ c ∈ l2, key c = key p → p.dist ≤ c.dist) :
    p ∈ dedupByKey key (l1 ++ p :: l2) := by
  unfold dedupByKey
  refine List.mem_filterMap.2
    ⟨(isort key (l1 ++ p :: l2)).filter (fun y => decide (key y = key p)), ?_, ?_⟩
  · exact (PO.mem_groupAdj_sorted key (PO.isort_sorted key _) _).2 ⟨p, (PO.mem_isort key).2 (by simp), rfl⟩
  · rw [PO.filter_isort, List.filter_append, List.filter_cons, if_pos (by simp)]
    apply minBy?_firstMin
    · intro c hc
      obtain ⟨hc1, hc2⟩ := List.mem_filter.1 hc
      exact h1 c hc1 (by simpa using hc2)
    · intro c hc
      obtain ⟨hc1, hc2⟩ := List.mem_filter.1 hc
      exact h2 c hc1 (by simpa using hc2)

/-- membership in `dedupByKey` depends on the key only through its equality classes -/
theorem mem_dedupByKey_congr (key key' : Pr → Int) (ps : List Pr)
    (hk : ∀ a ∈ ps, ∀ b ∈ ps, key a = key b ↔ key' a = key' b) (p : Pr) :
    p ∈ dedupByKey key ps → p ∈ dedupByKey key' ps := by
  intro hp
  obtain ⟨l1, l2, rfl, h1, h2⟩ := PO.dedupByKey_firstMin key hp
  apply mem_dedupByKey_of_firstMin
  · intro c hc hkc
    exact h1 c hc ((hk c (by simp [hc]) p (by simp)).2 hkc)
  · intro c hc hkc
    exact h2 c hc ((hk c (by simp [hc]) p (by simp)).2 hkc)

/-- `dedupByKey` commutes with a map that transports the key and keeps the distance -/
theorem dedupByKey_map' (f : Pr → Pr) (key key' : Pr → Int) (hk : ∀ p, key (f p) = key' p)
    (hd : ∀ p, (f p).dist = p.dist) (ps : List Pr) :
    dedupByKey key (ps.map f) = (dedupByKey key' ps).map f := by
  unfold dedupByKey
  rw [isort_map f key key' hk, groupAdj_map f key key' hk, List.filterMap_map, List.map_filterMap]
  congr 1
  funext g
  simp only [Function.comp]
  rw [minBy?_map f Pr.dist Pr.dist hd]

/-- two lists strictly sorted by a key with the same members are equal -/
theorem eq_of_sorted_of_mem {α : Type} (key : α → Int) : ∀ (l1 l2 : List α),
    l1.Pairwise (fun a b => key a < key b) → l2.Pairwise (fun a b => key a < key b) →
    (∀ x, x ∈ l1 ↔ x ∈ l2) → l1 = l2
  | [], [], _, _, _ => rfl
  | [], b :: _, _, _, h => by have := (h b).2 (by simp); simp at this
  | a :: _, [], _, _, h => by have := (h a).1 (by simp); simp at this
  | a :: t1, b :: t2, h1, h2, h => by
    rw [List.pairwise_cons] at h1 h2
    have hab : a = b := by
      by_cases e : a = b
      · exact e
      · have ha : a ∈ t2 := by
          have := (h a).1 (by simp)
          rcases List.mem_cons.1 this with h' | h'
          · exact absurd h' e
          · exact h'
        have hb : b ∈ t1 := by
          have := (h b).2 (by simp)
          rcases List.mem_cons.1 this with h' | h'
          · exact absurd h'.symm e
          · exact h'
        have := h1.1 b hb
        have := h2.1 a ha
        omega
    subst hab
    congr 1
    apply eq_of_sorted_of_mem key t1 t2 h1.2 h2.2
    intro x
    constructor
    · intro hx
      have := (h x).1 (List.mem_cons_of_mem _ hx)
      rcases List.mem_cons.1 this with h' | h'
      · have := h1.1 x hx; rw [h'] at this; omega
      · exact h'
    · intro hx
      have := (h x).2 (List.mem_cons_of_mem _ hx)
      rcases List.mem_cons.1 this with h' | h'
      · have := h2.1 x hx; rw [h'] at this; omega
      · exact h'

/-- when distances are pairwise different inside every key class, the survivors are exactly the
    strict minima of their classes -/
theorem mem_dedupByKey_iff_of_distinct (key : Pr → Int) (A : List Pr)
    (hD : ∀ c ∈ A, ∀ c' ∈ A, key c = key c' → c ≠ c' → c.dist ≠ c'.dist) (x : Pr) :
    x ∈ dedupByKey key A ↔ x ∈ A ∧ ∀ c ∈ A, key c = key x → c ≠ x → x.dist < c.dist := by
  constructor
  · intro hx
    have hxA := PO.dedupByKey_subset key hx
    refine ⟨hxA, ?_⟩
    intro c hc hk hne
    have hle := (PO.dedupByKey_spec key (fun _ => 0) (List.pairwise_of_forall (fun _ _ => Int.le_refl _)) hx c hc hk).1
    have := hD c hc x hxA hk hne
    omega
  · rintro ⟨hxA, hmin⟩
    exact PO.mem_dedupByKey_of_unique_min key hxA hmin

theorem dedupByKey_eq_of_mem (key : Pr → Int) (A A' : List Pr) (hm : ∀ x, x ∈ A ↔ x ∈ A')
    (hD : ∀ c ∈ A, ∀ c' ∈ A, key c = key c' → c ≠ c' → c.dist ≠ c'.dist) :
    dedupByKey key A' = dedupByKey key A := by
  have hD' : ∀ c ∈ A', ∀ c' ∈ A', key c = key c' → c ≠ c' → c.dist ≠ c'.dist :=
    fun c hc c' hc' => hD c ((hm c).2 hc) c' ((hm c').2 hc')
  apply eq_of_sorted_of_mem key
  · exact List.pairwise_map.1 (dedupByKey_keys_lt key A')
  · exact List.pairwise_map.1 (dedupByKey_keys_lt key A)
  · intro x
    rw [mem_dedupByKey_iff_of_distinct key A hD, mem_dedupByKey_iff_of_distinct key A' hD']
    constructor
    · rintro ⟨h1, h2⟩
      exact ⟨(hm x).2 h1, fun c hc => h2 c ((hm c).1 hc)⟩
    · rintro ⟨h1, h2⟩
      exact ⟨(hm x).1 h1, fun c hc => h2 c ((hm c).2 hc)⟩

theorem dedup_relabel' (σ τ : Int → Int) (hσ : ∀ a b, σ a = σ b → a = b) (md start it : Int) (refs qs : List Lbl)
    (hq : Ascending (qs.map (·.pos))) (hnt : NoTies md start refs qs)
    (hrs : (refs.map (·.site)).Nodup) :
    dedup ((candidates md start it refs qs).map (relabelPr σ τ)) =
      (dedup (candidates md start it refs qs)).map (relabelPr σ τ) := by
  unfold dedup
  generalize hc : candidates md start it refs qs = cands
  have hqs' : qs.Pairwise (fun a b => a.pos ≤ b.pos) := List.pairwise_map.1 hq
  rw [dedupByKey_map' (relabelPr σ τ) (fun p => p.q.site) (fun p => σ p.q.site) (fun _ => rfl) (fun _ => rfl),
    dedupByKey_map' (relabelPr σ τ) (fun p => p.r.site) (fun p => p.r.site) (fun _ => rfl) (fun _ => rfl)]
  congr 1
  apply dedupByKey_eq_of_mem
  · intro x
    constructor
    · exact mem_dedupByKey_congr _ _ cands (fun a _ b _ => ⟨fun h => congrArg σ h, fun h => hσ _ _ h⟩) x
    · exact mem_dedupByKey_congr _ _ cands (fun a _ b _ => ⟨fun h => hσ _ _ h, fun h => congrArg σ h⟩) x
  · intro c hcA c' hcA' hk hne
    have hcc := PO.dedupByKey_subset _ hcA
    have hcc' := PO.dedupByKey_subset _ hcA'
    rw [← hc] at hcc hcc'
    obtain ⟨h1, h2, h3, h4, h5, h6⟩ := (PO.mem_candidates hqs' c).1 hcc
    obtain ⟨h1', h2', h3', h4', h5', h6'⟩ := (PO.mem_candidates hqs' c').1 hcc'
    have hr : c.r = c'.r := inj_of_nodup_map Lbl.site hrs _ h1 _ h1' hk
    have hqne : c.q ≠ c'.q := by
      intro hqq
      have := inj_of_nodup_map (fun p : Pr => p.q.site) (dedupByKey_keys_nodup (fun p => p.q.site) cands)
        c hcA c' hcA' (by simp only [hqq])
      exact hne this
    have hn := hnt c.r h1 c.q h2 c'.q h2' hqne
    unfold offset at hn
    unfold Pr.dist
    rw [h3, h3', ← hr]
    rw [h3] at h4 h5
    rw [h3', ← hr] at h4' h5'
    have := hn (by omega) (by omega)
    omega

end Coma.Proofs.Mirror
