import Proofs.Mirror_Basic
import Proofs.Mirror_Dedup
import Proofs.Mirror_Labels
import Proofs.Mirror_Conflict
import Proofs.Fields
namespace Coma.Proofs.Mirror
open Coma Coma.Spec

def relabelLbl (σ : Int → Int) (l : Lbl) : Lbl := ⟨σ l.site, l.pos⟩

theorem window_relabel (σ : Int → Int) (lo hi : Int) (qs : List Lbl) :
    window lo hi (qs.map (relabelLbl σ)) = (window lo hi qs).map (relabelLbl σ) := by
  unfold window
  rw [List.dropWhile_map, List.takeWhile_map]
  rfl

theorem candidates_relabel (σ : Int → Int) (md start it : Int) (refs qs : List Lbl) :
    candidates md start it refs (qs.map (relabelLbl σ)) =
      (candidates md start it refs qs).map (relabelPr σ id) := by
  unfold candidates
  rw [List.map_flatMap]
  congr 1
  funext r
  rw [window_relabel, List.map_map, List.map_map]
  rfl

theorem contains_map_inj (σ : Int → Int) (hσ : ∀ a b, σ a = σ b → a = b) (l : List Int) (s : Int) :
    (l.map σ).contains (σ s) = l.contains s := by
  induction l with
  | nil => rfl
  | cons a as ih =>
    simp only [List.map_cons, List.contains_cons, ih]
    congr 1
    by_cases h : s = a
    · subst h; simp
    · have : σ s ≠ σ a := fun e => h (hσ _ _ e)
      rw [beq_eq_false_iff_ne.2 h, beq_eq_false_iff_ne.2 this]

theorem unpaired_relabel (σ : Int → Int) (hσ : ∀ a b, σ a = σ b → a = b) (refs qs : List Lbl) (pairs : List Pr)
    (start : Int) :
    unpaired refs (qs.map (relabelLbl σ)) (pairs.map (relabelPr σ id)) start =
      (unpaired refs qs pairs start).map (relabelAPos σ id) := by
  unfold unpaired
  have e1 : (pairs.map (relabelPr σ id)).map (fun p => p.r.site) = pairs.map (fun p => p.r.site) := by
    rw [List.map_map]; rfl
  have e2 : (pairs.map (relabelPr σ id)).map (fun p => p.q.site) = (pairs.map (fun p => p.q.site)).map σ := by
    rw [List.map_map, List.map_map]; rfl
  simp only [e1, e2, List.map_append]
  generalize pairs.map (fun p => p.q.site) = L
  congr 1
  · rw [List.map_map]; rfl
  · have e3 : ((fun q : Lbl => !(L.map σ).contains q.site) ∘ relabelLbl σ) =
        (fun q : Lbl => !L.contains q.site) := by
      funext q
      simp only [Function.comp, relabelLbl, contains_map_inj σ hσ]
    rw [List.filter_map, e3, List.map_map, List.map_map]
    rfl

theorem engineAlign_mirror' (md : Int) (ref qry : OMap) (start stop : Int) (rev : Bool) (it : Int)
    (hs : qry.shift = 0) (ha : Ascending qry.positions)
    (hnt : NoTies md start (refWindow md ref start stop) (qry.labels rev)) :
    engineAlign md ref qry.mirror start stop (!rev) it =
      (engineAlign md ref qry start stop rev it).map
        (relabelAPos (fun k => (qry.positions.length : Int) + 1 - k) id) := by
  have hσ : ∀ a b : Int, (qry.positions.length : Int) + 1 - a = (qry.positions.length : Int) + 1 - b → a = b := by
    intro a b h; omega
  unfold engineAlign
  simp only
  rw [labels_mirror' qry rev hs]
  change isort APos.abs
    ((dedup (candidates md start it (refWindow md ref start stop)
      ((qry.labels rev).map (relabelLbl (fun k => (qry.positions.length : Int) + 1 - k))))).map APos.pair ++
      unpaired (refWindow md ref start stop)
        ((qry.labels rev).map (relabelLbl (fun k => (qry.positions.length : Int) + 1 - k)))
        (dedup (candidates md start it (refWindow md ref start stop)
          ((qry.labels rev).map (relabelLbl (fun k => (qry.positions.length : Int) + 1 - k))))) start) = _
  rw [candidates_relabel, dedup_relabel' _ id hσ md start it _ _ (labels_pos_asc qry rev ha) hnt
    (refWindow_site_nodup md ref start stop), unpaired_relabel _ hσ,
    ← isort_map (relabelAPos (fun k => (qry.positions.length : Int) + 1 - k) id) APos.abs APos.abs
      (fun a => abs_relabel _ _ a)]
  congr 1
  simp only [List.map_append, List.map_map]
  rfl


/-! ### the aligner -/

theorem labels_site_range (m : OMap) (rev : Bool) (hs : m.shift = 0) (l : Lbl) (hl : l ∈ m.labels rev) :
    1 ≤ l.site ∧ l.site ≤ (m.positions.length : Int) := by
  obtain ⟨k, p, hk, hsite, _⟩ := ((labels_spec m rev).2 l).1 hl
  have hlt : k < m.positions.length := by
    rcases Nat.lt_or_ge k m.positions.length with h | h
    · exact h
    · rw [List.getElem?_eq_none h] at hk; cases hk
  omega

theorem scoreAll?_relabel (σ τ : Int → Int) (P : Params) (xs : List APos) :
    scoreAll? P (xs.map (relabelAPos σ τ)) = scoreAll? P xs := by
  unfold scoreAll?
  rw [map_score_relabel, List.any_map]
  have : ((fun a : APos => !a.isPair) ∘ relabelAPos σ τ) = (fun a : APos => !a.isPair) := by
    funext a; simp
  rw [this]

section Aligner
variable (P : Params) (ref qry : OMap) (rev : Bool)

/-- every pair of every segment names a query label of the molecule -/
def QOK (qry : OMap) (rev : Bool) (s : Seg) : Prop := ∀ p ∈ s.pairs, p.q ∈ qry.labels rev

theorem getSegments_items_mem (peak : Int) (xs : List APos) (s : Seg) (hs : s ∈ getSegments P peak xs) :
    ∀ a ∈ s.items, a ∈ xs := by
  unfold getSegments at hs
  split at hs
  · simp only [List.mem_singleton] at hs
    subst hs
    intro a ha; cases ha
  · obtain ⟨r, _, rfl⟩ := List.mem_map.1 hs
    intro a ha
    exact List.mem_of_mem_drop (List.mem_of_mem_take ha)

theorem segmentsOfPeak_QOK (ha : Ascending qry.positions) (it peak : Int) (segs : List Seg)
    (h : segmentsOfPeak P ref qry rev it peak = .ok segs) : ∀ s ∈ segs, QOK qry rev s := by
  unfold segmentsOfPeak at h
  simp only at h
  split at h
  · cases h
  · injection h with h
    subst h
    intro s hs p hp
    have := getSegments_items_mem P peak _ s hs _ (Conflict.mem_pairs.1 hp)
    exact (engine_within P.md ref qry peak (peak + qry.length) rev it ha p this).2.1

theorem segmentsOfPeaks_QOK (ha : Ascending qry.positions) (peaks : List Int) :
    ∀ (it : Int) (segs : List Seg), segmentsOfPeaks P ref qry rev it peaks = .ok segs →
      ∀ s ∈ segs, QOK qry rev s := by
  induction peaks with
  | nil =>
    intro it segs h
    injection h with h
    subst h
    intro s hs; cases hs
  | cons p ps ih =>
    intro it segs h
    simp only [segmentsOfPeaks, bind, Except.bind, pure, Except.pure] at h
    cases ha1 : segmentsOfPeak P ref qry rev it p with
    | error e => rw [ha1] at h; cases h
    | ok a =>
      rw [ha1] at h
      simp only at h
      cases hb1 : segmentsOfPeaks P ref qry rev (it + 1) ps with
      | error e => rw [hb1] at h; cases h
      | ok b =>
        rw [hb1] at h
        injection h with h
        subst h
        intro s hs
        rcases List.mem_append.1 hs with hs | hs
        · exact segmentsOfPeak_QOK P ref qry rev ha it p a ha1 s hs
        · exact ih (it + 1) b hb1 s hs

theorem segmentsOfPeak_mirror (hs : qry.shift = 0) (ha : Ascending qry.positions) (it peak : Int)
    (hnt : NoTies P.md peak (refWindow P.md ref peak (peak + qry.length)) (qry.labels rev)) :
    segmentsOfPeak P ref qry.mirror (!rev) it peak =
      (segmentsOfPeak P ref qry rev it peak).map
        (List.map (relabelSeg (fun k => (qry.positions.length : Int) + 1 - k) id)) := by
  unfold segmentsOfPeak
  simp only
  have hl : qry.mirror.length = qry.length := rfl
  rw [hl, engineAlign_mirror' P.md ref qry peak (peak + qry.length) rev it hs ha hnt, scoreAll?_relabel,
    getSegments_relabel']
  cases scoreAll? P (engineAlign P.md ref qry peak (peak + qry.length) rev it) <;> rfl

theorem segmentsOfPeaks_mirror (hs : qry.shift = 0) (ha : Ascending qry.positions) (peaks : List Int) :
    ∀ (it : Int),
    (∀ peak ∈ peaks, NoTies P.md peak (refWindow P.md ref peak (peak + qry.length)) (qry.labels rev)) →
    segmentsOfPeaks P ref qry.mirror (!rev) it peaks =
      (segmentsOfPeaks P ref qry rev it peaks).map
        (List.map (relabelSeg (fun k => (qry.positions.length : Int) + 1 - k) id)) := by
  induction peaks with
  | nil => intro it _; rfl
  | cons p ps ih =>
    intro it hnt
    simp only [segmentsOfPeaks, bind, Except.bind, pure, Except.pure]
    rw [segmentsOfPeak_mirror P ref qry rev hs ha it p (hnt p (by simp)),
      ih (it + 1) (fun peak hp => hnt peak (List.mem_cons_of_mem _ hp))]
    cases segmentsOfPeak P ref qry rev it p with
    | error e => rfl
    | ok a =>
      cases segmentsOfPeaks P ref qry rev (it + 1) ps with
      | error e => rfl
      | ok b => simp [Except.map]

theorem getD_map_qpos (σ τ : Int → Int) (o : Option Pr) :
    ((o.map (relabelPr σ τ)).getD nullPr).q.pos = (o.getD nullPr).q.pos ∧
    ((o.map (relabelPr σ τ)).getD nullPr).r.pos = (o.getD nullPr).r.pos := by
  cases o <;> exact ⟨rfl, rfl⟩

theorem rowCreate_mirror (n : Int) (res : List Seg) (qid rid ql rl : Int) :
    Row.create P (res.map (relabelSeg (fun k => n + 1 - k) id)) qid rid ql rl (!rev) =
      mirrorRow n (Row.create P res qid rid ql rl rev) := by
  unfold Row.create mirrorRow
  have hp : (res.map (relabelSeg (fun k => n + 1 - k) id)).flatMap Seg.pairs =
      (res.flatMap Seg.pairs).map (relabelPr (fun k => n + 1 - k) id) := by
    rw [List.flatMap_map, List.map_flatMap]
    congr 1
    funext s
    exact segPairs_relabel _ _ s
  have hsc : (res.map (relabelSeg (fun k => n + 1 - k) id)).map (Seg.score P) = res.map (Seg.score P) := by
    rw [List.map_map]
    congr 1
    funext s
    exact segScore_relabel _ _ P s
  simp only [hp, hsc]
  rw [isort_map (relabelPr (fun k => n + 1 - k) id) (fun p => p.r.pos) (fun p => p.r.pos) (fun _ => rfl)]
  simp only [List.head?_map, List.getLast?_map]
  have h1 := getD_map_qpos (fun k => n + 1 - k) id (isort (fun p : Pr => p.r.pos) (res.flatMap Seg.pairs)).head?
  have h2 := getD_map_qpos (fun k => n + 1 - k) id (isort (fun p : Pr => p.r.pos) (res.flatMap Seg.pairs)).getLast?
  cases rev <;> simp [h1.1, h1.2, h2.1, h2.2]

theorem alignerAlign_mirror' (C : ChainCfg) (peaks : List Int) (it : Int)
    (hs : qry.shift = 0) (ha : Ascending qry.positions)
    (hnt : ∀ peak ∈ peaks, NoTies P.md peak (refWindow P.md ref peak (peak + qry.length)) (qry.labels rev)) :
    alignerAlign P C ref qry.mirror peaks (!rev) it =
      (alignerAlign P C ref qry peaks rev it).map (mirrorRow qry.positions.length) := by
  unfold alignerAlign
  simp only [bind, Except.bind, pure, Except.pure]
  rw [segmentsOfPeaks_mirror P ref qry rev hs ha peaks it hnt]
  cases hsegs : segmentsOfPeaks P ref qry rev it peaks with
  | error e => rfl
  | ok segs =>
    simp only [Except.map]
    have hq := segmentsOfPeaks_QOK P ref qry rev ha peaks it segs hsegs
    rw [resolveConflicts_relabel_of _ id (by intro a b h; omega) P C segs ?_]
    · cases resolveConflicts P C segs with
      | error e => rfl
      | ok res =>
        simp only [Except.map]
        congr 1
        exact rowCreate_mirror P rev _ res _ _ _ _
    · intro s hs' p hp _
      have := labels_site_range qry rev hs p.q (hq s hs' p hp)
      constructor
      · intro h
        have h' : (qry.positions.length : Int) + 1 - p.q.site = 0 := h
        omega
      · intro h
        omega

end Aligner

end Coma.Proofs.Mirror
