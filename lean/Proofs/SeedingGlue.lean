/-
  Proofs/SeedingGlue.lean — two facts that connect the parameter of the model (the selected PRIMARY peaks) to the
  hypotheses of the theorems about the secondary stage, and the derived seed table to the order of the molecules.
-/
import Proofs.SeededTotal
import Proofs.CopySeed_Vec
namespace Coma.Proofs
open Coma Coma.Spec

/-- A primary peak sits at the centre of an INTERIOR lag `k` of the primary correlation (scipy's `find_peaks` never
    returns the first or the last sample), so `k + 1 < |reference vector|`; the reference vector ends with the bin of
    the last reference label.  Hence the refinement window of such a peak (it starts `margin ≥ 0` before the peak)
    always reaches a reference label: the hypothesis of `C07_refine_total` / `PSeedOK` holds for every peak the primary
    stage can select, at every primary resolution and blur. -/
theorem primary_peak_window_ok (res1 blur1 margin : Int) (ref : OMap) (rv : List Nat) (k : Nat)
    (hres : 1 ≤ res1) (hm : 0 ≤ margin) (hasc : Ascending ref.positions) (hnn : ∀ p ∈ ref.positions, 0 ≤ p)
    (hv : sequenceOf res1 blur1 ref.positions 0 none = .ok rv) (hk : k + 1 < rv.length) :
    ∃ p ∈ ref.positions, toBp (k : Int) res1 0 - margin ≤ p := by
  obtain ⟨v0, h1, h2⟩ := (Peaks.sequenceOf_ok _ _ _ _ _ _).mp hv
  obtain ⟨_, hv0⟩ := Vector.vectorise_eq _ _ _ _ _ h1
  obtain ⟨hlen, _⟩ := blur_spec v0 rv blur1 h2
  cases hl : ref.positions.getLast? with
  | none =>
    exfalso
    unfold vectorise at h1
    simp only [hl] at h1
    split at h1 <;> cases h1
  | some l =>
    have hmem : l ∈ ref.positions := List.mem_of_getLast? hl
    have hl0 : 0 ≤ l := hnn l hmem
    have hle := CopySeed.mem_le_last _ l hasc hl
    have hst : stopEff' ref.positions none = l := by simp [stopEff', hl]
    rw [hst] at hv0
    have hL := CopySeed.vecGo_length res1 l hres ref.positions 0 l hasc hle hl
    rw [if_neg (by omega), Int.sub_zero] at hL
    rw [hlen, hv0, hL] at hk
    have hd0 : 0 ≤ l / res1 := Int.ediv_nonneg hl0 (by omega)
    have hkd : (k : Int) + 1 ≤ l / res1 := by omega
    have h3 : ((k : Int) + 1) * res1 ≤ (l / res1) * res1 :=
      Int.mul_le_mul_of_nonneg_right hkd (by omega)
    have h4 : (l / res1) * res1 ≤ l := Int.ediv_mul_le l (by omega)
    have h5 := (toBp_centre (k : Int) res1 0 hres).2.1
    exact ⟨l, hmem, by omega⟩

/-- `find?` by id in a list with distinct ids does not depend on the order -/
theorem find?_id_perm (qs qs' : List OMap) (i : Int) (hp : qs.Perm qs') (hn : (qs.map (·.id)).Nodup) :
    qs'.find? (fun q => q.id = i) = qs.find? (fun q => q.id = i) := by
  have hn' : (qs'.map (·.id)).Nodup := (hp.map (·.id)).nodup_iff.mp hn
  cases h : qs.find? (fun q => q.id = i) with
  | none =>
    rw [List.find?_eq_none] at h ⊢
    intro x hx
    exact h x (hp.mem_iff.mpr hx)
  | some a =>
    have ha := List.mem_of_find?_eq_some h
    have hai := List.find?_some h
    cases h' : qs'.find? (fun q => q.id = i) with
    | none =>
      rw [List.find?_eq_none] at h'
      exact absurd hai (h' a (hp.mem_iff.mp ha))
    | some b =>
      have hb := List.mem_of_find?_eq_some h'
      have hbi := List.find?_some h'
      simp only [decide_eq_true_eq] at hai hbi
      rw [SeededTotal.eq_of_nodup_id qs' hn' b hb a (hp.mem_iff.mp ha) (by omega)]

/-- the molecule a key stands for does not depend on the order of the molecules (distinct ids) -/
theorem fragmentOf_perm (qs qs' : List OMap) (k : QKey) (hp : qs.Perm qs') (hn : (qs.map (·.id)).Nodup) :
    fragmentOf qs' k = fragmentOf qs k := by
  unfold fragmentOf
  rw [find?_id_perm qs qs' k.id hp hn]

/-- so the derived seed table is the same for every order of the query molecules -/
theorem deriveTable_perm (c : SecCfg) (refs qs qs' : List OMap) (pt : PTable) (hp : qs.Perm qs') (hn : (qs.map (·.id)).Nodup) :
    deriveTable c refs qs' pt = deriveTable c refs qs pt := by
  rw [deriveTable_eq_mapM, deriveTable_eq_mapM]
  have : deriveEntry c refs qs' = deriveEntry c refs qs := by
    funext e
    exact deriveEntry_congr c refs qs' qs e (find?_id_perm qs qs' e.1.id hp hn)
  rw [this]

end Coma.Proofs
