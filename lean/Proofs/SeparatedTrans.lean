/-
  Proofs/SeparatedTrans.lean — separation of chain members is transitive through a member that keeps a pair;
  hence consecutive separation of members that all keep a pair is pairwise separation.
-/
import Props.Defs
namespace Coma.Proofs
open Coma Coma.Spec

theorem separated_trans (a b c : Seg) (hab : Separated a b) (hbc : Separated b c) (hb : b.pairs ≠ []) :
    Separated a c := by
  intro p hp p' hp'
  obtain ⟨m, hm⟩ := List.exists_mem_of_ne_nil _ hb
  have h1 := hab p hp m hm
  have h2 := hbc m hm p' hp'
  exact ⟨by omega, by omega⟩

theorem consec_head_all (a : Seg) : ∀ (l : List Seg), Consec Separated (a :: l) → (∀ s ∈ a :: l, s.pairs ≠ []) →
    ∀ s ∈ l, Separated a s
  | [], _, _ => by intro s hs; cases hs
  | b :: t, h, hne => by
    intro s hs
    have hab : Separated a b := h.1
    have hb : b.pairs ≠ [] := hne b (by simp)
    rcases List.mem_cons.mp hs with rfl | hs'
    · exact hab
    · have := consec_head_all b t h.2 (fun x hx => hne x (List.mem_cons_of_mem _ hx)) s hs'
      exact separated_trans a b s hab this hb

theorem consec_pairwise : ∀ (l : List Seg), Consec Separated l → (∀ s ∈ l, s.pairs ≠ []) → l.Pairwise Separated
  | [], _, _ => List.Pairwise.nil
  | [a], _, _ => List.pairwise_singleton _ _
  | a :: b :: t, h, hne => by
    refine List.Pairwise.cons ?_ ?_
    · exact consec_head_all a (b :: t) h hne
    · exact consec_pairwise (b :: t) h.2 (fun x hx => hne x (List.mem_cons_of_mem _ hx))

end Coma.Proofs
