/-
  Proofs/Translate_Segments.lean — every segment the factory cuts from the position list of a peak is of the kind the
  pass lemma of Proofs/Translate_Struct.lean needs (`QL ∧ QR`), for every parameter set and every input.
-/
import Proofs.Translate_Struct
import Proofs.Translate_Scan
import Proofs.Translate_Order
import Proofs.Compose_Factory
namespace Coma.Proofs.Translate
open Coma Coma.Spec Coma.Proofs.Scan Coma.Proofs.Conflict

theorem pos_score_pair' (P : Params) (xs : List APos) (hsc : scoreAll? P xs ≠ none) (i : Nat)
    (h : 0 < (xs.map (APos.score P)).getD i 0) : ∃ p, xs[i]? = some (.pair p) := by
  rw [List.getD_eq_getElem?_getD, List.getElem?_map] at h
  cases hx : xs[i]? with
  | none => rw [hx] at h; simp at h
  | some a =>
    rw [hx] at h
    have hmem : a ∈ xs := List.mem_of_getElem? hx
    cases a with
    | pair p => exact ⟨p, rfl⟩
    | uref r =>
      exfalso
      apply hsc
      have hsu : P.su > 0 := by simpa [APos.score] using h
      unfold scoreAll?
      rw [if_pos]
      simp only [Bool.and_eq_true, decide_eq_true_eq, List.any_eq_true]
      exact ⟨hsu, _, hmem, rfl⟩
    | uqry q s =>
      exfalso
      apply hsc
      have hsu : P.su > 0 := by simpa [APos.score] using h
      unfold scoreAll?
      rw [if_pos]
      simp only [Bool.and_eq_true, decide_eq_true_eq, List.any_eq_true]
      exact ⟨hsu, _, hmem, rfl⟩

theorem sumScores_run (P : Params) (xs : List APos) (k stop : Nat) :
    sumScores P ((xs.drop k).take (stop - k)) = sumRange (xs.map (APos.score P)) k stop := by
  rw [sumScores_eq_sumInts]
  simp only [sumRange, List.map_take, List.map_drop]

theorem getSegments_Q (P : Params) (peak : Int) (xs : List APos) (hsc : scoreAll? P xs ≠ none)
    (hn : PyNodup xs)
    (ho : xs.Pairwise (fun a b => ∀ p e, a = .pair p → b = .pair e → p.leqAny e = true)) :
    ∀ s ∈ getSegments P peak xs, QL P s ∧ QR s := by
  intro s hs
  rcases Compose.mem_getSegments P peak xs s hs with rfl | ⟨r, hr, rfl⟩
  · exact ⟨Or.inl rfl, List.Pairwise.nil, Or.inl rfl⟩
  · have g := scan_G P.minScore P.bst _ r hr
    have hlt := g.lt
    have hle : r.stop ≤ xs.length := by have := g.le; rwa [List.length_map] at this
    obtain ⟨p1, hp1⟩ := pos_score_pair' P xs hsc _ g.first
    have hlastpos : 0 < (xs.map (APos.score P)).getD (r.stop - 1) 0 := by
      obtain ⟨m, hm⟩ : ∃ m, r.stop = m + 1 := ⟨r.stop - 1, by omega⟩
      have := G_suffix_pos g m (by omega) (by omega)
      rw [hm, sumRange_single _ _ (by rw [List.length_map]; omega)] at this
      have e : r.stop - 1 = m := by omega
      rw [e]; exact this
    obtain ⟨p2, hp2⟩ := pos_score_pair' P xs hsc _ hlastpos
    have hinf := Compose.run_infix xs r.start (r.stop - r.start)
    have hhead : ((xs.drop r.start).take (r.stop - r.start)).head? = some (.pair p1) := by
      rw [Compose.run_head xs _ _ hlt, hp1]
    have hlast : ((xs.drop r.start).take (r.stop - r.start)).getLast? = some (.pair p2) := by
      rw [Compose.run_last xs _ _ hlt hle, hp2]
    have hlen : ((xs.drop r.start).take (r.stop - r.start)).length = r.stop - r.start := by
      rw [List.length_take, List.length_drop]; omega
    refine ⟨Or.inr ⟨p2, hlast, ?_, ?_⟩, Compose.pyNodup_sublist hinf.sublist hn, Or.inr ?_⟩
    · intro p hp
      have hp' : APos.pair p ∈ (xs.drop r.start).take (r.stop - r.start) := mem_pairs.1 hp
      obtain ⟨ys, hys⟩ := List.getLast?_eq_some_iff.1 hlast
      have hpw := List.Pairwise.sublist hinf.sublist ho
      rw [hys] at hpw hp'
      rcases List.mem_append.1 hp' with h1 | h1
      · exact (List.pairwise_append.1 hpw).2.2 _ h1 _ (by simp) p p2 rfl rfl
      · simp only [List.mem_singleton, APos.pair.injEq] at h1
        rw [h1]; exact leqAny_self _
    · intro a ha hsa
      have ha' := List.suffix_iff_eq_drop.1 hsa
      show 0 < sumScores P a
      have hal : a.length ≤ r.stop - r.start := by rw [← hlen]; exact hsa.length_le
      have hapos : 0 < a.length := List.length_pos_iff.2 ha
      rw [hlen] at ha'
      generalize hj : r.stop - r.start - a.length = j at ha'
      have e1 : a = (xs.drop (r.start + j)).take (r.stop - (r.start + j)) := by
        rw [ha', List.drop_take, List.drop_drop]
        congr 1
        omega
      rw [e1, sumScores_run]
      exact G_suffix_pos g _ (by omega) (by omega)
    · exact ⟨p1, List.head?_eq_some_iff.1 hhead⟩

theorem segmentsOfPeak_Q (P : Params) (ref qry : OMap) (rev : Bool) (it peak : Int) (segs : List Seg)
    (h : segmentsOfPeak P ref qry rev it peak = .ok segs) : ∀ s ∈ segs, QL P s ∧ QR s := by
  unfold segmentsOfPeak at h
  simp only at h
  cases hsc : scoreAll? P (engineAlign P.md ref qry peak (peak + qry.length) rev it) with
  | none => rw [hsc] at h; cases h
  | some v =>
    rw [hsc] at h
    injection h with h
    subst h
    exact getSegments_Q P peak _ (by rw [hsc]; simp) (Compose.engine_pyNodup _ _ _ _ _ _ _)
      (engine_pairs_leqAny _ _ _ _ _ _ _)

theorem segmentsOfPeaks_Q (P : Params) (ref qry : OMap) (rev : Bool) : ∀ (peaks : List Int) (it : Int)
    (segs : List Seg), segmentsOfPeaks P ref qry rev it peaks = .ok segs → ∀ s ∈ segs, QL P s ∧ QR s
  | [], _, segs, h => by
    injection h with h; subst h; intro s hs; cases hs
  | p :: ps, it, segs, h => by
    simp only [segmentsOfPeaks, bind, Except.bind, pure, Except.pure] at h
    cases ha : segmentsOfPeak P ref qry rev it p with
    | error e => rw [ha] at h; cases h
    | ok a =>
      rw [ha] at h
      simp only at h
      cases hb : segmentsOfPeaks P ref qry rev (it + 1) ps with
      | error e => rw [hb] at h; cases h
      | ok b =>
        rw [hb] at h
        injection h with h
        subst h
        intro s hs
        rcases List.mem_append.1 hs with hs | hs
        · exact segmentsOfPeak_Q P ref qry rev it p a ha s hs
        · exact segmentsOfPeaks_Q P ref qry rev ps (it + 1) b hb s hs

end Coma.Proofs.Translate
