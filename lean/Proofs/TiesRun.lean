import Props.Defs
import Proofs.Compose
import Proofs.Fields
import Proofs.SrcBlind
import Proofs.Indep
import Proofs.Modes
import Proofs.Select
import Proofs.SecondPass
import Proofs.Total
import Proofs.Ties
/-!
  Proofs/TiesRun.lean — COINCIDENT LABELS, run level (weakly ascending coordinates).

  `Proofs/Ties.lean` shows that one candidate (`alignerAlign`) is built without raising, and with
  strictly ascending pairs, already when the label coordinates are only WEAKLY ascending.  Here the
  run-level totality theorems (`executeSingle_total`, `unalignedFragments_total`, `secondPass_total`,
  `execute_total` and the two mode instances) are re-proved under `Ascending` instead of
  `StrictAscending`.

  Where strictness was used in the strict proofs, and what replaces it:

  * `alignerAlign_total` / `alignerAlign_accounted` / `factory_segments_ok` (through
    `engine_pairsAscending`)            → the `_weak` versions of `Proofs/Ties.lean`;
  * `sa_to` / `sa_from` (a Python slice of a strictly ascending list is strictly ascending)
                                        → `asc_to` / `asc_from` (`List.Pairwise.sublist`);
  * `unalignedFragments` itself: the '+' strand looks the record's query start / end COORDINATE up
    with `positions.index(...)` (first occurrence).  With coincident labels the index found may be
    the index of a twin of the paired label, but no lemma of the chain states more than "the
    coordinate occurs in the list" (`indexOf_some`), which is all totality needs; the '-' strand
    uses site ids, no look-up.
-/
namespace Coma.Proofs
open Coma Coma.Spec Coma.Proofs.Compose Coma.Proofs.Total Coma.Proofs.SecondPass Coma.Proofs.Fields

/-! ### slices of a weakly ascending list -/

theorem asc_to (l : List Int) (h : Ascending l) (j : Int) : Ascending (pySliceTo l j) := by
  obtain ⟨t, ht⟩ := pySliceTo_eq_take l j
  rw [ht]; exact List.Pairwise.sublist (List.take_sublist _ _) h

theorem asc_from (l : List Int) (h : Ascending l) (j : Int) : Ascending (pySliceFrom l j) := by
  obtain ⟨t, ht⟩ := pySliceFrom_eq_drop l j
  rw [ht]; exact List.Pairwise.sublist (List.drop_sublist _ _) h

/-! ### the first pass -/

set_option linter.unusedVariables false in
/-- the first pass never raises when every seed names a reference that was read and every candidate
    can be built (which `alignerAlign_total_weak` gives for weakly ascending coordinates) -/
theorem executeSingle_total_weak (cfg : Cfg) (hP : GoodParams cfg.P) (refs : List OMap) (t : SeedTable) (qs : List OMap) (it : Int)
    (hrefs : ∀ r ∈ refs, Ascending r.positions) (hqs : ∀ q ∈ qs, Ascending q.positions)
    (hseeds : ∀ q ∈ qs, ∀ s ∈ t.lookup q.key, ∃ r ∈ refs, r.id = s.refId)
    (halign : ∀ r ∈ refs, ∀ q ∈ qs, ∀ peaks rev, ∃ row, alignerAlign cfg.P cfg.C r q peaks rev it = .ok row) :
    ∃ rows, executeSingle cfg refs t qs it = .ok rows := by
  rw [SrcBlind.executeSingle_eq]
  obtain ⟨ys, hys⟩ := SrcBlind.mapM_ok_of_forall (fun q => perQuery cfg refs (t.lookup q.key) q it) qs (by
    intro q hq
    unfold perQuery
    split
    · exact ⟨_, rfl⟩
    · apply SrcBlind.bind_ok_of
      apply SrcBlind.mapM_ok_of_forall
      intro s hs
      obtain ⟨r, hr, hid⟩ := hseeds q hq s hs
      split
      next hf =>
        rw [List.find?_eq_none] at hf
        exact absurd (by simpa using hid) (hf r hr)
      next r' hf =>
        exact halign r' (List.mem_of_find?_eq_some hf) q hq s.peaks s.rev)
  exact ⟨_, by rw [hys]; rfl⟩

/-- the first pass never raises for weakly ascending coordinates (the instance `C07` uses) -/
theorem executeSingle_total_weak' (cfg : Cfg) (hP : GoodParams cfg.P) (refs : List OMap) (t : SeedTable) (qs : List OMap) (it : Int)
    (hrefs : ∀ r ∈ refs, Ascending r.positions) (hqs : ∀ q ∈ qs, Ascending q.positions)
    (hseeds : ∀ q ∈ qs, ∀ s ∈ t.lookup q.key, ∃ r ∈ refs, r.id = s.refId) :
    ∃ rows, executeSingle cfg refs t qs it = .ok rows :=
  executeSingle_total_weak cfg hP refs t qs it hrefs hqs hseeds
    (fun r hr q hq peaks rev => alignerAlign_total_weak cfg.P cfg.C hP r q peaks rev it (hrefs r hr) (hqs q hq))

/-! ### facts about one candidate row -/

/-- every pair of a candidate joins real labels of the named maps (weakly ascending coordinates) -/
theorem alignerAlign_labels_real_weak (P : Params) (C : ChainCfg) (hP : GoodParams P) (ref qry : OMap) (peaks : List Int)
    (rev : Bool) (it : Int) (hr : Ascending ref.positions) (hq : Ascending qry.positions)
    (row : Row) (h : alignerAlign P C ref qry peaks rev it = .ok row) :
    ∀ p ∈ row.pairs, p.r ∈ ref.labels false ∧ p.q ∈ qry.labels rev := by
  intro p hp
  have hacc := alignerAlign_accounted_weak P C hP ref qry peaks rev it hr hq row h
  simp only [Row.pairs, List.mem_flatMap] at hp
  obtain ⟨s, hs, hps⟩ := hp
  have hmem : APos.pair p ∈ s.items := by
    simp only [Seg.pairs, List.mem_filterMap] at hps
    obtain ⟨a, ha, hap⟩ := hps
    cases a with
    | pair p' => simp [APos.pair?] at hap; subst hap; exact ha
    | uref r => simp [APos.pair?] at hap
    | uqry q s => simp [APos.pair?] at hap
  rcases hacc s hs with hnil | ⟨peak, _, it', _, hinf⟩
  · rw [hnil] at hmem; cases hmem
  · have hin : APos.pair p ∈ peakPositions P ref qry rev it' peak := hinf.subset hmem
    have hw := engine_within P.md ref qry peak (peak + qry.length) rev it' hq p hin
    exact ⟨(refWindow_sublist P.md ref peak (peak + qry.length)).subset hw.1, hw.2.1⟩

/-- the first segment of a candidate row is empty or keeps a pair (weakly ascending coordinates) -/
theorem alignerAlign_first_segment_weak (P : Params) (C : ChainCfg) (hP : GoodParams P) (ref qry : OMap) (peaks : List Int)
    (rev : Bool) (it : Int) (hr : Ascending ref.positions) (hq : Ascending qry.positions)
    (row : Row) (h : alignerAlign P C ref qry peaks rev it = .ok row) :
    ∀ s, row.segments.head? = some s → s.items = [] ∨ s.pairs ≠ [] := by
  obtain ⟨segs, hsegs, hsrc⟩ := segmentsOfPeaks_ok P hP.su_nonpos ref qry rev peaks it
  have hF : ∀ s ∈ segs, FactoryLike s := by
    intro s hs
    obtain ⟨pk, _, it', h⟩ := hsrc s hs
    exact (segments_ok P hP pk _ (engine_pyNodup ..)
      (engine_pairsAscending_weak _ _ _ _ _ _ _ hr hq) s h).1
  cases hres : resolveConflicts P C segs with
  | error e =>
    simp only [alignerAlign, hsegs, hres, bind, Except.bind] at h
    cases h
  | ok res =>
    simp only [alignerAlign, hsegs, hres, bind, Except.bind, pure, Except.pure, Except.ok.injEq] at h
    subst h
    exact resolveConflicts_first P C segs res hF hres

/-! ### the fragments -/

set_option linter.unusedVariables false in
/-- a first-pass row of a query that was read and trimmed: its query start/end coordinates are
    coordinates of labels of that query, so the fragment computation never raises — also when the
    query has coincident labels at exactly those coordinates (`positions.index` then finds the first
    of them, which need not be the paired one); every fragment is again weakly ascending -/
theorem unalignedFragments_total_weak (P : Params) (C : ChainCfg) (hP : GoodParams P) (ref q : OMap) (peaks : List Int)
    (rev : Bool) (it : Int) (hr : Ascending ref.positions) (hq : Ascending q.positions)
    (hshift : q.shift = 0) (row : Row) (h : alignerAlign P C ref q peaks rev it = .ok row) (hp : row.pairs ≠ [])
    (queries : List OMap) (hfind : queries.find? (fun m => m.id = row.queryId) = some q) :
    ∃ frags, unalignedFragments row queries = .ok frags ∧
      ∀ f ∈ frags, Ascending f.positions ∧ f.id = q.id := by
  obtain ⟨hqid, _, _, _, hrev, _, _⟩ := alignerAlign_fields P C ref q peaks rev it row h
  have hreal := alignerAlign_labels_real_weak P C hP ref q peaks rev it hr hq row h
  have hidx : rev = false → (∃ i, indexOf? row.qStart q.positions = some i) ∧
      (∃ j, indexOf? row.qEnd q.positions = some j) := by
    intro hrf
    subst hrf
    obtain ⟨res, hres⟩ := alignerAlign_create h
    have key : ∀ p ∈ row.pairs, ∃ i, indexOf? p.q.pos q.positions = some i := by
      intro p hpm
      have hl := (hreal p hpm).2
      rw [(labels_spec q false).2] at hl
      obtain ⟨k, x, hk, _, hx⟩ := hl
      apply indexOf_some
      simp only [Bool.false_eq_true, if_false] at hx
      rw [hx]
      exact List.mem_of_getElem? hk
    subst hres
    obtain ⟨⟨p1, hp1, e1⟩, ⟨p2, hp2, e2⟩⟩ := create_fwd_ends P res q.id ref.id q.length ref.length hp
    rw [e1, e2]
    exact ⟨key p1 hp1, key p2 hp2⟩
  have hto := asc_to q.positions hq
  have hfrom := asc_from q.positions hq
  unfold unalignedFragments
  simp only [hfind]
  split
  · exact ⟨[], rfl, by simp⟩
  · cases hrv : rev with
    | true =>
      rw [hrv] at hrev
      simp only [hrev, Bool.not_true, Bool.false_eq_true, if_false]
      repeat' split
      all_goals
        refine ⟨_, rfl, ?_⟩
        first
          | (intro f hf; cases hf; done)
          | (simp only [List.forall_mem_cons, List.not_mem_nil, false_imp_iff, implies_true, and_true]
             first
              | exact ⟨hto _, hqid⟩
              | exact ⟨hfrom _, hqid⟩
              | exact ⟨⟨hto _, hqid⟩, hfrom _, hqid⟩)
    | false =>
      rw [hrv] at hrev
      obtain ⟨⟨i, hi⟩, ⟨j, hj⟩⟩ := hidx hrv
      simp only [hrev, Bool.not_false, if_true, hi, hj]
      repeat' split
      all_goals
        refine ⟨_, rfl, ?_⟩
        first
          | (intro f hf; cases hf; done)
          | (simp only [List.forall_mem_cons, List.not_mem_nil, false_imp_iff, implies_true, and_true]
             first
              | exact ⟨hto _, hqid⟩
              | exact ⟨hfrom _, hqid⟩
              | exact ⟨⟨hto _, hqid⟩, hfrom _, hqid⟩)

/-- the fragments of every first-pass row exist and are weakly ascending -/
theorem firstPass_fragments_weak (cfg : Cfg) (hP : GoodParams cfg.P) (refs : List OMap) (t : SeedTable) (qs : List OMap) (it : Int)
    (hrefs : ∀ r ∈ refs, Ascending r.positions) (hqs : ∀ q ∈ qs, Ascending q.positions ∧ q.shift = 0)
    (hids : (qs.map (·.id)).Nodup)
    (first : List Row) (h1 : executeSingle cfg refs t qs it = .ok first) :
    ∀ row ∈ first, ∃ fl, unalignedFragments row qs = .ok fl ∧ ∀ f ∈ fl, Ascending f.positions := by
  have hpairs := executeSingle_pairs cfg refs t qs it first h1
  have horig := executeSingle_origin h1
  intro row hrowm
  obtain ⟨q, hq, r, hr, peaks, rev, ha⟩ := horig row hrowm
  have hqid := (alignerAlign_fields _ _ _ _ _ _ _ _ ha).1
  have hfind : qs.find? (fun m => m.id = row.queryId) = some q := by
    rw [hqid]; exact find_of_nodup qs q hq hids
  obtain ⟨fl, hfl, hfs⟩ := unalignedFragments_total_weak cfg.P cfg.C hP r q peaks rev it (hrefs r hr) (hqs q hq).1
    (hqs q hq).2 row ha (hpairs row hrowm) qs hfind
  exact ⟨fl, hfl, fun f hf => (hfs f hf).1⟩

/-! ### the second pass -/

/-- the second pass never raises (every fragment is again a map with weakly ascending coordinates,
    so `executeSingle_total_weak'` applies to it) -/
theorem secondPass_total_weak (cfg : Cfg) (hP : GoodParams cfg.P) (refs : List OMap) (t : SeedTable) (qs : List OMap) (it : Int)
    (hrefs : ∀ r ∈ refs, Ascending r.positions) (hqs : ∀ q ∈ qs, Ascending q.positions ∧ q.shift = 0)
    (hids : (qs.map (·.id)).Nodup)
    (hseeds : ∀ k, ∀ s ∈ t.lookup k, ∃ r ∈ refs, r.id = s.refId)
    (first : List Row) (h1 : executeSingle cfg refs t qs it = .ok first) :
    ∃ second, secondPass cfg refs t qs first it = .ok second := by
  have hrow := firstPass_fragments_weak cfg hP refs t qs it hrefs hqs hids first h1
  obtain ⟨frags, hfrags⟩ := SecondPass.mapM_ok_of_forall (fun r => unalignedFragments r qs) first
    (fun row hm => (hrow row hm).imp fun _ h => h.1)
  have hsa : ∀ f ∈ frags.flatten, Ascending f.positions := by
    intro f hf
    obtain ⟨fl, hfl, hffl⟩ := List.mem_flatten.mp hf
    obtain ⟨row, hrowm, he⟩ := Modes.mapM_ok_mem _ _ _ hfrags fl hfl
    obtain ⟨fl', he', hall⟩ := hrow row hrowm
    rw [he] at he'
    injection he' with he'
    subst he'
    exact hall f hffl
  obtain ⟨rows, hrows⟩ := executeSingle_total_weak' cfg hP refs t frags.flatten it hrefs hsa
    (fun q _ => hseeds q.key)
  refine ⟨rows.map fun r => { r with alignedRest := true }, ?_⟩
  unfold secondPass
  simp only [bind, Except.bind, pure, Except.pure, hfrags, hrows]

/-! ### what a join needs of the rows -/

theorem executeSingle_good_weak (cfg : Cfg) (hP : GoodParams cfg.P) (refs : List OMap) (t : SeedTable)
    (qs : List OMap) (it : Int)
    (hrefs : ∀ r ∈ refs, Ascending r.positions) (hqs : ∀ q ∈ qs, Ascending q.positions)
    (rows : List Row) (h : executeSingle cfg refs t qs it = .ok rows) : ∀ r ∈ rows, GoodRow r := by
  intro row hrow
  obtain ⟨q, hq, r, hr, peaks, rev, ha⟩ := executeSingle_origin h row hrow
  exact ⟨executeSingle_pairs cfg refs t qs it rows h row hrow,
    alignerAlign_first_segment_weak cfg.P cfg.C hP r q peaks rev it (hrefs r hr) (hqs q hq) row ha⟩

theorem secondPass_good_weak (cfg : Cfg) (hP : GoodParams cfg.P) (refs : List OMap) (t : SeedTable) (qs : List OMap) (it : Int)
    (hrefs : ∀ r ∈ refs, Ascending r.positions) (hqs : ∀ q ∈ qs, Ascending q.positions ∧ q.shift = 0)
    (hids : (qs.map (·.id)).Nodup)
    (first : List Row) (h1 : executeSingle cfg refs t qs it = .ok first)
    (second : List Row) (h2 : secondPass cfg refs t qs first it = .ok second) :
    ∀ r ∈ second, GoodRow r := by
  have hrow := firstPass_fragments_weak cfg hP refs t qs it hrefs hqs hids first h1
  unfold secondPass at h2
  simp only [bind, Except.bind, pure, Except.pure] at h2
  split at h2
  · cases h2
  · rename_i frags hfrags
    split at h2
    · cases h2
    · rename_i rows hrows
      injection h2 with h2
      subst h2
      have hsa : ∀ f ∈ frags.flatten, Ascending f.positions := by
        intro f hf
        obtain ⟨fl, hfl, hffl⟩ := List.mem_flatten.mp hf
        obtain ⟨row, hrowm, he⟩ := Modes.mapM_ok_mem _ _ _ hfrags fl hfl
        obtain ⟨fl', he', hall⟩ := hrow row hrowm
        rw [he] at he'
        injection he' with he'
        subst he'
        exact hall f hffl
      have hg := executeSingle_good_weak cfg hP refs t frags.flatten it hrefs hsa rows hrows
      intro r hr
      obtain ⟨r0, hr0, rfl⟩ := List.mem_map.mp hr
      exact hg r0 hr0

/-! ### the whole run -/

/-- 'separate' mode (first-pass file + second-pass file) never raises -/
theorem execute_separate_total_weak (cfg : Cfg) (hP : GoodParams cfg.P) (refs : List OMap) (t : SeedTable) (qs : List OMap) (it : Int)
    (hrefs : ∀ r ∈ refs, Ascending r.positions) (hqs : ∀ q ∈ qs, Ascending q.positions ∧ q.shift = 0)
    (hids : (qs.map (·.id)).Nodup)
    (hseeds : ∀ k, ∀ s ∈ t.lookup k, ∃ r ∈ refs, r.id = s.refId) :
    ∃ out, execute cfg .separate refs t qs it = .ok out := by
  obtain ⟨first, h1⟩ := executeSingle_total_weak' cfg hP refs t qs it hrefs (fun q hq => (hqs q hq).1)
    (fun q _ => hseeds q.key)
  obtain ⟨second, h2⟩ := secondPass_total_weak cfg hP refs t qs it hrefs hqs hids hseeds first h1
  exact ⟨_, Modes.execute_separate h1 h2⟩

/-- … and neither does single-pass mode -/
theorem execute_single_total_weak (cfg : Cfg) (hP : GoodParams cfg.P) (refs : List OMap) (t : SeedTable) (qs : List OMap) (it : Int)
    (hrefs : ∀ r ∈ refs, Ascending r.positions) (hqs : ∀ q ∈ qs, Ascending q.positions ∧ q.shift = 0)
    (hseeds : ∀ k, ∀ s ∈ t.lookup k, ∃ r ∈ refs, r.id = s.refId) :
    ∃ out, execute cfg .single refs t qs it = .ok out := by
  obtain ⟨first, h1⟩ := executeSingle_total_weak' cfg hP refs t qs it hrefs (fun q hq => (hqs q hq).1)
    (fun q _ => hseeds q.key)
  refine ⟨{ main := filterBestPerQuery first }, ?_⟩
  unfold execute
  simp [bind, Except.bind, pure, Except.pure, h1]

/-- the whole alignment logic — first pass, fragments, second pass, grouping, joins, mode
    dispatch — never raises, in any output mode, also for molecules with coincident labels -/
theorem execute_total_weak (cfg : Cfg) (mode : Mode) (hP : GoodParams cfg.P) (refs : List OMap) (t : SeedTable) (qs : List OMap) (it : Int)
    (hrefs : ∀ r ∈ refs, Ascending r.positions) (hqs : ∀ q ∈ qs, Ascending q.positions ∧ q.shift = 0)
    (hids : (qs.map (·.id)).Nodup)
    (hseeds : ∀ k, ∀ s ∈ t.lookup k, ∃ r ∈ refs, r.id = s.refId) :
    ∃ out, execute cfg mode refs t qs it = .ok out := by
  obtain ⟨first, h1⟩ := executeSingle_total_weak' cfg hP refs t qs it hrefs (fun q hq => (hqs q hq).1)
    (fun q _ => hseeds q.key)
  obtain ⟨second, h2⟩ := secondPass_total_weak cfg hP refs t qs it hrefs hqs hids hseeds first h1
  have hg1 := executeSingle_good_weak cfg hP refs t qs it hrefs (fun q hq => (hqs q hq).1) first h1
  have hg2 := secondPass_good_weak cfg hP refs t qs it hrefs hqs hids first h1 second h2
  have hgf2 : ∀ r ∈ filterBestPerQuery second, GoodRow r := fun r hr => hg2 r (Modes.filterBest_mem hr)
  cases mode with
  | single => exact execute_single_total_weak cfg hP refs t qs it hrefs hqs hseeds
  | separate => exact execute_separate_total_weak cfg hP refs t qs it hrefs hqs hids hseeds
  | best =>
    have hg : ∀ r ∈ filterBestPerQuery (first ++ second) ++ filterBestPerQuery second, GoodRow r := by
      intro r hr
      rcases List.mem_append.mp hr with hr | hr
      · rcases List.mem_append.mp (Modes.filterBest_mem hr) with h | h
        · exact hg1 r h
        · exact hg2 r h
      · exact hgf2 r hr
    obtain ⟨js, hjs⟩ := resolveRows_total cfg.P cfg.maxDifference _ hg
    rw [Select.execute_best_eq cfg refs t qs it first second h1 h2, hjs]
    exact ⟨_, rfl⟩
  | joined =>
    have hg : ∀ r ∈ filterBestPerQuery first ++ filterBestPerQuery second, GoodRow r := by
      intro r hr
      rcases List.mem_append.mp hr with hr | hr
      · exact hg1 r (Modes.filterBest_mem hr)
      · exact hgf2 r hr
    obtain ⟨⟨j, s⟩, hjs⟩ := resolveRows_total cfg.P cfg.maxDifference _ hg
    rw [SrcBlind.execute_eq]
    simp [bind, Except.bind, pure, Except.pure, h1, h2, SrcBlind.execRest, hjs]
  | all =>
    have hg : ∀ r ∈ filterBestPerQuery first ++ filterBestPerQuery second, GoodRow r := by
      intro r hr
      rcases List.mem_append.mp hr with hr | hr
      · exact hg1 r (Modes.filterBest_mem hr)
      · exact hgf2 r hr
    obtain ⟨⟨j, s⟩, hjs⟩ := resolveRows_total cfg.P cfg.maxDifference _ hg
    rw [SrcBlind.execute_eq]
    simp [bind, Except.bind, pure, Except.pure, h1, h2, SrcBlind.execRest, hjs]

/-! ### non-vacuity: a closed run with coincident labels exactly at the record's start and end -/

namespace TiesRun

def wRef : OMap := { id := 1, length := 600000, positions := [5000, 20000, 35000, 51000, 62000, 70500, 83000, 91000,
  100000, 120000, 160000, 200000, 250000, 251000, 300000, 430000, 450000, 450000, 470000, 485000, 499000, 550000] }
/-- two labels at 1000 (query start of the first-pass record) and two at 41000 (its query end); the
    record covers 20 % of the molecule, so the fragment after it is cut and re-aligned -/
def wQry : OMap := { id := 7, length := 200000, positions := [1000, 1000, 12000, 20500, 33000, 41000, 41000, 60000,
  95000, 130000, 150000, 170000, 185000, 199000] }
def wTbl : SeedTable := [(⟨7, 0, 14⟩, [⟨1, false, [50000]⟩]), (⟨7, 3, 11⟩, [⟨1, false, [300000, 50000]⟩])]

/-- the hypotheses of `execute_total_weak` hold and the query is NOT strictly ascending -/
theorem witness_hyps :
    Ascending wRef.positions ∧ Ascending wQry.positions ∧ ¬ StrictAscending wQry.positions := by
  unfold Ascending StrictAscending
  decide

/-- the first-pass record starts and ends on a coincident label and the fragment (which again
    contains the coincident pair at 41000) is cut -/
theorem witness_fragments :
    ((executeSingle { P := defaultParams } [wRef] wTbl [wQry] 1).toOption.map
        (fun rows => rows.map (fun r => (r.qStart, r.qEnd)))) = some [(1000, 41000)] ∧
    ((executeSingle { P := defaultParams } [wRef] wTbl [wQry] 1).toOption.bind
        (fun rows => (rows.mapM (fun r => unalignedFragments r [wQry])).toOption.map
          (fun fss => fss.flatten.map (fun (f : OMap) => (f.shift, f.positions)))))
      = some [(3, [20500, 33000, 41000, 41000, 60000, 95000, 130000, 150000, 170000, 185000, 199000])] := by
  constructor
  · decide +kernel
  · decide +kernel

/-- the fragment is aligned in the second pass and mode 'all' joins both records -/
theorem witness_run :
    ((execute { P := defaultParams, maxDifference := 1000000 } .all [wRef] wTbl [wQry] 1).toOption.map
        (fun o => o.main.map (fun r => (r.qStart, r.qEnd, r.pairs.map (fun p => (p.r.site, p.q.site))))))
      = some [(1000, 199000, [(4, 1), (5, 3), (6, 4), (7, 5), (8, 6), (16, 10), (17, 11), (19, 12), (20, 13), (21, 14)])] := by
  decide +kernel

end TiesRun

end Coma.Proofs
