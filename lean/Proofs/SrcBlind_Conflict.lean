import Proofs.SrcBlind_Erase
/-! the pairwise conflict resolver never reads `source` -/
namespace Coma.Proofs.SrcBlind
open Coma Coma.Spec

def eSP : SP → SP
  | .null => .null
  | .pr p => .pr (eP p)

@[simp] theorem eSP_toPr (a : SP) : (eSP a).toPr = eP a.toPr := by cases a <;> rfl

@[simp] theorem lessOnBoth_eP (a o : Pr) : (eP a).lessOnBoth (eP o) = a.lessOnBoth o := rfl
@[simp] theorem leqAny_eP (a o : Pr) : (eP a).leqAny (eP o) = a.leqAny o := rfl
@[simp] theorem SP_leqAny_e (a o : SP) : (eSP a).leqAny (eSP o) = a.leqAny o := by
  cases a with
  | null => rfl
  | pr p => show (eP p).leqAny (eSP o).toPr = p.leqAny o.toPr
            rw [eSP_toPr, leqAny_eP]
@[simp] theorem APos_lessOnBoth_e (a : APos) (o : Pr) : (eA a).lessOnBoth (eP o) = a.lessOnBoth o := by
  cases a <;> rfl
@[simp] theorem APos_leqAny_e (a : APos) (o : Pr) : (eA a).leqAny (eP o) = a.leqAny o := by
  cases a <;> rfl
@[simp] theorem pyEq_e (a b : APos) : (eA a).pyEq (eA b) = a.pyEq b := by
  cases a <;> cases b <;> rfl

theorem startPos_e (s : Seg) : (eS s).startPos = s.startPos.map eSP := by
  unfold Seg.startPos
  rw [eS_isEmpty, eS_pairs]
  split
  · rfl
  · cases s.pairs <;> rfl

theorem endPos_e (s : Seg) : (eS s).endPos = s.endPos.map eSP := by
  unfold Seg.endPos
  rw [eS_isEmpty, eS_pairs, List.getLast?_map]
  split
  · rfl
  · cases s.pairs.getLast? <;> rfl

theorem overlap_e (a b : Seg) : (eS a).endOverlapsWithStartOf (eS b) = a.endOverlapsWithStartOf b := by
  unfold Seg.endOverlapsWithStartOf
  rw [startPos_e, startPos_e, endPos_e, endPos_e, eS_isEmpty]
  cases b.startPos <;> cases a.startPos <;> cases a.endPos <;> cases b.endPos <;>
    simp [bind, Except.bind, pure, Except.pure, Except.map]

theorem trimEnd_e (e : Pr) (xs : List APos) :
    trimEnd (eP e) (xs.map eA) = (trimEnd e xs).map (List.map eA) := by
  unfold trimEnd
  have h : ((xs.map eA).reverse.dropWhile (fun a => !a.isPair && !a.leqAny (eP e))) =
      (xs.reverse.dropWhile (fun a => !a.isPair && !a.leqAny e)).map eA := by
    rw [← List.map_reverse, List.dropWhile_map]
    congr 2; funext a; simp only [Function.comp, eA_isPair, APos_leqAny_e]
  rw [h]
  simp [Except.map, List.map_reverse]

theorem slice_e (s : Seg) (a b : SP) : (eS s).slice (eSP a) (eSP b) = (s.slice a b).map eS := by
  unfold Seg.slice
  simp only [eS_items, eSP_toPr, eS_peak]
  have h1 : (s.items.map eA).dropWhile (fun p => p.lessOnBoth (eP a.toPr)) =
      (s.items.dropWhile (fun p => p.lessOnBoth a.toPr)).map eA := by
    rw [List.dropWhile_map]; congr 2; funext p; simp only [Function.comp, APos_lessOnBoth_e]
  rw [h1]
  have h2 : ∀ l : List APos, (l.map eA).takeWhile (fun p => !p.isPair || p.leqAny (eP b.toPr)) =
      (l.takeWhile (fun p => !p.isPair || p.leqAny b.toPr)).map eA := by
    intro l; rw [List.takeWhile_map]; congr 2; funext p; simp only [Function.comp, eA_isPair, APos_leqAny_e]
  rw [h2, trimEnd_e]
  cases trimEnd b.toPr _ <;> rfl

theorem charsRef_e (P : Params) : ∀ (xs : List APos) (i : Nat) (c : Int),
    charsRef P i c (xs.map eA) = charsRef P i c xs
  | [], _, _ => rfl
  | .pair p :: xs, i, c => by
    simp only [List.map_cons, relabelAPos, charsRef, charsRef_e P xs]; rfl
  | .uref r :: xs, i, c => by
    simp only [List.map_cons, relabelAPos, charsRef, charsRef_e P xs]
  | .uqry q s :: xs, i, c => by
    simp only [List.map_cons, relabelAPos, charsRef, charsRef_e P xs]

theorem charsQry_e (P : Params) : ∀ (xs : List APos) (i : Nat) (c : Int),
    charsQry P i c (xs.map eA) = charsQry P i c xs
  | [], _, _ => rfl
  | .pair p :: xs, i, c => by
    simp only [List.map_cons, relabelAPos, charsQry, charsQry_e P xs]; rfl
  | .uref r :: xs, i, c => by
    simp only [List.map_cons, relabelAPos, charsQry, charsQry_e P xs]
  | .uqry q s :: xs, i, c => by
    simp only [List.map_cons, relabelAPos, charsQry, charsQry_e P xs]; rfl

theorem sub_e (s : Seg) (o : List APos) : (eS s).sub (o.map eA) = eS (s.sub o) := by
  unfold Seg.sub
  simp only [relabelSeg]
  rw [List.filter_map]
  congr 3
  funext p
  simp only [Function.comp_apply, List.any_map]
  congr 2
  funext b
  exact pyEq_e p b

end Coma.Proofs.SrcBlind

namespace Coma.Proofs.SrcBlind
open Coma Coma.Spec

def ePB : Seg × Seg × Branch → Seg × Seg × Branch := fun x => (eS x.1, eS x.2.1, x.2.2)

theorem resolvePairB_e (P : Params) (L R : Seg) :
    resolvePairB P (eS L) (eS R) = (resolvePairB P L R).map ePB := by
  unfold resolvePairB
  simp only [bind, Except.bind, pure, Except.pure]
  rw [eS_isEmpty, overlap_e, startPos_e, endPos_e]
  split
  · rfl
  · cases L.endOverlapsWithStartOf R with
    | error e => rfl
    | ok ov =>
      cases ov
      · rfl
      · cases R.startPos with
        | error e => rfl
        | ok cs =>
          cases L.endPos with
          | error e => rfl
          | ok ce =>
            simp only [Except.map]
            rw [slice_e, slice_e]
            cases L.slice cs ce with
            | error e => rfl
            | ok Lc =>
              cases R.slice cs ce with
              | error e => rfl
              | ok Rc =>
                simp only [Except.map, eS_items, eS_peak, charsRef_e, charsQry_e, eS_score, sub_e,
                  ← List.map_drop, ← List.map_take]
                generalize (if Lc.peak > Rc.peak then (charsRef P 0 0 Lc.items, charsRef P 0 0 Rc.items)
                  else (charsQry P 0 0 Lc.items, charsQry P 0 0 Rc.items)) = ch
                simp only [Bool.not_true, Bool.false_eq_true, if_false]
                split
                · split
                  · rfl
                  · split <;> rfl
                · split <;> rfl

theorem resolvePair_e (P : Params) (L R : Seg) :
    resolvePair P (eS L) (eS R) = (resolvePair P L R).map (fun x => (eS x.1, eS x.2)) := by
  unfold resolvePair
  rw [resolvePairB_e]
  cases resolvePairB P L R <;> rfl

end Coma.Proofs.SrcBlind
