import Props.Defs
import Proofs.Conflict

namespace Coma.Proofs.ConflictAll
open Coma Coma.Spec

/-! ### relating `resolvePair`, `resolveFrom` to their branch-recording variants -/

theorem resolvePair_ok_iff {P : Params} {L R l r : Seg} :
    resolvePair P L R = .ok (l, r) ↔ ∃ b, resolvePairB P L R = .ok (l, r, b) := by
  cases h : resolvePairB P L R with
  | error e => simp [resolvePair, h, bind, Except.bind]
  | ok v =>
    obtain ⟨l0, r0, b0⟩ := v
    simp only [resolvePair, h, bind, Except.bind, pure, Except.pure, Except.ok.injEq, Prod.mk.injEq]
    constructor
    · rintro ⟨rfl, rfl⟩; exact ⟨b0, rfl, rfl, rfl⟩
    · rintro ⟨b, rfl, rfl, _⟩; exact ⟨rfl, rfl⟩

theorem resolveFromB_nil {P : Params} {l : Seg} : resolveFromB P l [] = .ok ([l], []) := rfl

theorem resolveFromB_cons_ok_iff {P : Params} {l r : Seg} {rest out : List Seg} {bs : List Branch} :
    resolveFromB P l (r :: rest) = .ok (out, bs) ↔
      ∃ l' r' b tail bs', resolvePairB P l r = .ok (l', r', b) ∧
        resolveFromB P r' rest = .ok (tail, bs') ∧ out = l' :: tail ∧ bs = b :: bs' := by
  cases h : resolvePairB P l r with
  | error e => simp [resolveFromB, h, bind, Except.bind]
  | ok v =>
    obtain ⟨l0, r0, b0⟩ := v
    cases h2 : resolveFromB P r0 rest with
    | error e =>
      simp only [resolveFromB, h, h2, bind, Except.bind]
      constructor
      · intro hh; cases hh
      · rintro ⟨l', r', b, tail, bs', he, h3, _, _⟩
        cases he
        rw [h2] at h3; cases h3
    | ok w =>
      obtain ⟨t0, bs0⟩ := w
      simp only [resolveFromB, h, h2, bind, Except.bind, pure, Except.pure]
      constructor
      · intro hh; cases hh
        exact ⟨l0, r0, b0, t0, bs0, rfl, h2, rfl, rfl⟩
      · rintro ⟨l', r', b, tail, bs', he, h3, rfl, rfl⟩
        cases he
        rw [h2] at h3; cases h3
        rfl

theorem resolveFrom_cons_ok_iff {P : Params} {l r : Seg} {rest out : List Seg} :
    resolveFrom P l (r :: rest) = .ok out ↔
      ∃ l' r' tail, resolvePair P l r = .ok (l', r') ∧
        resolveFrom P r' rest = .ok tail ∧ out = l' :: tail := by
  cases h : resolvePair P l r with
  | error e => simp [resolveFrom, h, bind, Except.bind]
  | ok v =>
    obtain ⟨l0, r0⟩ := v
    cases h2 : resolveFrom P r0 rest with
    | error e =>
      simp only [resolveFrom, h, h2, bind, Except.bind]
      constructor
      · intro hh; cases hh
      · rintro ⟨l', r', tail, he, h3, _⟩
        cases he
        rw [h2] at h3; cases h3
    | ok t0 =>
      simp only [resolveFrom, h, h2, bind, Except.bind, pure, Except.pure]
      constructor
      · intro hh; cases hh
        exact ⟨l0, r0, t0, rfl, h2, rfl⟩
      · rintro ⟨l', r', tail, he, h3, rfl⟩
        cases he
        rw [h2] at h3; cases h3
        rfl

theorem resolveFrom_ok_iff {P : Params} : ∀ (cs : List Seg) (c : Seg) (out : List Seg),
    resolveFrom P c cs = .ok out ↔ ∃ bs, resolveFromB P c cs = .ok (out, bs) := by
  intro cs
  induction cs with
  | nil =>
    intro c out
    simp only [resolveFrom, resolveFromB, Except.ok.injEq, Prod.mk.injEq]
    constructor
    · intro h; exact ⟨[], h, rfl⟩
    · rintro ⟨_, h, _⟩; exact h
  | cons r rest ih =>
    intro c out
    rw [resolveFrom_cons_ok_iff]
    constructor
    · rintro ⟨l', r', tail, h1, h2, rfl⟩
      obtain ⟨b, hb⟩ := resolvePair_ok_iff.1 h1
      obtain ⟨bs', hbs⟩ := (ih r' tail).1 h2
      exact ⟨b :: bs', resolveFromB_cons_ok_iff.2 ⟨l', r', b, tail, bs', hb, hbs, rfl, rfl⟩⟩
    · rintro ⟨bs, h⟩
      obtain ⟨l', r', b, tail, bs', h1, h2, rfl, rfl⟩ := resolveFromB_cons_ok_iff.1 h
      exact ⟨l', r', tail, resolvePair_ok_iff.2 ⟨b, h1⟩, (ih r' tail).2 ⟨bs', h2⟩, rfl⟩

/-! ### the invariant: a suffix of a `LeftOK` segment is `LeftOK` -/

theorem leftOK_of_suffix {r R : Seg} (hR : LeftOK R) (h : r.items <:+ R.items) : LeftOK r := by
  refine ⟨hR.nodup.sublist h.sublist, ?_, ?_⟩
  · rcases hR.last with h0 | ⟨p, hp⟩
    · left; rw [h0] at h; exact List.suffix_nil.1 h
    · obtain ⟨s, hs⟩ := h
      rw [← hs, List.getLast?_append] at hp
      cases hr : r.items.getLast? with
      | none => left; exact List.getLast?_eq_none_iff.1 hr
      | some x =>
        right
        rw [hr] at hp
        exact ⟨p, by rw [hr]; exact hp⟩
  · exact List.Pairwise.sublist (h.sublist.filterMap _) hR.asc

theorem pairs_subset_of_sublist {a b : Seg} (h : a.items.Sublist b.items) :
    ∀ p ∈ a.pairs, p ∈ b.pairs :=
  fun _ hp => (h.filterMap APos.pair?).subset hp

theorem strictCoords_mono_left {a a' b : Seg} (h : ∀ p ∈ a'.pairs, p ∈ a.pairs)
    (hS : StrictCoords a b) : StrictCoords a' b :=
  fun p hp p' hp' => hS p (h p hp) p' hp'

theorem separated_mono_right {a b b' : Seg} (h : ∀ p ∈ b'.pairs, p ∈ b.pairs)
    (hS : Separated a b) : Separated a b' :=
  fun p hp p' hp' => hS p hp p' (h p' hp')

/-! ### the pass -/

theorem pass_subrun (P : Params) : ∀ (cs : List Seg) (cur orig : Seg),
    LeftOK cur → cur.items <:+ orig.items → cur.peak = orig.peak →
    (∀ s ∈ cs, FactoryLike s) → ∀ out bs, resolveFromB P cur cs = .ok (out, bs) →
    Forall2 (fun o i => o.items <:+: i.items ∧ o.peak = i.peak) out (orig :: cs) := by
  intro cs
  induction cs with
  | nil =>
    intro cur orig _ hsuf hpk _ out bs h
    rw [resolveFromB_nil] at h
    cases h
    exact .cons ⟨hsuf.isInfix, hpk⟩ .nil
  | cons R rest ih =>
    intro cur orig hcur hsuf hpk hF out bs h
    obtain ⟨l', r', b, tail, bs', h1, h2, rfl, rfl⟩ := resolveFromB_cons_ok_iff.1 h
    have hFR : FactoryLike R := hF R (List.mem_cons_self ..)
    obtain ⟨hpre, hsufR⟩ := resolve_subrun P cur R l' r' b h1 hcur hFR.2
    obtain ⟨_, _, hpl, hpr⟩ := resolve_sublist P cur R l' r' b h1
    refine .cons ⟨hpre.isInfix.trans hsuf.isInfix, hpl.trans hpk⟩ ?_
    exact ih r' R (leftOK_of_suffix hFR.1 hsufR) hsufR hpr
      (fun s hs => hF s (List.mem_cons_of_mem _ hs)) tail bs' h2

theorem pass_total (P : Params) : ∀ (cs : List Seg) (cur : Seg),
    LeftOK cur → (∀ s ∈ cs, FactoryLike s) → ∃ out bs, resolveFromB P cur cs = .ok (out, bs) := by
  intro cs
  induction cs with
  | nil => intro cur _ _; exact ⟨[cur], [], rfl⟩
  | cons R rest ih =>
    intro cur hcur hF
    have hFR : FactoryLike R := hF R (List.mem_cons_self ..)
    obtain ⟨l', r', b, h1⟩ := resolve_total P cur R hcur hFR.2
    obtain ⟨_, hsufR⟩ := resolve_subrun P cur R l' r' b h1 hcur hFR.2
    obtain ⟨tail, bs', h2⟩ := ih r' (leftOK_of_suffix hFR.1 hsufR)
      (fun s hs => hF s (List.mem_cons_of_mem _ hs))
    exact ⟨l' :: tail, b :: bs', resolveFromB_cons_ok_iff.2 ⟨l', r', b, tail, bs', h1, h2, rfl, rfl⟩⟩

theorem pass_separated (P : Params) : ∀ (cs : List Seg) (cur orig : Seg),
    LeftOK cur → cur.items <:+ orig.items →
    (∀ s ∈ cs, FactoryLike s) →
    (∀ a ∈ orig :: cs, ∀ b ∈ orig :: cs, StrictCoords a b) →
    ∀ out bs, resolveFromB P cur cs = .ok (out, bs) → (∀ b ∈ bs, b ≠ Branch.interior) →
    Consec Separated out ∧ ∃ hd tl, out = hd :: tl ∧ hd.items <+: cur.items := by
  intro cs
  induction cs with
  | nil =>
    intro cur orig _ _ _ _ out bs h _
    rw [resolveFromB_nil] at h
    cases h
    exact ⟨trivial, cur, [], rfl, List.prefix_rfl⟩
  | cons R rest ih =>
    intro cur orig hcur hsuf hF hS out bs h hb
    obtain ⟨l', r', b, tail, bs', h1, h2, rfl, rfl⟩ := resolveFromB_cons_ok_iff.1 h
    have hFR : FactoryLike R := hF R (List.mem_cons_self ..)
    obtain ⟨hpre, hsufR⟩ := resolve_subrun P cur R l' r' b h1 hcur hFR.2
    have hSc : StrictCoords cur R :=
      strictCoords_mono_left (pairs_subset_of_sublist hsuf.sublist)
        (hS orig (List.mem_cons_self ..) R (List.mem_cons_of_mem _ (List.mem_cons_self ..)))
    have hsep : Separated l' r' :=
      resolve_separated P cur R l' r' b h1 hcur hFR.2 hSc (hb b (List.mem_cons_self ..))
    obtain ⟨hcons, hd, tl, rfl, hhd⟩ := ih r' R (leftOK_of_suffix hFR.1 hsufR) hsufR
      (fun s hs => hF s (List.mem_cons_of_mem _ hs))
      (fun a ha b hb => hS a (List.mem_cons_of_mem _ ha) b (List.mem_cons_of_mem _ hb))
      tail bs' h2 (fun b' hb' => hb b' (List.mem_cons_of_mem _ hb'))
    refine ⟨⟨separated_mono_right (pairs_subset_of_sublist hhd.sublist) hsep, hcons⟩,
      l', hd :: tl, rfl, hpre⟩

theorem eq_ok_of_toOption {ε α} {x : Except ε α} {v : α} (h : x.toOption = some v) : x = .ok v := by
  cases x with
  | error e => simp [Except.toOption] at h
  | ok a => simp [Except.toOption] at h; rw [h]

end Coma.Proofs.ConflictAll

namespace Coma.Proofs
open Coma Coma.Spec Coma.Proofs.ConflictAll

theorem resolveFrom_subrun (P : Params) (c : Seg) (cs out : List Seg) (h : resolveFrom P c cs = .ok out)
    (hF : ∀ s ∈ c :: cs, FactoryLike s) :
    Forall2 (fun o i => o.items <:+: i.items ∧ o.peak = i.peak) out (c :: cs) := by
  obtain ⟨bs, hB⟩ := (resolveFrom_ok_iff cs c out).1 h
  exact pass_subrun P cs c c (hF c (List.mem_cons_self ..)).1 List.suffix_rfl rfl
    (fun s hs => hF s (List.mem_cons_of_mem _ hs)) out bs hB

theorem resolveFrom_total (P : Params) (c : Seg) (cs : List Seg) (hF : ∀ s ∈ c :: cs, FactoryLike s) :
    ∃ out, resolveFrom P c cs = .ok out := by
  obtain ⟨out, bs, h⟩ := pass_total P cs c (hF c (List.mem_cons_self ..)).1
    (fun s hs => hF s (List.mem_cons_of_mem _ hs))
  exact ⟨out, (resolveFrom_ok_iff cs c out).2 ⟨bs, h⟩⟩

theorem resolveFrom_adjacent_separated (P : Params) (c : Seg) (cs out : List Seg) (bs : List Branch)
    (h : resolveFromB P c cs = .ok (out, bs)) (hF : ∀ s ∈ c :: cs, FactoryLike s)
    (hS : ∀ a ∈ c :: cs, ∀ b ∈ c :: cs, StrictCoords a b) (hb : ∀ b ∈ bs, b ≠ Branch.interior) :
    Consec Separated out :=
  (pass_separated P cs c c (hF c (List.mem_cons_self ..)).1 List.suffix_rfl
    (fun s hs => hF s (List.mem_cons_of_mem _ hs)) hS out bs h hb).1

theorem emptied_middle_counterexample :
    ∃ out bs, resolveFromB ⟨10, 1, -3, 2, 10, 12⟩
        ⟨2, [.pair ⟨⟨1, 0⟩, ⟨3, 0⟩, 2, 0⟩, .uqry ⟨2, 1⟩ 2, .pair ⟨⟨2, 9⟩, ⟨1, 5⟩, -2, 0⟩]⟩
        [⟨4, [.pair ⟨⟨2, 9⟩, ⟨1, 5⟩, 0, 0⟩]⟩,
         ⟨11, [.pair ⟨⟨2, 9⟩, ⟨3, 0⟩, 2, 0⟩, .uqry ⟨2, 1⟩ 11, .pair ⟨⟨3, 17⟩, ⟨1, 5⟩, -1, 0⟩]⟩] = .ok (out, bs) ∧
      (∀ b ∈ bs, b ≠ Branch.interior) ∧
      (match out with | [a, _, c] => sharesLabel a c | _ => false) = true := by
  refine ⟨[⟨2, [.pair ⟨⟨1,0⟩,⟨3,0⟩,2,0⟩, .uqry ⟨2,1⟩ 2]⟩, ⟨4, []⟩,
      ⟨11, [.pair ⟨⟨2,9⟩,⟨3,0⟩,2,0⟩, .uqry ⟨2,1⟩ 11, .pair ⟨⟨3,17⟩,⟨1,5⟩,-1,0⟩]⟩],
    [.index0, .dropLeft], ?_, ?_, ?_⟩
  · apply eq_ok_of_toOption
    decide +kernel
  · decide
  · decide +kernel

end Coma.Proofs
