import Props.Defs
import Proofs.Conflict
namespace Coma.Proofs
open Coma Coma.Spec

theorem resolveFrom_subrun (P : Params) (c : Seg) (cs out : List Seg) (h : resolveFrom P c cs = .ok out)
    (hF : ∀ s ∈ c :: cs, FactoryLike s) :
    Forall2 (fun o i => o.items <:+: i.items ∧ o.peak = i.peak) out (c :: cs) := by
  sorry

theorem resolveFrom_total (P : Params) (c : Seg) (cs : List Seg) (hF : ∀ s ∈ c :: cs, FactoryLike s) :
    ∃ out, resolveFrom P c cs = .ok out := by
  sorry

theorem resolveFrom_adjacent_separated (P : Params) (c : Seg) (cs out : List Seg) (bs : List Branch)
    (h : resolveFromB P c cs = .ok (out, bs)) (hF : ∀ s ∈ c :: cs, FactoryLike s)
    (hS : ∀ a ∈ c :: cs, ∀ b ∈ c :: cs, StrictCoords a b) (hb : ∀ b ∈ bs, b ≠ Branch.interior) :
    Consec Separated out := by
  sorry

theorem emptied_middle_counterexample :
    ∃ out bs, resolveFromB ⟨10, 1, -3, 2, 10, 12⟩
        ⟨2, [.pair ⟨⟨1, 0⟩, ⟨3, 0⟩, 2, 0⟩, .uqry ⟨2, 1⟩ 2, .pair ⟨⟨2, 9⟩, ⟨1, 5⟩, -2, 0⟩]⟩
        [⟨4, [.pair ⟨⟨2, 9⟩, ⟨1, 5⟩, 0, 0⟩]⟩,
         ⟨11, [.pair ⟨⟨2, 9⟩, ⟨3, 0⟩, 2, 0⟩, .uqry ⟨2, 1⟩ 11, .pair ⟨⟨3, 17⟩, ⟨1, 5⟩, -1, 0⟩]⟩] = .ok (out, bs) ∧
      (∀ b ∈ bs, b ≠ Branch.interior) ∧
      (match out with | [a, _, c] => sharesLabel a c | _ => false) = true := by
  sorry

end Coma.Proofs
