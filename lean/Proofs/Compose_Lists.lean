import Props.Defs
import Proofs.ConflictAll
namespace Coma.Proofs.Compose
open Coma Coma.Spec

/-- separation is transitive through a member that keeps a pair -/
theorem separated_trans {a b c : Seg} (hab : Separated a b) (hbc : Separated b c)
    (hb : b.pairs ≠ []) : Separated a c := by
  intro p hp p' hp'
  obtain ⟨m, hm⟩ := List.exists_mem_of_ne_nil _ hb
  have h1 := hab p hp m hm
  have h2 := hbc m hm p' hp'
  omega

theorem consec_pairwise_separated : ∀ (l : List Seg), Consec Separated l →
    (∀ s ∈ l, s.pairs ≠ []) → l.Pairwise Separated
  | [], _, _ => List.Pairwise.nil
  | [a], _, _ => List.pairwise_singleton _ _
  | a :: b :: t, hc, hp => by
    have ih := consec_pairwise_separated (b :: t) hc.2 (fun s hs => hp s (List.mem_cons_of_mem _ hs))
    refine List.pairwise_cons.2 ⟨?_, ih⟩
    intro x hx
    rcases List.mem_cons.1 hx with rfl | hx
    · exact hc.1
    · exact separated_trans hc.1 ((List.pairwise_cons.1 ih).1 x hx)
        (hp b (List.mem_cons_of_mem _ (List.mem_cons_self ..)))

theorem separated_flatMap (out : List Seg) (hs : out.Pairwise Separated)
    (ha : ∀ s ∈ out, PairsAscending s.items) :
    (out.flatMap Seg.pairs).Pairwise (fun a b => a.r.pos < b.r.pos ∧ a.q.pos < b.q.pos) := by
  rw [List.pairwise_flatMap]
  exact ⟨fun s h => ha s h, hs⟩

end Coma.Proofs.Compose
