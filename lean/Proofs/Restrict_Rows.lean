/-
  Proofs/Restrict_Rows.lean — restriction to the records of one query id commutes with
  `filterBestPerQuery`, `resolveRows` and the mode dispatch of `execute`.
-/
import Props.Defs
import Proofs.Restrict_Lists
import Proofs.Select
import Proofs.Modes
namespace Coma.Proofs.Restrict
open Coma Coma.Spec Coma.Proofs Coma.Proofs.Select Coma.Proofs.Modes

/-- the rows of one query -/
abbrev F (id : Int) (l : List Row) : List Row := l.filter (fun r => decide (r.queryId = id))

theorem F_append (id : Int) (a b : List Row) : F id (a ++ b) = F id a ++ F id b := List.filter_append _ _

theorem F_idem (id : Int) (l : List Row) : F id (F id l) = F id l :=
  List.filter_eq_self.2 (fun _ ha => (List.mem_filter.1 ha).2)

theorem F_isort (key : Row → Int) (id : Int) (l : List Row) : F id (isort key l) = isort key (F id l) :=
  filter_isort_comm key _ l

/-! ### `filterBestPerQuery` -/

theorem fbq_filter_eq (id : Int) (l : List Row) :
    F id (filterBestPerQuery l) = (isort nconf (F id l)).head?.toList := by
  rw [fbq_eq]
  have h1 := heads_filter qid id (isort qid (isort nconf l)) (isort_sorted qid _)
  have h2 := PO.filter_isort qid id (isort nconf l)
  have h3 := filter_isort_comm nconf (fun r => decide (qid r = id)) l
  show List.filter (fun y => decide (qid y = id)) _ = _
  rw [h1, h2, h3]

/-- the per-query filter commutes with restriction to one query -/
theorem fbq_filter (id : Int) (l : List Row) :
    F id (filterBestPerQuery l) = filterBestPerQuery (F id l) := by
  rw [fbq_filter_eq]
  have h := fbq_filter_eq id (F id l)
  have h5 : F id (filterBestPerQuery (F id l)) = filterBestPerQuery (F id l) :=
    List.filter_eq_self.2 (fun a ha => (List.mem_filter.1 (fbq_mem _ a ha)).2)
  rw [F_idem, h5] at h
  exact h.symm

theorem fbq_sorted (l : List Row) : ((filterBestPerQuery l).map qid).Pairwise (· ≤ ·) :=
  (filterBest_strict l).imp (fun h => Int.le_of_lt h)

/-- the per-query filter only depends on the rows of each query, in their order -/
theorem fbq_ext (l l' : List Row) (h : ∀ id, F id l = F id l') :
    filterBestPerQuery l = filterBestPerQuery l' := by
  apply sorted_ext qid _ _ (fbq_sorted l) (fbq_sorted l')
  intro id
  have h1 := fbq_filter_eq id l
  have h2 := fbq_filter_eq id l'
  rw [h id] at h1
  exact h1.trans h2.symm

/-! ### `resolveGroups` one group at a time -/

/-- what one (reference, query) group contributes to (joined, separate) -/
def step (P0 : Params) (d : Int) : List Row → Except Err (List Row × List Row)
  | []  => .ok ([], [])
  | [x] => .ok ([], [x])
  | x :: y :: rest =>
    if checkOverlap x y d then
      match joinRows P0 x y with
      | .error e => .error e
      | .ok (some r) => .ok ([r], [])
      | .ok none => .ok ([], x :: y :: rest)
    else .ok ([], x :: y :: rest)

theorem resolveGroups_cons_eq (P0 : Params) (d : Int) (g : List Row) (gs : List (List Row)) :
    resolveGroups P0 d (g :: gs) =
      match resolveGroups P0 d gs with
      | .error e => .error e
      | .ok js =>
        match step P0 d g with
        | .error e => .error e
        | .ok js1 => .ok (js1.1 ++ js.1, js1.2 ++ js.2) := by
  simp only [resolveGroups, bind, Except.bind, pure, Except.pure]
  cases resolveGroups P0 d gs with
  | error e => rfl
  | ok js =>
    obtain ⟨j, s⟩ := js
    match g with
    | [] => rfl
    | [x] => rfl
    | x :: y :: rest =>
      simp only [step]
      by_cases hc : checkOverlap x y d = true
      · simp only [hc, if_true]
        cases joinRows P0 x y with
        | error e => rfl
        | ok o => cases o <;> rfl
      · simp only [hc]
        rfl

theorem step_mem {P0 : Params} {d : Int} {g j1 s1 : List Row} (h : step P0 d g = .ok (j1, s1)) :
    (∀ r ∈ j1, ∃ x ∈ g, r.queryId = x.queryId) ∧ (∀ r ∈ s1, r ∈ g) := by
  match g, h with
  | [], h =>
    simp only [step, Except.ok.injEq, Prod.mk.injEq] at h
    obtain ⟨rfl, rfl⟩ := h
    exact ⟨by simp, by simp⟩
  | [x], h =>
    simp only [step, Except.ok.injEq, Prod.mk.injEq] at h
    obtain ⟨rfl, rfl⟩ := h
    exact ⟨by simp, by simp⟩
  | x :: y :: rest, h =>
    simp only [step] at h
    split at h
    · split at h
      · cases h
      · rename_i r hj
        simp only [Except.ok.injEq, Prod.mk.injEq] at h
        obtain ⟨rfl, rfl⟩ := h
        refine ⟨?_, by simp⟩
        intro r' hr'
        simp only [List.mem_singleton] at hr'
        subst hr'
        exact ⟨x, List.mem_cons_self, joinRows_qid P0 x y r' hj⟩
      · simp only [Except.ok.injEq, Prod.mk.injEq] at h
        obtain ⟨rfl, rfl⟩ := h
        exact ⟨by simp, fun r hr => hr⟩
    · simp only [Except.ok.injEq, Prod.mk.injEq] at h
      obtain ⟨rfl, rfl⟩ := h
      exact ⟨by simp, fun r hr => hr⟩

/-- a group contains a row of query `id` -/
def hasId (id : Int) (g : List Row) : Bool := g.any (fun r => decide (r.queryId = id))

theorem F_of_hasId {id : Int} {g : List Row} (hu : ∀ a ∈ g, ∀ b ∈ g, a.queryId = b.queryId)
    (h : hasId id g = true) : ∀ a ∈ g, a.queryId = id := by
  unfold hasId at h
  rw [List.any_eq_true] at h
  obtain ⟨x, hx, hxi⟩ := h
  simp only [decide_eq_true_eq] at hxi
  intro a ha
  rw [hu a ha x hx, hxi]

theorem F_of_not_hasId {id : Int} {g : List Row} (h : hasId id g = false) : ∀ a ∈ g, a.queryId ≠ id := by
  unfold hasId at h
  rw [List.any_eq_false] at h
  intro a ha
  simpa using h a ha

theorem resolveGroups_filter (P0 : Params) (d : Int) (id : Int) : ∀ (gs : List (List Row)) (J S : List Row),
    (∀ g ∈ gs, ∀ a ∈ g, ∀ b ∈ g, a.queryId = b.queryId) →
    resolveGroups P0 d gs = .ok (J, S) →
    resolveGroups P0 d (gs.filter (hasId id)) = .ok (F id J, F id S)
  | [], J, S, _, h => by
    simp only [resolveGroups, Except.ok.injEq, Prod.mk.injEq] at h
    obtain ⟨rfl, rfl⟩ := h
    rfl
  | g :: gs, J, S, hu, h => by
    rw [resolveGroups_cons_eq] at h
    cases hr : resolveGroups P0 d gs with
    | error e => rw [hr] at h; cases h
    | ok js =>
      obtain ⟨j, s⟩ := js
      rw [hr] at h
      cases hs : step P0 d g with
      | error e => rw [hs] at h; cases h
      | ok js1 =>
        obtain ⟨j1, s1⟩ := js1
        rw [hs] at h
        simp only [Except.ok.injEq, Prod.mk.injEq] at h
        obtain ⟨rfl, rfl⟩ := h
        have ih := resolveGroups_filter P0 d id gs j s (fun g hg => hu g (List.mem_cons_of_mem _ hg)) hr
        obtain ⟨hj1, hs1⟩ := step_mem hs
        have hug := hu g List.mem_cons_self
        rw [F_append, F_append]
        cases hP : hasId id g with
        | true =>
          have hall := F_of_hasId hug hP
          have e1 : F id j1 = j1 := List.filter_eq_self.2 (fun r hr' => by
            obtain ⟨x, hx, hq⟩ := hj1 r hr'
            simp only [decide_eq_true_eq]
            rw [hq]; exact hall x hx)
          have e2 : F id s1 = s1 := List.filter_eq_self.2 (fun r hr' => by
            simp only [decide_eq_true_eq]
            exact hall r (hs1 r hr'))
          rw [List.filter_cons, hP, if_pos rfl, resolveGroups_cons_eq, ih, hs, e1, e2]
        | false =>
          have hnone := F_of_not_hasId hP
          have e1 : F id j1 = [] := List.filter_eq_nil_iff.2 (fun r hr' => by
            obtain ⟨x, hx, hq⟩ := hj1 r hr'
            simp only [decide_eq_true_eq]
            rw [hq]; exact hnone x hx)
          have e2 : F id s1 = [] := List.filter_eq_nil_iff.2 (fun r hr' => by
            simp only [decide_eq_true_eq]
            exact hnone r (hs1 r hr'))
          rw [List.filter_cons, hP, e1, e2]
          simpa using ih

/-! ### the groups of the rows of one query -/

theorem uniform_filter (id : Int) : ∀ (GS : List (List Row)),
    (∀ g ∈ GS, ∀ a ∈ g, ∀ b ∈ g, a.queryId = b.queryId) →
    (GS.map (F id)).filter (fun g => !g.isEmpty) = GS.filter (hasId id)
  | [], _ => rfl
  | g :: GS, hu => by
    have ih := uniform_filter id GS (fun g hg => hu g (List.mem_cons_of_mem _ hg))
    rw [List.map_cons, List.filter_cons, List.filter_cons, ih]
    cases hP : hasId id g with
    | true =>
      have hall := F_of_hasId (hu g List.mem_cons_self) hP
      have e : F id g = g := List.filter_eq_self.2 (fun a ha => by simpa using hall a ha)
      have hne : g ≠ [] := by
        intro h0; rw [h0] at hP; simp [hasId] at hP
      rw [e]
      cases g with
      | nil => exact absurd rfl hne
      | cons x g' => simp
    | false =>
      have hnone := F_of_not_hasId hP
      have e : F id g = [] := List.filter_eq_nil_iff.2 (fun a ha => by simpa using hnone a ha)
      rw [e]
      simp

theorem flatMap_filter_nonempty {α β} (f : List α → List β) (hf : f [] = []) : ∀ (GS : List (List α)),
    (GS.filter (fun g => !g.isEmpty)).flatMap f = GS.flatMap f
  | [] => rfl
  | g :: GS => by
    have ih := flatMap_filter_nonempty f hf GS
    cases g with
    | nil => simp [hf, ih]
    | cons x g' => simp [ih]

theorem flatMap_congr' {α β} (f g : α → List β) : ∀ (l : List α), (∀ a ∈ l, f a = g a) →
    l.flatMap f = l.flatMap g
  | [], _ => rfl
  | a :: l, h => by
    rw [List.flatMap_cons, List.flatMap_cons, h a List.mem_cons_self,
      flatMap_congr' f g l (fun x hx => h x (List.mem_cons_of_mem _ hx))]

theorem groupsOf_filter (id : Int) (rows : List Row) :
    groupsOf (F id rows) = (groupsOf rows).filter (hasId id) := by
  unfold groupsOf
  rw [← filter_isort_comm, groupAdj_filter _ _ _ (isort_sorted _ _),
    flatMap_filter_nonempty _ rfl, List.flatMap_map, List.filter_flatMap]
  apply flatMap_congr'
  intro G _
  rw [← filter_isort_comm, groupAdj_filter _ _ _ (isort_sorted _ _)]
  exact uniform_filter id _ (groupAdj_key_eq (fun (r : Row) => r.queryId) _)

/-- `resolve` on the rows of one query = the rows of that query in both results of `resolve` -/
theorem resolveRows_filter (P0 : Params) (d : Int) (id : Int) (rows J S : List Row)
    (h : resolveRows P0 d rows = .ok (J, S)) :
    resolveRows P0 d (F id rows) = .ok (F id J, F id S) := by
  rw [resolveRows_eq] at h ⊢
  rw [groupsOf_filter]
  exact resolveGroups_filter P0 d id _ J S (fun g hg => groupsOf_qid hg) h

/-! ### the part of `execute` after the two passes -/

def post (cfg : Cfg) (mode : Mode) (first second : List Row) : Except Err Output :=
  match mode with
  | .separate =>
    .ok { main := filterBestPerQuery (filterBestPerQuery first), extra := [(1, filterBestPerQuery second)] }
  | .best =>
    match resolveRows cfg.P cfg.maxDifference
        (filterBestPerQuery (first ++ second) ++ filterBestPerQuery second) with
    | .error e => .error e
    | .ok js => .ok { main := filterBestPerQuery (isort (fun r => r.queryId)
        (js.1 ++ (filterBestPerQuery (first ++ second)).filter
          (fun r => !(js.1.map (·.queryId)).contains r.queryId))) }
  | .joined =>
    match resolveRows cfg.P cfg.maxDifference (filterBestPerQuery first ++ filterBestPerQuery second) with
    | .error e => .error e
    | .ok js => .ok { main := filterBestPerQuery js.1, extra := [(1, js.2)] }
  | _ =>
    match resolveRows cfg.P cfg.maxDifference (filterBestPerQuery first ++ filterBestPerQuery second) with
    | .error e => .error e
    | .ok js => .ok { main := filterBestPerQuery js.1,
                      extra := [(1, filterBestPerQuery first), (2, filterBestPerQuery second)] }

theorem execute_eq (cfg : Cfg) (mode : Mode) (refs : List OMap) (t : SeedTable) (qs : List OMap) (it : Int) :
    execute cfg mode refs t qs it =
      match executeSingle cfg refs t qs it with
      | .error e => .error e
      | .ok first =>
        if mode = .single then .ok { main := filterBestPerQuery first }
        else
          match secondPass cfg refs t qs first it with
          | .error e => .error e
          | .ok second => post cfg mode first second := by
  unfold execute
  simp only [bind, Except.bind, pure, Except.pure]
  cases executeSingle cfg refs t qs it with
  | error e => rfl
  | ok first =>
    simp only
    cases mode with
    | single => rfl
    | best =>
      simp only [reduceCtorEq, if_false, if_true, post]
      cases secondPass cfg refs t qs first it with
      | error e => rfl
      | ok second =>
        simp only
        cases resolveRows cfg.P cfg.maxDifference
          (filterBestPerQuery (first ++ second) ++ filterBestPerQuery second) <;> rfl
    | separate =>
      simp only [reduceCtorEq, if_false, if_true, post]
      cases secondPass cfg refs t qs first it <;> rfl
    | joined =>
      simp only [reduceCtorEq, if_false, post]
      cases secondPass cfg refs t qs first it with
      | error e => rfl
      | ok second =>
        simp only
        cases resolveRows cfg.P cfg.maxDifference
          (filterBestPerQuery first ++ filterBestPerQuery second) <;> rfl
    | all =>
      simp only [reduceCtorEq, if_false, post]
      cases secondPass cfg refs t qs first it with
      | error e => rfl
      | ok second =>
        simp only
        cases resolveRows cfg.P cfg.maxDifference
          (filterBestPerQuery first ++ filterBestPerQuery second) <;> rfl

theorem contains_F (id : Int) (l : List Row) :
    ((F id l).map (·.queryId)).contains id = (l.map (·.queryId)).contains id := by
  rw [Bool.eq_iff_iff, List.contains_iff_mem, List.contains_iff_mem, List.mem_map, List.mem_map]
  constructor
  · rintro ⟨r, hr, he⟩
    exact ⟨r, (List.mem_filter.1 hr).1, he⟩
  · rintro ⟨r, hr, he⟩
    exact ⟨r, List.mem_filter.2 ⟨hr, by simpa using he⟩, he⟩

theorem F_best (id : Int) (J f1 : List Row) :
    F id (f1.filter (fun r => !(J.map (·.queryId)).contains r.queryId)) =
      (F id f1).filter (fun r => !((F id J).map (·.queryId)).contains r.queryId) := by
  unfold F
  rw [List.filter_filter, List.filter_filter]
  apply List.filter_congr
  intro x _
  by_cases hx : x.queryId = id
  · simp only [hx, decide_true, Bool.true_and, Bool.and_true]
    rw [contains_F]
  · simp [hx]

/-- the mode dispatch commutes with restriction to one query -/
theorem post_restrict (cfg : Cfg) (mode : Mode) (first second : List Row) (o : Output) (id : Int)
    (h : post cfg mode first second = .ok o) :
    post cfg mode (F id first) (F id second) =
      .ok { main := F id o.main, extra := o.extra.map fun (x : Nat × List Row) => (x.1, F id x.2) } := by
  cases mode with
  | separate =>
    simp only [post, Except.ok.injEq] at h ⊢
    subst h
    simp only [List.map_cons, List.map_nil, fbq_filter]
  | best =>
    simp only [post] at h ⊢
    cases hr : resolveRows cfg.P cfg.maxDifference
        (filterBestPerQuery (first ++ second) ++ filterBestPerQuery second) with
    | error e => rw [hr] at h; cases h
    | ok js =>
      obtain ⟨J, S⟩ := js
      rw [hr] at h
      simp only [Except.ok.injEq] at h
      subst h
      have hr' := resolveRows_filter _ _ id _ _ _ hr
      rw [F_append, fbq_filter, fbq_filter, F_append] at hr'
      rw [hr']
      simp only [List.map_nil, Except.ok.injEq]
      rw [fbq_filter, F_isort, F_append, F_best, fbq_filter, F_append]
  | joined =>
    simp only [post] at h ⊢
    cases hr : resolveRows cfg.P cfg.maxDifference
        (filterBestPerQuery first ++ filterBestPerQuery second) with
    | error e => rw [hr] at h; cases h
    | ok js =>
      obtain ⟨J, S⟩ := js
      rw [hr] at h
      simp only [Except.ok.injEq] at h
      subst h
      have hr' := resolveRows_filter _ _ id _ _ _ hr
      rw [F_append, fbq_filter, fbq_filter] at hr'
      rw [hr']
      simp only [List.map_cons, List.map_nil, fbq_filter]
  | single =>
    simp only [post] at h ⊢
    cases hr : resolveRows cfg.P cfg.maxDifference
        (filterBestPerQuery first ++ filterBestPerQuery second) with
    | error e => rw [hr] at h; cases h
    | ok js =>
      obtain ⟨J, S⟩ := js
      rw [hr] at h
      simp only [Except.ok.injEq] at h
      subst h
      have hr' := resolveRows_filter _ _ id _ _ _ hr
      rw [F_append, fbq_filter, fbq_filter] at hr'
      rw [hr']
      simp only [List.map_cons, List.map_nil, fbq_filter]
  | all =>
    simp only [post] at h ⊢
    cases hr : resolveRows cfg.P cfg.maxDifference
        (filterBestPerQuery first ++ filterBestPerQuery second) with
    | error e => rw [hr] at h; cases h
    | ok js =>
      obtain ⟨J, S⟩ := js
      rw [hr] at h
      simp only [Except.ok.injEq] at h
      subst h
      have hr' := resolveRows_filter _ _ id _ _ _ hr
      rw [F_append, fbq_filter, fbq_filter] at hr'
      rw [hr']
      simp only [List.map_cons, List.map_nil, fbq_filter]

/-- the mode dispatch only depends on the rows of each query, in their order -/
theorem post_congr (cfg : Cfg) (mode : Mode) (first second first' second' : List Row)
    (h1 : ∀ id, F id first = F id first') (h2 : ∀ id, F id second = F id second') :
    post cfg mode first second = post cfg mode first' second' := by
  have e1 := fbq_ext first first' h1
  have e2 := fbq_ext second second' h2
  have e3 : filterBestPerQuery (first ++ second) = filterBestPerQuery (first' ++ second') :=
    fbq_ext _ _ (fun id => by rw [F_append, F_append, h1 id, h2 id])
  unfold post
  rw [e1, e2, e3]

end Coma.Proofs.Restrict
