import Props.Defs
namespace Coma.Proofs.Conflict
open Coma Coma.Spec

/-! ### generic list facts (not in core) -/

theorem takeWhile_eq_self {α} {p : α → Bool} {l : List α} (h : ∀ x ∈ l, p x = true) :
    l.takeWhile p = l := by
  induction l with
  | nil => rfl
  | cons a l ih =>
    have ha : p a = true := h a (List.mem_cons_self ..)
    rw [List.takeWhile_cons_of_pos ha, ih (fun x hx => h x (List.mem_cons_of_mem _ hx))]

theorem mem_takeWhile_imp {α} {p : α → Bool} {l : List α} {x : α} (h : x ∈ l.takeWhile p) :
    p x = true := by
  induction l with
  | nil => simp at h
  | cons a l ih =>
    rw [List.takeWhile_cons] at h
    split at h
    · rename_i ha
      rcases List.mem_cons.mp h with rfl | h
      · exact ha
      · exact ih h
    · simp at h

theorem dropWhile_ne_nil_of_mem {α} {p : α → Bool} {l : List α} {x : α} (hx : x ∈ l)
    (hp : p x = false) : l.dropWhile p ≠ [] := by
  induction l with
  | nil => simp at hx
  | cons a l ih =>
    rw [List.dropWhile_cons]
    split
    · rename_i ha
      rcases List.mem_cons.mp hx with rfl | hx
      · rw [hp] at ha; cases ha
      · exact ih hx
    · simp

/-- the head of a non-empty `dropWhile` fails the predicate -/
theorem dropWhile_eq_cons {α} {p : α → Bool} {l : List α} {s : α} {t : List α}
    (h : l.dropWhile p = s :: t) : p s = false := by
  have := List.head?_dropWhile_not p l
  rw [h] at this
  simpa using this

theorem pairwise_le_last {α} {R : α → α → Prop} {l : List α} {c : α} (h : l.Pairwise R)
    (hc : l.getLast? = some c) : ∀ p ∈ l, p = c ∨ R p c := by
  obtain ⟨ys, rfl⟩ := List.getLast?_eq_some_iff.mp hc
  intro p hp
  rcases List.mem_append.mp hp with hp | hp
  · exact Or.inr ((List.pairwise_append.mp h).2.2 p hp c (List.mem_singleton.mpr rfl))
  · exact Or.inl (List.mem_singleton.mp hp)

theorem pairwise_ge_head {α} {R : α → α → Prop} {l : List α} {c : α} (h : l.Pairwise R)
    (hc : l.head? = some c) : ∀ p ∈ l, p = c ∨ R c p := by
  obtain ⟨ys, rfl⟩ := List.head?_eq_some_iff.mp hc
  intro p hp
  rcases List.mem_cons.mp hp with hp | hp
  · exact Or.inl hp
  · exact Or.inr (List.rel_of_pairwise_cons h hp)

/-! ### `pyEq` and `Seg.sub` -/

theorem pyEq_refl (a : APos) : a.pyEq a = true := by
  cases a <;> simp [APos.pyEq]

theorem pyEq_symm (a b : APos) : a.pyEq b = b.pyEq a := by
  cases a <;> cases b <;> simp only [APos.pyEq] <;>
    first
    | rfl
    | (rw [Bool.eq_iff_iff]; simp only [Bool.and_eq_true, decide_eq_true_eq]
       constructor <;> (intro h; exact ⟨h.1.symm, h.2.symm⟩))
    | (rw [Bool.eq_iff_iff]; simp only [decide_eq_true_eq]; exact eq_comm)

theorem filter_not_any_right {a b : List APos} (h : PyNodup (a ++ b)) :
    (a ++ b).filter (fun p => !b.any (fun o => p.pyEq o)) = a := by
  have hab := (List.pairwise_append.mp h).2.2
  rw [List.filter_append]
  have h1 : a.filter (fun p => !b.any (fun o => p.pyEq o)) = a := by
    apply List.filter_eq_self.mpr
    intro x hx
    rw [Bool.not_eq_true', ← Bool.not_eq_true, List.any_eq_true]
    rintro ⟨y, hy, hxy⟩
    rw [hab x hx y hy] at hxy; cases hxy
  have h2 : b.filter (fun p => !b.any (fun o => p.pyEq o)) = [] := by
    apply List.filter_eq_nil_iff.mpr
    intro x hx
    rw [Bool.not_eq_true', ← Bool.not_eq_true, Classical.not_not, List.any_eq_true]
    exact ⟨x, hx, pyEq_refl x⟩
  rw [h1, h2, List.append_nil]

theorem filter_not_any_left {a b : List APos} (h : PyNodup (a ++ b)) :
    (a ++ b).filter (fun p => !a.any (fun o => p.pyEq o)) = b := by
  have hab := (List.pairwise_append.mp h).2.2
  rw [List.filter_append]
  have h1 : b.filter (fun p => !a.any (fun o => p.pyEq o)) = b := by
    apply List.filter_eq_self.mpr
    intro x hx
    rw [Bool.not_eq_true', ← Bool.not_eq_true, List.any_eq_true]
    rintro ⟨y, hy, hxy⟩
    rw [pyEq_symm, hab y hy x hx] at hxy; cases hxy
  have h2 : a.filter (fun p => !a.any (fun o => p.pyEq o)) = [] := by
    apply List.filter_eq_nil_iff.mpr
    intro x hx
    rw [Bool.not_eq_true', ← Bool.not_eq_true, Classical.not_not, List.any_eq_true]
    exact ⟨x, hx, pyEq_refl x⟩
  rw [h1, h2, List.nil_append]

/-- subtracting a suffix leaves the complementary prefix -/
theorem sub_suffix {S : Seg} {A X : List APos} (hn : PyNodup S.items) (hX : S.items = A ++ X) :
    (S.sub X).items = A := by
  show S.items.filter _ = A
  rw [hX] at hn ⊢
  exact filter_not_any_right hn

/-- subtracting a prefix leaves the complementary suffix -/
theorem sub_prefix {S : Seg} {X B : List APos} (hn : PyNodup S.items) (hX : S.items = X ++ B) :
    (S.sub X).items = B := by
  show S.items.filter _ = B
  rw [hX] at hn ⊢
  exact filter_not_any_left hn

end Coma.Proofs.Conflict
