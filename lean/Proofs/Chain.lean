import Props.Defs
namespace Coma.Proofs
open Coma Coma.Spec

theorem dp_indices {α} (score : α → Rat) (join : α → α → Option Rat) (pre : List α) (h : pre ≠ []) :
    (dpChain score join pre).1 ≠ [] ∧
    (dpChain score join pre).1.Pairwise (· < ·) ∧
    ∀ i ∈ (dpChain score join pre).1, i < pre.length := by
  sorry

theorem dp_sublist {α} (score : α → Rat) (join : α → α → Option Rat) (pre : List α) :
    ((dpChain score join pre).1.filterMap (fun i => pre[i]?)).Sublist pre := by
  sorry

theorem dp_total {α} (score : α → Rat) (join : α → α → Option Rat) (pre : List α) (h : pre ≠ []) :
    chainTotal score join ((dpChain score join pre).1.filterMap (fun i => pre[i]?)) = some (dpChain score join pre).2 := by
  sorry

theorem dp_optimal {α} (score : α → Rat) (join : α → α → Option Rat) (pre : List α)
    (c : List α) (hc : c.Sublist pre) (hne : c ≠ []) :
    leOpt (chainTotal score join c) (dpChain score join pre).2 := by
  sorry

theorem dp_no_inf_join {α} (score : α → Rat) (join : α → α → Option Rat) (pre : List α) (h : pre ≠ []) :
    Consec (fun a b => join a b ≠ none) ((dpChain score join pre).1.filterMap (fun i => pre[i]?)) := by
  sorry

theorem joinScore_nonpos (mult : Rat) (variant : Int) (prev cur : Ends) (hm : 0 ≤ mult) (v : Rat)
    (h : joinScore mult variant prev cur = some v) : v ≤ 0 := by
  sorry

theorem joinScore_zero (mult : Rat) (variant : Int) (prev cur : Ends)
    (hr : cur.s.r.pos = prev.e.r.pos)
    (hq : (if cur.reverse then prev.e.q.pos - cur.s.q.pos else cur.s.q.pos - prev.e.q.pos) = 0)
    (hl : 0 ≤ min (cur.e.r.pos - cur.s.r.pos) (prev.e.r.pos - prev.s.r.pos)) :
    joinScore mult variant prev cur = some 0 := by
  sorry

theorem joinScore_some_overlap (mult : Rat) (variant : Int) (prev cur : Ends) (v : Rat)
    (h : joinScore mult variant prev cur = some v) :
    0 ≤ min (cur.e.r.pos - cur.s.r.pos) (prev.e.r.pos - prev.s.r.pos) + 2 * (cur.s.r.pos - prev.e.r.pos) ∧
    0 ≤ min (iabs (cur.e.q.pos - cur.s.q.pos)) (iabs (prev.e.q.pos - prev.s.q.pos)) +
        2 * (if cur.reverse then prev.e.q.pos - cur.s.q.pos else cur.s.q.pos - prev.e.q.pos) := by
  sorry

theorem chainSegs_shape (P : Params) (C : ChainCfg) (segs out : List Seg)
    (h : chainSegs P C segs = some out) :
    ∃ ne : List (Seg × Ends), withEnds? (segs.filter (fun s => !s.isEmpty)) = some ne ∧
      ∃ sel : List (Seg × Ends), sel.Sublist (isort (fun (x : Seg × Ends) => x.2.key) ne) ∧
        out = sel.map (·.1) ++ segs.filter Seg.isEmpty := by
  sorry

theorem chainSegs_none_iff (P : Params) (C : ChainCfg) (segs : List Seg) :
    chainSegs P C segs = none ↔ ∃ s ∈ segs, s.isEmpty = false ∧ s.pairs = [] := by
  sorry

end Coma.Proofs
