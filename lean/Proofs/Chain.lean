import Props.Defs
import Proofs.ChainDP
import Mathlib.Tactic.Positivity
namespace Coma.Proofs
open Coma Coma.Spec

theorem dp_indices {α} (score : α → Rat) (join : α → α → Option Rat) (pre : List α) (h : pre ≠ []) :
    (dpChain score join pre).1 ≠ [] ∧
    (dpChain score join pre).1.Pairwise (· < ·) ∧
    ∀ i ∈ (dpChain score join pre).1, i < pre.length := by
  obtain ⟨b, path, x, c, p, hrow, hdp, hbl, hlt, hpw, htot, hmax⟩ := dpChain_spec score join pre h
  rw [hdp]
  refine ⟨by simp, ?_, ?_⟩
  · rw [List.pairwise_append]
    refine ⟨hpw, by simp, ?_⟩
    intro a ha b' hb'
    simp at hb'; subst hb'; exact hlt a ha
  · intro i hi
    simp at hi
    rcases hi with hi | rfl
    · exact Nat.lt_trans (hlt i hi) hbl
    · exact hbl

theorem dp_sublist {α} (score : α → Rat) (join : α → α → Option Rat) (pre : List α) :
    ((dpChain score join pre).1.filterMap (fun i => pre[i]?)).Sublist pre := by
  by_cases h : pre = []
  · subst h
    simp
  · exact filterMap_idx_sublist pre _ (dp_indices score join pre h).2.1

theorem dp_total {α} (score : α → Rat) (join : α → α → Option Rat) (pre : List α) (h : pre ≠ []) :
    chainTotal score join ((dpChain score join pre).1.filterMap (fun i => pre[i]?)) = some (dpChain score join pre).2 := by
  obtain ⟨b, path, x, c, p, hrow, hdp, hbl, hlt, hpw, htot, hmax⟩ := dpChain_spec score join pre h
  rw [hdp]
  exact htot

theorem dp_optimal {α} (score : α → Rat) (join : α → α → Option Rat) (pre : List α)
    (c : List α) (hc : c.Sublist pre) (hne : c ≠ []) :
    leOpt (chainTotal score join c) (dpChain score join pre).2 := by
  have h : pre ≠ [] := by
    rintro rfl
    exact hne (List.sublist_nil.mp hc)
  obtain ⟨b, path, x, c0, p, hrow, hdp, hbl, hlt, hpw, htot, hmax⟩ := dpChain_spec score join pre h
  rw [hdp]
  have hg : Good score join (dpTable score join [] pre) := dpTable_good score join pre [] (good_nil score join)
  have hitems : (dpTable score join [] pre).map (·.1) = pre := by
    simpa using dpTable_items score join pre []
  rcases List.eq_nil_or_concat c with rfl | ⟨c', y, rfl⟩
  · exact absurd rfl hne
  · rw [List.concat_eq_append] at hc ⊢
    obtain ⟨k, hk, hsub⟩ := sublist_snoc_split hc
    rw [← hitems, List.getElem?_map] at hk
    cases hd : (dpTable score join [] pre)[k]? with
    | none => simp [hd] at hk
    | some row =>
      obtain ⟨y', cj, pj⟩ := row
      simp [hd] at hk
      subst hk
      have hB := (hg k y' cj pj hd).2 c' (by rw [hitems]; exact hsub)
      refine leOpt_mono hB (hmax cj ?_)
      rw [List.mem_map]
      exact ⟨(y', cj, pj), List.mem_of_getElem? hd, rfl⟩

theorem dp_no_inf_join {α} (score : α → Rat) (join : α → α → Option Rat) (pre : List α) (h : pre ≠ []) :
    Consec (fun a b => join a b ≠ none) ((dpChain score join pre).1.filterMap (fun i => pre[i]?)) := by
  exact chainTotal_some_consec score join _ _ (dp_total score join pre h)

theorem iabs_nonneg (x : Int) : 0 ≤ iabs x := by
  unfold iabs; split <;> omega

theorem iabs_zero : iabs 0 = 0 := by decide

theorem calcScore_nonneg (variant rd qd : Int) : 0 ≤ calcScore variant rd qd := by
  unfold calcScore
  simp only
  split
  · apply div_nonneg
    · exact_mod_cast Int.add_nonneg (mul_self_nonneg _) (mul_self_nonneg _)
    · exact_mod_cast le_trans (by decide : (0 : Int) ≤ 1) (le_max_right _ _)
  · apply div_nonneg
    · exact_mod_cast Int.add_nonneg (mul_self_nonneg _) (mul_self_nonneg _)
    · exact_mod_cast le_trans (by decide : (0 : Int) ≤ 1) (le_max_right _ _)

theorem calcScore_zero (variant : Int) : calcScore variant 0 0 = 0 := by
  unfold calcScore
  simp [iabs_zero]

theorem joinScore_nonpos (mult : Rat) (variant : Int) (prev cur : Ends) (hm : 0 ≤ mult) (v : Rat)
    (h : joinScore mult variant prev cur = some v) : v ≤ 0 := by
  unfold joinScore at h
  simp only at h
  generalize (cur.s.q.pos - prev.e.q.pos) = qd at h
  split at h
  · cases h
  · cases h
    have := calcScore_nonneg variant (cur.s.r.pos - prev.e.r.pos) qd
    have h2 := mul_nonneg hm this
    linarith

theorem joinScore_zero (mult : Rat) (variant : Int) (prev cur : Ends)
    (hr : cur.s.r.pos = prev.e.r.pos)
    (hq : cur.s.q.pos = prev.e.q.pos)
    (hl : 0 ≤ min (cur.e.r.pos - cur.s.r.pos) (prev.e.r.pos - prev.s.r.pos)) :
    joinScore mult variant prev cur = some 0 := by
  unfold joinScore
  simp only
  have hrd : cur.s.r.pos - prev.e.r.pos = 0 := by omega
  have hqd : cur.s.q.pos - prev.e.q.pos = 0 := by omega
  rw [hqd, hrd]
  have h1 := iabs_nonneg (cur.e.q.pos - cur.s.q.pos)
  have h2 := iabs_nonneg (prev.e.q.pos - prev.s.q.pos)
  rw [if_neg (by omega)]
  simp [calcScore_zero]

theorem joinScore_some_overlap (mult : Rat) (variant : Int) (prev cur : Ends) (v : Rat)
    (h : joinScore mult variant prev cur = some v) :
    0 ≤ min (cur.e.r.pos - cur.s.r.pos) (prev.e.r.pos - prev.s.r.pos) + 2 * (cur.s.r.pos - prev.e.r.pos) ∧
    0 ≤ min (iabs (cur.e.q.pos - cur.s.q.pos)) (iabs (prev.e.q.pos - prev.s.q.pos)) +
        2 * (cur.s.q.pos - prev.e.q.pos) := by
  unfold joinScore at h
  simp only at h
  generalize (cur.s.q.pos - prev.e.q.pos) = qd at h ⊢
  split at h
  · cases h
  · rename_i hlt
    generalize iabs (cur.e.q.pos - cur.s.q.pos) = a1 at hlt ⊢
    generalize iabs (prev.e.q.pos - prev.s.q.pos) = a2 at hlt ⊢
    omega

theorem ends?_eq_none_iff (s : Seg) : s.ends? = none ↔ s.pairs = [] := by
  unfold Seg.ends?
  split
  · rename_i h; simp [h]
  · rename_i h; simp [h]

theorem withEnds?_eq_none_iff : ∀ (l : List Seg), withEnds? l = none ↔ ∃ s ∈ l, s.pairs = []
  | [] => by simp [withEnds?]
  | s :: ss => by
    have ih := withEnds?_eq_none_iff ss
    have he := ends?_eq_none_iff s
    unfold withEnds?
    cases h1 : s.ends? with
    | none =>
      simp only [List.mem_cons, exists_eq_or_imp]
      exact ⟨fun _ => Or.inl (he.mp h1), fun _ => trivial⟩
    | some e =>
      cases h2 : withEnds? ss with
      | none =>
        simp only [List.mem_cons, exists_eq_or_imp]
        exact ⟨fun _ => Or.inr (ih.mp h2), fun _ => trivial⟩
      | some rest =>
        simp only [List.mem_cons, exists_eq_or_imp]
        constructor
        · intro h; cases h
        · rintro (h | h)
          · rw [he.mpr h] at h1; cases h1
          · rw [ih.mpr h] at h2; cases h2

theorem chainSegs_shape (P : Params) (C : ChainCfg) (segs out : List Seg)
    (h : chainSegs P C segs = some out) :
    ∃ ne : List (Seg × Ends), withEnds? (segs.filter (fun s => !s.isEmpty)) = some ne ∧
      ∃ sel : List (Seg × Ends), sel.Sublist (isort (fun (x : Seg × Ends) => x.2.key) ne) ∧
        out = sel.map (·.1) ++ segs.filter Seg.isEmpty := by
  unfold chainSegs at h
  simp only at h
  cases hw : withEnds? (segs.filter (fun s => !s.isEmpty)) with
  | none => rw [hw] at h; cases h
  | some ne =>
    rw [hw] at h
    simp only at h
    refine ⟨ne, rfl, ?_⟩
    split at h
    · cases h
      exact ⟨[], List.nil_sublist _, by simp⟩
    · cases h
      refine ⟨_, dp_sublist (fun (x : Seg × Ends) => ((x.1.score P : Int) : Rat))
        (fun a b => joinScore C.mult C.variant a.2 b.2)
        (isort (fun (x : Seg × Ends) => x.2.key) ne), ?_⟩
      rw [List.map_filterMap]

theorem chainSegs_none_iff (P : Params) (C : ChainCfg) (segs : List Seg) :
    chainSegs P C segs = none ↔ ∃ s ∈ segs, s.isEmpty = false ∧ s.pairs = [] := by
  have key : chainSegs P C segs = none ↔ withEnds? (segs.filter (fun s => !s.isEmpty)) = none := by
    unfold chainSegs
    simp only
    cases hw : withEnds? (segs.filter (fun s => !s.isEmpty)) with
    | none => simp
    | some ne =>
      simp only
      split <;> simp
  rw [key, withEnds?_eq_none_iff]
  constructor
  · rintro ⟨s, hs, hp⟩
    rw [List.mem_filter] at hs
    exact ⟨s, hs.1, by simpa using hs.2, hp⟩
  · rintro ⟨s, hs, he, hp⟩
    exact ⟨s, by rw [List.mem_filter]; exact ⟨hs, by simp [he]⟩, hp⟩

end Coma.Proofs
