import Props.Defs
namespace Coma.Proofs
open Coma Coma.Spec

/-- the rows the reader looks at (same definition as Props.selected) -/
def selected' (rows : List CRow) (ids : List Int) : List CRow :=
  if ids.isEmpty then rows else rows.filter (fun r => ids.contains r.id)

def labelCoords' (rows : List CRow) (id : Int) : List Int :=
  (rows.filter (fun r => r.id = id ∧ r.chan ≠ 0)).map (·.pos)

theorem readCmap_spec (unit : Int) (rows : List CRow) (ids : List Int) (ms : List OMap)
    (h : readCmap unit rows ids = .ok ms) :
    StrictAscending (ms.map (·.id)) ∧
    (∀ m ∈ ms, (ids = [] ∨ m.id ∈ ids) ∧
        m.positions.Perm (labelCoords' rows m.id) ∧ Ascending m.positions ∧ m.positions ≠ [] ∧ m.shift = 0 ∧
        ∃ em, (rows.filter (fun r => r.id = m.id)).find? (fun r => r.chan = 0) = some em ∧
              m.length = Int.tdiv em.pos unit) ∧
    (∀ r ∈ selected' rows ids, r.chan ≠ 0 → ∃ m ∈ ms, m.id = r.id) := by
  sorry

theorem readCmap_skip (unit : Int) (rows : List CRow) (ids : List Int) (ms : List OMap)
    (h : readCmap unit rows ids = .ok ms) (id : Int) (hno : labelCoords' (selected' rows ids) id = []) :
    ∀ m ∈ ms, m.id ≠ id := by
  sorry

theorem readCmap_error_iff (unit : Int) (rows : List CRow) (ids : List Int) :
    (∃ e, readCmap unit rows ids = .error e) ↔
      ∃ r ∈ selected' rows ids, ∀ r' ∈ selected' rows ids, r'.id = r.id → r'.chan ≠ 0 := by
  sorry

theorem readCmap_filter (unit : Int) (rows : List CRow) (ids : List Int) (hne : ids ≠ []) :
    readCmap unit rows ids = readCmap unit (rows.filter (fun r => ids.contains r.id)) [] := by
  sorry

theorem readCmap_perm (unit : Int) (rows rows' : List CRow) (ids : List Int) (hp : rows.Perm rows')
    (h1 : ∀ id, (rows.filter (fun r => r.id = id ∧ r.chan = 0)).length ≤ 1) :
    readCmap unit rows ids = readCmap unit rows' ids := by
  sorry

theorem trim_spec (m : OMap) (p0 : Int) (ps : List Int) (hp : m.positions = p0 :: ps) :
    m.trim.positions = m.positions.map (· - p0) ∧
    m.trim.positions.head? = some 0 ∧
    m.trim.positions.length = m.positions.length ∧
    m.trim.length = lastD p0 m.positions - p0 + 1 ∧
    m.trim.id = m.id ∧
    m.trim.trim = m.trim := by
  sorry

theorem trim_empty (m : OMap) (h : m.positions = []) : m.trim = m := by
  sorry

end Coma.Proofs
