import Props.Defs
import Proofs.SortLemmas
namespace Coma.Proofs
open Coma Coma.Spec

/-- the rows the reader looks at (same definition as Props.selected) -/
def selected' (rows : List CRow) (ids : List Int) : List CRow :=
  if ids.isEmpty then rows else rows.filter (fun r => ids.contains r.id)

def labelCoords' (rows : List CRow) (id : Int) : List Int :=
  (rows.filter (fun r => r.id = id ∧ r.chan ≠ 0)).map (·.pos)
end Coma.Proofs

namespace Coma.Proofs.Cmap
open Coma Coma.Spec Coma.Proofs

/-! ### trim -/

theorem lastD_map_sub (c d : Int) (l : List Int) :
    lastD (d - c) (l.map (fun p => p - c)) = lastD d l - c := by
  induction l with
  | nil => simp [lastD]
  | cons x xs ih =>
    cases xs with
    | nil => simp [lastD]
    | cons y ys => simpa [lastD] using ih

/-! ### mapM in Except -/

def toOk {ε β} [Inhabited β] : Except ε β → β
  | .ok b => b
  | .error _ => default

@[simp] theorem toOk_ok {ε β} [Inhabited β] (b : β) : toOk (Except.ok b : Except ε β) = b := rfl

theorem mapM_cons_except {α β ε} (f : α → Except ε β) (a : α) (l : List α) :
    (a :: l).mapM f = (match f a with
      | .error e => .error e
      | .ok b => match l.mapM f with
        | .error e => .error e
        | .ok bs => .ok (b :: bs)) := by
  rw [List.mapM_cons]
  cases f a with
  | error e => rfl
  | ok b =>
    cases l.mapM f with
    | error e => rfl
    | ok bs => rfl

theorem mapM_ok_iff {α β ε} [Inhabited β] (f : α → Except ε β) (l : List α) (out : List β) :
    l.mapM f = .ok out ↔ (∀ a ∈ l, ∃ b, f a = .ok b) ∧ out = l.map (fun a => toOk (f a)) := by
  induction l generalizing out with
  | nil => simp [pure, Except.pure]
  | cons a l ih =>
    rw [mapM_cons_except]
    cases hfa : f a with
    | error e =>
      simp only [List.mem_cons, forall_eq_or_imp, hfa]
      constructor
      · intro h; cases h
      · rintro ⟨⟨⟨b, hb⟩, _⟩, _⟩; cases hb
    | ok b =>
      cases hl : l.mapM f with
      | error e =>
        simp only [List.mem_cons, forall_eq_or_imp]
        constructor
        · intro h; cases h
        · rintro ⟨⟨_, h2⟩, _⟩
          have := (ih (l.map (fun a => toOk (f a)))).2 ⟨h2, rfl⟩
          rw [hl] at this; cases this
      | ok bs =>
        have := (ih bs).1 hl
        simp only [List.mem_cons, forall_eq_or_imp, List.map_cons, hfa, toOk_ok]
        constructor
        · intro h
          injection h with h
          subst h
          exact ⟨⟨⟨b, rfl⟩, this.1⟩, by rw [← this.2]⟩
        · rintro ⟨_, h⟩
          rw [h, ← this.2]

theorem mapM_error_iff {α β ε} (f : α → Except ε β) (l : List α) :
    (∃ e, l.mapM f = .error e) ↔ ∃ a ∈ l, ∃ e, f a = .error e := by
  induction l with
  | nil => simp [pure, Except.pure]
  | cons a l ih =>
    rw [mapM_cons_except]
    cases hfa : f a with
    | error e => simp [hfa]
    | ok b =>
      cases hl : l.mapM f with
      | error e =>
        have := ih.1 (by rw [hl]; exact ⟨e, rfl⟩)
        simp only [List.mem_cons, exists_eq_or_imp, hfa]
        constructor
        · intro _; exact Or.inr this
        · intro _; exact ⟨e, rfl⟩
      | ok bs =>
        simp only [List.mem_cons, exists_eq_or_imp, hfa]
        constructor
        · rintro ⟨e, h⟩; cases h
        · rintro (⟨e, h⟩ | h)
          · cases h
          · have := ih.2 h; rw [hl] at this; obtain ⟨e, h⟩ := this; cases h

theorem mapM_congr {α β ε} (f g : α → Except ε β) (l : List α) (h : ∀ a ∈ l, f a = g a) :
    l.mapM f = l.mapM g := by
  induction l with
  | nil => rfl
  | cons a l ih =>
    rw [mapM_cons_except, mapM_cons_except, h a (List.mem_cons_self), ih (fun x hx => h x (List.mem_cons_of_mem _ hx))]

/-! ### sortedIds -/

theorem mem_insertUniq (a x : Int) (l : List Int) : x ∈ insertUniq a l ↔ x = a ∨ x ∈ l := by
  induction l with
  | nil => simp [insertUniq]
  | cons b bs ih =>
    simp only [insertUniq]
    split
    · simp
    · split
      · rename_i h; subst h; simp
      · simp [ih]; constructor <;> (intro h; rcases h with h | h | h <;> simp [h])

theorem insertUniq_sorted (a : Int) (l : List Int) (h : l.Pairwise (· < ·)) :
    (insertUniq a l).Pairwise (· < ·) := by
  induction l with
  | nil => simp [insertUniq]
  | cons b bs ih =>
    simp only [insertUniq]
    rw [List.pairwise_cons] at h
    split
    · rename_i hab
      rw [List.pairwise_cons]
      refine ⟨?_, List.pairwise_cons.2 h⟩
      intro x hx
      rcases List.mem_cons.1 hx with rfl | hx
      · exact hab
      · exact Int.lt_trans hab (h.1 x hx)
    · split
      · exact List.pairwise_cons.2 h
      · rw [List.pairwise_cons]
        refine ⟨?_, ih h.2⟩
        intro x hx
        rcases (mem_insertUniq a x bs).1 hx with rfl | hx
        · omega
        · exact h.1 x hx

theorem sortedIds_sorted (rows : List CRow) : (sortedIds rows).Pairwise (· < ·) := by
  induction rows with
  | nil => simp [sortedIds]
  | cons r rs ih => exact insertUniq_sorted _ _ ih

theorem mem_sortedIds (rows : List CRow) (i : Int) : i ∈ sortedIds rows ↔ ∃ r ∈ rows, r.id = i := by
  induction rows with
  | nil => simp [sortedIds]
  | cons r rs ih =>
    simp only [sortedIds, mem_insertUniq, ih, List.mem_cons, exists_eq_or_imp]
    constructor <;> (intro h; rcases h with h | h <;> simp [h])

theorem strict_ext (l₁ l₂ : List Int) (h₁ : l₁.Pairwise (· < ·)) (h₂ : l₂.Pairwise (· < ·))
    (h : ∀ x, x ∈ l₁ ↔ x ∈ l₂) : l₁ = l₂ := by
  have n₁ : l₁.Nodup := h₁.imp (fun h => Int.ne_of_lt h)
  have n₂ : l₂.Nodup := h₂.imp (fun h => Int.ne_of_lt h)
  have hp : l₁.Perm l₂ := (List.perm_ext_iff_of_nodup n₁ n₂).2 h
  exact List.Perm.eq_of_pairwise (le := (· < ·)) (fun a b _ _ h1 h2 => by omega) h₁ h₂ hp

theorem sortedIds_perm (rows rows' : List CRow) (hp : rows.Perm rows') :
    sortedIds rows = sortedIds rows' := by
  apply strict_ext _ _ (sortedIds_sorted _) (sortedIds_sorted _)
  intro x
  rw [mem_sortedIds, mem_sortedIds]
  constructor <;> rintro ⟨r, hr, h⟩
  · exact ⟨r, hp.mem_iff.1 hr, h⟩
  · exact ⟨r, hp.mem_iff.2 hr, h⟩


/-! ### parseGroup -/

theorem labelCoords_eq (rows : List CRow) (i : Int) :
    ((rows.filter (fun r => r.id = i)).filter (fun r => r.chan ≠ 0)).map (·.pos)
      = labelCoords' rows i := by
  unfold labelCoords'
  rw [List.filter_filter]
  congr 1
  apply List.filter_congr
  intro r _
  by_cases h1 : r.id = i <;> by_cases h2 : r.chan = 0 <;> simp [h1, h2]

theorem isort_eq_nil {α} (key : α → Int) (l : List α) : isort key l = [] ↔ l = [] := by
  rw [← List.length_eq_zero_iff, isort_length, List.length_eq_zero_iff]

theorem parseGroup_cases (unit i : Int) (rows : List CRow) :
    parseGroup unit i rows =
      match (rows.filter (fun r => r.id = i)).find? (fun r => r.chan = 0) with
      | none => .error .indexError
      | some em =>
        if labelCoords' rows i = [] then .ok none
        else .ok (some ⟨i, Int.tdiv em.pos unit, isort parseGroup.id_ (labelCoords' rows i), 0⟩) := by
  unfold parseGroup
  simp only [labelCoords_eq]
  cases (rows.filter (fun r => r.id = i)).find? (fun r => r.chan = 0) with
  | none => rfl
  | some em => simp only [List.isEmpty_iff, isort_eq_nil]

theorem parseGroup_error_iff (unit i : Int) (rows : List CRow) :
    (∃ e, parseGroup unit i rows = .error e) ↔ ∀ r ∈ rows, r.id = i → r.chan ≠ 0 := by
  rw [parseGroup_cases]
  cases hf : (rows.filter (fun r => r.id = i)).find? (fun r => r.chan = 0) with
  | none =>
    simp only [List.find?_eq_none, List.mem_filter, decide_eq_true_eq] at hf
    constructor
    · intro _ r hr hi; exact hf r ⟨hr, hi⟩
    · intro _; exact ⟨_, rfl⟩
  | some em =>
    have h1 := List.find?_some hf
    have h2 := List.mem_of_find?_eq_some hf
    simp only [List.mem_filter, decide_eq_true_eq] at h1 h2
    constructor
    · rintro ⟨e, h⟩
      simp only at h
      split at h <;> cases h
    · intro h; exact absurd h1 (h em h2.1 h2.2)

theorem parseGroup_ok (unit i : Int) (rows : List CRow) (o : Option OMap)
    (h : parseGroup unit i rows = .ok o) :
    ∃ em, (rows.filter (fun r => r.id = i)).find? (fun r => r.chan = 0) = some em ∧
      ((labelCoords' rows i = [] ∧ o = none) ∨
       (labelCoords' rows i ≠ [] ∧
         o = some ⟨i, Int.tdiv em.pos unit, isort parseGroup.id_ (labelCoords' rows i), 0⟩)) := by
  rw [parseGroup_cases] at h
  cases hf : (rows.filter (fun r => r.id = i)).find? (fun r => r.chan = 0) with
  | none => rw [hf] at h; cases h
  | some em =>
    rw [hf] at h
    refine ⟨em, rfl, ?_⟩
    simp only at h
    split at h
    · rename_i hc; injection h with h; exact Or.inl ⟨hc, h.symm⟩
    · rename_i hc; injection h with h; exact Or.inr ⟨hc, h.symm⟩

/-! ### readCmap -/

theorem readCmap_eq (unit : Int) (rows : List CRow) (ids : List Int) :
    readCmap unit rows ids =
      match (sortedIds (selected' rows ids)).mapM (fun i => parseGroup unit i (selected' rows ids)) with
      | .ok ms => .ok (ms.filterMap id)
      | .error e => .error e := by
  unfold readCmap selected'
  simp only [bind, Except.bind, pure, Except.pure]
  split <;> simp_all

theorem readCmap_ok_iff (unit : Int) (rows : List CRow) (ids : List Int) (ms : List OMap) :
    readCmap unit rows ids = .ok ms ↔
      (∀ i ∈ sortedIds (selected' rows ids), ∃ b, parseGroup unit i (selected' rows ids) = .ok b) ∧
      ms = (sortedIds (selected' rows ids)).filterMap
              (fun i => toOk (parseGroup unit i (selected' rows ids))) := by
  rw [readCmap_eq]
  cases hm : (sortedIds (selected' rows ids)).mapM (fun i => parseGroup unit i (selected' rows ids)) with
  | error e =>
    constructor
    · intro h; cases h
    · rintro ⟨h, _⟩
      have := (mapM_ok_iff _ _ _).2 ⟨h, rfl⟩
      rw [hm] at this; cases this
  | ok out =>
    have := (mapM_ok_iff _ _ _).1 hm
    simp only
    constructor
    · intro h
      injection h with h
      refine ⟨this.1, ?_⟩
      rw [← h, this.2, List.filterMap_map]; rfl
    · rintro ⟨_, h⟩
      rw [h, this.2, List.filterMap_map]; rfl


/-! ### selected rows vs. all rows -/

theorem selected_nil (rows : List CRow) : selected' rows [] = rows := rfl

theorem selected_cons (rows : List CRow) (a : Int) (as : List Int) :
    selected' rows (a :: as) = rows.filter (fun r => (a :: as).contains r.id) := rfl

theorem mem_selected (rows : List CRow) (ids : List Int) (r : CRow) :
    r ∈ selected' rows ids ↔ r ∈ rows ∧ (ids = [] ∨ r.id ∈ ids) := by
  cases ids with
  | nil => simp [selected_nil]
  | cons a as => simp [selected_cons]

theorem selected_sublist (rows : List CRow) (ids : List Int) : (selected' rows ids).Sublist rows := by
  cases ids with
  | nil => exact List.Sublist.refl _
  | cons a as => exact List.filter_sublist

theorem selected_perm (rows rows' : List CRow) (ids : List Int) (hp : rows.Perm rows') :
    (selected' rows ids).Perm (selected' rows' ids) := by
  cases ids with
  | nil => exact hp
  | cons a as => exact hp.filter _

theorem selected_filter (rows : List CRow) (ids : List Int) (p : CRow → Bool) (i : Int)
    (hi : ids = [] ∨ i ∈ ids) (hp : ∀ r, p r = true → r.id = i) :
    (selected' rows ids).filter p = rows.filter p := by
  cases ids with
  | nil => rfl
  | cons a as =>
    rw [selected_cons, List.filter_filter]
    apply List.filter_congr
    intro r _
    cases hpr : p r with
    | false => rfl
    | true =>
      have : r.id = i := hp r hpr
      rcases hi with hi | hi
      · cases hi
      · simp [this, hi]

theorem labelCoords_selected (rows : List CRow) (ids : List Int) (i : Int)
    (hi : ids = [] ∨ i ∈ ids) : labelCoords' (selected' rows ids) i = labelCoords' rows i := by
  unfold labelCoords'
  rw [selected_filter rows ids _ i hi]
  intro r hr
  simp only [decide_eq_true_eq] at hr
  exact hr.1

theorem filterMap_ids_sublist (G : Int → Option OMap) (l : List Int)
    (hG : ∀ i ∈ l, ∀ m, G i = some m → m.id = i) :
    ((l.filterMap G).map (·.id)).Sublist l := by
  induction l with
  | nil => simp
  | cons a l ih =>
    have ih' := ih (fun i hi => hG i (List.mem_cons_of_mem _ hi))
    cases hg : G a with
    | none => rw [List.filterMap_cons_none hg]; exact ih'.cons _
    | some m =>
      rw [List.filterMap_cons_some hg, List.map_cons, hG a (List.mem_cons_self) m hg]
      exact ih'.cons_cons _

/-- everything the reader guarantees, in terms of the selected rows -/
theorem read_core (unit : Int) (rows : List CRow) (ids : List Int) (ms : List OMap)
    (h : readCmap unit rows ids = .ok ms) :
    StrictAscending (ms.map (·.id)) ∧
    (∀ m ∈ ms, (∃ r ∈ selected' rows ids, r.id = m.id) ∧
        labelCoords' (selected' rows ids) m.id ≠ [] ∧
        m.positions = isort parseGroup.id_ (labelCoords' (selected' rows ids) m.id) ∧ m.shift = 0 ∧
        ∃ em, ((selected' rows ids).filter (fun r => r.id = m.id)).find? (fun r => r.chan = 0) = some em ∧
              m.length = Int.tdiv em.pos unit) ∧
    (∀ r ∈ selected' rows ids, r.chan ≠ 0 → ∃ m ∈ ms, m.id = r.id) := by
  obtain ⟨hok, hms⟩ := (readCmap_ok_iff unit rows ids ms).1 h
  generalize hR : selected' rows ids = R at hok hms ⊢
  have key : ∀ i ∈ sortedIds R, ∀ m, toOk (parseGroup unit i R) = some m →
      m.id = i ∧ labelCoords' R i ≠ [] ∧ m.positions = isort parseGroup.id_ (labelCoords' R i) ∧
      m.shift = 0 ∧
      ∃ em, (R.filter (fun r => r.id = i)).find? (fun r => r.chan = 0) = some em ∧
            m.length = Int.tdiv em.pos unit := by
    intro i hi m hm
    obtain ⟨b, hb⟩ := hok i hi
    rw [hb, toOk_ok] at hm
    subst hm
    obtain ⟨em, hem, hc | hc⟩ := parseGroup_ok unit i R _ hb
    · cases hc.2
    · obtain ⟨hc1, hc2⟩ := hc
      injection hc2 with hc2
      subst hc2
      exact ⟨rfl, hc1, rfl, rfl, em, hem, rfl⟩
  refine ⟨?_, ?_, ?_⟩
  · rw [hms]
    exact (sortedIds_sorted R).sublist
      (filterMap_ids_sublist _ _ (fun i hi m hm => (key i hi m hm).1))
  · intro m hm
    rw [hms, List.mem_filterMap] at hm
    obtain ⟨i, hi, hm⟩ := hm
    obtain ⟨k1, k2, k3, k4, k5⟩ := key i hi m hm
    subst k1
    exact ⟨(mem_sortedIds R _).1 hi, k2, k3, k4, k5⟩
  · intro r hr hch
    have hi : r.id ∈ sortedIds R := (mem_sortedIds R _).2 ⟨r, hr, rfl⟩
    obtain ⟨b, hb⟩ := hok _ hi
    obtain ⟨em, hem, hc | hc⟩ := parseGroup_ok unit r.id R _ hb
    · exfalso
      have : r.pos ∈ labelCoords' R r.id := by
        unfold labelCoords'
        exact List.mem_map.2 ⟨r, List.mem_filter.2 ⟨hr, by simp [hch]⟩, rfl⟩
      rw [hc.1] at this; cases this
    · refine ⟨⟨r.id, Int.tdiv em.pos unit, isort parseGroup.id_ (labelCoords' R r.id), 0⟩, ?_, rfl⟩
      rw [hms, List.mem_filterMap]
      exact ⟨r.id, hi, by rw [hb, toOk_ok]; exact hc.2⟩

/-! ### permutations -/

theorem find_perm {α} (p : α → Bool) (l l' : List α) (hp : l.Perm l')
    (h1 : (l.filter p).length ≤ 1) : l.find? p = l'.find? p := by
  rw [← List.head?_filter, ← List.head?_filter]
  have hf := hp.filter p
  match hl : l.filter p with
  | [] => rw [hl] at hf; rw [← hf.nil_eq]
  | [a] => rw [hl] at hf; rw [List.perm_singleton.1 hf.symm]
  | a :: b :: t => rw [hl] at h1; simp at h1

theorem isort_perm_eq (l l' : List Int) (hp : l.Perm l') :
    isort parseGroup.id_ l = isort parseGroup.id_ l' := by
  have s₁ := isort_sorted parseGroup.id_ l
  have s₂ := isort_sorted parseGroup.id_ l'
  rw [List.pairwise_map] at s₁ s₂
  refine List.Perm.eq_of_pairwise (le := fun a b => parseGroup.id_ a ≤ parseGroup.id_ b) ?_ s₁ s₂ ?_
  · intro a b _ _ h1 h2
    simp only [parseGroup.id_] at h1 h2
    omega
  · exact (isort_perm _ l).trans (hp.trans (isort_perm _ l').symm)

theorem parseGroup_perm (unit i : Int) (R R' : List CRow) (hp : R.Perm R')
    (h1 : (R.filter (fun r => r.id = i ∧ r.chan = 0)).length ≤ 1) :
    parseGroup unit i R = parseGroup unit i R' := by
  rw [parseGroup_cases, parseGroup_cases, List.find?_filter, List.find?_filter]
  have hfind : R.find? (fun a => decide (decide (a.id = i) = true ∧ decide (a.chan = 0) = true))
      = R'.find? (fun a => decide (decide (a.id = i) = true ∧ decide (a.chan = 0) = true)) := by
    apply find_perm _ _ _ hp
    have : R.filter (fun a => decide (decide (a.id = i) = true ∧ decide (a.chan = 0) = true))
        = R.filter (fun r => r.id = i ∧ r.chan = 0) := by
      apply List.filter_congr; intro r _; simp
    rw [this]; exact h1
  have hlc : (labelCoords' R i).Perm (labelCoords' R' i) := (hp.filter _).map _
  have hs := isort_perm_eq _ _ hlc
  have hnil : labelCoords' R i = [] ↔ labelCoords' R' i = [] := by
    constructor
    · intro h; rw [h] at hlc; exact hlc.nil_eq.symm
    · intro h; rw [h] at hlc; exact List.Perm.eq_nil hlc
  rw [hfind, hs]
  simp only [hnil]

end Coma.Proofs.Cmap

namespace Coma.Proofs
open Coma Coma.Spec Coma.Proofs.Cmap

theorem readCmap_spec (unit : Int) (rows : List CRow) (ids : List Int) (ms : List OMap)
    (h : readCmap unit rows ids = .ok ms) :
    StrictAscending (ms.map (·.id)) ∧
    (∀ m ∈ ms, (ids = [] ∨ m.id ∈ ids) ∧
        m.positions.Perm (labelCoords' rows m.id) ∧ Ascending m.positions ∧ m.positions ≠ [] ∧ m.shift = 0 ∧
        ∃ em, (rows.filter (fun r => r.id = m.id)).find? (fun r => r.chan = 0) = some em ∧
              m.length = Int.tdiv em.pos unit) ∧
    (∀ r ∈ selected' rows ids, r.chan ≠ 0 → ∃ m ∈ ms, m.id = r.id) := by
  obtain ⟨c1, c2, c3⟩ := read_core unit rows ids ms h
  refine ⟨c1, ?_, c3⟩
  intro m hm
  obtain ⟨⟨r, hr, hrid⟩, hne, hpos, hsh, em, hem, hlen⟩ := c2 m hm
  have hi : ids = [] ∨ m.id ∈ ids := by
    rw [← hrid]; exact ((mem_selected rows ids r).1 hr).2
  rw [labelCoords_selected rows ids m.id hi] at hne hpos
  rw [selected_filter rows ids _ m.id hi (by intro r hr; simpa using hr)] at hem
  refine ⟨hi, ?_, ?_, ?_, hsh, em, hem, hlen⟩
  · rw [hpos]; exact isort_perm _ _
  · rw [hpos]
    have := isort_sorted parseGroup.id_ (labelCoords' rows m.id)
    rw [List.pairwise_map] at this
    exact this
  · rw [hpos, Ne, isort_eq_nil]; exact hne

theorem readCmap_skip (unit : Int) (rows : List CRow) (ids : List Int) (ms : List OMap)
    (h : readCmap unit rows ids = .ok ms) (id : Int) (hno : labelCoords' (selected' rows ids) id = []) :
    ∀ m ∈ ms, m.id ≠ id := by
  intro m hm hid
  obtain ⟨_, c2, _⟩ := read_core unit rows ids ms h
  obtain ⟨_, hne, _⟩ := c2 m hm
  rw [hid] at hne
  exact hne hno

theorem readCmap_error_iff (unit : Int) (rows : List CRow) (ids : List Int) :
    (∃ e, readCmap unit rows ids = .error e) ↔
      ∃ r ∈ selected' rows ids, ∀ r' ∈ selected' rows ids, r'.id = r.id → r'.chan ≠ 0 := by
  have h0 : (∃ e, readCmap unit rows ids = .error e) ↔
      ∃ e, (sortedIds (selected' rows ids)).mapM (fun i => parseGroup unit i (selected' rows ids))
        = .error e := by
    rw [readCmap_eq]
    cases (sortedIds (selected' rows ids)).mapM (fun i => parseGroup unit i (selected' rows ids)) with
    | error e => exact ⟨fun _ => ⟨e, rfl⟩, fun _ => ⟨e, rfl⟩⟩
    | ok out => exact ⟨fun ⟨e, h⟩ => (by cases h), fun ⟨e, h⟩ => (by cases h)⟩
  rw [h0, mapM_error_iff]
  constructor
  · rintro ⟨i, hi, he⟩
    obtain ⟨r, hr, hri⟩ := (mem_sortedIds _ _).1 hi
    refine ⟨r, hr, ?_⟩
    rw [hri]
    exact (parseGroup_error_iff unit i _).1 he
  · rintro ⟨r, hr, hall⟩
    exact ⟨r.id, (mem_sortedIds _ _).2 ⟨r, hr, rfl⟩, (parseGroup_error_iff unit r.id _).2 hall⟩

theorem readCmap_filter (unit : Int) (rows : List CRow) (ids : List Int) (hne : ids ≠ []) :
    readCmap unit rows ids = readCmap unit (rows.filter (fun r => ids.contains r.id)) [] := by
  cases ids with
  | nil => exact absurd rfl hne
  | cons a as => rw [readCmap_eq, readCmap_eq, selected_nil, selected_cons]

theorem readCmap_perm (unit : Int) (rows rows' : List CRow) (ids : List Int) (hp : rows.Perm rows')
    (h1 : ∀ id, (rows.filter (fun r => r.id = id ∧ r.chan = 0)).length ≤ 1) :
    readCmap unit rows ids = readCmap unit rows' ids := by
  rw [readCmap_eq, readCmap_eq]
  have hsp := selected_perm rows rows' ids hp
  rw [← sortedIds_perm _ _ hsp]
  rw [mapM_congr _ (fun i => parseGroup unit i (selected' rows' ids))]
  intro i _
  apply parseGroup_perm unit i _ _ hsp
  exact Nat.le_trans ((selected_sublist rows ids).filter _).length_le (h1 i)

theorem trim_spec (m : OMap) (p0 : Int) (ps : List Int) (hp : m.positions = p0 :: ps) :
    m.trim.positions = m.positions.map (· - p0) ∧
    m.trim.positions.head? = some 0 ∧
    m.trim.positions.length = m.positions.length ∧
    m.trim.length = lastD p0 m.positions - p0 + 1 ∧
    m.trim.id = m.id ∧
    m.trim.trim = m.trim := by
  obtain ⟨i, len, pos, sh⟩ := m
  simp only at hp
  subst hp
  have ht : OMap.trim ⟨i, len, p0 :: ps, sh⟩
      = ⟨i, lastD p0 (p0 :: ps) - p0 + 1, (p0 :: ps).map (fun p => p - p0), 0⟩ := rfl
  rw [ht]
  refine ⟨rfl, by simp, by simp, rfl, rfl, ?_⟩
  have ht2 : OMap.trim ⟨i, lastD p0 (p0 :: ps) - p0 + 1, (p0 :: ps).map (fun p => p - p0), 0⟩
      = ⟨i, lastD (p0 - p0) ((p0 :: ps).map (fun p => p - p0)) - (p0 - p0) + 1,
          ((p0 :: ps).map (fun p => p - p0)).map (fun p => p - (p0 - p0)), 0⟩ := rfl
  rw [ht2, lastD_map_sub]
  simp

theorem trim_empty (m : OMap) (h : m.positions = []) : m.trim = m := by
  unfold OMap.trim
  rw [h]

end Coma.Proofs
