import Props.Defs
namespace Coma.Proofs.Scan
open Coma Coma.Spec

theorem sumInts_append (a b : List Int) : sumInts (a ++ b) = sumInts a + sumInts b := by
  induction a with
  | nil => simp [sumInts]
  | cons x xs ih => simp [sumInts, ih]; omega

theorem sumRange_self (s : List Int) (a : Nat) : sumRange s a a = 0 := by
  simp [sumRange, sumInts]

theorem sumRange_succ (s : List Int) (a b : Nat) (x : Int) (hab : a ≤ b) (hx : s[b]? = some x) :
    sumRange s a (b + 1) = sumRange s a b + x := by
  unfold sumRange
  have h1 : b + 1 - a = (b - a) + 1 := by omega
  have h2 : (List.drop a s)[b - a]? = some x := by
    rw [List.getElem?_drop]
    have : a + (b - a) = b := by omega
    rw [this]; exact hx
  rw [h1, List.take_add_one, sumInts_append, h2]
  simp [sumInts]

theorem getD_of_getElem? (s : List Int) (b : Nat) (x : Int) (hx : s[b]? = some x) :
    s.getD b 0 = x := by
  simp [List.getD, hx]

theorem lt_length_of_getElem? (s : List Int) (b : Nat) (x : Int) (hx : s[b]? = some x) :
    b < s.length := by
  rcases List.getElem?_eq_some_iff.mp hx with ⟨h, _⟩
  exact h

/-- properties (a)–(e) of a single range (without the `minScore` bound) -/
structure Good (scores : List Int) (bst : Int) (r : Rng) : Prop where
  lt : r.start < r.stop
  le : r.stop ≤ scores.length
  pos_start : 0 < scores.getD r.start 0
  pos_end : 0 < scores.getD (r.stop - 1) 0
  score_eq : r.score = sumRange scores r.start r.stop
  score_pos : 0 < r.score
  pre : ∀ k, r.start < k → k ≤ r.stop →
      0 < sumRange scores r.start k ∧
      ∀ j, r.start < j → j < k → sumRange scores r.start j - bst < sumRange scores r.start k
  first : ∀ k, r.start < k → k < r.stop → sumRange scores r.start k < r.score

/-- property (f) of a single range -/
def Closed (scores : List Int) (bst : Int) (r : Rng) : Prop :=
  ∀ m, r.stop < m → m ≤ scores.length → r.score < sumRange scores r.start m →
    ∃ k, r.stop < k ∧ k < m ∧ sumRange scores r.start k ≤ max 0 (r.score - bst)

/-- the loop invariant after `e` scores have been consumed -/
structure Inv (scores : List Int) (ms bst : Int) (e : Nat) (st : ScanSt) : Prop where
  start_le : st.start ≤ e
  ext_eq : st.ext = sumRange scores st.start e
  pre_le : ∀ k, st.start < k → k ≤ e → sumRange scores st.start k ≤ st.curScore
  pre_pos : ∀ k, st.start < k → k ≤ e → 0 < sumRange scores st.start k
  pre_d : ∀ k, st.start < k → k ≤ e → ∀ j, st.start < j → j < k →
      sumRange scores st.start j - bst < sumRange scores st.start k
  cur_nonneg : 0 ≤ st.curScore
  cur_good : ∀ r, st.cur = some r →
      Good scores bst r ∧ r.stop ≤ e ∧ (r.start = st.start ∨ r.score < ms)
  res_good : ∀ r ∈ st.res,
      Good scores bst r ∧ ms ≤ r.score ∧ Closed scores bst r ∧ r.stop < st.start
  res_pw : st.res.Pairwise (fun r1 r2 => r1.stop < r2.start)

theorem inv_init (scores : List Int) (ms bst : Int) : Inv scores ms bst 0 {} := by
  constructor <;> simp [sumRange_self, ScanSt.curScore]
  all_goals (intros; omega)

theorem scanStep_break {ms bst : Int} {st : ScanSt} {e : Nat} {s : Int}
    (h : st.ext + s ≤ max 0 (st.curScore - bst)) :
    scanStep ms bst st e s = { (st.flush ms) with start := e + 1, ext := 0 } := by
  simp [scanStep, h]

theorem scanStep_accept {ms bst : Int} {st : ScanSt} {e : Nat} {s : Int}
    (h : ¬ st.ext + s ≤ max 0 (st.curScore - bst)) (h2 : st.ext + s > st.curScore) :
    scanStep ms bst st e s =
      { st with ext := st.ext + s, cur := some ⟨st.start, e + 1, st.ext + s⟩ } := by
  simp [scanStep, h, h2]

theorem scanStep_plain {ms bst : Int} {st : ScanSt} {e : Nat} {s : Int}
    (h : ¬ st.ext + s ≤ max 0 (st.curScore - bst)) (h2 : ¬ st.ext + s > st.curScore) :
    scanStep ms bst st e s = { st with ext := st.ext + s } := by
  simp [scanStep, h, h2]


theorem inv_ext_le {scores : List Int} {ms bst : Int} {e : Nat} {st : ScanSt}
    (inv : Inv scores ms bst e st) : st.ext ≤ st.curScore := by
  by_cases h : st.start < e
  · rw [inv.ext_eq]; exact inv.pre_le e h (Nat.le_refl _)
  · have : st.start = e := by have := inv.start_le; omega
    rw [inv.ext_eq, this, sumRange_self]; exact inv.cur_nonneg

/-- what `flush` does to a state satisfying the invariant; `H` says that the current segment
    cannot be extended beyond `e` (vacuous at the end of the list, the break condition at a break) -/
theorem flush_ok {scores : List Int} {ms bst : Int} {e : Nat} {st : ScanSt}
    (inv : Inv scores ms bst e st)
    (H : ∀ m, e < m → m ≤ scores.length → st.curScore < sumRange scores st.start m →
      e + 1 < m ∧ sumRange scores st.start (e + 1) ≤ max 0 (st.curScore - bst)) :
    (∀ r ∈ (st.flush ms).res,
        Good scores bst r ∧ ms ≤ r.score ∧ Closed scores bst r ∧ r.stop < e + 1) ∧
    (st.flush ms).res.Pairwise (fun r1 r2 => r1.stop < r2.start) ∧
    (∀ r, (st.flush ms).cur = some r → Good scores bst r ∧ r.stop ≤ e ∧ r.score < ms) ∧
    0 ≤ (st.flush ms).curScore := by
  have hres : ∀ r ∈ st.res,
      Good scores bst r ∧ ms ≤ r.score ∧ Closed scores bst r ∧ r.stop < e + 1 := by
    intro r hr
    obtain ⟨g, m, c, l⟩ := inv.res_good r hr
    have := inv.start_le
    exact ⟨g, m, c, by omega⟩
  cases hc : st.cur with
  | none =>
    have hf : st.flush ms = st := by simp [ScanSt.flush, hc]
    rw [hf]
    refine ⟨hres, inv.res_pw, ?_, inv.cur_nonneg⟩
    intro r hr; rw [hc] at hr; cases hr
  | some r =>
    obtain ⟨g, hstop, hlive⟩ := inv.cur_good r hc
    have hcs : st.curScore = r.score := by simp [ScanSt.curScore, hc]
    by_cases hm : r.score ≥ ms
    · have hf : st.flush ms = { st with res := st.res ++ [r], cur := none } := by
        simp [ScanSt.flush, hc, hm]
      rw [hf]
      have hst : r.start = st.start := by omega
      refine ⟨?_, ?_, ?_, ?_⟩
      · intro r' hr'
        simp only [List.mem_append, List.mem_singleton] at hr'
        rcases hr' with hr' | rfl
        · exact hres r' hr'
        · refine ⟨g, hm, ?_, by omega⟩
          intro m hm1 hm2 hm3
          rw [hst] at hm3 ⊢
          rw [← hcs] at hm3 ⊢
          by_cases hme : m ≤ e
          · have := inv.pre_le m (by have := g.lt; omega) hme
            omega
          · obtain ⟨h1, h2⟩ := H m (by omega) hm2 hm3
            exact ⟨e + 1, by omega, h1, h2⟩
      · simp only [List.pairwise_append]
        refine ⟨inv.res_pw, by simp, ?_⟩
        intro a ha b hb'
        simp only [List.mem_singleton] at hb'
        subst hb'
        have := (inv.res_good a ha).2.2.2
        omega
      · intro r' hr'; cases hr'
      · simp [ScanSt.curScore]
    · have hf : st.flush ms = st := by simp [ScanSt.flush, hc, hm]
      rw [hf]
      refine ⟨hres, inv.res_pw, ?_, inv.cur_nonneg⟩
      intro r' hr'
      rw [hc] at hr'
      cases hr'
      exact ⟨g, hstop, by omega⟩


theorem sumRange_single (s : List Int) (a : Nat) (h : a < s.length) :
    sumRange s a (a + 1) = s.getD a 0 := by
  have hx : s[a]? = some s[a] := List.getElem?_eq_getElem h
  rw [sumRange_succ s a a _ (Nat.le_refl _) hx, sumRange_self, getD_of_getElem? s a _ hx]
  omega

/-- the invariant is preserved by one loop iteration -/
theorem inv_step {scores : List Int} {ms bst : Int} {e : Nat} {st : ScanSt} {s : Int}
    (hb : 0 ≤ bst) (inv : Inv scores ms bst e st) (hs : scores[e]? = some s) :
    Inv scores ms bst (e + 1) (scanStep ms bst st e s) := by
  have hlen : e < scores.length := lt_length_of_getElem? scores e s hs
  have hstart := inv.start_le
  have hext : sumRange scores st.start (e + 1) = st.ext + s := by
    rw [sumRange_succ scores st.start e s hstart hs, inv.ext_eq]
  have hextle := inv_ext_le inv
  have hc0 := inv.cur_nonneg
  by_cases h : st.ext + s ≤ max 0 (st.curScore - bst)
  · -- break
    rw [scanStep_break h]
    have H : ∀ m, e < m → m ≤ scores.length → st.curScore < sumRange scores st.start m →
        e + 1 < m ∧ sumRange scores st.start (e + 1) ≤ max 0 (st.curScore - bst) := by
      intro m hm1 _ hm3
      rw [hext]
      refine ⟨?_, h⟩
      by_cases hm : m = e + 1
      · subst hm; rw [hext] at hm3; omega
      · omega
    obtain ⟨f1, f2, f3, f4⟩ := flush_ok (ms := ms) inv H
    constructor
    · show e + 1 ≤ e + 1; omega
    · show (0 : Int) = sumRange scores (e + 1) (e + 1); rw [sumRange_self]
    · intro k hk1 hk2; change e + 1 < k at hk1; omega
    · intro k hk1 hk2; change e + 1 < k at hk1; omega
    · intro k hk1 hk2; change e + 1 < k at hk1; omega
    · exact f4
    · intro r hr
      obtain ⟨g, h1, h2⟩ := f3 r hr
      exact ⟨g, by omega, Or.inr h2⟩
    · exact f1
    · exact f2
  · have P1 : ∀ k, st.start < k → k ≤ e + 1 → 0 < sumRange scores st.start k := by
      intro k hk1 hk2
      by_cases hk : k = e + 1
      · subst hk; rw [hext]; omega
      · exact inv.pre_pos k hk1 (by omega)
    have P2 : ∀ k, st.start < k → k ≤ e + 1 → ∀ j, st.start < j → j < k →
        sumRange scores st.start j - bst < sumRange scores st.start k := by
      intro k hk1 hk2 j hj1 hj2
      by_cases hk : k = e + 1
      · subst hk; rw [hext]
        have := inv.pre_le j hj1 (by omega)
        omega
      · exact inv.pre_d k hk1 (by omega) j hj1 hj2
    by_cases h2 : st.ext + s > st.curScore
    · -- accept
      rw [scanStep_accept h h2]
      constructor
      · show st.start ≤ e + 1; omega
      · show st.ext + s = sumRange scores st.start (e + 1); rw [hext]
      · intro k hk1 hk2
        change st.start < k at hk1
        show sumRange scores st.start k ≤ st.ext + s
        by_cases hk : k = e + 1
        · subst hk; rw [hext]; omega
        · have := inv.pre_le k hk1 (by omega); omega
      · exact P1
      · exact P2
      · show 0 ≤ st.ext + s; omega
      · intro r hr
        have hr' : r = ⟨st.start, e + 1, st.ext + s⟩ := by
          have : some (Rng.mk st.start (e + 1) (st.ext + s)) = some r := hr
          exact (Option.some.inj this).symm
        subst hr'
        refine ⟨?_, Nat.le_refl _, Or.inl rfl⟩
        constructor
        · show st.start < e + 1; omega
        · show e + 1 ≤ scores.length; omega
        · show 0 < scores.getD st.start 0
          rw [← sumRange_single scores st.start (by omega)]
          exact P1 _ (by omega) (by omega)
        · show 0 < scores.getD (e + 1 - 1) 0
          rw [Nat.add_sub_cancel, getD_of_getElem? scores e s hs]; omega
        · show st.ext + s = sumRange scores st.start (e + 1); rw [hext]
        · show 0 < st.ext + s; omega
        · intro k hk1 hk2
          exact ⟨P1 k hk1 hk2, P2 k hk1 hk2⟩
        · intro k hk1 hk2
          change st.start < k at hk1
          change k < e + 1 at hk2
          show sumRange scores st.start k < st.ext + s
          have := inv.pre_le k hk1 (by omega); omega
      · exact inv.res_good
      · exact inv.res_pw
    · -- plain extension
      rw [scanStep_plain h h2]
      constructor
      · show st.start ≤ e + 1; omega
      · show st.ext + s = sumRange scores st.start (e + 1); rw [hext]
      · intro k hk1 hk2
        change st.start < k at hk1
        show sumRange scores st.start k ≤ st.curScore
        by_cases hk : k = e + 1
        · subst hk; rw [hext]; omega
        · exact inv.pre_le k hk1 (by omega)
      · exact P1
      · exact P2
      · exact inv.cur_nonneg
      · intro r hr
        obtain ⟨g, h1, h3⟩ := inv.cur_good r hr
        exact ⟨g, by omega, h3⟩
      · exact inv.res_good
      · exact inv.res_pw

/-- the invariant lifted over the whole loop -/
theorem inv_scanFrom {scores : List Int} {ms bst : Int} (hb : 0 ≤ bst) :
    ∀ (rest : List Int) (e : Nat) (st : ScanSt), Inv scores ms bst e st →
      e ≤ scores.length → scores.drop e = rest →
      Inv scores ms bst scores.length (scanFrom ms bst st e rest) := by
  intro rest
  induction rest with
  | nil =>
    intro e st inv hle hd
    have h1 : scores.length ≤ e := List.drop_eq_nil_iff.mp hd
    have h2 : e = scores.length := by omega
    subst h2
    exact inv
  | cons s ss ih =>
    intro e st inv hle hd
    have hs : scores[e]? = some s := by
      have := List.getElem?_drop (xs := scores) (i := e) (j := 0)
      rw [hd] at this
      simpa using this.symm
    have hlt := lt_length_of_getElem? scores e s hs
    have hd' : scores.drop (e + 1) = ss := by
      rw [List.drop_add_one_eq_tail_drop, hd]; rfl
    exact ih (e + 1) _ (inv_step hb inv hs) hlt hd'

/-- everything we know about the final result -/
theorem scan_all (ms bst : Int) (scores : List Int) (hb : 0 ≤ bst) :
    (∀ r ∈ scanRanges ms bst scores,
        Good scores bst r ∧ ms ≤ r.score ∧ Closed scores bst r) ∧
    (scanRanges ms bst scores).Pairwise (fun r1 r2 => r1.stop < r2.start) := by
  have inv := inv_scanFrom (ms := ms) hb scores 0 {} (inv_init scores ms bst)
    (Nat.zero_le _) rfl
  have H : ∀ m, scores.length < m → m ≤ scores.length →
      (scanFrom ms bst {} 0 scores).curScore <
        sumRange scores (scanFrom ms bst {} 0 scores).start m →
      scores.length + 1 < m ∧
        sumRange scores (scanFrom ms bst {} 0 scores).start (scores.length + 1) ≤
          max 0 ((scanFrom ms bst {} 0 scores).curScore - bst) := by
    intro m h1 h2; omega
  obtain ⟨f1, f2, _, _⟩ := flush_ok (ms := ms) inv H
  refine ⟨?_, f2⟩
  intro r hr
  obtain ⟨g, h1, h2, _⟩ := f1 r hr
  exact ⟨g, h1, h2⟩

end Coma.Proofs.Scan
