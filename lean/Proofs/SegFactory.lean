import Props.Defs
namespace Coma.Proofs
open Coma Coma.Spec

theorem scan_ordered_separated (ms bst : Int) (scores : List Int) (hms : 0 < ms) (hb : 0 ≤ bst) :
    (∀ r ∈ scanRanges ms bst scores, r.start < r.stop ∧ r.stop ≤ scores.length) ∧
    (scanRanges ms bst scores).Pairwise (fun r1 r2 => r1.stop < r2.start) := by
  sorry

theorem scan_ends_positive (ms bst : Int) (scores : List Int) (hms : 0 < ms) (hb : 0 ≤ bst) :
    ∀ r ∈ scanRanges ms bst scores,
      0 < scores.getD r.start 0 ∧ 0 < scores.getD (r.stop - 1) 0 := by
  sorry

theorem scan_score (ms bst : Int) (scores : List Int) (hms : 0 < ms) (hb : 0 ≤ bst) :
    ∀ r ∈ scanRanges ms bst scores, r.score = sumRange scores r.start r.stop ∧ ms ≤ r.score := by
  sorry

theorem scan_prefix (ms bst : Int) (scores : List Int) (hms : 0 < ms) (hb : 0 ≤ bst) :
    ∀ r ∈ scanRanges ms bst scores, ∀ k, r.start < k → k ≤ r.stop →
      0 < sumRange scores r.start k ∧
      ∀ j, r.start < j → j < k → sumRange scores r.start j - bst < sumRange scores r.start k := by
  sorry

theorem scan_first_max (ms bst : Int) (scores : List Int) (hms : 0 < ms) (hb : 0 ≤ bst) :
    ∀ r ∈ scanRanges ms bst scores, ∀ k, r.start < k → k < r.stop →
      sumRange scores r.start k < r.score := by
  sorry

theorem scan_not_extendable (ms bst : Int) (scores : List Int) (hms : 0 < ms) (hb : 0 ≤ bst) :
    ∀ r ∈ scanRanges ms bst scores, ∀ m, r.stop < m → m ≤ scores.length →
      r.score < sumRange scores r.start m →
      ∃ k, r.stop < k ∧ k < m ∧ sumRange scores r.start k ≤ max 0 (r.score - bst) := by
  sorry

theorem getSegments_spec (P : Params) (peak : Int) (xs : List APos) :
    (scanRanges P.minScore P.bst (xs.map (APos.score P)) = [] →
        getSegments P peak xs = [⟨peak, []⟩]) ∧
    (scanRanges P.minScore P.bst (xs.map (APos.score P)) ≠ [] →
        getSegments P peak xs =
          (scanRanges P.minScore P.bst (xs.map (APos.score P))).map
            (fun r => ⟨peak, (xs.drop r.start).take (r.stop - r.start)⟩)) := by
  sorry

theorem getSegments_score (P : Params) (peak : Int) (xs : List APos) (hms : 0 < P.minScore) (hb : 0 ≤ P.bst) :
    ∀ r ∈ scanRanges P.minScore P.bst (xs.map (APos.score P)),
      (⟨peak, (xs.drop r.start).take (r.stop - r.start)⟩ : Seg).score P = r.score := by
  sorry

end Coma.Proofs
