import Props.Defs
import Proofs.ScanInv
set_option linter.unusedVariables false  -- `hms` is part of the fixed statements but not needed by most proofs
namespace Coma.Proofs
open Coma Coma.Spec Coma.Proofs.Scan

theorem scan_ordered_separated (ms bst : Int) (scores : List Int) (hms : 0 < ms) (hb : 0 ≤ bst) :
    (∀ r ∈ scanRanges ms bst scores, r.start < r.stop ∧ r.stop ≤ scores.length) ∧
    (scanRanges ms bst scores).Pairwise (fun r1 r2 => r1.stop < r2.start) := by
  obtain ⟨h1, h2⟩ := scan_all ms bst scores hb
  exact ⟨fun r hr => ⟨(h1 r hr).1.lt, (h1 r hr).1.le⟩, h2⟩

theorem scan_ends_positive (ms bst : Int) (scores : List Int) (hms : 0 < ms) (hb : 0 ≤ bst) :
    ∀ r ∈ scanRanges ms bst scores,
      0 < scores.getD r.start 0 ∧ 0 < scores.getD (r.stop - 1) 0 := by
  intro r hr
  have g := ((scan_all ms bst scores hb).1 r hr).1
  exact ⟨g.pos_start, g.pos_end⟩

theorem scan_score (ms bst : Int) (scores : List Int) (hms : 0 < ms) (hb : 0 ≤ bst) :
    ∀ r ∈ scanRanges ms bst scores, r.score = sumRange scores r.start r.stop ∧ ms ≤ r.score := by
  intro r hr
  have g := (scan_all ms bst scores hb).1 r hr
  exact ⟨g.1.score_eq, g.2.1⟩

theorem scan_prefix (ms bst : Int) (scores : List Int) (hms : 0 < ms) (hb : 0 ≤ bst) :
    ∀ r ∈ scanRanges ms bst scores, ∀ k, r.start < k → k ≤ r.stop →
      0 < sumRange scores r.start k ∧
      ∀ j, r.start < j → j < k → sumRange scores r.start j - bst < sumRange scores r.start k := by
  intro r hr
  exact ((scan_all ms bst scores hb).1 r hr).1.pre

theorem scan_first_max (ms bst : Int) (scores : List Int) (hms : 0 < ms) (hb : 0 ≤ bst) :
    ∀ r ∈ scanRanges ms bst scores, ∀ k, r.start < k → k < r.stop →
      sumRange scores r.start k < r.score := by
  intro r hr
  exact ((scan_all ms bst scores hb).1 r hr).1.first

theorem scan_not_extendable (ms bst : Int) (scores : List Int) (hms : 0 < ms) (hb : 0 ≤ bst) :
    ∀ r ∈ scanRanges ms bst scores, ∀ m, r.stop < m → m ≤ scores.length →
      r.score < sumRange scores r.start m →
      ∃ k, r.stop < k ∧ k < m ∧ sumRange scores r.start k ≤ max 0 (r.score - bst) := by
  intro r hr
  exact ((scan_all ms bst scores hb).1 r hr).2.2

theorem getSegments_spec (P : Params) (peak : Int) (xs : List APos) :
    (scanRanges P.minScore P.bst (xs.map (APos.score P)) = [] →
        getSegments P peak xs = [⟨peak, []⟩]) ∧
    (scanRanges P.minScore P.bst (xs.map (APos.score P)) ≠ [] →
        getSegments P peak xs =
          (scanRanges P.minScore P.bst (xs.map (APos.score P))).map
            (fun r => ⟨peak, (xs.drop r.start).take (r.stop - r.start)⟩)) := by
  unfold getSegments
  constructor
  · intro h; rw [h]
  · intro h
    split
    · contradiction
    · rfl

theorem sumScores_eq_sumInts (P : Params) (l : List APos) :
    sumScores P l = sumInts (l.map (APos.score P)) := by
  induction l with
  | nil => rfl
  | cons a as ih => simp [sumScores, sumInts, ih]

theorem getSegments_score (P : Params) (peak : Int) (xs : List APos) (hms : 0 < P.minScore) (hb : 0 ≤ P.bst) :
    ∀ r ∈ scanRanges P.minScore P.bst (xs.map (APos.score P)),
      (⟨peak, (xs.drop r.start).take (r.stop - r.start)⟩ : Seg).score P = r.score := by
  intro r hr
  rw [(scan_score P.minScore P.bst _ hms hb r hr).1]
  simp only [Seg.score, sumScores_eq_sumInts, sumRange, List.map_take, List.map_drop]

end Coma.Proofs
