/-
  Proofs/CopySeed_Vec.lean — the blurred vectors of `sequenceOf 100 4` at label level (helper for Proofs/CopySeed.lean):
  bit `y` is set iff a label whose bin lies inside the vector is at most 4 bins away; exact length when no label
  lies beyond the stop; positions as an indexed family.
-/
import Coma.Peaks
import Proofs.Vector
import Proofs.Peaks_Refine
namespace Coma.Proofs.CopySeed
open Coma Coma.Spec Coma.Proofs Coma.Proofs.Vector

/-! ### lists as indexed families -/

theorem mem_iff_getD (l : List Int) (p : Int) : p ∈ l ↔ ∃ m, m < l.length ∧ p = l.getD m 0 := by
  constructor
  · intro h
    obtain ⟨m, hm, rfl⟩ := List.mem_iff_getElem.mp h
    exact ⟨m, hm, by simp [List.getD_eq_getElem?_getD, List.getElem?_eq_getElem hm]⟩
  · rintro ⟨m, hm, rfl⟩
    simp only [List.getD_eq_getElem?_getD, List.getElem?_eq_getElem hm, Option.getD_some]
    exact List.getElem_mem hm

theorem pairwise_getD (l : List Int) (R : Int → Int → Prop) (h : l.Pairwise R) (m m' : Nat)
    (h1 : m < m') (h2 : m' < l.length) : R (l.getD m 0) (l.getD m' 0) := by
  have := List.pairwise_iff_getElem.mp h m m' (by omega) h2 h1
  simpa [List.getD_eq_getElem?_getD, List.getElem?_eq_getElem h2,
    List.getElem?_eq_getElem (show m < l.length by omega)] using this

theorem mem_le_last : ∀ (ps : List Int) (l : Int), Ascending ps → ps.getLast? = some l →
    ∀ p ∈ ps, p ≤ l := by
  intro ps
  induction ps with
  | nil => intro l _ _ p hp; simp at hp
  | cons a as ih =>
    intro l hs hl p hp
    cases as with
    | nil =>
      simp at hl hp
      omega
    | cons b bs =>
      rw [List.getLast?_cons_cons] at hl
      have hs' := List.pairwise_cons.mp hs
      rcases List.mem_cons.mp hp with rfl | hp
      · have h1 := hs'.1 l (List.mem_of_getLast? hl)
        exact h1
      · exact ih l hs'.2 hl p hp

/-- exact length of the raw vector when no label lies beyond the stop (copied from `SeqMirror_Lemmas`) -/
theorem vecGo_length (res stop : Int) (hres : 1 ≤ res) :
    ∀ (ps : List Int) (ws l : Int), Ascending ps → (∀ p ∈ ps, p ≤ stop) → ps.getLast? = some l →
      (vecGo res stop ws ps).length = if l < ws then 0 else ((l - ws) / res).toNat + 1 := by
  intro ps
  induction ps with
  | nil => intro ws l _ _ h; simp at h
  | cons p ps ih =>
    intro ws l hs hst hl
    have hs' : Ascending ps := (List.pairwise_cons.mp hs).2
    have hst' : ∀ q ∈ ps, q ≤ stop := fun q hq => hst q (List.mem_cons_of_mem _ hq)
    have hpl : p ≤ l := mem_le_last _ l hs hl p List.mem_cons_self
    by_cases hp : p < ws
    · rw [vecGo_lt _ _ _ _ _ hp]
      cases ps with
      | nil =>
        simp at hl
        subst hl
        simp [vecGo, hp]
      | cons q qs =>
        rw [List.getLast?_cons_cons] at hl
        exact ih ws l hs' hst' hl
    · obtain ⟨k, hk, hcase⟩ := vecGo_ge res stop ws p ps hres (by omega)
      have hps := hst p List.mem_cons_self
      rcases hcase with ⟨hpk, heq⟩ | ⟨hstop, _⟩
      · rw [heq, if_neg (by omega)]
        cases ps with
        | nil =>
          simp at hl
          subst hl
          have := bin_ediv ws res p k hres hk (by rw [succ_mul']; omega)
          simp [vecGo, this]
        | cons q qs =>
          rw [List.getLast?_cons_cons] at hl
          have := ih (ws + k * res + res) l hs' hst' hl
          simp only [List.length_append, List.length_replicate, List.length_cons, this]
          by_cases hlw : l < ws + k * res + res
          · rw [if_pos hlw]
            have := bin_ediv ws res l k hres (by omega) (by rw [succ_mul']; omega)
            omega
          · rw [if_neg hlw]
            have h := Int.add_mul_ediv_right (l - (ws + k * res + res)) (k + 1) (c := res) (by omega)
            have e : l - (ws + k * res + res) + (k + 1) * res = l - ws := by
              rw [succ_mul']; omega
            rw [e] at h
            have h0 : 0 ≤ (l - (ws + k * res + res)) / res := Int.ediv_nonneg (by omega) (by omega)
            omega
      · omega

/-! ### `sequenceOf 100 4` -/

/-- the bin of a position in a window starting at `start`, 100 bp bins -/
def binOf (start p : Int) : Nat := ((p - start) / 100).toNat

theorem seq_spec (ps : List Int) (start : Int) (stop? : Option Int) (v : List Nat)
    (hs : Ascending ps) (h : sequenceOf 100 4 ps start stop? = .ok v) :
    v.length = (vecGo 100 (stopEff' ps stop?) start ps).length ∧
    (∀ p ∈ ps, start ≤ p → p ≤ stopEff' ps stop? → binOf start p < v.length) ∧
    ∀ y, y < v.length → (v.getD y 0 = 1 ∨ v.getD y 0 = 0) ∧
      (v.getD y 0 = 1 ↔ ∃ p ∈ ps, start ≤ p ∧ binOf start p < v.length ∧
          y ≤ binOf start p + 4 ∧ binOf start p ≤ y + 4) := by
  obtain ⟨v0, h1, h2⟩ := (Peaks.sequenceOf_ok _ _ _ _ _ _).mp h
  have hbits := vectorise_bits ps 100 start stop? v0 hs h1
  have hlost := vectorise_no_label_lost ps 100 start stop? v0 hs h1
  obtain ⟨_, hv0⟩ := vectorise_eq ps 100 start stop? v0 h1
  obtain ⟨hlen, hb⟩ := blur_spec v0 v 4 h2
  refine ⟨by rw [hlen, hv0], ?_, ?_⟩
  · intro p hp hp1 hp2
    rw [hlen]
    exact hlost p hp hp1 hp2
  · intro y hy
    rw [hlen] at hy
    obtain ⟨hb1, hb2⟩ := hb y hy
    refine ⟨hb1, hb2.trans ?_⟩
    constructor
    · rintro ⟨j, hj, hne, hj1, hj2⟩
      obtain ⟨hj01, hjiff⟩ := hbits j hj
      have hone : v0.getD j 0 = 1 := by omega
      obtain ⟨p, hp, hp1, hp2⟩ := hjiff.mp hone
      have hbin : binOf start p = j := by unfold binOf; omega
      refine ⟨p, hp, by omega, ?_, ?_, ?_⟩
      · rw [hbin, hlen]; exact hj
      · rw [hbin]; omega
      · rw [hbin]; omega
    · rintro ⟨p, hp, hp0, hp1, hp2, hp3⟩
      rw [hlen] at hp1
      obtain ⟨_, hjiff⟩ := hbits (binOf start p) hp1
      have hone : v0.getD (binOf start p) 0 = 1 := by
        apply hjiff.mpr
        refine ⟨p, hp, ?_, ?_⟩ <;> (unfold binOf; omega)
      exact ⟨binOf start p, hp1, by omega, by omega, by omega⟩

theorem getD_ge (v : List Nat) (y : Nat) (h : v.length ≤ y) : v.getD y 0 = 0 := by
  simp [List.getD_eq_getElem?_getD, List.getElem?_eq_none h]

end Coma.Proofs.CopySeed
