import Props.Defs
import Proofs.Cigar
import Proofs.Exact_Engine
namespace Coma.Proofs.Exact
open Coma Coma.Spec Coma.Proofs

/-- the true pairs of a copy: reference sites `a, a+1, …`, query sites `b, b+st, …`, reference
    coordinates `ws`, query coordinates relative to `w0` -/
def mk (w0 δ it st : Int) : Int → Int → List Int → List Pr
  | _, _, [] => []
  | a, b, w :: ws => ⟨⟨a, w⟩, ⟨b, w - w0⟩, δ, it⟩ :: mk w0 δ it st (a + 1) (b + st) ws

theorem mk_length (w0 δ it st : Int) (ws : List Int) : ∀ a b, (mk w0 δ it st a b ws).length = ws.length := by
  induction ws with
  | nil => intro a b; rfl
  | cons w ws ih => intro a b; simp [mk, ih]

theorem mk_r (w0 δ it st : Int) (ws : List Int) : ∀ a b,
    (mk w0 δ it st a b ws).map (·.r) = labelsFwd a ws := by
  induction ws with
  | nil => intro a b; rfl
  | cons w ws ih => intro a b; simp [mk, labelsFwd, ih]

theorem mk_q_fwd (w0 δ it : Int) (ws : List Int) : ∀ a b,
    (mk w0 δ it 1 a b ws).map (·.q) = labelsFwd b (ws.map (· - w0)) := by
  induction ws with
  | nil => intro a b; rfl
  | cons w ws ih => intro a b; simp [mk, labelsFwd, ih]

theorem mk_q_rev (w0 δ it e : Int) (ws : List Int) : ∀ a b,
    (mk w0 δ it (-1) a b ws).map (·.q) = labelsRev b e ((ws.map (· - w0)).map (e - ·)) := by
  induction ws with
  | nil => intro a b; rfl
  | cons w ws ih =>
    intro a b
    simp only [mk, labelsRev, List.map_cons, ih]
    congr 2
    · omega

theorem mk_mem (w0 δ it st : Int) (ws : List Int) : ∀ a b, ∀ p ∈ mk w0 δ it st a b ws,
    p.shift = δ ∧ p.src = it ∧ p.q.pos = p.r.pos - w0 ∧ p.r.pos ∈ ws ∧ a ≤ p.r.site ∧
      (st = 1 → b ≤ p.q.site) ∧ (st = -1 → p.q.site ≤ b) := by
  induction ws with
  | nil => intro a b p hp; cases hp
  | cons w ws ih =>
    intro a b p hp
    simp only [mk, List.mem_cons] at hp
    rcases hp with rfl | hp
    · simp
    · obtain ⟨h1, h2, h3, h4, h5, h6, h7⟩ := ih _ _ p hp
      refine ⟨h1, h2, h3, List.mem_cons_of_mem _ h4, by omega, ?_, ?_⟩
      · intro h; have := h6 h; omega
      · intro h; have := h7 h; omega

theorem mk_valid (w0 δ it : Int) (rev : Bool) (ws : List Int) : ∀ a b,
    ValidMatching rev (sitePairs (mk w0 δ it (if rev then -1 else 1) a b ws)) := by
  unfold ValidMatching sitePairs
  induction ws with
  | nil => intro a b; simp [mk]
  | cons w ws ih =>
    intro a b
    simp only [mk, List.map_cons, List.pairwise_cons]
    refine ⟨?_, ih _ _⟩
    intro x hx
    obtain ⟨p, hp, rfl⟩ := List.mem_map.1 hx
    obtain ⟨_, _, _, _, h5, h6, h7⟩ := mk_mem _ _ _ _ _ _ _ p hp
    cases rev <;> simp at h6 h7 ⊢ <;> omega

theorem mk_gap (w0 δ it st : Int) (ws : List Int) (h : ws.Pairwise (fun a b => a + 2000 ≤ b)) : ∀ a b,
    (mk w0 δ it st a b ws).Pairwise (fun x y => x.r.pos + 2000 ≤ y.r.pos) := by
  induction ws with
  | nil => intro a b; simp [mk]
  | cons w ws ih =>
    intro a b
    rw [List.pairwise_cons] at h
    simp only [mk, List.pairwise_cons]
    refine ⟨?_, ih h.2 _ _⟩
    intro p hp
    exact h.1 _ (mk_mem _ _ _ _ _ _ _ p hp).2.2.2.1

theorem mk_good (s w0 it : Int) (rev : Bool) (ws : List Int) (h : ws.Pairwise (fun a b => a + 2000 ≤ b))
    (a b : Int) : Good s w0 it (mk w0 (s - w0) it (if rev then -1 else 1) a b ws) := by
  have hv := Cigar.valid_pairwise (mk_valid w0 (s - w0) it rev ws a b)
  refine ⟨?_, mk_gap _ _ _ _ ws h a b, hv.imp (fun h => h.1), hv.imp ?_⟩
  · intro p hp
    obtain ⟨h1, h2, h3, _⟩ := mk_mem _ _ _ _ _ _ _ p hp
    exact ⟨h1, h2, h3⟩
  · intro x y hxy
    have := hxy.2
    cases rev <;> simp at this <;> omega

theorem mk_sitePairs (w0 δ it st : Int) (ws : List Int) : ∀ a b,
    sitePairs (mk w0 δ it st a b ws) =
      (List.range ws.length).map (fun (j : Nat) => (a + (j : Int), b + st * (j : Int))) := by
  induction ws with
  | nil => intro a b; rfl
  | cons w ws ih =>
    intro a b
    have ih' := ih (a + 1) (b + st)
    unfold sitePairs at ih' ⊢
    simp only [mk, List.map_cons, List.length_cons, List.range_succ_eq_map, List.map_map, ih']
    refine congr (congrArg _ (by simp)) ?_
    apply List.map_congr_left
    intro j _
    simp only [Function.comp, Nat.succ_eq_add_one]
    push_cast
    rw [Int.mul_add]
    simp
    omega

theorem mk_walkOut (w0 δ it st : Int) (hst : st.natAbs = 1) (ws : List Int) : ∀ a b,
    Cigar.walkOut a (b - st) (mk w0 δ it st a b ws) = List.replicate ws.length Hit.M := by
  induction ws with
  | nil => intro a b; rfl
  | cons w ws ih =>
    intro a b
    have e : b + st - st = b := by omega
    have h1 : (b - (b - st)).natAbs - 1 = 0 := by omega
    have h2 : (a - a).toNat = 0 := by omega
    simp only [mk, Cigar.walkOut, h1, h2, List.replicate_zero, List.nil_append, List.length_cons,
      List.replicate_succ]
    rw [← ih (a + 1) (b + st), e]

theorem mk_hitEnums (w0 δ it : Int) (rev : Bool) (ws : List Int) (hne : ws ≠ []) (a b : Int) :
    hitEnums (mk w0 δ it (if rev then -1 else 1) a b ws) = .ok (List.replicate ws.length Hit.M) := by
  cases ws with
  | nil => exact absurd rfl hne
  | cons w ws =>
    have hv := mk_valid w0 δ it rev (w :: ws) a b
    simp only [mk] at hv ⊢
    rw [Cigar.hitEnums_eq rev _ _ hv]
    simp only
    have hst : (if rev then (-1 : Int) else 1).natAbs = 1 := by cases rev <;> rfl
    have := mk_walkOut w0 δ it _ hst ws (a + 1) (b + (if rev then (-1 : Int) else 1))
    have e : b + (if rev then (-1 : Int) else 1) - (if rev then (-1 : Int) else 1) = b := by omega
    rw [e] at this
    rw [this]
    simp [List.replicate_succ]

/-! ### the copy query and the search window -/

theorem lastD_mem (d : Int) (l : List Int) (h : l ≠ []) : lastD d l ∈ l := by
  induction l with
  | nil => exact absurd rfl h
  | cons x xs ih =>
    cases xs with
    | nil => simp [lastD]
    | cons y ys =>
      have := ih (by simp)
      simp only [lastD]
      exact List.mem_cons_of_mem _ this

theorem le_lastD (d : Int) (l : List Int) (h : l.Pairwise (· ≤ ·)) : ∀ x ∈ l, x ≤ lastD d l := by
  induction l with
  | nil => intro x hx; cases hx
  | cons a as ih =>
    rw [List.pairwise_cons] at h
    cases as with
    | nil => intro x hx; simp at hx; simp [lastD, hx]
    | cons y ys =>
      intro x hx
      have hm := lastD_mem d (y :: ys) (by simp)
      simp only [lastD]
      rcases List.mem_cons.1 hx with rfl | hx
      · exact h.1 _ hm
      · exact ih h.2 x hx

theorem labelsFwd_append (A B : List Int) : ∀ i : Int,
    labelsFwd i (A ++ B) = labelsFwd i A ++ labelsFwd (i + A.length) B := by
  induction A with
  | nil => intro i; simp [labelsFwd]
  | cons a as ih =>
    intro i
    simp only [List.cons_append, labelsFwd, ih, List.length_cons]
    congr 3
    push_cast
    omega

theorem pos_mem_of_mem_labelsFwd {i : Int} {l : List Int} {x : Lbl} (h : x ∈ labelsFwd i l) :
    x.pos ∈ l := by
  have := List.mem_map_of_mem (f := Lbl.pos) h
  rwa [labelsFwd_pos] at this

/-- query labels of the copy on its own strand: sites ascending (`+`) or descending (`-`),
    coordinates relative to the first window label -/
theorem copyQuery_labels (qid w0 δ it a : Int) (t : List Int) (rev : Bool) :
    (copyQuery qid (w0 :: t) rev).labels rev =
      (mk w0 δ it (if rev then -1 else 1) a (if rev then ((t.length + 1 : Nat) : Int) else 1) (w0 :: t)).map (·.q) := by
  cases rev with
  | false =>
    simp only [Bool.false_eq_true, if_false]
    rw [mk_q_fwd]
    simp [copyQuery, OMap.labels]
  | true =>
    simp only [if_true]
    rw [mk_q_rev w0 δ it (lastD 0 ((w0 :: t).map (· - w0)))]
    simp only [copyQuery, OMap.labels, if_true, List.headD_cons, List.reverse_reverse, List.length_reverse,
      List.length_map, List.length_cons]
    congr 1
    omega

end Coma.Proofs.Exact
