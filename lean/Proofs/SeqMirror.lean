/-
  Proofs/SeqMirror.lean — C11 for the correlation inputs: on a coordinate lattice commensurate
  with the resolution, the bit vector of the mirror image of a (trimmed) molecule is the reversed
  bit vector of the molecule, blurring commutes with reversal, and therefore the secondary stage
  (`refine`) returns the same seeds for a molecule on one strand and its mirror image on the other.
-/
import Coma.Peaks
import Proofs.Vector
import Proofs.Mirror
import Proofs.SeqMirror_Lemmas
namespace Coma.Proofs
open Coma Coma.Spec

/-- blurring commutes with reversal -/
theorem blur_reverse (v : List Nat) (radius : Int) :
    blur v.reverse radius = (blur v radius).map List.reverse := by
  by_cases hr : radius < 0
  · simp [blur, hr, Except.map]
  · have e1 : ∃ w, blur v radius = .ok w := by simp [blur, hr]
    have e2 : ∃ w, blur v.reverse radius = .ok w := by simp [blur, hr]
    obtain ⟨w, hw⟩ := e1
    obtain ⟨w', hw'⟩ := e2
    rw [hw, hw']
    show Except.ok w' = Except.ok w.reverse
    congr 1
    obtain ⟨hlen, hb⟩ := blur_spec v w radius hw
    obtain ⟨hlen', hb'⟩ := blur_spec v.reverse w' radius hw'
    rw [List.length_reverse] at hlen' hb'
    apply SeqMirror.ext_getD
    · rw [List.length_reverse, hlen, hlen']
    · intro i hi
      rw [hlen'] at hi
      rw [SeqMirror.getD_reverse w i (by omega), hlen]
      obtain ⟨b1, i1⟩ := hb' i hi
      obtain ⟨b2, i2⟩ := hb (v.length - 1 - i) (by omega)
      apply SeqMirror.bit_eq _ _ b1 b2
      rw [i1, i2]
      constructor
      · rintro ⟨j, hj, hv, h1, h2⟩
        rw [SeqMirror.getD_reverse v j hj] at hv
        exact ⟨v.length - 1 - j, by omega, hv, by omega, by omega⟩
      · rintro ⟨j, hj, hv, h1, h2⟩
        refine ⟨v.length - 1 - j, by omega, ?_, by omega, by omega⟩
        rw [SeqMirror.getD_reverse v _ (by omega)]
        have : v.length - 1 - (v.length - 1 - j) = j := by omega
        rwa [this]

/-- on a lattice commensurate with the resolution the vector of the mirror image is the reversed vector -/
theorem vectorise_mirror (m : OMap) (res : Int) (ht : Trimmed m) (hres : 1 ≤ res)
    (hl : ∀ p ∈ m.positions, res ∣ p) :
    vectorise m.mirror.positions res 0 none = (vectorise m.positions res 0 none).map List.reverse := by
  have ht' := (mirror_trimmed m ht).1
  -- the last label
  obtain ⟨_, h2, h3, h4⟩ := ht
  rw [Mirror.lastD_eq] at h3
  have hne : m.positions ≠ [] := by
    intro h; rw [h] at h2; cases h2
  obtain ⟨L, hlast⟩ : ∃ L, m.positions.getLast? = some L := by
    cases hlast : m.positions.getLast? with
    | none => exact absurd (List.getLast?_eq_none_iff.mp hlast) hne
    | some l => exact ⟨l, rfl⟩
  rw [hlast] at h3
  simp only [Option.getD_some] at h3
  have hLmem : L ∈ m.positions := List.mem_of_getLast? hlast
  have hL0 : 0 ≤ L := SeqMirror.mem_le_last _ L h4 hlast 0 (List.mem_of_head? h2)
  have hLd : res ∣ L := hl L hLmem
  have hmem' : ∀ x, x ∈ m.mirror.positions ↔ L - x ∈ m.positions := by
    intro x
    simp only [OMap.mirror, List.mem_reverse, List.mem_map]
    constructor
    · rintro ⟨p, hp, rfl⟩
      have : L - (m.length - 1 - p) = p := by omega
      rwa [this]
    · intro h
      exact ⟨L - x, h, by omega⟩
  have hl' : ∀ p ∈ m.mirror.positions, res ∣ p := by
    intro p hp
    have h := hl _ ((hmem' p).mp hp)
    have := Int.dvd_sub hLd h
    have e : L - (L - p) = p := by omega
    rwa [e] at this
  obtain ⟨v, hv, hlen, hbits⟩ := SeqMirror.trimmed_vec m res ⟨‹_›, h2, by rw [Mirror.lastD_eq, hlast]; exact h3, h4⟩ hres hl
  obtain ⟨v', hv', hlen', hbits'⟩ := SeqMirror.trimmed_vec m.mirror res ht' hres hl'
  rw [hv, hv']
  show Except.ok v' = Except.ok v.reverse
  congr 1
  have hml : m.mirror.length = m.length := rfl
  rw [hml] at hlen'
  have hLN : (((m.length - 1) / res).toNat : Int) * res = L := by
    have e : m.length - 1 = L := by omega
    rw [e]
    have h0 : 0 ≤ L / res := Int.ediv_nonneg hL0 (by omega)
    rw [Int.toNat_of_nonneg h0]
    exact Int.ediv_mul_cancel hLd
  apply SeqMirror.ext_getD
  · rw [List.length_reverse, hlen, hlen']
  · intro i hi
    rw [SeqMirror.getD_reverse v i (by omega)]
    obtain ⟨b1, i1⟩ := hbits' i hi
    obtain ⟨b2, i2⟩ := hbits (v.length - 1 - i) (by omega)
    apply SeqMirror.bit_eq _ _ b1 b2
    rw [i1, i2, hmem']
    have e : ((v.length - 1 - i : Nat) : Int) * res = L - (i : Int) * res := by
      have : ((v.length - 1 - i : Nat) : Int) = (((m.length - 1) / res).toNat : Int) - i := by omega
      rw [this, Int.sub_mul, hLN]
    rw [e]

theorem sequenceOf_mirror (m : OMap) (res blurR : Int) (ht : Trimmed m) (hres : 1 ≤ res)
    (hl : ∀ p ∈ m.positions, res ∣ p) :
    sequenceOf res blurR m.mirror.positions 0 none = (sequenceOf res blurR m.positions 0 none).map List.reverse := by
  unfold sequenceOf
  rw [vectorise_mirror m res ht hres hl]
  cases vectorise m.positions res 0 none with
  | error e => rfl
  | ok v => exact blur_reverse v blurR

/-- the correlation input of the mirror image read on the other strand is the same array -/
theorem querySequence_mirror (c : SecCfg) (q : OMap) (rev : Bool) (ht : Trimmed q) (hres : 1 ≤ c.res)
    (hl : ∀ p ∈ q.positions, c.res ∣ p) :
    querySequence c q.mirror (!rev) = querySequence c q rev := by
  unfold querySequence
  rw [sequenceOf_mirror q c.res c.blur ht hres hl]
  cases sequenceOf c.res c.blur q.positions 0 none with
  | error e => rfl
  | ok s =>
    cases rev
    · show Except.ok (if (!false) = true then s.reverse.reverse else s.reverse) = Except.ok (if false = true then s.reverse else s)
      simp
    · show Except.ok (if (!true) = true then s.reverse.reverse else s.reverse) = Except.ok (if true = true then s.reverse else s)
      simp

/-- hence the secondary stage yields the same seeds -/
theorem refine_mirror (c : SecCfg) (ref q : OMap) (rev : Bool) (peak : Int) (ht : Trimmed q) (hres : 1 ≤ c.res)
    (hl : ∀ p ∈ q.positions, c.res ∣ p) :
    refine c ref q.mirror (!rev) peak = refine c ref q rev peak := by
  have hml : q.mirror.length = q.length := rfl
  unfold refine refineCorrelation
  rw [querySequence_mirror c q rev ht hres hl, hml]

end Coma.Proofs
