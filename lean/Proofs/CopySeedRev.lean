/-
  Proofs/CopySeedRev.lean — the reverse-strand counterpart of `secondary_seed_near_copy`: the molecule is the MIRROR
  IMAGE of an exact copy of n ≥ 13 consecutive reference labels and is refined on the '-' strand (`rev = true`, the
  vector of the molecule is reversed before the correlation).  Off the lattice the reversed vector of the mirror image
  is not the vector of the copy: every label's bin may move by one.  The seed is still within 200 bp.
-/
import Proofs.CopySeed
import Proofs.Mirror
import Proofs.CopySeedRev_Peak
import Proofs.CopySeedRev_Setup
namespace Coma.Proofs
open Coma

/-- MAIN THEOREM (reverse strand).  `q0` is the exact copy (hypotheses as on the forward strand), trimmed; the molecule
    given to COMA is its mirror image `q0.mirror`, refined with `rev = true`. -/
theorem secondary_seed_near_copy_rev (c : SecCfg) (ref q0 : OMap) (peak : Int) (i n : Nat)
    (H : CopyInWindow c ref q0 peak i n) (hlen : q0.length = lastD 0 q0.positions + 1) :
    ∃ corr, refineCorrelation c ref q0.mirror true peak = .ok corr ∧
      ∃ p h, (p, h) ∈ findPeaksSecondary c.thr (corr.map Int.ofNat) ∧
        toBp (p : Int) 100 (peak - c.margin) - ref.positions.getD i 0 ≤ 200 ∧
        ref.positions.getD i 0 - toBp (p : Int) 100 (peak - c.margin) ≤ 200 := by
  obtain ⟨hres, hblur, hthr, hmany, hgaps, _, hinside, hcopy, hstart, hnext, hstopnz⟩ := H
  have hRne : ref.positions ≠ [] := by
    intro h; rw [h] at hinside; simp at hinside
  have hQlen : q0.positions.length = n := by
    rw [hcopy]; exact CopySeed.copy_length _ i n (by omega)
  have hQne : q0.positions ≠ [] := by
    intro h; rw [h] at hQlen; simp at hQlen; omega
  have hMpos : q0.mirror.positions = (q0.positions.map (fun p => q0.length - 1 - p)).reverse := rfl
  have hMlen : q0.mirror.length = q0.length := rfl
  have hMne : q0.mirror.positions ≠ [] := by
    rw [hMpos]; simpa using hQne
  obtain ⟨qf, hqf⟩ := Peaks.sequenceOf_exists 100 4 q0.positions 0 none (by omega) (by omega) hQne
  obtain ⟨mv, hmv⟩ := Peaks.sequenceOf_exists 100 4 q0.mirror.positions 0 none (by omega) (by omega) hMne
  obtain ⟨rv, hrv⟩ := Peaks.sequenceOf_exists 100 4 ref.positions (peak - c.margin)
    (some (peak + q0.length + c.margin)) (by omega) (by omega) hRne
  have G := CopySeed.geo_of ref.positions q0.positions i n (peak - c.margin) (peak + q0.length + c.margin) qf rv
    (by omega) hgaps hinside hcopy (by omega) hnext hstopnz hqf hrv
  have R := CopySeed.revq_of ref.positions q0.positions i n q0.length mv (by omega) hgaps hinside hcopy hlen
    (by rw [← hMpos]; exact hmv)
  generalize hqvdef : mv.reverse = qv at R
  have hqlen : qv.length = qf.length := by rw [R.qlen, G.qlen]
  have hkl := CopySeed.klen G
  rw [← hqlen] at hkl
  have hk0 : 5 ≤ CopySeed.rb (fun m => ref.positions.getD m 0) (peak - c.margin) i :=
    (CopySeed.geo_label G 0 (by omega)).2.2.1
  have hql : 21 ≤ qv.length := (CopySeed.geo_label_rev G R 0 (by omega)).2.2.2.1
  have hqs : querySequence c q0.mirror true = .ok qv :=
    (Peaks.querySequence_ok c q0.mirror true qv).mpr ⟨mv, by rw [hres, hblur]; exact hmv, by simp [hqvdef]⟩
  have hrne : rv ≠ [] := by
    intro h; rw [h] at hkl; simp at hkl
  have hqne : qv ≠ [] := by
    intro h; rw [h] at hql; simp at hql
  have hcorr : correlate rv qv = .ok (corrValid rv qv) := by
    unfold correlate
    rw [if_neg (by simp [hrne, hqne]), if_pos (by omega)]
  refine ⟨corrValid rv qv, (Peaks.refineCorrelation_ok c ref q0.mirror true peak _).mpr
    ⟨qv, rv, hqs, by rw [hres, hblur, hMlen]; exact hrv, hcorr⟩, ?_⟩
  generalize hk0def : CopySeed.rb (fun m => ref.positions.getD m 0) (peak - c.margin) i = k0 at *
  have g0 := corrValid_get rv qv (k0 - 2) (by omega)
  have g1 := corrValid_get rv qv (k0 - 1) (by omega)
  have g2 := corrValid_get rv qv k0 (by omega)
  have g3 := corrValid_get rv qv (k0 + 1) (by omega)
  have g4 := corrValid_get rv qv (k0 + 2) (by omega)
  have e : ∀ (k d : Nat), (corrValid rv qv)[k]? = some d →
      ((corrValid rv qv).map Int.ofNat)[k]? = some ((d : Nat) : Int) := by
    intro k d h; rw [List.getElem?_map, h]; rfl
  have c1 := CopySeed.corr5_I G R
  have c2 := CopySeed.corr5_II G R
  have c3 := CopySeed.corr5_III G R
  have c4 := CopySeed.corr5_IV R
  rw [hk0def] at c1 c2 c3
  obtain ⟨p, h, hmem, hp⟩ := CopySeed.peak_of_five c.thr ((corrValid rv qv).map Int.ofNat) k0 _ _ _ _ _
    ((n : Int) - 1) (by omega) (e _ _ g0) (e _ _ g1) (e _ _ g2) (e _ _ g3) (e _ _ g4) (by omega) (by omega) (by omega)
    (by
      refine Rat.le_trans hthr ?_
      have h27 : ((27 : Int) : Rat) ≤ ((dot (List.drop k0 rv) qv : Nat) : Int) :=
        Rat.intCast_le_intCast.mpr (by omega)
      simpa using h27)
    (by
      obtain ⟨_, _, hin⟩ := maxInit0_spec ((corrValid rv qv).map Int.ofNat)
      rcases hin with h | h
      · rw [h]; omega
      · obtain ⟨y, hy, hyeq⟩ := List.mem_map.mp h
        have := Peaks.correlate_le rv qv _ (Peaks.sequenceOf_bits _ _ _ _ _ rv hrv) hcorr y hy
        rw [← hyeq]
        show (y : Int) ≤ _
        omega)
  refine ⟨p, h, hmem, ?_⟩
  subst hk0def
  rcases hp with rfl | rfl | rfl
  · simp only [CopySeed.rb, toBp]
    omega
  · simp only [CopySeed.rb, toBp]
    omega
  · simp only [CopySeed.rb, toBp]
    omega

end Coma.Proofs
