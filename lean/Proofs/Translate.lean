/-
  Proofs/Translate.lean — the aligner does not depend on the MAGNITUDE of the reference coordinates.

  Moving a reference `d` bp down its chromosome (every label, and the seed peaks with it) moves every segment of the
  candidate alignment by `d` and changes nothing else: the same labels are paired, with the same recorded offsets and
  scores, the same segments are chained and the conflicts are resolved in the same way.  (A tolerance that grows with
  the coordinate — `np.isclose` with its default relative tolerance, float32 coordinates — breaks exactly this.)

  Helper lemmas: Proofs/Translate_Engine.lean (pairing), _Factory (scoring, cutting), _Chain, _Conflict (one resolver
  step), _Resolve (the pass, generic), _Struct / _Scan / _Order / _Segments (segments as the factory cuts them), _Row.

  CORRECTION.  `resolveConflicts_shift` as first stated (for ARBITRARY segments, no hypothesis) is FALSE: when the right
  segment of a resolver step is empty, `endOverlapsWithStartOf` and `slice` compare the reference labels of the left
  segment with the null pair `⟨0,0⟩`, i.e. they read the SIGN of a reference coordinate and "is this label number 0 at
  coordinate 0" — both change under a translation.  Kernel-checked refutations: `resolveConflicts_shift_false`
  (d = −10 makes a coordinate negative) and `resolveConflicts_shift_false'` (d = +10 moves label number 0 off
  coordinate 0).  Provable forms:
    * `resolveConflicts_shift_of`      — the null comparison reads the same before and after (hypothesis on the labels),
      with the corollary `resolveConflicts_shift_nonneg` (coordinates ≥ 0 before and after, label numbers ≥ 1);
    * `resolveConflicts_shift_factory` — NO condition on coordinates, for segments as the factory cuts them (they end
      on a pair that dominates their pairs and every non-empty suffix has a positive score): in front of an empty
      segment such a segment is returned unchanged whatever the null comparison says.  `segmentsOfPeaks_factory` shows
      that every segment of `segmentsOfPeaks` is of that kind, for every parameter set and every input.
  `segmentsOfPeaks_shift` and `alignerAlign_shift` hold exactly as first stated.
-/
import Proofs.SeedingGlue
import Proofs.Translate_Row
namespace Coma.Proofs
open Coma Coma.Spec

def shiftLbl (d : Int) (l : Lbl) : Lbl := { l with pos := l.pos + d }
def shiftPr (d : Int) (p : Pr) : Pr := { p with r := shiftLbl d p.r }
def shiftAPos (d : Int) : APos → APos
  | .pair p   => .pair (shiftPr d p)
  | .uref r   => .uref (shiftLbl d r)
  | .uqry q s => .uqry q (s + d)
def shiftSeg (d : Int) (s : Seg) : Seg := { peak := s.peak + d, items := s.items.map (shiftAPos d) }
/-- the same reference `d` bp further down (its length grows with it) -/
def shiftRef (d : Int) (r : OMap) : OMap := { r with positions := r.positions.map (· + d), length := r.length + d }

/-! the helper files use their own copies of the five definitions -/
theorem shiftLbl_eq : shiftLbl = Translate.tLbl := rfl
theorem shiftPr_eq : shiftPr = Translate.tPr := rfl
theorem shiftAPos_eq : shiftAPos = Translate.tAPos := by
  funext d a; cases a <;> rfl
theorem shiftSeg_eq : shiftSeg = Translate.tSeg := by
  funext d s; simp only [shiftSeg, Translate.tSeg, shiftAPos_eq]
theorem shiftRef_eq : shiftRef = Translate.tRef := rfl

/-- pairing, scoring and cutting into segments commute with the translation -/
theorem segmentsOfPeaks_shift (P : Params) (ref qry : OMap) (rev : Bool) (it : Int) (peaks : List Int) (d : Int) :
    segmentsOfPeaks P (shiftRef d ref) qry rev it (peaks.map (· + d))
      = (segmentsOfPeaks P ref qry rev it peaks).map (List.map (shiftSeg d)) := by
  rw [shiftRef_eq, shiftSeg_eq]
  exact Translate.segmentsOfPeaks_t d P ref qry rev peaks it

/-! ### chaining and conflict resolution -/

/-- size of the first segment of a result (a decidable observation of `Except Err (List Seg)`) -/
def shiftFirstLen (e : Except Err (List Seg)) : Nat :=
  match e with
  | .ok (s :: _) => s.items.length
  | _ => 0

/-- the statement `resolveConflicts_shift` without hypothesis is false: a pair with a non-positive score (offset 2000,
    beyond the default penalty range) at reference coordinate 5, in front of an empty segment.  Untranslated, the null
    comparison says "no overlap" and the segment is kept; translated by −10 the coordinate is negative, the comparison
    says "overlap" and the `dropLeft` branch empties the segment. -/
theorem resolveConflicts_shift_false :
    ¬ ∀ (P : Params) (C : ChainCfg) (segs : List Seg) (d : Int),
      resolveConflicts P C (segs.map (shiftSeg d)) = (resolveConflicts P C segs).map (List.map (shiftSeg d)) := by
  intro h
  have := h defaultParams {} [⟨0, [.pair ⟨⟨1, 5⟩, ⟨1, 5⟩, 2000, 0⟩]⟩, ⟨0, []⟩] (-10)
  have := congrArg shiftFirstLen this
  revert this
  decide

/-- … and a translation DOWN the chromosome does not rescue it: reference label number 0 at coordinate 0 is equal to
    the null label before the translation and not after it -/
theorem resolveConflicts_shift_false' :
    ¬ ∀ (P : Params) (C : ChainCfg) (segs : List Seg) (d : Int), 0 ≤ d →
      resolveConflicts P C (segs.map (shiftSeg d)) = (resolveConflicts P C segs).map (List.map (shiftSeg d)) := by
  intro h
  have := h defaultParams {} [⟨0, [.pair ⟨⟨0, 0⟩, ⟨1, 5⟩, 2000, 0⟩]⟩, ⟨0, []⟩] 10 (by decide)
  have := congrArg shiftFirstLen this
  revert this
  decide

/-- corrected statement 1: chaining and conflict resolution commute with the translation when the comparison of every
    reference label with the null label `⟨0,0⟩` reads the same before and after -/
theorem resolveConflicts_shift_of (P : Params) (C : ChainCfg) (segs : List Seg) (d : Int)
    (hz : ∀ s ∈ segs, ∀ a ∈ s.items, ∀ r, refLabel? a = some r →
      (r.pos + d < 0 ↔ r.pos < 0) ∧ (r.site = 0 → (r.pos + d = 0 ↔ r.pos = 0))) :
    resolveConflicts P C (segs.map (shiftSeg d)) = (resolveConflicts P C segs).map (List.map (shiftSeg d)) := by
  rw [shiftSeg_eq]
  apply Translate.resolveConflicts_t_null d P C segs
  intro s hs a ha
  cases a with
  | pair p => exact hz s hs _ ha p.r rfl
  | uref r => exact hz s hs _ ha r rfl
  | uqry q t => trivial

/-- … in particular when the reference coordinates are non-negative before and after and the labels are numbered
    from 1 (as `OMap.labels` numbers the labels of a reference with `shift = 0`) -/
theorem resolveConflicts_shift_nonneg (P : Params) (C : ChainCfg) (segs : List Seg) (d : Int)
    (hz : ∀ s ∈ segs, ∀ a ∈ s.items, ∀ r, refLabel? a = some r → 0 ≤ r.pos ∧ 0 ≤ r.pos + d ∧ 1 ≤ r.site) :
    resolveConflicts P C (segs.map (shiftSeg d)) = (resolveConflicts P C segs).map (List.map (shiftSeg d)) := by
  apply resolveConflicts_shift_of
  intro s hs a ha r hr
  obtain ⟨h1, h2, h3⟩ := hz s hs a ha r hr
  exact ⟨by omega, by omega⟩

/-- corrected statement 2: no condition on the coordinates, for segments as the factory cuts them -/
theorem resolveConflicts_shift_factory (P : Params) (C : ChainCfg) (segs : List Seg) (d : Int)
    (hz : ∀ s ∈ segs, Translate.QL P s ∧ Translate.QR s) :
    resolveConflicts P C (segs.map (shiftSeg d)) = (resolveConflicts P C segs).map (List.map (shiftSeg d)) := by
  rw [shiftSeg_eq]
  exact Translate.resolveConflicts_t_struct d P C segs hz

/-- every segment of `segmentsOfPeaks` is of that kind (every parameter set, every input) -/
theorem segmentsOfPeaks_factory (P : Params) (ref qry : OMap) (rev : Bool) (it : Int) (peaks : List Int)
    (segs : List Seg) (h : segmentsOfPeaks P ref qry rev it peaks = .ok segs) :
    ∀ s ∈ segs, Translate.QL P s ∧ Translate.QR s :=
  Translate.segmentsOfPeaks_Q P ref qry rev peaks it segs h

/-- the candidate alignment of the translated reference is the translated candidate alignment: same label numbers,
    same recorded offsets, same confidence -/
theorem alignerAlign_shift (P : Params) (C : ChainCfg) (ref qry : OMap) (peaks : List Int) (rev : Bool) (it : Int) (d : Int) :
    (alignerAlign P C (shiftRef d ref) qry (peaks.map (· + d)) rev it).map (fun r => (r.segments, r.confidence, r.qStart, r.qEnd))
      = (alignerAlign P C ref qry peaks rev it).map (fun r => (r.segments.map (shiftSeg d), r.confidence, r.qStart, r.qEnd)) := by
  rw [shiftRef_eq, shiftSeg_eq]
  exact Translate.alignerAlign_t d P C ref qry peaks rev it

end Coma.Proofs
