import Props.Defs
/-
  Proofs/Cigar.lean — proofs for C03 (HitEnum walk / run-length aggregation / replay).
  Helper lemmas live in `Coma.Proofs.Cigar`; the five theorems used by Props/C03.lean live in
  `Coma.Proofs`.
-/
namespace Coma.Proofs.Cigar
open Coma Coma.Spec

/-! ### run-length aggregation -/

theorem expand_aggregateFrom (prev : Hit) (n : Nat) (hs : List Hit) :
    expandRuns (aggregateFrom prev n hs) = List.replicate n prev ++ hs := by
  induction hs generalizing prev n with
  | nil => simp [aggregateFrom, expandRuns]
  | cons h hs ih =>
    simp only [aggregateFrom]
    split
    · subst_vars; rw [ih]; simp [List.replicate_succ', List.append_assoc]
    · simp [expandRuns, ih]

theorem aggregateFrom_head (prev : Hit) (n : Nat) (hs : List Hit) :
    ∃ m tl, aggregateFrom prev n hs = (m, prev) :: tl := by
  induction hs generalizing n with
  | nil => exact ⟨n, [], rfl⟩
  | cons h hs ih =>
    simp only [aggregateFrom]
    split
    · exact ih _
    · exact ⟨n, _, rfl⟩

theorem aggregateFrom_pos (prev : Hit) (n : Nat) (hn : 0 < n) (hs : List Hit) :
    ∀ r ∈ aggregateFrom prev n hs, 0 < r.1 := by
  induction hs generalizing prev n with
  | nil => simp [aggregateFrom]; exact hn
  | cons h hs ih =>
    simp only [aggregateFrom]
    split
    · exact ih _ _ (by omega)
    · intro r hr
      rcases List.mem_cons.1 hr with rfl | hr
      · exact hn
      · exact ih _ _ (by omega) r hr

theorem aggregateFrom_consec (prev : Hit) (n : Nat) (hs : List Hit) :
    Consec (fun (a b : Nat × Hit) => a.2 ≠ b.2) (aggregateFrom prev n hs) := by
  induction hs generalizing prev n with
  | nil => simp [aggregateFrom, Consec]
  | cons h hs ih =>
    simp only [aggregateFrom]
    split
    · exact ih _ _
    · rename_i hne
      obtain ⟨m, tl, e⟩ := aggregateFrom_head h 1 hs
      have := ih h 1
      rw [e] at this ⊢
      exact ⟨fun h' => hne h'.symm, this⟩

theorem aggregateFrom_getLast (prev : Hit) (n : Nat) (hs : List Hit) :
    (aggregateFrom prev n hs).getLast?.map (·.2) = (prev :: hs).getLast? := by
  induction hs generalizing prev n with
  | nil => simp [aggregateFrom]
  | cons h hs ih =>
    simp only [aggregateFrom]
    split
    · subst_vars; rw [ih]; simp [List.getLast?_cons_cons]
    · obtain ⟨m, tl, e⟩ := aggregateFrom_head h 1 hs
      have := ih h 1
      rw [e] at this ⊢
      rw [List.getLast?_cons_cons, this, List.getLast?_cons_cons]

/-! ### the reference-index walk -/

/-- successor state of the pair iterator -/
def nextCur : List Pr → Option Pr × List Pr
  | []      => (none, [])
  | n :: ns => (some n, ns)

/-- closed form of the walk's output -/
def walkOut : Int → Int → List Pr → List Hit
  | _, _, [] => []
  | refIdx, prevQ, c :: ps =>
    List.replicate ((c.q.site - prevQ).natAbs - 1) Hit.I ++
      (List.replicate (c.r.site - refIdx).toNat Hit.D ++ Hit.M :: walkOut (c.r.site + 1) c.q.site ps)

theorem hitWalk_past (fuel : Nat) (refIdx last : Int) (cur : Option Pr) (rest : List Pr) (prevQ : Int)
    (h : refIdx > last) : hitWalk fuel refIdx last cur rest prevQ = .ok [] := by
  cases fuel with
  | zero => rfl
  | succ f => simp [hitWalk, h]

theorem ins_eq (n : Nat) :
    (if n > 1 then List.replicate (n - 1) Hit.I else []) = List.replicate (n - 1) Hit.I := by
  split
  · rfl
  · have : n - 1 = 0 := by omega
    simp [this]

theorem ins_after (cq prevQ : Int) :
    List.replicate ((cq - (if (cq - prevQ).natAbs > 1 then cq else prevQ)).natAbs - 1) Hit.I = [] := by
  split
  · simp
  · have : (cq - prevQ).natAbs - 1 = 0 := by omega
    simp [this]

theorem hitWalk_step_M (fuel : Nat) (refIdx last : Int) (c : Pr) (ps : List Pr) (prevQ : Int)
    (h1 : refIdx ≤ last) (h2 : c.r.site = refIdx) :
    hitWalk (fuel + 1) refIdx last (some c) ps prevQ =
      (do let tl ← hitWalk fuel (refIdx + 1) last (nextCur ps).1 (nextCur ps).2 c.q.site
          return List.replicate ((c.q.site - prevQ).natAbs - 1) Hit.I ++ Hit.M :: tl) := by
  have hnl : ¬ (refIdx > last) := by omega
  simp only [hitWalk, hnl, h2, if_true, if_false, ins_eq]
  cases ps <;> simp [nextCur]

theorem hitWalk_step_D (fuel : Nat) (refIdx last : Int) (c : Pr) (ps : List Pr) (prevQ : Int)
    (h1 : refIdx ≤ last) (h2 : refIdx < c.r.site) :
    hitWalk (fuel + 1) refIdx last (some c) ps prevQ =
      (do let tl ← hitWalk fuel (refIdx + 1) last (some c) ps
                      (if (c.q.site - prevQ).natAbs > 1 then c.q.site else prevQ)
          return List.replicate ((c.q.site - prevQ).natAbs - 1) Hit.I ++ Hit.D :: tl) := by
  have hnl : ¬ (refIdx > last) := by omega
  have hne : ¬ (c.r.site = refIdx) := by omega
  have hgt : c.r.site > refIdx := by omega
  simp only [hitWalk, hnl, hne, hgt, if_true, if_false, ins_eq]

theorem walk_gap (c : Pr) (ps : List Pr) (last : Int) (hle : c.r.site ≤ last) (fuel : Nat) (k : Nat) :
    ∀ (refIdx prevQ : Int), c.r.site - refIdx = k →
      hitWalk (fuel + k + 1) refIdx last (some c) ps prevQ =
        (do let tl ← hitWalk fuel (c.r.site + 1) last (nextCur ps).1 (nextCur ps).2 c.q.site
            return List.replicate ((c.q.site - prevQ).natAbs - 1) Hit.I ++
              (List.replicate k Hit.D ++ Hit.M :: tl)) := by
  induction k with
  | zero =>
    intro refIdx prevQ hk
    have e : c.r.site = refIdx := by omega
    subst e
    rw [hitWalk_step_M _ _ _ _ _ _ hle rfl]
    simp
  | succ k ih =>
    intro refIdx prevQ hk
    have e : fuel + (k + 1) + 1 = (fuel + k + 1) + 1 := by omega
    rw [e, hitWalk_step_D _ _ _ _ _ _ (by omega) (by omega), ih (refIdx + 1) _ (by omega), ins_after]
    simp [List.replicate_succ]

theorem head_le_getLast (c : Pr) (ps : List Pr)
    (h : (c :: ps).Pairwise (fun a b => a.r.site < b.r.site)) :
    c.r.site ≤ ((c :: ps).getLast (by simp)).r.site := by
  have hm := List.getLast_mem (l := c :: ps) (by simp)
  rcases List.mem_cons.1 hm with e | hm
  · rw [e]; omega
  · have := (List.pairwise_cons.1 h).1 _ hm; omega

theorem walk_eq (ps : List Pr) : ∀ (c : Pr) (fuel : Nat) (refIdx prevQ last : Int),
    (c :: ps).Pairwise (fun a b => a.r.site < b.r.site) → refIdx ≤ c.r.site →
    last = ((c :: ps).getLast (by simp)).r.site →
    (last - refIdx + 1).toNat ≤ fuel →
    hitWalk fuel refIdx last (some c) ps prevQ = .ok (walkOut refIdx prevQ (c :: ps)) := by
  induction ps with
  | nil =>
    intro c fuel refIdx prevQ last hp hr hl hf
    simp only [List.getLast_singleton] at hl
    subst hl
    obtain ⟨k, hk⟩ : ∃ k : Nat, c.r.site - refIdx = k := ⟨(c.r.site - refIdx).toNat, by omega⟩
    obtain ⟨f', rfl⟩ : ∃ f', fuel = f' + k + 1 := ⟨fuel - k - 1, by omega⟩
    rw [walk_gap c [] _ (Int.le_refl _) f' k refIdx prevQ hk, hitWalk_past _ _ _ _ _ _ (by omega)]
    have : (c.r.site - refIdx).toNat = k := by omega
    simp only [walkOut, this]
    rfl
  | cons n ns ih =>
    intro c fuel refIdx prevQ last hp hr hl hf
    rw [List.getLast_cons_cons] at hl
    have hp' := (List.pairwise_cons.1 hp)
    have hcn : c.r.site < n.r.site := hp'.1 n (by simp)
    have hnl := head_le_getLast n ns hp'.2
    rw [← hl] at hnl
    obtain ⟨k, hk⟩ : ∃ k : Nat, c.r.site - refIdx = k := ⟨(c.r.site - refIdx).toNat, by omega⟩
    obtain ⟨f', rfl⟩ : ∃ f', fuel = f' + k + 1 := ⟨fuel - k - 1, by omega⟩
    rw [walk_gap c (n :: ns) _ (by omega) f' k refIdx prevQ hk]
    simp only [nextCur]
    rw [ih n f' (c.r.site + 1) c.q.site last hp'.2 (by omega) hl (by omega)]
    have : (c.r.site - refIdx).toNat = k := by omega
    simp only [walkOut, this]
    rfl

theorem valid_pairwise {rev : Bool} {l : List Pr} (hv : ValidMatching rev (sitePairs l)) :
    l.Pairwise (fun a b => a.r.site < b.r.site ∧
      (if rev then b.q.site < a.q.site else a.q.site < b.q.site)) := by
  unfold ValidMatching sitePairs at hv
  exact List.pairwise_map.1 hv

theorem valid_refAsc {rev : Bool} {l : List Pr} (hv : ValidMatching rev (sitePairs l)) :
    l.Pairwise (fun a b => a.r.site < b.r.site) :=
  (valid_pairwise hv).imp (fun h => h.1)

theorem dedup_id (rev : Bool) (l : List Pr) (hv : ValidMatching rev (sitePairs l)) :
    dedupQueryKeepLast l = l := by
  induction l with
  | nil => rfl
  | cons p t ih =>
    have hp := List.pairwise_cons.1 (valid_pairwise hv)
    have hvt : ValidMatching rev (sitePairs t) := by
      unfold ValidMatching sitePairs at hv ⊢
      exact (List.pairwise_cons.1 hv).2
    cases t with
    | nil => rfl
    | cons q rest =>
      have h := (hp.1 q (by simp)).2
      have hne : ¬ (p.q.site = q.q.site) := by
        cases rev <;> simp at h <;> omega
      simp only [dedupQueryKeepLast, hne, if_false, ih hvt]

theorem hitEnums_eq (rev : Bool) (p : Pr) (ps : List Pr)
    (hv : ValidMatching rev (sitePairs (p :: ps))) :
    hitEnums (p :: ps) = .ok (Hit.M :: walkOut (p.r.site + 1) p.q.site ps) := by
  unfold hitEnums
  rw [dedup_id rev _ hv]
  simp only
  rw [walk_eq ps p _ p.r.site p.q.site _ (valid_refAsc hv) (Int.le_refl _) rfl (Nat.le_refl _)]
  simp [walkOut]

theorem walkOut_getLast (c : Pr) (ps : List Pr) : ∀ (refIdx prevQ : Int),
    (walkOut refIdx prevQ (c :: ps)).getLast? = some Hit.M := by
  induction ps generalizing c with
  | nil => intro r q; simp [walkOut]
  | cons n ns ih =>
    intro r q
    have := ih n (c.r.site + 1) c.q.site
    rw [walkOut]
    generalize walkOut (c.r.site + 1) c.q.site (n :: ns) = w at this ⊢
    cases w with
    | nil => simp at this
    | cons a w => simp [List.getLast?_append, List.getLast?_cons_cons, this]

theorem replayHits_replicate_I (rev : Bool) (a : Nat) : ∀ (r q : Int) (tl : List Hit),
    replayHits rev r q (List.replicate a Hit.I ++ tl) =
      replayHits rev r (if rev then q - a else q + a) tl := by
  induction a with
  | zero => intro r q tl; cases rev <;> simp
  | succ a ih =>
    intro r q tl
    simp only [List.replicate_succ, List.cons_append, replayHits]
    rw [ih]
    cases rev <;> simp <;> congr 1 <;> omega

theorem replayHits_replicate_D (rev : Bool) (b : Nat) : ∀ (r q : Int) (tl : List Hit),
    replayHits rev r q (List.replicate b Hit.D ++ tl) = replayHits rev (r + b) q tl := by
  induction b with
  | zero => intro r q tl; simp
  | succ b ih =>
    intro r q tl
    simp only [List.replicate_succ, List.cons_append, replayHits]
    rw [ih]
    congr 1; omega

theorem replay_walkOut (rev : Bool) (ps : List Pr) : ∀ (c : Pr),
    ValidMatching rev (sitePairs (c :: ps)) →
    replayHits rev c.r.site c.q.site (walkOut (c.r.site + 1) c.q.site ps) = sitePairs ps := by
  induction ps with
  | nil => intro c _; simp [walkOut, replayHits, sitePairs]
  | cons n ns ih =>
    intro c hv
    have hp := List.pairwise_cons.1 (valid_pairwise hv)
    have hvt : ValidMatching rev (sitePairs (n :: ns)) := by
      unfold ValidMatching sitePairs at hv ⊢
      exact (List.pairwise_cons.1 hv).2
    have h := hp.1 n (by simp)
    rw [walkOut, replayHits_replicate_I, replayHits_replicate_D, replayHits]
    have e1 : c.r.site + ((n.r.site - (c.r.site + 1)).toNat : Int) + 1 = n.r.site := by omega
    have e2 : (if rev then (if rev then c.q.site - (((n.q.site - c.q.site).natAbs - 1 : Nat) : Int)
                else c.q.site + (((n.q.site - c.q.site).natAbs - 1 : Nat) : Int)) - 1
               else (if rev then c.q.site - (((n.q.site - c.q.site).natAbs - 1 : Nat) : Int)
                else c.q.site + (((n.q.site - c.q.site).natAbs - 1 : Nat) : Int)) + 1) = n.q.site := by
      have h2 := h.2
      cases rev <;> simp at h2 ⊢ <;> omega
    rw [e1, e2, ih n hvt]
    simp [sitePairs]

theorem renderRuns_ne_empty (n : Nat) (h : Hit) (tl : List (Nat × Hit)) :
    renderRuns ((n, h) :: tl) ≠ "" := by
  intro he
  simp only [renderRuns, List.map_cons, String.join_cons, String.append_eq_empty_iff] at he
  have : h.chr ≠ "" := by cases h <;> decide
  exact this he.1.2

end Coma.Proofs.Cigar

namespace Coma.Proofs
open Coma Coma.Spec Coma.Proofs.Cigar

theorem cigar_roundtrip (rev : Bool) (p : Pr) (ps : List Pr) (hv : ValidMatching rev (sitePairs (p :: ps))) :
    ∃ hs rs, hitEnums (p :: ps) = .ok hs ∧ aggregate hs = .ok rs ∧
      replay rev p.r.site p.q.site (expandRuns rs) = some (sitePairs (p :: ps)) := by
  refine ⟨_, _, hitEnums_eq rev p ps hv, rfl, ?_⟩
  rw [expand_aggregateFrom]
  simp only [List.replicate_one, List.singleton_append, replay]
  rw [replay_walkOut rev ps p hv]
  rfl

theorem expand_aggregate (hs : List Hit) (rs : List (Nat × Hit)) (h : aggregate hs = .ok rs) :
    expandRuns rs = hs := by
  cases hs with
  | nil => simp [aggregate] at h
  | cons a hs =>
    simp only [aggregate, Except.ok.injEq] at h
    subst h
    rw [expand_aggregateFrom]; rfl

theorem hits_start_end_M (rev : Bool) (p : Pr) (ps : List Pr) (hv : ValidMatching rev (sitePairs (p :: ps)))
    (hs : List Hit) (h : hitEnums (p :: ps) = .ok hs) :
    hs.head? = some Hit.M ∧ hs.getLast? = some Hit.M := by
  have e := hitEnums_eq rev p ps hv
  have e2 := walkOut_getLast p ps p.r.site p.q.site
  rw [h] at e
  injection e with e
  subst e
  refine ⟨rfl, ?_⟩
  simpa [walkOut] using e2

theorem aggregate_runs (hs : List Hit) (rs : List (Nat × Hit)) (h : aggregate hs = .ok rs) :
    rs ≠ [] ∧ (∀ r ∈ rs, 0 < r.1) ∧ Consec (fun a b => a.2 ≠ b.2) rs ∧
    (rs.head?.map (·.2) = hs.head?) ∧ (rs.getLast?.map (·.2) = hs.getLast?) := by
  cases hs with
  | nil => simp [aggregate] at h
  | cons a hs =>
    simp only [aggregate, Except.ok.injEq] at h
    subst h
    refine ⟨?_, aggregateFrom_pos a 1 (by omega) hs, aggregateFrom_consec a 1 hs, ?_, aggregateFrom_getLast a 1 hs⟩
    · obtain ⟨m, tl, e⟩ := aggregateFrom_head a 1 hs
      simp [e]
    · obtain ⟨m, tl, e⟩ := aggregateFrom_head a 1 hs
      simp [e]
theorem cigar_nonempty (rev : Bool) (p : Pr) (ps : List Pr) (hv : ValidMatching rev (sitePairs (p :: ps))) :
    ∃ s, cigarOf aggregate (p :: ps) = .ok s ∧ s ≠ "" := by
  obtain ⟨m, tl, e⟩ := aggregateFrom_head Hit.M 1 (walkOut (p.r.site + 1) p.q.site ps)
  refine ⟨renderRuns ((m, Hit.M) :: tl), ?_, renderRuns_ne_empty _ _ _⟩
  simp only [cigarOf, List.isEmpty_cons, Bool.false_eq_true, if_false, hitEnums_eq rev p ps hv,
    aggregate, ← e]
  rfl

end Coma.Proofs
