import Props.Defs
namespace Coma.Proofs
open Coma Coma.Spec

theorem cigar_roundtrip (rev : Bool) (p : Pr) (ps : List Pr) (hv : ValidMatching rev (sitePairs (p :: ps))) :
    ∃ hs rs, hitEnums (p :: ps) = .ok hs ∧ aggregate hs = .ok rs ∧
      replay rev p.r.site p.q.site (expandRuns rs) = some (sitePairs (p :: ps)) := by
  sorry

theorem expand_aggregate (hs : List Hit) (rs : List (Nat × Hit)) (h : aggregate hs = .ok rs) :
    expandRuns rs = hs := by
  sorry

theorem hits_start_end_M (rev : Bool) (p : Pr) (ps : List Pr) (hv : ValidMatching rev (sitePairs (p :: ps)))
    (hs : List Hit) (h : hitEnums (p :: ps) = .ok hs) :
    hs.head? = some Hit.M ∧ hs.getLast? = some Hit.M := by
  sorry

theorem aggregate_runs (hs : List Hit) (rs : List (Nat × Hit)) (h : aggregate hs = .ok rs) :
    rs ≠ [] ∧ (∀ r ∈ rs, 0 < r.1) ∧ Consec (fun a b => a.2 ≠ b.2) rs ∧
    (rs.head?.map (·.2) = hs.head?) ∧ (rs.getLast?.map (·.2) = hs.getLast?) := by
  sorry

theorem cigar_nonempty (rev : Bool) (p : Pr) (ps : List Pr) (hv : ValidMatching rev (sitePairs (p :: ps))) :
    ∃ s, cigarOf aggregate (p :: ps) = .ok s ∧ s ≠ "" := by
  sorry

end Coma.Proofs
