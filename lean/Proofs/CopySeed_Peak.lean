/-
  Proofs/CopySeed_Peak.lean — a `find_peaks` lemma on four consecutive samples (helper for Proofs/CopySeed.lean):
  when `x[k-1] + g ≤ x[k]` and `x[k+2] + g ≤ x[k+1]`, the higher of `x[k]`, `x[k+1]` is a local-maximum plateau of
  prominence at least `g`, so it is returned once it reaches the height threshold and `max x ≤ 20 g`.
-/
import Proofs.Peaks
namespace Coma.Proofs.CopySeed
open Coma Coma.Proofs

/-- a lower bound for the prominence from one sample on either side, all samples in between being `≤ v` -/
theorem prom_ge (x : List Int) (p : Nat) (v : Int) (hv : x[p]? = some v) (il ir : Nat) (yl yr : Int)
    (hil : il < p) (hir : p < ir) (hyl : x[il]? = some yl) (hyr : x[ir]? = some yr)
    (hleft : ∀ i y, il ≤ i → i < p → x[i]? = some y → y ≤ v)
    (hright : ∀ i y, p < i → i ≤ ir → x[i]? = some y → y ≤ v) :
    v - max yl yr ≤ prominence x p := by
  obtain ⟨lo, hi, hlo, hhi, hlen, _, hlo', hhi', lm, rm, _, hlm, _, hrm, hprom⟩ :=
    prominence_spec x p v hv
  have hirlen : ir < x.length := by
    rcases Nat.lt_or_ge ir x.length with h | h
    · exact h
    · rw [List.getElem?_eq_none h] at hyr; cases hyr
  have h1 : lo ≤ il := by
    rcases hlo' with h | ⟨y, hy, hvy⟩
    · omega
    · apply Classical.byContradiction
      intro hn
      have := hleft (lo - 1) y (by omega) (by omega) hy
      omega
  have h2 : ir ≤ hi := by
    rcases hhi' with h | ⟨y, hy, hvy⟩
    · omega
    · apply Classical.byContradiction
      intro hn
      have := hright (hi + 1) y (by omega) (by omega) hy
      omega
  have h3 := hlm il yl h1 (by omega) hyl
  have h4 := hrm ir yr (by omega) h2 hyr
  rw [hprom]
  omega

theorem peak_of_four (thr : Rat) (x : List Int) (k : Nat) (a1 v0 v1 a2 g : Int) (hk : 1 ≤ k)
    (h1 : x[k - 1]? = some a1) (h2 : x[k]? = some v0) (h3 : x[k + 1]? = some v1) (h4 : x[k + 2]? = some a2)
    (hl : a1 + g ≤ v0) (hr : a2 + g ≤ v1) (hg : 1 ≤ g) (hthr : thr ≤ (v0 : Rat))
    (hmax : maxInit0 x ≤ 20 * g) :
    ∃ p h, (p, h) ∈ findPeaksSecondary thr x ∧ (p = k ∨ p = k + 1) := by
  have hlen : k + 2 < x.length := by
    rcases Nat.lt_or_ge (k + 2) x.length with h | h
    · exact h
    · rw [List.getElem?_eq_none h] at h4; cases h4
  -- samples around
  have hsam : ∀ i y, k - 1 ≤ i → i ≤ k + 2 → x[i]? = some y →
      (i = k - 1 ∧ y = a1) ∨ (i = k ∧ y = v0) ∨ (i = k + 1 ∧ y = v1) ∨ (i = k + 2 ∧ y = a2) := by
    intro i y hi1 hi2 hy
    have : i = k - 1 ∨ i = k ∨ i = k + 1 ∨ i = k + 2 := by omega
    rcases this with rfl | rfl | rfl | rfl
    · rw [h1] at hy; cases hy; exact Or.inl ⟨rfl, rfl⟩
    · rw [h2] at hy; cases hy; exact Or.inr (Or.inl ⟨rfl, rfl⟩)
    · rw [h3] at hy; cases hy; exact Or.inr (Or.inr (Or.inl ⟨rfl, rfl⟩))
    · rw [h4] at hy; cases hy; exact Or.inr (Or.inr (Or.inr ⟨rfl, rfl⟩))
  rcases Int.lt_trichotomy v0 v1 with hlt | heq | hgt
  · -- plateau {k+1}
    refine ⟨k + 1, v1, ?_, Or.inr rfl⟩
    rw [findPeaksSecondary_iff]
    refine ⟨(localMaxima_iff x _).mpr ⟨k + 1, k + 1, ?_, by omega⟩, h3, ?_, ?_⟩
    · refine ⟨by omega, Nat.le_refl _, by omega, ?_, ⟨v0, v1, a2, ?_, h3, h4, hlt, by omega⟩⟩
      · intro i hi1 hi2
        have : i = k + 1 := by omega
        rw [this]
      · simpa using h2
    · exact Rat.le_trans hthr (Rat.intCast_le_intCast.mpr (by omega))
    · have := prom_ge x (k + 1) v1 h3 (k - 1) (k + 2) a1 a2 (by omega) (by omega) h1 h4
        (by
          intro i y hi1 hi2 hy
          rcases hsam i y hi1 (by omega) hy with ⟨_, rfl⟩ | ⟨_, rfl⟩ | ⟨hi, _⟩ | ⟨hi, _⟩ <;> omega)
        (by
          intro i y hi1 hi2 hy
          rcases hsam i y (by omega) hi2 hy with ⟨hi, _⟩ | ⟨hi, _⟩ | ⟨hi, _⟩ | ⟨_, rfl⟩ <;> omega)
      omega
  · -- plateau {k, k+1}
    subst heq
    refine ⟨k, v0, ?_, Or.inl rfl⟩
    rw [findPeaksSecondary_iff]
    refine ⟨(localMaxima_iff x _).mpr ⟨k, k + 1, ?_, by omega⟩, h2, hthr, ?_⟩
    · refine ⟨hk, by omega, by omega, ?_, ⟨a1, v0, a2, h1, h2, h4, by omega, by omega⟩⟩
      intro i hi1 hi2
      have : i = k ∨ i = k + 1 := by omega
      rcases this with rfl | rfl
      · rfl
      · rw [h3, h2]
    · have := prom_ge x k v0 h2 (k - 1) (k + 2) a1 a2 (by omega) (by omega) h1 h4
        (by
          intro i y hi1 hi2 hy
          rcases hsam i y hi1 (by omega) hy with ⟨_, rfl⟩ | ⟨hi, _⟩ | ⟨hi, _⟩ | ⟨hi, _⟩ <;> omega)
        (by
          intro i y hi1 hi2 hy
          rcases hsam i y (by omega) hi2 hy with ⟨hi, _⟩ | ⟨hi, _⟩ | ⟨_, rfl⟩ | ⟨_, rfl⟩ <;> omega)
      omega
  · -- plateau {k}
    refine ⟨k, v0, ?_, Or.inl rfl⟩
    rw [findPeaksSecondary_iff]
    refine ⟨(localMaxima_iff x _).mpr ⟨k, k, ?_, by omega⟩, h2, hthr, ?_⟩
    · refine ⟨hk, Nat.le_refl _, by omega, ?_, ⟨a1, v0, v1, h1, h2, h3, by omega, hgt⟩⟩
      intro i hi1 hi2
      have : i = k := by omega
      rw [this]
    · have := prom_ge x k v0 h2 (k - 1) (k + 2) a1 a2 (by omega) (by omega) h1 h4
        (by
          intro i y hi1 hi2 hy
          rcases hsam i y hi1 (by omega) hy with ⟨_, rfl⟩ | ⟨hi, _⟩ | ⟨hi, _⟩ | ⟨hi, _⟩ <;> omega)
        (by
          intro i y hi1 hi2 hy
          rcases hsam i y (by omega) hi2 hy with ⟨hi, _⟩ | ⟨hi, _⟩ | ⟨_, rfl⟩ | ⟨_, rfl⟩ <;> omega)
      omega

end Coma.Proofs.CopySeed
