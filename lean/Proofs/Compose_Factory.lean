import Props.Defs
import Proofs.SegFactory
import Proofs.Pairing
import Proofs.PairingOrder
namespace Coma.Proofs.Compose
open Coma Coma.Spec

/-! ### generic list facts -/

theorem nodup_filterMap_pairwise {α β} (f : α → Option β) :
    ∀ (l : List α), (l.filterMap f).Nodup →
      l.Pairwise (fun a b => ∀ x y, f a = some x → f b = some y → x ≠ y)
  | [], _ => List.Pairwise.nil
  | a :: t, h => by
    cases hfa : f a with
    | none =>
      rw [List.filterMap_cons_none hfa] at h
      refine List.pairwise_cons.2 ⟨?_, nodup_filterMap_pairwise f t h⟩
      intro b _ x y hx; rw [hfa] at hx; cases hx
    | some x0 =>
      rw [List.filterMap_cons_some hfa, List.nodup_cons] at h
      refine List.pairwise_cons.2 ⟨?_, nodup_filterMap_pairwise f t h.2⟩
      intro b hb x y hx hy
      rw [hfa] at hx
      cases hx
      intro e
      subst e
      exact h.1 (List.mem_filterMap.2 ⟨b, hb, hy⟩)

theorem pair?_eq_some {a : APos} {p : Pr} (h : a.pair? = some p) : a = .pair p := by
  cases a <;> simp [APos.pair?] at h
  subst h; rfl

theorem mem_pairsOf {xs : List APos} {p : Pr} : p ∈ pairsOf xs ↔ APos.pair p ∈ xs := by
  unfold pairsOf
  rw [List.mem_filterMap]
  constructor
  · rintro ⟨a, ha, h⟩; rw [← pair?_eq_some h]; exact ha
  · intro h; exact ⟨_, h, rfl⟩

/-! ### labels of a strictly ascending map -/

theorem labels_pos_strict (m : OMap) (rev : Bool) (h : StrictAscending m.positions) :
    ((m.labels rev).map Lbl.pos).Pairwise (· < ·) := by
  unfold OMap.labels
  split
  · rw [labelsRev_pos, List.pairwise_map, List.pairwise_reverse]
    exact h.imp (fun {a b} hab => by omega)
  · rw [labelsFwd_pos]; exact h

theorem labels_pos_inj (m : OMap) (rev : Bool) (h : StrictAscending m.positions) :
    ∀ a ∈ m.labels rev, ∀ b ∈ m.labels rev, a.pos = b.pos → a = b := by
  apply PO.inj_of_pairwise_ne (f := Lbl.pos)
  exact (List.pairwise_map.1 (labels_pos_strict m rev h)).imp (fun hab => Int.ne_of_lt hab)

theorem asc_of_strict {l : List Int} (h : StrictAscending l) : Ascending l :=
  List.Pairwise.imp (fun hab => Int.le_of_lt hab) h

/-! ### the position list of one peak -/

theorem peak_pair_labels (md : Int) (ref qry : OMap) (start stop : Int) (rev : Bool) (it : Int)
    (hq : StrictAscending qry.positions) (p : Pr)
    (hp : APos.pair p ∈ engineAlign md ref qry start stop rev it) :
    p.r ∈ ref.labels false ∧ p.q ∈ qry.labels rev := by
  obtain ⟨h1, h2, _⟩ := engine_within md ref qry start stop rev it (asc_of_strict hq) p hp
  exact ⟨(refWindow_sublist md ref start stop).subset h1, h2⟩

theorem engine_pyNodup (md : Int) (ref qry : OMap) (start stop : Int) (rev : Bool) (it : Int) :
    PyNodup (engineAlign md ref qry start stop rev it) := by
  have hR : ((engineAlign md ref qry start stop rev it).filterMap refLabel?).Nodup :=
    (engine_partition_ref md ref qry start stop rev it).nodup_iff.2
      (nodup_of_nodup_map Lbl.site (refWindow_site_nodup md ref start stop))
  have hQ : ((engineAlign md ref qry start stop rev it).filterMap qryLabel?).Nodup :=
    (engine_partition_qry md ref qry start stop rev it).nodup_iff.2
      (nodup_of_nodup_map Lbl.site (labels_site_nodup qry rev))
  have h := (nodup_filterMap_pairwise refLabel? _ hR).and (nodup_filterMap_pairwise qryLabel? _ hQ)
  refine h.imp ?_
  intro a b hab
  obtain ⟨h1, h2⟩ := hab
  cases a <;> cases b <;> simp only [APos.pyEq]
  · rename_i p p'
    have := h1 p.r p'.r rfl rfl
    simp [this]
  · rename_i r r'
    have := h1 r r' rfl rfl
    simp [this]
  · rename_i q s q' s'
    have := h2 q q' rfl rfl
    simp [this]

theorem engine_pairsAscending (md : Int) (ref qry : OMap) (start stop : Int) (rev : Bool) (it : Int)
    (hr : StrictAscending ref.positions) (hq : StrictAscending qry.positions) :
    PairsAscending (engineAlign md ref qry start stop rev it) := by
  unfold PairsAscending
  have hs : (pairsOf (engineAlign md ref qry start stop rev it)).Pairwise
      (fun a b => a.r.pos ≤ b.r.pos) := by
    unfold pairsOf
    refine List.Pairwise.filterMap APos.pair? ?_
      (List.pairwise_map.1 (engine_sorted md ref qry start stop rev it))
    intro a a' haa' b hb b' hb'
    have e1 := pair?_eq_some (Option.mem_def.1 hb)
    have e2 := pair?_eq_some (Option.mem_def.1 hb')
    subst e1; subst e2
    exact haa'
  obtain ⟨n1, n2⟩ := engine_one_to_one md ref qry start stop rev it
  have n1' := List.pairwise_map.1 n1
  have n2' := List.pairwise_map.1 n2
  refine ((hs.and n1').and n2').imp_of_mem ?_
  intro a b ha hb hab
  obtain ⟨⟨hle, hn1⟩, hn2⟩ := hab
  have ha' := mem_pairsOf.1 ha
  have hb' := mem_pairsOf.1 hb
  obtain ⟨ar, aq⟩ := peak_pair_labels md ref qry start stop rev it hq a ha'
  obtain ⟨br, bq⟩ := peak_pair_labels md ref qry start stop rev it hq b hb'
  have hrne : a.r.pos ≠ b.r.pos := fun e =>
    hn1 (congrArg Lbl.site (labels_pos_inj ref false hr _ ar _ br e))
  have hlt : a.r.pos < b.r.pos := by omega
  have hqle := PO.engine_order_preserving md ref qry start stop rev it (asc_of_strict hr)
    (asc_of_strict hq) a b ha' hb' hlt
  have hqne : a.q.pos ≠ b.q.pos := fun e =>
    hn2 (congrArg Lbl.site (labels_pos_inj qry rev hq _ aq _ bq e))
  exact ⟨hlt, by omega⟩

/-! ### a run cut by the scan -/

theorem pos_score_pair (P : Params) (hsu : P.su ≤ 0) (xs : List APos) (i : Nat)
    (h : 0 < (xs.map (APos.score P)).getD i 0) : ∃ p, xs[i]? = some (.pair p) := by
  rw [List.getD_eq_getElem?_getD, List.getElem?_map] at h
  cases hx : xs[i]? with
  | none => rw [hx] at h; simp at h
  | some a =>
    rw [hx] at h
    cases a with
    | pair p => exact ⟨p, rfl⟩
    | uref r => simp [APos.score] at h; omega
    | uqry q s => simp [APos.score] at h; omega

theorem run_infix {α} (xs : List α) (a n : Nat) : (xs.drop a).take n <:+: xs :=
  (List.take_prefix _ _).isInfix.trans (List.drop_suffix _ _).isInfix

theorem run_head {α} (xs : List α) (a b : Nat) (hab : a < b) :
    ((xs.drop a).take (b - a)).head? = xs[a]? := by
  rw [List.head?_take, if_neg (by omega), List.head?_drop]

theorem run_last {α} (xs : List α) (a b : Nat) (hab : a < b) (hb : b ≤ xs.length) :
    ((xs.drop a).take (b - a)).getLast? = xs[b - 1]? := by
  rw [List.getLast?_eq_getElem?, List.length_take, List.length_drop, List.getElem?_take,
    if_pos (by omega), List.getElem?_drop]
  congr 1
  omega

theorem pairsOf_sublist {xs ys : List APos} (h : xs.Sublist ys) : (pairsOf xs).Sublist (pairsOf ys) :=
  h.filterMap _

theorem pyNodup_sublist {xs ys : List APos} (h : xs.Sublist ys) (hy : PyNodup ys) : PyNodup xs :=
  List.Pairwise.sublist h hy

theorem pairsAscending_sublist {xs ys : List APos} (h : xs.Sublist ys) (hy : PairsAscending ys) :
    PairsAscending xs :=
  List.Pairwise.sublist (pairsOf_sublist h) hy

theorem factoryLike_nil (peak : Int) : FactoryLike ⟨peak, []⟩ :=
  ⟨⟨List.Pairwise.nil, Or.inl rfl, List.Pairwise.nil⟩, ⟨List.Pairwise.nil, Or.inl rfl, List.Pairwise.nil⟩⟩

/-- members of `getSegments`: the empty segment or a scan range -/
theorem mem_getSegments (P : Params) (peak : Int) (xs : List APos) (s : Seg)
    (h : s ∈ getSegments P peak xs) :
    s = ⟨peak, []⟩ ∨ ∃ r ∈ scanRanges P.minScore P.bst (xs.map (APos.score P)),
      s = ⟨peak, (xs.drop r.start).take (r.stop - r.start)⟩ := by
  by_cases he : scanRanges P.minScore P.bst (xs.map (APos.score P)) = []
  · rw [(getSegments_spec P peak xs).1 he] at h
    exact Or.inl (List.mem_singleton.1 h)
  · rw [(getSegments_spec P peak xs).2 he] at h
    obtain ⟨r, hr, rfl⟩ := List.mem_map.1 h
    exact Or.inr ⟨r, hr, rfl⟩

theorem segments_ok (P : Params) (hP : GoodParams P) (peak : Int) (xs : List APos)
    (hn : PyNodup xs) (ha : PairsAscending xs) :
    ∀ s ∈ getSegments P peak xs, FactoryLike s ∧ s.peak = peak ∧ s.items <:+: xs := by
  intro s hs
  rcases mem_getSegments P peak xs s hs with rfl | ⟨r, hr, rfl⟩
  · exact ⟨factoryLike_nil peak, rfl, List.nil_infix⟩
  · obtain ⟨hlt, hle⟩ := (scan_ordered_separated P.minScore P.bst _ hP.ms_pos hP.bst_nonneg).1 r hr
    rw [List.length_map] at hle
    obtain ⟨hp1, hp2⟩ := scan_ends_positive P.minScore P.bst _ hP.ms_pos hP.bst_nonneg r hr
    obtain ⟨p1, hp1⟩ := pos_score_pair P hP.su_nonpos xs _ hp1
    obtain ⟨p2, hp2⟩ := pos_score_pair P hP.su_nonpos xs _ hp2
    have hinf := run_infix xs r.start (r.stop - r.start)
    have hn' := pyNodup_sublist hinf.sublist hn
    have ha' := pairsAscending_sublist hinf.sublist ha
    refine ⟨⟨⟨hn', Or.inr ⟨p2, ?_⟩, ha'⟩, ⟨hn', Or.inr ⟨p1, ?_⟩, ha'⟩⟩, rfl, hinf⟩
    · show ((xs.drop r.start).take (r.stop - r.start)).getLast? = _
      rw [run_last xs _ _ hlt hle, hp2]
    · show ((xs.drop r.start).take (r.stop - r.start)).head? = _
      rw [run_head xs _ _ hlt, hp1]

end Coma.Proofs.Compose
