import Props.Defs
namespace Coma.Proofs.Mirror
open Coma Coma.Spec

theorem labelsRev_map_sub (c e : Int) (ps : List Int) (i j : Int) (h : i = c - j) :
    labelsRev i e (ps.map (fun p => e - p)) = (labelsFwd j ps).map (fun l => ⟨c - l.site, l.pos⟩) := by
  induction ps generalizing i j with
  | nil => rfl
  | cons p ps ih =>
    simp only [List.map_cons, labelsRev, labelsFwd]
    rw [ih (i - 1) (j + 1) (by omega)]
    congr 1
    congr 1
    · omega

theorem labelsFwd_map_sub (c e : Int) (ps : List Int) (i j : Int) (h : j = c - i) :
    labelsFwd j (ps.map (fun p => e - p)) = (labelsRev i e ps).map (fun l => ⟨c - l.site, l.pos⟩) := by
  induction ps generalizing i j with
  | nil => rfl
  | cons p ps ih =>
    simp only [List.map_cons, labelsRev, labelsFwd]
    rw [ih (i - 1) (j + 1) (by omega)]
    rw [h]

theorem labels_mirror' (m : OMap) (rev : Bool) (hs : m.shift = 0) :
    m.mirror.labels (!rev) =
      (m.labels rev).map (fun l => ⟨(m.positions.length : Int) + 1 - l.site, l.pos⟩) := by
  cases rev with
  | false =>
    simp only [OMap.labels, OMap.mirror, Bool.not_false, if_true, List.reverse_reverse, List.length_reverse,
      List.length_map, hs, Bool.false_eq_true, if_false]
    exact labelsRev_map_sub _ _ _ _ _ (by omega)
  | true =>
    simp only [OMap.labels, OMap.mirror, Bool.not_true, if_true, hs, Bool.false_eq_true, if_false]
    rw [← List.map_reverse]
    exact labelsFwd_map_sub _ _ _ _ _ (by omega)

theorem lastD_eq (d : Int) (l : List Int) : lastD d l = l.getLast?.getD d := by
  induction l with
  | nil => rfl
  | cons a as ih =>
    cases as with
    | nil => rfl
    | cons b bs =>
      rw [lastD, ih, List.getLast?_cons_cons]
      all_goals simp

theorem mirror_mirror (m : OMap) : m.mirror.mirror = m := by
  cases m with
  | mk id len ps sh =>
    simp only [OMap.mirror, List.map_reverse, List.reverse_reverse, List.map_map]
    congr 1
    have : ((fun p => len - 1 - p) ∘ fun p => len - 1 - p) = (fun p : Int => p) := by
      funext p; simp only [Function.comp]; omega
    rw [this, List.map_id']

theorem mirror_trimmed' (m : OMap)
    (h : m.shift = 0 ∧ m.positions.head? = some 0 ∧ m.length = lastD 0 m.positions + 1 ∧ Ascending m.positions) :
    m.mirror.shift = 0 ∧ m.mirror.positions.head? = some 0 ∧
      m.mirror.length = lastD 0 m.mirror.positions + 1 ∧ Ascending m.mirror.positions := by
  obtain ⟨h1, h2, h3, h4⟩ := h
  rw [lastD_eq] at h3
  refine ⟨h1, ?_, ?_, ?_⟩
  · simp only [OMap.mirror, List.head?_reverse, List.getLast?_map]
    cases hl : m.positions.getLast? with
    | none =>
      rw [List.getLast?_eq_none_iff] at hl
      rw [hl] at h2; cases h2
    | some x =>
      rw [hl] at h3
      simp only [Option.getD_some] at h3
      simp only [Option.map_some, Option.some.injEq]
      omega
  · rw [lastD_eq]
    simp only [OMap.mirror, List.getLast?_reverse, List.head?_map, h2, Option.map_some, Option.getD_some]
    omega
  · unfold Ascending at h4 ⊢
    simp only [OMap.mirror]
    rw [List.pairwise_reverse, List.pairwise_map]
    exact h4.imp (fun {a b} hab => by omega)

end Coma.Proofs.Mirror
