import Proofs.Mirror_Basic
namespace Coma.Proofs.Mirror
open Coma Coma.Spec

section DP
variable {α β : Type} (f : α → β) (score : α → Rat) (join : α → α → Option Rat)
  (score' : β → Rat) (join' : β → β → Option Rat)

theorem bestPrev_map (hj : ∀ a b, join' (f a) (f b) = join a b) (cur : α) (acc : Rat) (ai : Option Nat) (j : Nat)
    (l : List (α × Rat)) :
    bestPrev join' (f cur) acc ai j (l.map fun t => (f t.1, t.2)) = bestPrev join cur acc ai j l := by
  induction l generalizing acc ai j with
  | nil => rfl
  | cons x xs ih =>
    obtain ⟨p, c⟩ := x
    simp only [List.map_cons, bestPrev, hj]
    cases join p cur with
    | none => exact ih _ _ _
    | some jn =>
      simp only
      split
      · exact ih _ _ _
      · exact ih _ _ _

def liftRow (f : α → β) (t : α × Rat × Option Nat) : β × Rat × Option Nat := (f t.1, t.2.1, t.2.2)

theorem dpTable_map (hs : ∀ a, score' (f a) = score a) (hj : ∀ a b, join' (f a) (f b) = join a b)
    (done : List (α × Rat × Option Nat)) (xs : List α) :
    dpTable score' join' (done.map (liftRow f)) (xs.map f) = (dpTable score join done xs).map (liftRow f) := by
  induction xs generalizing done with
  | nil => rfl
  | cons x xs ih =>
    simp only [List.map_cons, dpTable]
    have e : (done.map (liftRow f)).map (fun t => (t.1, t.2.1)) =
        (done.map fun t => (t.1, t.2.1)).map (fun t => (f t.1, t.2)) := by
      simp [List.map_map, Function.comp_def, liftRow]
    rw [e, bestPrev_map f join join' hj, hs]
    have := ih (done ++ [(x, (bestPrev join x 0 none 0 (done.map fun t => (t.1, t.2.1))).1 + score x,
      (bestPrev join x 0 none 0 (done.map fun t => (t.1, t.2.1))).2)])
    simpa [liftRow] using this

theorem backtrack_map (tbl : List (α × Rat × Option Nat)) (fuel i : Nat) (acc : List Nat) :
    backtrack (tbl.map (liftRow f)) fuel i acc = backtrack tbl fuel i acc := by
  induction fuel generalizing i acc with
  | zero => rfl
  | succ n ih =>
    simp only [backtrack, List.getElem?_map]
    cases h : tbl[i]? with
    | none => rfl
    | some t =>
      obtain ⟨a, c, o⟩ := t
      cases o with
      | none => rfl
      | some j => simp [liftRow, ih]

theorem dpChain_map (hs : ∀ a, score' (f a) = score a) (hj : ∀ a b, join' (f a) (f b) = join a b)
    (l : List α) : dpChain score' join' (l.map f) = dpChain score join l := by
  unfold dpChain
  have := dpTable_map f score join score' join' hs hj [] l
  simp only [List.map_nil] at this
  rw [this]
  have e : ((dpTable score join [] l).map (liftRow f)).map (fun t => t.2.1) =
      (dpTable score join [] l).map (fun t => t.2.1) := by
    simp [List.map_map, Function.comp_def, liftRow]
  simp only [e, backtrack_map, List.length_map]

end DP

variable (σ τ : Int → Int)

def relabelEnds (e : Ends) : Ends := ⟨relabelPr σ τ e.s, relabelPr σ τ e.e⟩

@[simp] theorem endsKey_relabel (e : Ends) : (relabelEnds σ τ e).key = e.key := rfl

@[simp] theorem joinScore_relabel (m : Rat) (v : Int) (a b : Ends) :
    joinScore m v (relabelEnds σ τ a) (relabelEnds σ τ b) = joinScore m v a b := rfl

theorem ends?_relabel (s : Seg) : (relabelSeg σ τ s).ends? = s.ends?.map (relabelEnds σ τ) := by
  unfold Seg.ends?
  rw [segPairs_relabel]
  cases h : s.pairs with
  | nil => rfl
  | cons p ps =>
    simp only [List.map_cons, Option.map_some, relabelEnds]
    congr 2
    exact (List.getLast_map (f := relabelPr σ τ) (l := p :: ps) (by simp)).symm ▸ rfl

def relabelSE (x : Seg × Ends) : Seg × Ends := (relabelSeg σ τ x.1, relabelEnds σ τ x.2)

theorem withEnds?_relabel (segs : List Seg) :
    withEnds? (segs.map (relabelSeg σ τ)) = (withEnds? segs).map (List.map (relabelSE σ τ)) := by
  induction segs with
  | nil => rfl
  | cons s ss ih =>
    simp only [List.map_cons, withEnds?, ih, ends?_relabel]
    cases s.ends? <;> cases withEnds? ss <;> simp [relabelSE]

theorem filter_relabel (p : Seg → Bool) (hp : ∀ s, p (relabelSeg σ τ s) = p s) (segs : List Seg) :
    (segs.map (relabelSeg σ τ)).filter p = (segs.filter p).map (relabelSeg σ τ) := by
  rw [List.filter_map]
  congr 1
  congr 1
  funext s
  exact hp s

theorem chainSegs_relabel (P : Params) (C : ChainCfg) (segs : List Seg) :
    chainSegs P C (segs.map (relabelSeg σ τ)) = (chainSegs P C segs).map (List.map (relabelSeg σ τ)) := by
  unfold chainSegs
  simp only
  rw [filter_relabel σ τ (fun s => !s.isEmpty) (by simp), filter_relabel σ τ Seg.isEmpty (by simp),
    withEnds?_relabel]
  cases withEnds? (segs.filter fun s => !s.isEmpty) with
  | none => rfl
  | some ne =>
    simp only [Option.map_some]
    rw [isort_map (relabelSE σ τ) (fun x => x.2.key) (fun x => x.2.key) (by intro x; rfl)]
    cases hpre : isort (fun (x : Seg × Ends) => x.2.key) ne with
    | nil => simp
    | cons a as =>
      rw [← hpre]
      have hne : (isort (fun (x : Seg × Ends) => x.2.key) ne).map (relabelSE σ τ) ≠ [] := by
        rw [hpre]; simp
      have hd := dpChain_map (relabelSE σ τ) (fun (x : Seg × Ends) => ((x.1.score P : Int) : Rat))
        (fun a b => joinScore C.mult C.variant a.2 b.2)
        (fun (x : Seg × Ends) => ((x.1.score P : Int) : Rat))
        (fun a b => joinScore C.mult C.variant a.2 b.2)
        (by intro a; simp [relabelSE]) (by intro a b; rfl) (isort (fun (x : Seg × Ends) => x.2.key) ne)
      split
      · rename_i h; exact absurd h hne
      · split
        · rename_i h; rw [hpre] at h; cases h
        · rw [hd]
          simp only [Option.map_some, List.map_append, List.map_filterMap, Option.some.injEq]
          congr 1
          congr 1
          funext i
          simp [List.getElem?_map]
          rfl

end Coma.Proofs.Mirror
