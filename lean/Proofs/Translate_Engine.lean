/-
  Proofs/Translate_Engine.lean — the pairing engine commutes with a translation of the reference.
  (`tLbl` … `tRef` are the definitions `shiftLbl` … `shiftRef` of Proofs/Translate.lean.)
-/
import Props.Defs
import Proofs.SortLemmas
import Proofs.Pairing
namespace Coma.Proofs.Translate
open Coma Coma.Spec

def tLbl (d : Int) (l : Lbl) : Lbl := { l with pos := l.pos + d }
def tPr (d : Int) (p : Pr) : Pr := { p with r := tLbl d p.r }
def tAPos (d : Int) : APos → APos
  | .pair p   => .pair (tPr d p)
  | .uref r   => .uref (tLbl d r)
  | .uqry q s => .uqry q (s + d)
def tSeg (d : Int) (s : Seg) : Seg := { peak := s.peak + d, items := s.items.map (tAPos d) }
def tRef (d : Int) (r : OMap) : OMap := { r with positions := r.positions.map (· + d), length := r.length + d }

variable (d : Int)

@[simp] theorem tLbl_site (l : Lbl) : (tLbl d l).site = l.site := rfl
@[simp] theorem tLbl_pos (l : Lbl) : (tLbl d l).pos = l.pos + d := rfl
@[simp] theorem tPr_r (p : Pr) : (tPr d p).r = tLbl d p.r := rfl
@[simp] theorem tPr_q (p : Pr) : (tPr d p).q = p.q := rfl
@[simp] theorem tPr_shift (p : Pr) : (tPr d p).shift = p.shift := rfl
@[simp] theorem tPr_src (p : Pr) : (tPr d p).src = p.src := rfl
@[simp] theorem tPr_dist (p : Pr) : (tPr d p).dist = p.dist := rfl
@[simp] theorem tAPos_abs (a : APos) : (tAPos d a).abs = a.abs + d := by
  cases a <;> simp [tAPos, APos.abs, Int.add_assoc]
@[simp] theorem tAPos_isPair (a : APos) : (tAPos d a).isPair = a.isPair := by cases a <;> rfl
@[simp] theorem tAPos_score (P : Params) (a : APos) : (tAPos d a).score P = a.score P := by cases a <;> rfl
@[simp] theorem tAPos_pair? (a : APos) : (tAPos d a).pair? = a.pair?.map (tPr d) := by cases a <;> rfl
@[simp] theorem tSeg_peak (s : Seg) : (tSeg d s).peak = s.peak + d := rfl
@[simp] theorem tSeg_items (s : Seg) : (tSeg d s).items = s.items.map (tAPos d) := rfl

theorem tLbl_inj (a b : Lbl) : tLbl d a = tLbl d b ↔ a = b := by
  constructor
  · intro h
    cases a; cases b
    simp only [tLbl, Lbl.mk.injEq] at h ⊢
    exact ⟨h.1, by omega⟩
  · rintro rfl; rfl

/-! ### sorting by a key that is translated uniformly -/

theorem insertByKey_map_add {α β} (f : β → α) (key : α → Int) (key' : β → Int) (c : Int)
    (h : ∀ x, key (f x) = key' x + c) (a : β) (l : List β) :
    insertByKey key (f a) (l.map f) = (insertByKey key' a l).map f := by
  induction l with
  | nil => rfl
  | cons b bs ih =>
    simp only [List.map_cons, insertByKey, h]
    by_cases hle : key' a ≤ key' b
    · have : key' a + c ≤ key' b + c := by omega
      simp [hle, this]
    · have : ¬ key' a + c ≤ key' b + c := by omega
      simp [hle, this, ih]

theorem isort_map_add {α β} (f : β → α) (key : α → Int) (key' : β → Int) (c : Int)
    (h : ∀ x, key (f x) = key' x + c) (l : List β) :
    isort key (l.map f) = (isort key' l).map f := by
  induction l with
  | nil => rfl
  | cons a as ih =>
    simp only [isort, List.map_cons, ih]
    exact insertByKey_map_add f key key' c h a _

/-! ### labels and windows -/

theorem labelsFwd_map (i : Int) (ps : List Int) :
    labelsFwd i (ps.map (· + d)) = (labelsFwd i ps).map (tLbl d) := by
  induction ps generalizing i with
  | nil => rfl
  | cons p ps ih => simp only [List.map_cons, labelsFwd, ih]; rfl

theorem labels_tRef (ref : OMap) : (tRef d ref).labels false = (ref.labels false).map (tLbl d) := by
  simp only [OMap.labels, tRef, Bool.false_eq_true, if_false]
  exact labelsFwd_map d _ _

theorem window_t (a b : Int) (ls : List Lbl) :
    window (a + d) (b + d) (ls.map (tLbl d)) = (window a b ls).map (tLbl d) := by
  unfold window
  rw [List.dropWhile_map, List.takeWhile_map]
  have e1 : ((fun x : Lbl => decide (x.pos < a + d)) ∘ tLbl d) = (fun x => decide (x.pos < a)) := by
    funext x; simp only [Function.comp, tLbl_pos]; apply decide_eq_decide.2; omega
  have e2 : ((fun x : Lbl => decide (x.pos ≤ b + d)) ∘ tLbl d) = (fun x => decide (x.pos ≤ b)) := by
    funext x; simp only [Function.comp, tLbl_pos]; apply decide_eq_decide.2; omega
  rw [e1, e2]

theorem refWindow_t (md : Int) (ref : OMap) (start stop : Int) :
    refWindow md (tRef d ref) (start + d) (stop + d) = (refWindow md ref start stop).map (tLbl d) := by
  unfold refWindow
  rw [labels_tRef, ← window_t]
  congr 1 <;> omega

/-! ### candidates, dedup, unpaired -/

theorem candidates_t (md start it : Int) (refs qs : List Lbl) :
    candidates md (start + d) it (refs.map (tLbl d)) qs = (candidates md start it refs qs).map (tPr d) := by
  unfold candidates
  induction refs with
  | nil => rfl
  | cons r rs ih =>
    simp only [List.map_cons, List.flatMap_cons, List.map_append, ih, List.map_map]
    congr 1
    have e1 : (tLbl d r).pos - (start + d) - md = r.pos - start - md := by simp only [tLbl_pos]; omega
    have e2 : (tLbl d r).pos - (start + d) + md = r.pos - start + md := by simp only [tLbl_pos]; omega
    rw [e1, e2]
    apply List.map_congr_left
    intro q _
    simp only [Function.comp, tPr, tLbl_pos]
    congr 1
    omega

theorem dedup_t (ps : List Pr) : dedup (ps.map (tPr d)) = (dedup ps).map (tPr d) := by
  unfold dedup
  rw [dedupByKey_map (tPr d) _ (fun p => rfl) (fun p => rfl),
      dedupByKey_map (tPr d) _ (fun p => rfl) (fun p => rfl)]

theorem unpaired_t (refs qs : List Lbl) (pairs : List Pr) (start : Int) :
    unpaired (refs.map (tLbl d)) qs (pairs.map (tPr d)) (start + d) =
      (unpaired refs qs pairs start).map (tAPos d) := by
  unfold unpaired
  simp only [List.map_map, List.map_append, List.filter_map]
  have e1 : ((fun p : Pr => p.r.site) ∘ tPr d) = (fun p => p.r.site) := rfl
  have e2 : ((fun p : Pr => p.q.site) ∘ tPr d) = (fun p => p.q.site) := rfl
  rw [e1, e2]
  rfl

theorem engineAlign_t (md : Int) (ref qry : OMap) (start stop : Int) (rev : Bool) (it : Int) :
    engineAlign md (tRef d ref) qry (start + d) (stop + d) rev it =
      (engineAlign md ref qry start stop rev it).map (tAPos d) := by
  unfold engineAlign
  simp only
  rw [refWindow_t, candidates_t, dedup_t, unpaired_t,
    ← isort_map_add (tAPos d) APos.abs APos.abs d (tAPos_abs d)]
  simp only [List.map_append, List.map_map]
  rfl

end Coma.Proofs.Translate
