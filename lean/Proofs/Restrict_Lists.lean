/-
  Proofs/Restrict_Lists.lean — generic list facts used by Proofs/Restrict.lean:
  `groupAdj` is the unique grouping into maximal runs, stable sorting and grouping commute with
  arbitrary filters, a key-sorted list is determined by its key classes.
-/
import Proofs.SortLemmas
import Proofs.PairingOrder
namespace Coma.Proofs.Restrict
open Coma Coma.Proofs

section Generic
variable {α : Type} (key : α → Int)

theorem takeWhile_append_all (p : α → Bool) (a b : List α) (ha : ∀ x ∈ a, p x = true)
    (hb : ∀ y ∈ b, p y = false) : (a ++ b).takeWhile p = a := by
  induction a with
  | nil =>
    cases b with
    | nil => rfl
    | cons y ys => simp [hb y List.mem_cons_self]
  | cons x xs ih =>
    simp only [List.cons_append, List.takeWhile_cons, ha x List.mem_cons_self, if_true]
    rw [ih (fun z hz => ha z (List.mem_cons_of_mem _ hz))]

theorem dropWhile_append_all (p : α → Bool) (a b : List α) (ha : ∀ x ∈ a, p x = true)
    (hb : ∀ y ∈ b, p y = false) : (a ++ b).dropWhile p = b := by
  induction a with
  | nil =>
    cases b with
    | nil => rfl
    | cons y ys => simp [hb y List.mem_cons_self]
  | cons x xs ih =>
    simp only [List.cons_append, List.dropWhile_cons, ha x List.mem_cons_self, if_true]
    rw [ih (fun z hz => ha z (List.mem_cons_of_mem _ hz))]

/-- a list of non-empty, key-uniform blocks with pairwise different keys is the `groupAdj` of its
    concatenation -/
theorem groupAdj_flatten_eq (GS : List (List α)) (hne : ∀ g ∈ GS, g ≠ [])
    (hu : ∀ g ∈ GS, ∀ a ∈ g, ∀ b ∈ g, key a = key b)
    (hd : GS.Pairwise (fun g g' => ∀ a ∈ g, ∀ b ∈ g', key a ≠ key b)) :
    groupAdj key GS.flatten = GS := by
  induction GS with
  | nil => rfl
  | cons g GS ih =>
    rw [List.pairwise_cons] at hd
    cases g with
    | nil => exact absurd rfl (hne [] List.mem_cons_self)
    | cons x g' =>
      rw [List.flatten_cons, List.cons_append, PO.groupAdj_cons]
      have hA : ∀ y ∈ g', decide (key y = key x) = true := by
        intro y hy
        simp only [decide_eq_true_eq]
        exact hu (x :: g') List.mem_cons_self y (List.mem_cons_of_mem _ hy) x List.mem_cons_self
      have hB : ∀ y ∈ GS.flatten, decide (key y = key x) = false := by
        intro y hy
        obtain ⟨g2, hg2, hy2⟩ := List.mem_flatten.1 hy
        simp only [decide_eq_false_iff_not]
        exact fun e => hd.1 g2 hg2 x List.mem_cons_self y hy2 e.symm
      rw [takeWhile_append_all _ _ _ hA hB, dropWhile_append_all _ _ _ hA hB,
        ih (fun g hg => hne g (List.mem_cons_of_mem _ hg))
          (fun g hg => hu g (List.mem_cons_of_mem _ hg)) hd.2]

theorem flatten_filter_nonempty (GS : List (List α)) :
    (GS.filter (fun g => !g.isEmpty)).flatten = GS.flatten := by
  induction GS with
  | nil => rfl
  | cons g GS ih =>
    cases g with
    | nil => simpa using ih
    | cons x g' => simp [ih]

/-- the pairwise-distinct form of `groupAdj_sorted` -/
theorem groupAdj_distinct (T : List α) (hs : (T.map key).Pairwise (· ≤ ·)) :
    (groupAdj key T).Pairwise (fun g g' => ∀ a ∈ g, ∀ b ∈ g', key a ≠ key b) :=
  (groupAdj_sorted key T hs).imp (fun h a ha b hb => by have := h a ha b hb; omega)

/-- grouping a filtered sorted list = filtering every group, dropping the emptied ones -/
theorem groupAdj_filter (p : α → Bool) (T : List α) (hs : (T.map key).Pairwise (· ≤ ·)) :
    groupAdj key (T.filter p) =
      ((groupAdj key T).map (List.filter p)).filter (fun g => !g.isEmpty) := by
  have h0 : T.filter p =
      (((groupAdj key T).map (List.filter p)).filter (fun g => !g.isEmpty)).flatten := by
    rw [flatten_filter_nonempty, ← List.filter_flatten, groupAdj_flatten]
  conv => lhs; rw [h0]
  apply groupAdj_flatten_eq
  · intro g hg
    have := (List.mem_filter.1 hg).2
    intro h; rw [h] at this; simp at this
  · intro g hg a ha b hb
    obtain ⟨g0, hg0, rfl⟩ := List.mem_map.1 (List.mem_filter.1 hg).1
    exact groupAdj_key_eq key T g0 hg0 a (List.mem_filter.1 ha).1 b (List.mem_filter.1 hb).1
  · apply List.Pairwise.filter
    refine List.Pairwise.map _ ?_ (groupAdj_distinct key T hs)
    intro g g' h a ha b hb
    exact h a (List.mem_filter.1 ha).1 b (List.mem_filter.1 hb).1

theorem sorted_tail_le (b : α) (bs : List α) (hs : ((b :: bs).map key).Pairwise (· ≤ ·)) :
    ∀ x ∈ b :: bs, key b ≤ key x := by
  rw [List.map_cons, List.pairwise_cons] at hs
  intro x hx
  rcases List.mem_cons.1 hx with rfl | hx
  · exact Int.le_refl _
  · exact hs.1 _ (List.mem_map_of_mem hx)

theorem filter_insertByKey_comm (p : α → Bool) (a : α) (l : List α)
    (hs : (l.map key).Pairwise (· ≤ ·)) :
    (insertByKey key a l).filter p =
      if p a then insertByKey key a (l.filter p) else l.filter p := by
  induction l with
  | nil => cases h : p a <;> simp [insertByKey, h]
  | cons b bs ih =>
    have hle := sorted_tail_le key b bs hs
    rw [List.map_cons, List.pairwise_cons] at hs
    simp only [insertByKey]
    split
    · rename_i hab
      have hins : insertByKey key a ((b :: bs).filter p) = a :: (b :: bs).filter p :=
        insertByKey_of_le key a _ (fun x hx => Int.le_trans hab (hle x (List.mem_filter.1 hx).1))
      rw [hins]
      cases h : p a <;> simp [List.filter_cons, h]
    · rename_i hab
      rw [List.filter_cons, ih hs.2]
      cases hb : p b <;> cases ha : p a <;> simp [hb, insertByKey, hab]

/-- a stable sort commutes with every filter -/
theorem filter_isort_comm (p : α → Bool) (l : List α) :
    (isort key l).filter p = isort key (l.filter p) := by
  induction l with
  | nil => rfl
  | cons x xs ih =>
    show (insertByKey key x (isort key xs)).filter p = _
    rw [filter_insertByKey_comm key p x _ (isort_sorted key xs), ih, List.filter_cons]
    cases h : p x <;> simp [isort]

/-- a key-sorted list is determined by its key classes -/
theorem sorted_ext : ∀ (L L' : List α), (L.map key).Pairwise (· ≤ ·) → (L'.map key).Pairwise (· ≤ ·) →
    (∀ k : Int, L.filter (fun y => decide (key y = k)) = L'.filter (fun y => decide (key y = k))) → L = L'
  | [], [], _, _, _ => rfl
  | [], y :: ys, _, _, h => by
    have := h (key y)
    simp at this
  | x :: xs, [], _, _, h => by
    have := h (key x)
    simp at this
  | x :: xs, y :: ys, hs, hs', h => by
    have hx := sorted_tail_le key x xs hs
    have hy := sorted_tail_le key y ys hs'
    have h1 := h (key x)
    have h2 := h (key y)
    have hyx : key x ≤ key y := by
      have : y ∈ (x :: xs).filter (fun z => decide (key z = key y)) := by
        rw [h2]; simp
      exact hx y (List.mem_filter.1 this).1
    have hxy : key y ≤ key x := by
      have : x ∈ (y :: ys).filter (fun z => decide (key z = key x)) := by
        rw [← h1]; simp
      exact hy x (List.mem_filter.1 this).1
    have hk : key y = key x := by omega
    have hxe : x = y := by
      simp only [List.filter_cons, hk, decide_true, if_true, List.cons.injEq] at h1
      exact h1.1
    subst hxe
    rw [List.map_cons, List.pairwise_cons] at hs hs'
    rw [sorted_ext xs ys hs.2 hs'.2 (by
      intro k
      have := h k
      simp only [List.filter_cons] at this
      split at this
      · exact (List.cons.inj this).2
      · exact this)]

/-- heads of key-uniform blocks with pairwise different keys, restricted to one key -/
theorem heads_filter_of_groups (k : Int) (GS : List (List α)) (hne : ∀ g ∈ GS, g ≠ [])
    (hu : ∀ g ∈ GS, ∀ a ∈ g, ∀ b ∈ g, key a = key b)
    (hd : GS.Pairwise (fun g g' => ∀ a ∈ g, ∀ b ∈ g', key a ≠ key b)) :
    (GS.filterMap List.head?).filter (fun y => decide (key y = k)) =
      (GS.flatten.filter (fun y => decide (key y = k))).head?.toList := by
  induction GS with
  | nil => rfl
  | cons g GS ih =>
    rw [List.pairwise_cons] at hd
    have ih := ih (fun g hg => hne g (List.mem_cons_of_mem _ hg))
      (fun g hg => hu g (List.mem_cons_of_mem _ hg)) hd.2
    cases g with
    | nil => exact absurd rfl (hne [] List.mem_cons_self)
    | cons x g' =>
      have hfm : ((x :: g') :: GS).filterMap List.head? = x :: GS.filterMap List.head? := by
        simp
      rw [hfm, List.flatten_cons, List.filter_append]
      by_cases hx : key x = k
      · have hrest : GS.flatten.filter (fun y => decide (key y = k)) = [] := by
          rw [List.filter_eq_nil_iff]
          intro y hy
          obtain ⟨g2, hg2, hy2⟩ := List.mem_flatten.1 hy
          have := hd.1 g2 hg2 x List.mem_cons_self y hy2
          simp only [decide_eq_true_eq]
          omega
        rw [hrest] at ih
        simp only [List.head?_nil, Option.toList_none] at ih
        simp [hx, ih]
      · have hg : (x :: g').filter (fun y => decide (key y = k)) = [] := by
          rw [List.filter_eq_nil_iff]
          intro y hy
          have := hu (x :: g') List.mem_cons_self y hy x List.mem_cons_self
          simp only [decide_eq_true_eq]
          omega
        rw [hg, List.nil_append, ← ih]
        simp [hx]

/-- "first of every group" of a sorted list, restricted to one key = the first of that key -/
theorem heads_filter (k : Int) (S : List α) (hs : (S.map key).Pairwise (· ≤ ·)) :
    ((groupAdj key S).filterMap List.head?).filter (fun y => decide (key y = k)) =
      (S.filter (fun y => decide (key y = k))).head?.toList := by
  have := heads_filter_of_groups key k (groupAdj key S) (groupAdj_ne_nil key S) (groupAdj_key_eq key S)
    (groupAdj_distinct key S hs)
  rw [groupAdj_flatten] at this
  exact this

end Generic

end Coma.Proofs.Restrict
