import Props.Defs
import Proofs.SegFactory
import Proofs.Pairing
import Proofs.PairingOrder
import Proofs.Chain
import Proofs.Conflict
import Proofs.ConflictAll
namespace Coma.Proofs
open Coma Coma.Spec

/-- every segment the factory cuts from one peak's position list is factory-like, carries that
    peak, and is a contiguous run of that position list -/
theorem factory_segments_ok (P : Params) (hP : GoodParams P) (ref qry : OMap) (rev : Bool) (it peak : Int)
    (hr : StrictAscending ref.positions) (hq : StrictAscending qry.positions) :
    ∀ s ∈ getSegments P peak (peakPositions P ref qry rev it peak),
      FactoryLike s ∧ s.peak = peak ∧ s.items <:+: peakPositions P ref qry rev it peak := by
  sorry

/-- two segments cut from (possibly different) peaks of the same maps never give the same
    coordinate to two different labels -/
theorem factory_segments_strictCoords (P : Params) (hP : GoodParams P) (ref qry : OMap) (rev : Bool)
    (it1 it2 peak1 peak2 : Int) (hr : StrictAscending ref.positions) (hq : StrictAscending qry.positions)
    (s1 s2 : Seg) (h1 : s1 ∈ getSegments P peak1 (peakPositions P ref qry rev it1 peak1))
    (h2 : s2 ∈ getSegments P peak2 (peakPositions P ref qry rev it2 peak2)) : StrictCoords s1 s2 := by
  sorry

/-- building a candidate never raises (C07) -/
theorem alignerAlign_total (P : Params) (C : ChainCfg) (hP : GoodParams P) (ref qry : OMap) (peaks : List Int)
    (rev : Bool) (it : Int) (hr : StrictAscending ref.positions) (hq : StrictAscending qry.positions) :
    ∃ row, alignerAlign P C ref qry peaks rev it = .ok row := by
  sorry

/-- every segment of a candidate is empty or a contiguous run of the position list of one of
    the seed peaks (so each label in its span is counted exactly once), carrying that peak (C04) -/
theorem alignerAlign_accounted (P : Params) (C : ChainCfg) (hP : GoodParams P) (ref qry : OMap) (peaks : List Int)
    (rev : Bool) (it : Int) (hr : StrictAscending ref.positions) (hq : StrictAscending qry.positions)
    (row : Row) (h : alignerAlign P C ref qry peaks rev it = .ok row) :
    ∀ s ∈ row.segments, s.items = [] ∨
      ∃ peak ∈ peaks, ∃ it', s.peak = peak ∧ s.items <:+: peakPositions P ref qry rev it' peak := by
  sorry

/-- inside one segment of a candidate the pairs are strictly ascending on both maps (C01) -/
theorem alignerAlign_segment_valid (P : Params) (C : ChainCfg) (hP : GoodParams P) (ref qry : OMap) (peaks : List Int)
    (rev : Bool) (it : Int) (hr : StrictAscending ref.positions) (hq : StrictAscending qry.positions)
    (row : Row) (h : alignerAlign P C ref qry peaks rev it = .ok row) :
    ∀ s ∈ row.segments, PairsAscending s.items := by
  sorry

/-- the whole pass leaves ALL final segments pairwise separated when no step takes the interior
    branch and every final segment keeps a pair (separation is transitive through members that
    keep a pair) -/
theorem resolveFrom_all_separated (P : Params) (c : Seg) (cs out : List Seg) (bs : List Branch)
    (h : resolveFromB P c cs = .ok (out, bs)) (hF : ∀ s ∈ c :: cs, FactoryLike s)
    (hS : ∀ a ∈ c :: cs, ∀ b ∈ c :: cs, StrictCoords a b) (hb : ∀ b ∈ bs, b ≠ Branch.interior)
    (hp : ∀ s ∈ out, s.pairs ≠ []) :
    out.Pairwise Separated := by
  sorry

/-- … hence the listed pairs of the row are strictly ascending on both maps -/
theorem separated_pairs_ascending (out : List Seg) (hs : out.Pairwise Separated)
    (ha : ∀ s ∈ out, PairsAscending s.items) :
    (out.flatMap Seg.pairs).Pairwise (fun a b => a.r.pos < b.r.pos ∧ a.q.pos < b.q.pos) := by
  sorry

end Coma.Proofs
