import Props.Defs
import Proofs.SegFactory
import Proofs.Pairing
import Proofs.PairingOrder
import Proofs.Chain
import Proofs.Conflict
import Proofs.ConflictAll
import Proofs.Compose_Lists
import Proofs.Compose_Factory
import Proofs.Compose_Align
namespace Coma.Proofs
open Coma Coma.Spec Coma.Proofs.Compose

/-- every segment the factory cuts from one peak's position list is factory-like, carries that
    peak, and is a contiguous run of that position list -/
theorem factory_segments_ok (P : Params) (hP : GoodParams P) (ref qry : OMap) (rev : Bool) (it peak : Int)
    (hr : StrictAscending ref.positions) (hq : StrictAscending qry.positions) :
    ∀ s ∈ getSegments P peak (peakPositions P ref qry rev it peak),
      FactoryLike s ∧ s.peak = peak ∧ s.items <:+: peakPositions P ref qry rev it peak := by
  exact segments_ok P hP peak _ (engine_pyNodup ..) (engine_pairsAscending _ _ _ _ _ _ _ hr hq)

/-- two segments cut from (possibly different) peaks of the same maps never give the same
    coordinate to two different labels -/
theorem factory_segments_strictCoords (P : Params) (hP : GoodParams P) (ref qry : OMap) (rev : Bool)
    (it1 it2 peak1 peak2 : Int) (hr : StrictAscending ref.positions) (hq : StrictAscending qry.positions)
    (s1 s2 : Seg) (h1 : s1 ∈ getSegments P peak1 (peakPositions P ref qry rev it1 peak1))
    (h2 : s2 ∈ getSegments P peak2 (peakPositions P ref qry rev it2 peak2)) : StrictCoords s1 s2 := by
  have i1 := (segments_ok P hP peak1 _ (engine_pyNodup ..)
    (engine_pairsAscending _ _ _ _ _ _ _ hr hq) s1 h1).2.2
  have i2 := (segments_ok P hP peak2 _ (engine_pyNodup ..)
    (engine_pairsAscending _ _ _ _ _ _ _ hr hq) s2 h2).2.2
  intro p hp p' hp'
  have m1 : APos.pair p ∈ peakPositions P ref qry rev it1 peak1 :=
    mem_pairsOf.1 ((pairsOf_sublist i1.sublist).subset hp)
  have m2 : APos.pair p' ∈ peakPositions P ref qry rev it2 peak2 :=
    mem_pairsOf.1 ((pairsOf_sublist i2.sublist).subset hp')
  obtain ⟨r1, q1⟩ := peak_pair_labels _ _ _ _ _ _ _ hq p m1
  obtain ⟨r2, q2⟩ := peak_pair_labels _ _ _ _ _ _ _ hq p' m2
  exact ⟨labels_pos_inj ref false hr _ r1 _ r2, labels_pos_inj qry rev hq _ q1 _ q2⟩

/-- building a candidate never raises (C07) -/
theorem alignerAlign_total (P : Params) (C : ChainCfg) (hP : GoodParams P) (ref qry : OMap) (peaks : List Int)
    (rev : Bool) (it : Int) (hr : StrictAscending ref.positions) (hq : StrictAscending qry.positions) :
    ∃ row, alignerAlign P C ref qry peaks rev it = .ok row := by
  obtain ⟨out, h, _⟩ := alignerAlign_spec P C hP ref qry peaks rev it hr hq
  exact ⟨_, h⟩

/-- every segment of a candidate is empty or a contiguous run of the position list of one of
    the seed peaks (so each label in its span is counted exactly once), carrying that peak (C04) -/
theorem alignerAlign_accounted (P : Params) (C : ChainCfg) (hP : GoodParams P) (ref qry : OMap) (peaks : List Int)
    (rev : Bool) (it : Int) (hr : StrictAscending ref.positions) (hq : StrictAscending qry.positions)
    (row : Row) (h : alignerAlign P C ref qry peaks rev it = .ok row) :
    ∀ s ∈ row.segments, s.items = [] ∨
      ∃ peak ∈ peaks, ∃ it', s.peak = peak ∧ s.items <:+: peakPositions P ref qry rev it' peak := by
  obtain ⟨out, h', hs⟩ := alignerAlign_spec P C hP ref qry peaks rev it hr hq
  rw [h'] at h
  injection h with h
  subst h
  intro s hsm
  exact Or.inr (hs s hsm)

/-- inside one segment of a candidate the pairs are strictly ascending on both maps (C01) -/
theorem alignerAlign_segment_valid (P : Params) (C : ChainCfg) (hP : GoodParams P) (ref qry : OMap) (peaks : List Int)
    (rev : Bool) (it : Int) (hr : StrictAscending ref.positions) (hq : StrictAscending qry.positions)
    (row : Row) (h : alignerAlign P C ref qry peaks rev it = .ok row) :
    ∀ s ∈ row.segments, PairsAscending s.items := by
  obtain ⟨out, h', hs⟩ := alignerAlign_spec P C hP ref qry peaks rev it hr hq
  rw [h'] at h
  injection h with h
  subst h
  intro s hsm
  obtain ⟨pk, _, it', _, hinf⟩ := hs s hsm
  exact pairsAscending_sublist hinf.sublist (engine_pairsAscending _ _ _ _ _ _ _ hr hq)

/-- the whole pass leaves ALL final segments pairwise separated when no step takes the interior
    branch and every final segment keeps a pair (separation is transitive through members that
    keep a pair) -/
theorem resolveFrom_all_separated (P : Params) (c : Seg) (cs out : List Seg) (bs : List Branch)
    (h : resolveFromB P c cs = .ok (out, bs)) (hF : ∀ s ∈ c :: cs, FactoryLike s)
    (hS : ∀ a ∈ c :: cs, ∀ b ∈ c :: cs, StrictCoords a b) (hb : ∀ b ∈ bs, b ≠ Branch.interior)
    (hp : ∀ s ∈ out, s.pairs ≠ []) :
    out.Pairwise Separated := by
  exact consec_pairwise_separated out (resolveFrom_adjacent_separated P c cs out bs h hF hS hb) hp

/-- … hence the listed pairs of the row are strictly ascending on both maps -/
theorem separated_pairs_ascending (out : List Seg) (hs : out.Pairwise Separated)
    (ha : ∀ s ∈ out, PairsAscending s.items) :
    (out.flatMap Seg.pairs).Pairwise (fun a b => a.r.pos < b.r.pos ∧ a.q.pos < b.q.pos) := by
  exact separated_flatMap out hs ha

end Coma.Proofs

namespace Coma.Proofs
open Coma Coma.Spec

/-- every pair of a candidate joins real labels of the named maps -/
theorem alignerAlign_labels_real (P : Params) (C : ChainCfg) (hP : GoodParams P) (ref qry : OMap) (peaks : List Int)
    (rev : Bool) (it : Int) (hr : StrictAscending ref.positions) (hq : StrictAscending qry.positions)
    (row : Row) (h : alignerAlign P C ref qry peaks rev it = .ok row) :
    ∀ p ∈ row.pairs, p.r ∈ ref.labels false ∧ p.q ∈ qry.labels rev := by
  intro p hp
  have hacc := alignerAlign_accounted P C hP ref qry peaks rev it hr hq row h
  simp only [Row.pairs, List.mem_flatMap] at hp
  obtain ⟨s, hs, hps⟩ := hp
  have hmem : APos.pair p ∈ s.items := by
    simp only [Seg.pairs, List.mem_filterMap] at hps
    obtain ⟨a, ha, hap⟩ := hps
    cases a with
    | pair p' => simp [APos.pair?] at hap; subst hap; exact ha
    | uref r => simp [APos.pair?] at hap
    | uqry q s => simp [APos.pair?] at hap
  rcases hacc s hs with hnil | ⟨peak, _, it', _, hinf⟩
  · rw [hnil] at hmem; cases hmem
  · have hin : APos.pair p ∈ peakPositions P ref qry rev it' peak := hinf.subset hmem
    have hqa : Ascending qry.positions := hq.imp (fun h => Int.le_of_lt h)
    have hw := engine_within P.md ref qry peak (peak + qry.length) rev it' hqa p hin
    exact ⟨(refWindow_sublist P.md ref peak (peak + qry.length)).subset hw.1, hw.2.1⟩

end Coma.Proofs
