/-
  Proofs/Translate_Factory.lean — scoring and cutting into segments commute with the translation.
-/
import Proofs.Translate_Engine
namespace Coma.Proofs.Translate
open Coma Coma.Spec

variable (d : Int)

theorem map_score_t (P : Params) (xs : List APos) :
    (xs.map (tAPos d)).map (APos.score P) = xs.map (APos.score P) := by
  simp [List.map_map, Function.comp_def]

theorem sumScores_t (P : Params) (xs : List APos) : sumScores P (xs.map (tAPos d)) = sumScores P xs := by
  induction xs with
  | nil => rfl
  | cons a as ih => simp [sumScores, ih]

@[simp] theorem tSeg_score (P : Params) (s : Seg) : (tSeg d s).score P = s.score P := by
  simp [Seg.score, sumScores_t]

@[simp] theorem tSeg_isEmpty (s : Seg) : (tSeg d s).isEmpty = s.isEmpty := by
  simp [Seg.isEmpty]

theorem filterMap_pair?_t (xs : List APos) :
    (xs.map (tAPos d)).filterMap APos.pair? = (xs.filterMap APos.pair?).map (tPr d) := by
  induction xs with
  | nil => rfl
  | cons a as ih => cases a <;> simp [tAPos, APos.pair?, List.filterMap_cons, ih]

@[simp] theorem tSeg_pairs (s : Seg) : (tSeg d s).pairs = s.pairs.map (tPr d) := by
  unfold Seg.pairs
  exact filterMap_pair?_t d s.items

theorem scoreAll?_t (P : Params) (xs : List APos) : scoreAll? P (xs.map (tAPos d)) = scoreAll? P xs := by
  unfold scoreAll?
  have h1 : (xs.map (tAPos d)).any (fun a => !a.isPair) = xs.any (fun a => !a.isPair) := by
    rw [List.any_map]; congr 1; funext a; simp
  rw [h1, map_score_t]

theorem getSegments_t (P : Params) (peak : Int) (xs : List APos) :
    getSegments P (peak + d) (xs.map (tAPos d)) = (getSegments P peak xs).map (tSeg d) := by
  unfold getSegments
  rw [map_score_t]
  split
  · simp [tSeg]
  · simp [tSeg, List.map_drop, List.map_take]

theorem segmentsOfPeak_t (P : Params) (ref qry : OMap) (rev : Bool) (it peak : Int) :
    segmentsOfPeak P (tRef d ref) qry rev it (peak + d) =
      (segmentsOfPeak P ref qry rev it peak).map (List.map (tSeg d)) := by
  unfold segmentsOfPeak
  have e : peak + d + qry.length = peak + qry.length + d := by omega
  simp only
  rw [e, engineAlign_t, scoreAll?_t, getSegments_t]
  cases scoreAll? P (engineAlign P.md ref qry peak (peak + qry.length) rev it) <;> rfl

theorem segmentsOfPeaks_t (P : Params) (ref qry : OMap) (rev : Bool) : ∀ (peaks : List Int) (it : Int),
    segmentsOfPeaks P (tRef d ref) qry rev it (peaks.map (· + d)) =
      (segmentsOfPeaks P ref qry rev it peaks).map (List.map (tSeg d))
  | [], _ => rfl
  | p :: ps, it => by
    simp only [List.map_cons, segmentsOfPeaks, bind, Except.bind, pure, Except.pure]
    rw [segmentsOfPeak_t, segmentsOfPeaks_t P ref qry rev ps (it + 1)]
    cases segmentsOfPeak P ref qry rev it p with
    | error e => rfl
    | ok a =>
      cases segmentsOfPeaks P ref qry rev (it + 1) ps with
      | error e => rfl
      | ok b => simp [Except.map]

end Coma.Proofs.Translate
