/-
  Proofs/CopySeed_Corr.lean — the correlation of the two blurred vectors at the four lags around the true one
  (helper for Proofs/CopySeed.lean).  `Geo` is the label-level description of the two vectors; the correlation
  at a lag is a double sum over bins and query labels, swapped and counted label by label.
-/
import Proofs.CopySeed_Sum
import Proofs.CopySeed_Vec
import Proofs.Corr
namespace Coma.Proofs.CopySeed
open Coma Coma.Proofs Coma.Proofs.Corr

/-! ### `dot` and `sumNat` as sums over the index -/

theorem dot_sumTo : ∀ (r q : List Nat), dot r q = sumTo (fun x => r.getD x 0 * q.getD x 0) q.length
  | _, [] => by simp [dot_nil_right, sumTo]
  | [], y :: ys => by
    rw [dot_nil_left]
    symm
    apply sumTo_zero
    intro x _
    simp
  | x :: xs, y :: ys => by
    rw [dot_cons, List.length_cons, sumTo_shift, dot_sumTo xs ys]
    simp

theorem sumNat_sumTo : ∀ (l : List Nat), sumNat l = sumTo (fun x => l.getD x 0) l.length
  | [] => by simp [sumNat, sumTo]
  | x :: xs => by
    rw [sumNat_cons, List.length_cons, sumTo_shift, sumNat_sumTo xs]
    simp

theorem sumTo_ge_term (f : Nat → Nat) (n j0 : Nat) (hj : j0 < n) : f j0 ≤ sumTo f n := by
  induction n with
  | zero => omega
  | succ n ih =>
    simp only [sumTo]
    by_cases h : j0 = n
    · subst h; omega
    · have := ih (by omega); omega

/-! ### the contribution of one label: a count over an interval -/

/-- bin `x` of the query lies in the run of a query label at bin `b`, and bin `k + x` of the reference lies in
    the run of a reference label at bin `r` -/
def ind (b r k x : Nat) : Nat := if b ≤ x + 4 ∧ x ≤ b + 4 ∧ r ≤ k + x + 4 ∧ k + x ≤ r + 4 then 1 else 0

theorem ind_sum (b r k L : Nat) (hk : k ≤ r + 4) :
    sumTo (ind b r k) L = min (min (b + 4) (r + 4 - k) + 1) L - max (b - 4) (r - 4 - k) := by
  rw [← cnt_eq]
  apply sumTo_congr
  intro x _
  unfold ind
  split <;> split <;> first | rfl | omega

/-- bin `x` lies in the run of a query label at bin `b` -/
def indq (b x : Nat) : Nat := if b ≤ x + 4 ∧ x ≤ b + 4 then 1 else 0

theorem indq_sum (b L : Nat) : sumTo (indq b) L = min (b + 4 + 1) L - (b - 4) := by
  rw [← cnt_eq]
  apply sumTo_congr
  intro x _
  unfold indq
  split <;> split <;> first | rfl | omega

theorem lab_I0 (k0 L : Nat) (hk : 5 ≤ k0) (hL : 21 ≤ L) :
    sumTo (ind 0 k0 (k0 - 1)) L ≤ sumTo (ind 0 k0 k0) L := by
  rw [ind_sum _ _ _ _ (by omega), ind_sum _ _ _ _ (by omega)]
  omega

theorem lab_I1 (b r k0 L : Nat) (h : r = b + k0 ∨ r = b + k0 + 1) (hb : b < L) (hk : 5 ≤ k0) (h1 : 20 ≤ b) :
    sumTo (ind b r (k0 - 1)) L + 1 ≤ sumTo (ind b r k0) L := by
  rw [ind_sum _ _ _ _ (by omega), ind_sum _ _ _ _ (by omega)]
  omega

theorem lab_II0 (b r k0 L : Nat) (h : r = b + k0 ∨ r = b + k0 + 1) (hb : b < L) (h1 : 20 ≤ b) :
    sumTo (ind b r (k0 + 2)) L ≤ sumTo (ind b r (k0 + 1)) L := by
  rw [ind_sum _ _ _ _ (by omega), ind_sum _ _ _ _ (by omega)]
  omega

theorem lab_II1 (b r k0 L : Nat) (h : r = b + k0 ∨ r = b + k0 + 1) (hb : b + 21 ≤ L)
    (h0 : b = 0 → r = k0) (h1 : b = 0 ∨ 20 ≤ b) :
    sumTo (ind b r (k0 + 2)) L + 1 ≤ sumTo (ind b r (k0 + 1)) L := by
  rw [ind_sum _ _ _ _ (by omega), ind_sum _ _ _ _ (by omega)]
  omega

theorem lab_III (b r k0 L : Nat) (h : r = b + k0 ∨ r = b + k0 + 1) (hb : b < L) (hL : 21 ≤ L)
    (h0 : b = 0 → r = k0) (h1 : b = 0 ∨ 20 ≤ b) :
    4 ≤ sumTo (ind b r k0) L := by
  rw [ind_sum _ _ _ _ (by omega)]
  omega

theorem lab_IV (b L : Nat) : sumTo (indq b) L ≤ 9 := by
  rw [indq_sum]
  omega

/-! ### the two vectors at label level -/

/-- bin of the `j`-th query label -/
def qb (P : Nat → Int) (i j : Nat) : Nat := ((P (i + j) - P i) / 100).toNat
/-- bin of the `m`-th reference label in the window starting at `start` -/
def rb (P : Nat → Int) (start : Int) (m : Nat) : Nat := ((P m - start) / 100).toNat

structure Geo (P : Nat → Int) (N i n : Nat) (start : Int) (qv rv : List Nat) : Prop where
  many  : 2 ≤ n
  inside : i + n < N
  gaps  : ∀ m m', m < m' → m' < N → P m + 2000 ≤ P m'
  hstart : start + 500 ≤ P i
  qlen  : qv.length = qb P i (n - 1) + 1
  qbit  : ∀ x, x < qv.length → (qv.getD x 0 = 1 ∨ qv.getD x 0 = 0) ∧
            (qv.getD x 0 = 1 ↔ ∃ j, j < n ∧ x ≤ qb P i j + 4 ∧ qb P i j ≤ x + 4)
  rlen  : rb P start (i + n) < rv.length
  rbit  : ∀ y, y < rv.length → (rv.getD y 0 = 1 ∨ rv.getD y 0 = 0) ∧
            (rv.getD y 0 = 1 ↔ ∃ m, m < N ∧ start ≤ P m ∧ rb P start m < rv.length ∧
              y ≤ rb P start m + 4 ∧ rb P start m ≤ y + 4)

section
variable {P : Nat → Int} {N i n : Nat} {start : Int} {qv rv : List Nat}

theorem bins_far (a b s : Int) (hs : s ≤ a) (h : a + 2000 ≤ b) :
    ((a - s) / 100).toNat + 20 ≤ ((b - s) / 100).toNat := by omega

/-- the arithmetic of one query label `j` -/
theorem geo_label (G : Geo P N i n start qv rv) (j : Nat) (hj : j < n) :
    (rb P start (i + j) = qb P i j + rb P start i ∨ rb P start (i + j) = qb P i j + rb P start i + 1) ∧
    qb P i j < qv.length ∧ 5 ≤ rb P start i ∧ 21 ≤ qv.length ∧
    (j = 0 → qb P i j = 0 ∧ rb P start (i + j) = rb P start i) ∧
    (1 ≤ j → 20 ≤ qb P i j) ∧ (j + 1 < n → qb P i j + 21 ≤ qv.length) ∧
    rb P start (i + j) + 20 < rv.length ∧ start ≤ P (i + j) ∧ P i ≤ P (i + j) := by
  have hst := G.hstart
  have hn := G.many
  have hin := G.inside
  have hlast : P (i + (n - 1)) + 2000 ≤ P (i + n) := G.gaps _ _ (by omega) (by omega)
  have hfirst : P i + 2000 ≤ P (i + (n - 1)) := G.gaps _ _ (by omega) (by omega)
  have hql := G.qlen
  have hrl := G.rlen
  have h0 : j = 0 → P (i + j) = P i := by intro h; subst h; rfl
  have h1 : 1 ≤ j → P i + 2000 ≤ P (i + j) := fun h => G.gaps _ _ (by omega) (by omega)
  have h2 : j + 1 < n → P (i + j) + 2000 ≤ P (i + (n - 1)) := fun h => G.gaps _ _ (by omega) (by omega)
  have h3 : j + 1 = n → P (i + j) = P (i + (n - 1)) := by
    intro h
    have : j = n - 1 := by omega
    rw [this]
  unfold qb rb at *
  refine ⟨?_, ?_, ?_, ?_, ?_, ?_, ?_, ?_, ?_, ?_⟩ <;> omega

theorem klen (G : Geo P N i n start qv rv) : rb P start i + 20 + qv.length ≤ rv.length := by
  obtain ⟨h1, h2, _, _, _, _, _, h8, _, _⟩ := geo_label G (n - 1) (by have := G.many; omega)
  have := G.qlen
  omega

/-- near the bin of the copied label `j` only that label sets reference bits -/
theorem rv_near (G : Geo P N i n start qv rv) (j : Nat) (hj : j < n) (y : Nat)
    (hy1 : y ≤ rb P start (i + j) + 6) (hy2 : rb P start (i + j) ≤ y + 6) :
    (rv.getD y 0 = 1 ∨ rv.getD y 0 = 0) ∧
    (rv.getD y 0 = 1 ↔ (y ≤ rb P start (i + j) + 4 ∧ rb P start (i + j) ≤ y + 4)) := by
  obtain ⟨_, _, _, _, _, _, _, hlen, hsj, _⟩ := geo_label G j hj
  obtain ⟨hb, hiff⟩ := G.rbit y (by omega)
  refine ⟨hb, hiff.trans ⟨?_, ?_⟩⟩
  · rintro ⟨m, hm, hsm, _, hm1, hm2⟩
    rcases Nat.lt_trichotomy m (i + j) with hlt | heq | hgt
    · have h : rb P start m + 20 ≤ rb P start (i + j) :=
        bins_far _ _ _ hsm (G.gaps m (i + j) hlt (by have := G.inside; omega))
      omega
    · subst heq; exact ⟨hm1, hm2⟩
    · have h : rb P start (i + j) + 20 ≤ rb P start m :=
        bins_far _ _ _ hsj (G.gaps (i + j) m hgt hm)
      omega
  · rintro ⟨h1, h2⟩
    exact ⟨i + j, by have := G.inside; omega, hsj, by omega, h1, h2⟩

/-- one term of the correlation, label by label -/
theorem term_eq (G : Geo P N i n start qv rv) (k : Nat) (hk1 : rb P start i ≤ k + 1) (hk2 : k ≤ rb P start i + 2)
    (x : Nat) (hx : x < qv.length) :
    rv.getD (k + x) 0 * qv.getD x 0 = sumTo (fun j => ind (qb P i j) (rb P start (i + j)) k x) n := by
  obtain ⟨hb, hiff⟩ := G.qbit x hx
  rcases hb with h1 | h0
  · obtain ⟨j0, hj0, hx1, hx2⟩ := hiff.mp h1
    obtain ⟨hc, _, _, _, _, _, _, _, _, hp0⟩ := geo_label G j0 hj0
    rw [sumTo_single _ n j0 hj0, h1, Nat.mul_one]
    · obtain ⟨hrb, hriff⟩ := rv_near G j0 hj0 (k + x) (by omega) (by omega)
      unfold ind
      split
      · rename_i hc
        exact hriff.mpr ⟨hc.2.2.2, hc.2.2.1⟩
      · rename_i hc
        rcases hrb with h | h
        · have := hriff.mp h
          omega
        · exact h
    · intro j hj hne
      unfold ind
      rw [if_neg]
      intro hc
      obtain ⟨_, _, _, _, _, _, _, _, _, hpj⟩ := geo_label G j hj
      rcases Nat.lt_or_gt_of_ne hne with hlt | hgt
      · have h : qb P i j + 20 ≤ qb P i j0 :=
          bins_far _ _ _ hpj (G.gaps (i + j) (i + j0) (by omega) (by have := G.inside; omega))
        omega
      · have h : qb P i j0 + 20 ≤ qb P i j :=
          bins_far _ _ _ hp0 (G.gaps (i + j0) (i + j) (by omega) (by have := G.inside; omega))
        omega
  · rw [h0, Nat.mul_zero]
    symm
    apply sumTo_zero
    intro j hj
    unfold ind
    rw [if_neg]
    intro hc
    have : qv.getD x 0 = 1 := hiff.mpr ⟨j, hj, hc.2.1, hc.1⟩
    omega

/-- the correlation at a lag near the true one, label by label -/
theorem corr_eq (G : Geo P N i n start qv rv) (k : Nat) (hk1 : rb P start i ≤ k + 1) (hk2 : k ≤ rb P start i + 2) :
    dot (rv.drop k) qv = sumTo (fun j => sumTo (ind (qb P i j) (rb P start (i + j)) k) qv.length) n := by
  rw [dot_sumTo, ← sumTo_swap (fun j x => ind (qb P i j) (rb P start (i + j)) k x)]
  apply sumTo_congr
  intro x hx
  rw [Corr.getD_drop]
  exact term_eq G k hk1 hk2 x hx

theorem corr_I (G : Geo P N i n start qv rv) :
    dot (rv.drop (rb P start i - 1)) qv + (n - 1) ≤ dot (rv.drop (rb P start i)) qv := by
  have hk0 : 5 ≤ rb P start i := (geo_label G 0 (by have := G.many; omega)).2.2.1
  rw [corr_eq G _ (by omega) (by omega), corr_eq G _ (by omega) (by omega), ← sumTo_ge_one n, ← sumTo_add]
  apply sumTo_le
  intro j hj
  obtain ⟨h1, h2, h3, h4, h5, h6, _, _, _, _⟩ := geo_label G j hj
  by_cases hj0 : j = 0
  · obtain ⟨e1, e2⟩ := h5 hj0
    rw [e1, e2, if_neg (by omega)]
    exact lab_I0 _ _ h3 h4
  · rw [if_pos (by omega)]
    exact lab_I1 _ _ _ _ h1 h2 h3 (h6 (by omega))

theorem corr_II (G : Geo P N i n start qv rv) :
    dot (rv.drop (rb P start i + 2)) qv + (n - 1) ≤ dot (rv.drop (rb P start i + 1)) qv := by
  have e : n - 1 = min n (n - 1) := by omega
  rw [corr_eq G _ (by omega) (by omega), corr_eq G _ (by omega) (by omega), e,
    ← sumTo_lt_last n n (Nat.le_refl _), ← sumTo_add]
  apply sumTo_le
  intro j hj
  obtain ⟨h1, h2, h3, h4, h5, h6, h7, _, _, _⟩ := geo_label G j hj
  by_cases hjl : j + 1 < n
  · rw [if_pos hjl]
    refine lab_II1 _ _ _ _ h1 (h7 hjl) ?_ ?_
    · intro hb
      by_cases hj0 : j = 0
      · exact (h5 hj0).2
      · have := h6 (by omega); omega
    · by_cases hj0 : j = 0
      · exact Or.inl (h5 hj0).1
      · exact Or.inr (h6 (by omega))
  · rw [if_neg hjl]
    have := G.many
    exact lab_II0 _ _ _ _ h1 h2 (h6 (by omega))

theorem corr_III (G : Geo P N i n start qv rv) : 4 * n ≤ dot (rv.drop (rb P start i)) qv := by
  rw [corr_eq G _ (by omega) (by omega), Nat.mul_comm, ← sumTo_const 4 n]
  apply sumTo_le
  intro j hj
  obtain ⟨h1, h2, h3, h4, h5, h6, _, _, _, _⟩ := geo_label G j hj
  refine lab_III _ _ _ _ h1 h2 h4 ?_ ?_
  · intro hb
    by_cases hj0 : j = 0
    · exact (h5 hj0).2
    · have := h6 (by omega); omega
  · by_cases hj0 : j = 0
    · exact Or.inl (h5 hj0).1
    · exact Or.inr (h6 (by omega))

theorem corr_IV (G : Geo P N i n start qv rv) : sumNat qv ≤ 9 * n := by
  rw [sumNat_sumTo]
  have h1 : sumTo (fun x => qv.getD x 0) qv.length ≤
      sumTo (fun x => sumTo (fun j => indq (qb P i j) x) n) qv.length := by
    apply sumTo_le
    intro x hx
    obtain ⟨hb, hiff⟩ := G.qbit x hx
    rcases hb with h1 | h0
    · obtain ⟨j0, hj0, hx1, hx2⟩ := hiff.mp h1
      rw [h1]
      refine Nat.le_trans ?_ (sumTo_ge_term _ n j0 hj0)
      unfold indq
      rw [if_pos ⟨hx2, hx1⟩]
      exact Nat.le_refl _
    · rw [h0]; exact Nat.zero_le _
  refine Nat.le_trans h1 ?_
  rw [sumTo_swap (fun j x => indq (qb P i j) x), Nat.mul_comm, ← sumTo_const 9 n]
  apply sumTo_le
  intro j _
  exact lab_IV _ _

end

end Coma.Proofs.CopySeed
