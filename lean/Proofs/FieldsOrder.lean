/-
  Proofs/FieldsOrder.lean — C02: order of the start/end header fields, and monotonicity of the
  label coordinate in the strand's frame.
-/
import Proofs.Fields
import Proofs.Cmap
namespace Coma.Proofs
open Coma Coma.Spec

/-- in a list whose keys ascend, the key of the head is ≤ the key of the last element -/
theorem pairwise_le_head_getLast {α} (f : α → Int) (a : α) (t : List α)
    (h : ((a :: t).map f).Pairwise (· ≤ ·)) : f a ≤ f ((a :: t).getLast (by simp)) := by
  rw [List.map_cons, List.pairwise_cons] at h
  have hm := List.getLast_mem (l := a :: t) (by simp)
  rcases List.mem_cons.1 hm with e | m
  · rw [e]; exact Int.le_refl _
  · exact h.1 _ (List.mem_map_of_mem m)

/-- start/end order of a row whose pairs are listed with ascending reference and (frame) query coordinates -/
theorem row_start_end_order (P : Params) (segs : List Seg) (qid rid ql rl : Int) (rev : Bool)
    (ha : Ascending ((segs.flatMap Seg.pairs).map (fun p => p.r.pos)))
    (hq : Ascending ((segs.flatMap Seg.pairs).map (fun p => p.q.pos))) :
    let row := Row.create P segs qid rid ql rl rev
    row.rStart ≤ row.rEnd ∧ (rev = false → row.qStart ≤ row.qEnd) ∧ (rev = true → row.qEnd ≤ row.qStart) := by
  intro row
  cases h : segs.flatMap Seg.pairs with
  | nil =>
    cases rev <;> simp [row, Row.create, h, isort]
  | cons a t =>
    have hf : (segs.flatMap Seg.pairs).head? = some a := by rw [h]; rfl
    have hl : (segs.flatMap Seg.pairs).getLast? = some ((a :: t).getLast (by simp)) := by
      rw [h]; exact List.getLast?_eq_some_getLast (by simp)
    obtain ⟨h1, h2, h3, h4, -⟩ := row_create_fields P segs qid rid ql rl rev a _ hf hl ha
    have hr' := pairwise_le_head_getLast (fun (p : Pr) => p.r.pos) a t (by rw [← h]; exact ha)
    have hq' := pairwise_le_head_getLast (fun (p : Pr) => p.q.pos) a t (by rw [← h]; exact hq)
    refine ⟨?_, ?_, ?_⟩
    · show row.rStart ≤ row.rEnd
      rw [h1, h2]; exact hr'
    · intro hrev; subst hrev
      show row.qStart ≤ row.qEnd
      rw [h3, h4]; exact hq'
    · intro hrev; subst hrev
      show row.qEnd ≤ row.qStart
      rw [h3, h4]; exact hq'

/-- in the strand's frame the coordinate is monotone in the label number -/
theorem labels_frame_monotone (m : OMap) (rev : Bool) (hm : Ascending m.positions) (l1 l2 : Lbl)
    (h1 : l1 ∈ m.labels rev) (h2 : l2 ∈ m.labels rev) (hs : l1.site ≤ l2.site) :
    if rev then l2.pos ≤ l1.pos else l1.pos ≤ l2.pos := by
  obtain ⟨k1, p1, hk1, hs1, hp1⟩ := ((labels_spec m rev).2 l1).1 h1
  obtain ⟨k2, p2, hk2, hs2, hp2⟩ := ((labels_spec m rev).2 l2).1 h2
  have hk : k1 ≤ k2 := by omega
  have hp : p1 ≤ p2 := by
    obtain ⟨hlt1, e1⟩ := List.getElem?_eq_some_iff.mp hk1
    obtain ⟨hlt2, e2⟩ := List.getElem?_eq_some_iff.mp hk2
    rcases Nat.lt_or_eq_of_le hk with hlt | heq
    · have := (List.pairwise_iff_getElem.mp hm) k1 k2 hlt1 hlt2 hlt
      rw [e1, e2] at this; exact this
    · subst heq
      rw [← e1, ← e2]; exact Int.le_refl _
  cases rev
  · simp at hp1 hp2 ⊢; omega
  · simp at hp1 hp2 ⊢; omega

/-- the frame of a trimmed map: label numbers 1, 2, 3, … in file order; coordinate = distance from the
    first label on '+', from the last label on '-' -/
theorem trim_labels_frame (m : OMap) (p0 : Int) (ps : List Int) (hp : m.positions = p0 :: ps) (rev : Bool) (l : Lbl) :
    l ∈ m.trim.labels rev ↔ ∃ k : Nat, ∃ p, m.positions[k]? = some p ∧ l.site = (k : Int) + 1 ∧
      l.pos = (if rev then lastD p0 m.positions - p else p - p0) := by
  obtain ⟨hpos, -, -, hlen, -, -⟩ := trim_spec m p0 ps hp
  have hsh : m.trim.shift = 0 := by
    unfold OMap.trim
    rw [hp]
  rw [(labels_spec m.trim rev).2 l, hpos, hlen, hsh]
  constructor
  · rintro ⟨k, q, hq, hs, hl⟩
    rw [List.getElem?_map] at hq
    cases hk : m.positions[k]? with
    | none => rw [hk] at hq; simp at hq
    | some p =>
      rw [hk] at hq
      simp at hq
      refine ⟨k, p, hk, by omega, ?_⟩
      cases rev <;> simp at hl ⊢ <;> omega
  · rintro ⟨k, p, hk, hs, hl⟩
    refine ⟨k, p - p0, by rw [List.getElem?_map, hk]; rfl, by omega, ?_⟩
    cases rev <;> simp at hl ⊢ <;> omega

end Coma.Proofs
