/-
  Proofs/CopySeedRev_Corr.lean — the correlation of the reference vector with the REVERSED vector of the MIRROR IMAGE
  of an exact copy, at the five lags around the true one (helper for Proofs/CopySeedRev.lean).
  The reference side is described by `Geo` (Proofs/CopySeed_Corr.lean, with the forward query vector as a witness);
  `RevQ` describes the reversed vector of the mirror image: the run of label `j` is centred at
  `xb j = L - (last - Q_j) / 100 ∈ {Q_j / 100, Q_j / 100 + 1}`.
-/
import Proofs.CopySeed_Corr
namespace Coma.Proofs.CopySeed
open Coma Coma.Proofs Coma.Proofs.Corr

/-! ### per-label counts -/

theorem lab5_I0 (k0 L : Nat) (hk : 5 ≤ k0) (hL : 21 ≤ L) :
    sumTo (ind 0 k0 (k0 - 2)) L ≤ sumTo (ind 0 k0 (k0 - 1)) L := by
  rw [ind_sum _ _ _ _ (by omega), ind_sum _ _ _ _ (by omega)]
  omega

theorem lab5_I1 (b r k0 L : Nat) (h : r + 1 = b + k0 ∨ r = b + k0 ∨ r = b + k0 + 1) (hb : b < L) (hk : 5 ≤ k0)
    (h1 : 20 ≤ b) :
    sumTo (ind b r (k0 - 2)) L + 1 ≤ sumTo (ind b r (k0 - 1)) L := by
  rw [ind_sum _ _ _ _ (by omega), ind_sum _ _ _ _ (by omega)]
  omega

theorem lab5_II0 (b r k0 L : Nat) (h : r + 1 = b + k0 ∨ r = b + k0 ∨ r = b + k0 + 1) (hb : b < L) (h1 : 20 ≤ b) :
    sumTo (ind b r (k0 + 2)) L ≤ sumTo (ind b r (k0 + 1)) L := by
  rw [ind_sum _ _ _ _ (by omega), ind_sum _ _ _ _ (by omega)]
  omega

theorem lab5_II1 (b r k0 L : Nat) (h : r + 1 = b + k0 ∨ r = b + k0 ∨ r = b + k0 + 1) (hb : b + 21 ≤ L)
    (h0 : b = 0 → r = k0) (h1 : b = 0 ∨ 20 ≤ b) :
    sumTo (ind b r (k0 + 2)) L + 1 ≤ sumTo (ind b r (k0 + 1)) L := by
  rw [ind_sum _ _ _ _ (by omega), ind_sum _ _ _ _ (by omega)]
  omega

theorem lab5_III (b r k0 L : Nat) (h : r + 1 = b + k0 ∨ r = b + k0 ∨ r = b + k0 + 1) (hb : b < L) (hL : 21 ≤ L)
    (h0 : b = 0 → r = k0) (h1 : b = 0 ∨ 20 ≤ b) :
    4 ≤ sumTo (ind b r k0) L := by
  rw [ind_sum _ _ _ _ (by omega)]
  omega

/-! ### the reversed vector of the mirror image at label level -/

/-- bin of the mirror image of the `j`-th query label in the vector of the mirror image -/
def mb (P : Nat → Int) (i n j : Nat) : Nat := ((P (i + (n - 1)) - P (i + j)) / 100).toNat
/-- centre of the run of the `j`-th query label in the reversed vector of the mirror image -/
def xb (P : Nat → Int) (i n j : Nat) : Nat := qb P i (n - 1) - mb P i n j

structure RevQ (P : Nat → Int) (i n : Nat) (qv : List Nat) : Prop where
  qlen  : qv.length = qb P i (n - 1) + 1
  qbit  : ∀ x, x < qv.length → (qv.getD x 0 = 1 ∨ qv.getD x 0 = 0) ∧
            (qv.getD x 0 = 1 ↔ ∃ j, j < n ∧ x ≤ xb P i n j + 4 ∧ xb P i n j ≤ x + 4)

section
variable {P : Nat → Int} {N i n : Nat} {start : Int} {qf qv rv : List Nat}

/-- the arithmetic of one query label `j` on the reverse strand -/
theorem geo_label_rev (G : Geo P N i n start qf rv) (R : RevQ P i n qv) (j : Nat) (hj : j < n) :
    (rb P start (i + j) + 1 = xb P i n j + rb P start i ∨ rb P start (i + j) = xb P i n j + rb P start i ∨
      rb P start (i + j) = xb P i n j + rb P start i + 1) ∧
    xb P i n j < qv.length ∧ 5 ≤ rb P start i ∧ 21 ≤ qv.length ∧
    (j = 0 → xb P i n j = 0 ∧ rb P start (i + j) = rb P start i) ∧
    (1 ≤ j → 20 ≤ xb P i n j) ∧ (j + 1 < n → xb P i n j + 21 ≤ qv.length) ∧
    rb P start (i + j) + 20 < rv.length ∧ start ≤ P (i + j) := by
  have hst := G.hstart
  have hn := G.many
  have hin := G.inside
  have hlast : P (i + (n - 1)) + 2000 ≤ P (i + n) := G.gaps _ _ (by omega) (by omega)
  have hfirst : P i + 2000 ≤ P (i + (n - 1)) := G.gaps _ _ (by omega) (by omega)
  have hql := R.qlen
  have hrl := G.rlen
  have h0 : j = 0 → P (i + j) = P i := by intro h; subst h; rfl
  have h1 : 1 ≤ j → P i + 2000 ≤ P (i + j) := fun h => G.gaps _ _ (by omega) (by omega)
  have h2 : j + 1 < n → P (i + j) + 2000 ≤ P (i + (n - 1)) := fun h => G.gaps _ _ (by omega) (by omega)
  have h3 : j + 1 = n → P (i + j) = P (i + (n - 1)) := by
    intro h
    have : j = n - 1 := by omega
    rw [this]
  unfold xb mb qb rb at *
  refine ⟨?_, ?_, ?_, ?_, ?_, ?_, ?_, ?_, ?_⟩ <;> omega

/-- the runs of two different labels are at least 20 bins apart in the reversed vector -/
theorem xb_far (G : Geo P N i n start qf rv) (j j' : Nat) (hjj : j < j') (hj' : j' < n) :
    xb P i n j + 20 ≤ xb P i n j' := by
  have hin := G.inside
  have h1 : P (i + j) + 2000 ≤ P (i + j') := G.gaps _ _ (by omega) (by omega)
  have h2 : j' + 1 < n → P (i + j') + 2000 ≤ P (i + (n - 1)) := fun h => G.gaps _ _ (by omega) (by omega)
  have h3 : j' + 1 = n → P (i + j') = P (i + (n - 1)) := by
    intro h
    have : j' = n - 1 := by omega
    rw [this]
  have h4 : j = 0 → P (i + j) = P i := by intro h; subst h; rfl
  have h5 : 1 ≤ j → P i + 2000 ≤ P (i + j) := fun h => G.gaps _ _ (by omega) (by omega)
  unfold xb mb qb
  omega

/-- near the bin of the copied label `j` only that label sets reference bits (window of 8 bins) -/
theorem rv_near8 (G : Geo P N i n start qf rv) (j : Nat) (hj : j < n) (y : Nat)
    (hy1 : y ≤ rb P start (i + j) + 8) (hy2 : rb P start (i + j) ≤ y + 8) :
    (rv.getD y 0 = 1 ∨ rv.getD y 0 = 0) ∧
    (rv.getD y 0 = 1 ↔ (y ≤ rb P start (i + j) + 4 ∧ rb P start (i + j) ≤ y + 4)) := by
  obtain ⟨_, _, _, _, _, _, _, hlen, hsj, _⟩ := geo_label G j hj
  obtain ⟨hb, hiff⟩ := G.rbit y (by omega)
  refine ⟨hb, hiff.trans ⟨?_, ?_⟩⟩
  · rintro ⟨m, hm, hsm, _, hm1, hm2⟩
    rcases Nat.lt_trichotomy m (i + j) with hlt | heq | hgt
    · have h : rb P start m + 20 ≤ rb P start (i + j) :=
        bins_far _ _ _ hsm (G.gaps m (i + j) hlt (by have := G.inside; omega))
      omega
    · subst heq; exact ⟨hm1, hm2⟩
    · have h : rb P start (i + j) + 20 ≤ rb P start m :=
        bins_far _ _ _ hsj (G.gaps (i + j) m hgt hm)
      omega
  · rintro ⟨h1, h2⟩
    exact ⟨i + j, by have := G.inside; omega, hsj, by omega, h1, h2⟩

/-- one term of the correlation, label by label -/
theorem term_eq_rev (G : Geo P N i n start qf rv) (R : RevQ P i n qv) (k : Nat) (hk1 : rb P start i ≤ k + 2)
    (hk2 : k ≤ rb P start i + 2) (x : Nat) (hx : x < qv.length) :
    rv.getD (k + x) 0 * qv.getD x 0 = sumTo (fun j => ind (xb P i n j) (rb P start (i + j)) k x) n := by
  obtain ⟨hb, hiff⟩ := R.qbit x hx
  rcases hb with h1 | h0
  · obtain ⟨j0, hj0, hx1, hx2⟩ := hiff.mp h1
    obtain ⟨hc, _, _, _, _, _, _, _, _⟩ := geo_label_rev G R j0 hj0
    rw [sumTo_single _ n j0 hj0, h1, Nat.mul_one]
    · obtain ⟨hrb, hriff⟩ := rv_near8 G j0 hj0 (k + x) (by omega) (by omega)
      unfold ind
      split
      · rename_i hc
        exact hriff.mpr ⟨hc.2.2.2, hc.2.2.1⟩
      · rename_i hc
        rcases hrb with h | h
        · have := hriff.mp h
          omega
        · exact h
    · intro j hj hne
      unfold ind
      rw [if_neg]
      intro hc
      rcases Nat.lt_or_gt_of_ne hne with hlt | hgt
      · have h := xb_far G j j0 hlt hj0
        omega
      · have h := xb_far G j0 j hgt hj
        omega
  · rw [h0, Nat.mul_zero]
    symm
    apply sumTo_zero
    intro j hj
    unfold ind
    rw [if_neg]
    intro hc
    have : qv.getD x 0 = 1 := hiff.mpr ⟨j, hj, hc.2.1, hc.1⟩
    omega

/-- the correlation at a lag near the true one, label by label -/
theorem corr_eq_rev (G : Geo P N i n start qf rv) (R : RevQ P i n qv) (k : Nat) (hk1 : rb P start i ≤ k + 2)
    (hk2 : k ≤ rb P start i + 2) :
    dot (rv.drop k) qv = sumTo (fun j => sumTo (ind (xb P i n j) (rb P start (i + j)) k) qv.length) n := by
  rw [dot_sumTo, ← sumTo_swap (fun j x => ind (xb P i n j) (rb P start (i + j)) k x)]
  apply sumTo_congr
  intro x hx
  rw [Corr.getD_drop]
  exact term_eq_rev G R k hk1 hk2 x hx

/-- lower flank: the lag `k0 - 2` scores at least `n - 1` less than the lag `k0 - 1` -/
theorem corr5_I (G : Geo P N i n start qf rv) (R : RevQ P i n qv) :
    dot (rv.drop (rb P start i - 2)) qv + (n - 1) ≤ dot (rv.drop (rb P start i - 1)) qv := by
  have hk0 : 5 ≤ rb P start i := (geo_label G 0 (by have := G.many; omega)).2.2.1
  rw [corr_eq_rev G R _ (by omega) (by omega), corr_eq_rev G R _ (by omega) (by omega), ← sumTo_ge_one n,
    ← sumTo_add]
  apply sumTo_le
  intro j hj
  obtain ⟨h1, h2, h3, h4, h5, h6, _, _, _⟩ := geo_label_rev G R j hj
  by_cases hj0 : j = 0
  · obtain ⟨e1, e2⟩ := h5 hj0
    rw [e1, e2, if_neg (by omega)]
    exact lab5_I0 _ _ h3 h4
  · rw [if_pos (by omega)]
    exact lab5_I1 _ _ _ _ h1 h2 h3 (h6 (by omega))

/-- upper flank: the lag `k0 + 2` scores at least `n - 1` less than the lag `k0 + 1` -/
theorem corr5_II (G : Geo P N i n start qf rv) (R : RevQ P i n qv) :
    dot (rv.drop (rb P start i + 2)) qv + (n - 1) ≤ dot (rv.drop (rb P start i + 1)) qv := by
  have e : n - 1 = min n (n - 1) := by omega
  rw [corr_eq_rev G R _ (by omega) (by omega), corr_eq_rev G R _ (by omega) (by omega), e,
    ← sumTo_lt_last n n (Nat.le_refl _), ← sumTo_add]
  apply sumTo_le
  intro j hj
  obtain ⟨h1, h2, h3, h4, h5, h6, h7, _, _⟩ := geo_label_rev G R j hj
  by_cases hjl : j + 1 < n
  · rw [if_pos hjl]
    refine lab5_II1 _ _ _ _ h1 (h7 hjl) ?_ ?_
    · intro hb
      by_cases hj0 : j = 0
      · exact (h5 hj0).2
      · have := h6 (by omega); omega
    · by_cases hj0 : j = 0
      · exact Or.inl (h5 hj0).1
      · exact Or.inr (h6 (by omega))
  · rw [if_neg hjl]
    have := G.many
    exact lab5_II0 _ _ _ _ h1 h2 (h6 (by omega))

/-- the true lag scores at least 4 per label -/
theorem corr5_III (G : Geo P N i n start qf rv) (R : RevQ P i n qv) :
    4 * n ≤ dot (rv.drop (rb P start i)) qv := by
  rw [corr_eq_rev G R _ (by omega) (by omega), Nat.mul_comm, ← sumTo_const 4 n]
  apply sumTo_le
  intro j hj
  obtain ⟨h1, h2, h3, h4, h5, h6, _, _, _⟩ := geo_label_rev G R j hj
  refine lab5_III _ _ _ _ h1 h2 h4 ?_ ?_
  · intro hb
    by_cases hj0 : j = 0
    · exact (h5 hj0).2
    · have := h6 (by omega); omega
  · by_cases hj0 : j = 0
    · exact Or.inl (h5 hj0).1
    · exact Or.inr (h6 (by omega))

/-- at most 9 set bits per label -/
theorem corr5_IV (R : RevQ P i n qv) : sumNat qv ≤ 9 * n := by
  rw [sumNat_sumTo]
  have h1 : sumTo (fun x => qv.getD x 0) qv.length ≤
      sumTo (fun x => sumTo (fun j => indq (xb P i n j) x) n) qv.length := by
    apply sumTo_le
    intro x hx
    obtain ⟨hb, hiff⟩ := R.qbit x hx
    rcases hb with h1 | h0
    · obtain ⟨j0, hj0, hx1, hx2⟩ := hiff.mp h1
      rw [h1]
      refine Nat.le_trans ?_ (sumTo_ge_term _ n j0 hj0)
      unfold indq
      rw [if_pos ⟨hx2, hx1⟩]
      exact Nat.le_refl _
    · rw [h0]; exact Nat.zero_le _
  refine Nat.le_trans h1 ?_
  rw [sumTo_swap (fun j x => indq (xb P i n j) x), Nat.mul_comm, ← sumTo_const 9 n]
  apply sumTo_le
  intro j _
  exact lab_IV _ _

end

end Coma.Proofs.CopySeed
