import Proofs.Mirror_Chain
import Proofs.Conflict
import Proofs.Chain
namespace Coma.Proofs.Mirror
open Coma Coma.Spec

variable (σ τ : Int → Int)

/-- the `nullPr` comparison is the one place where a site NUMBER is read -/
def NullP (p : Pr) : Prop := p.q.pos = 0 → (σ p.q.site = 0 ↔ p.q.site = 0)
def NullOK (s : Seg) : Prop := ∀ p ∈ s.pairs, NullP σ p

def mapSP : SP → SP
  | .null => .null
  | .pr p => .pr (relabelPr σ τ p)

section inj
variable (hσ : ∀ a b, σ a = σ b → a = b)
include hσ

theorem lbl_inj (a b : Lbl) : ((⟨σ a.site, a.pos⟩ : Lbl) = ⟨σ b.site, b.pos⟩) ↔ a = b := by
  constructor
  · intro h
    injection h with h1 h2
    cases a; cases b
    simp only at h1 h2
    rw [hσ _ _ h1, h2]
  · rintro rfl; rfl

theorem PrleqAny_relabel (a o : Pr) : (relabelPr σ τ a).leqAny (relabelPr σ τ o) = a.leqAny o := by
  unfold Pr.leqAny relabelPr
  simp only [lbl_inj σ hσ]

theorem APosleqAny_relabel (a : APos) (o : Pr) :
    (relabelAPos σ τ a).leqAny (relabelPr σ τ o) = a.leqAny o := by
  cases a with
  | pair p => exact PrleqAny_relabel σ τ hσ p o
  | uref r => rfl
  | uqry q s => rfl

theorem pyEq_relabel (a b : APos) : (relabelAPos σ τ a).pyEq (relabelAPos σ τ b) = a.pyEq b := by
  cases a <;> cases b <;> simp [relabelAPos, APos.pyEq, relabelPr, lbl_inj σ hσ]

theorem SPleqAny_relabel (a o : SP) (ha : ∀ p, a = .pr p → NullP σ p) :
    (mapSP σ τ a).leqAny (mapSP σ τ o) = a.leqAny o := by
  cases a with
  | null => rfl
  | pr p =>
    cases o with
    | pr q => exact PrleqAny_relabel σ τ hσ p q
    | null =>
      have hp := ha p rfl
      simp only [mapSP, SP.leqAny, SP.toPr, Pr.leqAny, relabelPr, nullPr]
      congr 2
      apply decide_eq_decide.2
      unfold NullP at hp
      constructor
      · intro h
        injection h with h1 h2
        have := (hp h2).1 h1
        cases hq : p.q with
        | mk s ps => rw [hq] at this h2; simp only at this h2; rw [this, h2]
      · intro h
        rw [h] at hp ⊢
        simp only at hp
        have := (hp trivial).2 trivial
        rw [this]

end inj

theorem lessOnBoth_relabel (a : APos) (s : SP) :
    (relabelAPos σ τ a).lessOnBoth (mapSP σ τ s).toPr = a.lessOnBoth s.toPr := by
  cases s <;> cases a <;> rfl

theorem startPos_relabel (s : Seg) : (relabelSeg σ τ s).startPos = (s.startPos).map (mapSP σ τ) := by
  unfold Seg.startPos
  rw [segPairs_relabel]
  simp only [segItems_relabel, List.isEmpty_map]
  split
  · rfl
  · cases s.pairs <;> rfl

theorem endPos_relabel (s : Seg) : (relabelSeg σ τ s).endPos = (s.endPos).map (mapSP σ τ) := by
  unfold Seg.endPos
  rw [segPairs_relabel]
  simp only [segItems_relabel, List.isEmpty_map, List.getLast?_map]
  split
  · rfl
  · cases s.pairs.getLast? <;> rfl

theorem startPos_mem (s : Seg) (p : Pr) (h : s.startPos = .ok (.pr p)) : p ∈ s.pairs := by
  unfold Seg.startPos at h
  split at h
  · cases h
  · split at h
    · cases h
    · rename_i hp
      injection h with h; injection h with h
      rw [hp, h]; simp

theorem endPos_mem (s : Seg) (p : Pr) (h : s.endPos = .ok (.pr p)) : p ∈ s.pairs := by
  unfold Seg.endPos at h
  split at h
  · cases h
  · split at h
    · cases h
    · rename_i hp
      injection h with h; injection h with h
      subst h
      exact List.mem_of_getLast? hp

theorem endOverlaps_relabel (hσ : ∀ a b, σ a = σ b → a = b) (L R : Seg) (hL : NullOK σ L) (hR : NullOK σ R) :
    (relabelSeg σ τ L).endOverlapsWithStartOf (relabelSeg σ τ R) = L.endOverlapsWithStartOf R := by
  unfold Seg.endOverlapsWithStartOf
  simp only [startPos_relabel, endPos_relabel, segItems_relabel, List.isEmpty_map]
  simp only [bind, Except.bind, pure, Except.pure, Except.map]
  split
  · rfl
  · cases hos : R.startPos with
    | error e => rfl
    | ok os =>
      simp only
      cases hss : L.startPos with
      | error e => rfl
      | ok ss =>
        simp only
        rw [SPleqAny_relabel σ τ hσ os ss (fun p hp => hR p (startPos_mem R p (hp ▸ hos)))]
        split
        · rfl
        · cases hse : L.endPos with
          | error e => rfl
          | ok se =>
            simp only
            rw [SPleqAny_relabel σ τ hσ os se (fun p hp => hR p (startPos_mem R p (hp ▸ hos)))]
            split
            · rfl
            · cases hoe : R.endPos with
              | error e => rfl
              | ok oe =>
                simp only
                rw [SPleqAny_relabel σ τ hσ se oe (fun p hp => hL p (endPos_mem L p (hp ▸ hse)))]


theorem trimEnd_relabel (hσ : ∀ a b, σ a = σ b → a = b) (e : Pr) (xs : List APos) :
    trimEnd (relabelPr σ τ e) (xs.map (relabelAPos σ τ)) = (trimEnd e xs).map (List.map (relabelAPos σ τ)) := by
  unfold trimEnd
  rw [← List.map_reverse, List.dropWhile_map]
  have e1 : ((fun a => !a.isPair && !a.leqAny (relabelPr σ τ e)) ∘ relabelAPos σ τ) =
      (fun a => !a.isPair && !a.leqAny e) := by
    funext a
    simp [APosleqAny_relabel σ τ hσ]
  rw [e1]
  simp [Except.map, List.map_reverse]

theorem slice_relabel (hσ : ∀ a b, σ a = σ b → a = b) (s : Seg) (a : SP) (e : Pr) :
    (relabelSeg σ τ s).slice (mapSP σ τ a) (mapSP σ τ (.pr e)) =
      (s.slice a (.pr e)).map (relabelSeg σ τ) := by
  unfold Seg.slice
  simp only [segItems_relabel, segPeak_relabel]
  rw [List.dropWhile_map, List.takeWhile_map]
  have t1 : SP.toPr (mapSP σ τ (.pr e)) = relabelPr σ τ e := rfl
  have t2 : SP.toPr (.pr e) = e := rfl
  rw [t1, t2]
  have e1 : ((fun p => p.lessOnBoth (mapSP σ τ a).toPr) ∘ relabelAPos σ τ) = (fun p => p.lessOnBoth a.toPr) := by
    funext x; exact lessOnBoth_relabel σ τ x a
  have e2 : ((fun p => !p.isPair || p.leqAny (relabelPr σ τ e)) ∘ relabelAPos σ τ) =
      (fun p => !p.isPair || p.leqAny e) := by
    funext x; simp [APosleqAny_relabel σ τ hσ]
  rw [e1, e2, trimEnd_relabel σ τ hσ]
  simp only [bind, Except.bind, pure, Except.pure, Except.map]
  cases trimEnd e _ <;> rfl

theorem sub_relabel (hσ : ∀ a b, σ a = σ b → a = b) (s : Seg) (o : List APos) :
    (relabelSeg σ τ s).sub (o.map (relabelAPos σ τ)) = relabelSeg σ τ (s.sub o) := by
  unfold Seg.sub relabelSeg
  simp only [List.filter_map]
  congr 2
  congr 1
  funext p
  simp only [Function.comp_def, List.any_map, pyEq_relabel σ τ hσ]

theorem charsRef_relabel (P : Params) (i : Nat) (c : Int) (xs : List APos) :
    charsRef P i c (xs.map (relabelAPos σ τ)) = charsRef P i c xs := by
  induction xs generalizing i c with
  | nil => rfl
  | cons a as ih =>
    cases a <;> simp [relabelAPos, charsRef, ih, APos.score, relabelPr, Pr.dist]

def relabelLC (l : LabelChar) : LabelChar := ⟨⟨σ l.lbl.site, l.lbl.pos⟩, l.score, l.idx⟩

theorem charsQry_relabel (P : Params) (i : Nat) (c : Int) (xs : List APos) :
    charsQry P i c (xs.map (relabelAPos σ τ)) = (charsQry P i c xs).map (relabelLC σ) := by
  induction xs generalizing i c with
  | nil => rfl
  | cons a as ih =>
    cases a <;> simp [relabelAPos, charsQry, ih, APos.score, relabelPr, Pr.dist, relabelLC]


theorem endPos_ne_null (s : Seg) (h : s.items.isEmpty = false) : s.endPos ≠ .ok .null := by
  unfold Seg.endPos
  rw [h]
  simp only [Bool.false_eq_true, if_false]
  cases s.pairs.getLast? <;> simp

def relabelTriple (t : Seg × Seg × Branch) : Seg × Seg × Branch :=
  (relabelSeg σ τ t.1, relabelSeg σ τ t.2.1, t.2.2)

theorem tail_relabel (hσ : ∀ a b, σ a = σ b → a = b) (P : Params) (L R Lc Rc : Seg) :
    (let (lch, rch) :=
      if (relabelSeg σ τ Lc).peak > (relabelSeg σ τ Rc).peak then
        (charsRef P 0 0 (relabelSeg σ τ Lc).items, charsRef P 0 0 (relabelSeg σ τ Rc).items)
      else (charsQry P 0 0 (relabelSeg σ τ Lc).items, charsQry P 0 0 (relabelSeg σ τ Rc).items)
    (if lch.length = rch.length then
      let k := mergeIndex (lch.map (·.score)) (rch.map (·.score))
      if k = 0 then Except.ok ((relabelSeg σ τ L).sub (relabelSeg σ τ Lc).items, relabelSeg σ τ R, Branch.index0)
      else if k = lch.length then Except.ok (relabelSeg σ τ L, (relabelSeg σ τ R).sub (relabelSeg σ τ Rc).items, Branch.indexN)
      else
        let li := (lch[k]?).map (·.idx) |>.getD 0
        let ri := (rch[k]?).map (·.idx) |>.getD 0
        Except.ok ((relabelSeg σ τ L).sub ((relabelSeg σ τ Lc).items.drop li),
          (relabelSeg σ τ R).sub ((relabelSeg σ τ Rc).items.take ri), Branch.interior)
    else if (relabelSeg σ τ Lc).score P > (relabelSeg σ τ Rc).score P then
      Except.ok (relabelSeg σ τ L, (relabelSeg σ τ R).sub (relabelSeg σ τ Rc).items, Branch.dropRight)
    else Except.ok ((relabelSeg σ τ L).sub (relabelSeg σ τ Lc).items, relabelSeg σ τ R, Branch.dropLeft) : Except Err (Seg × Seg × Branch))) =
    Except.map (relabelTriple σ τ)
    (let (lch, rch) :=
      if Lc.peak > Rc.peak then (charsRef P 0 0 Lc.items, charsRef P 0 0 Rc.items)
      else (charsQry P 0 0 Lc.items, charsQry P 0 0 Rc.items)
    (if lch.length = rch.length then
      let k := mergeIndex (lch.map (·.score)) (rch.map (·.score))
      if k = 0 then Except.ok (L.sub Lc.items, R, Branch.index0)
      else if k = lch.length then Except.ok (L, R.sub Rc.items, Branch.indexN)
      else
        let li := (lch[k]?).map (·.idx) |>.getD 0
        let ri := (rch[k]?).map (·.idx) |>.getD 0
        Except.ok (L.sub (Lc.items.drop li), R.sub (Rc.items.take ri), Branch.interior)
    else if Lc.score P > Rc.score P then Except.ok (L, R.sub Rc.items, Branch.dropRight)
    else Except.ok (L.sub Lc.items, R, Branch.dropLeft) : Except Err (Seg × Seg × Branch))) := by
  simp only [segPeak_relabel, segItems_relabel, segScore_relabel, charsRef_relabel, charsQry_relabel]
  have hsc : ∀ l : List LabelChar, (l.map (relabelLC σ)).map (·.score) = l.map (·.score) := by
    intro l; simp [List.map_map, Function.comp_def, relabelLC]
  have hidx : ∀ (l : List LabelChar) (k : Nat),
      (((l.map (relabelLC σ))[k]?).map (·.idx)) = ((l[k]?).map (·.idx)) := by
    intro l k; simp [List.getElem?_map, Function.comp_def, relabelLC]
  split
  · split
    · split
      · simp [Except.map, relabelTriple, sub_relabel σ τ hσ]
      · split
        · simp [Except.map, relabelTriple, sub_relabel σ τ hσ]
        · simp only [Except.map, relabelTriple, ← List.map_drop, ← List.map_take, sub_relabel σ τ hσ]
    · split
      · simp [Except.map, relabelTriple, sub_relabel σ τ hσ]
      · simp [Except.map, relabelTriple, sub_relabel σ τ hσ]
  · simp only [List.length_map, hsc, hidx]
    split
    · split
      · simp [Except.map, relabelTriple, sub_relabel σ τ hσ]
      · split
        · simp [Except.map, relabelTriple, sub_relabel σ τ hσ]
        · simp only [Except.map, relabelTriple, ← List.map_drop, ← List.map_take, sub_relabel σ τ hσ]
    · split
      · simp [Except.map, relabelTriple, sub_relabel σ τ hσ]
      · simp [Except.map, relabelTriple, sub_relabel σ τ hσ]

theorem resolvePairB_relabel (hσ : ∀ a b, σ a = σ b → a = b) (P : Params) (L R : Seg)
    (hL : NullOK σ L) (hR : NullOK σ R) :
    resolvePairB P (relabelSeg σ τ L) (relabelSeg σ τ R) =
      (resolvePairB P L R).map (relabelTriple σ τ) := by
  unfold resolvePairB
  simp only [bind, Except.bind, pure, Except.pure]
  rw [endOverlaps_relabel σ τ hσ L R hL hR, startPos_relabel, endPos_relabel]
  simp only [segItems_relabel, List.isEmpty_map]
  split
  · rfl
  · rename_i hne
    cases L.endOverlapsWithStartOf R with
    | error e => rfl
    | ok ov =>
      cases ov with
      | false => rfl
      | true =>
        simp only [Bool.not_true, Bool.false_eq_true, if_false]
        cases R.startPos with
        | error e => rfl
        | ok cs =>
          simp only [Except.map]
          cases hce : L.endPos with
          | error e => rfl
          | ok ce =>
            cases ce with
            | null => exact absurd hce (endPos_ne_null L (by simpa using hne))
            | pr e =>
              simp only
              rw [slice_relabel σ τ hσ L cs e, slice_relabel σ τ hσ R cs e]
              cases L.slice cs (.pr e) with
              | error e => rfl
              | ok Lc =>
                simp only [Except.map]
                cases R.slice cs (.pr e) with
                | error e => rfl
                | ok Rc =>
                  simp only
                  exact tail_relabel σ τ hσ P L R Lc Rc


theorem nullOK_of_sublist {a b : Seg} (h : a.items.Sublist b.items) (hb : NullOK σ b) : NullOK σ a :=
  fun p hp => hb p ((h.filterMap APos.pair?).subset hp)

theorem resolveFrom_relabel (hσ : ∀ a b, σ a = σ b → a = b) (P : Params) (rest : List Seg) :
    ∀ l : Seg, NullOK σ l → (∀ s ∈ rest, NullOK σ s) →
    resolveFrom P (relabelSeg σ τ l) (rest.map (relabelSeg σ τ)) =
      (resolveFrom P l rest).map (List.map (relabelSeg σ τ)) := by
  induction rest with
  | nil => intro l _ _; rfl
  | cons r rest ih =>
    intro l hl hrest
    have hr : NullOK σ r := hrest r (by simp)
    simp only [List.map_cons, resolveFrom, resolvePair, bind, Except.bind, pure, Except.pure]
    rw [resolvePairB_relabel σ τ hσ P l r hl hr]
    cases h : resolvePairB P l r with
    | error e => rfl
    | ok t =>
      obtain ⟨l', r', b⟩ := t
      have hr' : NullOK σ r' := nullOK_of_sublist σ (resolve_sublist P l r l' r' b h).2.1 hr
      simp only [Except.map, relabelTriple]
      rw [ih r' hr' (fun s hs => hrest s (List.mem_cons_of_mem _ hs))]
      cases resolveFrom P r' rest <;> rfl

theorem withEnds?_fst : ∀ (l : List Seg) (ne : List (Seg × Ends)), withEnds? l = some ne → ne.map (·.1) = l
  | [], ne, h => by simp [withEnds?] at h; subst h; rfl
  | s :: ss, ne, h => by
    simp only [withEnds?] at h
    cases he : s.ends? with
    | none => simp [he] at h
    | some e =>
      cases hw : withEnds? ss with
      | none => simp [he, hw] at h
      | some rest =>
        simp [he, hw] at h
        subst h
        simp [withEnds?_fst ss rest hw]

theorem chainSegs_mem (P : Params) (C : ChainCfg) (segs out : List Seg) (h : chainSegs P C segs = some out) :
    ∀ s ∈ out, s ∈ segs := by
  obtain ⟨ne, hne, sel, hsel, rfl⟩ := chainSegs_shape P C segs out h
  intro s hs
  rcases List.mem_append.1 hs with hs | hs
  · obtain ⟨x, hx, rfl⟩ := List.mem_map.1 hs
    have hx' : x ∈ ne := (mem_isort _ _ _).1 (hsel.subset hx)
    have : x.1 ∈ ne.map (·.1) := List.mem_map.2 ⟨x, hx', rfl⟩
    rw [withEnds?_fst _ _ hne] at this
    exact (List.mem_filter.1 this).1
  · exact (List.mem_filter.1 hs).1

theorem resolveConflicts_relabel_of (hσ : ∀ a b, σ a = σ b → a = b) (P : Params) (C : ChainCfg) (segs : List Seg)
    (hz : ∀ s ∈ segs, NullOK σ s) :
    resolveConflicts P C (segs.map (relabelSeg σ τ)) =
      (resolveConflicts P C segs).map (List.map (relabelSeg σ τ)) := by
  match segs, hz with
  | [], _ => rfl
  | [a], _ => rfl
  | a :: b :: t, hz =>
    simp only [List.map_cons, resolveConflicts]
    have := chainSegs_relabel σ τ P C (a :: b :: t)
    simp only [List.map_cons] at this
    rw [this]
    cases h : chainSegs P C (a :: b :: t) with
    | none => rfl
    | some out =>
      have hm := chainSegs_mem P C _ out h
      cases out with
      | nil => rfl
      | cons c cs =>
        simp only [Option.map_some, List.map_cons]
        exact resolveFrom_relabel σ τ hσ P cs c (hz c (hm c (by simp)))
          (fun s hs => hz s (hm s (List.mem_cons_of_mem _ hs)))

end Coma.Proofs.Mirror
