import Props.Defs
import Proofs.Compose_Factory
import Proofs.Chain
import Proofs.Conflict
import Proofs.ConflictAll
namespace Coma.Proofs.Compose
open Coma Coma.Spec

/-! ### the factory never raises for a non-positive unmatched penalty -/

theorem segmentsOfPeak_ok (P : Params) (hsu : P.su ≤ 0) (ref qry : OMap) (rev : Bool) (it peak : Int) :
    segmentsOfPeak P ref qry rev it peak
      = .ok (getSegments P peak (peakPositions P ref qry rev it peak)) := by
  have hd : decide (P.su > 0) = false := by
    rw [decide_eq_false_iff_not]; omega
  simp [segmentsOfPeak, scoreAll?, hd, peakPositions]

theorem segmentsOfPeaks_ok (P : Params) (hsu : P.su ≤ 0) (ref qry : OMap) (rev : Bool) :
    ∀ (peaks : List Int) (it : Int), ∃ segs, segmentsOfPeaks P ref qry rev it peaks = .ok segs ∧
      ∀ s ∈ segs, ∃ peak ∈ peaks, ∃ it',
        s ∈ getSegments P peak (peakPositions P ref qry rev it' peak)
  | [], it => ⟨[], rfl, fun s hs => by cases hs⟩
  | p :: ps, it => by
    obtain ⟨b, hb, hbs⟩ := segmentsOfPeaks_ok P hsu ref qry rev ps (it + 1)
    refine ⟨getSegments P p (peakPositions P ref qry rev it p) ++ b, ?_, ?_⟩
    · simp only [segmentsOfPeaks, segmentsOfPeak_ok P hsu, hb, bind, Except.bind, pure, Except.pure]
    · intro s hs
      rcases List.mem_append.1 hs with hs | hs
      · exact ⟨p, List.mem_cons_self .., it, hs⟩
      · obtain ⟨pk, hpk, it', h⟩ := hbs s hs
        exact ⟨pk, List.mem_cons_of_mem _ hpk, it', h⟩

/-! ### the chain is made of input segments -/

theorem withEnds?_map_fst : ∀ (l : List Seg) (ne : List (Seg × Ends)),
    withEnds? l = some ne → ne.map (·.1) = l
  | [], ne, h => by
    simp only [withEnds?, Option.some.injEq] at h
    subst h; rfl
  | s :: ss, ne, h => by
    unfold withEnds? at h
    cases h1 : s.ends? with
    | none => rw [h1] at h; cases h
    | some e =>
      cases h2 : withEnds? ss with
      | none => rw [h1, h2] at h; cases h
      | some rest =>
        rw [h1, h2] at h
        simp only [Option.some.injEq] at h
        subst h
        simp only [List.map_cons, withEnds?_map_fst ss rest h2]

theorem chainSegs_subset (P : Params) (C : ChainCfg) (segs out : List Seg)
    (h : chainSegs P C segs = some out) : ∀ c ∈ out, c ∈ segs := by
  obtain ⟨ne, hne, sel, hsel, rfl⟩ := chainSegs_shape P C segs out h
  intro c hc
  rcases List.mem_append.1 hc with hc | hc
  · obtain ⟨x, hx, rfl⟩ := List.mem_map.1 hc
    have hx' : x ∈ ne := (mem_isort _ _ _).1 (hsel.subset hx)
    have : x.1 ∈ ne.map (·.1) := List.mem_map_of_mem hx'
    rw [withEnds?_map_fst _ _ hne] at this
    exact (List.mem_filter.1 this).1
  · exact (List.mem_filter.1 hc).1

theorem factoryLike_pairs_ne_nil {s : Seg} (hF : FactoryLike s) (he : s.isEmpty = false) :
    s.pairs ≠ [] := by
  rcases hF.2.first with h0 | ⟨p, hp⟩
  · simp [Seg.isEmpty, h0] at he
  · obtain ⟨peak, items⟩ := s
    cases items with
    | nil => simp at hp
    | cons a tl =>
      simp only [List.head?_cons, Option.some.injEq] at hp
      subst hp
      simp [Seg.pairs, APos.pair?]

theorem forall2_mem {α β} {R : α → β → Prop} {as : List α} {bs : List β} (h : Forall2 R as bs) :
    ∀ a ∈ as, ∃ b ∈ bs, R a b := by
  induction h with
  | nil => intro a ha; cases ha
  | cons hr _ ih =>
    intro a ha
    rcases List.mem_cons.1 ha with rfl | ha
    · exact ⟨_, List.mem_cons_self .., hr⟩
    · obtain ⟨b, hb, hab⟩ := ih a ha
      exact ⟨b, List.mem_cons_of_mem _ hb, hab⟩

/-- resolving conflicts among factory-like segments never raises, and every output is a
    contiguous run of an input segment with the same peak -/
theorem resolveConflicts_spec (P : Params) (C : ChainCfg) (segs : List Seg)
    (hF : ∀ s ∈ segs, FactoryLike s) :
    ∃ out, resolveConflicts P C segs = .ok out ∧
      ∀ o ∈ out, ∃ i ∈ segs, o.items <:+: i.items ∧ o.peak = i.peak := by
  have triv : ∀ o ∈ segs, ∃ i ∈ segs, o.items <:+: i.items ∧ o.peak = i.peak :=
    fun o ho => ⟨o, ho, List.infix_refl _, rfl⟩
  cases segs with
  | nil => exact ⟨[], rfl, triv⟩
  | cons a t =>
    cases t with
    | nil => exact ⟨[a], rfl, triv⟩
    | cons b t =>
      have e : resolveConflicts P C (a :: b :: t) =
          match chainSegs P C (a :: b :: t) with
          | none => .error .indexError
          | some [] => .ok []
          | some (c :: cs) => resolveFrom P c cs := rfl
      rw [e]
      cases hch : chainSegs P C (a :: b :: t) with
      | none =>
        obtain ⟨s, hs, he, hp⟩ := (chainSegs_none_iff P C _).1 hch
        exact absurd hp (factoryLike_pairs_ne_nil (hF s hs) he)
      | some ch =>
        have hsub := chainSegs_subset P C _ ch hch
        cases ch with
        | nil => exact ⟨[], rfl, fun o ho => by cases ho⟩
        | cons c cs =>
          have hF' : ∀ s ∈ c :: cs, FactoryLike s := fun s hs => hF s (hsub s hs)
          obtain ⟨out, hout⟩ := resolveFrom_total P c cs hF'
          refine ⟨out, hout, ?_⟩
          intro o ho
          obtain ⟨i, hi, hoi⟩ := forall2_mem (resolveFrom_subrun P c cs out hout hF') o ho
          exact ⟨i, hsub i hi, hoi⟩

/-! ### the whole candidate -/

theorem alignerAlign_spec (P : Params) (C : ChainCfg) (hP : GoodParams P) (ref qry : OMap)
    (peaks : List Int) (rev : Bool) (it : Int)
    (hr : StrictAscending ref.positions) (hq : StrictAscending qry.positions) :
    ∃ out, alignerAlign P C ref qry peaks rev it
        = .ok (Row.create P out qry.id ref.id qry.length ref.length rev) ∧
      ∀ s ∈ out, ∃ peak ∈ peaks, ∃ it',
        s.peak = peak ∧ s.items <:+: peakPositions P ref qry rev it' peak := by
  obtain ⟨segs, hsegs, hsrc⟩ := segmentsOfPeaks_ok P hP.su_nonpos ref qry rev peaks it
  have hok : ∀ s ∈ segs, ∃ peak ∈ peaks, ∃ it',
      FactoryLike s ∧ s.peak = peak ∧ s.items <:+: peakPositions P ref qry rev it' peak := by
    intro s hs
    obtain ⟨pk, hpk, it', h⟩ := hsrc s hs
    exact ⟨pk, hpk, it', segments_ok P hP pk _ (engine_pyNodup ..)
      (engine_pairsAscending _ _ _ _ _ _ _ hr hq) s h⟩
  obtain ⟨out, hout, hsub⟩ := resolveConflicts_spec P C segs (fun s hs => by
    obtain ⟨_, _, _, h, _⟩ := hok s hs; exact h)
  refine ⟨out, ?_, ?_⟩
  · simp only [alignerAlign, hsegs, hout, bind, Except.bind, pure, Except.pure]
  · intro s hs
    obtain ⟨i, hi, hinf, hpk⟩ := hsub s hs
    obtain ⟨pk, hpkm, it', _, hipk, hiinf⟩ := hok i hi
    exact ⟨pk, hpkm, it', hpk.trans hipk, hinf.trans hiinf⟩

end Coma.Proofs.Compose
