import Props.Defs
namespace Coma.Proofs
open Coma Coma.Spec

theorem engine_sorted (md : Int) (ref qry : OMap) (start stop : Int) (rev : Bool) (it : Int) :
    Ascending ((engineAlign md ref qry start stop rev it).map APos.abs) := by
  sorry

theorem engine_partition_ref (md : Int) (ref qry : OMap) (start stop : Int) (rev : Bool) (it : Int) :
    ((engineAlign md ref qry start stop rev it).filterMap refLabel?).Perm (refWindow md ref start stop) := by
  sorry

theorem engine_partition_qry (md : Int) (ref qry : OMap) (start stop : Int) (rev : Bool) (it : Int) :
    ((engineAlign md ref qry start stop rev it).filterMap qryLabel?).Perm (qry.labels rev) := by
  sorry

theorem refWindow_mem (md : Int) (ref : OMap) (start stop : Int) (hr : Ascending ref.positions) (l : Lbl) :
    l ∈ refWindow md ref start stop ↔ (l ∈ ref.labels false ∧ start - md ≤ l.pos ∧ l.pos ≤ stop + md) := by
  sorry

theorem engine_within (md : Int) (ref qry : OMap) (start stop : Int) (rev : Bool) (it : Int)
    (hq : Ascending qry.positions) (p : Pr)
    (hp : APos.pair p ∈ engineAlign md ref qry start stop rev it) :
    p.r ∈ refWindow md ref start stop ∧ p.q ∈ qry.labels rev ∧
    p.shift = offset start p.r p.q ∧ -md ≤ p.shift ∧ p.shift ≤ md := by
  sorry

theorem engine_uqry_seed (md : Int) (ref qry : OMap) (start stop : Int) (rev : Bool) (it : Int)
    (q : Lbl) (s : Int) (h : APos.uqry q s ∈ engineAlign md ref qry start stop rev it) : s = start := by
  sorry

theorem engine_one_to_one (md : Int) (ref qry : OMap) (start stop : Int) (rev : Bool) (it : Int) :
    ((pairsOf (engineAlign md ref qry start stop rev it)).map (fun p => p.r.site)).Nodup ∧
    ((pairsOf (engineAlign md ref qry start stop rev it)).map (fun p => p.q.site)).Nodup := by
  sorry

theorem engine_iteration_irrelevant (md : Int) (ref qry : OMap) (start stop : Int) (rev : Bool) (it it' : Int) :
    (engineAlign md ref qry start stop rev it).map APos.eraseSrc =
    (engineAlign md ref qry start stop rev it').map APos.eraseSrc := by
  sorry

end Coma.Proofs
