import Props.Defs
import Proofs.SortLemmas
namespace Coma.Proofs
open Coma Coma.Spec

/-! ### dedupByKey -/

/-- the survivors of `dedupByKey` form a sublist of the key-sorted input -/
theorem dedupByKey_sublist (key : Pr → Int) (ps : List Pr) :
    (dedupByKey key ps).Sublist (isort key ps) := by
  have h := filterMap_minBy?_sublist Pr.dist (groupAdj key (isort key ps))
  rw [groupAdj_flatten] at h
  exact h

theorem dedupByKey_mem (key : Pr → Int) (ps : List Pr) (p : Pr) (h : p ∈ dedupByKey key ps) :
    p ∈ ps :=
  (mem_isort key ps p).1 ((dedupByKey_sublist key ps).subset h)

/-- duplicate-freeness of any projection survives `dedupByKey` -/
theorem dedupByKey_nodup_map {β} (key : Pr → Int) (g : Pr → β) (ps : List Pr)
    (h : (ps.map g).Nodup) : ((dedupByKey key ps).map g).Nodup :=
  ((dedupByKey_sublist key ps).map g).nodup (((isort_perm key ps).map g).nodup_iff.2 h)

/-- the keys of the survivors are strictly increasing -/
theorem dedupByKey_keys_lt (key : Pr → Int) (ps : List Pr) :
    ((dedupByKey key ps).map key).Pairwise (· < ·) := by
  rw [List.pairwise_map]
  unfold dedupByKey
  refine List.Pairwise.filterMap (minBy? Pr.dist) ?_
    (groupAdj_sorted key _ (isort_sorted key ps))
  intro g g' hgg' b hb b' hb'
  exact hgg' b (minBy?_some _ _ _ hb).1 b' (minBy?_some _ _ _ hb').1

theorem dedupByKey_keys_nodup (key : Pr → Int) (ps : List Pr) :
    ((dedupByKey key ps).map key).Nodup :=
  (dedupByKey_keys_lt key ps).imp (fun h => Int.ne_of_lt h)

/-- every key of the input survives, and the survivor has minimal distance for its key -/
theorem dedupByKey_min (key : Pr → Int) (ps : List Pr) (p : Pr) (hp : p ∈ ps) :
    ∃ m ∈ dedupByKey key ps, key m = key p ∧ ∀ x ∈ ps, key x = key p → m.dist ≤ x.dist := by
  have hp' : p ∈ isort key ps := (mem_isort key ps p).2 hp
  obtain ⟨g, hg, hpg⟩ := exists_group_of_mem key _ p hp'
  obtain ⟨m, hm⟩ := minBy?_isSome Pr.dist g (groupAdj_ne_nil key _ g hg)
  have hmg := minBy?_some Pr.dist g m hm
  have hkey := groupAdj_key_eq key _ g hg
  refine ⟨m, List.mem_filterMap.2 ⟨g, hg, hm⟩, hkey m hmg.1 p hpg, ?_⟩
  intro x hx hxp
  have hx' : x ∈ isort key ps := (mem_isort key ps x).2 hx
  obtain ⟨g', hg', hxg'⟩ := exists_group_of_mem key _ x hx'
  -- `x` lies in the same group as `p` since groups have pairwise distinct keys
  have hsame : g' = g :=
    groupAdj_unique key _ (isort_sorted key ps) g' g hg' hg x p hxg' hpg hxp
  subst hsame
  exact hmg.2 x hxg'

/-- `dedupByKey` commutes with a map preserving key and distance -/
theorem dedupByKey_map (f : Pr → Pr) (key : Pr → Int) (hk : ∀ p, key (f p) = key p)
    (hd : ∀ p, (f p).dist = p.dist) (ps : List Pr) :
    dedupByKey key (ps.map f) = (dedupByKey key ps).map f := by
  unfold dedupByKey
  rw [isort_map f key key hk, groupAdj_map f key key hk, List.filterMap_map, List.map_filterMap]
  congr 1
  funext g
  simp only [Function.comp]
  rw [minBy?_map f Pr.dist Pr.dist hd]

/-! ### labels -/

theorem labelsFwd_pos (i : Int) (ps : List Int) : (labelsFwd i ps).map Lbl.pos = ps := by
  induction ps generalizing i with
  | nil => rfl
  | cons p ps ih => simp [labelsFwd, ih]

theorem labelsRev_pos (i e : Int) (ps : List Int) :
    (labelsRev i e ps).map Lbl.pos = ps.map (fun p => e - p) := by
  induction ps generalizing i with
  | nil => rfl
  | cons p ps ih => simp [labelsRev, ih]

theorem labelsFwd_site_ge (i : Int) (ps : List Int) : ∀ l ∈ labelsFwd i ps, i ≤ l.site := by
  induction ps generalizing i with
  | nil => intro l hl; cases hl
  | cons p ps ih =>
    intro l hl
    simp only [labelsFwd, List.mem_cons] at hl
    rcases hl with rfl | hl
    · exact Int.le_refl _
    · have := ih (i + 1) l hl; omega

theorem labelsRev_site_le (i e : Int) (ps : List Int) : ∀ l ∈ labelsRev i e ps, l.site ≤ i := by
  induction ps generalizing i with
  | nil => intro l hl; cases hl
  | cons p ps ih =>
    intro l hl
    simp only [labelsRev, List.mem_cons] at hl
    rcases hl with rfl | hl
    · exact Int.le_refl _
    · have := ih (i - 1) l hl; omega

theorem labelsFwd_site_lt (i : Int) (ps : List Int) :
    ((labelsFwd i ps).map Lbl.site).Pairwise (· < ·) := by
  induction ps generalizing i with
  | nil => simp [labelsFwd]
  | cons p ps ih =>
    simp only [labelsFwd, List.map_cons, List.pairwise_cons]
    refine ⟨?_, ih (i + 1)⟩
    intro s hs
    obtain ⟨l, hl, rfl⟩ := List.mem_map.1 hs
    have := labelsFwd_site_ge (i + 1) ps l hl; omega

theorem labelsRev_site_gt (i e : Int) (ps : List Int) :
    ((labelsRev i e ps).map Lbl.site).Pairwise (· > ·) := by
  induction ps generalizing i with
  | nil => simp [labelsRev]
  | cons p ps ih =>
    simp only [labelsRev, List.map_cons, List.pairwise_cons]
    refine ⟨?_, ih (i - 1)⟩
    intro s hs
    obtain ⟨l, hl, rfl⟩ := List.mem_map.1 hs
    have := labelsRev_site_le (i - 1) e ps l hl; omega

theorem labels_site_nodup (m : OMap) (rev : Bool) : ((m.labels rev).map Lbl.site).Nodup := by
  unfold OMap.labels
  split
  · exact (labelsRev_site_gt _ _ _).imp (fun h => Int.ne_of_gt h)
  · exact (labelsFwd_site_lt _ _).imp (fun h => Int.ne_of_lt h)

theorem labels_pos_asc (m : OMap) (rev : Bool) (h : Ascending m.positions) :
    ((m.labels rev).map Lbl.pos).Pairwise (· ≤ ·) := by
  unfold OMap.labels
  split
  · rw [labelsRev_pos, List.pairwise_map, List.pairwise_reverse]
    exact h.imp (fun {a b} hab => by omega)
  · rw [labelsFwd_pos]; exact h

/-! ### window -/

theorem window_sublist (lo hi : Int) (xs : List Lbl) : (window lo hi xs).Sublist xs :=
  (List.takeWhile_sublist _).trans (List.dropWhile_sublist _)

theorem mem_dropWhile_sorted (lo : Int) (xs : List Lbl) (h : (xs.map Lbl.pos).Pairwise (· ≤ ·))
    (x : Lbl) : x ∈ xs.dropWhile (fun x => decide (x.pos < lo)) ↔ x ∈ xs ∧ lo ≤ x.pos := by
  induction xs with
  | nil => simp
  | cons y ys ih =>
    rw [List.map_cons, List.pairwise_cons] at h
    rw [List.dropWhile_cons]
    by_cases hy : y.pos < lo
    · simp only [hy, decide_true, if_true]
      rw [ih h.2, List.mem_cons]
      constructor
      · rintro ⟨h1, h2⟩; exact ⟨Or.inr h1, h2⟩
      · rintro ⟨h1 | h1, h2⟩
        · subst h1; omega
        · exact ⟨h1, h2⟩
    · simp only [hy, decide_false]
      constructor
      · intro hx
        refine ⟨hx, ?_⟩
        rcases List.mem_cons.1 hx with rfl | hx'
        · omega
        · have := h.1 _ (List.mem_map_of_mem (f := Lbl.pos) hx'); omega
      · exact fun hx => hx.1

theorem mem_takeWhile_sorted (hi : Int) (xs : List Lbl) (h : (xs.map Lbl.pos).Pairwise (· ≤ ·))
    (x : Lbl) : x ∈ xs.takeWhile (fun x => decide (x.pos ≤ hi)) ↔ x ∈ xs ∧ x.pos ≤ hi := by
  induction xs with
  | nil => simp
  | cons y ys ih =>
    rw [List.map_cons, List.pairwise_cons] at h
    rw [List.takeWhile_cons]
    by_cases hy : y.pos ≤ hi
    · simp only [hy, decide_true, if_true]
      rw [List.mem_cons, ih h.2, List.mem_cons]
      constructor
      · rintro (h1 | ⟨h1, h2⟩)
        · subst h1; exact ⟨Or.inl rfl, hy⟩
        · exact ⟨Or.inr h1, h2⟩
      · rintro ⟨h1 | h1, h2⟩
        · exact Or.inl h1
        · exact Or.inr ⟨h1, h2⟩
    · simp only [hy, decide_false]
      constructor
      · intro hx; simp at hx
      · rintro ⟨hx, hxh⟩
        exfalso
        rcases List.mem_cons.1 hx with rfl | hx'
        · exact hy hxh
        · have := h.1 _ (List.mem_map_of_mem (f := Lbl.pos) hx'); omega

/-- on a position-sorted list the window holds exactly the labels with `lo ≤ pos ≤ hi` -/
theorem mem_window (lo hi : Int) (xs : List Lbl) (h : (xs.map Lbl.pos).Pairwise (· ≤ ·))
    (x : Lbl) : x ∈ window lo hi xs ↔ x ∈ xs ∧ lo ≤ x.pos ∧ x.pos ≤ hi := by
  unfold window
  have hd : ((xs.dropWhile (fun x => decide (x.pos < lo))).map Lbl.pos).Pairwise (· ≤ ·) :=
    List.Pairwise.sublist ((List.dropWhile_sublist _).map Lbl.pos) h
  rw [mem_takeWhile_sorted hi _ hd, mem_dropWhile_sorted lo xs h]
  exact and_assoc

theorem refWindow_sublist (md : Int) (ref : OMap) (start stop : Int) :
    (refWindow md ref start stop).Sublist (ref.labels false) :=
  window_sublist _ _ _

theorem refWindow_site_nodup (md : Int) (ref : OMap) (start stop : Int) :
    ((refWindow md ref start stop).map Lbl.site).Nodup :=
  ((refWindow_sublist md ref start stop).map Lbl.site).nodup (labels_site_nodup ref false)

/-! ### candidates / dedup -/

theorem mem_candidates (md start it : Int) (refs qs : List Lbl) (p : Pr) :
    p ∈ candidates md start it refs qs ↔
      ∃ r ∈ refs, ∃ q ∈ window (r.pos - start - md) (r.pos - start + md) qs,
        p = { r := r, q := q, shift := q.pos - (r.pos - start), src := it } := by
  unfold candidates
  simp only [List.mem_flatMap, List.mem_map]
  constructor
  · rintro ⟨r, hr, q, hq, rfl⟩; exact ⟨r, hr, q, hq, rfl⟩
  · rintro ⟨r, hr, q, hq, rfl⟩; exact ⟨r, hr, q, hq, rfl⟩

theorem dedup_mem (ps : List Pr) (p : Pr) (h : p ∈ dedup ps) : p ∈ ps :=
  dedupByKey_mem _ _ _ (dedupByKey_mem _ _ _ h)

theorem dedup_rsite_nodup (ps : List Pr) : ((dedup ps).map (fun p => p.r.site)).Nodup :=
  dedupByKey_keys_nodup _ _

theorem dedup_qsite_nodup (ps : List Pr) : ((dedup ps).map (fun p => p.q.site)).Nodup :=
  dedupByKey_nodup_map _ _ _ (dedupByKey_keys_nodup _ _)

/-! ### projections of the engine output -/

theorem filterMap_ref_pair (ps : List Pr) :
    (ps.map APos.pair).filterMap refLabel? = ps.map (fun p => p.r) := by
  induction ps with
  | nil => rfl
  | cons p ps ih => simp only [List.map_cons, List.filterMap_cons, refLabel?, ih]

theorem filterMap_ref_uref (rs : List Lbl) : (rs.map APos.uref).filterMap refLabel? = rs := by
  induction rs with
  | nil => rfl
  | cons p ps ih => simp only [List.map_cons, List.filterMap_cons, refLabel?, ih]

theorem filterMap_ref_uqry (qs : List Lbl) (s : Int) :
    (qs.map (fun q => APos.uqry q s)).filterMap refLabel? = [] := by
  induction qs with
  | nil => rfl
  | cons p ps ih => simp only [List.map_cons, List.filterMap_cons, refLabel?, ih]

theorem filterMap_qry_pair (ps : List Pr) :
    (ps.map APos.pair).filterMap qryLabel? = ps.map (fun p => p.q) := by
  induction ps with
  | nil => rfl
  | cons p ps ih => simp only [List.map_cons, List.filterMap_cons, qryLabel?, ih]

theorem filterMap_qry_uref (rs : List Lbl) : (rs.map APos.uref).filterMap qryLabel? = [] := by
  induction rs with
  | nil => rfl
  | cons p ps ih => simp only [List.map_cons, List.filterMap_cons, qryLabel?, ih]

theorem filterMap_qry_uqry (qs : List Lbl) (s : Int) :
    (qs.map (fun q => APos.uqry q s)).filterMap qryLabel? = qs := by
  induction qs with
  | nil => rfl
  | cons p ps ih => simp only [List.map_cons, List.filterMap_cons, qryLabel?, ih]

theorem filterMap_pair_pair (ps : List Pr) : (ps.map APos.pair).filterMap APos.pair? = ps := by
  induction ps with
  | nil => rfl
  | cons p ps ih => simp only [List.map_cons, List.filterMap_cons, APos.pair?, ih]

theorem filterMap_pair_uref (rs : List Lbl) : (rs.map APos.uref).filterMap APos.pair? = [] := by
  induction rs with
  | nil => rfl
  | cons p ps ih => simp only [List.map_cons, List.filterMap_cons, APos.pair?, ih]

theorem filterMap_pair_uqry (qs : List Lbl) (s : Int) :
    (qs.map (fun q => APos.uqry q s)).filterMap APos.pair? = [] := by
  induction qs with
  | nil => rfl
  | cons p ps ih => simp only [List.map_cons, List.filterMap_cons, APos.pair?, ih]

/-- selecting some labels and then the rest (by site id) rearranges the list -/
theorem select_perm (l sel : List Lbl) (sites : List Int) (hsites : sites = sel.map Lbl.site)
    (hl : (l.map Lbl.site).Nodup) (hs : (sel.map Lbl.site).Nodup) (hsub : ∀ x ∈ sel, x ∈ l) :
    (sel ++ l.filter (fun x => !sites.contains x.site)).Perm l := by
  subst hsites
  have hlnd : l.Nodup := nodup_of_nodup_map Lbl.site hl
  have hsnd : sel.Nodup := nodup_of_nodup_map Lbl.site hs
  have hinj := inj_of_nodup_map Lbl.site hl
  have hfilt : ∀ x, x ∈ l.filter (fun x => !(sel.map Lbl.site).contains x.site) ↔
      x ∈ l ∧ x.site ∉ sel.map Lbl.site := by
    intro x
    simp only [List.mem_filter, Bool.not_eq_true', List.contains_eq_mem, decide_eq_false_iff_not]
  refine (List.perm_ext_iff_of_nodup ?_ hlnd).2 ?_
  · rw [List.nodup_append]
    refine ⟨hsnd, hlnd.sublist List.filter_sublist, ?_⟩
    intro a ha b hb hab
    subst hab
    exact ((hfilt a).1 hb).2 (List.mem_map_of_mem ha)
  · intro x
    rw [List.mem_append, hfilt]
    constructor
    · rintro (h | h)
      · exact hsub x h
      · exact h.1
    · intro hx
      by_cases hc : x.site ∈ sel.map Lbl.site
      · left
        obtain ⟨y, hy, hyx⟩ := List.mem_map.1 hc
        have : y = x := hinj y (hsub y hy) x hx hyx
        exact this ▸ hy
      · exact Or.inr ⟨hx, hc⟩

/-! ### the engine -/

/-- the list that `engineAlign` sorts -/
def engineRaw (md : Int) (ref qry : OMap) (start stop : Int) (rev : Bool) (it : Int) : List APos :=
  let refs  := refWindow md ref start stop
  let qs    := qry.labels rev
  let pairs := dedup (candidates md start it refs qs)
  pairs.map APos.pair ++ unpaired refs qs pairs start

theorem engineAlign_eq (md : Int) (ref qry : OMap) (start stop : Int) (rev : Bool) (it : Int) :
    engineAlign md ref qry start stop rev it
      = isort APos.abs (engineRaw md ref qry start stop rev it) := rfl

theorem engineAlign_perm (md : Int) (ref qry : OMap) (start stop : Int) (rev : Bool) (it : Int) :
    (engineAlign md ref qry start stop rev it).Perm (engineRaw md ref qry start stop rev it) :=
  isort_perm _ _

theorem mem_engineAlign (md : Int) (ref qry : OMap) (start stop : Int) (rev : Bool) (it : Int)
    (a : APos) : a ∈ engineAlign md ref qry start stop rev it ↔
      a ∈ engineRaw md ref qry start stop rev it :=
  (engineAlign_perm md ref qry start stop rev it).mem_iff

theorem pair_mem_engineRaw (md : Int) (ref qry : OMap) (start stop : Int) (rev : Bool) (it : Int)
    (p : Pr) : APos.pair p ∈ engineRaw md ref qry start stop rev it ↔
      p ∈ dedup (candidates md start it (refWindow md ref start stop) (qry.labels rev)) := by
  simp [engineRaw, unpaired]

theorem pairsOf_engineRaw (md : Int) (ref qry : OMap) (start stop : Int) (rev : Bool) (it : Int) :
    pairsOf (engineRaw md ref qry start stop rev it)
      = dedup (candidates md start it (refWindow md ref start stop) (qry.labels rev)) := by
  simp only [pairsOf, engineRaw, unpaired, List.filterMap_append, filterMap_pair_pair,
    filterMap_pair_uref, filterMap_pair_uqry, List.append_nil]

theorem engine_sorted (md : Int) (ref qry : OMap) (start stop : Int) (rev : Bool) (it : Int) :
    Ascending ((engineAlign md ref qry start stop rev it).map APos.abs) :=
  isort_sorted _ _

/-- members of the deduplicated candidate list join labels of the two inputs -/
theorem pairs_mem (md start it : Int) (refs qs : List Lbl) (p : Pr)
    (hp : p ∈ dedup (candidates md start it refs qs)) :
    p.r ∈ refs ∧ p.q ∈ window (p.r.pos - start - md) (p.r.pos - start + md) qs ∧
      p.shift = p.q.pos - (p.r.pos - start) := by
  obtain ⟨r, hr, q, hq, rfl⟩ := (mem_candidates md start it refs qs p).1 (dedup_mem _ _ hp)
  exact ⟨hr, hq, rfl⟩

theorem engine_partition_ref (md : Int) (ref qry : OMap) (start stop : Int) (rev : Bool) (it : Int) :
    ((engineAlign md ref qry start stop rev it).filterMap refLabel?).Perm (refWindow md ref start stop) := by
  refine ((engineAlign_perm md ref qry start stop rev it).filterMap refLabel?).trans ?_
  simp only [engineRaw, unpaired, List.filterMap_append, filterMap_ref_pair,
    filterMap_ref_uref, filterMap_ref_uqry, List.append_nil]
  refine select_perm _ _ _ (by rw [List.map_map]; rfl) (refWindow_site_nodup md ref start stop) ?_ ?_
  · rw [List.map_map]; exact dedup_rsite_nodup _
  · intro x hx
    obtain ⟨p, hp, rfl⟩ := List.mem_map.1 hx
    exact (pairs_mem md start it _ _ p hp).1

theorem engine_partition_qry (md : Int) (ref qry : OMap) (start stop : Int) (rev : Bool) (it : Int) :
    ((engineAlign md ref qry start stop rev it).filterMap qryLabel?).Perm (qry.labels rev) := by
  refine ((engineAlign_perm md ref qry start stop rev it).filterMap qryLabel?).trans ?_
  simp only [engineRaw, unpaired, List.filterMap_append, filterMap_qry_pair,
    filterMap_qry_uref, filterMap_qry_uqry, List.nil_append]
  refine select_perm _ _ _ (by rw [List.map_map]; rfl) (labels_site_nodup qry rev) ?_ ?_
  · rw [List.map_map]; exact dedup_qsite_nodup _
  · intro x hx
    obtain ⟨p, hp, rfl⟩ := List.mem_map.1 hx
    exact (window_sublist _ _ _).subset (pairs_mem md start it _ _ p hp).2.1

theorem refWindow_mem (md : Int) (ref : OMap) (start stop : Int) (hr : Ascending ref.positions) (l : Lbl) :
    l ∈ refWindow md ref start stop ↔ (l ∈ ref.labels false ∧ start - md ≤ l.pos ∧ l.pos ≤ stop + md) :=
  mem_window _ _ _ (labels_pos_asc ref false hr) l

theorem engine_within (md : Int) (ref qry : OMap) (start stop : Int) (rev : Bool) (it : Int)
    (hq : Ascending qry.positions) (p : Pr)
    (hp : APos.pair p ∈ engineAlign md ref qry start stop rev it) :
    p.r ∈ refWindow md ref start stop ∧ p.q ∈ qry.labels rev ∧
    p.shift = offset start p.r p.q ∧ -md ≤ p.shift ∧ p.shift ≤ md := by
  rw [mem_engineAlign, pair_mem_engineRaw] at hp
  obtain ⟨h1, h2, h3⟩ := pairs_mem md start it _ _ p hp
  rw [mem_window _ _ _ (labels_pos_asc qry rev hq)] at h2
  obtain ⟨h2a, h2b, h2c⟩ := h2
  refine ⟨h1, h2a, h3, ?_, ?_⟩ <;> omega

theorem engine_uqry_seed (md : Int) (ref qry : OMap) (start stop : Int) (rev : Bool) (it : Int)
    (q : Lbl) (s : Int) (h : APos.uqry q s ∈ engineAlign md ref qry start stop rev it) : s = start := by
  rw [mem_engineAlign] at h
  simp only [engineRaw, unpaired, List.mem_append, List.mem_map] at h
  rcases h with ⟨p, _, hp⟩ | ⟨r, _, hr⟩ | ⟨q', _, hq'⟩
  · cases hp
  · cases hr
  · cases hq'; rfl

theorem engine_one_to_one (md : Int) (ref qry : OMap) (start stop : Int) (rev : Bool) (it : Int) :
    ((pairsOf (engineAlign md ref qry start stop rev it)).map (fun p => p.r.site)).Nodup ∧
    ((pairsOf (engineAlign md ref qry start stop rev it)).map (fun p => p.q.site)).Nodup := by
  have hperm : (pairsOf (engineAlign md ref qry start stop rev it)).Perm
      (dedup (candidates md start it (refWindow md ref start stop) (qry.labels rev))) := by
    rw [← pairsOf_engineRaw]
    exact (engineAlign_perm md ref qry start stop rev it).filterMap _
  exact ⟨(hperm.map _).nodup_iff.2 (dedup_rsite_nodup _),
         (hperm.map _).nodup_iff.2 (dedup_qsite_nodup _)⟩

/-! ### the iteration counter is unobservable -/

def setSrc (it : Int) (p : Pr) : Pr := { p with src := it }

theorem candidates_setSrc (md start it it' : Int) (refs qs : List Lbl) :
    (candidates md start it' refs qs).map (setSrc it) = candidates md start it refs qs := by
  unfold candidates
  induction refs with
  | nil => rfl
  | cons r rs ih =>
    simp only [List.flatMap_cons, List.map_append, ih, List.map_map]
    rfl

theorem dedup_map (f : Pr → Pr) (hr : ∀ p, (f p).r = p.r) (hq : ∀ p, (f p).q = p.q)
    (hd : ∀ p, (f p).dist = p.dist) (ps : List Pr) :
    dedup (ps.map f) = (dedup ps).map f := by
  unfold dedup
  rw [dedupByKey_map f _ (fun p => by simp only [hq]) hd,
      dedupByKey_map f _ (fun p => by simp only [hr]) hd]

theorem engineAlign_eraseSrc (md : Int) (ref qry : OMap) (start stop : Int) (rev : Bool) (it : Int) :
    (engineAlign md ref qry start stop rev it).map APos.eraseSrc
      = engineAlign md ref qry start stop rev 0 := by
  rw [engineAlign_eq, engineAlign_eq,
    ← isort_map APos.eraseSrc APos.abs APos.abs (fun a => by cases a <;> rfl)]
  congr 1
  simp only [engineRaw]
  rw [← candidates_setSrc md start 0 it,
    dedup_map (setSrc 0) (fun _ => rfl) (fun _ => rfl) (fun _ => rfl)]
  generalize dedup (candidates md start it (refWindow md ref start stop) (qry.labels rev)) = pairs
  simp only [unpaired, List.map_append, List.map_map]
  rfl

theorem engine_iteration_irrelevant (md : Int) (ref qry : OMap) (start stop : Int) (rev : Bool) (it it' : Int) :
    (engineAlign md ref qry start stop rev it).map APos.eraseSrc =
    (engineAlign md ref qry start stop rev it').map APos.eraseSrc := by
  rw [engineAlign_eraseSrc, engineAlign_eraseSrc]

end Coma.Proofs
