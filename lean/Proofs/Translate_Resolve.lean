/-
  Proofs/Translate_Resolve.lean — the consecutive pass and `resolveConflicts` commute with the translation, for every
  class `Q` of segments that is kept by the pass and on which one step commutes.
-/
import Proofs.Translate_Conflict
namespace Coma.Proofs.Translate
open Coma Coma.Spec

variable (d : Int)

def tPair (x : Seg × Seg) : Seg × Seg := (tSeg d x.1, tSeg d x.2)

theorem resolvePair_t (P : Params) (L R : Seg) (hL : R.items = [] → NullOK d L) :
    resolvePair P (tSeg d L) (tSeg d R) = (resolvePair P L R).map (tPair d) := by
  unfold resolvePair
  simp only [bind, Except.bind, pure, Except.pure]
  rw [resolvePairB_t d P L R hL]
  cases resolvePairB P L R <;> rfl

theorem resolvePair_ok_B {P : Params} {L R l r : Seg} (h : resolvePair P L R = .ok (l, r)) :
    ∃ b, resolvePairB P L R = .ok (l, r, b) := by
  unfold resolvePair at h
  simp only [bind, Except.bind, pure, Except.pure] at h
  cases hB : resolvePairB P L R with
  | error e => rw [hB] at h; cases h
  | ok t =>
    obtain ⟨l', r', b⟩ := t
    rw [hB] at h
    injection h with h; injection h with h1 h2
    simp only at h1 h2
    subst h1; subst h2
    exact ⟨b, rfl⟩

theorem resolveFrom_t_gen (P : Params) (QL QR : Seg → Prop)
    (hstep : ∀ L R, QL L → QR R → resolvePair P (tSeg d L) (tSeg d R) = (resolvePair P L R).map (tPair d))
    (hpres : ∀ L R l r, QL L → QR R → resolvePair P L R = .ok (l, r) → QL r)
    (rest : List Seg) : ∀ l : Seg, QL l → (∀ s ∈ rest, QR s) →
    resolveFrom P (tSeg d l) (rest.map (tSeg d)) = (resolveFrom P l rest).map (List.map (tSeg d)) := by
  induction rest with
  | nil => intro l _ _; rfl
  | cons r rest ih =>
    intro l hl hrest
    have hr : QR r := hrest r (by simp)
    simp only [List.map_cons, resolveFrom, bind, Except.bind, pure, Except.pure]
    rw [hstep l r hl hr]
    cases h : resolvePair P l r with
    | error e => rfl
    | ok t =>
      obtain ⟨l', r'⟩ := t
      have hr' : QL r' := hpres l r l' r' hl hr h
      simp only [Except.map, tPair]
      rw [ih r' hr' (fun s hs => hrest s (List.mem_cons_of_mem _ hs))]
      cases resolveFrom P r' rest <;> rfl

theorem resolveConflicts_t_gen (P : Params) (C : ChainCfg) (QL QR : Seg → Prop)
    (hstep : ∀ L R, QL L → QR R → resolvePair P (tSeg d L) (tSeg d R) = (resolvePair P L R).map (tPair d))
    (hpres : ∀ L R l r, QL L → QR R → resolvePair P L R = .ok (l, r) → QL r)
    (segs : List Seg) (hz : ∀ s ∈ segs, QL s ∧ QR s) :
    resolveConflicts P C (segs.map (tSeg d)) = (resolveConflicts P C segs).map (List.map (tSeg d)) := by
  match segs, hz with
  | [], _ => rfl
  | [a], _ => rfl
  | a :: b :: t, hz =>
    simp only [List.map_cons, resolveConflicts]
    have := chainSegs_t d P C (a :: b :: t)
    simp only [List.map_cons] at this
    rw [this]
    cases h : chainSegs P C (a :: b :: t) with
    | none => rfl
    | some out =>
      have hm := Mirror.chainSegs_mem P C _ out h
      cases out with
      | nil => rfl
      | cons c cs =>
        simp only [Option.map_some, List.map_cons]
        exact resolveFrom_t_gen d P QL QR hstep hpres cs c (hz c (hm c (by simp))).1
          (fun s hs => (hz s (hm s (List.mem_cons_of_mem _ hs))).2)

/-! ### first instance: the null comparison reads the same thing before and after -/

theorem nullOK_of_sublist {a b : Seg} (h : a.items.Sublist b.items) (hb : NullOK d b) : NullOK d a :=
  fun x hx => hb x (h.subset hx)

theorem resolveConflicts_t_null (P : Params) (C : ChainCfg) (segs : List Seg) (hz : ∀ s ∈ segs, NullOK d s) :
    resolveConflicts P C (segs.map (tSeg d)) = (resolveConflicts P C segs).map (List.map (tSeg d)) := by
  apply resolveConflicts_t_gen d P C (NullOK d) (NullOK d) _ _ segs (fun s hs => ⟨hz s hs, hz s hs⟩)
  · intro L R hL _; exact resolvePair_t d P L R (fun _ => hL)
  · intro L R l r _ hR h
    obtain ⟨b, hB⟩ := resolvePair_ok_B h
    exact nullOK_of_sublist d (resolve_sublist P L R l r b hB).2.1 hR

end Coma.Proofs.Translate
