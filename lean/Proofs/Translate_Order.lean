/-
  Proofs/Translate_Order.lean — for ARBITRARY inputs (unsorted, repeated coordinates): two different pairs of one
  peak never share a reference coordinate, hence in the position list every pair is `leqAny` every later pair.
-/
import Proofs.Pairing
import Proofs.PairingOrder
import Proofs.Conflict_Slice
namespace Coma.Proofs.Translate
open Coma Coma.Spec

theorem candidates_pairwise_site {md start it : Int} {refs qs : List Lbl}
    (hr : refs.Pairwise (fun a b => a.site < b.site)) :
    (candidates md start it refs qs).Pairwise (fun a b => a.r.site ≤ b.r.site) := by
  unfold candidates
  rw [List.pairwise_flatMap]
  constructor
  · intro r _
    rw [List.pairwise_map]
    exact List.pairwise_of_forall (fun _ _ => Int.le_refl _)
  · refine List.Pairwise.imp ?_ hr
    intro a b hab x hx y hy
    obtain ⟨_, _, rfl⟩ := List.mem_map.1 hx
    obtain ⟨_, _, rfl⟩ := List.mem_map.1 hy
    exact Int.le_of_lt hab

theorem refWindow_site_lt (md : Int) (ref : OMap) (start stop : Int) :
    (refWindow md ref start stop).Pairwise (fun a b => a.site < b.site) := by
  refine List.Pairwise.sublist (refWindow_sublist md ref start stop) ?_
  simp only [OMap.labels, Bool.false_eq_true, if_false]
  exact List.pairwise_map.1 (labelsFwd_site_lt _ _)

/-- a survivor `e` of the first deduplication and any candidate `p` on the same reference coordinate: the reference
    label of `e` is not numbered after that of `p` -/
theorem site_le_of_same_pos {md start it : Int} {refs qs : List Lbl}
    (hr : refs.Pairwise (fun a b => a.site < b.site)) {p e : Pr}
    (hp : p ∈ candidates md start it refs qs)
    (he : e ∈ dedupByKey (fun p => p.q.site) (candidates md start it refs qs))
    (h : p.r.pos = e.r.pos) : e.r.site ≤ p.r.site := by
  obtain ⟨l1, l2, hc, hlt, _⟩ := PO.dedupByKey_firstMin (fun p => p.q.site) he
  have hec : e ∈ candidates md start it refs qs := PO.dedupByKey_subset _ he
  obtain ⟨rp, hrp, qp, hqp, rfl⟩ := (mem_candidates md start it refs qs p).1 hp
  obtain ⟨re, hre, qe, hqe, rfl⟩ := (mem_candidates md start it refs qs e).1 hec
  simp only at h ⊢
  have hc1 : ({ r := rp, q := qe, shift := qe.pos - (rp.pos - start), src := it } : Pr) ∈
      candidates md start it refs qs :=
    (mem_candidates md start it refs qs _).2 ⟨rp, hrp, qe, by rw [h]; exact hqe, rfl⟩
  have hpw := candidates_pairwise_site (md := md) (start := start) (it := it) (qs := qs) hr
  rw [hc] at hc1 hpw
  rcases List.mem_append.1 hc1 with h1 | h1
  · have := hlt _ h1 rfl
    simp only [Pr.dist, h] at this
    omega
  · rcases List.mem_cons.1 h1 with h1 | h1
    · have : rp = re := congrArg Pr.r h1
      rw [this]; exact Int.le_refl _
    · have := (List.pairwise_cons.1 (List.pairwise_append.1 hpw).2.1).1 _ h1
      exact this

theorem dedup_rpos_inj {md start it : Int} {refs qs : List Lbl}
    (hr : refs.Pairwise (fun a b => a.site < b.site)) {p e : Pr}
    (hp : p ∈ dedup (candidates md start it refs qs)) (he : e ∈ dedup (candidates md start it refs qs))
    (h : p.r.pos = e.r.pos) : p = e := by
  have hp1 : p ∈ dedupByKey (fun p => p.q.site) (candidates md start it refs qs) := PO.dedupByKey_subset _ hp
  have he1 : e ∈ dedupByKey (fun p => p.q.site) (candidates md start it refs qs) := PO.dedupByKey_subset _ he
  have a1 := site_le_of_same_pos hr (PO.dedupByKey_subset _ hp1) he1 h
  have a2 := site_le_of_same_pos hr (PO.dedupByKey_subset _ he1) hp1 h.symm
  have hs : p.r.site = e.r.site := by omega
  exact inj_of_nodup_map (fun p : Pr => p.r.site) (dedup_rsite_nodup _) p hp e he hs

theorem engine_pairs_leqAny (md : Int) (ref qry : OMap) (start stop : Int) (rev : Bool) (it : Int) :
    (engineAlign md ref qry start stop rev it).Pairwise
      (fun a b => ∀ p e, a = .pair p → b = .pair e → p.leqAny e = true) := by
  have hs := List.pairwise_map.1 (engine_sorted md ref qry start stop rev it)
  refine hs.imp_of_mem ?_
  intro a b ha hb hab p e hp he
  subst hp; subst he
  have hle : p.r.pos ≤ e.r.pos := hab
  by_cases hlt : p.r.pos < e.r.pos
  · exact Conflict.leqAny_of_lt hlt
  · have heq : p.r.pos = e.r.pos := by omega
    have hp' := (PO.pair_mem_engineAlign md ref qry start stop rev it p).1 ha
    have he' := (PO.pair_mem_engineAlign md ref qry start stop rev it e).1 hb
    rw [dedup_rpos_inj (refWindow_site_lt md ref start stop) hp' he' heq]
    exact Conflict.leqAny_self _

end Coma.Proofs.Translate
