import Props.Defs
namespace Coma.Proofs.Conflict
open Coma Coma.Spec

/-- the part of a branch after the conflict region `(Lc, Rc)` has been computed -/
def Tail (L R Lc Rc l r : Seg) (b : Branch) : Prop :=
  ((b = .index0 ∨ b = .dropLeft) ∧ l = L.sub Lc.items ∧ r = R) ∨
  ((b = .indexN ∨ b = .dropRight) ∧ l = L ∧ r = R.sub Rc.items) ∨
  (b = .interior ∧ ∃ li ri, l = L.sub (Lc.items.drop li) ∧ r = R.sub (Rc.items.take ri))

/-- characterisation of every successful run of `resolvePairB` -/
theorem resolvePairB_cases {P : Params} {L R l r : Seg} {b : Branch}
    (h : resolvePairB P L R = .ok (l, r, b)) :
    (L.items = [] ∧ l = L ∧ r = R ∧ b = .emptyLeft) ∨
    (L.items ≠ [] ∧ L.endOverlapsWithStartOf R = .ok false ∧ l = L ∧ r = R ∧ b = .noOverlap) ∨
    (L.items ≠ [] ∧ L.endOverlapsWithStartOf R = .ok true ∧
      ∃ cs ce Lc Rc, R.startPos = .ok cs ∧ L.endPos = .ok ce ∧ L.slice cs ce = .ok Lc ∧
        R.slice cs ce = .ok Rc ∧ Tail L R Lc Rc l r b) := by
  unfold resolvePairB at h
  simp only [bind, Except.bind, pure, Except.pure] at h
  split at h
  · rename_i he
    injection h with h; injection h with h1 h; injection h with h2 h3
    exact Or.inl ⟨List.isEmpty_iff.mp he, h1.symm, h2.symm, h3.symm⟩
  · rename_i he
    have hne : L.items ≠ [] := fun h0 => he (List.isEmpty_iff.mpr h0)
    split at h
    · cases h
    · rename_i ov hov
      split at h
      · rename_i hv
        injection h with h; injection h with h1 h; injection h with h2 h3
        cases ov <;> simp at hv
        exact Or.inr (Or.inl ⟨hne, hov, h1.symm, h2.symm, h3.symm⟩)
      · rename_i hv
        have : ov = true := by cases ov <;> simp at hv ⊢
        subst this
        refine Or.inr (Or.inr ⟨hne, hov, ?_⟩)
        split at h
        · cases h
        · rename_i cs hcs
          split at h
          · cases h
          · rename_i ce hce
            split at h
            · cases h
            · rename_i Lc hLc
              split at h
              · cases h
              · rename_i Rc hRc
                refine ⟨cs, ce, Lc, Rc, hcs, hce, hLc, hRc, ?_⟩
                unfold Tail
                generalize (if Lc.peak > Rc.peak then (charsRef P 0 0 Lc.items, charsRef P 0 0 Rc.items)
                  else (charsQry P 0 0 Lc.items, charsQry P 0 0 Rc.items)) = ch at h
                split at h
                · split at h
                  · injection h with h; injection h with h1 h; injection h with h2 h3
                    exact Or.inl ⟨Or.inl h3.symm, h1.symm, h2.symm⟩
                  · split at h
                    · injection h with h; injection h with h1 h; injection h with h2 h3
                      exact Or.inr (Or.inl ⟨Or.inl h3.symm, h1.symm, h2.symm⟩)
                    · injection h with h; injection h with h1 h; injection h with h2 h3
                      exact Or.inr (Or.inr ⟨h3.symm, _, _, h1.symm, h2.symm⟩)
                · split at h
                  · injection h with h; injection h with h1 h; injection h with h2 h3
                    exact Or.inr (Or.inl ⟨Or.inr h3.symm, h1.symm, h2.symm⟩)
                  · injection h with h; injection h with h1 h; injection h with h2 h3
                    exact Or.inl ⟨Or.inr h3.symm, h1.symm, h2.symm⟩

/-- converse direction, for totality -/
theorem resolvePairB_ok_of {P : Params} {L R : Seg}
    (h : L.items = [] ∨ ∃ ov, L.endOverlapsWithStartOf R = .ok ov ∧
      (ov = true → ∃ cs ce Lc Rc, R.startPos = .ok cs ∧ L.endPos = .ok ce ∧
        L.slice cs ce = .ok Lc ∧ R.slice cs ce = .ok Rc)) :
    ∃ l r b, resolvePairB P L R = .ok (l, r, b) := by
  unfold resolvePairB
  simp only [bind, Except.bind, pure, Except.pure]
  split
  · exact ⟨_, _, _, rfl⟩
  · rename_i he
    rcases h with h | ⟨ov, hov, h⟩
    · exact absurd (List.isEmpty_iff.mpr h) he
    · rw [hov]
      cases ov
      · exact ⟨_, _, _, rfl⟩
      · obtain ⟨cs, ce, Lc, Rc, h1, h2, h3, h4⟩ := h rfl
        simp only [h1, h2, h3, h4]
        simp only [Bool.not_true, Bool.false_eq_true, if_false]
        generalize (if Lc.peak > Rc.peak then (charsRef P 0 0 Lc.items, charsRef P 0 0 Rc.items)
          else (charsQry P 0 0 Lc.items, charsQry P 0 0 Rc.items)) = ch
        split
        · split
          · exact ⟨_, _, _, rfl⟩
          · split
            · exact ⟨_, _, _, rfl⟩
            · exact ⟨_, _, _, rfl⟩
        · split
          · exact ⟨_, _, _, rfl⟩
          · exact ⟨_, _, _, rfl⟩

end Coma.Proofs.Conflict
