import Props.Defs
import Proofs.SegFactory
import Proofs.Pairing
import Proofs.PairingOrder
import Proofs.Chain
import Proofs.Conflict
import Proofs.ConflictAll
import Proofs.Compose_Lists
import Proofs.Compose_Factory
import Proofs.Compose_Align
/-!
  Proofs/Ties.lean — COINCIDENT LABELS (weakly ascending coordinates).

  The conflict-resolver lemmas need `PairsAscending` (pairs strictly ascending on both maps).  The
  existing proof of `engine_pairsAscending` obtains it from STRICTLY ascending label coordinates.
  Here it is shown that the pairs the engine produces are strictly ascending on both maps already
  when the coordinates are only WEAKLY ascending: of two labels of one molecule at the same
  coordinate at most one is ever paired, because

  * two reference labels at one coordinate are at the same distance from every query label, and
    the first de-duplication pass (first minimum in reference order) always prefers the earlier one;
  * two query labels at one coordinate that survive the first pass with different reference labels
    would each have to be at most as far from its own partner as from the other's, strictly so for
    the one whose partner comes later in reference order.

  Hence the whole `alignerAlign` chain (factory, chain, resolver) goes through unchanged.
-/
namespace Coma.Proofs
open Coma Coma.Spec Coma.Proofs.Compose

/-! ### candidates are generated in reference order -/

theorem candidates_pairwise_ref (g : Lbl → Int) {md start it : Int} {refs qs : List Lbl}
    (hr : refs.Pairwise (fun a b => g a ≤ g b)) :
    (candidates md start it refs qs).Pairwise (fun a b => g a.r ≤ g b.r) := by
  unfold candidates
  rw [List.pairwise_flatMap]
  constructor
  · intro r _
    rw [List.pairwise_map]
    exact List.pairwise_of_forall (fun _ _ => Int.le_refl _)
  · refine List.Pairwise.imp ?_ hr
    intro a b hab x hx y hy
    obtain ⟨_, _, rfl⟩ := List.mem_map.1 hx
    obtain ⟨_, _, rfl⟩ := List.mem_map.1 hy
    exact hab

theorem refWindow_site_sorted (md : Int) (ref : OMap) (start stop : Int) :
    (refWindow md ref start stop).Pairwise (fun a b => a.site ≤ b.site) := by
  have h : ((ref.labels false).map Lbl.site).Pairwise (· < ·) := by
    simp only [OMap.labels, Bool.false_eq_true, if_false]
    exact labelsFwd_site_lt _ _
  exact ((List.pairwise_map.1 h).sublist (refWindow_sublist md ref start stop)).imp
    (fun hab => Int.le_of_lt hab)

/-! ### of two coincident labels at most one is paired -/

/-- survivors of the first de-duplication pass with different reference labels have different
    reference coordinates -/
theorem pass1_rpos_ne {md start it : Int} {refs qs : List Lbl}
    (hrs : refs.Pairwise (fun a b => a.site ≤ b.site))
    (hqs : qs.Pairwise (fun a b => a.pos ≤ b.pos)) (a b : Pr)
    (ha : a ∈ dedupByKey (fun p => p.q.site) (candidates md start it refs qs))
    (hb : b ∈ dedupByKey (fun p => p.q.site) (candidates md start it refs qs))
    (hlt : a.r.site < b.r.site) : a.r.pos ≠ b.r.pos := by
  intro e
  have hcp := candidates_pairwise_ref Lbl.site (md := md) (start := start) (it := it) (qs := qs) hrs
  obtain ⟨rain, _, _, _, _, _⟩ := (PO.mem_candidates hqs a).1 (PO.dedupByKey_subset _ ha)
  obtain ⟨_, qbin, shb, lob, hib, _⟩ := (PO.mem_candidates hqs b).1 (PO.dedupByKey_subset _ hb)
  have spb := PO.dedupByKey_spec (fun p => p.q.site) (fun p => p.r.site) hcp hb
  have hcm : ({ r := a.r, q := b.q, shift := b.q.pos - (a.r.pos - start), src := it } : Pr) ∈
      candidates md start it refs qs :=
    (PO.mem_candidates hqs _).2 ⟨rain, qbin, rfl, by simp only; omega, by simp only; omega, rfl⟩
  have := (spb _ hcm rfl).2 hlt
  simp only [Pr.dist] at this
  omega

/-- survivors of the first de-duplication pass with different reference labels have different
    query coordinates -/
theorem pass1_qpos_ne {md start it : Int} {refs qs : List Lbl}
    (hrs : refs.Pairwise (fun a b => a.site ≤ b.site))
    (hqs : qs.Pairwise (fun a b => a.pos ≤ b.pos)) (a b : Pr)
    (ha : a ∈ dedupByKey (fun p => p.q.site) (candidates md start it refs qs))
    (hb : b ∈ dedupByKey (fun p => p.q.site) (candidates md start it refs qs))
    (hlt : a.r.site < b.r.site) : a.q.pos ≠ b.q.pos := by
  intro e
  have hcp := candidates_pairwise_ref Lbl.site (md := md) (start := start) (it := it) (qs := qs) hrs
  obtain ⟨rain, qain, sha, loa, hia, _⟩ := (PO.mem_candidates hqs a).1 (PO.dedupByKey_subset _ ha)
  obtain ⟨rbin, qbin, shb, lob, hib, _⟩ := (PO.mem_candidates hqs b).1 (PO.dedupByKey_subset _ hb)
  have spa := PO.dedupByKey_spec (fun p => p.q.site) (fun p => p.r.site) hcp ha
  have spb := PO.dedupByKey_spec (fun p => p.q.site) (fun p => p.r.site) hcp hb
  -- (b.r, a.q) is a candidate at distance b.dist; (a.r, b.q) is a candidate at distance a.dist
  have hc1 : ({ r := b.r, q := a.q, shift := a.q.pos - (b.r.pos - start), src := it } : Pr) ∈
      candidates md start it refs qs :=
    (PO.mem_candidates hqs _).2 ⟨rbin, qain, rfl, by simp only; omega, by simp only; omega, rfl⟩
  have hc2 : ({ r := a.r, q := b.q, shift := b.q.pos - (a.r.pos - start), src := it } : Pr) ∈
      candidates md start it refs qs :=
    (PO.mem_candidates hqs _).2 ⟨rain, qbin, rfl, by simp only; omega, by simp only; omega, rfl⟩
  have h1 := (spa _ hc1 rfl).1
  have h2 := (spb _ hc2 rfl).2 hlt
  simp only [Pr.dist] at h1 h2
  omega

/-- the pairs of one peak never use two labels at the same coordinate -/
theorem engine_pairs_distinct_coords (md : Int) (ref qry : OMap) (start stop : Int) (rev : Bool) (it : Int)
    (hq : Ascending qry.positions) (a b : Pr)
    (ha : APos.pair a ∈ engineAlign md ref qry start stop rev it)
    (hb : APos.pair b ∈ engineAlign md ref qry start stop rev it)
    (hne : a.r.site ≠ b.r.site) : a.r.pos ≠ b.r.pos ∧ a.q.pos ≠ b.q.pos := by
  rw [PO.pair_mem_engineAlign] at ha hb
  have hqs := PO.labels_pos_sorted qry rev hq
  have hrs := refWindow_site_sorted md ref start stop
  unfold dedup at ha hb
  have sa := PO.dedupByKey_subset _ ha
  have sb := PO.dedupByKey_subset _ hb
  rcases Int.lt_or_gt_of_ne hne with hlt | hgt
  · exact ⟨pass1_rpos_ne hrs hqs a b sa sb hlt, pass1_qpos_ne hrs hqs a b sa sb hlt⟩
  · exact ⟨fun e => pass1_rpos_ne hrs hqs b a sb sa hgt e.symm,
      fun e => pass1_qpos_ne hrs hqs b a sb sa hgt e.symm⟩

/-- `engine_pairsAscending` for weakly ascending coordinates (coincident labels allowed): the pairs
    of one peak are STRICTLY ascending on both maps -/
theorem engine_pairsAscending_weak (md : Int) (ref qry : OMap) (start stop : Int) (rev : Bool) (it : Int)
    (hr : Ascending ref.positions) (hq : Ascending qry.positions) :
    PairsAscending (engineAlign md ref qry start stop rev it) := by
  unfold PairsAscending
  have hs : (pairsOf (engineAlign md ref qry start stop rev it)).Pairwise
      (fun a b => a.r.pos ≤ b.r.pos) := by
    unfold pairsOf
    refine List.Pairwise.filterMap APos.pair? ?_
      (List.pairwise_map.1 (engine_sorted md ref qry start stop rev it))
    intro a a' haa' b hb b' hb'
    have e1 := pair?_eq_some (Option.mem_def.1 hb)
    have e2 := pair?_eq_some (Option.mem_def.1 hb')
    subst e1; subst e2
    exact haa'
  obtain ⟨n1, _⟩ := engine_one_to_one md ref qry start stop rev it
  have n1' := List.pairwise_map.1 n1
  refine (hs.and n1').imp_of_mem ?_
  intro a b ha hb hab
  obtain ⟨hle, hn1⟩ := hab
  have ha' := mem_pairsOf.1 ha
  have hb' := mem_pairsOf.1 hb
  obtain ⟨hrne, hqne⟩ := engine_pairs_distinct_coords md ref qry start stop rev it hq a b ha' hb' hn1
  have hlt : a.r.pos < b.r.pos := by omega
  have hqle := PO.engine_order_preserving md ref qry start stop rev it hr hq a b ha' hb' hlt
  exact ⟨hlt, by omega⟩

/-! ### the candidate row for weakly ascending coordinates -/

theorem alignerAlign_spec_weak (P : Params) (C : ChainCfg) (hP : GoodParams P) (ref qry : OMap)
    (peaks : List Int) (rev : Bool) (it : Int)
    (hr : Ascending ref.positions) (hq : Ascending qry.positions) :
    ∃ out, alignerAlign P C ref qry peaks rev it
        = .ok (Row.create P out qry.id ref.id qry.length ref.length rev) ∧
      ∀ s ∈ out, ∃ peak ∈ peaks, ∃ it',
        s.peak = peak ∧ s.items <:+: peakPositions P ref qry rev it' peak := by
  obtain ⟨segs, hsegs, hsrc⟩ := segmentsOfPeaks_ok P hP.su_nonpos ref qry rev peaks it
  have hok : ∀ s ∈ segs, ∃ peak ∈ peaks, ∃ it',
      FactoryLike s ∧ s.peak = peak ∧ s.items <:+: peakPositions P ref qry rev it' peak := by
    intro s hs
    obtain ⟨pk, hpk, it', h⟩ := hsrc s hs
    exact ⟨pk, hpk, it', segments_ok P hP pk _ (engine_pyNodup ..)
      (engine_pairsAscending_weak _ _ _ _ _ _ _ hr hq) s h⟩
  obtain ⟨out, hout, hsub⟩ := resolveConflicts_spec P C segs (fun s hs => by
    obtain ⟨_, _, _, h, _⟩ := hok s hs; exact h)
  refine ⟨out, ?_, ?_⟩
  · simp only [alignerAlign, hsegs, hout, bind, Except.bind, pure, Except.pure]
  · intro s hs
    obtain ⟨i, hi, hinf, hpk⟩ := hsub s hs
    obtain ⟨pk, hpkm, it', _, hipk, hiinf⟩ := hok i hi
    exact ⟨pk, hpkm, it', hpk.trans hipk, hinf.trans hiinf⟩

/-- building a candidate never raises, also with coincident labels (C07) -/
theorem alignerAlign_total_weak (P : Params) (C : ChainCfg) (hP : GoodParams P) (ref qry : OMap) (peaks : List Int)
    (rev : Bool) (it : Int) (hr : Ascending ref.positions) (hq : Ascending qry.positions) :
    ∃ row, alignerAlign P C ref qry peaks rev it = .ok row := by
  obtain ⟨out, h, _⟩ := alignerAlign_spec_weak P C hP ref qry peaks rev it hr hq
  exact ⟨_, h⟩

/-- every segment of a candidate is empty or a contiguous run of the position list of one of the
    seed peaks, carrying that peak — also with coincident labels (C04) -/
theorem alignerAlign_accounted_weak (P : Params) (C : ChainCfg) (hP : GoodParams P) (ref qry : OMap) (peaks : List Int)
    (rev : Bool) (it : Int) (hr : Ascending ref.positions) (hq : Ascending qry.positions)
    (row : Row) (h : alignerAlign P C ref qry peaks rev it = .ok row) :
    ∀ s ∈ row.segments, s.items = [] ∨
      ∃ peak ∈ peaks, ∃ it', s.peak = peak ∧ s.items <:+: peakPositions P ref qry rev it' peak := by
  obtain ⟨out, h', hs⟩ := alignerAlign_spec_weak P C hP ref qry peaks rev it hr hq
  rw [h'] at h
  injection h with h
  subst h
  intro s hsm
  exact Or.inr (hs s hsm)

/-- inside one segment of a candidate the pairs are strictly ascending on both maps, also with
    coincident labels (C01): a coincident label is never paired together with its twin -/
theorem alignerAlign_segment_valid_weak (P : Params) (C : ChainCfg) (hP : GoodParams P) (ref qry : OMap)
    (peaks : List Int) (rev : Bool) (it : Int) (hr : Ascending ref.positions) (hq : Ascending qry.positions)
    (row : Row) (h : alignerAlign P C ref qry peaks rev it = .ok row) :
    ∀ s ∈ row.segments, PairsAscending s.items := by
  obtain ⟨out, h', hs⟩ := alignerAlign_spec_weak P C hP ref qry peaks rev it hr hq
  rw [h'] at h
  injection h with h
  subst h
  intro s hsm
  obtain ⟨pk, _, it', _, hinf⟩ := hs s hsm
  exact pairsAscending_sublist hinf.sublist (engine_pairsAscending_weak _ _ _ _ _ _ _ hr hq)

end Coma.Proofs
