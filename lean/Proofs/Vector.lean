import Props.Defs
namespace Coma.Proofs
open Coma Coma.Spec

/-- the effective end of the window: `end or positions[-1]` (same definition as in Props/C16) -/
def stopEff' (positions : List Int) (stop? : Option Int) : Int :=
  match stop? with
  | some e => if e ≠ 0 then e else positions.getLast?.getD 0
  | none   => positions.getLast?.getD 0

namespace Vector

theorem insertByKey_perm {α} (key : α → Int) (a : α) (l : List α) :
    (insertByKey key a l).Perm (a :: l) := by
  induction l with
  | nil => exact List.Perm.refl _
  | cons b bs ih =>
    unfold insertByKey
    split
    · exact List.Perm.refl _
    · exact (List.Perm.cons b ih).trans (List.Perm.swap a b bs)

theorem isort_perm {α} (key : α → Int) (l : List α) : (isort key l).Perm l := by
  induction l with
  | nil => exact List.Perm.refl _
  | cons x xs ih =>
    unfold isort
    exact (insertByKey_perm key x _).trans (List.Perm.cons x ih)

theorem insertByKey_sorted {α} (key : α → Int) (a : α) (l : List α)
    (h : l.Pairwise (fun x y => key x ≤ key y)) :
    (insertByKey key a l).Pairwise (fun x y => key x ≤ key y) := by
  induction l with
  | nil => simp [insertByKey]
  | cons b bs ih =>
    unfold insertByKey
    rw [List.pairwise_cons] at h
    split
    · rename_i hab
      rw [List.pairwise_cons]
      refine ⟨?_, List.pairwise_cons.mpr h⟩
      intro y hy
      rcases List.mem_cons.mp hy with rfl | hy
      · exact hab
      · exact Int.le_trans hab (h.1 y hy)
    · rename_i hab
      rw [List.pairwise_cons]
      refine ⟨?_, ih h.2⟩
      intro y hy
      have := (insertByKey_perm key a bs).mem_iff.mp hy
      rcases List.mem_cons.mp this with rfl | hy
      · omega
      · exact h.1 y hy

theorem isort_sorted {α} (key : α → Int) (l : List α) :
    (isort key l).Pairwise (fun x y => key x ≤ key y) := by
  induction l with
  | nil => simp [isort]
  | cons x xs ih =>
    unfold isort
    exact insertByKey_sorted key x _ ih

theorem getD_drop (v : List Nat) (s i : Nat) : (v.drop s).getD i 0 = v.getD (s + i) 0 := by
  simp [List.getD_eq_getElem?_getD, List.getElem?_drop]

theorem getD_shift (v : List Nat) (s i : Nat) :
    (List.replicate s 0 ++ v).getD i 0 = if i < s then 0 else v.getD (i - s) 0 := by
  simp only [List.getD_eq_getElem?_getD, List.getElem?_append, List.length_replicate]
  split
  · rename_i h; simp [h]
  · rfl

theorem getD_ne_zero_lt (v : List Nat) (i : Nat) (h : v.getD i 0 ≠ 0) : i < v.length := by
  apply Classical.byContradiction
  intro hn
  apply h
  simp [List.getD_eq_getElem?_getD, List.getElem?_eq_none (Nat.le_of_not_lt hn)]

theorem orLong_length_ge (a b : List Nat) : a.length ≤ (orLong a b).length := by
  induction a generalizing b with
  | nil => simp
  | cons x xs ih =>
    cases b with
    | nil => simp [orLong]
    | cons y ys => simp [orLong]; exact ih ys

theorem orLong_ne (a b : List Nat) (i : Nat) :
    (orLong a b).getD i 0 ≠ 0 ↔ a.getD i 0 ≠ 0 ∨ b.getD i 0 ≠ 0 := by
  induction a generalizing b i with
  | nil => simp [orLong]
  | cons x xs ih =>
    cases b with
    | nil => simp [orLong]
    | cons y ys =>
      cases i with
      | zero =>
        simp only [orLong, List.getD_cons_zero]
        split <;> simp_all
      | succ i =>
        simp only [orLong, List.getD_cons_succ]
        exact ih ys i

theorem orLong_bit (a b : List Nat) (i : Nat) (hi : i < a.length)
    (h : a.getD i 0 = 0 ∨ a.getD i 0 = 1) :
    (orLong a b).getD i 0 = 0 ∨ (orLong a b).getD i 0 = 1 := by
  induction a generalizing b i with
  | nil => simp at hi
  | cons x xs ih =>
    cases b with
    | nil => simpa [orLong] using h
    | cons y ys =>
      cases i with
      | zero =>
        simp only [orLong, List.getD_cons_zero]
        split <;> simp
      | succ i =>
        simp only [orLong, List.getD_cons_succ]
        exact ih ys i (by simpa using hi) (by simpa using h)

theorem blurGo_spec (v : List Nat) : ∀ (n s : Nat) (acc : List Nat), v.length ≤ acc.length →
    v.length ≤ (blurGo v s n acc).length ∧ ∀ i, i < v.length →
      ((acc.getD i 0 = 0 ∨ acc.getD i 0 = 1) →
        ((blurGo v s n acc).getD i 0 = 0 ∨ (blurGo v s n acc).getD i 0 = 1)) ∧
      ((blurGo v s n acc).getD i 0 ≠ 0 ↔ acc.getD i 0 ≠ 0 ∨
        ∃ t, s ≤ t ∧ t < s + n ∧ (v.getD (i + t) 0 ≠ 0 ∨ (t ≤ i ∧ v.getD (i - t) 0 ≠ 0))) := by
  intro n
  induction n with
  | zero =>
    intro s acc hl
    refine ⟨hl, fun i _ => ⟨fun h => h, ?_⟩⟩
    simp only [blurGo]
    constructor
    · intro h; exact Or.inl h
    · rintro (h | ⟨t, h1, h2, _⟩)
      · exact h
      · omega
  | succ n ih =>
    intro s acc hl
    simp only [blurGo]
    have hl1 : v.length ≤ (orLong acc (v.drop s)).length :=
      Nat.le_trans hl (orLong_length_ge _ _)
    have hl2 : v.length ≤ (orLong (orLong acc (v.drop s)) (List.replicate s 0 ++ v)).length :=
      Nat.le_trans hl1 (orLong_length_ge _ _)
    obtain ⟨hlen, hrest⟩ := ih (s + 1) _ hl2
    refine ⟨hlen, fun i hi => ?_⟩
    obtain ⟨hb, hiff⟩ := hrest i hi
    constructor
    · intro hacc
      apply hb
      apply orLong_bit _ _ _ (by omega)
      exact orLong_bit _ _ _ (by omega) hacc
    · rw [hiff, orLong_ne, orLong_ne, getD_drop, getD_shift]
      constructor
      · rintro (((h | h) | h) | ⟨t, h1, h2, h3⟩)
        · exact Or.inl h
        · refine Or.inr ⟨s, Nat.le_refl _, by omega, Or.inl ?_⟩
          rwa [Nat.add_comm]
        · split at h
          · exact absurd rfl h
          · exact Or.inr ⟨s, Nat.le_refl _, by omega, Or.inr ⟨by omega, h⟩⟩
        · exact Or.inr ⟨t, by omega, by omega, h3⟩
      · rintro (h | ⟨t, h1, h2, h3⟩)
        · exact Or.inl (Or.inl (Or.inl h))
        · by_cases hts : t = s
          · subst hts
            rcases h3 with h3 | ⟨h3, h4⟩
            · left; left; right; rwa [Nat.add_comm]
            · left; right
              rw [if_neg (by omega)]; exact h4
          · exact Or.inr ⟨t, by omega, by omega, h3⟩

theorem getD_map_norm (v : List Nat) (i : Nat) :
    (v.map fun x => if x ≠ 0 then 1 else 0).getD i 0 = if v.getD i 0 ≠ 0 then 1 else 0 := by
  induction v generalizing i with
  | nil => simp
  | cons x xs ih =>
    cases i with
    | zero => simp
    | succ i => simpa using ih i

theorem ediv_step (a res : Int) (hres : 1 ≤ res) (ha : res ≤ a) :
    a / res = (a - res) / res + 1 ∧ 0 ≤ (a - res) / res := by
  have h := Int.add_mul_ediv_right (a - res) 1 (c := res) (by omega)
  have h2 : a - res + 1 * res = a := by omega
  rw [h2] at h
  exact ⟨h, Int.ediv_nonneg (by omega) (by omega)⟩

theorem vecWhile_spec (res stop p : Int) (hres : 1 ≤ res) :
    ∀ (f : Nat) (ws : Int) (z : Nat), ws ≤ p → ((p - ws) / res).toNat < f →
      ∃ k : Nat, (vecWhile res stop p f ws z).1 = z + k ∧
        (vecWhile res stop p f ws z).2.1 = ws + k * res ∧
        ((vecWhile res stop p f ws z).2.2 = false →
          (vecWhile res stop p f ws z).2.1 ≤ p ∧ p < (vecWhile res stop p f ws z).2.1 + res) ∧
        ((vecWhile res stop p f ws z).2.2 = true →
          stop < (vecWhile res stop p f ws z).2.1 ∧ (vecWhile res stop p f ws z).2.1 ≤ p ∧ 1 ≤ k) := by
  intro f
  induction f with
  | zero => intro ws z _ h; omega
  | succ f ih =>
    intro ws z hws hf
    unfold vecWhile
    by_cases h1 : p ≥ ws + res
    · rw [if_pos h1]
      by_cases h2 : ws + res > stop
      · rw [if_pos h2]
        refine ⟨1, rfl, by simp, by simp, fun _ => ⟨h2, h1, Nat.le_refl _⟩⟩
      · rw [if_neg h2]
        have hd := ediv_step (p - ws) res hres (by omega)
        have e : p - ws - res = p - (ws + res) := by omega
        rw [e] at hd
        obtain ⟨k, hk1, hk2, hk3, hk4⟩ := ih (ws + res) (z + 1) h1 (by omega)
        refine ⟨k + 1, by omega, ?_, hk3, ?_⟩
        · rw [hk2]; push_cast; rw [Int.add_mul, Int.one_mul]; omega
        · intro hs; have := hk4 hs; omega
    · rw [if_neg h1]
      refine ⟨0, rfl, by simp, fun _ => ⟨hws, ?_⟩, by simp⟩
      show p < ws + res
      omega

theorem vecGo_lt (res stop ws p : Int) (ps : List Int) (h : p < ws) :
    vecGo res stop ws (p :: ps) = vecGo res stop ws ps := by
  rw [vecGo, if_pos h]

theorem vecGo_ge (res stop ws p : Int) (ps : List Int) (hres : 1 ≤ res) (h : ws ≤ p) :
    ∃ k : Nat, ws + k * res ≤ p ∧
      ((p < ws + k * res + res ∧
          vecGo res stop ws (p :: ps) =
            List.replicate k 0 ++ 1 :: vecGo res stop (ws + k * res + res) ps) ∨
       (stop < ws + k * res ∧ vecGo res stop ws (p :: ps) = List.replicate k 0)) := by
  rw [vecGo, if_neg (by omega)]
  obtain ⟨k, hk1, hk2, hk3, hk4⟩ :=
    vecWhile_spec res stop p hres (((p - ws) / res).toNat + 1) ws 0 h (Nat.lt_succ_self _)
  simp only []
  generalize vecWhile res stop p (((p - ws) / res).toNat + 1) ws 0 = r at *
  obtain ⟨r1, r2, r3⟩ := r
  simp only at hk1 hk2 hk3 hk4 ⊢
  have hk1' : r1 = k := by omega
  subst hk1' hk2
  refine ⟨r1, ?_⟩
  cases r3 with
  | false =>
    have := hk3 rfl
    exact ⟨this.1, Or.inl ⟨this.2, by simp⟩⟩
  | true =>
    have := hk4 rfl
    exact ⟨this.2.1, Or.inr ⟨this.1, by simp⟩⟩

theorem mul_mono (a b : Nat) (res : Int) (h : a ≤ b) (hres : 1 ≤ res) :
    (a : Int) * res ≤ (b : Int) * res :=
  Int.mul_le_mul_of_nonneg_right (by omega) (by omega)

theorem succ_mul' (a : Nat) (res : Int) : ((a : Int) + 1) * res = a * res + res := by
  rw [Int.add_mul, Int.one_mul]

theorem shift_mul (k j : Nat) (res : Int) :
    ((k + 1 + j : Nat) : Int) * res = k * res + res + j * res := by
  push_cast
  rw [Int.add_mul, Int.add_mul, Int.one_mul]

theorem getD_rep_lt (k i : Nat) (l : List Nat) (h : i < k) :
    (List.replicate k 0 ++ l).getD i 0 = 0 := by
  simp [List.getD_eq_getElem?_getD, List.getElem?_append, h]

theorem getD_rep_ge (k j : Nat) (l : List Nat) :
    (List.replicate k 0 ++ l).getD (k + j) 0 = l.getD j 0 := by
  have h : ¬ k + j < k := by omega
  simp [List.getD_eq_getElem?_getD, List.getElem?_append, h]

theorem vecGo_bits (res stop : Int) (hres : 1 ≤ res) :
    ∀ (ps : List Int) (ws : Int), Ascending ps →
      ∀ i, i < (vecGo res stop ws ps).length →
        ((vecGo res stop ws ps).getD i 0 = 1 ∨ (vecGo res stop ws ps).getD i 0 = 0) ∧
        ((vecGo res stop ws ps).getD i 0 = 1 ↔
          ∃ p ∈ ps, ws + i * res ≤ p ∧ p < ws + (i + 1) * res) := by
  intro ps
  induction ps with
  | nil => intro ws _ i hi; simp [vecGo] at hi
  | cons p ps ih =>
    intro ws hs i hi
    have hs' : Ascending ps := (List.pairwise_cons.mp hs).2
    have hle : ∀ q ∈ ps, p ≤ q := (List.pairwise_cons.mp hs).1
    by_cases hp : p < ws
    · rw [vecGo_lt _ _ _ _ _ hp] at hi ⊢
      obtain ⟨h1, h2⟩ := ih ws hs' i hi
      refine ⟨h1, h2.trans ⟨?_, ?_⟩⟩
      · rintro ⟨q, hq, hq2⟩; exact ⟨q, List.mem_cons_of_mem _ hq, hq2⟩
      · rintro ⟨q, hq, hq2, hq3⟩
        rcases List.mem_cons.mp hq with rfl | hq
        · have := mul_mono 0 i res (Nat.zero_le _) hres
          simp only [Int.natCast_zero, Int.zero_mul] at this
          omega
        · exact ⟨q, hq, hq2, hq3⟩
    · obtain ⟨k, hk, hcase⟩ := vecGo_ge res stop ws p ps hres (by omega)
      -- bits before k are zero and hold no label
      have hzero : ∀ i, i < k →
          ¬ ∃ q ∈ p :: ps, ws + (i : Int) * res ≤ q ∧ q < ws + ((i : Int) + 1) * res := by
        rintro i hik ⟨q, hq, _, hq3⟩
        have hpq : p ≤ q := by
          rcases List.mem_cons.mp hq with rfl | hq
          · exact Int.le_refl _
          · exact hle q hq
        have := mul_mono (i + 1) k res hik hres
        push_cast at this
        omega
      rcases hcase with ⟨hpk, heq⟩ | ⟨_, heq⟩
      · rw [heq] at hi ⊢
        by_cases hik : i < k
        · rw [getD_rep_lt _ _ _ hik]
          exact ⟨Or.inr rfl, ⟨fun h => by simp at h, fun h => absurd h (hzero i hik)⟩⟩
        · obtain ⟨j, rfl⟩ : ∃ j, i = k + j := ⟨i - k, by omega⟩
          rw [getD_rep_ge]
          cases j with
          | zero =>
            simp only [List.getD_cons_zero, Nat.add_zero, true_or, true_iff, true_and]
            refine ⟨p, List.mem_cons_self, hk, ?_⟩
            rw [succ_mul']; omega
          | succ j =>
            simp only [List.getD_cons_succ]
            have hj : j < (vecGo res stop (ws + k * res + res) ps).length := by
              simp at hi; omega
            obtain ⟨h1, h2⟩ := ih (ws + k * res + res) hs' j hj
            refine ⟨h1, h2.trans ?_⟩
            have e1 := shift_mul k j res
            have e0 : k + (j + 1) = k + 1 + j := by omega
            have e2 := succ_mul' j res
            have e3 := succ_mul' (k + (j + 1)) res
            rw [e0] at e3 ⊢
            have hjn := mul_mono 0 j res (Nat.zero_le _) hres
            simp only [Int.natCast_zero, Int.zero_mul] at hjn
            constructor
            · rintro ⟨q, hq, hq2, hq3⟩
              exact ⟨q, List.mem_cons_of_mem _ hq, by omega, by omega⟩
            · rintro ⟨q, hq, hq2, hq3⟩
              rcases List.mem_cons.mp hq with rfl | hq
              · omega
              · exact ⟨q, hq, by omega, by omega⟩
      · rw [heq] at hi ⊢
        have hik : i < k := by simpa using hi
        have := getD_rep_lt k i [] hik
        rw [List.append_nil] at this
        rw [this]
        exact ⟨Or.inr rfl, ⟨fun h => by simp at h, fun h => absurd h (hzero i hik)⟩⟩

theorem vecGo_nolost (res stop : Int) (hres : 1 ≤ res) :
    ∀ (ps : List Int) (ws : Int), Ascending ps →
      ∀ q ∈ ps, ws ≤ q → q ≤ stop →
        ∃ n : Nat, n < (vecGo res stop ws ps).length ∧
          ws + n * res ≤ q ∧ q < ws + (n + 1) * res := by
  intro ps
  induction ps with
  | nil => intro ws _ q hq; simp at hq
  | cons p ps ih =>
    intro ws hs q hq hwq hqs
    have hs' : Ascending ps := (List.pairwise_cons.mp hs).2
    have hle : ∀ q ∈ ps, p ≤ q := (List.pairwise_cons.mp hs).1
    have hpq : p ≤ q := by
      rcases List.mem_cons.mp hq with rfl | hq
      · exact Int.le_refl _
      · exact hle q hq
    by_cases hp : p < ws
    · rw [vecGo_lt _ _ _ _ _ hp]
      rcases List.mem_cons.mp hq with rfl | hq
      · omega
      · exact ih ws hs' q hq hwq hqs
    · obtain ⟨k, hk, hcase⟩ := vecGo_ge res stop ws p ps hres (by omega)
      rcases hcase with ⟨hpk, heq⟩ | ⟨hst, _⟩
      · rw [heq]
        by_cases hqk : q < ws + k * res + res
        · refine ⟨k, by simp, by omega, ?_⟩
          rw [succ_mul']; omega
        · have hq' : q ∈ ps := by
            rcases List.mem_cons.mp hq with rfl | hq
            · omega
            · exact hq
          obtain ⟨j, hj1, hj2, hj3⟩ := ih (ws + k * res + res) hs' q hq' (by omega) hqs
          refine ⟨k + 1 + j, by simp; omega, ?_, ?_⟩
          · rw [shift_mul]; omega
          · have e2 := succ_mul' j res
            have e3 := succ_mul' (k + 1 + j) res
            have e1 := shift_mul k j res
            omega
      · omega

theorem bin_ediv (start res q : Int) (n : Nat) (hres : 1 ≤ res)
    (h1 : start + n * res ≤ q) (h2 : q < start + (n + 1) * res) :
    ((q - start) / res).toNat = n := by
  rw [succ_mul'] at h2
  have h := Int.add_mul_ediv_right (q - start - n * res) n (c := res) (by omega)
  have e : q - start - n * res + n * res = q - start := by omega
  have z : (q - start - n * res) / res = 0 := Int.ediv_eq_zero_of_lt (by omega) (by omega)
  rw [e, z] at h
  omega

theorem vectorise_eq (positions : List Int) (res start : Int) (stop? : Option Int) (v : List Nat)
    (h : vectorise positions res start stop? = .ok v) :
    1 ≤ res ∧ v = vecGo res (stopEff' positions stop?) start positions := by
  unfold vectorise at h
  by_cases hr : res < 1
  · simp [hr] at h
  · refine ⟨by omega, ?_⟩
    simp only [hr, if_false] at h
    unfold stopEff'
    cases hl : positions.getLast? with
    | none =>
      rw [hl] at h
      cases stop? with
      | none => simp at h
      | some e =>
        by_cases he : e = 0
        · simp [he] at h
        · simp [he] at h ⊢; exact h.symm
    | some l =>
      rw [hl] at h
      cases stop? with
      | none => simp at h ⊢; exact h.symm
      | some e =>
        by_cases he : e = 0
        · simp [he] at h ⊢; exact h.symm
        · simp [he] at h ⊢; exact h.symm

end Vector

open _root_.Coma.Proofs.Vector

theorem vectorise_bits (positions : List Int) (res start : Int) (stop? : Option Int) (v : List Nat)
    (hs : Ascending positions) (h : vectorise positions res start stop? = .ok v) :
    ∀ i, i < v.length →
      (v.getD i 0 = 1 ∨ v.getD i 0 = 0) ∧
      (v.getD i 0 = 1 ↔ ∃ p ∈ positions, start + i * res ≤ p ∧ p < start + (i + 1) * res) := by
  obtain ⟨hres, rfl⟩ := vectorise_eq positions res start stop? v h
  exact vecGo_bits res _ hres positions start hs

theorem vectorise_no_label_lost (positions : List Int) (res start : Int) (stop? : Option Int) (v : List Nat)
    (hs : Ascending positions) (h : vectorise positions res start stop? = .ok v) :
    ∀ p ∈ positions, start ≤ p → p ≤ stopEff' positions stop? → ((p - start) / res).toNat < v.length := by
  obtain ⟨hres, rfl⟩ := vectorise_eq positions res start stop? v h
  intro p hp h1 h2
  obtain ⟨n, hn, hn1, hn2⟩ := vecGo_nolost res _ hres positions start hs p hp h1 h2
  rw [bin_ediv start res p n hres hn1 hn2]
  exact hn

theorem vectorise_ok (positions : List Int) (res start : Int) (stop? : Option Int) :
    (∃ v, vectorise positions res start stop? = .ok v) ↔
      (1 ≤ res ∧ (positions ≠ [] ∨ ∃ e, stop? = some e ∧ e ≠ 0)) := by
  unfold vectorise
  by_cases hr : res < 1
  · simp [hr]; omega
  · have hr' : 1 ≤ res := by omega
    simp only [hr, if_false, hr', true_and]
    cases hl : positions.getLast? with
    | none =>
      have hnil := List.getLast?_eq_none_iff.mp hl
      subst hnil
      cases stop? with
      | none => simp
      | some e => by_cases he : e = 0 <;> simp [he]
    | some l =>
      have hne : positions ≠ [] := by
        intro h; subst h; simp at hl
      cases stop? with
      | none => simp [hne]
      | some e => by_cases he : e = 0 <;> simp [he, hne]

theorem blur_spec (v w : List Nat) (radius : Int) (h : blur v radius = .ok w) :
    w.length = v.length ∧
    ∀ i, i < v.length →
      (w.getD i 0 = 1 ∨ w.getD i 0 = 0) ∧
      (w.getD i 0 = 1 ↔ ∃ j, j < v.length ∧ v.getD j 0 ≠ 0 ∧ (i : Int) - radius ≤ j ∧ (j : Int) ≤ i + radius) := by
  unfold blur at h
  by_cases hr : radius < 0
  · simp [hr] at h
  · simp only [hr, if_false, Except.ok.injEq] at h
    obtain ⟨hlen, hrest⟩ := blurGo_spec v radius.toNat 1
      (v.map fun x => if x ≠ 0 then 1 else 0) (by simp)
    subst h
    refine ⟨by rw [List.length_take]; omega, fun i hi => ?_⟩
    obtain ⟨hb, hiff⟩ := hrest i hi
    have hget : ∀ (l : List Nat), (l.take v.length).getD i 0 = l.getD i 0 := by
      intro l
      simp [List.getD_eq_getElem?_getD, hi]
    rw [hget]
    have hbit := hb (by rw [getD_map_norm]; split <;> simp)
    refine ⟨hbit.symm, ?_⟩
    have h1 : ∀ x : Nat, (x = 0 ∨ x = 1) → (x = 1 ↔ x ≠ 0) := by omega
    rw [h1 _ hbit, hiff, getD_map_norm]
    constructor
    · rintro (h | ⟨t, h1, h2, h3 | ⟨h3, h4⟩⟩)
      · refine ⟨i, hi, ?_, by omega, by omega⟩
        intro h0; rw [h0] at h; exact h rfl
      · exact ⟨i + t, getD_ne_zero_lt _ _ h3, h3, by omega, by omega⟩
      · exact ⟨i - t, by omega, h4, by omega, by omega⟩
    · rintro ⟨j, hj, hv, h2, h3⟩
      by_cases hji : j = i
      · subst hji; left; rw [if_pos hv]; exact Nat.one_ne_zero
      · right
        by_cases hlt : j < i
        · refine ⟨i - j, by omega, by omega, Or.inr ⟨by omega, ?_⟩⟩
          have : i - (i - j) = j := by omega
          rwa [this]
        · refine ⟨j - i, by omega, by omega, Or.inl ?_⟩
          have : i + (j - i) = j := by omega
          rwa [this]

theorem toBp_centre (bin res start : Int) (hres : 1 ≤ res) :
    start + bin * res ≤ toBp bin res start ∧ toBp bin res start < start + (bin + 1) * res ∧
    2 * (toBp bin res start - (start + bin * res)) ≤ res ∧
    2 * ((start + (bin + 1) * res - 1) - toBp bin res start) ≤ res := by
  unfold toBp
  rw [Int.add_mul, Int.one_mul]
  generalize bin * res = x
  omega

theorem selectPeaks_spec {α} (count : Nat) (score : α → Int) (peaks : List α) :
    (selectPeaks count score peaks).length = min count peaks.length ∧
    ((selectPeaks count score peaks).map score).Pairwise (· ≥ ·) ∧
    ∃ rest, (selectPeaks count score peaks ++ rest).Perm peaks ∧
      ∀ x ∈ selectPeaks count score peaks, ∀ y ∈ rest, score y ≤ score x := by
  have hperm : (isortDesc score peaks).Perm peaks := isort_perm _ _
  have hsorted : (isortDesc score peaks).Pairwise (fun x y => score y ≤ score x) := by
    have := isort_sorted (fun a => - score a) peaks
    refine this.imp ?_
    intro a b h
    omega
  unfold selectPeaks
  refine ⟨?_, ?_, (isortDesc score peaks).drop count, ?_, ?_⟩
  · rw [List.length_take, hperm.length_eq]
  · rw [List.pairwise_map]
    exact (hsorted.sublist (List.take_sublist _ _)).imp (fun h => h)
  · rw [List.take_append_drop]; exact hperm
  · rw [← List.take_append_drop count (isortDesc score peaks)] at hsorted
    exact (List.pairwise_append.mp hsorted).2.2

end Coma.Proofs
