import Props.Defs
namespace Coma.Proofs
open Coma Coma.Spec

/-- the effective end of the window: `end or positions[-1]` (same definition as in Props/C16) -/
def stopEff' (positions : List Int) (stop? : Option Int) : Int :=
  match stop? with
  | some e => if e ≠ 0 then e else positions.getLast?.getD 0
  | none   => positions.getLast?.getD 0

theorem vectorise_bits (positions : List Int) (res start : Int) (stop? : Option Int) (v : List Nat)
    (hs : Ascending positions) (h : vectorise positions res start stop? = .ok v) :
    ∀ i, i < v.length →
      (v.getD i 0 = 1 ∨ v.getD i 0 = 0) ∧
      (v.getD i 0 = 1 ↔ ∃ p ∈ positions, start + i * res ≤ p ∧ p < start + (i + 1) * res) := by
  sorry

theorem vectorise_no_label_lost (positions : List Int) (res start : Int) (stop? : Option Int) (v : List Nat)
    (hs : Ascending positions) (h : vectorise positions res start stop? = .ok v) :
    ∀ p ∈ positions, start ≤ p → p ≤ stopEff' positions stop? → ((p - start) / res).toNat < v.length := by
  sorry

theorem vectorise_ok (positions : List Int) (res start : Int) (stop? : Option Int) :
    (∃ v, vectorise positions res start stop? = .ok v) ↔
      (1 ≤ res ∧ (positions ≠ [] ∨ ∃ e, stop? = some e ∧ e ≠ 0)) := by
  sorry

theorem blur_spec (v w : List Nat) (radius : Int) (h : blur v radius = .ok w) :
    w.length = v.length ∧
    ∀ i, i < v.length →
      (w.getD i 0 = 1 ∨ w.getD i 0 = 0) ∧
      (w.getD i 0 = 1 ↔ ∃ j, j < v.length ∧ v.getD j 0 ≠ 0 ∧ (i : Int) - radius ≤ j ∧ (j : Int) ≤ i + radius) := by
  sorry

theorem toBp_centre (bin res start : Int) (hres : 1 ≤ res) :
    start + bin * res ≤ toBp bin res start ∧ toBp bin res start < start + (bin + 1) * res ∧
    2 * (toBp bin res start - (start + bin * res)) ≤ res ∧
    2 * ((start + (bin + 1) * res - 1) - toBp bin res start) ≤ res := by
  sorry

theorem selectPeaks_spec {α} (count : Nat) (score : α → Int) (peaks : List α) :
    (selectPeaks count score peaks).length = min count peaks.length ∧
    ((selectPeaks count score peaks).map score).Pairwise (· ≥ ·) ∧
    ∃ rest, (selectPeaks count score peaks ++ rest).Perm peaks ∧
      ∀ x ∈ selectPeaks count score peaks, ∀ y ∈ rest, score y ≤ score x := by
  sorry

end Coma.Proofs
