/-
  Proofs/IndelLoops.lean — the loops around the indel call constructor (`Coma/Indel.lean`):
  every call either finder reports for an alignment is the constructor applied to the coordinates of
  four labels of the two maps, and the segment finder reports one for every breakage place whose
  following pair exists and whose gap difference is in range.
-/
import Coma.Indel
namespace Coma.Proofs
open Coma

theorem pyIndex_mem (xs : List Int) (i v : Int) (h : pyIndex xs i = .ok v) : v ∈ xs := by
  unfold pyIndex at h
  dsimp only at h
  by_cases hj : (if i < 0 then (xs.length : Int) + i else i) < 0
  · rw [if_pos hj] at h; cases h
  · rw [if_neg hj] at h
    split at h
    · rename_i w hw
      cases h
      exact List.mem_of_getElem? hw
    · cases h

theorem callAt_spec (lo chrom qid : Int) (rpos qpos : List Int) (a b : Int × Int) (c : Call)
    (h : callAt lo chrom qid rpos qpos a b = .ok (some c)) :
    ∃ rs re qs qe, rs ∈ rpos ∧ re ∈ rpos ∧ qs ∈ qpos ∧ qe ∈ qpos ∧ mkCall lo chrom qid rs re qs qe = some c := by
  unfold callAt at h
  simp only [bind, Except.bind, pure, Except.pure] at h
  cases h1 : pyIndex rpos (a.1 - 1) with
  | error e => rw [h1] at h; cases h
  | ok rs =>
    rw [h1] at h; dsimp only at h
    cases h2 : pyIndex qpos (a.2 - 1) with
    | error e => rw [h2] at h; cases h
    | ok qs =>
      rw [h2] at h; dsimp only at h
      cases h3 : pyIndex rpos (b.1 - 1) with
      | error e => rw [h3] at h; cases h
      | ok re =>
        rw [h3] at h; dsimp only at h
        cases h4 : pyIndex qpos (b.2 - 1) with
        | error e => rw [h4] at h; cases h
        | ok qe =>
          rw [h4] at h; dsimp only at h
          refine ⟨rs, re, qs, qe, pyIndex_mem _ _ _ h1, pyIndex_mem _ _ _ h3, pyIndex_mem _ _ _ h2,
            pyIndex_mem _ _ _ h4, ?_⟩
          injection h

/-- one step of the segment loop, with the intermediate results named -/
theorem segmentCalls_cons_cases (chrom qid : Int) (rpos qpos : List Int) (pairs : List (Int × Int)) (i : Int)
    (is : List Int) (cs : List Call)
    (h : segmentCalls chrom qid rpos qpos pairs (i :: is) = .ok cs) :
    ∃ rest, segmentCalls chrom qid rpos qpos pairs is = .ok rest ∧
      (cs = rest ∨ ∃ a b c, callAt 100 chrom qid rpos qpos a b = .ok (some c) ∧ cs = c :: rest) := by
  unfold segmentCalls at h
  simp only [bind, Except.bind, pure, Except.pure] at h
  cases hr : segmentCalls chrom qid rpos qpos pairs is with
  | error e => rw [hr] at h; cases h
  | ok rest =>
    rw [hr] at h; dsimp only at h
    refine ⟨rest, rfl, ?_⟩
    split at h
    · split at h
      · cases h
      · rename_i b hb
        split at h
        · cases h
        · rename_i a ha
          split at h
          · cases h
          · rename_i oc hc
            cases oc with
            | none => dsimp only at h; injection h with h; exact Or.inl h.symm
            | some c => dsimp only at h; injection h with h; exact Or.inr ⟨a, b, c, hc, h.symm⟩
    · injection h with h; exact Or.inl h.symm

/-- every call the segment finder reports is the constructor (threshold 100) on four label coordinates -/
theorem segmentCalls_sound (chrom qid : Int) (rpos qpos : List Int) (pairs : List (Int × Int)) (bps : List Int) (cs : List Call)
    (h : segmentCalls chrom qid rpos qpos pairs bps = .ok cs) :
    ∀ c ∈ cs, ∃ rs re qs qe, rs ∈ rpos ∧ re ∈ rpos ∧ qs ∈ qpos ∧ qe ∈ qpos ∧ mkCall 100 chrom qid rs re qs qe = some c := by
  induction bps generalizing cs with
  | nil =>
    unfold segmentCalls at h
    injection h with h; subst h
    intro c hc; cases hc
  | cons i is ih =>
    obtain ⟨rest, hr, hcs⟩ := segmentCalls_cons_cases _ _ _ _ _ _ _ _ h
    rcases hcs with rfl | ⟨a, b, c', hc', rfl⟩
    · exact ih _ hr
    · intro c hc
      rcases List.mem_cons.mp hc with rfl | hc
      · exact callAt_spec _ _ _ _ _ _ _ _ hc'
      · exact ih _ hr c hc

/-- it reports at most one call per breakage place -/
theorem segmentCalls_length (chrom qid : Int) (rpos qpos : List Int) (pairs : List (Int × Int)) (bps : List Int) (cs : List Call)
    (h : segmentCalls chrom qid rpos qpos pairs bps = .ok cs) : cs.length ≤ bps.length := by
  induction bps generalizing cs with
  | nil =>
    unfold segmentCalls at h
    injection h with h; subst h
    exact Nat.le_refl _
  | cons i is ih =>
    obtain ⟨rest, hr, hcs⟩ := segmentCalls_cons_cases _ _ _ _ _ _ _ _ h
    have := ih _ hr
    rcases hcs with rfl | ⟨a, b, c', hc', rfl⟩
    · simp only [List.length_cons]; omega
    · simp only [List.length_cons]; omega

/-- a breakage place at or past the last pair is skipped silently (the `len(alignedPairs) > index + 1` guard) -/
theorem segmentCalls_skip (chrom qid : Int) (rpos qpos : List Int) (pairs : List (Int × Int)) (i : Int) (bps : List Int)
    (hi : ¬ (pairs.length : Int) > i + 1) :
    segmentCalls chrom qid rpos qpos pairs (i :: bps) = segmentCalls chrom qid rpos qpos pairs bps := by
  conv => lhs; unfold segmentCalls
  simp only [bind, Except.bind, pure, Except.pure]
  cases hr : segmentCalls chrom qid rpos qpos pairs bps with
  | error e => rfl
  | ok rest => dsimp only; rw [if_neg hi]

/-- the call the molecule finder reports is the constructor (threshold 2000) on four label coordinates -/
theorem moleculeCall_sound (chrom qid : Int) (rpos qpos : List Int) (pairs : List (Int × Int)) (index : Int) (bp : Int × Int) (c : Call)
    (h : moleculeCall chrom qid rpos qpos pairs index bp = .ok (some c)) :
    ∃ rs re qs qe, rs ∈ rpos ∧ re ∈ rpos ∧ qs ∈ qpos ∧ qe ∈ qpos ∧ mkCall 2000 chrom qid rs re qs qe = some c := by
  unfold moleculeCall at h
  simp only [bind, Except.bind, throw, throwThe, MonadExcept.throw, MonadExceptOf.throw] at h
  by_cases hj : (if index + 1 < 0 then (pairs.length : Int) + (index + 1) else index + 1) < 0
  · rw [if_pos hj] at h; cases h
  · rw [if_neg hj] at h
    split at h
    · cases h
    · exact callAt_spec _ _ _ _ _ _ _ _ h

end Coma.Proofs
