import Props.Defs
import Proofs.Compose
import Proofs.Fields
import Proofs.SrcBlind
import Proofs.Indep
import Proofs.Modes
import Proofs.Select

namespace Coma.Proofs.SecondPass
open Coma Coma.Spec Coma.Proofs Coma.Proofs.Fields

theorem indexOf_some (x : Int) : ∀ l : List Int, x ∈ l → ∃ i, indexOf? x l = some i
  | [], h => by cases h
  | a :: l, h => by
    unfold indexOf?
    by_cases ha : a = x
    · exact ⟨0, by simp [ha]⟩
    · have hx : x ∈ l := by
        rcases List.mem_cons.mp h with h | h
        · exact absurd h.symm ha
        · exact h
      obtain ⟨i, hi⟩ := indexOf_some x l hx
      exact ⟨i + 1, by simp [ha, hi]⟩

theorem headD_mem {α} (d : α) : ∀ l : List α, l ≠ [] → l.head?.getD d ∈ l
  | [], h => absurd rfl h
  | a :: l, _ => by simp

theorem getLastD_mem {α} (d : α) (l : List α) (h : l ≠ []) : l.getLast?.getD d ∈ l := by
  rw [List.getLast?_eq_some_getLast h]
  exact List.getLast_mem h

theorem isort_ne_nil {α} (key : α → Int) (l : List α) (h : l ≠ []) : isort key l ≠ [] := by
  intro h0
  have := isort_length key l
  rw [h0] at this
  exact h (List.length_eq_zero_iff.mp this.symm)

theorem alignerAlign_create {P : Params} {C : ChainCfg} {ref qry : OMap} {peaks : List Int} {rev : Bool} {it : Int}
    {row : Row} (h : alignerAlign P C ref qry peaks rev it = .ok row) :
    ∃ res, row = Row.create P res qry.id ref.id qry.length ref.length rev := by
  unfold alignerAlign at h
  cases hs : segmentsOfPeaks P ref qry rev it peaks with
  | error e => simp [hs, bind, Except.bind] at h
  | ok segs =>
    cases hr : resolveConflicts P C segs with
    | error e => simp [hs, hr, bind, Except.bind] at h
    | ok res =>
      simp [hs, hr, bind, Except.bind, pure, Except.pure] at h
      exact ⟨res, h.symm⟩

/-- on the '+' strand the query start/end of a non-empty created row are query coordinates of
    listed pairs -/
theorem create_fwd_ends (P : Params) (res : List Seg) (qid rid ql rl : Int)
    (hp : (Row.create P res qid rid ql rl false).pairs ≠ []) :
    (∃ p ∈ (Row.create P res qid rid ql rl false).pairs, (Row.create P res qid rid ql rl false).qStart = p.q.pos) ∧
    (∃ p ∈ (Row.create P res qid rid ql rl false).pairs, (Row.create P res qid rid ql rl false).qEnd = p.q.pos) := by
  have hp' : res.flatMap Seg.pairs ≠ [] := hp
  have hs := isort_ne_nil (fun (p : Pr) => p.r.pos) _ hp'
  constructor
  · exact ⟨_, (mem_isort _ _ _).mp (headD_mem nullPr _ hs), rfl⟩
  · exact ⟨_, (mem_isort _ _ _).mp (getLastD_mem nullPr _ hs), rfl⟩

theorem sa_to (l : List Int) (h : StrictAscending l) (j : Int) : StrictAscending (pySliceTo l j) := by
  obtain ⟨t, ht⟩ := pySliceTo_eq_take l j
  rw [ht]; exact List.Pairwise.sublist (List.take_sublist _ _) h

theorem sa_from (l : List Int) (h : StrictAscending l) (j : Int) : StrictAscending (pySliceFrom l j) := by
  obtain ⟨t, ht⟩ := pySliceFrom_eq_drop l j
  rw [ht]; exact List.Pairwise.sublist (List.drop_sublist _ _) h

theorem find_of_nodup : ∀ (qs : List OMap) (q : OMap), q ∈ qs → (qs.map (·.id)).Nodup →
    qs.find? (fun m => m.id = q.id) = some q
  | [], _, h, _ => by cases h
  | a :: qs, q, h, hn => by
    rw [List.map_cons, List.nodup_cons] at hn
    rcases List.mem_cons.mp h with h | h
    · subst h; simp
    · have hne : a.id ≠ q.id := by
        intro he
        exact hn.1 (he ▸ List.mem_map_of_mem h)
      rw [List.find?_cons]
      simp only [hne, decide_false]
      exact find_of_nodup qs q h hn.2

/-- every row kept by the first pass is a candidate built by `alignerAlign` for one of the
    queries against one of the references -/
theorem executeSingle_origin {cfg : Cfg} {refs : List OMap} {t : SeedTable} {qs : List OMap} {it : Int}
    {rows : List Row} (h : executeSingle cfg refs t qs it = .ok rows) :
    ∀ row ∈ rows, ∃ q ∈ qs, ∃ r ∈ refs, ∃ peaks rev, alignerAlign cfg.P cfg.C r q peaks rev it = .ok row := by
  obtain ⟨hall, rfl⟩ := (Indep.executeSingle_ok_iff cfg refs t qs it rows).1 h
  intro row hrow
  obtain ⟨q, hq, hk⟩ := List.mem_filterMap.mp hrow
  have hk := Indep.keep_some hk
  obtain ⟨o, ho⟩ := hall q hq
  rw [ho] at hk
  simp only [Cmap.toOk_ok] at hk
  subst hk
  refine ⟨q, hq, ?_⟩
  unfold perQuery at ho
  split at ho
  · cases ho
  · simp only [bind, Except.bind, pure, Except.pure] at ho
    split at ho
    · cases ho
    · rename_i rs hrs
      simp only [Except.ok.injEq] at ho
      obtain ⟨s, _, hs⟩ := Modes.mapM_ok_mem _ _ _ hrs row (Modes.bestRow_mem ho)
      split at hs
      · cases hs
      · rename_i r hf
        exact ⟨r, List.mem_of_find?_eq_some hf, s.peaks, s.rev, hs⟩

theorem mapM_ok_of_forall {α β} (f : α → Except Err β) (l : List α)
    (h : ∀ x ∈ l, ∃ y, f x = .ok y) : ∃ ys, l.mapM f = .ok ys :=
  SrcBlind.mapM_ok_of_forall f l h

end Coma.Proofs.SecondPass

namespace Coma.Proofs
open Coma Coma.Spec Coma.Proofs.SecondPass Coma.Proofs.Fields

set_option linter.unusedVariables false in
/-- a first-pass row of a query that was read and trimmed: its query start/end coordinates are
    coordinates of labels of that query, so the fragment computation never raises (the
    `positions.index(...)` look-ups succeed and the query is found by id) -/
theorem unalignedFragments_total (P : Params) (C : ChainCfg) (hP : GoodParams P) (ref q : OMap) (peaks : List Int)
    (rev : Bool) (it : Int) (hr : StrictAscending ref.positions) (hq : StrictAscending q.positions)
    (hshift : q.shift = 0) (row : Row) (h : alignerAlign P C ref q peaks rev it = .ok row) (hp : row.pairs ≠ [])
    (queries : List OMap) (hfind : queries.find? (fun m => m.id = row.queryId) = some q) :
    ∃ frags, unalignedFragments row queries = .ok frags ∧
      ∀ f ∈ frags, StrictAscending f.positions ∧ f.id = q.id := by
  obtain ⟨hqid, _, _, _, hrev, _, _⟩ := alignerAlign_fields P C ref q peaks rev it row h
  have hreal := alignerAlign_labels_real P C hP ref q peaks rev it hr hq row h
  have hidx : rev = false → (∃ i, indexOf? row.qStart q.positions = some i) ∧
      (∃ j, indexOf? row.qEnd q.positions = some j) := by
    intro hrf
    subst hrf
    obtain ⟨res, hres⟩ := alignerAlign_create h
    have key : ∀ p ∈ row.pairs, ∃ i, indexOf? p.q.pos q.positions = some i := by
      intro p hpm
      have hl := (hreal p hpm).2
      rw [(labels_spec q false).2] at hl
      obtain ⟨k, x, hk, _, hx⟩ := hl
      apply indexOf_some
      simp only [Bool.false_eq_true, if_false] at hx
      rw [hx]
      exact List.mem_of_getElem? hk
    subst hres
    obtain ⟨⟨p1, hp1, e1⟩, ⟨p2, hp2, e2⟩⟩ := create_fwd_ends P res q.id ref.id q.length ref.length hp
    rw [e1, e2]
    exact ⟨key p1 hp1, key p2 hp2⟩
  have hto := sa_to q.positions hq
  have hfrom := sa_from q.positions hq
  unfold unalignedFragments
  simp only [hfind]
  split
  · exact ⟨[], rfl, by simp⟩
  · cases hrv : rev with
    | true =>
      rw [hrv] at hrev
      simp only [hrev, Bool.not_true, Bool.false_eq_true, if_false]
      repeat' split
      all_goals
        refine ⟨_, rfl, ?_⟩
        first
          | (intro f hf; cases hf; done)
          | (simp only [List.forall_mem_cons, List.not_mem_nil, false_imp_iff, implies_true, and_true]
             first
              | exact ⟨hto _, hqid⟩
              | exact ⟨hfrom _, hqid⟩
              | exact ⟨⟨hto _, hqid⟩, hfrom _, hqid⟩)
    | false =>
      rw [hrv] at hrev
      obtain ⟨⟨i, hi⟩, ⟨j, hj⟩⟩ := hidx hrv
      simp only [hrev, Bool.not_false, if_true, hi, hj]
      repeat' split
      all_goals
        refine ⟨_, rfl, ?_⟩
        first
          | (intro f hf; cases hf; done)
          | (simp only [List.forall_mem_cons, List.not_mem_nil, false_imp_iff, implies_true, and_true]
             first
              | exact ⟨hto _, hqid⟩
              | exact ⟨hfrom _, hqid⟩
              | exact ⟨⟨hto _, hqid⟩, hfrom _, hqid⟩)

/-- the second pass never raises (every fragment is again a map with strictly ascending
    coordinates, so `C07_first_pass_total` applies to it) -/
theorem secondPass_total (cfg : Cfg) (hP : GoodParams cfg.P) (refs : List OMap) (t : SeedTable) (qs : List OMap) (it : Int)
    (hrefs : ∀ r ∈ refs, StrictAscending r.positions) (hqs : ∀ q ∈ qs, StrictAscending q.positions ∧ q.shift = 0)
    (hids : (qs.map (·.id)).Nodup)
    (hseeds : ∀ k, ∀ s ∈ t.lookup k, ∃ r ∈ refs, r.id = s.refId)
    (first : List Row) (h1 : executeSingle cfg refs t qs it = .ok first) :
    ∃ second, secondPass cfg refs t qs first it = .ok second := by
  have hpairs := executeSingle_pairs cfg refs t qs it first h1
  have horig := executeSingle_origin h1
  have hrow : ∀ row ∈ first, ∃ fl, unalignedFragments row qs = .ok fl ∧
      ∀ f ∈ fl, StrictAscending f.positions := by
    intro row hrowm
    obtain ⟨q, hq, r, hr, peaks, rev, ha⟩ := horig row hrowm
    have hqid := (alignerAlign_fields _ _ _ _ _ _ _ _ ha).1
    have hfind : qs.find? (fun m => m.id = row.queryId) = some q := by
      rw [hqid]; exact find_of_nodup qs q hq hids
    obtain ⟨fl, hfl, hfs⟩ := unalignedFragments_total cfg.P cfg.C hP r q peaks rev it (hrefs r hr) (hqs q hq).1
      (hqs q hq).2 row ha (hpairs row hrowm) qs hfind
    exact ⟨fl, hfl, fun f hf => (hfs f hf).1⟩
  obtain ⟨frags, hfrags⟩ := SecondPass.mapM_ok_of_forall (fun r => unalignedFragments r qs) first
    (fun row hm => (hrow row hm).imp fun _ h => h.1)
  have hsa : ∀ f ∈ frags.flatten, StrictAscending f.positions := by
    intro f hf
    obtain ⟨fl, hfl, hffl⟩ := List.mem_flatten.mp hf
    obtain ⟨row, hrowm, he⟩ := Modes.mapM_ok_mem _ _ _ hfrags fl hfl
    obtain ⟨fl', he', hall⟩ := hrow row hrowm
    rw [he] at he'
    injection he' with he'
    subst he'
    exact hall f hffl
  obtain ⟨rows, hrows⟩ := executeSingle_total cfg hP refs t frags.flatten it hrefs hsa
    (fun q _ => hseeds q.key)
    (fun r hr q hq peaks rev => alignerAlign_total cfg.P cfg.C hP r q peaks rev it (hrefs r hr) (hsa q hq))
  refine ⟨rows.map fun r => { r with alignedRest := true }, ?_⟩
  unfold secondPass
  simp only [bind, Except.bind, pure, Except.pure, hfrags, hrows]

/-- 'separate' mode (first-pass file + second-pass file) never raises -/
theorem execute_separate_total (cfg : Cfg) (hP : GoodParams cfg.P) (refs : List OMap) (t : SeedTable) (qs : List OMap) (it : Int)
    (hrefs : ∀ r ∈ refs, StrictAscending r.positions) (hqs : ∀ q ∈ qs, StrictAscending q.positions ∧ q.shift = 0)
    (hids : (qs.map (·.id)).Nodup)
    (hseeds : ∀ k, ∀ s ∈ t.lookup k, ∃ r ∈ refs, r.id = s.refId) :
    ∃ out, execute cfg .separate refs t qs it = .ok out := by
  obtain ⟨first, h1⟩ := executeSingle_total cfg hP refs t qs it hrefs (fun q hq => (hqs q hq).1)
    (fun q _ => hseeds q.key)
    (fun r hr q hq peaks rev => alignerAlign_total cfg.P cfg.C hP r q peaks rev it (hrefs r hr) (hqs q hq).1)
  obtain ⟨second, h2⟩ := secondPass_total cfg hP refs t qs it hrefs hqs hids hseeds first h1
  exact ⟨_, Modes.execute_separate h1 h2⟩

/-- … and neither does single-pass mode -/
theorem execute_single_total (cfg : Cfg) (hP : GoodParams cfg.P) (refs : List OMap) (t : SeedTable) (qs : List OMap) (it : Int)
    (hrefs : ∀ r ∈ refs, StrictAscending r.positions) (hqs : ∀ q ∈ qs, StrictAscending q.positions ∧ q.shift = 0)
    (hseeds : ∀ k, ∀ s ∈ t.lookup k, ∃ r ∈ refs, r.id = s.refId) :
    ∃ out, execute cfg .single refs t qs it = .ok out := by
  obtain ⟨first, h1⟩ := executeSingle_total cfg hP refs t qs it hrefs (fun q hq => (hqs q hq).1)
    (fun q _ => hseeds q.key)
    (fun r hr q hq peaks rev => alignerAlign_total cfg.P cfg.C hP r q peaks rev it (hrefs r hr) (hqs q hq).1)
  refine ⟨{ main := filterBestPerQuery first }, ?_⟩
  unfold execute
  simp [bind, Except.bind, pure, Except.pure, h1]

end Coma.Proofs
