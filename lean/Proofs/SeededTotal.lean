/-
  Proofs/SeededTotal.lean — C07 with the secondary seeding stage inside the model: when every selected primary
  peak's refinement window reaches a reference label, deriving the seed table succeeds, and the alignment logic then
  runs to completion in every output mode.
-/
import Proofs.SeedTable
import Proofs.Peaks
import Proofs.Total
namespace Coma.Proofs
open Coma Coma.Spec

/-- the hypotheses on one selected primary peak of the molecule `q` -/
def PSeedOK (c : SecCfg) (refs : List OMap) (s : PSeed) : Prop :=
  ∃ r ∈ refs, r.id = s.refId ∧ ∃ p ∈ r.positions, s.primary - c.margin ≤ p

/-- every key names a molecule of the run with at least one label at a non-negative coordinate in the run of labels it
    selects, and every primary peak under it is fine -/
def PTableOK (c : SecCfg) (refs qs : List OMap) (pt : PTable) : Prop :=
  ∀ e ∈ pt, (∃ q, fragmentOf qs e.1 = some q ∧ (∃ p ∈ q.positions, 0 ≤ p)) ∧ ∀ s ∈ e.2, PSeedOK c refs s

namespace SeededTotal

/-- in a list with distinct ids, two members with the same id are equal -/
theorem eq_of_nodup_id : ∀ (refs : List OMap), (refs.map (·.id)).Nodup →
    ∀ a ∈ refs, ∀ b ∈ refs, a.id = b.id → a = b := by
  intro refs
  induction refs with
  | nil => intro _ a ha; cases ha
  | cons x xs ih =>
    intro hn a ha b hb hab
    rw [List.map_cons, List.nodup_cons] at hn
    obtain ⟨hx, hn⟩ := hn
    rcases List.mem_cons.mp ha with rfl | ha'
    · rcases List.mem_cons.mp hb with rfl | hb'
      · rfl
      · exact absurd (hab ▸ List.mem_map_of_mem (f := (·.id)) hb') hx
    · rcases List.mem_cons.mp hb with rfl | hb'
      · exact absurd (hab ▸ List.mem_map_of_mem (f := (·.id)) ha') hx
      · exact ih hn a ha' b hb' hab

/-- `List.mapM` in `Except` succeeds when the function succeeds on every element -/
theorem mapM_total {ε α β} (f : α → Except ε β) : ∀ (l : List α), (∀ a ∈ l, ∃ b, f a = .ok b) →
    ∃ bs, l.mapM f = .ok bs := by
  intro l
  induction l with
  | nil => intro _; exact ⟨[], rfl⟩
  | cons a tl ih =>
    intro h
    obtain ⟨b, hb⟩ := h a List.mem_cons_self
    obtain ⟨bs, hbs⟩ := ih (fun x hx => h x (List.mem_cons_of_mem _ hx))
    refine ⟨b :: bs, ?_⟩
    rw [List.mapM_cons, hb, hbs]
    rfl

/-- members of a successful `mapM` come from members of the input -/
theorem mapM_mem {ε α β} (f : α → Except ε β) : ∀ (l : List α) (bs : List β), l.mapM f = .ok bs →
    ∀ b ∈ bs, ∃ a ∈ l, f a = .ok b := by
  intro l
  induction l with
  | nil =>
    intro bs h b hb
    rw [List.mapM_nil] at h
    simp only [pure, Except.pure, Except.ok.injEq] at h
    subst h; cases hb
  | cons a tl ih =>
    intro bs h b hb
    rw [List.mapM_cons] at h
    cases ha : f a with
    | error x => rw [ha] at h; cases h
    | ok b0 =>
      rw [ha] at h
      cases ht : tl.mapM f with
      | error x => rw [ht] at h; cases h
      | ok bs0 =>
        rw [ht] at h
        simp only [bind, Except.bind, pure, Except.pure, Except.ok.injEq] at h
        subst h
        rcases List.mem_cons.mp hb with rfl | hb'
        · exact ⟨a, List.mem_cons_self, ha⟩
        · obtain ⟨a', ha', hf⟩ := ih bs0 ht b hb'
          exact ⟨a', List.mem_cons_of_mem _ ha', hf⟩

/-- a derived seed names the reference that `find?` delivered -/
theorem deriveSeed_ref (c : SecCfg) (refs : List OMap) (q : OMap) (s : PSeed) (x : Seed × SecStatus)
    (h : deriveSeed c refs q s = .ok x) : ∃ r ∈ refs, r.id = x.1.refId := by
  unfold deriveSeed at h
  simp only [] at h
  cases hf : refs.find? (fun r => r.id = s.refId) with
  | none => rw [hf] at h; cases h
  | some r =>
    rw [hf] at h
    have hmem := List.mem_of_find?_eq_some hf
    have hid : r.id = s.refId := by simpa using List.find?_some hf
    simp only [bind, Except.bind, pure, Except.pure] at h
    cases hc : refineCorrelation c r q s.rev s.primary with
    | error x => rw [hc] at h; cases h
    | ok corr =>
      rw [hc] at h
      simp only [] at h
      cases hr : refine c r q s.rev s.primary with
      | error x => rw [hr] at h; cases h
      | ok pk =>
        rw [hr] at h
        simp only [] at h
        split at h
        · simp only [Except.ok.injEq] at h
          subst h
          exact ⟨r, hmem, hid⟩
        · simp only [Except.ok.injEq] at h
          subst h
          exact ⟨r, hmem, hid⟩

/-- deriving one seed succeeds -/
theorem deriveSeed_total (c : SecCfg) (refs : List OMap) (q : OMap) (s : PSeed) (hres : 1 ≤ c.res) (hb : 0 ≤ c.blur)
    (hrefs : ∀ r ∈ refs, StrictAscending r.positions) (hq : Ascending q.positions) (hq0 : ∃ p ∈ q.positions, 0 ≤ p)
    (hrid : (refs.map (·.id)).Nodup) (hs : PSeedOK c refs s) :
    ∃ x, deriveSeed c refs q s = .ok x := by
  obtain ⟨r', hr'mem, hr'id, hwin⟩ := hs
  unfold deriveSeed
  simp only []
  cases hf : refs.find? (fun r => r.id = s.refId) with
  | none =>
    rw [List.find?_eq_none] at hf
    exact absurd (by simpa using hr'id) (hf r' hr'mem)
  | some r =>
    have hmem := List.mem_of_find?_eq_some hf
    have hid : r.id = s.refId := by simpa using List.find?_some hf
    have hrr : r = r' := eq_of_nodup_id refs hrid r hmem r' hr'mem (hid.trans hr'id.symm)
    subst hrr
    have hne : r.positions ≠ [] := by
      obtain ⟨p, hp, _⟩ := hwin
      intro h0; rw [h0] at hp; cases hp
    have hasc : Ascending r.positions := (hrefs r hmem).imp (fun h => Int.le_of_lt h)
    obtain ⟨pk, hpk⟩ := (refine_ok_iff c r q s.rev s.primary hres hb hq hasc hq0 hne).mpr hwin
    obtain ⟨corr, hcorr, _⟩ := (Peaks.refine_ok c r q s.rev s.primary pk).mp hpk
    simp only [bind, Except.bind, pure, Except.pure, hcorr, hpk]
    split <;> exact ⟨_, rfl⟩

/-- the fragment a key stands for has ascending positions -/
theorem fragmentOf_ascending (qs : List OMap) (k : QKey) (q : OMap)
    (hqs : ∀ q ∈ qs, StrictAscending q.positions) (h : fragmentOf qs k = some q) : Ascending q.positions := by
  unfold fragmentOf at h
  cases hf : qs.find? (fun q => q.id = k.id) with
  | none => rw [hf] at h; cases h
  | some q0 =>
    rw [hf] at h
    simp only [Option.map_some, Option.some.injEq] at h
    subst h
    have hmem := List.mem_of_find?_eq_some hf
    have h0 : Ascending q0.positions := (hqs q0 hmem).imp (fun h => Int.le_of_lt h)
    exact (h0.sublist (List.drop_sublist _ _)).sublist (List.take_sublist _ _)

theorem deriveEntry_total (c : SecCfg) (refs qs : List OMap) (e : QKey × List PSeed) (hres : 1 ≤ c.res) (hb : 0 ≤ c.blur)
    (hrefs : ∀ r ∈ refs, StrictAscending r.positions) (hqs : ∀ q ∈ qs, StrictAscending q.positions)
    (hrid : (refs.map (·.id)).Nodup)
    (hq : ∃ q, fragmentOf qs e.1 = some q ∧ (∃ p ∈ q.positions, 0 ≤ p)) (hs : ∀ s ∈ e.2, PSeedOK c refs s) :
    ∃ r, deriveEntry c refs qs e = .ok r := by
  obtain ⟨q, hf, hq0⟩ := hq
  unfold deriveEntry
  rw [hf]
  simp only []
  have hasc := fragmentOf_ascending qs e.1 q hqs hf
  obtain ⟨ds, hds⟩ := mapM_total (deriveSeed c refs q) e.2
    (fun s hs' => deriveSeed_total c refs q s hres hb hrefs hasc hq0 hrid (hs s hs'))
  rw [hds]
  exact ⟨_, rfl⟩

theorem deriveEntry_refs (c : SecCfg) (refs qs : List OMap) (e : QKey × List PSeed)
    (r : (QKey × List Seed) × (QKey × List SecStatus)) (h : deriveEntry c refs qs e = .ok r) :
    ∀ s ∈ r.1.2, ∃ r ∈ refs, r.id = s.refId := by
  unfold deriveEntry at h
  cases hf : fragmentOf qs e.1 with
  | none => rw [hf] at h; cases h
  | some q =>
    rw [hf] at h
    simp only [] at h
    cases hm : e.2.mapM (deriveSeed c refs q) with
    | error x => rw [hm] at h; cases h
    | ok ds =>
      rw [hm] at h
      simp only [Except.map, Except.ok.injEq] at h
      subst h
      intro s hs
      simp only [List.mem_map] at hs
      obtain ⟨x, hx, rfl⟩ := hs
      obtain ⟨ps, _, hps⟩ := mapM_mem (deriveSeed c refs q) e.2 ds hm x hx
      exact deriveSeed_ref c refs q ps x hps

end SeededTotal

open SeededTotal

/-- deriving the table succeeds … -/
theorem deriveTable_total (c : SecCfg) (refs qs : List OMap) (pt : PTable) (hres : 1 ≤ c.res) (hb : 0 ≤ c.blur)
    (hrefs : ∀ r ∈ refs, StrictAscending r.positions) (hqs : ∀ q ∈ qs, StrictAscending q.positions)
    (hrid : (refs.map (·.id)).Nodup)
    (hpt : PTableOK c refs qs pt) :
    ∃ d, deriveTable c refs qs pt = .ok d := by
  induction pt with
  | nil => exact ⟨_, rfl⟩
  | cons e tl ih =>
    obtain ⟨hq, hs⟩ := hpt e List.mem_cons_self
    obtain ⟨r, hr⟩ := deriveEntry_total c refs qs e hres hb hrefs hqs hrid hq hs
    obtain ⟨d, hd⟩ := ih (fun e' he' => hpt e' (List.mem_cons_of_mem _ he'))
    rw [deriveTable_cons, hr]
    simp only [hd]
    exact ⟨_, rfl⟩

/-- … every derived seed names a reference of the run … -/
theorem deriveTable_refs (c : SecCfg) (refs qs : List OMap) (pt : PTable) (d : Derived)
    (h : deriveTable c refs qs pt = .ok d) :
    ∀ k, ∀ s ∈ d.table.lookup k, ∃ r ∈ refs, r.id = s.refId := by
  intro k s hs
  rw [deriveTable_lookup c refs qs pt d k h] at hs
  cases hf : pt.find? (fun e => e.1 = k) with
  | none => rw [hf] at hs; cases hs
  | some e =>
    rw [hf] at hs
    simp only [] at hs
    cases he : deriveEntry c refs qs e with
    | error x => rw [he] at hs; cases hs
    | ok r =>
      rw [he] at hs
      exact deriveEntry_refs c refs qs e r he s hs

/-- … and the alignment logic then runs to completion in every output mode -/
theorem seeded_execute_total (cfg : Cfg) (c : SecCfg) (mode : Mode) (hP : GoodParams cfg.P) (refs qs : List OMap) (pt : PTable) (it : Int)
    (hres : 1 ≤ c.res) (hb : 0 ≤ c.blur)
    (hrefs : ∀ r ∈ refs, StrictAscending r.positions) (hqs : ∀ q ∈ qs, StrictAscending q.positions ∧ q.shift = 0)
    (hids : (qs.map (·.id)).Nodup) (hrid : (refs.map (·.id)).Nodup)
    (hpt : PTableOK c refs qs pt) :
    ∃ d out, deriveTable c refs qs pt = .ok d ∧ execute cfg mode refs d.table qs it = .ok out := by
  obtain ⟨d, hd⟩ := deriveTable_total c refs qs pt hres hb hrefs (fun q hq => (hqs q hq).1) hrid hpt
  obtain ⟨out, hout⟩ := execute_total cfg mode hP refs d.table qs it hrefs hqs hids
    (deriveTable_refs c refs qs pt d hd)
  exact ⟨d, out, hd, hout⟩

end Coma.Proofs
