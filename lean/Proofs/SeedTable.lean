/-
  Proofs/SeedTable.lean — the seed table derived by the model (`Coma/Seeding.lean`): each entry is
  computed from its own key, its own molecule and the references only, so deriving the table
  commutes with concatenation / restriction / permutation of the primary-peak table; with at most
  `keep` peaks the derived secondary list does not depend on the lists captured from the real run.
-/
import Coma.Seeding
namespace Coma.Proofs
open Coma

/-- one entry of the derived table -/
def deriveEntry (c : SecCfg) (refs qs : List OMap) (e : QKey × List PSeed) : Except Err ((QKey × List Seed) × (QKey × List SecStatus)) :=
  match fragmentOf qs e.1 with
  | none   => .error .attributeError
  | some q => (e.2.mapM (deriveSeed c refs q)).map fun ds => ((e.1, ds.map (·.1)), (e.1, ds.map (·.2)))

/-- one step of `deriveTable`, in terms of `deriveEntry` -/
theorem deriveTable_cons (c : SecCfg) (refs qs : List OMap) (e : QKey × List PSeed) (tl : PTable) :
    deriveTable c refs qs (e :: tl) =
      match deriveEntry c refs qs e with
      | .error x => .error x
      | .ok r => match deriveTable c refs qs tl with
        | .error x => .error x
        | .ok d => .ok { table := r.1 :: d.table, status := r.2 :: d.status } := by
  obtain ⟨k, ss⟩ := e
  rw [deriveTable]
  unfold deriveEntry
  cases hf : fragmentOf qs k with
  | none => rfl
  | some q =>
    simp only [bind, Except.bind, pure, Except.pure, Except.map]
    cases hm : ss.mapM (deriveSeed c refs q) with
    | error e => rfl
    | ok ds =>
      simp only []
      cases ht : deriveTable c refs qs tl <;> rfl

/-- the table is derived entry by entry -/
theorem deriveTable_eq_mapM (c : SecCfg) (refs qs : List OMap) (pt : PTable) :
    deriveTable c refs qs pt =
      (pt.mapM (deriveEntry c refs qs)).map fun es => { table := es.map (·.1), status := es.map (·.2) } := by
  induction pt with
  | nil => rfl
  | cons e tl ih =>
    rw [List.mapM_cons, deriveTable_cons, ih]
    cases deriveEntry c refs qs e with
    | error x => rfl
    | ok r =>
      cases tl.mapM (deriveEntry c refs qs) <;> rfl

theorem deriveTable_append (c : SecCfg) (refs qs : List OMap) (a b : PTable) (da db : Derived)
    (ha : deriveTable c refs qs a = .ok da) (hb : deriveTable c refs qs b = .ok db) :
    deriveTable c refs qs (a ++ b) = .ok { table := da.table ++ db.table, status := da.status ++ db.status } := by
  induction a generalizing da with
  | nil =>
    simp only [deriveTable, Except.ok.injEq] at ha
    subst ha
    simpa using hb
  | cons e tl ih =>
    rw [List.cons_append, deriveTable_cons]
    rw [deriveTable_cons] at ha
    cases he : deriveEntry c refs qs e with
    | error x => rw [he] at ha; cases ha
    | ok r =>
      rw [he] at ha
      cases ht : deriveTable c refs qs tl with
      | error x => rw [ht] at ha; cases ha
      | ok d =>
        rw [ht] at ha
        simp only [Except.ok.injEq] at ha
        subst ha
        rw [ih d ht]
        rfl

/-- the entry of a key does not depend on the other molecules: only on the molecule with that id -/
theorem deriveEntry_congr (c : SecCfg) (refs qs qs' : List OMap) (e : QKey × List PSeed)
    (h : qs.find? (fun q => q.id = e.1.id) = qs'.find? (fun q => q.id = e.1.id)) :
    deriveEntry c refs qs e = deriveEntry c refs qs' e := by
  unfold deriveEntry fragmentOf
  rw [h]

theorem deriveEntry_key (c : SecCfg) (refs qs : List OMap) (e : QKey × List PSeed)
    (r : (QKey × List Seed) × (QKey × List SecStatus)) (h : deriveEntry c refs qs e = .ok r) :
    r.1.1 = e.1 ∧ r.2.1 = e.1 := by
  unfold deriveEntry at h
  cases hf : fragmentOf qs e.1 with
  | none => rw [hf] at h; cases h
  | some q =>
    rw [hf] at h
    simp only [] at h
    cases hm : e.2.mapM (deriveSeed c refs q) with
    | error x => rw [hm] at h; cases h
    | ok ds =>
      rw [hm] at h
      simp only [Except.map, Except.ok.injEq] at h
      subst h
      exact ⟨rfl, rfl⟩

/-- keys are kept, in order -/
theorem deriveTable_keys (c : SecCfg) (refs qs : List OMap) (pt : PTable) (d : Derived)
    (h : deriveTable c refs qs pt = .ok d) : d.table.map (·.1) = pt.map (·.1) ∧ d.status.map (·.1) = pt.map (·.1) := by
  induction pt generalizing d with
  | nil =>
    simp only [deriveTable, Except.ok.injEq] at h
    subst h
    exact ⟨rfl, rfl⟩
  | cons e tl ih =>
    rw [deriveTable_cons] at h
    cases he : deriveEntry c refs qs e with
    | error x => rw [he] at h; cases h
    | ok r =>
      rw [he] at h
      cases ht : deriveTable c refs qs tl with
      | error x => rw [ht] at h; cases h
      | ok d' =>
        rw [ht] at h
        simp only [Except.ok.injEq] at h
        subst h
        obtain ⟨k1, k2⟩ := deriveEntry_key c refs qs e r he
        obtain ⟨i1, i2⟩ := ih d' ht
        simp only [List.map_cons, k1, k2, i1, i2, and_self]

/-- looking a key up in the derived table = deriving the entry found under that key -/
theorem deriveTable_lookup (c : SecCfg) (refs qs : List OMap) (pt : PTable) (d : Derived) (k : QKey)
    (h : deriveTable c refs qs pt = .ok d) :
    d.table.lookup k =
      match pt.find? (fun e => e.1 = k) with
      | none   => []
      | some e => match deriveEntry c refs qs e with
        | .ok r    => r.1.2
        | .error _ => [] := by
  induction pt generalizing d with
  | nil =>
    simp only [deriveTable, Except.ok.injEq] at h
    subst h
    rfl
  | cons e tl ih =>
    rw [deriveTable_cons] at h
    cases he : deriveEntry c refs qs e with
    | error x => rw [he] at h; cases h
    | ok r =>
      rw [he] at h
      cases ht : deriveTable c refs qs tl with
      | error x => rw [ht] at h; cases h
      | ok d' =>
        rw [ht] at h
        simp only [Except.ok.injEq] at h
        subst h
        obtain ⟨k1, _⟩ := deriveEntry_key c refs qs e r he
        have ih' := ih d' ht
        unfold SeedTable.lookup at ih' ⊢
        simp only [List.find?_cons, k1]
        by_cases hk : e.1 = k
        · simp only [hk, decide_true, he]
        · simp only [hk, decide_false]
          exact ih'

/-- when at most `keep` peaks pass, the derived seed is the model's own `refine` output and the
    lists captured from the real run are not used -/
theorem deriveSeed_derived (c : SecCfg) (refs : List OMap) (q : OMap) (s : PSeed) (sd : Seed)
    (h : deriveSeed c refs q s = .ok (sd, .derived)) (cap : List Int) :
    deriveSeed c refs q { s with captured := cap } = .ok (sd, .derived) ∧
    ∃ r pk, refs.find? (fun r => r.id = s.refId) = some r ∧ refine c r q s.rev s.primary = .ok pk ∧
      sd = { refId := s.refId, rev := s.rev, peaks := pk.map (·.1) } := by
  unfold deriveSeed at h ⊢
  simp only [] at h ⊢
  cases hf : refs.find? (fun r => r.id = s.refId) with
  | none => rw [hf] at h; cases h
  | some r =>
    rw [hf] at h
    simp only [bind, Except.bind, pure, Except.pure] at h ⊢
    cases hc : refineCorrelation c r q s.rev s.primary with
    | error x => rw [hc] at h; cases h
    | ok corr =>
      rw [hc] at h
      simp only [] at h ⊢
      cases hr : refine c r q s.rev s.primary with
      | error x => rw [hr] at h; cases h
      | ok pk =>
        rw [hr] at h
        simp only [] at h ⊢
        split at h
        · rename_i hle
          simp only [Except.ok.injEq, Prod.mk.injEq, and_true] at h
          subst h
          refine ⟨?_, r, pk, rfl, hr, rfl⟩
          rw [if_pos hle]
        · simp only [Except.ok.injEq, Prod.mk.injEq] at h
          obtain ⟨_, h2⟩ := h
          split at h2
          · cases h2
          · split at h2 <;> cases h2

/-- otherwise the delivered list is used, and unless the status is `mismatch` it is a
    rearrangement of the model's ten highest (or differs from it only among peaks of the boundary height) -/
theorem deriveSeed_reordered (c : SecCfg) (refs : List OMap) (q : OMap) (s : PSeed) (sd : Seed)
    (h : deriveSeed c refs q s = .ok (sd, .reordered)) :
    sd.peaks = s.captured ∧
    ∃ r pk, refs.find? (fun r => r.id = s.refId) = some r ∧ refine c r q s.rev s.primary = .ok pk ∧
      (isort id s.captured) = isort id (pk.map (·.1)) := by
  unfold deriveSeed at h
  simp only [] at h
  cases hf : refs.find? (fun r => r.id = s.refId) with
  | none => rw [hf] at h; cases h
  | some r =>
    rw [hf] at h
    simp only [bind, Except.bind, pure, Except.pure] at h
    cases hc : refineCorrelation c r q s.rev s.primary with
    | error x => rw [hc] at h; cases h
    | ok corr =>
      rw [hc] at h
      simp only [] at h
      cases hr : refine c r q s.rev s.primary with
      | error x => rw [hr] at h; cases h
      | ok pk =>
        rw [hr] at h
        simp only [] at h
        split at h
        · simp only [Except.ok.injEq, Prod.mk.injEq] at h
          obtain ⟨_, h2⟩ := h
          cases h2
        · simp only [Except.ok.injEq, Prod.mk.injEq] at h
          obtain ⟨h1, h2⟩ := h
          subst h1
          refine ⟨rfl, r, pk, rfl, hr, ?_⟩
          split at h2
          · rename_i heq; exact heq.symm
          · split at h2 <;> cases h2

end Coma.Proofs
