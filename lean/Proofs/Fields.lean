import Props.Defs
import Proofs.SortLemmas
namespace Coma.Proofs.Fields
open Coma Coma.Spec

/-- the fields of an `XRow` produced from a row -/
def XRowOf (cfg : Cfg) (x : XRow) (r : Row) : Prop :=
  x.qid = r.queryId ∧ x.rid = r.referenceId ∧ x.qStart = r.qStart ∧ x.qEnd = r.qEnd ∧
    x.rStart = r.rStart ∧ x.rEnd = r.rEnd ∧ x.rev = r.rev ∧ x.qLen = r.queryLength ∧ x.rLen = r.referenceLength ∧
    x.alignedRest = r.alignedRest ∧ x.pairs = r.pairs.map (fun p => (p.r.site, p.q.site)) ∧
    x.conf100 = (r.confidence * 100) / (cfg.den : Int)

theorem toXRow_spec (cfg : Cfg) (cigar : List Pr → Except Err String) (i : Nat) (r : Row) (x : XRow)
    (h : r.toXRow cfg cigar i = .ok x) : x.entryId = i ∧ XRowOf cfg x r := by
  unfold Row.toXRow at h
  cases hc : cigar r.pairs with
  | error e => simp [hc, bind, Except.bind] at h
  | ok s =>
    simp [hc, bind, Except.bind, pure, Except.pure] at h
    subst h
    exact ⟨rfl, rfl, rfl, rfl, rfl, rfl, rfl, rfl, rfl, rfl, rfl, rfl, rfl⟩

theorem renderRowsFrom_spec (cfg : Cfg) (rows : List Row) : ∀ (i : Nat) (lines : List String),
    renderRowsFrom cfg i rows = .ok lines →
    lines.length = rows.length ∧
    ∀ k, k < rows.length → ∃ x : XRow, lines[k]? = some x.line ∧ x.entryId = i + k ∧
      ∃ r, rows[k]? = some r ∧ XRowOf cfg x r := by
  induction rows with
  | nil =>
    intro i lines h
    simp [renderRowsFrom] at h
    subst h
    simp
  | cons r rs ih =>
    intro i lines h
    unfold renderRowsFrom at h
    cases hx : r.toXRow cfg (cigarOf aggregate) i with
    | error e => simp [hx, bind, Except.bind] at h
    | ok x =>
      cases ht : renderRowsFrom cfg (i + 1) rs with
      | error e => simp [hx, ht, bind, Except.bind] at h
      | ok tl =>
        simp [hx, ht, bind, Except.bind, pure, Except.pure] at h
        subst h
        obtain ⟨hlen, hk⟩ := ih (i + 1) tl ht
        obtain ⟨hid, hxr⟩ := toXRow_spec cfg _ i r x hx
        refine ⟨by simp [hlen], ?_⟩
        intro k hklt
        cases k with
        | zero => exact ⟨x, by simp, by simp [hid], r, by simp, hxr⟩
        | succ k =>
          have hk' : k < rs.length := by simpa using hklt
          obtain ⟨x', h1, h2, r', h3, h4⟩ := hk k hk'
          exact ⟨x', by simpa using h1, by omega, r', by simpa using h3, h4⟩

theorem lbl_eq_iff (l : Lbl) (s p : Int) : l = ⟨s, p⟩ ↔ l.site = s ∧ l.pos = p := by
  cases l; simp

theorem labelsFwd_length (i : Int) (ps : List Int) : (labelsFwd i ps).length = ps.length := by
  induction ps generalizing i with
  | nil => rfl
  | cons p ps ih => simp [labelsFwd, ih]

theorem labelsRev_length (i e : Int) (ps : List Int) : (labelsRev i e ps).length = ps.length := by
  induction ps generalizing i with
  | nil => rfl
  | cons p ps ih => simp [labelsRev, ih]

theorem mem_labelsFwd (ps : List Int) : ∀ (i : Int) (l : Lbl),
    l ∈ labelsFwd i ps ↔ ∃ k : Nat, ∃ p, ps[k]? = some p ∧ l.site = i + (k : Int) ∧ l.pos = p := by
  induction ps with
  | nil => intro i l; simp [labelsFwd]
  | cons a as ih =>
    intro i l
    simp only [labelsFwd, List.mem_cons, ih, lbl_eq_iff]
    constructor
    · rintro (⟨h1, h2⟩ | ⟨k, p, h1, h2, h3⟩)
      · exact ⟨0, a, by simp, by simpa using h1, h2⟩
      · exact ⟨k + 1, p, by simpa using h1, by rw [h2]; push_cast; omega, h3⟩
    · rintro ⟨k, p, h1, h2, h3⟩
      cases k with
      | zero =>
        left
        simp at h1
        exact ⟨by simpa using h2, by rw [h3, h1]⟩
      | succ k =>
        right
        exact ⟨k, p, by simpa using h1, by rw [h2]; push_cast; omega, h3⟩

theorem mem_labelsRev (e : Int) (ps : List Int) : ∀ (i : Int) (l : Lbl),
    l ∈ labelsRev i e ps ↔ ∃ k : Nat, ∃ p, ps[k]? = some p ∧ l.site = i - (k : Int) ∧ l.pos = e - p := by
  induction ps with
  | nil => intro i l; simp [labelsRev]
  | cons a as ih =>
    intro i l
    simp only [labelsRev, List.mem_cons, ih, lbl_eq_iff]
    constructor
    · rintro (⟨h1, h2⟩ | ⟨k, p, h1, h2, h3⟩)
      · exact ⟨0, a, by simp, by simpa using h1, h2⟩
      · exact ⟨k + 1, p, by simpa using h1, by rw [h2]; push_cast; omega, h3⟩
    · rintro ⟨k, p, h1, h2, h3⟩
      cases k with
      | zero =>
        left
        simp at h1
        exact ⟨by simpa using h2, by rw [h3, h1]⟩
      | succ k =>
        right
        exact ⟨k, p, by simpa using h1, by rw [h2]; push_cast; omega, h3⟩

end Coma.Proofs.Fields

namespace Coma.Proofs
open Coma Coma.Spec Coma.Proofs.Fields

/-- label numbering and coordinates: the k-th label from the left has number k+1+shift; on the
    reverse strand its coordinate is mirrored about length-1, and the list is produced from the
    right end -/
theorem labels_spec (m : OMap) (rev : Bool) :
    (m.labels rev).length = m.positions.length ∧
    ∀ l, l ∈ m.labels rev ↔ ∃ k : Nat, ∃ p, m.positions[k]? = some p ∧ l.site = (k : Int) + 1 + m.shift ∧
        l.pos = (if rev then m.length - 1 - p else p) := by
  cases rev with
  | false =>
    refine ⟨by simp [OMap.labels, labelsFwd_length], ?_⟩
    intro l
    simp only [OMap.labels, Bool.false_eq_true, if_false, mem_labelsFwd]
    constructor
    · rintro ⟨k, p, h1, h2, h3⟩
      exact ⟨k, p, h1, by omega, h3⟩
    · rintro ⟨k, p, h1, h2, h3⟩
      exact ⟨k, p, h1, by omega, h3⟩
  | true =>
    refine ⟨by simp [OMap.labels, labelsRev_length], ?_⟩
    intro l
    simp only [OMap.labels, if_true, mem_labelsRev]
    constructor
    · rintro ⟨k, p, h1, h2, h3⟩
      have hk : k < m.positions.length := by
        have := (List.getElem?_eq_some_iff.mp h1).1
        simpa using this
      rw [List.getElem?_reverse hk] at h1
      exact ⟨m.positions.length - 1 - k, p, h1, by omega, h3⟩
    · rintro ⟨k, p, h1, h2, h3⟩
      have hk : k < m.positions.length := (List.getElem?_eq_some_iff.mp h1).1
      refine ⟨m.positions.length - 1 - k, p, ?_, by omega, h3⟩
      rw [List.getElem?_reverse (by omega)]
      rw [← h1]; congr 1; omega

/-- header of a row whose pairs are listed in ascending reference order: reference start/end are
    the coordinates of the first/last listed pair; query start/end those of the first/last pair
    for '+', swapped for '-'; ids, lengths and strand are the arguments; confidence is the sum of
    the segment scores -/
theorem row_create_fields (P : Params) (segs : List Seg) (qid rid ql rl : Int) (rev : Bool)
    (first last : Pr)
    (hf : (segs.flatMap Seg.pairs).head? = some first) (hl : (segs.flatMap Seg.pairs).getLast? = some last)
    (ha : Ascending ((segs.flatMap Seg.pairs).map (fun p => p.r.pos))) :
    let row := Row.create P segs qid rid ql rl rev
    row.rStart = first.r.pos ∧ row.rEnd = last.r.pos ∧
    row.qStart = (if rev then last else first).q.pos ∧ row.qEnd = (if rev then first else last).q.pos ∧
    row.queryId = qid ∧ row.referenceId = rid ∧ row.queryLength = ql ∧ row.referenceLength = rl ∧ row.rev = rev ∧
    row.alignedRest = false ∧ row.segments = segs ∧
    row.confidence = sumInts (segs.map (fun s => sumScores P s.items)) := by
  intro row
  have hsort : isort (fun (p : Pr) => p.r.pos) (segs.flatMap Seg.pairs) = segs.flatMap Seg.pairs :=
    isort_of_sorted _ _ ha
  have h1 : row.rStart = first.r.pos := by
    show ((isort (fun (p : Pr) => p.r.pos) (segs.flatMap Seg.pairs)).head?.getD nullPr).r.pos = _
    rw [hsort, hf]; rfl
  have h2 : row.rEnd = last.r.pos := by
    show ((isort (fun (p : Pr) => p.r.pos) (segs.flatMap Seg.pairs)).getLast?.getD nullPr).r.pos = _
    rw [hsort, hl]; rfl
  have h3 : row.qStart = (if rev then last else first).q.pos := by
    show (if !rev then (isort (fun (p : Pr) => p.r.pos) (segs.flatMap Seg.pairs)).head?.getD nullPr
      else (isort (fun (p : Pr) => p.r.pos) (segs.flatMap Seg.pairs)).getLast?.getD nullPr).q.pos = _
    rw [hsort, hf, hl]; cases rev <;> rfl
  have h4 : row.qEnd = (if rev then first else last).q.pos := by
    show (if !rev then (isort (fun (p : Pr) => p.r.pos) (segs.flatMap Seg.pairs)).getLast?.getD nullPr
      else (isort (fun (p : Pr) => p.r.pos) (segs.flatMap Seg.pairs)).head?.getD nullPr).q.pos = _
    rw [hsort, hf, hl]; cases rev <;> rfl
  exact ⟨h1, h2, h3, h4, rfl, rfl, rfl, rfl, rfl, rfl, rfl, rfl⟩

/-- a candidate row carries the ids and lengths of the maps it was built from -/
theorem alignerAlign_fields (P : Params) (C : ChainCfg) (ref qry : OMap) (peaks : List Int) (rev : Bool) (it : Int)
    (row : Row) (h : alignerAlign P C ref qry peaks rev it = .ok row) :
    row.queryId = qry.id ∧ row.referenceId = ref.id ∧ row.queryLength = qry.length ∧
    row.referenceLength = ref.length ∧ row.rev = rev ∧ row.alignedRest = false ∧
    row.confidence = sumInts (row.segments.map (fun s => sumScores P s.items)) := by
  unfold alignerAlign at h
  cases hs : segmentsOfPeaks P ref qry rev it peaks with
  | error e => simp [hs, bind, Except.bind] at h
  | ok segs =>
    cases hr : resolveConflicts P C segs with
    | error e => simp [hs, hr, bind, Except.bind] at h
    | ok res =>
      simp [hs, hr, bind, Except.bind, pure, Except.pure] at h
      subst h
      refine ⟨rfl, rfl, rfl, rfl, rfl, rfl, rfl⟩

namespace Fields

/-- shape of a second-pass fragment relative to the whole query -/
def FragOK (row : Row) (query : OMap) (f : OMap) : Prop :=
  f.id = row.queryId ∧ f.length = row.queryLength ∧
    ((∃ t, f.positions = query.positions.take t ∧ f.shift = 0) ∨
     (∃ d, f.positions = query.positions.drop d ∧
        f.shift = (query.positions.length : Int) - ((query.positions.drop d).length : Int)))

theorem pySliceTo_eq_take {α} (xs : List α) (j : Int) : ∃ t, pySliceTo xs j = xs.take t := by
  unfold pySliceTo; split <;> exact ⟨_, rfl⟩

theorem pySliceFrom_eq_drop {α} (xs : List α) (i : Int) : ∃ d, pySliceFrom xs i = xs.drop d := by
  unfold pySliceFrom; split <;> exact ⟨_, rfl⟩

theorem fragOK_to (row : Row) (query : OMap) (j : Int) :
    FragOK row query { id := row.queryId, length := row.queryLength,
                       positions := pySliceTo query.positions j, shift := 0 } := by
  obtain ⟨t, ht⟩ := pySliceTo_eq_take query.positions j
  exact ⟨rfl, rfl, Or.inl ⟨t, ht, rfl⟩⟩

theorem fragOK_from (row : Row) (query : OMap) (i : Int) :
    FragOK row query { id := row.queryId, length := row.queryLength,
                       positions := pySliceFrom query.positions i,
                       shift := (query.positions.length : Int) - ((pySliceFrom query.positions i).length : Int) } := by
  obtain ⟨d, hd⟩ := pySliceFrom_eq_drop query.positions i
  exact ⟨rfl, rfl, Or.inr ⟨d, hd, by simp only [hd]⟩⟩

theorem fragOK_labels (row : Row) (query f : OMap) (hlen : query.length = row.queryLength)
    (hshift : query.shift = 0) (hf : FragOK row query f) :
    ∀ rev, ∀ l ∈ f.labels rev, l ∈ query.labels rev := by
  intro rev l hl
  obtain ⟨_, hfl, hpos⟩ := hf
  rw [(labels_spec f rev).2] at hl
  rw [(labels_spec query rev).2]
  obtain ⟨k, p, h1, h2, h3⟩ := hl
  rw [hfl, ← hlen] at h3
  rcases hpos with ⟨t, hp, hs⟩ | ⟨d, hp, hs⟩
  · rw [hp, List.getElem?_take] at h1
    split at h1
    · exact ⟨k, p, h1, by omega, h3⟩
    · cases h1
  · rw [hp, List.getElem?_drop] at h1
    have hk : d + k < query.positions.length := (List.getElem?_eq_some_iff.mp h1).1
    refine ⟨d + k, p, h1, ?_, h3⟩
    rw [List.length_drop] at hs
    push_cast
    omega

end Fields

/-- second-pass fragments keep the molecule id and the full length, and their labels (on either
    strand) are labels of the whole query with the same numbers and coordinates -/
theorem fragment_labels_subset (row : Row) (queries : List OMap) (query : OMap) (frags : List OMap)
    (hq : queries.find? (fun m => m.id = row.queryId) = some query)
    (hlen : query.length = row.queryLength) (hshift : query.shift = 0)
    (h : unalignedFragments row queries = .ok frags) :
    ∀ f ∈ frags, f.id = row.queryId ∧ f.length = row.queryLength ∧
      ∀ rev, ∀ l ∈ f.labels rev, l ∈ query.labels rev := by
  suffices hok : ∀ f ∈ frags, FragOK row query f by
    intro f hf
    exact ⟨(hok f hf).1, (hok f hf).2.1, fragOK_labels row query f hlen hshift (hok f hf)⟩
  unfold unalignedFragments at h
  simp only [hq] at h
  have hparts : ∀ p1 p2,
      (if (!row.rev) = true then
        match indexOf? row.qStart query.positions, indexOf? row.qEnd query.positions with
        | some i, some j => Except.ok (pySliceTo query.positions (↑i + 3), pySliceFrom query.positions (↑j - 2))
        | _, _ => (Except.error Err.valueError : Except Err (List Int × List Int))
      else
        Except.ok
          (pySliceTo query.positions ((row.sortedPairs.getLast?.getD nullPr).q.site + 3),
            pySliceFrom query.positions ((row.sortedPairs.head?.getD nullPr).q.site - 2))) = Except.ok (p1, p2) →
      ∃ j i, p1 = pySliceTo query.positions j ∧ p2 = pySliceFrom query.positions i := by
    intro p1 p2 hp
    split at hp
    · split at hp
      · injection hp with hp; injection hp with h1 h2
        exact ⟨_, _, h1.symm, h2.symm⟩
      · cases hp
    · injection hp with hp; injection hp with h1 h2
      exact ⟨_, _, h1.symm, h2.symm⟩
  have close1 : ∀ (l : List OMap), (∀ f ∈ l, FragOK row query f) →
      (Except.ok l : Except Err (List OMap)) = Except.ok frags → ∀ f ∈ frags, FragOK row query f := by
    intro l hl he
    injection he with he; subst he; exact hl
  split at h
  · exact close1 _ (by simp) h
  · split at h
    · split at h
      · split at h
        · cases h
        · split at h
          · exact close1 _ (by simp) h
          · refine close1 _ ?_ h
            intro f hf
            simp only [List.mem_cons, List.mem_nil_iff, or_false] at hf
            subst hf
            exact fragOK_from row query _
      · refine close1 _ ?_ h
        intro f hf
        simp only [List.mem_cons, List.mem_nil_iff, or_false] at hf
        subst hf
        exact fragOK_to row query _
    · split at h
      · cases h
      · rename_i p1 p2 heq
        obtain ⟨j, i, rfl, rfl⟩ := hparts p1 p2 heq
        split at h
        · refine close1 _ ?_ h
          intro f hf
          simp only [List.mem_cons, List.mem_nil_iff, or_false] at hf
          rcases hf with rfl | rfl
          · exact fragOK_to row query _
          · exact fragOK_from row query _
        · split at h
          · refine close1 _ ?_ h
            intro f hf
            simp only [List.mem_cons, List.mem_nil_iff, or_false] at hf
            subst hf
            exact fragOK_to row query _
          · split at h
            · refine close1 _ ?_ h
              intro f hf
              simp only [List.mem_cons, List.mem_nil_iff, or_false] at hf
              subst hf
              exact fragOK_from row query _
            · exact close1 _ (by simp) h

/-- XmapEntryID counts 1,2,3,… and the columns are the fields in the documented order -/
theorem renderRows_numbering (cfg : Cfg) (rows : List Row) (lines : List String)
    (h : renderRows cfg rows = .ok lines) :
    lines.length = rows.length ∧
    ∀ k, k < rows.length → ∃ x : XRow, lines[k]? = some x.line ∧ x.entryId = k + 1 ∧
      ∃ r, rows[k]? = some r ∧ x.qid = r.queryId ∧ x.rid = r.referenceId ∧ x.qStart = r.qStart ∧ x.qEnd = r.qEnd ∧
        x.rStart = r.rStart ∧ x.rEnd = r.rEnd ∧ x.rev = r.rev ∧ x.qLen = r.queryLength ∧ x.rLen = r.referenceLength ∧
        x.alignedRest = r.alignedRest ∧ x.pairs = r.pairs.map (fun p => (p.r.site, p.q.site)) ∧
        x.conf100 = (r.confidence * 100) / (cfg.den : Int) := by
  obtain ⟨hlen, hk⟩ := renderRowsFrom_spec cfg rows 1 lines h
  refine ⟨hlen, ?_⟩
  intro k hklt
  obtain ⟨x, h1, h2, r, h3, h4⟩ := hk k hklt
  exact ⟨x, h1, by omega, r, h3, h4⟩

theorem xrow_fields_columns (x : XRow) :
    x.fields.length = 15 ∧ x.fields[0]? = some (renderNat x.entryId) ∧ x.fields[1]? = some (renderInt x.qid) ∧
    x.fields[2]? = some (renderInt x.rid) ∧ x.fields[3]? = some (renderFixed 1 (x.qStart * 10)) ∧
    x.fields[4]? = some (renderFixed 1 (x.qEnd * 10)) ∧ x.fields[5]? = some (renderFixed 1 (x.rStart * 10)) ∧
    x.fields[6]? = some (renderFixed 1 (x.rEnd * 10)) ∧ x.fields[7]? = some (if x.rev then "-" else "+") ∧
    x.fields[8]? = some (renderFixed 2 x.conf100) ∧ x.fields[9]? = some x.hitEnum ∧
    x.fields[10]? = some (renderFixed 1 (x.qLen * 10)) ∧ x.fields[11]? = some (renderFixed 1 (x.rLen * 10)) ∧
    x.fields[12]? = some (if x.alignedRest then "True" else "False") ∧ x.fields[14]? = some (renderPairs x.pairs) := by
  simp [XRow.fields]

end Coma.Proofs
