import Props.Defs
import Proofs.SortLemmas
namespace Coma.Proofs
open Coma Coma.Spec

/-- label numbering and coordinates: the k-th label from the left has number k+1+shift; on the
    reverse strand its coordinate is mirrored about length-1, and the list is produced from the
    right end -/
theorem labels_spec (m : OMap) (rev : Bool) :
    (m.labels rev).length = m.positions.length ∧
    ∀ l, l ∈ m.labels rev ↔ ∃ k : Nat, ∃ p, m.positions[k]? = some p ∧ l.site = (k : Int) + 1 + m.shift ∧
        l.pos = (if rev then m.length - 1 - p else p) := by
  sorry

/-- header of a row whose pairs are listed in ascending reference order: reference start/end are
    the coordinates of the first/last listed pair; query start/end those of the first/last pair
    for '+', swapped for '-'; ids, lengths and strand are the arguments; confidence is the sum of
    the segment scores -/
theorem row_create_fields (P : Params) (segs : List Seg) (qid rid ql rl : Int) (rev : Bool)
    (first last : Pr)
    (hf : (segs.flatMap Seg.pairs).head? = some first) (hl : (segs.flatMap Seg.pairs).getLast? = some last)
    (ha : Ascending ((segs.flatMap Seg.pairs).map (fun p => p.r.pos))) :
    let row := Row.create P segs qid rid ql rl rev
    row.rStart = first.r.pos ∧ row.rEnd = last.r.pos ∧
    row.qStart = (if rev then last else first).q.pos ∧ row.qEnd = (if rev then first else last).q.pos ∧
    row.queryId = qid ∧ row.referenceId = rid ∧ row.queryLength = ql ∧ row.referenceLength = rl ∧ row.rev = rev ∧
    row.alignedRest = false ∧ row.segments = segs ∧
    row.confidence = sumInts (segs.map (fun s => sumScores P s.items)) := by
  sorry

/-- a candidate row carries the ids and lengths of the maps it was built from -/
theorem alignerAlign_fields (P : Params) (C : ChainCfg) (ref qry : OMap) (peaks : List Int) (rev : Bool) (it : Int)
    (row : Row) (h : alignerAlign P C ref qry peaks rev it = .ok row) :
    row.queryId = qry.id ∧ row.referenceId = ref.id ∧ row.queryLength = qry.length ∧
    row.referenceLength = ref.length ∧ row.rev = rev ∧ row.alignedRest = false ∧
    row.confidence = sumInts (row.segments.map (fun s => sumScores P s.items)) := by
  sorry

/-- second-pass fragments keep the molecule id and the full length, and their labels (on either
    strand) are labels of the whole query with the same numbers and coordinates -/
theorem fragment_labels_subset (row : Row) (queries : List OMap) (query : OMap) (frags : List OMap)
    (hq : queries.find? (fun m => m.id = row.queryId) = some query)
    (hlen : query.length = row.queryLength) (hshift : query.shift = 0)
    (h : unalignedFragments row queries = .ok frags) :
    ∀ f ∈ frags, f.id = row.queryId ∧ f.length = row.queryLength ∧
      ∀ rev, ∀ l ∈ f.labels rev, l ∈ query.labels rev := by
  sorry

/-- XmapEntryID counts 1,2,3,… and the columns are the fields in the documented order -/
theorem renderRows_numbering (cfg : Cfg) (rows : List Row) (lines : List String)
    (h : renderRows cfg rows = .ok lines) :
    lines.length = rows.length ∧
    ∀ k, k < rows.length → ∃ x : XRow, lines[k]? = some x.line ∧ x.entryId = k + 1 ∧
      ∃ r, rows[k]? = some r ∧ x.qid = r.queryId ∧ x.rid = r.referenceId ∧ x.qStart = r.qStart ∧ x.qEnd = r.qEnd ∧
        x.rStart = r.rStart ∧ x.rEnd = r.rEnd ∧ x.rev = r.rev ∧ x.qLen = r.queryLength ∧ x.rLen = r.referenceLength ∧
        x.alignedRest = r.alignedRest ∧ x.pairs = r.pairs.map (fun p => (p.r.site, p.q.site)) ∧
        x.conf100 = (r.confidence * 100) / (cfg.den : Int) := by
  sorry

theorem xrow_fields_columns (x : XRow) :
    x.fields.length = 15 ∧ x.fields[0]? = some (renderNat x.entryId) ∧ x.fields[1]? = some (renderInt x.qid) ∧
    x.fields[2]? = some (renderInt x.rid) ∧ x.fields[3]? = some (renderFixed 1 (x.qStart * 10)) ∧
    x.fields[4]? = some (renderFixed 1 (x.qEnd * 10)) ∧ x.fields[5]? = some (renderFixed 1 (x.rStart * 10)) ∧
    x.fields[6]? = some (renderFixed 1 (x.rEnd * 10)) ∧ x.fields[7]? = some (if x.rev then "-" else "+") ∧
    x.fields[8]? = some (renderFixed 2 x.conf100) ∧ x.fields[9]? = some x.hitEnum ∧
    x.fields[10]? = some (renderFixed 1 (x.qLen * 10)) ∧ x.fields[11]? = some (renderFixed 1 (x.rLen * 10)) ∧
    x.fields[12]? = some (if x.alignedRest then "True" else "False") ∧ x.fields[14]? = some (renderPairs x.pairs) := by
  sorry

end Coma.Proofs
