/-
  Proofs/CopySeedRev_Peak.lean — a `find_peaks` lemma on five consecutive samples (helper for Proofs/CopySeedRev.lean):
  when both flanks `x[k-2]`, `x[k+2]` lie at least `g` below their inner neighbours `x[k-1]`, `x[k+1]`, the leftmost
  plateau of the maximum of the three middle samples is a local-maximum plateau of prominence at least `g`.
-/
import Proofs.CopySeed_Peak
namespace Coma.Proofs.CopySeed
open Coma Coma.Proofs

/-- a plateau `[l, r]` of value `v`, strictly higher than its two neighbours, with a sample at least `g` lower on
    either side and nothing higher in between, passes `find_peaks` -/
theorem peak_of_plateau (thr : Rat) (x : List Int) (l r il ir : Nat) (v a b yl yr g : Int)
    (hil : il < l) (hlr : l ≤ r) (hir : r < ir)
    (hval : ∀ i, l ≤ i → i ≤ r → x[i]? = some v)
    (ha : x[l - 1]? = some a) (hb : x[r + 1]? = some b) (hav : a < v) (hbv : b < v)
    (hyl : x[il]? = some yl) (hyr : x[ir]? = some yr)
    (hle : ∀ i y, il ≤ i → i ≤ ir → x[i]? = some y → y ≤ v)
    (hgl : yl + g ≤ v) (hgr : yr + g ≤ v) (hthr : thr ≤ (v : Rat)) (hmax : maxInit0 x ≤ 20 * g) :
    ((l + r) / 2, v) ∈ findPeaksSecondary thr x := by
  have hlen : ir < x.length := by
    rcases Nat.lt_or_ge ir x.length with h | h
    · exact h
    · rw [List.getElem?_eq_none h] at hyr; cases hyr
  have hp : x[(l + r) / 2]? = some v := hval _ (by omega) (by omega)
  rw [findPeaksSecondary_iff]
  refine ⟨(localMaxima_iff x _).mpr ⟨l, r, ?_, rfl⟩, hp, hthr, ?_⟩
  · refine ⟨by omega, hlr, by omega, ?_, ⟨a, v, b, ha, hval l (Nat.le_refl _) hlr, hb, hav, hbv⟩⟩
    intro i hi1 hi2
    rw [hval i hi1 hi2, hval l (Nat.le_refl _) hlr]
  · have := prom_ge x ((l + r) / 2) v hp il ir yl yr (by omega) (by omega) hyl hyr
      (fun i y h1 h2 hy => hle i y h1 (by omega) hy)
      (fun i y h1 h2 hy => hle i y (by omega) h2 hy)
    omega

theorem peak_of_five (thr : Rat) (x : List Int) (k : Nat) (a1 v0 v1 v2 a2 g : Int) (hk : 2 ≤ k)
    (h1 : x[k - 2]? = some a1) (h2 : x[k - 1]? = some v0) (h3 : x[k]? = some v1) (h4 : x[k + 1]? = some v2)
    (h5 : x[k + 2]? = some a2)
    (hl : a1 + g ≤ v0) (hr : a2 + g ≤ v2) (hg : 1 ≤ g) (hthr : thr ≤ (v1 : Rat))
    (hmax : maxInit0 x ≤ 20 * g) :
    ∃ p h, (p, h) ∈ findPeaksSecondary thr x ∧ (p = k - 1 ∨ p = k ∨ p = k + 1) := by
  -- samples around
  have hsam : ∀ i y, k - 2 ≤ i → i ≤ k + 2 → x[i]? = some y →
      (i = k - 2 ∧ y = a1) ∨ (i = k - 1 ∧ y = v0) ∨ (i = k ∧ y = v1) ∨ (i = k + 1 ∧ y = v2) ∨
      (i = k + 2 ∧ y = a2) := by
    intro i y hi1 hi2 hy
    have : i = k - 2 ∨ i = k - 1 ∨ i = k ∨ i = k + 1 ∨ i = k + 2 := by omega
    rcases this with rfl | rfl | rfl | rfl | rfl
    · rw [h1] at hy; cases hy; exact Or.inl ⟨rfl, rfl⟩
    · rw [h2] at hy; cases hy; exact Or.inr (Or.inl ⟨rfl, rfl⟩)
    · rw [h3] at hy; cases hy; exact Or.inr (Or.inr (Or.inl ⟨rfl, rfl⟩))
    · rw [h4] at hy; cases hy; exact Or.inr (Or.inr (Or.inr (Or.inl ⟨rfl, rfl⟩)))
    · rw [h5] at hy; cases hy; exact Or.inr (Or.inr (Or.inr (Or.inr ⟨rfl, rfl⟩)))
  have hle : ∀ v : Int, v0 ≤ v → v1 ≤ v → v2 ≤ v → ∀ i y, k - 2 ≤ i → i ≤ k + 2 → x[i]? = some y → y ≤ v := by
    intro v e0 e1 e2 i y hi1 hi2 hy
    rcases hsam i y hi1 hi2 hy with ⟨_, rfl⟩ | ⟨_, rfl⟩ | ⟨_, rfl⟩ | ⟨_, rfl⟩ | ⟨_, rfl⟩ <;> omega
  have hk1 : k - 1 - 1 = k - 2 := by omega
  have hk2 : k - 1 + 1 = k := by omega
  have cast : ∀ v : Int, v1 ≤ v → thr ≤ (v : Rat) := fun v h =>
    Rat.le_trans hthr (Rat.intCast_le_intCast.mpr h)
  by_cases c0 : v1 ≤ v0 ∧ v2 ≤ v0
  · -- the maximum is reached at k-1
    by_cases c1 : v1 < v0
    · -- plateau {k-1}
      refine ⟨k - 1, v0, ?_, Or.inl rfl⟩
      have := peak_of_plateau thr x (k - 1) (k - 1) (k - 2) (k + 2) v0 a1 v1 a1 a2 g (by omega) (Nat.le_refl _)
        (by omega) (by intro i hi1 hi2; have : i = k - 1 := by omega
                       rw [this]; exact h2)
        (by rw [hk1]; exact h1) (by rw [hk2]; exact h3) (by omega) c1 h1 h5
        (hle v0 (by omega) (by omega) (by omega)) hl (by omega) (cast v0 (by omega)) hmax
      have e : (k - 1 + (k - 1)) / 2 = k - 1 := by omega
      rwa [e] at this
    · have e1 : v1 = v0 := by omega
      subst e1
      by_cases c2 : v2 < v1
      · -- plateau {k-1, k}
        refine ⟨k - 1, v1, ?_, Or.inl rfl⟩
        have := peak_of_plateau thr x (k - 1) k (k - 2) (k + 2) v1 a1 v2 a1 a2 g (by omega) (by omega)
          (by omega) (by intro i hi1 hi2; have : i = k - 1 ∨ i = k := by omega
                         rcases this with rfl | rfl
                         · exact h2
                         · exact h3)
          (by rw [hk1]; exact h1) h4 (by omega) c2 h1 h5
          (hle v1 (by omega) (by omega) (by omega)) hl (by omega) (cast v1 (by omega)) hmax
        have e : (k - 1 + k) / 2 = k - 1 := by omega
        rwa [e] at this
      · -- plateau {k-1, k, k+1}
        have e2 : v2 = v1 := by omega
        subst e2
        refine ⟨k, v2, ?_, Or.inr (Or.inl rfl)⟩
        have := peak_of_plateau thr x (k - 1) (k + 1) (k - 2) (k + 2) v2 a1 a2 a1 a2 g (by omega) (by omega)
          (by omega) (by intro i hi1 hi2; have : i = k - 1 ∨ i = k ∨ i = k + 1 := by omega
                         rcases this with rfl | rfl | rfl
                         · exact h2
                         · exact h3
                         · exact h4)
          (by rw [hk1]; exact h1) h5 (by omega) (by omega) h1 h5
          (hle v2 (by omega) (by omega) (by omega)) hl hr (cast v2 (by omega)) hmax
        have e : (k - 1 + (k + 1)) / 2 = k := by omega
        rwa [e] at this
  · by_cases c1 : v0 < v1 ∧ v2 ≤ v1
    · -- the maximum is reached first at k
      by_cases c2 : v2 < v1
      · -- plateau {k}
        refine ⟨k, v1, ?_, Or.inr (Or.inl rfl)⟩
        have := peak_of_plateau thr x k k (k - 2) (k + 2) v1 v0 v2 a1 a2 g (by omega) (Nat.le_refl _)
          (by omega) (by intro i hi1 hi2; have : i = k := by omega
                         rw [this]; exact h3)
          h2 h4 c1.1 c2 h1 h5
          (hle v1 (by omega) (by omega) (by omega)) (by omega) (by omega) (cast v1 (by omega)) hmax
        have e : (k + k) / 2 = k := by omega
        rwa [e] at this
      · -- plateau {k, k+1}
        have e2 : v2 = v1 := by omega
        subst e2
        refine ⟨k, v2, ?_, Or.inr (Or.inl rfl)⟩
        have := peak_of_plateau thr x k (k + 1) (k - 2) (k + 2) v2 v0 a2 a1 a2 g (by omega) (by omega)
          (by omega) (by intro i hi1 hi2; have : i = k ∨ i = k + 1 := by omega
                         rcases this with rfl | rfl
                         · exact h3
                         · exact h4)
          h2 h5 c1.1 (by omega) h1 h5
          (hle v2 (by omega) (by omega) (by omega)) (by omega) hr (cast v2 (by omega)) hmax
        have e : (k + (k + 1)) / 2 = k := by omega
        rwa [e] at this
    · -- the maximum is reached only at k+1: plateau {k+1}
      refine ⟨k + 1, v2, ?_, Or.inr (Or.inr rfl)⟩
      have := peak_of_plateau thr x (k + 1) (k + 1) (k - 2) (k + 2) v2 v1 a2 a1 a2 g (by omega) (Nat.le_refl _)
        (by omega) (by intro i hi1 hi2; have : i = k + 1 := by omega
                       rw [this]; exact h4)
        h3 h5 (by omega) (by omega) h1 h5
        (hle v2 (by omega) (by omega) (by omega)) (by omega) hr (cast v2 (by omega)) hmax
      have e : (k + 1 + (k + 1)) / 2 = k + 1 := by omega
      rwa [e] at this

end Coma.Proofs.CopySeed
