import Props.Defs
import Proofs.Fields
namespace Coma.Proofs
open Coma Coma.Spec

/-- C06 (logic part): with label spacing ≥ 2000, default parameters and a seed within 200 bp of
    the true offset, the single-seed candidate of an exact copy of n ≥ 2 consecutive reference
    labels (either strand) is exactly the true pairs, every pair at offset seed − true offset,
    no HitEnum gaps, confidence n·(1000 − |offset|) -/
theorem exact_copy (ref : OMap) (hshift : ref.shift = 0)
    (hsp : ref.positions.Pairwise (fun a b => a + 2000 ≤ b))
    (i0 n : Nat) (hn : 2 ≤ n) (hwin : i0 + n ≤ ref.positions.length)
    (qid : Int) (rev : Bool) (s w0 : Int) (C : ChainCfg) (it : Int)
    (hw0 : ref.positions[i0]? = some w0) (hs : (s - w0).natAbs ≤ 200) :
    ∃ row, alignerAlign defaultParams C ref (copyQuery qid ((ref.positions.drop i0).take n) rev) [s] rev it = .ok row ∧
      sitePairs row.pairs = truePairs i0 n rev ∧
      (∀ p ∈ row.pairs, p.shift = s - w0) ∧
      row.confidence = (n : Int) * (1000 - ((s - w0).natAbs : Int)) ∧
      hitEnums row.pairs = .ok (List.replicate n Hit.M) ∧
      row.referenceId = ref.id ∧ row.rev = rev := by
  sorry

end Coma.Proofs
