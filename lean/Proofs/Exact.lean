import Props.Defs
import Proofs.Fields
import Proofs.Exact_Copy
namespace Coma.Proofs.Exact
open Coma Coma.Spec Coma.Proofs

/-- the search window of a seed within 200 bp of the true offset holds exactly the copied
    reference labels (labels ≥ 2000 bp apart, maxDistance 1500) -/
theorem refWindow_eq (ref : OMap) (hshift : ref.shift = 0) (A B : List Int) (w0 : Int) (t : List Int)
    (hpos : ref.positions = A ++ ((w0 :: t) ++ B))
    (hsp : ref.positions.Pairwise (fun a b => a + 2000 ≤ b)) (s : Int) (hs : (s - w0).natAbs ≤ 200) :
    refWindow 1500 ref s (s + (lastD 0 ((w0 :: t).map (· - w0)) + 1)) =
      labelsFwd ((A.length : Int) + 1) (w0 :: t) := by
  rw [hpos] at hsp
  obtain ⟨hA, hWB, hAW⟩ := List.pairwise_append.1 hsp
  obtain ⟨hW, hB, hWB'⟩ := List.pairwise_append.1 hWB
  have hrel : ((w0 :: t).map (· - w0)).Pairwise (· ≤ ·) :=
    List.pairwise_map.2 (hW.imp (fun h => by omega))
  have hLle := le_lastD 0 _ hrel
  have hLmem := lastD_mem 0 ((w0 :: t).map (· - w0)) (by simp)
  generalize lastD 0 ((w0 :: t).map (· - w0)) = L at hLle hLmem ⊢
  obtain ⟨wl, hwl, hwlL⟩ := List.mem_map.1 hLmem
  have hw0le : ∀ w ∈ w0 :: t, w0 ≤ w := by
    intro w hw
    rcases List.mem_cons.1 hw with rfl | hw
    · omega
    · have := (List.pairwise_cons.1 hW).1 w hw; omega
  have hL0 : w0 - w0 ≤ L := hLle _ (List.mem_map_of_mem (f := (· - w0)) List.mem_cons_self)
  unfold refWindow
  simp only [OMap.labels, Bool.false_eq_true, if_false, hshift, hpos]
  rw [labelsFwd_append, labelsFwd_append]
  have e : (1 : Int) + 0 + (A.length : Int) = (A.length : Int) + 1 := by omega
  rw [e]
  apply window_mid _ _ (by omega)
  · intro a ha
    have h1 := hAW _ (pos_mem_of_mem_labelsFwd ha) w0 (by simp)
    omega
  · intro w hw
    have hm := pos_mem_of_mem_labelsFwd hw
    have h1 := hw0le _ hm
    have h2 := hLle _ (List.mem_map_of_mem (f := (· - w0)) hm)
    omega
  · intro b hb
    have h1 := hWB' wl hwl _ (pos_mem_of_mem_labelsFwd hb)
    omega

end Coma.Proofs.Exact

namespace Coma.Proofs
open Coma Coma.Spec

/-- C06 (logic part): with label spacing ≥ 2000, default parameters and a seed within 200 bp of
    the true offset, the single-seed candidate of an exact copy of n ≥ 2 consecutive reference
    labels (either strand) is exactly the true pairs, every pair at offset seed − true offset,
    no HitEnum gaps, confidence n·(1000 − |offset|) -/
theorem exact_copy (ref : OMap) (hshift : ref.shift = 0)
    (hsp : ref.positions.Pairwise (fun a b => a + 2000 ≤ b))
    (i0 n : Nat) (hn : 2 ≤ n) (hwin : i0 + n ≤ ref.positions.length)
    (qid : Int) (rev : Bool) (s w0 : Int) (C : ChainCfg) (it : Int)
    (hw0 : ref.positions[i0]? = some w0) (hs : (s - w0).natAbs ≤ 200) :
    ∃ row, alignerAlign defaultParams C ref (copyQuery qid ((ref.positions.drop i0).take n) rev) [s] rev it = .ok row ∧
      sitePairs row.pairs = truePairs i0 n rev ∧
      (∀ p ∈ row.pairs, p.shift = s - w0) ∧
      row.confidence = (n : Int) * (1000 - ((s - w0).natAbs : Int)) ∧
      hitEnums row.pairs = .ok (List.replicate n Hit.M) ∧
      row.referenceId = ref.id ∧ row.rev = rev := by
  -- the window is `w0 :: t`
  have hlen : ((ref.positions.drop i0).take n).length = n := by
    rw [List.length_take, List.length_drop]; omega
  have h0 : ((ref.positions.drop i0).take n)[0]? = some w0 := by
    rw [List.getElem?_take_of_lt (by omega), List.getElem?_drop]
    simpa using hw0
  have hpos : ref.positions = ref.positions.take i0 ++
      ((ref.positions.drop i0).take n ++ (ref.positions.drop i0).drop n) := by
    rw [List.take_append_drop, List.take_append_drop]
  have hAlen : (ref.positions.take i0).length = i0 := by
    rw [List.length_take]; omega
  generalize ref.positions.take i0 = A at hpos hAlen
  generalize (ref.positions.drop i0).drop n = B at hpos
  generalize (ref.positions.drop i0).take n = ws at hlen h0 hpos
  cases ws with
  | nil => simp at h0
  | cons w t =>
    simp at h0
    subst h0
    have hW : (w :: t).Pairwise (fun a b => a + 2000 ≤ b) := by
      rw [hpos] at hsp
      exact (List.pairwise_append.1 (List.pairwise_append.1 hsp).2.1).1
    let ps := Exact.mk w (s - w) it (if rev then -1 else 1) ((i0 : Int) + 1)
      (if rev then ((t.length + 1 : Nat) : Int) else 1) (w :: t)
    have G : Exact.Good s w it ps := Exact.mk_good s w it rev (w :: t) hW _ _
    have hpl : ps.length = n := by rw [Exact.mk_length]; exact hlen
    have hqs : (copyQuery qid (w :: t) rev).labels rev = ps.map (·.q) :=
      Exact.copyQuery_labels qid w (s - w) it _ t rev
    have hrefs : refWindow 1500 ref s (s + (copyQuery qid (w :: t) rev).length) = ps.map (·.r) := by
      rw [Exact.mk_r, ← hAlen]
      exact Exact.refWindow_eq ref hshift A B w t hpos hsp s hs
    have hal := Exact.align_eq G hs (by omega) C ref (copyQuery qid (w :: t) rev) rev hrefs hqs
    refine ⟨_, hal, ?_, ?_, ?_, ?_, rfl, rfl⟩
    · rw [Exact.row_pairs]
      show sitePairs (Exact.mk _ _ _ _ _ _ _) = _
      rw [Exact.mk_sitePairs, hlen]
      unfold truePairs
      apply List.map_congr_left
      intro j hj
      have hj' : j < n := List.mem_range.1 hj
      simp only [List.length_cons] at hlen
      cases rev
      · simp; omega
      · simp only [if_true, Prod.mk.injEq]
        constructor
        · push_cast; omega
        · rw [hlen]; omega
    · rw [Exact.row_pairs]
      intro p hp
      exact (G.sh p hp).1
    · rw [Exact.row_conf G, hpl]
    · rw [Exact.row_pairs]
      show hitEnums (Exact.mk _ _ _ _ _ _ _) = _
      rw [Exact.mk_hitEnums _ _ _ _ _ (by simp), hlen]

end Coma.Proofs
