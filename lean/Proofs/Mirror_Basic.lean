import Props.Defs
import Proofs.SortLemmas
namespace Coma.Proofs.Mirror
open Coma Coma.Spec

variable (σ τ : Int → Int)

@[simp] theorem score_relabel (P : Params) (a : APos) : (relabelAPos σ τ a).score P = a.score P := by
  cases a <;> simp [relabelAPos, APos.score, relabelPr, Pr.dist]

@[simp] theorem abs_relabel (a : APos) : (relabelAPos σ τ a).abs = a.abs := by
  cases a <;> simp [relabelAPos, APos.abs, relabelPr]

@[simp] theorem isPair_relabel (a : APos) : (relabelAPos σ τ a).isPair = a.isPair := by
  cases a <;> simp [relabelAPos, APos.isPair]

@[simp] theorem pair?_relabel (a : APos) : (relabelAPos σ τ a).pair? = a.pair?.map (relabelPr σ τ) := by
  cases a <;> simp [relabelAPos, APos.pair?]

theorem map_score_relabel (P : Params) (xs : List APos) :
    (xs.map (relabelAPos σ τ)).map (APos.score P) = xs.map (APos.score P) := by
  simp [List.map_map, Function.comp_def]

theorem sumScores_relabel (P : Params) (xs : List APos) :
    sumScores P (xs.map (relabelAPos σ τ)) = sumScores P xs := by
  induction xs with
  | nil => rfl
  | cons a as ih => simp [sumScores, ih]

@[simp] theorem segScore_relabel (P : Params) (s : Seg) : (relabelSeg σ τ s).score P = s.score P := by
  simp [Seg.score, relabelSeg, sumScores_relabel]

@[simp] theorem segIsEmpty_relabel (s : Seg) : (relabelSeg σ τ s).isEmpty = s.isEmpty := by
  simp [Seg.isEmpty, relabelSeg]

@[simp] theorem segPeak_relabel (s : Seg) : (relabelSeg σ τ s).peak = s.peak := rfl
@[simp] theorem segItems_relabel (s : Seg) : (relabelSeg σ τ s).items = s.items.map (relabelAPos σ τ) := rfl

theorem filterMap_pair?_relabel (xs : List APos) :
    (xs.map (relabelAPos σ τ)).filterMap APos.pair? = (xs.filterMap APos.pair?).map (relabelPr σ τ) := by
  induction xs with
  | nil => rfl
  | cons a as ih =>
    cases a <;> simp [relabelAPos, APos.pair?, List.filterMap_cons, ih]

@[simp] theorem segPairs_relabel (s : Seg) : (relabelSeg σ τ s).pairs = s.pairs.map (relabelPr σ τ) := by
  unfold Seg.pairs relabelSeg
  exact filterMap_pair?_relabel σ τ s.items

theorem getSegments_relabel' (P : Params) (peak : Int) (xs : List APos) :
    getSegments P peak (xs.map (relabelAPos σ τ)) = (getSegments P peak xs).map (relabelSeg σ τ) := by
  unfold getSegments
  rw [map_score_relabel]
  split
  · simp [relabelSeg]
  · simp [relabelSeg, List.map_drop, List.map_take]

end Coma.Proofs.Mirror
