/-
  Proofs/SortLemmas.lean — generic facts about the Python-semantics list functions of
  Coma/Sort.lean: `insertByKey`, `isort`, `groupAdj`, `minByFrom`, `minBy?`.  Core Lean only.
-/
import Coma.Sort
namespace Coma.Proofs
open Coma

/-! ### generic list helpers -/

/-- if the images under `f` are duplicate-free then `f` is injective on the list -/
theorem inj_of_nodup_map {α β} (f : α → β) {l : List α} (d : (l.map f).Nodup) :
    ∀ x ∈ l, ∀ y ∈ l, f x = f y → x = y := by
  induction l with
  | nil => intro x hx; cases hx
  | cons a as ih =>
    rw [List.map_cons, List.nodup_cons] at d
    intro x hx y hy hxy
    rcases List.mem_cons.1 hx with rfl | hx'
    · rcases List.mem_cons.1 hy with rfl | hy'
      · rfl
      · exact absurd (hxy ▸ List.mem_map_of_mem (f := f) hy') d.1
    · rcases List.mem_cons.1 hy with rfl | hy'
      · exact absurd (hxy ▸ List.mem_map_of_mem (f := f) hx') d.1
      · exact ih d.2 x hx' y hy' hxy

theorem nodup_of_nodup_map {α β} (f : α → β) {l : List α} (d : (l.map f).Nodup) : l.Nodup := by
  induction l with
  | nil => exact List.nodup_nil
  | cons a as ih =>
    rw [List.map_cons, List.nodup_cons] at d
    rw [List.nodup_cons]
    exact ⟨fun h => d.1 (List.mem_map_of_mem h), ih d.2⟩

/-- two members of a pairwise-related list are equal or related one way or the other -/
theorem pairwise_trichotomy {α} {R : α → α → Prop} {l : List α} (h : l.Pairwise R) :
    ∀ a ∈ l, ∀ b ∈ l, a = b ∨ R a b ∨ R b a := by
  induction l with
  | nil => intro a ha; cases ha
  | cons x xs ih =>
    rw [List.pairwise_cons] at h
    intro a ha b hb
    rcases List.mem_cons.1 ha with rfl | ha'
    · rcases List.mem_cons.1 hb with rfl | hb'
      · exact Or.inl rfl
      · exact Or.inr (Or.inl (h.1 b hb'))
    · rcases List.mem_cons.1 hb with rfl | hb'
      · exact Or.inr (Or.inr (h.1 a ha'))
      · exact ih h.2 a ha' b hb'

/-! ### insertByKey / isort -/

theorem insertByKey_perm {α} (key : α → Int) (a : α) (l : List α) :
    (insertByKey key a l).Perm (a :: l) := by
  induction l with
  | nil => simp [insertByKey]
  | cons b bs ih =>
    simp only [insertByKey]
    split
    · exact List.Perm.refl _
    · exact (List.Perm.cons b ih).trans (List.Perm.swap a b bs)

theorem isort_perm {α} (key : α → Int) (l : List α) : (isort key l).Perm l := by
  induction l with
  | nil => simp [isort]
  | cons a as ih =>
    simp only [isort]
    exact (insertByKey_perm key a _).trans (List.Perm.cons a ih)

theorem mem_isort {α} (key : α → Int) (l : List α) (x : α) : x ∈ isort key l ↔ x ∈ l :=
  (isort_perm key l).mem_iff

theorem isort_length {α} (key : α → Int) (l : List α) : (isort key l).length = l.length :=
  (isort_perm key l).length_eq

theorem insertByKey_sorted {α} (key : α → Int) (a : α) (l : List α)
    (h : (l.map key).Pairwise (· ≤ ·)) : ((insertByKey key a l).map key).Pairwise (· ≤ ·) := by
  induction l with
  | nil => simp [insertByKey]
  | cons b bs ih =>
    simp only [insertByKey]
    rw [List.map_cons, List.pairwise_cons] at h
    split
    · rename_i hab
      rw [List.map_cons, List.pairwise_cons]
      refine ⟨?_, ?_⟩
      · intro k hk
        rw [List.map_cons, List.mem_cons] at hk
        rcases hk with rfl | hk
        · exact hab
        · exact Int.le_trans hab (h.1 k hk)
      · rw [List.map_cons, List.pairwise_cons]; exact h
    · rename_i hab
      rw [List.map_cons, List.pairwise_cons]
      refine ⟨?_, ih h.2⟩
      intro k hk
      rw [List.mem_map] at hk
      obtain ⟨x, hx, rfl⟩ := hk
      rcases List.mem_cons.1 ((insertByKey_perm key a bs).mem_iff.1 hx) with rfl | hx'
      · omega
      · exact h.1 _ (List.mem_map_of_mem hx')

theorem isort_sorted {α} (key : α → Int) (l : List α) :
    ((isort key l).map key).Pairwise (· ≤ ·) := by
  induction l with
  | nil => simp [isort]
  | cons a as ih => exact insertByKey_sorted key a _ ih

theorem insertByKey_map {α β} (f : β → α) (key : α → Int) (key' : β → Int)
    (h : ∀ x, key (f x) = key' x) (a : β) (l : List β) :
    insertByKey key (f a) (l.map f) = (insertByKey key' a l).map f := by
  induction l with
  | nil => simp [insertByKey]
  | cons b bs ih =>
    simp only [insertByKey, List.map_cons, h]
    split
    · simp
    · simp [ih]

/-- `isort` commutes with a key-preserving map -/
theorem isort_map {α β} (f : β → α) (key : α → Int) (key' : β → Int)
    (h : ∀ x, key (f x) = key' x) (l : List β) :
    isort key (l.map f) = (isort key' l).map f := by
  induction l with
  | nil => simp [isort]
  | cons a as ih =>
    simp only [isort, List.map_cons, ih]
    exact insertByKey_map f key key' h a _

/-- a sorted list is a fixed point of `isort` -/
theorem insertByKey_of_le {α} (key : α → Int) (a : α) (l : List α)
    (h : ∀ x ∈ l, key a ≤ key x) : insertByKey key a l = a :: l := by
  cases l with
  | nil => rfl
  | cons b bs => simp [insertByKey, h b (List.mem_cons_self)]

theorem isort_of_sorted {α} (key : α → Int) (l : List α)
    (h : (l.map key).Pairwise (· ≤ ·)) : isort key l = l := by
  induction l with
  | nil => rfl
  | cons a as ih =>
    rw [List.map_cons, List.pairwise_cons] at h
    simp only [isort, ih h.2]
    exact insertByKey_of_le key a as (fun x hx => h.1 _ (List.mem_map_of_mem hx))

/-! ### groupAdj -/

theorem groupAdj_cons {α} (key : α → Int) (x : α) (xs : List α) :
    groupAdj key (x :: xs) =
      match groupAdj key xs with
      | (y :: g) :: gs => if key x = key y then (x :: y :: g) :: gs else [x] :: (y :: g) :: gs
      | _              => [[x]] := rfl

theorem groupAdj_ne_nil {α} (key : α → Int) (xs : List α) : ∀ g ∈ groupAdj key xs, g ≠ [] := by
  induction xs with
  | nil => intro g hg; simp [groupAdj] at hg
  | cons x xs ih =>
    rw [groupAdj_cons]
    split
    · rename_i y g gs heq
      rw [heq] at ih
      split
      · intro g' hg'
        rcases List.mem_cons.1 hg' with rfl | h
        · simp
        · exact ih g' (List.mem_cons_of_mem _ h)
      · intro g' hg'
        rcases List.mem_cons.1 hg' with rfl | h
        · simp
        · exact ih g' h
    · intro g hg
      simp at hg
      simp [hg]

theorem groupAdj_eq_nil {α} (key : α → Int) (xs : List α) : groupAdj key xs = [] ↔ xs = [] := by
  constructor
  · intro h
    cases xs with
    | nil => rfl
    | cons x xs =>
      rw [groupAdj_cons] at h
      split at h
      · split at h <;> simp at h
      · simp at h
  · rintro rfl; rfl

theorem groupAdj_flatten {α} (key : α → Int) (xs : List α) : (groupAdj key xs).flatten = xs := by
  induction xs with
  | nil => simp [groupAdj]
  | cons x xs ih =>
    rw [groupAdj_cons]
    split
    · rename_i y g gs heq
      rw [heq] at ih
      split
      · rw [← ih]; simp
      · rw [← ih]; simp
    · rename_i hne
      cases hg : groupAdj key xs with
      | nil =>
        rw [(groupAdj_eq_nil key xs).1 hg]; simp
      | cons g gs =>
        cases g with
        | nil => exact absurd rfl (groupAdj_ne_nil key xs [] (by rw [hg]; simp))
        | cons y g => exact absurd hg (hne y g gs)

theorem mem_of_mem_groupAdj {α} (key : α → Int) (xs : List α) (g : List α) (x : α)
    (hg : g ∈ groupAdj key xs) (hx : x ∈ g) : x ∈ xs := by
  rw [← groupAdj_flatten key xs]
  exact List.mem_flatten.2 ⟨g, hg, hx⟩

theorem exists_group_of_mem {α} (key : α → Int) (xs : List α) (x : α) (hx : x ∈ xs) :
    ∃ g ∈ groupAdj key xs, x ∈ g := by
  rw [← groupAdj_flatten key xs] at hx
  exact List.mem_flatten.1 hx

/-- all members of one group carry the same key -/
theorem groupAdj_key_eq {α} (key : α → Int) (xs : List α) :
    ∀ g ∈ groupAdj key xs, ∀ a ∈ g, ∀ b ∈ g, key a = key b := by
  induction xs with
  | nil => intro g hg; simp [groupAdj] at hg
  | cons x xs ih =>
    rw [groupAdj_cons]
    split
    · rename_i y g gs heq
      rw [heq] at ih
      split
      · rename_i hxy
        intro g' hg'
        rcases List.mem_cons.1 hg' with rfl | h
        · have hy : ∀ a ∈ y :: g, key a = key y := fun a ha =>
            ih (y :: g) List.mem_cons_self a ha y List.mem_cons_self
          have hx : ∀ a ∈ x :: y :: g, key a = key y := by
            intro a ha
            rcases List.mem_cons.1 ha with rfl | ha
            · exact hxy
            · exact hy a ha
          intro a ha b hb
          rw [hx a ha, hx b hb]
        · exact ih g' (List.mem_cons_of_mem _ h)
      · intro g' hg'
        rcases List.mem_cons.1 hg' with rfl | h
        · intro a ha b hb
          simp at ha hb
          rw [ha, hb]
        · exact ih g' h
    · intro g hg a ha b hb
      simp at hg
      subst hg
      simp at ha hb
      rw [ha, hb]

/-- on a key-sorted list the groups have strictly increasing keys -/
theorem groupAdj_sorted {α} (key : α → Int) (xs : List α) (h : (xs.map key).Pairwise (· ≤ ·)) :
    (groupAdj key xs).Pairwise (fun g g' => ∀ a ∈ g, ∀ b ∈ g', key a < key b) := by
  induction xs with
  | nil => simp [groupAdj]
  | cons x xs ih =>
    rw [List.map_cons, List.pairwise_cons] at h
    have ih := ih h.2
    have hkey := groupAdj_key_eq key xs
    have hmem := mem_of_mem_groupAdj key xs
    rw [groupAdj_cons]
    split
    · rename_i y g gs heq
      rw [heq] at ih hkey hmem
      rw [List.pairwise_cons] at ih
      split
      · rename_i hxy
        rw [List.pairwise_cons]
        refine ⟨?_, ih.2⟩
        intro g' hg' a ha b hb
        rcases List.mem_cons.1 ha with rfl | ha
        · rw [hxy]; exact ih.1 g' hg' y List.mem_cons_self b hb
        · exact ih.1 g' hg' a ha b hb
      · rename_i hxy
        rw [List.pairwise_cons]
        refine ⟨?_, List.pairwise_cons.2 ih⟩
        intro g' hg' a ha b hb
        simp at ha
        subst ha
        have hay : key a ≤ key y :=
          h.1 _ (List.mem_map_of_mem (hmem (y :: g) y List.mem_cons_self List.mem_cons_self))
        have hlt : key a < key y := by omega
        rcases List.mem_cons.1 hg' with rfl | hg''
        · rw [hkey (y :: g) List.mem_cons_self b hb y List.mem_cons_self]; exact hlt
        · exact Int.lt_trans hlt (ih.1 g' hg'' y List.mem_cons_self b hb)
    · simp

/-- on a key-sorted list, two groups sharing a key coincide -/
theorem groupAdj_unique {α} (key : α → Int) (xs : List α) (h : (xs.map key).Pairwise (· ≤ ·))
    (g g' : List α) (hg : g ∈ groupAdj key xs) (hg' : g' ∈ groupAdj key xs)
    (a b : α) (ha : a ∈ g) (hb : b ∈ g') (hab : key a = key b) : g = g' := by
  rcases pairwise_trichotomy (groupAdj_sorted key xs h) g hg g' hg' with h1 | h1 | h1
  · exact h1
  · have := h1 a ha b hb; omega
  · have := h1 b hb a ha; omega

theorem groupAdj_map {α β} (f : β → α) (key : α → Int) (key' : β → Int)
    (h : ∀ x, key (f x) = key' x) (l : List β) :
    groupAdj key (l.map f) = (groupAdj key' l).map (List.map f) := by
  induction l with
  | nil => simp [groupAdj]
  | cons a as ih =>
    rw [List.map_cons, groupAdj_cons, groupAdj_cons, ih]
    cases hg : groupAdj key' as with
    | nil => simp
    | cons g gs =>
      cases g with
      | nil => simp
      | cons y g =>
        simp only [List.map_cons, h]
        split <;> simp

/-! ### minByFrom / minBy? -/

theorem minByFrom_mem {α} (f : α → Int) (a : α) (l : List α) : minByFrom f a l ∈ a :: l := by
  induction l generalizing a with
  | nil => simp [minByFrom]
  | cons b bs ih =>
    simp only [minByFrom]
    split
    · exact List.mem_cons_of_mem _ (ih b)
    · rcases List.mem_cons.1 (ih a) with h | h
      · rw [h]; exact List.mem_cons_self
      · exact List.mem_cons_of_mem _ (List.mem_cons_of_mem _ h)

theorem minByFrom_le {α} (f : α → Int) (a : α) (l : List α) :
    ∀ x ∈ a :: l, f (minByFrom f a l) ≤ f x := by
  induction l generalizing a with
  | nil => intro x hx; simp at hx; subst hx; simp [minByFrom]
  | cons b bs ih =>
    simp only [minByFrom]
    intro x hx
    split
    · rename_i hlt
      rcases List.mem_cons.1 hx with rfl | hx
      · have := ih b b List.mem_cons_self; omega
      · exact ih b x hx
    · rename_i hlt
      rcases List.mem_cons.1 hx with rfl | hx
      · exact ih x x List.mem_cons_self
      · rcases List.mem_cons.1 hx with rfl | hx
        · have := ih a a List.mem_cons_self; omega
        · exact ih a x (List.mem_cons_of_mem _ hx)

theorem minBy?_eq_none {α} (f : α → Int) (l : List α) : minBy? f l = none ↔ l = [] := by
  cases l <;> simp [minBy?]

/-- `minBy?` of a non-empty list returns a member that is minimal -/
theorem minBy?_some {α} (f : α → Int) (l : List α) (m : α) (h : minBy? f l = some m) :
    m ∈ l ∧ ∀ x ∈ l, f m ≤ f x := by
  cases l with
  | nil => simp [minBy?] at h
  | cons a as =>
    simp only [minBy?, Option.some.injEq] at h
    subst h
    exact ⟨minByFrom_mem f a as, minByFrom_le f a as⟩

theorem minBy?_isSome {α} (f : α → Int) (l : List α) (h : l ≠ []) : ∃ m, minBy? f l = some m := by
  cases l with
  | nil => exact absurd rfl h
  | cons a as => exact ⟨_, rfl⟩

theorem minByFrom_map {α β} (g : β → α) (f : α → Int) (f' : β → Int)
    (h : ∀ x, f (g x) = f' x) (a : β) (l : List β) :
    minByFrom f (g a) (l.map g) = g (minByFrom f' a l) := by
  induction l generalizing a with
  | nil => rfl
  | cons b bs ih =>
    simp only [List.map_cons, minByFrom, h]
    split
    · exact ih b
    · exact ih a

theorem minBy?_map {α β} (g : β → α) (f : α → Int) (f' : β → Int)
    (h : ∀ x, f (g x) = f' x) (l : List β) :
    minBy? f (l.map g) = (minBy? f' l).map g := by
  cases l with
  | nil => rfl
  | cons a as => simp [minBy?, minByFrom_map g f f' h]

/-- picking the minimum of each group, in order, yields a sublist of the concatenation -/
theorem filterMap_minBy?_sublist {α} (f : α → Int) (gs : List (List α)) :
    (gs.filterMap (minBy? f)).Sublist gs.flatten := by
  induction gs with
  | nil => simp
  | cons g gs ih =>
    cases g with
    | nil =>
      have : List.filterMap (minBy? f) ([] :: gs) = List.filterMap (minBy? f) gs := by
        simp [List.filterMap_cons, minBy?]
      rw [this]; simpa using ih
    | cons a as =>
      have : List.filterMap (minBy? f) ((a :: as) :: gs)
          = [minByFrom f a as] ++ List.filterMap (minBy? f) gs := by
        simp [minBy?]
      rw [this, List.flatten_cons]
      have h1 : [minByFrom f a as].Sublist (a :: as) :=
        List.singleton_sublist.2 (minByFrom_mem f a as)
      exact List.Sublist.append h1 ih

end Coma.Proofs
