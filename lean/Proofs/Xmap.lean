import Props.Defs
namespace Coma.Proofs.Xmap
open Coma

theorem digit_rt : ∀ d, d < 10 → charDigit? (digitChar d) = some d := by decide
theorem digit_ne : ∀ d, d < 10 → digitChar d ≠ '-' ∧ digitChar d ≠ '.' ∧ digitChar d ≠ ',' ∧
    digitChar d ≠ '(' ∧ digitChar d ≠ ')' := by decide
theorem hund : ∀ fp, fp < 100 →
    ofDigits ((padZeros 2 (natDigits fp) ++ [0,0]).take 2) = fp := by decide

theorem foldl_digits (ds : List Nat) (a : Nat) :
    ds.foldl (fun a d => 10 * a + d) a = a * 10 ^ ds.length + ofDigits ds := by
  induction ds generalizing a with
  | nil => simp [ofDigits]
  | cons d ds ih =>
    simp only [List.foldl_cons, ofDigits, List.length_cons]
    rw [ih, ih (10 * 0 + d)]
    simp only [ofDigits]
    grind

theorem ofDigits_cons (d : Nat) (ds : List Nat) :
    ofDigits (d :: ds) = d * 10 ^ ds.length + ofDigits ds := by
  have := foldl_digits ds (10 * 0 + d)
  simp only [ofDigits, List.foldl_cons] at *
  rw [this]; simp

theorem ofDigits_digitsAux : ∀ (fuel n : Nat) (acc : List Nat), n < fuel →
    ofDigits (digitsAux fuel n acc) = n * 10 ^ acc.length + ofDigits acc := by
  intro fuel
  induction fuel with
  | zero => intro n acc h; omega
  | succ fuel ih =>
    intro n acc h
    unfold digitsAux
    split
    · exact ofDigits_cons n acc
    · have h1 : n / 10 < fuel := by omega
      rw [ih _ _ h1, ofDigits_cons, List.length_cons, Nat.pow_succ]
      have := Nat.div_add_mod n 10
      generalize 10 ^ acc.length = p at *
      generalize n / 10 = q at *
      generalize n % 10 = r at *
      subst this
      grind

theorem ofDigits_natDigits (n : Nat) : ofDigits (natDigits n) = n := by
  unfold natDigits
  rw [ofDigits_digitsAux _ _ _ (Nat.lt_succ_self n)]
  simp [ofDigits]

theorem digitsAux_lt : ∀ (fuel n : Nat) (acc : List Nat), (∀ d ∈ acc, d < 10) →
    ∀ d ∈ digitsAux fuel n acc, d < 10 := by
  intro fuel
  induction fuel with
  | zero => intro n acc h; simpa [digitsAux] using h
  | succ fuel ih =>
    intro n acc h
    unfold digitsAux
    split
    · intro d hd
      rcases List.mem_cons.mp hd with rfl | hd
      · assumption
      · exact h d hd
    · apply ih
      intro d hd
      rcases List.mem_cons.mp hd with rfl | hd
      · omega
      · exact h d hd

theorem natDigits_lt (n : Nat) : ∀ d ∈ natDigits n, d < 10 :=
  digitsAux_lt _ _ _ (by simp)

theorem digitsAux_ne_nil : ∀ (fuel n : Nat) (acc : List Nat), n < fuel →
    digitsAux fuel n acc ≠ [] := by
  intro fuel
  induction fuel with
  | zero => intro n acc h; omega
  | succ fuel ih =>
    intro n acc h
    unfold digitsAux
    split
    · simp
    · exact ih _ _ (by omega)

theorem natDigits_ne_nil (n : Nat) : natDigits n ≠ [] :=
  digitsAux_ne_nil _ _ _ (Nat.lt_succ_self n)

theorem parseDigits_map (ds : List Nat) (h : ∀ d ∈ ds, d < 10) :
    parseDigits? (ds.map digitChar) = some ds := by
  induction ds with
  | nil => rfl
  | cons d ds ih =>
    have h1 := digit_rt d (h d (by simp))
    have h2 := ih (fun d hd => h d (by simp [hd]))
    simp only [List.map_cons, parseDigits?, h1, h2]

/-- the characters of a rendered natural -/
def natChars (n : Nat) : List Char := (natDigits n).map digitChar

theorem renderNat_toList (n : Nat) : (renderNat n).toList = natChars n := by
  simp [renderNat, natChars]

theorem natChars_ne_nil (n : Nat) : natChars n ≠ [] := by
  simp [natChars, natDigits_ne_nil]

theorem natChars_mem {n : Nat} {c : Char} (h : c ∈ natChars n) :
    c ≠ '-' ∧ c ≠ '.' ∧ c ≠ ',' ∧ c ≠ '(' ∧ c ≠ ')' := by
  simp only [natChars, List.mem_map] at h
  obtain ⟨d, hd, rfl⟩ := h
  exact digit_ne d (natDigits_lt n d hd)

theorem parseNat_natChars (n : Nat) : parseNat? (natChars n) = some n := by
  have hne := natChars_ne_nil n
  unfold parseNat?
  split
  · contradiction
  · simp [natChars, parseDigits_map _ (natDigits_lt n), ofDigits_natDigits]

theorem parseInt_of_head_ne (cs : List Char) (h : cs.head? ≠ some '-') :
    parseInt? cs = (parseNat? cs).map (fun n => (n : Int)) := by
  unfold parseInt?
  split
  · simp at h
  · rfl

theorem natChars_head (n : Nat) : (natChars n).head? ≠ some '-' := by
  intro h
  have := List.mem_of_head? h
  exact (natChars_mem this).1 rfl

/-- sign, then a rendered natural -/
def signed (neg : Bool) (n : Nat) : List Char := (if neg then ['-'] else []) ++ natChars n

theorem parseInt_signed (neg : Bool) (n : Nat) :
    parseInt? (signed neg n) = some (if neg then -(n : Int) else n) := by
  cases neg
  · simp [signed, parseInt_of_head_ne _ (natChars_head n), parseNat_natChars]
  · simp [signed, parseInt?, parseNat_natChars]

theorem signed_mem {neg : Bool} {n : Nat} {c : Char} (h : c ∈ signed neg n) :
    c ≠ '.' ∧ c ≠ ',' ∧ c ≠ '(' ∧ c ≠ ')' := by
  simp only [signed, List.mem_append] at h
  rcases h with h | h
  · cases neg
    · simp at h
    · simp at h; subst h; decide
  · exact (natChars_mem h).2

theorem renderInt_toList (i : Int) :
    (renderInt i).toList = signed (decide (i < 0)) i.natAbs := by
  unfold renderInt signed
  split <;> rename_i h <;> simp [h, renderNat_toList]

theorem renderFixed_toList (d : Nat) (v : Int) :
    (renderFixed d v).toList = signed (decide (v < 0)) (v.natAbs / 10 ^ d) ++
      '.' :: (padZeros d (natDigits (v.natAbs % 10 ^ d))).map digitChar := by
  unfold renderFixed signed
  by_cases h : v < 0 <;> simp [h, renderNat_toList]

theorem splitDot_append (a b : List Char) (h : '.' ∉ a) :
    splitDot (a ++ '.' :: b) = (a, b) := by
  induction a with
  | nil => simp [splitDot]
  | cons c a ih =>
    have hc : c ≠ '.' := fun e => h (by simp [e])
    have ha : '.' ∉ a := fun e => h (by simp [e])
    simp [splitDot, hc, ih ha]

theorem signed_no_dot (neg : Bool) (n : Nat) : '.' ∉ signed neg n :=
  fun h => (signed_mem h).1 rfl

theorem tdiv_signed (d : Nat) (v : Int) :
    (if decide (v < 0) = true then -((v.natAbs / 10 ^ d : Nat) : Int) else ((v.natAbs / 10 ^ d : Nat) : Int))
      = Int.tdiv v (10 ^ d) := by
  by_cases h : v < 0
  · have hv : v = -(v.natAbs : Int) := Int.eq_neg_natAbs_of_nonpos (by omega)
    simp only [h, decide_true, if_true]
    conv => rhs; rw [hv]
    rw [Int.neg_tdiv, Int.ofNat_tdiv, Int.natCast_pow]; rfl
  · have hv : (v.natAbs : Int) = v := Int.natAbs_of_nonneg (by omega)
    simp only [h, decide_false, Bool.false_eq_true, if_false]
    conv => rhs; rw [← hv]
    rw [Int.ofNat_tdiv, Int.natCast_pow]; rfl

theorem parseHundredths_pos (a b : List Char) (ip : Nat) (ds : List Nat)
    (ha : a.head? ≠ some '-') (hdot : '.' ∉ a) (hip : parseNat? a = some ip)
    (hds : parseDigits? b = some ds) :
    parseHundredths? (a ++ '.' :: b) =
      some ((ip * 100 + ofDigits ((ds ++ [0, 0]).take 2) : Nat) : Int) := by
  have hh : ¬ ((a ++ '.' :: b).head? = some '-') := by
    cases a with
    | nil => simp
    | cons c a => simpa using ha
  simp only [parseHundredths?, hh, if_false, splitDot_append a b hdot, hip, hds]

theorem parseHundredths_neg (a b : List Char) (ip : Nat) (ds : List Nat)
    (hdot : '.' ∉ a) (hip : parseNat? a = some ip)
    (hds : parseDigits? b = some ds) :
    parseHundredths? ('-' :: a ++ '.' :: b) =
      some (-((ip * 100 + ofDigits ((ds ++ [0, 0]).take 2) : Nat) : Int)) := by
  simp only [parseHundredths?, List.cons_append, List.head?_cons, if_true, List.drop_succ_cons,
    List.drop_zero, splitDot_append a b hdot, hip, hds]

theorem padZeros_lt (w : Nat) (ds : List Nat) (h : ∀ d ∈ ds, d < 10) :
    ∀ d ∈ padZeros w ds, d < 10 := by
  intro d hd
  simp only [padZeros, List.mem_append, List.mem_replicate] at hd
  rcases hd with ⟨_, rfl⟩ | hd
  · decide
  · exact h d hd

theorem natChars_no_dot (n : Nat) : '.' ∉ natChars n :=
  fun h => (natChars_mem h).2.1 rfl

theorem parseHundredths_signed (neg : Bool) (ip fp : Nat) (hfp : fp < 100) :
    parseHundredths? (signed neg ip ++ '.' :: (padZeros 2 (natDigits fp)).map digitChar) =
      some (if neg then -((ip * 100 + fp : Nat) : Int) else ((ip * 100 + fp : Nat) : Int)) := by
  have hds := parseDigits_map _ (padZeros_lt 2 _ (natDigits_lt fp))
  cases neg
  · simp only [signed, Bool.false_eq_true, if_false, List.nil_append]
    rw [parseHundredths_pos _ _ ip _ (natChars_head ip) (natChars_no_dot ip)
      (parseNat_natChars ip) hds, hund fp hfp]
  · simp only [signed, if_true, List.singleton_append]
    rw [parseHundredths_neg _ _ ip _ (natChars_no_dot ip) (parseNat_natChars ip) hds, hund fp hfp]

end Coma.Proofs.Xmap

namespace Coma.Proofs
open Coma Coma.Spec Coma.Proofs.Xmap

theorem nat_roundtrip (n : Nat) : parseNat? (renderNat n).toList = some n := by
  rw [renderNat_toList, parseNat_natChars]

theorem int_roundtrip (i : Int) : parseInt? (renderInt i).toList = some i := by
  rw [renderInt_toList, parseInt_signed]
  by_cases h : i < 0 <;> simp [h] <;> omega

theorem fixed_trunc (d : Nat) (v : Int) : parseTrunc? (renderFixed d v).toList = some (Int.tdiv v (10 ^ d)) := by
  rw [renderFixed_toList, parseTrunc?, splitDot_append _ _ (signed_no_dot _ _), parseInt_signed,
    tdiv_signed]

theorem coord_roundtrip (x : Int) : parseTrunc? (renderFixed 1 (x * 10)).toList = some x := by
  rw [fixed_trunc]; simp

theorem conf_roundtrip (c : Int) : parseHundredths? (renderFixed 2 c).toList = some c := by
  rw [renderFixed_toList, parseHundredths_signed _ _ _ (Nat.mod_lt _ (by decide))]
  have := Nat.div_add_mod c.natAbs (10 ^ 2)
  by_cases h : c < 0 <;> simp [h] <;> omega

end Coma.Proofs

namespace Coma.Proofs.Xmap
open Coma

theorem splitOnChar_ne_nil (sep : Char) (l : List Char) : splitOnChar sep l ≠ [] := by
  induction l with
  | nil => simp [splitOnChar]
  | cons c cs ih =>
    unfold splitOnChar
    split
    · simp
    · split <;> simp

theorem splitOnChar_not_mem (sep : Char) (a : List Char) (h : sep ∉ a) :
    splitOnChar sep a = [a] := by
  induction a with
  | nil => simp [splitOnChar]
  | cons c a ih =>
    have hc : c ≠ sep := fun e => h (by simp [e])
    have ha : sep ∉ a := fun e => h (by simp [e])
    simp [splitOnChar, ih ha, hc]

theorem splitOnChar_append (sep : Char) (a rest : List Char) (h : sep ∉ a) :
    splitOnChar sep (a ++ sep :: rest) = a :: splitOnChar sep rest := by
  induction a with
  | nil =>
    simp only [List.nil_append, splitOnChar]
    split
    · rename_i e; exact absurd e (splitOnChar_ne_nil _ _)
    · rename_i e; simp [e]
  | cons c a ih =>
    have hc : c ≠ sep := fun e => h (by simp [e])
    have ha : sep ∉ a := fun e => h (by simp [e])
    simp [splitOnChar, ih ha, hc]

/-- characters of a rendered integer -/
def intChars (i : Int) : List Char := (renderInt i).toList

theorem intChars_mem {i : Int} {c : Char} (h : c ∈ intChars i) :
    c ≠ '.' ∧ c ≠ ',' ∧ c ≠ '(' ∧ c ≠ ')' := by
  rw [intChars, renderInt_toList] at h
  exact signed_mem h

/-- one `r,q` part -/
def part (p : Int × Int) : List Char := intChars p.1 ++ ',' :: intChars p.2

/-- one `(r,q)` block -/
def block (p : Int × Int) : List Char := '(' :: (part p ++ [')'])

theorem renderPairs_toList (ps : List (Int × Int)) :
    (renderPairs ps).toList = ps.flatMap block := by
  simp only [renderPairs, String.toList_join, List.flatMap_map]
  congr 1
  funext ⟨r, q⟩
  simp [block, part, intChars]

theorem part_mem {p : Int × Int} {c : Char} (h : c ∈ part p) : c ≠ '(' ∧ c ≠ ')' := by
  simp only [part, List.mem_append, List.mem_cons] at h
  rcases h with h | rfl | h
  · exact (intChars_mem h).2.2
  · decide
  · exact (intChars_mem h).2.2

theorem filter_part (p : Int × Int) : (part p).filter (· ≠ '(') = part p := by
  rw [List.filter_eq_self]
  intro c hc
  simpa using (part_mem hc).1

/-- `r,q)r,q)…r,q` -/
def joined : Int × Int → List (Int × Int) → List Char
  | p, [] => part p
  | p, p' :: ps => part p ++ ')' :: joined p' ps

theorem body_eq (ps : List (Int × Int)) (p : Int × Int) :
    (((p :: ps).flatMap block).dropLast).filter (· ≠ '(') = joined p ps := by
  induction ps generalizing p with
  | nil =>
    simp only [List.flatMap_cons, List.flatMap_nil, List.append_nil, block, joined]
    rw [← List.cons_append, List.dropLast_concat]
    simp only [decide_not, List.filter_cons]
    simpa using fun a h => (part_mem h).1
  | cons p' ps ih =>
    rw [List.flatMap_cons, List.dropLast_append_of_ne_nil (by simp [block]), List.filter_append,
      ih p', joined]
    simp only [block, decide_not, List.filter_cons, List.filter_append]
    simpa using fun a h => (part_mem h).1

theorem split_joined (ps : List (Int × Int)) (p : Int × Int) :
    splitOnChar ')' (joined p ps) = (p :: ps).map part := by
  induction ps generalizing p with
  | nil => exact splitOnChar_not_mem _ _ (fun h => (part_mem h).2 rfl)
  | cons p' ps ih =>
    rw [joined, splitOnChar_append _ _ _ (fun h => (part_mem h).2 rfl), ih p']
    rfl

theorem parse_part (p : Int × Int) :
    (match splitOnChar ',' (part p) with
      | [a, b] => match parseInt? a, parseInt? b with
        | some x, some y => some (x, y)
        | _, _           => none
      | _ => none) = some p := by
  have h1 : ',' ∉ intChars p.1 := fun h => (intChars_mem h).2.1 rfl
  have h2 : ',' ∉ intChars p.2 := fun h => (intChars_mem h).2.1 rfl
  rw [part, splitOnChar_append _ _ _ h1, splitOnChar_not_mem _ _ h2]
  simp only [intChars, int_roundtrip]

theorem mapM_parts (f : List Char → Option (Int × Int)) (hf : ∀ p, f (part p) = some p)
    (ps : List (Int × Int)) : (ps.map part).mapM f = some ps := by
  induction ps with
  | nil => rfl
  | cons p ps ih => simp [List.mapM_cons, hf, ih]

end Coma.Proofs.Xmap

namespace Coma.Proofs
open Coma Coma.Spec Coma.Proofs.Xmap

theorem pairs_roundtrip (ps : List (Int × Int)) (hne : ps ≠ []) :
    parsePairs? (renderPairs ps).toList = some ps := by
  obtain ⟨p, ps, rfl⟩ := List.exists_cons_of_ne_nil hne
  rw [renderPairs_toList]
  unfold parsePairs?
  simp only [body_eq, split_joined]
  exact mapM_parts _ parse_part _

theorem row_roundtrip (x : XRow) (hne : x.pairs ≠ []) :
    readXRow? x.fields = some
      { entryId := x.entryId, qid := x.qid, rid := x.rid, qStart := x.qStart, qEnd := x.qEnd,
        rStart := x.rStart, rEnd := x.rEnd, rev := x.rev, conf100 := x.conf100, hitEnum := x.hitEnum,
        qLen := x.qLen, rLen := x.rLen, pairs := x.pairs } := by
  have hn : parseInt? (renderNat x.entryId).toList = some (x.entryId : Int) := by
    rw [renderNat_toList, parseInt_of_head_ne _ (natChars_head _), parseNat_natChars]; rfl
  have hori : decide ((if x.rev then "-" else "+" : String).toList = ['-']) = x.rev := by
    cases x.rev <;> decide
  simp only [readXRow?, XRow.fields, List.map_cons, List.map_nil, hn, int_roundtrip,
    coord_roundtrip, conf_roundtrip, pairs_roundtrip _ hne, hori, String.ofList_toList,
    Option.bind_eq_bind, Option.bind_some]

theorem file_roundtrip (xs : List XRow) (hne : ∀ x ∈ xs, x.pairs ≠ []) :
    readXmap? (xs.map XRow.fields) = some (xs.map fun x =>
      ({ entryId := x.entryId, qid := x.qid, rid := x.rid, qStart := x.qStart, qEnd := x.qEnd,
         rStart := x.rStart, rEnd := x.rEnd, rev := x.rev, conf100 := x.conf100, hitEnum := x.hitEnum,
         qLen := x.qLen, rLen := x.rLen, pairs := x.pairs } : XRead)) := by
  induction xs with
  | nil => rfl
  | cons x xs ih =>
    have h1 := row_roundtrip x (hne x (by simp))
    have h2 := ih (fun y hy => hne y (by simp [hy]))
    simp only [readXmap?] at h2 ⊢
    simp [List.mapM_cons, h1, h2]

end Coma.Proofs
