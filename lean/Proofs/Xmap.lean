import Props.Defs
namespace Coma.Proofs
open Coma Coma.Spec

theorem nat_roundtrip (n : Nat) : parseNat? (renderNat n).toList = some n := by
  sorry

theorem int_roundtrip (i : Int) : parseInt? (renderInt i).toList = some i := by
  sorry

theorem coord_roundtrip (x : Int) : parseTrunc? (renderFixed 1 (x * 10)).toList = some x := by
  sorry

theorem fixed_trunc (d : Nat) (v : Int) : parseTrunc? (renderFixed d v).toList = some (Int.tdiv v (10 ^ d)) := by
  sorry

theorem conf_roundtrip (c : Int) : parseHundredths? (renderFixed 2 c).toList = some c := by
  sorry

theorem pairs_roundtrip (ps : List (Int × Int)) (hne : ps ≠ []) :
    parsePairs? (renderPairs ps).toList = some ps := by
  sorry

theorem row_roundtrip (x : XRow) (hne : x.pairs ≠ []) :
    readXRow? x.fields = some
      { entryId := x.entryId, qid := x.qid, rid := x.rid, qStart := x.qStart, qEnd := x.qEnd,
        rStart := x.rStart, rEnd := x.rEnd, rev := x.rev, conf100 := x.conf100, hitEnum := x.hitEnum,
        qLen := x.qLen, rLen := x.rLen, pairs := x.pairs } := by
  sorry

theorem file_roundtrip (xs : List XRow) (hne : ∀ x ∈ xs, x.pairs ≠ []) :
    readXmap? (xs.map XRow.fields) = some (xs.map fun x =>
      ({ entryId := x.entryId, qid := x.qid, rid := x.rid, qStart := x.qStart, qEnd := x.qEnd,
         rStart := x.rStart, rEnd := x.rEnd, rev := x.rev, conf100 := x.conf100, hitEnum := x.hitEnum,
         qLen := x.qLen, rLen := x.rLen, pairs := x.pairs } : XRead)) := by
  sorry

end Coma.Proofs
