/-
  Proofs/Restrict.lean — multi-pass per-query independence (C10 for every output mode):
  the records a query gets in every file of every mode do not depend on which other molecules are
  in the run.
-/
import Props.Defs
import Proofs.Indep
import Proofs.Modes
import Proofs.Select
import Proofs.SecondPass
import Proofs.Total
import Proofs.Restrict_Lists
import Proofs.Restrict_Rows



namespace Coma.Proofs.Restrict
open Coma Coma.Spec Coma.Proofs Coma.Proofs.Indep Coma.Proofs.Cmap

/-! ### restriction to one key through `filterMap` / `flatMap` -/

theorem filter_filterMap_key {α β} (ka : α → Int) (kb : β → Int) (G : α → Option β) (k : Int) :
    ∀ l : List α, (∀ a ∈ l, ∀ b, G a = some b → kb b = ka a) →
      (l.filterMap G).filter (fun b => decide (kb b = k)) =
        (l.filter (fun a => decide (ka a = k))).filterMap G
  | [], _ => rfl
  | a :: l, h => by
    have ih := filter_filterMap_key ka kb G k l (fun x hx => h x (List.mem_cons_of_mem _ hx))
    cases hG : G a with
    | none =>
      rw [List.filterMap_cons_none hG, ih, List.filter_cons]
      split
      · rw [List.filterMap_cons_none hG]
      · rfl
    | some b =>
      have hk := h a List.mem_cons_self b hG
      rw [List.filterMap_cons_some hG, List.filter_cons, List.filter_cons, hk]
      split
      · rw [List.filterMap_cons_some hG, ih]
      · exact ih

theorem filter_flatMap_key {α β} (ka : α → Int) (kb : β → Int) (g : α → List β) (k : Int) :
    ∀ l : List α, (∀ a ∈ l, ∀ b ∈ g a, kb b = ka a) →
      (l.flatMap g).filter (fun b => decide (kb b = k)) =
        (l.filter (fun a => decide (ka a = k))).flatMap g
  | [], _ => rfl
  | a :: l, h => by
    have ih := filter_flatMap_key ka kb g k l (fun x hx => h x (List.mem_cons_of_mem _ hx))
    have ha := h a List.mem_cons_self
    rw [List.flatMap_cons, List.filter_append, ih, List.filter_cons]
    split
    · rename_i hk
      simp only [decide_eq_true_eq] at hk
      have : (g a).filter (fun b => decide (kb b = k)) = g a :=
        List.filter_eq_self.2 (fun b hb => by simp only [decide_eq_true_eq]; rw [ha b hb]; exact hk)
      rw [this, List.flatMap_cons]
    · rename_i hk
      simp only [decide_eq_true_eq] at hk
      have : (g a).filter (fun b => decide (kb b = k)) = [] :=
        List.filter_eq_nil_iff.2 (fun b hb => by simp only [decide_eq_true_eq]; rw [ha b hb]; exact hk)
      rw [this, List.nil_append]

/-! ### molecules by id -/

theorem filter_id_length (k : Int) : ∀ (qs : List OMap), (qs.map (·.id)).Nodup →
    (qs.filter (fun m => decide (m.id = k))).length ≤ 1
  | [], _ => by simp
  | a :: qs, hn => by
    rw [List.map_cons, List.nodup_cons] at hn
    have ih := filter_id_length k qs hn.2
    rw [List.filter_cons]
    split
    · rename_i hk
      simp only [decide_eq_true_eq] at hk
      have : qs.filter (fun m => decide (m.id = k)) = [] :=
        List.filter_eq_nil_iff.2 (fun b hb => by
          simp only [decide_eq_true_eq]
          intro hbk
          exact hn.1 (List.mem_map.2 ⟨b, hb, by rw [hbk, hk]⟩))
      rw [this]; simp
    · exact ih

theorem filter_id_perm (k : Int) (qs qs' : List OMap) (hp : qs.Perm qs') (hn : (qs.map (·.id)).Nodup) :
    qs.filter (fun m => decide (m.id = k)) = qs'.filter (fun m => decide (m.id = k)) := by
  have h1 := filter_id_length k qs hn
  have hf := hp.filter (fun m => decide (m.id = k))
  match hl : qs.filter (fun m => decide (m.id = k)) with
  | [] => rw [hl] at hf; rw [← hf.nil_eq]; exact hl
  | [a] => rw [hl] at hf; rw [List.perm_singleton.1 hf.symm]; exact hl
  | a :: b :: t => rw [hl] at h1; simp at h1

theorem filter_id_singleton (qs : List OMap) (q : OMap) (hq : q ∈ qs) (hn : (qs.map (·.id)).Nodup) :
    qs.filter (fun m => decide (m.id = q.id)) = [q] := by
  have h1 := filter_id_length q.id qs hn
  have hm : q ∈ qs.filter (fun m => decide (m.id = q.id)) := List.mem_filter.2 ⟨hq, by simp⟩
  match hl : qs.filter (fun m => decide (m.id = q.id)) with
  | [] => rw [hl] at hm; cases hm
  | [a] => rw [hl] at hm; simp only [List.mem_singleton] at hm; subst hm; exact hl
  | a :: b :: t => rw [hl] at h1; simp at h1

/-! ### the first pass -/

/-- the first-pass row of one molecule, if it is kept -/
def K (cfg : Cfg) (refs : List OMap) (t : SeedTable) (it : Int) (q : OMap) : Option Row :=
  keep (toOk (perQuery cfg refs (t.lookup q.key) q it))

theorem K_qid {cfg : Cfg} {refs : List OMap} {t : SeedTable} {it : Int} {q : OMap} {r : Row}
    (h : K cfg refs t it q = some r) : r.queryId = q.id := by
  have hk := keep_some h
  cases hp : perQuery cfg refs (t.lookup q.key) q it with
  | error e => rw [hp] at hk; cases hk
  | ok o =>
    rw [hp] at hk
    simp only [Cmap.toOk_ok] at hk
    subst hk
    exact perQuery_qid hp

theorem executeSingle_iff (cfg : Cfg) (refs : List OMap) (t : SeedTable) (qs : List OMap) (it : Int)
    (rows : List Row) :
    executeSingle cfg refs t qs it = .ok rows ↔
      (∀ q ∈ qs, ∃ o, perQuery cfg refs (t.lookup q.key) q it = .ok o) ∧
      rows = qs.filterMap (K cfg refs t it) :=
  executeSingle_ok_iff cfg refs t qs it rows

theorem F_filterMap_K (cfg : Cfg) (refs : List OMap) (t : SeedTable) (it : Int) (id : Int) (qs : List OMap) :
    F id (qs.filterMap (K cfg refs t it)) =
      (qs.filter (fun m => decide (m.id = id))).filterMap (K cfg refs t it) :=
  filter_filterMap_key (fun (m : OMap) => m.id) (fun (r : Row) => r.queryId) _ id qs
    (fun _ _ _ hb => K_qid hb)

/-! ### fragments -/

/-- a property of every fragment of a successful fragment computation -/
def okAll (p : OMap → Prop) : Except Err (List OMap) → Prop
  | .ok fl => ∀ f ∈ fl, p f
  | .error _ => True

theorem unalignedFragments_okAll (row : Row) (qs : List OMap) :
    okAll (fun f => f.id = row.queryId) (unalignedFragments row qs) := by
  unfold unalignedFragments
  simp only []
  repeat' split
  all_goals simp [okAll]

/-- the fragments of a row, `[]` when their computation raises -/
def frag (qs : List OMap) (r : Row) : List OMap := toOk (unalignedFragments r qs)

theorem frag_id (qs : List OMap) (r : Row) : ∀ f ∈ frag qs r, f.id = r.queryId := by
  have := unalignedFragments_okAll r qs
  unfold frag
  cases h : unalignedFragments r qs with
  | error e => intro f hf; cases hf
  | ok fl => rw [h] at this; exact this

theorem unalignedFragments_congr (row : Row) (qs qs' : List OMap)
    (h : qs.find? (fun m => decide (m.id = row.queryId)) = qs'.find? (fun m => decide (m.id = row.queryId))) :
    unalignedFragments row qs = unalignedFragments row qs' := by
  unfold unalignedFragments
  rw [h]

/-! ### the second pass -/

def flag (r : Row) : Row := { r with alignedRest := true }

theorem secondPass_iff (cfg : Cfg) (refs : List OMap) (t : SeedTable) (qs : List OMap) (first : List Row) (it : Int)
    (second : List Row) :
    secondPass cfg refs t qs first it = .ok second ↔
      (∀ r ∈ first, ∃ fl, unalignedFragments r qs = .ok fl) ∧
      (∀ f ∈ first.flatMap (frag qs), ∃ o, perQuery cfg refs (t.lookup f.key) f it = .ok o) ∧
      second = ((first.flatMap (frag qs)).filterMap (K cfg refs t it)).map flag := by
  unfold secondPass
  simp only [bind, Except.bind, pure, Except.pure]
  cases hm : first.mapM (fun r => unalignedFragments r qs) with
  | error e =>
    constructor
    · intro h; cases h
    · rintro ⟨h1, _⟩
      have := (mapM_ok_iff (fun r => unalignedFragments r qs) first _).2 ⟨h1, rfl⟩
      rw [hm] at this; cases this
  | ok frags =>
    obtain ⟨h1, h2⟩ := (mapM_ok_iff _ first frags).1 hm
    have hfl : frags.flatten = first.flatMap (frag qs) := by
      rw [h2, List.flatMap_def]; rfl
    simp only [hfl]
    cases he : executeSingle cfg refs t (first.flatMap (frag qs)) it with
    | error e =>
      constructor
      · intro h; cases h
      · rintro ⟨_, h3, _⟩
        have := (executeSingle_iff cfg refs t _ it _).2 ⟨h3, rfl⟩
        rw [he] at this; cases this
    | ok rows =>
      obtain ⟨h3, h4⟩ := (executeSingle_iff cfg refs t _ it rows).1 he
      simp only [Except.ok.injEq]
      constructor
      · intro h; exact ⟨h1, h3, by rw [← h, h4]; rfl⟩
      · rintro ⟨_, _, h⟩; rw [h, h4]; rfl

/-- the second-pass rows of one query come from the fragments of its first-pass rows only -/
theorem secondPass_filter (cfg : Cfg) (refs : List OMap) (t : SeedTable) (qs : List OMap) (first : List Row) (it : Int)
    (second : List Row) (h : secondPass cfg refs t qs first it = .ok second) (id : Int) :
    F id second = (((F id first).flatMap (frag qs)).filterMap (K cfg refs t it)).map flag := by
  obtain ⟨_, _, rfl⟩ := (secondPass_iff cfg refs t qs first it second).1 h
  have e1 : F id (((first.flatMap (frag qs)).filterMap (K cfg refs t it)).map flag) =
      (F id ((first.flatMap (frag qs)).filterMap (K cfg refs t it))).map flag := by
    unfold F
    rw [List.filter_map]
    rfl
  rw [e1, F_filterMap_K]
  have e2 := filter_flatMap_key (fun (r : Row) => r.queryId) (fun (m : OMap) => m.id) (frag qs) id first
    (fun r _ f hf => frag_id qs r f hf)
  rw [e2]

end Coma.Proofs.Restrict

namespace Coma.Proofs
open Coma Coma.Spec Coma.Proofs.Restrict Coma.Proofs.Cmap

/-- the run on one molecule, computed from the run on all of them -/
theorem execute_restrict_eq (cfg : Cfg) (mode : Mode) (refs : List OMap) (t : SeedTable) (qs : List OMap) (it : Int)
    (q : OMap) (hq : q ∈ qs) (hn : (qs.map (·.id)).Nodup) (o : Output)
    (h : execute cfg mode refs t qs it = .ok o) :
    execute cfg mode refs t [q] it = .ok (restrictOutput o q.id) := by
  rw [execute_eq] at h ⊢
  cases he : executeSingle cfg refs t qs it with
  | error e => rw [he] at h; cases h
  | ok first =>
    rw [he] at h
    simp only at h
    obtain ⟨hpq, hfirst⟩ := (executeSingle_iff cfg refs t qs it first).1 he
    have he1 : executeSingle cfg refs t [q] it = .ok (F q.id first) := by
      rw [executeSingle_iff]
      refine ⟨fun q' hq' => ?_, ?_⟩
      · simp only [List.mem_singleton] at hq'
        subst hq'
        exact hpq q' hq
      · rw [hfirst, F_filterMap_K, filter_id_singleton qs q hq hn]
    rw [he1]
    simp only
    by_cases hm : mode = .single
    · rw [if_pos hm] at h ⊢
      simp only [Except.ok.injEq] at h
      subst h
      simp only [restrictOutput, List.map_nil, fbq_filter]
    · rw [if_neg hm] at h ⊢
      cases hs : secondPass cfg refs t qs first it with
      | error e => rw [hs] at h; cases h
      | ok second =>
        rw [hs] at h
        simp only at h
        obtain ⟨hfr, hpf, _⟩ := (secondPass_iff cfg refs t qs first it second).1 hs
        have hfind : ∀ r ∈ F q.id first, unalignedFragments r [q] = unalignedFragments r qs := by
          intro r hr
          have hrq : r.queryId = q.id := by simpa using (List.mem_filter.1 hr).2
          apply unalignedFragments_congr
          rw [hrq, SecondPass.find_of_nodup qs q hq hn]
          simp
        have hfrag : (F q.id first).flatMap (frag [q]) = (F q.id first).flatMap (frag qs) :=
          flatMap_congr' _ _ _ (fun r hr => by unfold frag; rw [hfind r hr])
        have hs1 : secondPass cfg refs t [q] (F q.id first) it = .ok (F q.id second) := by
          rw [secondPass_iff]
          refine ⟨?_, ?_, ?_⟩
          · intro r hr
            rw [hfind r hr]
            exact hfr r (List.mem_filter.1 hr).1
          · intro f hf
            rw [hfrag] at hf
            obtain ⟨r, hr, hfr'⟩ := List.mem_flatMap.1 hf
            exact hpf f (List.mem_flatMap.2 ⟨r, (List.mem_filter.1 hr).1, hfr'⟩)
          · rw [hfrag]
            exact secondPass_filter cfg refs t qs first it second hs q.id
        rw [hs1]
        exact post_restrict cfg mode first second o q.id h

/-- every file of every mode, restricted to the records of one query, is what a run on that query
    alone writes -/
theorem execute_restrict (cfg : Cfg) (mode : Mode) (refs : List OMap) (t : SeedTable) (qs : List OMap) (it : Int)
    (q : OMap) (hq : q ∈ qs) (hn : (qs.map (·.id)).Nodup) (o o1 : Output)
    (h : execute cfg mode refs t qs it = .ok o) (h1 : execute cfg mode refs t [q] it = .ok o1) :
    restrictOutput o q.id = o1 := by
  rw [execute_restrict_eq cfg mode refs t qs it q hq hn o h] at h1
  injection h1

/-- a molecule that has no seed at all (no correlation peak: longer than every reference, too few
    labels) can stand anywhere in the query list: removing it changes no file of any mode -/
theorem execute_drop_unalignable (cfg : Cfg) (mode : Mode) (refs : List OMap) (t : SeedTable) (qs1 qs2 : List OMap) (q : OMap) (it : Int)
    (hseed : t.lookup q.key = []) (hn : ((qs1 ++ q :: qs2).map (·.id)).Nodup) :
    execute cfg mode refs t (qs1 ++ q :: qs2) it = execute cfg mode refs t (qs1 ++ qs2) it := by
  have hes : executeSingle cfg refs t (qs1 ++ q :: qs2) it = executeSingle cfg refs t (qs1 ++ qs2) it := by
    rw [executeSingle_append, executeSingle_unalignable cfg refs t q qs2 it hseed, ← executeSingle_append]
  rw [execute_eq, execute_eq, hes]
  cases he : executeSingle cfg refs t (qs1 ++ qs2) it with
  | error e => rfl
  | ok first =>
    simp only
    have hids := (executeSingle_ids cfg refs t (qs1 ++ qs2) it first he).subset
    have hqid : q.id ∉ (qs1 ++ qs2).map (·.id) := by
      rw [List.map_append, List.map_cons] at hn
      have := (List.nodup_append.1 hn)
      have h2 := (List.nodup_cons.1 this.2.1).1
      rw [List.map_append, List.mem_append]
      rintro (h' | h')
      · exact this.2.2 _ h' _ List.mem_cons_self rfl
      · exact h2 h'
    have hsp : secondPass cfg refs t (qs1 ++ q :: qs2) first it = secondPass cfg refs t (qs1 ++ qs2) first it := by
      unfold secondPass
      rw [mapM_congr (fun r => unalignedFragments r (qs1 ++ q :: qs2)) (fun r => unalignedFragments r (qs1 ++ qs2)) first]
      intro r hr
      apply unalignedFragments_congr
      have hne : q.id ≠ r.queryId := by
        intro e
        exact hqid (e ▸ hids (List.mem_map_of_mem hr))
      simp [List.find?_append, hne]
    rw [hsp]

/-- (stretch) the order of the molecules in the query list is irrelevant to every file of every
    mode -/
theorem execute_perm (cfg : Cfg) (mode : Mode) (refs : List OMap) (t : SeedTable) (qs qs' : List OMap) (it : Int)
    (hp : qs.Perm qs') (hn : (qs.map (·.id)).Nodup) (o o' : Output)
    (h : execute cfg mode refs t qs it = .ok o) (h' : execute cfg mode refs t qs' it = .ok o') :
    o = o' := by
  have hn' : (qs'.map (·.id)).Nodup := ((hp.map (·.id)).nodup_iff).1 hn
  rw [execute_eq] at h h'
  cases he : executeSingle cfg refs t qs it with
  | error e => rw [he] at h; cases h
  | ok first =>
    cases he' : executeSingle cfg refs t qs' it with
    | error e => rw [he'] at h'; cases h'
    | ok first' =>
      rw [he] at h
      rw [he'] at h'
      simp only at h h'
      obtain ⟨_, hfirst⟩ := (executeSingle_iff cfg refs t qs it first).1 he
      obtain ⟨_, hfirst'⟩ := (executeSingle_iff cfg refs t qs' it first').1 he'
      have hF1 : ∀ id, F id first = F id first' := by
        intro id
        rw [hfirst, hfirst', F_filterMap_K, F_filterMap_K, filter_id_perm id qs qs' hp hn]
      by_cases hm : mode = .single
      · rw [if_pos hm] at h h'
        simp only [Except.ok.injEq] at h h'
        rw [← h, ← h', fbq_ext first first' hF1]
      · rw [if_neg hm] at h h'
        cases hs : secondPass cfg refs t qs first it with
        | error e => rw [hs] at h; cases h
        | ok second =>
          cases hs' : secondPass cfg refs t qs' first' it with
          | error e => rw [hs'] at h'; cases h'
          | ok second' =>
            rw [hs] at h
            rw [hs'] at h'
            simp only at h h'
            have hfrag : frag qs = frag qs' := by
              funext r
              unfold frag
              rw [unalignedFragments_congr r qs qs'
                (find_perm _ qs qs' hp (filter_id_length r.queryId qs hn))]
            have hF2 : ∀ id, F id second = F id second' := by
              intro id
              rw [secondPass_filter cfg refs t qs first it second hs id,
                secondPass_filter cfg refs t qs' first' it second' hs' id, hF1 id, hfrag]
            rw [post_congr cfg mode first second first' second' hF1 hF2] at h
            rw [h] at h'
            injection h'

end Coma.Proofs
