/-
  Proofs/TranslateSec.lean — the SECONDARY seeding stage moves with the reference.

  `refine` vectorises the reference in a window that starts at `peak − margin`; bins are counted from that start, so
  moving the reference and the primary peak by `d` leaves the two bit vectors, their correlation and the peaks found in it
  unchanged, and every reported peak position (bin → bp, offset by the window start) moves by `d`.

  ONE EXCEPTION, found while proving: `vectorisePositions` reads a window end of exactly 0 as "no end given"
  (`end or positions[-1]`, vectorise.py) and then uses the last label instead.  A window end that is 0 before or after
  the translation therefore means something else on the two sides; the three unconditional statements are FALSE
  (`sequenceOf_shift_false`, `refineCorrelation_shift_false`, `refine_shift_false`) and hold as soon as the window end is
  non-zero on both sides (`sequenceOf_shift_of`, `refineCorrelation_shift_of`, `refine_shift_of`, `refine_shift_pos`).
-/
import Proofs.Translate
namespace Coma.Proofs
open Coma Coma.Spec

/-! ### the window loop -/

theorem vecWhile_shift (res stop pos d : Int) : ∀ (f : Nat) (ws : Int) (z : Nat),
    vecWhile res (stop + d) (pos + d) f (ws + d) z
      = ((vecWhile res stop pos f ws z).1, (vecWhile res stop pos f ws z).2.1 + d, (vecWhile res stop pos f ws z).2.2) := by
  intro f
  induction f with
  | zero => intro ws z; rfl
  | succ f ih =>
    intro ws z
    unfold vecWhile
    by_cases h1 : pos ≥ ws + res
    · have h1' : pos + d ≥ ws + d + res := by omega
      rw [if_pos h1, if_pos h1']
      by_cases h2 : ws + res > stop
      · have h2' : ws + d + res > stop + d := by omega
        simp only [h2, h2', if_true]
        congr 2; omega
      · have h2' : ¬ ws + d + res > stop + d := by omega
        simp only [h2, h2', if_false]
        have e : ws + d + res = ws + res + d := by omega
        rw [e]
        exact ih (ws + res) (z + 1)
    · have h1' : ¬ pos + d ≥ ws + d + res := by omega
      rw [if_neg h1, if_neg h1']

theorem vecGo_shift (res stop d : Int) : ∀ (ps : List Int) (ws : Int),
    vecGo res (stop + d) (ws + d) (ps.map (· + d)) = vecGo res stop ws ps := by
  intro ps
  induction ps with
  | nil => intro ws; rfl
  | cons p ps ih =>
    intro ws
    rw [List.map_cons]
    unfold vecGo
    by_cases hp : p < ws
    · have hp' : p + d < ws + d := by omega
      rw [if_pos hp, if_pos hp']
      exact ih ws
    · have hp' : ¬ p + d < ws + d := by omega
      rw [if_neg hp, if_neg hp']
      have e : p + d - (ws + d) = p - ws := by omega
      simp only [e]
      rw [vecWhile_shift]
      simp only []
      have e2 : (vecWhile res stop p (((p - ws) / res).toNat + 1) ws 0).2.1 + d + res
          = (vecWhile res stop p (((p - ws) / res).toNat + 1) ws 0).2.1 + res + d := by omega
      rw [e2, ih]

/-- with a non-zero window end on both sides, the window vector of the translated label list is the same vector
    (the same error when `res < 1`) -/
theorem vectorise_shift (positions : List Int) (res start stop d : Int) (h0 : stop ≠ 0) (hd : stop + d ≠ 0) :
    vectorise (positions.map (· + d)) res (start + d) (some (stop + d)) = vectorise positions res start (some stop) := by
  unfold vectorise
  by_cases hr : res < 1
  · simp only [hr, if_true]
  · simp only [hr, if_false, ne_eq, h0, hd, not_false_eq_true, if_true]
    rw [vecGo_shift]

/-! ### the unconditional statements are false -/

/-- window end 0 on the untranslated side: "no end given" and no label ⇒ IndexError; translated by 1 the end is 1 and
    the (empty) vector is returned -/
theorem sequenceOf_shift_false :
    ¬ ∀ (res blurR : Int) (positions : List Int) (start : Int) (stop : Int) (d : Int),
      sequenceOf res blurR (positions.map (· + d)) (start + d) (some (stop + d)) = sequenceOf res blurR positions start (some stop) := by
  intro h
  have := congrArg Except.isOk (h 1 0 [] 0 0 1)
  revert this
  decide

/-- number of samples of a correlation (a decidable observation) -/
def secLen {α} (e : Except Err (List α)) : Nat :=
  match e with
  | .ok l => l.length
  | .error _ => 0

/-- all coordinates non-negative: resolution 1, no blur, no margin, a query of recorded length 0 with labels 0,1 and
    the primary peak at 0, so the window is `[0, 0]` and its end is read as "up to the last label" (7): 7 correlation
    samples, one secondary peak at 4.  One bp further down the window is `[1, 1]`: 2 samples, no peak. -/
theorem refineCorrelation_shift_false :
    ¬ ∀ (c : SecCfg) (ref q : OMap) (rev : Bool) (peak d : Int),
      refineCorrelation c (shiftRef d ref) q rev (peak + d) = refineCorrelation c ref q rev peak := by
  intro h
  have := congrArg secLen
    (h { res := 1, blur := 0, margin := 0, thr := 1, keep := 10 } ⟨1, 10, [1, 4, 5, 7], 0⟩ ⟨2, 0, [0, 1], 0⟩ false 0 1)
  revert this
  decide

theorem refine_shift_false :
    ¬ ∀ (c : SecCfg) (ref q : OMap) (rev : Bool) (peak d : Int),
      refine c (shiftRef d ref) q rev (peak + d) = (refine c ref q rev peak).map (List.map fun p => (p.1 + d, p.2)) := by
  intro h
  have := congrArg secLen
    (h { res := 1, blur := 0, margin := 0, thr := 1, keep := 10 } ⟨1, 10, [1, 4, 5, 7], 0⟩ ⟨2, 0, [0, 1], 0⟩ false 0 1)
  revert this
  decide +kernel

/-! ### corrected statements: the window end is non-zero before and after the translation -/

/-- the window vector of the translated reference, window translated with it, is the same vector -/
theorem sequenceOf_shift_of (res blurR : Int) (positions : List Int) (start : Int) (stop : Int) (d : Int)
    (h0 : stop ≠ 0) (hd : stop + d ≠ 0) :
    sequenceOf res blurR (positions.map (· + d)) (start + d) (some (stop + d)) = sequenceOf res blurR positions start (some stop) := by
  unfold sequenceOf
  rw [vectorise_shift positions res start stop d h0 hd]

/-- the secondary correlation does not change -/
theorem refineCorrelation_shift_of (c : SecCfg) (ref q : OMap) (rev : Bool) (peak d : Int)
    (h0 : peak + q.length + c.margin ≠ 0) (hd : peak + d + q.length + c.margin ≠ 0) :
    refineCorrelation c (shiftRef d ref) q rev (peak + d) = refineCorrelation c ref q rev peak := by
  unfold refineCorrelation
  have e1 : peak + d - c.margin = peak - c.margin + d := by omega
  have e2 : peak + d + q.length + c.margin = peak + q.length + c.margin + d := by omega
  have e3 : (shiftRef d ref).positions = ref.positions.map (· + d) := rfl
  rw [e1, e2, e3, sequenceOf_shift_of _ _ _ _ _ _ h0 (by omega)]

/-- bin → bp conversion relative to a window start that moved by `d` -/
theorem createPeaks_shift (count res start d : Int) (pk : List (Int × Int)) :
    createPeaks count res (start + d) pk = (createPeaks count res start pk).map (fun p => (p.1 + d, p.2)) := by
  unfold createPeaks
  simp only [List.map_map]
  apply List.map_congr_left
  intro p _
  simp only [Function.comp, toBp, Prod.mk.injEq, and_true]
  omega

/-- the secondary peaks move with the reference, heights unchanged -/
theorem refine_shift_of (c : SecCfg) (ref q : OMap) (rev : Bool) (peak d : Int)
    (h0 : peak + q.length + c.margin ≠ 0) (hd : peak + d + q.length + c.margin ≠ 0) :
    refine c (shiftRef d ref) q rev (peak + d) = (refine c ref q rev peak).map (List.map fun p => (p.1 + d, p.2)) := by
  unfold refine
  rw [refineCorrelation_shift_of c ref q rev peak d h0 hd]
  have e1 : peak + d - c.margin = peak - c.margin + d := by omega
  rw [e1]
  cases refineCorrelation c ref q rev peak with
  | error e => rfl
  | ok corr =>
    simp only [bind, Except.bind, pure, Except.pure, Except.map]
    rw [createPeaks_shift]

/-- … in particular for a window that ends at a positive coordinate before and after (any real run: the primary
    peak is ≥ 0 on the forward side of the reference, the query has positive length, margin ≥ 0, reference
    coordinates stay non-negative) -/
theorem refine_shift_pos (c : SecCfg) (ref q : OMap) (rev : Bool) (peak d : Int)
    (h0 : 0 < peak + q.length + c.margin) (hd : 0 < peak + d + q.length + c.margin) :
    refine c (shiftRef d ref) q rev (peak + d) = (refine c ref q rev peak).map (List.map fun p => (p.1 + d, p.2)) :=
  refine_shift_of c ref q rev peak d (by omega) (by omega)

end Coma.Proofs
