import Props.Defs
namespace Coma.Proofs
open Coma Coma.Spec

theorem bestRow_spec (rows : List Row) :
    (bestRow rows = none ↔ rows = []) ∧
    ∀ r, bestRow rows = some r →
      ∃ l1 l2, rows = l1 ++ r :: l2 ∧ (∀ x ∈ l1, x.confidence < r.confidence) ∧ (∀ x ∈ l2, x.confidence ≤ r.confidence) := by
  sorry

theorem filter_spec (rows : List Row) :
    StrictAscending ((filterBestPerQuery rows).map (·.queryId)) ∧
    (∀ r ∈ filterBestPerQuery rows, r ∈ rows) ∧
    (∀ x ∈ rows, ∃ r ∈ filterBestPerQuery rows, r.queryId = x.queryId ∧ x.confidence ≤ r.confidence) ∧
    filterBestPerQuery (filterBestPerQuery rows) = filterBestPerQuery rows := by
  sorry

theorem execute_files_unique (cfg : Cfg) (mode : Mode) (refs : List OMap) (t : SeedTable) (qs : List OMap) (it : Int)
    (out : Output) (h : execute cfg mode refs t qs it = .ok out) :
    StrictAscending (out.main.map (·.queryId)) ∧
    ((mode = .separate ∨ mode = .all) → ∀ f ∈ out.extra, StrictAscending (f.2.map (·.queryId))) := by
  sorry

theorem execute_best_ids (cfg : Cfg) (refs : List OMap) (t : SeedTable) (qs : List OMap) (it : Int)
    (first second : List Row) (out : Output)
    (h1 : executeSingle cfg refs t qs it = .ok first) (h2 : secondPass cfg refs t qs first it = .ok second)
    (h : execute cfg .best refs t qs it = .ok out) :
    ∀ q, q ∈ out.main.map (·.queryId) ↔ q ∈ (first ++ second).map (·.queryId) := by
  sorry

theorem executeSingle_pairs (cfg : Cfg) (refs : List OMap) (t : SeedTable) (qs : List OMap) (it : Int)
    (rows : List Row) (h : executeSingle cfg refs t qs it = .ok rows) : ∀ r ∈ rows, r.pairs ≠ [] := by
  sorry

end Coma.Proofs
