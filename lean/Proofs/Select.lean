/-
  Proofs/Select.lean — proofs for C05 (best candidate per query, filterBestPerQuery, execute modes).
  Helper lemmas live in `Coma.Proofs.Select`; the five theorems used by Props/C05.lean in `Coma.Proofs`.
-/
import Props.Defs
import Proofs.SortLemmas
import Proofs.PairingOrder
namespace Coma.Proofs.Select
open Coma Coma.Spec

/-- head of a stable sort = first minimal-key element of the input -/
theorem isort_head_split {α} (key : α → Int) (l : List α) (m : α) (rest : List α)
    (h : isort key l = m :: rest) :
    ∃ l1 l2, l = l1 ++ m :: l2 ∧ (∀ x ∈ l1, key m < key x) ∧ (∀ x ∈ l2, key m ≤ key x) := by
  induction l generalizing m rest with
  | nil => simp [isort] at h
  | cons x xs ih =>
    simp only [isort] at h
    cases hs : isort key xs with
    | nil =>
      have hl := isort_length key xs
      rw [hs] at hl
      have hx : xs = [] := List.eq_nil_of_length_eq_zero hl.symm
      subst hx
      rw [hs] at h
      simp only [insertByKey, List.cons.injEq] at h
      obtain ⟨rfl, _⟩ := h
      exact ⟨[], [], rfl, by simp, by simp⟩
    | cons hd tl =>
      obtain ⟨a1, a2, hxs, h1, h2⟩ := ih hd tl hs
      rw [hs] at h
      simp only [insertByKey] at h
      split at h
      · rename_i hle
        simp only [List.cons.injEq] at h
        obtain ⟨rfl, _⟩ := h
        refine ⟨[], xs, rfl, by simp, ?_⟩
        intro y hy
        rw [hxs] at hy
        rcases List.mem_append.1 hy with hy | hy
        · have := h1 y hy; omega
        · rcases List.mem_cons.1 hy with rfl | hy
          · exact hle
          · have := h2 y hy; omega
      · rename_i hle
        simp only [List.cons.injEq] at h
        obtain ⟨rfl, _⟩ := h
        refine ⟨x :: a1, a2, by rw [hxs]; rfl, ?_, h2⟩
        intro y hy
        rcases List.mem_cons.1 hy with rfl | hy
        · omega
        · exact h1 y hy

abbrev qid : Row → Int := fun r => r.queryId
abbrev nconf : Row → Int := fun r => - r.confidence

theorem fbq_eq (rows : List Row) :
    filterBestPerQuery rows = (groupAdj qid (isort qid (isort nconf rows))).filterMap List.head? := rfl

/-- heads of groups with strictly increasing keys have strictly increasing keys -/
theorem heads_strict {α} (key : α → Int) (G : List (List α))
    (h : G.Pairwise (fun g g' => ∀ a ∈ g, ∀ b ∈ g', key a < key b)) :
    ((G.filterMap List.head?).map key).Pairwise (· < ·) := by
  rw [List.pairwise_map]
  refine List.Pairwise.filterMap _ ?_ h
  intro g g' hgg b hb b' hb'
  exact hgg b (List.mem_of_mem_head? hb) b' (List.mem_of_mem_head? hb')

theorem fbq_strict (rows : List Row) :
    StrictAscending ((filterBestPerQuery rows).map (·.queryId)) := by
  rw [fbq_eq]
  exact heads_strict qid _ (groupAdj_sorted qid _ (isort_sorted qid _))

theorem fbq_mem (rows : List Row) : ∀ r ∈ filterBestPerQuery rows, r ∈ rows := by
  intro r hr
  rw [fbq_eq, List.mem_filterMap] at hr
  obtain ⟨g, hg, hh⟩ := hr
  have := mem_of_mem_groupAdj qid _ g r hg (List.mem_of_mem_head? hh)
  rw [mem_isort, mem_isort] at this
  exact this

theorem fbq_best (rows : List Row) :
    ∀ x ∈ rows, ∃ r ∈ filterBestPerQuery rows, r.queryId = x.queryId ∧ x.confidence ≤ r.confidence := by
  intro x hx
  have hxT : x ∈ isort nconf rows := (mem_isort _ _ _).2 hx
  have hxS : x ∈ isort qid (isort nconf rows) := (mem_isort _ _ _).2 hxT
  have hg := (PO.mem_groupAdj_sorted qid (PO.isort_sorted qid (isort nconf rows))
      ((isort qid (isort nconf rows)).filter (fun y => decide (qid y = qid x)))).2 ⟨x, hxS, rfl⟩
  rw [PO.filter_isort] at hg
  have hxg : x ∈ (isort nconf rows).filter (fun y => decide (qid y = qid x)) := by
    rw [List.mem_filter]; exact ⟨hxT, by simp⟩
  have hpw : ((isort nconf rows).filter (fun y => decide (qid y = qid x))).Pairwise
      (fun a b => nconf a ≤ nconf b) :=
    (PO.isort_sorted nconf rows).sublist List.filter_sublist
  cases hgl : (isort nconf rows).filter (fun y => decide (qid y = qid x)) with
  | nil => rw [hgl] at hxg; cases hxg
  | cons hd tl =>
    rw [hgl] at hg hxg hpw
    have hhd : hd ∈ (isort nconf rows).filter (fun y => decide (qid y = qid x)) := by
      rw [hgl]; exact List.mem_cons_self
    rw [List.mem_filter] at hhd
    refine ⟨hd, ?_, by simpa using hhd.2, ?_⟩
    · rw [fbq_eq, List.mem_filterMap]
      exact ⟨_, hg, rfl⟩
    · rcases List.mem_cons.1 hxg with rfl | hxt
      · exact Int.le_refl _
      · have := (List.pairwise_cons.1 hpw).1 x hxt
        simp only [nconf] at this
        omega

/-- two permutations of each other, one strictly key-sorted, the other key-sorted, are equal -/
theorem eq_of_perm_sorted {α} (key : α → Int) : ∀ (R P : List α), P.Perm R →
    R.Pairwise (fun a b => key a < key b) → P.Pairwise (fun a b => key a ≤ key b) → P = R
  | [], P, hp, _, _ => hp.eq_nil
  | a :: R', [], hp, _, _ => by have := hp.length_eq; simp at this
  | a :: R', b :: P', hp, hR, hP => by
    have hb : b ∈ a :: R' := hp.mem_iff.1 List.mem_cons_self
    have ha : a ∈ b :: P' := hp.mem_iff.2 List.mem_cons_self
    rw [List.pairwise_cons] at hR hP
    have hab : b = a := by
      rcases List.mem_cons.1 hb with h | h
      · exact h
      · rcases List.mem_cons.1 ha with h' | h'
        · exact h'.symm
        · have := hR.1 b h; have := hP.1 a h'; omega
    subst hab
    rw [eq_of_perm_sorted key R' P' (List.Perm.cons_inv hp) hR.2 hP.2]

theorem groupAdj_strict {α} (key : α → Int) (R : List α)
    (h : R.Pairwise (fun a b => key a < key b)) : groupAdj key R = R.map (fun x => [x]) := by
  induction R with
  | nil => rfl
  | cons x xs ih =>
    rw [List.pairwise_cons] at h
    rw [groupAdj_cons, ih h.2]
    cases xs with
    | nil => rfl
    | cons y ys =>
      have := h.1 y List.mem_cons_self
      have hne : key x ≠ key y := by omega
      simp [hne]

theorem heads_singletons {α} (l : List α) : l.filterMap (List.head? ∘ fun x => [x]) = l := by
  induction l with
  | nil => rfl
  | cons a as ih => simp [ih]

theorem fbq_fixed (R : List Row) (h : StrictAscending (R.map (·.queryId))) :
    filterBestPerQuery R = R := by
  have hR : R.Pairwise (fun a b => qid a < qid b) := by
    unfold StrictAscending at h; rw [List.pairwise_map] at h; exact h
  have hperm : (isort qid (isort nconf R)).Perm R := (isort_perm _ _).trans (isort_perm _ _)
  have heq := eq_of_perm_sorted qid R _ hperm hR (PO.isort_sorted qid _)
  rw [fbq_eq, heq, groupAdj_strict qid R hR, List.filterMap_map]
  exact heads_singletons R
                    

theorem joinRows_qid (P : Params) (a b r : Row) (h : joinRows P a b = .ok (some r)) :
    r.queryId = a.queryId := by
  unfold joinRows at h
  split at h
  · simp only [bind, Except.bind, pure, Except.pure] at h
    split at h <;>
    · split at h
      · cases h
      · injection h with h
        split at h
        · injection h with h; subst h; rfl
        · cases h
  · cases h

theorem resolveGroups_joined (P : Params) (md : Int) (gs : List (List Row)) (j s : List Row)
    (h : resolveGroups P md gs = .ok (j, s)) :
    ∀ r ∈ j, ∃ g ∈ gs, ∃ x ∈ g, r.queryId = x.queryId := by
  induction gs generalizing j s with
  | nil => 
    simp only [resolveGroups] at h
    injection h with h
    injection h with h1 h2
    subst h1; intro r hr; cases hr
  | cons g gs ih =>
    simp only [resolveGroups, bind, Except.bind, pure, Except.pure] at h
    cases hrg : resolveGroups P md gs with
    | error e => rw [hrg] at h; cases h
    | ok v =>
      obtain ⟨j', s'⟩ := v
      rw [hrg] at h
      simp only at h
      have ih' := ih j' s' hrg
      have lift : ∀ r ∈ j', ∃ g' ∈ g :: gs, ∃ x ∈ g', r.queryId = x.queryId := by
        intro r hr
        obtain ⟨g', hg', x, hx, hq⟩ := ih' r hr
        exact ⟨g', List.mem_cons_of_mem _ hg', x, hx, hq⟩
      split at h
      · injection h with h; injection h with h1 h2; subst h1; exact lift
      · injection h with h; injection h with h1 h2; subst h1; exact lift
      · split at h
        · split at h
          · cases h
          · split at h
            · rename_i x y rest _ _ _ r0 hjr
              injection h with h; injection h with h1 h2; subst h1
              intro r hr
              rcases List.mem_cons.1 hr with rfl | hr
              · exact ⟨_, List.mem_cons_self, x, List.mem_cons_self, joinRows_qid P x y r hjr⟩
              · exact lift r hr
            · injection h with h; injection h with h1 h2; subst h1; exact lift
        · injection h with h; injection h with h1 h2; subst h1; exact lift

theorem resolveRows_joined (P : Params) (md : Int) (rows : List Row) (js : List Row × List Row)
    (h : resolveRows P md rows = .ok js) :
    ∀ r ∈ js.1, ∃ x ∈ rows, r.queryId = x.queryId := by
  obtain ⟨j, s⟩ := js
  unfold resolveRows at h
  intro r hr
  obtain ⟨g, hg, x, hx, hq⟩ := resolveGroups_joined P md _ j s h r hr
  refine ⟨x, ?_, hq⟩
  rw [List.mem_flatMap] at hg
  obtain ⟨g0, hg0, hg⟩ := hg
  have h1 := mem_of_mem_groupAdj _ _ g x hg hx
  rw [mem_isort] at h1
  have h2 := mem_of_mem_groupAdj _ _ g0 x hg0 h1
  rw [mem_isort] at h2
  exact h2


/-- the ids of the filtered list are exactly the ids of the input -/
theorem fbq_ids (L : List Row) (q : Int) :
    q ∈ (filterBestPerQuery L).map (·.queryId) ↔ q ∈ L.map (·.queryId) := by
  simp only [List.mem_map]
  constructor
  · rintro ⟨r, hr, rfl⟩
    exact ⟨r, fbq_mem L r hr, rfl⟩
  · rintro ⟨x, hx, rfl⟩
    obtain ⟨r, hr, hq, _⟩ := fbq_best L x hx
    exact ⟨r, hr, hq⟩

/-- `execute` in mode `best`, unfolded -/
theorem execute_best_eq (cfg : Cfg) (refs : List OMap) (t : SeedTable) (qs : List OMap) (it : Int)
    (first second : List Row)
    (h1 : executeSingle cfg refs t qs it = .ok first) (h2 : secondPass cfg refs t qs first it = .ok second) :
    execute cfg .best refs t qs it =
      match resolveRows cfg.P cfg.maxDifference
          (filterBestPerQuery (first ++ second) ++ filterBestPerQuery second) with
      | .error e => .error e
      | .ok js => .ok { main := filterBestPerQuery (isort (fun r => r.queryId)
            (js.1 ++ (filterBestPerQuery (first ++ second)).filter
              (fun r => !(js.1.map (·.queryId)).contains r.queryId))) } := by
  unfold execute
  simp only [bind, Except.bind, pure, Except.pure, h1, h2, reduceCtorEq, if_false, if_true]
  cases resolveRows cfg.P cfg.maxDifference
          (filterBestPerQuery (first ++ second) ++ filterBestPerQuery second) <;> rfl

end Coma.Proofs.Select

namespace Coma.Proofs
open Coma Coma.Spec Coma.Proofs.Select

theorem bestRow_spec (rows : List Row) :
    (bestRow rows = none ↔ rows = []) ∧
    ∀ r, bestRow rows = some r →
      ∃ l1 l2, rows = l1 ++ r :: l2 ∧ (∀ x ∈ l1, x.confidence < r.confidence) ∧ (∀ x ∈ l2, x.confidence ≤ r.confidence) := by
  have hdef : bestRow rows = (isort nconf rows).head? := rfl
  constructor
  · rw [hdef, List.head?_eq_none_iff]
    constructor
    · intro h
      have := isort_length nconf rows
      rw [h] at this
      exact List.eq_nil_of_length_eq_zero this.symm
    · rintro rfl; rfl
  · intro r hr
    rw [hdef] at hr
    cases hs : isort nconf rows with
    | nil => rw [hs] at hr; cases hr
    | cons m rest =>
      rw [hs] at hr
      simp only [List.head?_cons, Option.some.injEq] at hr
      subst hr
      obtain ⟨l1, l2, h0, h1, h2⟩ := isort_head_split nconf rows m rest hs
      refine ⟨l1, l2, h0, ?_, ?_⟩
      · intro x hx; have := h1 x hx; simp only [nconf] at this; omega
      · intro x hx; have := h2 x hx; simp only [nconf] at this; omega

theorem filter_spec (rows : List Row) :
    StrictAscending ((filterBestPerQuery rows).map (·.queryId)) ∧
    (∀ r ∈ filterBestPerQuery rows, r ∈ rows) ∧
    (∀ x ∈ rows, ∃ r ∈ filterBestPerQuery rows, r.queryId = x.queryId ∧ x.confidence ≤ r.confidence) ∧
    filterBestPerQuery (filterBestPerQuery rows) = filterBestPerQuery rows :=
  ⟨fbq_strict rows, fbq_mem rows, fbq_best rows, fbq_fixed _ (fbq_strict rows)⟩

theorem executeSingle_pairs (cfg : Cfg) (refs : List OMap) (t : SeedTable) (qs : List OMap) (it : Int)
    (rows : List Row) (h : executeSingle cfg refs t qs it = .ok rows) : ∀ r ∈ rows, r.pairs ≠ [] := by
  unfold executeSingle at h
  simp only [bind, Except.bind, pure, Except.pure] at h
  split at h
  · cases h
  · injection h with h
    subst h
    intro r hr
    rw [List.mem_filterMap] at hr
    obtain ⟨a, _, ha⟩ := hr
    split at ha
    · split at ha
      · cases ha
      · rename_i hne
        injection ha with ha
        subst ha
        intro hp
        exact hne (by rw [hp]; rfl)
    · cases ha

theorem execute_files_unique (cfg : Cfg) (mode : Mode) (refs : List OMap) (t : SeedTable) (qs : List OMap) (it : Int)
    (out : Output) (h : execute cfg mode refs t qs it = .ok out) :
    StrictAscending (out.main.map (·.queryId)) ∧
    ((mode = .separate ∨ mode = .all) → ∀ f ∈ out.extra, StrictAscending (f.2.map (·.queryId))) := by
  unfold execute at h
  simp only [bind, Except.bind, pure, Except.pure] at h
  split at h
  · cases h
  · split at h
    · injection h with h; subst h
      rename_i hm
      refine ⟨fbq_strict _, ?_⟩
      intro hm'; rw [hm] at hm'; rcases hm' with h | h <;> cases h
    · split at h
      · cases h
      · split at h
        · injection h with h; subst h
          refine ⟨fbq_strict _, ?_⟩
          intro _ f hf
          simp only [List.mem_singleton] at hf
          subst hf
          exact fbq_strict _
        · split at h
          · cases h
          · split at h
            · injection h with h; subst h
              exact ⟨fbq_strict _, fun hm => by rcases hm with h | h <;> cases h⟩
            · injection h with h; subst h
              exact ⟨fbq_strict _, fun hm => by rcases hm with h | h <;> cases h⟩
            · injection h with h; subst h
              refine ⟨fbq_strict _, ?_⟩
              intro _ f hf
              simp only [List.mem_cons, List.not_mem_nil, or_false] at hf
              rcases hf with rfl | rfl <;> exact fbq_strict _

theorem execute_best_ids (cfg : Cfg) (refs : List OMap) (t : SeedTable) (qs : List OMap) (it : Int)
    (first second : List Row) (out : Output)
    (h1 : executeSingle cfg refs t qs it = .ok first) (h2 : secondPass cfg refs t qs first it = .ok second)
    (h : execute cfg .best refs t qs it = .ok out) :
    ∀ q, q ∈ out.main.map (·.queryId) ↔ q ∈ (first ++ second).map (·.queryId) := by
  rw [execute_best_eq cfg refs t qs it first second h1 h2] at h
  split at h
  · cases h
  · rename_i js hres
    injection h with h
    subst h
    have hj := resolveRows_joined _ _ _ js hres
    intro q
    show q ∈ (filterBestPerQuery _).map (·.queryId) ↔ _
    rw [fbq_ids]
    simp only [List.mem_map, mem_isort, List.mem_append, List.mem_filter]
    constructor
    · rintro ⟨r, hr, rfl⟩
      rcases hr with hr | ⟨hr, _⟩
      · obtain ⟨x, hx, hq⟩ := hj r hr
        rcases List.mem_append.1 hx with hx | hx
        · exact ⟨x, List.mem_append.1 (fbq_mem _ x hx), hq.symm⟩
        · exact ⟨x, Or.inr (fbq_mem _ x hx), hq.symm⟩
      · exact ⟨r, List.mem_append.1 (fbq_mem _ r hr), rfl⟩
    · rintro ⟨x, hx, rfl⟩
      obtain ⟨r, hr, hq, _⟩ := fbq_best (first ++ second) x (List.mem_append.2 hx)
      by_cases hc : (js.1.map (·.queryId)).contains r.queryId = true
      · rw [List.contains_iff_mem, List.mem_map] at hc
        obtain ⟨r', hr', hq'⟩ := hc
        exact ⟨r', Or.inl hr', hq'.trans hq⟩
      · exact ⟨r, Or.inr ⟨hr, by simpa using hc⟩, hq⟩

end Coma.Proofs
