import Proofs.Cigar
/-
  Proofs/CigarCounts.lean — operation counts of the HitEnum walk (C03_counts).
-/
namespace Coma.Proofs.Cigar
open Coma Coma.Spec

theorem count_rep_II (n : Nat) : (List.replicate n Hit.I).count Hit.I = n := List.count_replicate_self ..
theorem count_rep_DD (n : Nat) : (List.replicate n Hit.D).count Hit.D = n := List.count_replicate_self ..
theorem count_rep_IM (n : Nat) : (List.replicate n Hit.I).count Hit.M = 0 := by
  rw [List.count_replicate]; rfl
theorem count_rep_ID (n : Nat) : (List.replicate n Hit.I).count Hit.D = 0 := by
  rw [List.count_replicate]; rfl
theorem count_rep_DM (n : Nat) : (List.replicate n Hit.D).count Hit.M = 0 := by
  rw [List.count_replicate]; rfl
theorem count_rep_DI (n : Nat) : (List.replicate n Hit.D).count Hit.I = 0 := by
  rw [List.count_replicate]; rfl

theorem walkOut_counts (rev : Bool) (ps : List Pr) : ∀ (c : Pr),
    ValidMatching rev (sitePairs (c :: ps)) →
    (walkOut (c.r.site + 1) c.q.site ps).count Hit.M = ps.length ∧
    (((walkOut (c.r.site + 1) c.q.site ps).count Hit.M +
      (walkOut (c.r.site + 1) c.q.site ps).count Hit.D : Nat) : Int) =
        ((c :: ps).getLast (by simp)).r.site - c.r.site ∧
    (((walkOut (c.r.site + 1) c.q.site ps).count Hit.M +
      (walkOut (c.r.site + 1) c.q.site ps).count Hit.I : Nat) : Int) =
        (if rev then c.q.site - ((c :: ps).getLast (by simp)).q.site
         else ((c :: ps).getLast (by simp)).q.site - c.q.site) := by
  induction ps with
  | nil => intro c _; cases rev <;> simp [walkOut]
  | cons n ns ih =>
    intro c hv
    have hp := List.pairwise_cons.1 (valid_pairwise hv)
    have hvt : ValidMatching rev (sitePairs (n :: ns)) := by
      unfold ValidMatching sitePairs at hv ⊢
      exact (List.pairwise_cons.1 hv).2
    have h := hp.1 n (by simp)
    obtain ⟨i1, i2, i3⟩ := ih n hvt
    have h1 := h.1
    have h2 := h.2
    rw [walkOut]
    simp only [List.count_append, List.count_cons, count_rep_II, count_rep_DD, count_rep_IM,
      count_rep_ID, count_rep_DM, count_rep_DI, List.getLast_cons_cons, List.length_cons]
    generalize (walkOut (n.r.site + 1) n.q.site ns).count Hit.M = a at *
    generalize (walkOut (n.r.site + 1) n.q.site ns).count Hit.D = b at *
    generalize (walkOut (n.r.site + 1) n.q.site ns).count Hit.I = d at *
    generalize ((n :: ns).getLast (by simp)) = l at *
    cases rev <;> simp at h2 i3 ⊢ <;> omega

end Coma.Proofs.Cigar

namespace Coma.Proofs
open Coma Coma.Spec Coma.Proofs.Cigar

theorem cigar_counts (rev : Bool) (p : Pr) (ps : List Pr) (hv : ValidMatching rev (sitePairs (p :: ps)))
    (hs : List Hit) (h : hitEnums (p :: ps) = .ok hs) :
    hs.count Hit.M = (p :: ps).length ∧
    ((hs.count Hit.M + hs.count Hit.D : Nat) : Int) = ((p :: ps).getLast (by simp)).r.site - p.r.site + 1 ∧
    ((hs.count Hit.M + hs.count Hit.I : Nat) : Int) = (((p :: ps).getLast (by simp)).q.site - p.q.site).natAbs + 1 := by
  have e := hitEnums_eq rev p ps hv
  rw [h] at e
  injection e with e
  subst e
  obtain ⟨i1, i2, i3⟩ := walkOut_counts rev ps p hv
  simp only [List.count_cons, List.length_cons]
  generalize (walkOut (p.r.site + 1) p.q.site ps).count Hit.M = a at *
  generalize (walkOut (p.r.site + 1) p.q.site ps).count Hit.D = b at *
  generalize (walkOut (p.r.site + 1) p.q.site ps).count Hit.I = d at *
  generalize ((p :: ps).getLast (by simp)) = l at *
  cases rev <;> simp at i3 ⊢ <;> omega

/-- total of the run counts carrying operation `x` -/
def runTotal (x : Hit) (rs : List (Nat × Hit)) : Nat := ((rs.filter (fun r => r.2 = x)).map (·.1)).sum

theorem count_expandRuns (x : Hit) (rs : List (Nat × Hit)) : (expandRuns rs).count x = runTotal x rs := by
  induction rs with
  | nil => simp [expandRuns, runTotal]
  | cons r rest ih =>
    obtain ⟨n, h⟩ := r
    unfold runTotal at ih ⊢
    rw [expandRuns, List.count_append, List.count_replicate, ih]
    by_cases e : h = x
    · subst e; simp
    · have e' : ¬ (h == x) = true := by simpa using e
      simp [e, e']

theorem cigar_run_totals (rev : Bool) (p : Pr) (ps : List Pr) (hv : ValidMatching rev (sitePairs (p :: ps)))
    (hs : List Hit) (rs : List (Nat × Hit)) (h : hitEnums (p :: ps) = .ok hs) (ha : aggregate hs = .ok rs) :
    runTotal Hit.M rs = (p :: ps).length ∧
    ((runTotal Hit.M rs + runTotal Hit.D rs : Nat) : Int) = ((p :: ps).getLast (by simp)).r.site - p.r.site + 1 ∧
    ((runTotal Hit.M rs + runTotal Hit.I rs : Nat) : Int) = (((p :: ps).getLast (by simp)).q.site - p.q.site).natAbs + 1 := by
  have e := expand_aggregate hs rs ha
  simp only [← count_expandRuns, e]
  exact cigar_counts rev p ps hv hs h

end Coma.Proofs
