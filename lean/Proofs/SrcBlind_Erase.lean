import Props.Defs
import Proofs.Pairing
import Proofs.Mirror
/-!
  Erasure of the unobservable `source` field (`relabel* id (fun _ => 0)`): elementary facts.
-/
namespace Coma.Proofs.SrcBlind
open Coma Coma.Spec

/-- the single entry point to the conflict-resolver equivariance proved in `Proofs/Mirror.lean` -/
theorem rc_relabel_id (τ : Int → Int) (P : Params) (C : ChainCfg) (segs : List Seg) :
    resolveConflicts P C (segs.map (relabelSeg id τ)) =
      (resolveConflicts P C segs).map (List.map (relabelSeg id τ)) :=
  Coma.Proofs.resolveConflicts_relabel_id τ P C segs

abbrev eP : Pr → Pr := relabelPr id (fun _ => 0)
abbrev eA : APos → APos := relabelAPos id (fun _ => 0)
abbrev eS : Seg → Seg := relabelSeg id (fun _ => 0)
abbrev E : Row → Row := eraseSrcRow

/-! ### pairs -/
@[simp] theorem eP_r (p : Pr) : (eP p).r = p.r := rfl
@[simp] theorem eP_q (p : Pr) : (eP p).q = p.q := rfl
@[simp] theorem eP_shift (p : Pr) : (eP p).shift = p.shift := rfl
@[simp] theorem eP_dist (p : Pr) : (eP p).dist = p.dist := rfl
@[simp] theorem eP_null : eP nullPr = nullPr := rfl

/-! ### positions -/
theorem eA_eq_eraseSrc : eA = APos.eraseSrc := by
  funext a; cases a <;> rfl

@[simp] theorem eA_isPair (a : APos) : (eA a).isPair = a.isPair := by cases a <;> rfl
@[simp] theorem eA_score (P : Params) (a : APos) : (eA a).score P = a.score P := by cases a <;> rfl
theorem eA_pair? (a : APos) : (eA a).pair? = a.pair?.map eP := by cases a <;> rfl

theorem sumScores_eA (P : Params) (xs : List APos) : sumScores P (xs.map eA) = sumScores P xs := by
  induction xs with
  | nil => rfl
  | cons a as ih => simp only [List.map_cons, sumScores, ih, eA_score]

theorem pairs_map_eA (xs : List APos) : (xs.map eA).filterMap APos.pair? = (xs.filterMap APos.pair?).map eP := by
  induction xs with
  | nil => rfl
  | cons a as ih => cases a <;> simp_all [List.filterMap_cons, relabelAPos, APos.pair?]

/-! ### segments -/
@[simp] theorem eS_peak (s : Seg) : (eS s).peak = s.peak := rfl
@[simp] theorem eS_items (s : Seg) : (eS s).items = s.items.map eA := rfl
@[simp] theorem eS_score (P : Params) (s : Seg) : (eS s).score P = s.score P := sumScores_eA P s.items
theorem eS_pairs (s : Seg) : (eS s).pairs = s.pairs.map eP := pairs_map_eA s.items
@[simp] theorem eS_isEmpty (s : Seg) : (eS s).items.isEmpty = s.items.isEmpty := by
  simp

theorem flatMap_pairs_eS (segs : List Seg) :
    (segs.map eS).flatMap Seg.pairs = (segs.flatMap Seg.pairs).map eP := by
  induction segs with
  | nil => rfl
  | cons s ss ih => simp only [List.map_cons, List.flatMap_cons, ih, eS_pairs, List.map_append]

/-! ### rows -/
@[simp] theorem E_segments (r : Row) : (E r).segments = r.segments.map eS := rfl
theorem E_pairs (r : Row) : (E r).pairs = r.pairs.map eP := flatMap_pairs_eS r.segments
@[simp] theorem E_queryId (r : Row) : (E r).queryId = r.queryId := rfl
@[simp] theorem E_referenceId (r : Row) : (E r).referenceId = r.referenceId := rfl
@[simp] theorem E_confidence (r : Row) : (E r).confidence = r.confidence := rfl

theorem head?_getD_map (l : List Pr) : ((l.map eP).head?.getD nullPr) = eP (l.head?.getD nullPr) := by
  cases l <;> rfl

theorem getLast?_getD_map (l : List Pr) : ((l.map eP).getLast?.getD nullPr) = eP (l.getLast?.getD nullPr) := by
  rw [List.getLast?_map]; cases l.getLast? <;> rfl

theorem sumInts_scores_eS (P : Params) (segs : List Seg) :
    sumInts ((segs.map eS).map (Seg.score P)) = sumInts (segs.map (Seg.score P)) := by
  congr 1
  rw [List.map_map]
  exact List.map_congr_left (fun s _ => eS_score P s)

theorem create_eS (P : Params) (segs : List Seg) (qid rid qlen rlen : Int) (rev : Bool) :
    Row.create P (segs.map eS) qid rid qlen rlen rev = E (Row.create P segs qid rid qlen rlen rev) := by
  unfold Row.create
  simp only [flatMap_pairs_eS, sumInts_scores_eS,
    isort_map eP (fun p : Pr => p.r.pos) (fun p : Pr => p.r.pos) (fun _ => rfl),
    head?_getD_map, getLast?_getD_map]
  cases rev <;> rfl

end Coma.Proofs.SrcBlind
